/* R-CURSOR / R-BOUND fixtures */
#include <stdint.h>
#include <stddef.h>
#include <string.h>
#include <errno.h>

size_t fx_scan_ok(const uint8_t *buf, size_t buf_size) { const uint8_t *p = buf, *end = buf + buf_size; size_t n = 0;
  for (; p < end; p ++) { if (' ' == *p) n ++; } return (n); }
size_t fx_scan_bad_order(const uint8_t *buf, size_t buf_size) { const uint8_t *p = buf, *end = buf + buf_size;
  while (' ' == *p && p < end) p ++; return ((size_t)(p - buf)); }
size_t fx_scan_bad_le(const uint8_t *buf, size_t buf_size) { const uint8_t *p = buf, *end = buf + buf_size; size_t n = 0;
  for (; p <= end; p ++) { if (' ' == *p) n ++; } return (n); }
int fx_copy_ok(uint8_t *dst, size_t dst_size, const uint8_t *src, size_t src_size) { if (dst_size < src_size) return (EOVERFLOW);
  memcpy(dst, src, src_size); return (0); }
int fx_copy_bad_term(uint8_t *dst, size_t dst_size, const uint8_t *src, size_t src_size) { if (dst_size < src_size) return (EOVERFLOW);
  memcpy(dst, src, src_size); dst[src_size] = 0; return (0); }
int fx_copy_ok_term(uint8_t *dst, size_t dst_size, const uint8_t *src, size_t src_size) { if (dst_size <= src_size) return (EOVERFLOW);
  memcpy(dst, src, src_size); dst[src_size] = 0; return (0); }
int fx_idx_ok(const uint8_t *buf, size_t buf_size, size_t i) { if (i >= buf_size) return (-1); return (buf[i]); }
int fx_idx_bad(const uint8_t *buf, size_t buf_size, size_t i) { if (i > buf_size) return (-1); return (buf[i]); }
int fx_peek_ok(const uint8_t *buf, size_t buf_size) { const uint8_t *p = buf, *end = buf + buf_size;
  for (; p < end; p ++) { if ('%' == *p && (p + 2) < end) { if (p[1] == p[2]) return (1); } } return (0); }
int fx_peek_bad(const uint8_t *buf, size_t buf_size) { const uint8_t *p = buf, *end = buf + buf_size;
  for (; p < end; p ++) { if ('%' == *p) { if (p[1] == p[2]) return (1); } } return (0); }
size_t fx_loop_stuck(const uint8_t *buf, size_t buf_size) { size_t i = 0, n = 0; while (i < buf_size) { if (buf[i] == 0) { n ++; continue; } i ++; } return (n); }
size_t fx_loop_ok(const uint8_t *buf, size_t buf_size) { size_t i = 0, n = 0; while (i < buf_size) { if (buf[i] == 0) { n ++; } i ++; } return (n); }
int fx_tab_ok(uint8_t c) { static const uint8_t tbl[16] = {0}; return (tbl[c & 0x0f]); }
int fx_tab_bad(uint8_t c) { static const uint8_t tbl[16] = {0}; return (tbl[c & 0x1f]); }
void *mem_find_off(size_t off, const void *buf, size_t size, const void *what, size_t wsize);
void *mem_find_ptr(const void *ptr, const void *buf, size_t size, const void *what, size_t wsize);
int fx_find_ok(const uint8_t *buf, size_t buf_size, size_t offset) { const uint8_t *p, *end = buf + buf_size;
  p = mem_find_off(offset, buf, buf_size, "\r\n", 2);
  for (; NULL != p; ) { p += 2; p = mem_find_ptr(p, buf, buf_size, "\r\n", 2); if (NULL == p) break; if ((p + 2) >= end) break; if (9 == p[2]) continue; break; } return (0); }
int fx_find_bad(const uint8_t *buf, size_t buf_size, size_t offset) { const uint8_t *p, *end = buf + buf_size;
  p = mem_find_off(offset, buf, buf_size, "\r\n", 2);
  for (; NULL != p; ) { p += 2; p = mem_find_ptr(p, buf, buf_size, "\r\n", 2); if (NULL == p) break; if ((p + 2) > end) break; if (9 == p[2]) continue; break; } return (0); }
