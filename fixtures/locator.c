/* R-AGREE (validator / locator) fixture. */
#include <stdint.h>
#include <stddef.h>

typedef struct fx_hdr_s {
	uint8_t		a:1;
	uint8_t		v:3;
	uint8_t		pad:4;
	uint8_t		opt_len;
} fx_hdr_t;

static inline int
fx_pkt_is_valid(uint8_t *pkt, size_t pkt_size) {
	if (NULL == pkt || sizeof(fx_hdr_t) > pkt_size)
		return (0);
	if (1 != ((fx_hdr_t*)pkt)->v)
		return (0);
	if (pkt_size < (sizeof(fx_hdr_t) + ((0 == ((fx_hdr_t*)pkt)->a) ? 4 : 16) + ((fx_hdr_t*)pkt)->opt_len))
		return (0);
	return (1);
}

/* clean: same unit (bytes) as the validator */
static inline uint8_t *
fx_pkt_payload_ok(uint8_t *pkt) {
	if (NULL == pkt)
		return (NULL);
	return (pkt + sizeof(fx_hdr_t) + ((0 == ((fx_hdr_t*)pkt)->a) ? 4 : 16) + ((fx_hdr_t*)pkt)->opt_len);
}

/* violation: option length taken as 32 bit words */
static inline uint8_t *
fx_pkt_payload_bad(uint8_t *pkt) {
	if (NULL == pkt)
		return (NULL);
	return (pkt + sizeof(fx_hdr_t) + ((0 == ((fx_hdr_t*)pkt)->a) ? 4 : 16) + (4 * ((fx_hdr_t*)pkt)->opt_len));
}

/* violation: address sizes swapped */
static inline uint8_t *
fx_pkt_opts_bad(uint8_t *pkt) {
	return (pkt + sizeof(fx_hdr_t) + ((0 == ((fx_hdr_t*)pkt)->a) ? 16 : 4));
}
