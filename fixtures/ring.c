/* C19 fixtures: validity siblings and resynchronisation of a rejected reader position. */
#include <stddef.h>
#include <stdint.h>

typedef struct fx_iovec_s { uint8_t *iov_base; size_t iov_len; } fx_iovec_t;
typedef struct fx_rbuf_s { uint8_t *buf; size_t size; size_t wpos; fx_iovec_t *iov; size_t iov_index; size_t iov_index_max; size_t round_num; } fx_rbuf_t;
typedef struct fx_rpos_s { size_t iov_index; size_t iov_off; size_t round_num; } fx_rpos_t;

size_t r_buf_iovec_calc_size(fx_iovec_t *iov, size_t cnt);

#define FX_CHECK(RESYNC_SLOW, STORE_LOST)						\
	size_t drop_size;								\
	if (r_buf->iov[rpos->iov_index].iov_len <= rpos->iov_off)			\
		rpos->iov_off = 0;							\
	if (rpos->round_num == r_buf->round_num) {					\
		if (rpos->iov_index <= (r_buf->iov_index + 1))				\
			return (1);							\
		rpos->iov_off = 0;							\
		rpos->iov_index = (r_buf->iov_index + 1);				\
		if (NULL != drop_size_ret)						\
			(*drop_size_ret) = 0;						\
		return (0);								\
	}										\
	if (((size_t)(rpos->round_num + 1)) == r_buf->round_num) {			\
		if (rpos->iov_index > r_buf->iov_index_max) {				\
			rpos->iov_off = 0;						\
			rpos->iov_index = 0;						\
			rpos->round_num ++;						\
			return (1);							\
		}									\
		if (rpos->iov_index > r_buf->iov_index)					\
			return (1);							\
		drop_size = (r_buf->size + r_buf_iovec_calc_size(&r_buf->iov[rpos->iov_index], (1 + r_buf->iov_index - rpos->iov_index))); \
		if (RESYNC_SLOW) {							\
			rpos->iov_off = 0;						\
			rpos->iov_index = (r_buf->iov_index + 1);			\
			rpos->round_num = r_buf->round_num;				\
		}									\
		if (NULL != drop_size_ret)						\
			(*drop_size_ret) = drop_size;					\
		return (0);								\
	}										\
	drop_size = (r_buf->size * (r_buf->round_num - rpos->round_num));		\
	rpos->iov_off = 0;								\
	rpos->iov_index = (r_buf->iov_index + 1);					\
	rpos->round_num = r_buf->round_num;						\
	if (STORE_LOST && NULL != drop_size_ret)					\
		(*drop_size_ret) = drop_size;						\
	return (0);

int fx_check_ok(fx_rbuf_t *r_buf, fx_rpos_t *rpos, size_t *drop_size_ret) { FX_CHECK(1, 1) }
/* violation: the overrun reader keeps its position */
int fx_check_bad_resync(fx_rbuf_t *r_buf, fx_rpos_t *rpos, size_t *drop_size_ret) { FX_CHECK(0, 1) }
/* violation: lost data is not reported */
int fx_check_bad_drop(fx_rbuf_t *r_buf, fx_rpos_t *rpos, size_t *drop_size_ret) { FX_CHECK(1, 0) }

int fx_fast_ok(fx_rbuf_t *r_buf, fx_rpos_t *rpos) {
	if (rpos->round_num == r_buf->round_num)
		return ((rpos->iov_index <= (r_buf->iov_index + 1)) ? 1 : 0);
	if (((size_t)(rpos->round_num + 1)) == r_buf->round_num) {
		if (rpos->iov_index > r_buf->iov_index_max)
			return (1);
		return ((rpos->iov_index > r_buf->iov_index) ? 1 : 0);
	}
	return (0);
}
/* violation: accepts the block the writer is overwriting */
int fx_fast_bad(fx_rbuf_t *r_buf, fx_rpos_t *rpos) {
	if (rpos->round_num == r_buf->round_num)
		return ((rpos->iov_index <= (r_buf->iov_index + 1)) ? 1 : 0);
	if (((size_t)(rpos->round_num + 1)) == r_buf->round_num) {
		if (rpos->iov_index > r_buf->iov_index_max)
			return (1);
		return ((rpos->iov_index >= r_buf->iov_index) ? 1 : 0);
	}
	return (0);
}
