/* R-STALE and R-GUARD0 fixtures */
#include <stddef.h>
#include <stdint.h>
#include <string.h>

int fx_next(const uint8_t *pkt, size_t off, const uint8_t **p, size_t *n);

/* clean: the guard includes the running total */
size_t fx_gather_ok(const uint8_t *pkt, uint8_t *buf, size_t buf_size) {
	size_t off = 0, tm, len = 0; const uint8_t *p;
	while (0 == fx_next(pkt, off, &p, &tm)) {
		if (buf_size < (len + tm))
			break;
		memcpy((buf + len), p, tm);
		len += tm;
		off += (tm + 2);
	}
	return (len);
}
/* violation: cursor advances, size does not, guard looks at one piece only */
size_t fx_gather_bad(const uint8_t *pkt, uint8_t *buf, size_t buf_size) {
	size_t off = 0, tm, len = 0; const uint8_t *p;
	while (0 == fx_next(pkt, off, &p, &tm)) {
		if (buf_size < tm)
			break;
		memcpy(buf, p, tm);
		buf += tm;
		len += tm;
		off += (tm + 2);
	}
	return (len);
}
/* clean: the size is examined before the constant write */
int fx_zero_ok(const uint8_t *in, size_t in_size, uint8_t *out, size_t out_size) {
	size_t tm;
	if (NULL == in || NULL == out || 2 > out_size)
		return (22);
	if (0 == in_size) {
		tm = 2;
		memset(out, '0', tm);
		return (0);
	}
	return (1);
}
/* violation: the empty-input path writes two bytes without looking at out_size */
int fx_zero_bad(const uint8_t *in, size_t in_size, uint8_t *out, size_t out_size) {
	size_t tm;
	if (NULL == in || NULL == out)
		return (22);
	if (0 == in_size) {
		tm = 2;
		memset(out, '0', tm);
		return (0);
	}
	if ((2 * in_size) > out_size)
		return (75);
	return (1);
}

/* R-AGREE tail fill */
void fx_fill_ok(uint8_t *buf, size_t buf_size, const uint8_t *a, size_t used) {
	memcpy(buf, a, used);
	memset((buf + used), 0x00, (buf_size - used));
}
/* violation: the start offset counts digits, the length counts bytes */
void fx_fill_bad(uint8_t *buf, size_t buf_size, const uint8_t *a, size_t count) {
	size_t used = (count * 8);
	memcpy(buf, a, used);
	memset((buf + count), 0x00, (buf_size - used));
}

/* stale length */
static int fx_dec(const uint8_t *buf, size_t buf_size, size_t *used) { if (0 == buf_size) return (1); (*used) = (size_t)(1 + (buf[0] & 3)); return ((*used) > buf_size); }
int fx_pair_ok(const uint8_t *buf, size_t buf_size) {
	const uint8_t *cur = buf, *end = (buf + buf_size); size_t used = 0;
	if (0 != fx_dec(cur, (size_t)(end - cur), &used)) return (1);
	cur += used;
	return (fx_dec(cur, (size_t)(end - cur), &used));
}
/* violation: the remaining size is computed once and reused after the cursor moved */
int fx_pair_bad(const uint8_t *buf, size_t buf_size) {
	const uint8_t *cur = buf, *end = (buf + buf_size); size_t used = 0, avail;
	avail = (size_t)(end - cur);
	if (0 != fx_dec(cur, avail, &used)) return (1);
	cur += used;
	return (fx_dec(cur, avail, &used));
}

/* stale end pointer */
size_t fx_end_ok(uint8_t *buf, size_t buf_size) {
	uint8_t *end; size_t n = 0;
	while (buf_size > 1 && 0 != buf[0]) {
		end = (buf + buf_size);
		memmove(buf, (buf + 1), (size_t)(end - (buf + 1)));
		buf_size --; n ++;
	}
	return (n);
}
/* violation: the end is computed once, the loop shrinks the data */
size_t fx_end_bad(uint8_t *buf, size_t buf_size) {
	uint8_t *end; size_t n = 0;
	end = (buf + buf_size);
	while (buf_size > 1 && 0 != buf[0]) {
		memmove(buf, (buf + 1), (size_t)(end - (buf + 1)));
		buf_size --; n ++;
	}
	return (n);
}
