/* R-PLEN fixtures */
#include <stdint.h>
#include <stddef.h>
#include <string.h>
#include <netinet/in.h>
int radius_pkt_attr_add(void *pkt, size_t pkt_buf_size, size_t *pkt_size_ret, uint8_t type, uint8_t len, uint8_t *data, size_t *offset_ret);
int fx_plen_ok_member(void *pkt, struct sockaddr_in *a) { return (radius_pkt_attr_add(pkt, 64, NULL, 4, sizeof(struct in_addr), (uint8_t*)&a->sin_addr, NULL)); }
int fx_plen_bad_member(void *pkt, struct sockaddr_in *a) { return (radius_pkt_attr_add(pkt, 64, NULL, 4, sizeof(struct sockaddr_in), (uint8_t*)&a->sin_addr, NULL)); }
int fx_plen_ok_local(void *pkt, uint32_t v) { return (radius_pkt_attr_add(pkt, 64, NULL, 5, 4, (uint8_t*)&v, NULL)); }
int fx_plen_bad_local(void *pkt, uint16_t v) { return (radius_pkt_attr_add(pkt, 64, NULL, 5, 4, (uint8_t*)&v, NULL)); }
int fx_plen_ok_array(uint8_t *dst) { uint8_t d[16]; memset(d, 0, 16); memcpy(dst, d, sizeof(d)); return (0); }
