/* R-TS fixtures for bn_t / ec_point_t; uses the real headers */
#include <sys/param.h>
#include <sys/types.h>
#include <inttypes.h>
#include <string.h>
#include <stdio.h>
#include <errno.h>
#include "math/elliptic_curve.h"

int fx_ok(bn_p a) { bn_t t; BN_RET_ON_ERR(bn_init(&t, 64)); BN_RET_ON_ERR(bn_assign(&t, a)); return (0); }
int fx_ok_goto(bn_p a, int c) { bn_t t; if (c) { BN_RET_ON_ERR(bn_init(&t, 64)); goto use; } else { BN_RET_ON_ERR(bn_init(&t, 128));
use: BN_RET_ON_ERR(bn_assign(&t, a)); } return (0); }
int fx_bad_uninit(bn_p a) { bn_t t; BN_RET_ON_ERR(bn_assign(&t, a)); return (0); }
int fx_bad_one_path(bn_p a, int c) { bn_t t; if (c) { BN_RET_ON_ERR(bn_init(&t, 64)); } BN_RET_ON_ERR(bn_assign(&t, a)); return (0); }
int fx_ok_point(ec_point_p p) { ec_point_t q; BN_RET_ON_ERR(ec_point_init(&q, 64)); BN_RET_ON_ERR(bn_assign(&q.x, &p->x)); q.infinity = 0; return (0); }
int fx_bad_point_field(ec_point_p p) { ec_point_t q; q.infinity = 0; BN_RET_ON_ERR(bn_assign(&q.y, &p->y)); return (0); }
int fx_ok_elem(ec_point_p p, size_t n) { ec_point_t tbl[8]; size_t i; BN_RET_ON_ERR(ec_point_init(&tbl[0], 64));
 for (i = 1; i < n; i ++) { BN_RET_ON_ERR(ec_point_init(&tbl[i], 64)); BN_RET_ON_ERR(ec_point_assign(&tbl[i], &tbl[(i - 1)])); } return (0); }
int fx_bad_elem_index(ec_point_p p, size_t n) { ec_point_t tbl[8]; size_t i; BN_RET_ON_ERR(ec_point_init(&tbl[0], 64));
 for (i = 1; i < n; i ++) { BN_RET_ON_ERR(ec_point_init(&tbl[1], 64)); BN_RET_ON_ERR(ec_point_assign(&tbl[i], &tbl[(i - 1)])); } return (0); }
int fx_ok_loop_range(ec_point_p p) { ec_point_t tbl[4]; size_t i; for (i = 0; i < 4; i ++) { BN_RET_ON_ERR(ec_point_init(&tbl[i], 64)); }
 BN_RET_ON_ERR(ec_point_assign(&tbl[3], p)); BN_RET_ON_ERR(ec_point_assign(&tbl[0], p)); return (0); }

int fx_jac_ok(ec_point_proj_p a, ec_point_p b) { if (0 != bn_is_zero(&a->y)) return (1); return (bn_is_equal(&b->x, &b->y)); }
int fx_jac_bad(ec_point_proj_p a, ec_point_p b) { return (bn_is_equal(&a->y, &b->y)); }
