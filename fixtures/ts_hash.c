/* typestate fixtures for hash / HMAC contexts; uses the real md5.h API */
#include <sys/param.h>
#include <sys/types.h>
#include <inttypes.h>
#include <string.h>
#include <errno.h>
#include "crypto/hash/md5.h"

void fx_ok(const uint8_t *d, size_t n, uint8_t *out) { md5_ctx_t c; md5_init(&c); md5_update(&c, d, n); md5_final(&c, out); }
void fx_ok_reinit(const uint8_t *d, size_t n, uint8_t *out) { md5_ctx_t c; md5_init(&c); md5_final(&c, out); md5_init(&c); md5_update(&c, d, n); md5_final(&c, out); }
uint64_t fx_bad_read_after_final(const uint8_t *d, size_t n, uint8_t *out) { md5_ctx_t c; md5_init(&c); md5_update(&c, d, n); md5_final(&c, out); return (c.count); }
void fx_bad_update_after_final(const uint8_t *d, size_t n, uint8_t *out) { md5_ctx_t c; md5_init(&c); md5_final(&c, out); md5_update(&c, d, n); }
void fx_bad_noinit(const uint8_t *d, size_t n, uint8_t *out) { md5_ctx_t c; md5_update(&c, d, n); md5_final(&c, out); }

int fx_hmac_ok(const uint8_t *k, size_t kl, const uint8_t *d, size_t n, uint8_t *out) { hmac_md5_ctx_t h; if (!k) return (EINVAL); hmac_md5_init(k, kl, &h); hmac_md5_update(&h, d, n); hmac_md5_final(&h, out); return (0); }
int fx_hmac_bad_exit(const uint8_t *k, size_t kl, const uint8_t *d, size_t n, uint8_t *out) { hmac_md5_ctx_t h; hmac_md5_init(k, kl, &h); if (n == 0) return (EINVAL); hmac_md5_update(&h, d, n); hmac_md5_final(&h, out); return (0); }
