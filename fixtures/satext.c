/* C18 fixtures: text layout (R-LAYOUT) and family arm / record agreement (R-KIND). */
#include <sys/types.h>
#include <sys/socket.h>
#include <sys/un.h>
#include <netinet/in.h>
#include <stdint.h>
#include <stddef.h>
#include <errno.h>

int fx_addr_to_str(const struct sockaddr_storage *addr, char *buf, size_t buf_size, size_t *buf_size_ret);
int fx_u162str(uint16_t num, char *buf, size_t buf_size, size_t *buf_size_ret);
uint16_t fx_port_get(const struct sockaddr_storage *addr);

#define FX_BODY(GUARD, RB, NUL, ADV)							\
	int error = 0;									\
	uint16_t port;									\
	size_t size_ret = 0, port_size = 0;						\
	if (NULL == addr || NULL == buf || 0 == buf_size)				\
		return (EINVAL);							\
	switch (addr->ss_family) {							\
	case AF_INET:									\
		error = fx_addr_to_str(addr, buf, buf_size, &size_ret);			\
		if (0 != error)								\
			goto err_out;							\
		break;									\
	case AF_INET6:									\
		if (GUARD > buf_size) {							\
			error = ENOSPC;							\
			goto err_out;							\
		}									\
		error = fx_addr_to_str(addr, (buf + 1), (buf_size - 2), &size_ret);	\
		if (0 != error)								\
			goto err_out;							\
		buf[0] = '[';								\
		buf[size_ret + RB] = ']';						\
		buf[size_ret + NUL] = 0x00;						\
		size_ret += ADV;							\
		break;									\
	default:									\
		return (EAFNOSUPPORT);							\
	}										\
	port = fx_port_get(addr);							\
	if (0 != port) {								\
		if (buf_size < (size_ret + 7)) {					\
			size_ret += 7;							\
			error = ENOSPC;							\
			goto err_out;							\
		}									\
		buf[size_ret++] = ':';							\
		error = fx_u162str(port, (buf + size_ret), (size_t)(buf_size - size_ret), &port_size); \
		if (0 != error)								\
			return (error);							\
		size_ret += port_size;							\
	}										\
err_out:										\
	if (NULL != buf_size_ret) {							\
		(*buf_size_ret) = size_ret;						\
	}										\
	return (error);

int fx_text_ok(const struct sockaddr_storage *addr, char *buf, size_t buf_size, size_t *buf_size_ret) { FX_BODY(3, 1, 2, 2) }
/* violation: the bracket replaces the last address character */
int fx_text_bad_bracket(const struct sockaddr_storage *addr, char *buf, size_t buf_size, size_t *buf_size_ret) { FX_BODY(3, 0, 1, 1) }
/* violation: buf_size - 2 wraps for one-byte buffers */
int fx_text_bad_wrap(const struct sockaddr_storage *addr, char *buf, size_t buf_size, size_t *buf_size_ret) { FX_BODY(1, 1, 2, 2) }

/* R-KIND */
socklen_t fx_size_ok(const struct sockaddr_storage *addr) {
	switch (addr->ss_family) {
	case AF_INET:
		return (sizeof(struct sockaddr_in));
	case AF_INET6:
		return (sizeof(struct sockaddr_in6));
	}
	return (0);
}
socklen_t fx_size_bad(const struct sockaddr_storage *addr) {
	switch (addr->ss_family) {
	case AF_INET:
		return (sizeof(struct sockaddr_in));
	case AF_INET6:
		return (sizeof(struct sockaddr_in));
	}
	return (0);
}
uint16_t fx_port_bad(const struct sockaddr_storage *addr) {
	switch (addr->ss_family) {
	case AF_INET:
		return (((const struct sockaddr_in6*)addr)->sin6_port);
	case AF_INET6:
		return (((const struct sockaddr_in6*)addr)->sin6_port);
	}
	return (0);
}
