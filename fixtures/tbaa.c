/* R-TBAA fixture: typed objects accessed through cast pointers. */
#include <stdint.h>
#include <stddef.h>

typedef uint64_t __attribute__((__may_alias__)) fx_u64a_t;

struct fx_ctx { uint32_t state[16]; uint32_t x[16]; };

/* violation: uint32_t arrays read and written as uint64_t */
void fx_copy_bad(struct fx_ctx *c) {
	size_t i;
	for (i = 0; i < 8; i ++) {
		((uint64_t*)(void*)(size_t)c->x)[i] = ((const uint64_t*)(const void*)c->state)[i];
	}
}

/* violation: local float read as an integer */
uint32_t fx_pun_bad(void) {
	float f = 1.0f;
	return (*(uint32_t*)&f);
}

/* clean: may_alias typedef */
void fx_copy_ok(struct fx_ctx *c) {
	size_t i;
	for (i = 0; i < 8; i ++) {
		((fx_u64a_t*)(void*)(size_t)c->x)[i] = ((const fx_u64a_t*)(const void*)c->state)[i];
	}
}

/* clean: character access and same-width signedness change */
uint32_t fx_bytes_ok(struct fx_ctx *c) {
	return (((const uint8_t*)c->state)[3] + (uint32_t)((int32_t*)c->x)[1]);
}

/* clean: parameter of unknown effective type */
uint32_t fx_param_ok(const uint8_t *p) {
	return (((const uint32_t*)(const void*)p)[0]);
}

/* record pointer casts */
struct fx_hdr { unsigned char code; unsigned char id; unsigned short len; };
struct fx_iobuf { unsigned char *data; unsigned long size; };
struct fx_task { struct fx_hdr h; int x; };
int fx_reccast_ok(struct fx_iobuf *buf, struct fx_task *t) { return (((struct fx_hdr *)buf->data)->code + ((struct fx_hdr *)t)->id); }
/* violation: the buffer object itself is read as a packet header */
int fx_reccast_bad(struct fx_iobuf *buf) { return (((struct fx_hdr *)buf)->code); }
