/* R-STRIDE fixtures: TLV walkers */
#include <stdint.h>
#include <stddef.h>
#include <errno.h>

typedef struct fx_tlv_s { uint8_t type; uint8_t len; } fx_tlv_t;

static int fx_chk(const fx_tlv_t *a) { if (NULL == a) return (EINVAL); if (2 > a->len) return (EBADMSG); return (0); }
static int fx_chk_weak(const fx_tlv_t *a) { if (NULL == a) return (EINVAL); if (0 == a->type) return (EBADMSG); return (0); }

int fx_tlv_ok(const uint8_t *buf, size_t size) { const fx_tlv_t *a = (const fx_tlv_t*)buf;
  while (0 != size) { if (size < 2) return (EBADMSG); if (size < a->len) return (EBADMSG); if (2 > a->len) return (EBADMSG);
    size -= a->len; a = (const fx_tlv_t*)(((const uint8_t*)a) + a->len); } return (0); }
int fx_tlv_ok_callee(const uint8_t *buf, size_t size) { const fx_tlv_t *a = (const fx_tlv_t*)buf; int error;
  while (0 != size) { if (size < 2) return (EBADMSG); if (size < a->len) return (EBADMSG); error = fx_chk(a); if (0 != error) return (error);
    size -= a->len; a = (const fx_tlv_t*)(((const uint8_t*)a) + a->len); } return (0); }
int fx_tlv_ok_plus(const uint8_t *buf, size_t size) { const fx_tlv_t *a = (const fx_tlv_t*)buf;
  while (0 != size) { if (size < 2) return (EBADMSG); if (size < (size_t)(a->len + 2)) return (EBADMSG);
    size -= (a->len + 2); a = (const fx_tlv_t*)(((const uint8_t*)a) + a->len + 2); } return (0); }
int fx_tlv_bad(const uint8_t *buf, size_t size) { const fx_tlv_t *a = (const fx_tlv_t*)buf;
  while (0 != size) { if (size < 2) return (EBADMSG); if (size < a->len) return (EBADMSG);
    size -= a->len; a = (const fx_tlv_t*)(((const uint8_t*)a) + a->len); } return (0); }
int fx_tlv_bad_callee(const uint8_t *buf, size_t size) { const fx_tlv_t *a = (const fx_tlv_t*)buf; int error;
  while (0 != size) { if (size < 2) return (EBADMSG); if (size < a->len) return (EBADMSG); error = fx_chk_weak(a); if (0 != error) return (error);
    size -= a->len; a = (const fx_tlv_t*)(((const uint8_t*)a) + a->len); } return (0); }
