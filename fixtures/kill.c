/* R-KILL fixture */
#include <stddef.h>
typedef struct fx_pt_s { int x; int y; int infinity; } fx_pt_t;
static inline int fx_pt_init(fx_pt_t *p, int bits) { if (NULL == p) return (22); p->x = 0; p->y = bits; p->infinity = 0; return (0); }
int fx_pt_add(fx_pt_t *a, fx_pt_t *b);

int fx_sub_ok(fx_pt_t *a, fx_pt_t *b) {
	fx_pt_t tm;
	if (0 != fx_pt_init(&tm, 8)) return (22);
	tm.x = b->x; tm.y = -b->y;
	tm.infinity = b->infinity;
	return (fx_pt_add(a, &tm));
}
/* violation: the flag is copied before the initialiser clears it */
int fx_sub_bad(fx_pt_t *a, fx_pt_t *b) {
	fx_pt_t tm;
	tm.infinity = b->infinity;
	if (0 != fx_pt_init(&tm, 8)) return (22);
	tm.x = b->x; tm.y = -b->y;
	return (fx_pt_add(a, &tm));
}
/* clean: the stored value is read before the re-initialisation */
int fx_sub_read_ok(fx_pt_t *a, fx_pt_t *b) {
	fx_pt_t tm;
	int inf;
	tm.infinity = b->infinity;
	inf = tm.infinity;
	if (0 != fx_pt_init(&tm, 8)) return (22);
	tm.infinity = inf;
	return (fx_pt_add(a, &tm));
}
