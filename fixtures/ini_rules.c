/* C17 fixtures: generator bound */
#include <stdint.h>
#include <stddef.h>
#include <string.h>
typedef struct fx_line_s { uint8_t *data; size_t data_size; } fx_line_t;
typedef struct fx_ini_s { fx_line_t **lines; size_t lines_count; } fx_ini_t, *ini_p;
int fx_gen_bad(const ini_p ini, uint8_t *buf, const size_t buf_size, size_t *buf_size_ret) { int error = 0; size_t i, off;
  for (i = 0, off = 0; i < ini->lines_count; i ++) { if (NULL == ini->lines[i]) continue;
    if ((ini->lines[i]->data_size + 2) > buf_size) { error = -1; break; }
    memcpy((buf + off), ini->lines[i]->data, ini->lines[i]->data_size); off += ini->lines[i]->data_size; buf[off ++] = '\r'; buf[off ++] = '\n'; }
  (*buf_size_ret) = off; return (error); }
int fx_gen_ok(const ini_p ini, uint8_t *buf, const size_t buf_size, size_t *buf_size_ret) { int error = 0; size_t i, off;
  for (i = 0, off = 0; i < ini->lines_count; i ++) { if (NULL == ini->lines[i]) continue;
    if ((off + ini->lines[i]->data_size + 2) > buf_size) { error = -1; break; }
    memcpy((buf + off), ini->lines[i]->data, ini->lines[i]->data_size); off += ini->lines[i]->data_size; buf[off ++] = '\r'; buf[off ++] = '\n'; }
  (*buf_size_ret) = off; return (error); }
