/* R-DIV / R-SHIFT / R-WIDTH fixtures */
#include <stdint.h>
#include <stddef.h>
#include <errno.h>
typedef uint8_t bn_digit_t;
#define BN_MAX_DIGIT ((bn_digit_t)~0)

int fx_div_ok(uint64_t a, uint64_t b, uint64_t *r) { if (0 == b) return (EINVAL); *r = a / b; return (0); }
int fx_div_ok_loop(uint64_t a, uint64_t b) { uint64_t t; while (0 != b) { t = a % b; a = b; b = t; } return ((int)a); }
int fx_div_ok_plus1(uint64_t a, uint64_t t, uint64_t *r) { if (t != UINT64_MAX) { *r = a / (t + 1); } return (0); }
int fx_div_bad(uint64_t a, uint64_t b, uint64_t *r) { *r = a / b; return (0); }
int fx_div_bad_rewritten(uint64_t a, uint64_t b, uint64_t c, uint64_t *r) { if (0 == b) return (EINVAL); b = c; *r = a % b; return (0); }

uint64_t fx_shift_ok_mod(uint64_t a, size_t bit) { return (a >> (bit % 64)); }
int fx_shift_ok_guard(uint64_t a, size_t n, uint64_t *r) { if (n > 63) return (EINVAL); *r = (a << n); return (0); }
int fx_shift_bad_boundary(uint64_t a, size_t n, uint64_t *r) { if (n > 8) return (EINVAL); *r = (((uint64_t)1) << (1 + (n * 8))); return (0); }

int fx_width_ok(bn_digit_t a, bn_digit_t b) { bn_digit_t s = (bn_digit_t)(a + b); return (s < a); }
int fx_width_bad(bn_digit_t a, bn_digit_t b) { return ((a + b) < a); }

void fx_carry_ok(uint64_t *a, const uint64_t *b, size_t n) { size_t i; uint64_t crr = 0, ai, tm; for (i = 0; i < n; i ++) { ai = a[i] + crr; tm = b[i];
  crr = ((ai < crr) ? 1 : 0); if (0 != tm) { ai += tm; if (ai < tm) { crr = 1; } } a[i] = ai; } }
void fx_carry_bad(uint64_t *a, const uint64_t *b, size_t n) { size_t i; uint64_t crr = 0, ai, tm; for (i = 0; i < n; i ++) { ai = a[i] + crr; tm = b[i];
  crr = ((ai < crr) ? 1 : 0); if (0 != tm) { ai += tm; crr = ((ai < tm) ? 1 : 0); } a[i] = ai; } }

void fx_wshift_ok(uint64_t a, uint64_t b, size_t h, uint64_t *lo, uint64_t *hi) { uint64_t l, g; l = (a << h); g = (a >> (64 - h)); *lo = l; *hi = g; (void)b; }
void fx_wshift_bad(uint64_t a, uint64_t b, size_t h, uint64_t *lo, uint64_t *hi) { uint64_t l, g; l = (a << h); g = (b >> (64 - h)); *lo = l; *hi = g; }
