/* R-ERR / R-MPT fixtures: seeded violations and clean twins. */
#include <errno.h>
#include <stddef.h>

#define FX_RET_ON_ERR(__err) do { int ret_error = (__err); if (0 != ret_error) return (ret_error); } while (0)

static int fx_status(int x) { if (x < 0) return (EINVAL); return (0); }
static int fx_status2(int x) { return (fx_status(x)); }
static int fx_cmp(int a, int b) { if (a < b) return (-1); if (a > b) return (1); return (0); }

int fx_bad_discard(int x) { fx_status(x); return (0); }
int fx_bad_void(int x) { (void)fx_status2(x); return (0); }
int fx_bad_stored_unread(int x) { int e; e = fx_status(x); e = 0; return (e); }
int fx_bad_stored_one_path(int x, int y) { int e = fx_status(x); if (y) return (0); return (e); }

int fx_good_macro(int x) { FX_RET_ON_ERR(fx_status(x)); return (0); }
int fx_good_if(int x) { if (0 != fx_status2(x)) return (EINVAL); return (0); }
int fx_good_stored(int x) { int e = fx_status(x); if (e) return (e); return (0); }
int fx_good_switch(int x) { switch (fx_status(x)) { case 0: return (0); default: return (EINVAL); } }
int fx_good_ret(int x) { return (fx_status(x)); }

/* guards */
int fx_guard_ok(int r, int n) { if (fx_cmp(r, n) >= 0) return (EINVAL); return (0); }
int fx_guard_ok2(int r, int n) { if (!(0 > fx_cmp(r, n))) { return (EINVAL); } else { return (0); } }
int fx_guard_wrong_dir(int r, int n) { if (fx_cmp(r, n) > 0) return (EINVAL); return (0); }
int fx_guard_missing(int r, int n) { if (r == 7) return (EINVAL); return (0); }
int fx_guard_bypass(int r, int n) { if (n == 3) goto out; if (fx_cmp(r, n) >= 0) return (EINVAL); out: return (0); }

int fx_switch_ok(int a) { switch (a) { case 0: a++; break; case 1: a--; break; default: return (EINVAL); } return (0); }
int fx_switch_nodefault(int a) { switch (a) { case 0: a++; break; case 1: a--; break; } return (0); }
int fx_switch_missing(int a) { switch (a) { case 0: a++; break; default: return (EINVAL); } return (0); }
