/* R-WIPE fixtures */
#include <string.h>
#include <stdint.h>
typedef struct { uint32_t h[4]; uint64_t count; uint8_t buf[64]; } fx_ctx_t;
static void *(*volatile fx_memset_volatile)(void *, int, size_t) = memset;
#define fx_bzero(m, s) fx_memset_volatile((m), 0x00, (s))

void fx_final_ok(fx_ctx_t *ctx, uint8_t *d) { memcpy(d, ctx->h, 16); fx_bzero(ctx, sizeof(fx_ctx_t)); }
void fx_final_ok_branches(fx_ctx_t *ctx, uint8_t *d) { if (d) { memcpy(d, ctx->h, 16); } else { ctx->count = 0; } fx_bzero(ctx, sizeof(*ctx)); }
void fx_final_nowipe(fx_ctx_t *ctx, uint8_t *d) { memcpy(d, ctx->h, 16); }
void fx_final_plain_memset(fx_ctx_t *ctx, uint8_t *d) { memcpy(d, ctx->h, 16); memset(ctx, 0, sizeof(fx_ctx_t)); }
void fx_final_partial(fx_ctx_t *ctx, uint8_t *d) { memcpy(d, ctx->h, 16); fx_bzero(ctx, sizeof(ctx->h)); }
void fx_final_one_path(fx_ctx_t *ctx, uint8_t *d) { if (!d) return; memcpy(d, ctx->h, 16); fx_bzero(ctx, sizeof(fx_ctx_t)); }
void fx_final_touch_after(fx_ctx_t *ctx, uint8_t *d) { fx_bzero(ctx, sizeof(fx_ctx_t)); memcpy(ctx->buf, d, 16); }
