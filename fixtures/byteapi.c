/* R-BOUND fixtures for the byte API (C09) */
#include <stdint.h>
#include <stddef.h>
#include <errno.h>
#define MIN(a, b) (((a) < (b)) ? (a) : (b))
typedef struct fx_bn_s { size_t digits; uint64_t num[8]; } fx_bn_t;
typedef struct fx_curve_s { size_t m; } fx_curve_t;
int bn_import_be_bin(fx_bn_t *bn, const uint8_t *buf, size_t buf_size);

int fx_sign_ok_be(fx_curve_t *curve, uint8_t *priv_key, size_t priv_key_size, uint8_t *rnd, size_t rnd_size) { size_t bytes; fx_bn_t s, d; int e;
  if (NULL == curve || NULL == priv_key || 0 == priv_key_size || NULL == rnd || 0 == rnd_size) return (EINVAL);
  bytes = ((curve->m + 7) / 8); if (rnd_size < priv_key_size || priv_key_size > bytes) return (EINVAL);
  e = bn_import_be_bin(&s, rnd, MIN(rnd_size, bytes)); if (0 != e) return (e);
  e = bn_import_be_bin(&d, priv_key, priv_key_size); if (0 != e) return (e); return (0); }
int fx_sign_bad_be(fx_curve_t *curve, uint8_t *priv_key, size_t priv_key_size, uint8_t *rnd, size_t rnd_size) { size_t bytes; fx_bn_t s, d; int e;
  if (NULL == curve || NULL == priv_key || 0 == priv_key_size || NULL == rnd || 0 == rnd_size) return (EINVAL);
  bytes = ((curve->m + 7) / 8); if (rnd_size < priv_key_size || priv_key_size > bytes) return (EINVAL);
  e = bn_import_be_bin(&s, rnd, bytes); if (0 != e) return (e);
  e = bn_import_be_bin(&d, priv_key, priv_key_size); if (0 != e) return (e); return (0); }
