/* R-ENDIAN fixture: byte-order typestate of wire fields. */
#include <stdint.h>
#include <stddef.h>
#include <arpa/inet.h>

typedef struct fx_whdr_s { uint16_t id; uint16_t count; uint32_t ttl; } fx_whdr_t;

static inline uint16_t fx_count_get(fx_whdr_t *h) { return (ntohs(h->count)); }
static inline void fx_count_set(fx_whdr_t *h, uint16_t v) { h->count = htons(v); }
static inline uint32_t fx_ttl_get(fx_whdr_t *h) { return (ntohl(h->ttl)); }

/* clean */
static inline void fx_inc_ok(fx_whdr_t *h, uint16_t v) { h->count = htons((uint16_t)(ntohs(h->count) + v)); }
static inline int fx_cmp_ok(fx_whdr_t *h) { return (h->count == htons(3) || 0 == h->count); }
static inline void fx_copy_ok(fx_whdr_t *d, fx_whdr_t *s) { uint16_t t = s->count; d->count = t; d->ttl = s->ttl; }
static inline void fx_flip_ok(fx_whdr_t *h) { h->count = ntohs(h->count); }

/* violations */
static inline void fx_inc_bad(fx_whdr_t *h, uint16_t v) { h->count = (uint16_t)(h->count + htons(v)); }
static inline void fx_store_bad(fx_whdr_t *h) { h->count = 5; }
static inline int fx_lt_bad(fx_whdr_t *h, size_t lim) { return (h->ttl < lim); }
static const uint32_t fx_tbl[2] = { 0x80, 0xc0 };
static inline int fx_lt_tbl_ok(fx_whdr_t *h, int i) { return (h->ttl < fx_tbl[i]); }
static inline uint16_t fx_local_bad(fx_whdr_t *h) { uint16_t t = h->count; return ((uint16_t)(t + 1)); }
static inline void fx_double_bad(fx_whdr_t *h, uint16_t v) { uint16_t n = htons(v); h->count = htons(n); }
