"""R-STRIDE: a loop whose progress measure moves by a length taken from the data it walks (TLV walkers)
makes progress only if that length cannot be zero when the stride statement is reached.

For every loop and every statement  v -= E / v += E / v = v +- E  inside it, where v is tested by one of the
loop's exit branches and E reads memory through a pointer (one distinct field F of the walked data):

  Z = the small values z of F for which E evaluates to <= 0 (no movement).
  For each z in Z the loop body is explored from the loop head by a *partial evaluator* that knows only F = z:
  branches whose condition is decided by that knowledge follow the decided edge; branches that do not depend
  on it follow both edges; calls to functions of the unit that receive F (or the pointer F is read through) are
  explored the same way (depth 2) and contribute their possible return values.  A branch that depends on F but
  cannot be evaluated taints the path ("unsure").

    the stride statement is unreachable                     -> proved   (every zero length is rejected first)
    reachable along a path with no unsure branch            -> violated (an element with F = z never advances)
    reachable only along unsure paths                       -> undecided

This is a static rule over the CFG: nothing is executed; conditions are folded with one bound atom.
"""
from . import core, r_mpt
from .core import walk, key, strip_casts, const_val

UNSURE = "unsure"
BSWAP = {"htons": 16, "ntohs": 16, "htonl": 32, "ntohl": 32, "__bswap_16": 16, "__bswap_32": 32}   # little-endian host
MAXDEPTH = 2


def _reads(e):
    return [x for x, _ in walk(e) if (x.get("k") == "mem" and x.get("arrow")) or
            (x.get("k") == "un" and x.get("op") == "*") or x.get("k") == "sub"]


class PE:
    """partial evaluator over one unit"""

    def __init__(self, unit, call_default=None):
        self.u = unit
        self.memo = {}
        self.call_default = call_default or {}     # callee name -> value assumed for its result (e.g. status 0)
        self.out_default = {}                      # callee name -> {arg index: value stored through that &var argument}
        self.memory = {}                           # address -> byte value (a small window of abstract buffer contents)
        self.wrap = False                          # True: + - * << ~ on unsigned integer types are reduced modulo 2^width

    # ---- expression evaluation with a key->value binding
    def _hook(self, bind, callvals):
        u = self.u

        def hook(n, rec):
            if id(n) in callvals:
                v = callvals[id(n)]
                if v is None:
                    raise r_mpt.Unknown()
                return v
            k = n.get("k")
            if k == "lazy" and n.get("lz") is not None:
                return rec(n["lz"])
            if k == "cond":
                return rec(n["x"]) if rec(n["c"]) else rec(n["y"])
            if k == "call":
                kk = key(n)
                if kk in bind:
                    if bind[kk] == UNSURE:
                        raise r_mpt.Unknown()
                    return bind[kk]
                if n.get("fn") in self.call_default:
                    return self.call_default[n["fn"]]
                if n.get("fn") in BSWAP and len(n["args"]) == 1:
                    v = rec(n["args"][0])
                    w = BSWAP[n["fn"]]
                    return int.from_bytes((v & ((1 << w) - 1)).to_bytes(w // 8, "little"), "big")
                return None
            if k in ("ref", "mem", "sub") or (k == "un" and n.get("op") == "*"):
                kk = key(n)
                if kk in bind:
                    if bind[kk] == UNSURE:
                        raise r_mpt.Unknown()
                    return bind[kk]
                if self.memory and (k == "sub" or (k == "un" and n.get("op") == "*") or
                                    (k == "mem" and "t" in n and u.type(n["t"])["k"] != "arr")):
                    try:
                        a = self._addr(n, rec)
                    except r_mpt.Unknown:
                        a = None
                    if a in self.memory:
                        return self.memory[a]
                if k in ("mem", "ref") and "t" in n and u.type(n["t"])["k"] == "arr":
                    return self._addr(n, rec)        # an array used as a pointer: its address
                return None
            if k == "un" and n.get("op") == "&":
                return self._addr(strip_casts(n["e"]), rec)
            if k == "un" and n.get("op") in ("post++", "post--"):
                return rec(n["e"])                # value before the update; the update is applied after the statement
            if k == "un" and n.get("op") in ("pre++", "pre--"):
                es = 1
                if "t" in n["e"] and u.type(n["e"]["t"])["k"] == "ptr":
                    es = u.elem_size(n["e"]["t"]) or 1
                return rec(n["e"]) + (es if n["op"] == "pre++" else -es)
            if k == "bin" and n["op"] in ("+", "-") and "t" in n["x"] and "t" in n["y"]:
                tx, ty = u.type(n["x"]["t"]), u.type(n["y"]["t"])
                px, py = tx["k"] in ("ptr", "arr"), ty["k"] in ("ptr", "arr")
                if px and not py:
                    es = u.elem_size(n["x"]["t"]) or 1
                    return rec(n["x"]) + (rec(n["y"]) * es if n["op"] == "+" else -rec(n["y"]) * es)
                if py and not px and n["op"] == "+":
                    es = u.elem_size(n["y"]["t"]) or 1
                    return rec(n["y"]) + rec(n["x"]) * es
                if px and py and n["op"] == "-":
                    es = u.elem_size(n["x"]["t"]) or 1
                    return (rec(n["x"]) - rec(n["y"])) // es
                return None
            if self.wrap and "t" in n and "cv" not in n and ((k == "bin" and n["op"] in ("+", "-", "*", "<<")) or (k == "un" and n.get("op") in ("~", "-"))):
                t = u.type(n["t"])
                if t["k"] == "int" and not t.get("sg"):
                    w = t.get("w", 64)
                    if k == "un":
                        v = rec(n["e"])
                        return (~v if n["op"] == "~" else -v) & ((1 << w) - 1)
                    a, b = rec(n["x"]), rec(n["y"])
                    if n["op"] == "<<" and not 0 <= b < w:
                        raise r_mpt.Unknown()
                    v = {"+": a + b, "-": a - b, "*": a * b, "<<": a << b if n["op"] == "<<" else 0}[n["op"]]
                    return v & ((1 << w) - 1)
            if k == "cast" and "cv" not in n:
                t = u.type(n["t"]) if "t" in n else None
                if t is not None and t["k"] == "int" and n.get("ck") in ("IntegralCast", None, "NoOp"):
                    v = rec(n["e"])
                    w = t.get("w", 64)
                    v &= (1 << w) - 1
                    if t.get("sg") and v >= 1 << (w - 1):
                        v -= 1 << w
                    return v
                return None
            if k == "bin" and n["op"] in ("<", ">", "<=", ">="):
                # comparisons of an unsigned value with zero are decided whatever the value
                def val(x):
                    try:
                        return rec(x)
                    except r_mpt.Unknown:
                        return None
                a, b = val(n["x"]), val(n["y"])
                if a is not None and b is not None:
                    return None
                ta = u.type(n["x"]["t"]) if "t" in n["x"] else None
                tb = u.type(n["y"]["t"]) if "t" in n["y"] else None
                uns = lambda t: t is not None and t["k"] == "int" and not t.get("sg") and t.get("w", 0) >= 32
                if a is None and b == 0 and uns(ta):
                    return {"<": 0, ">=": 1}.get(n["op"])
                if b is None and a == 0 and uns(tb):
                    return {">": 0, "<=": 1}.get(n["op"])
                return None
            return None
        return hook

    def _addr(self, lv, rec):
        """address of an lvalue  p->f / s.f / a[i] / *p  built from bound pointers and record layouts"""
        u = self.u
        k = lv.get("k")
        if k == "mem":
            rc = u.records.get(lv.get("rec"))
            off = None
            for f in (rc or {}).get("fields", []):
                if f["n"] == lv["f"]:
                    off = f["off"] // 8
            if off is None and lv.get("off") is not None:
                off = lv["off"] // 8          # anonymous / system record: the offset the front end computed
            if off is None:
                raise r_mpt.Unknown()
            base = rec(lv["b"]) if lv.get("arrow") else self._addr(strip_casts(lv["b"]), rec)
            return base + off
        if k == "sub":
            es = u.elem_size(lv["b"]["t"]) if "t" in lv["b"] else None
            return rec(lv["b"]) + rec(lv["i"]) * (es or 1)
        if k == "un" and lv.get("op") == "*":
            return rec(lv["e"])
        if k == "cast":
            return self._addr(lv["e"], rec)
        if k == "ref" and lv.get("dk") in ("local", "parm") and "id" in lv:
            # objects of the function itself get distinct pseudo addresses
            tab = self.__dict__.setdefault("_locals", {})
            if lv["id"] not in tab:
                tab[lv["id"]] = 0x1000000 + 0x10000 * len(tab)
            return tab[lv["id"]]
        raise r_mpt.Unknown()

    def explore(self, fn, start, bind, stops=(), depth=0):
        """all outcomes from the start of block `start`: ('ret', value|None, sure) and ('stop', block, sure) when a block of
        `stops` is entered (the start block itself counts only when re-entered)"""
        outs = set()
        seen = set()
        work = [(start, bind, True, True)]
        steps = 0
        while work and steps < 4000:
            steps += 1
            bid, b, s, first = work.pop()
            if bid in stops and not first:
                outs.add(("stop", bid, s))
                continue
            st = (bid, tuple(sorted(b.items(), key=str)), s)
            if st in seen:
                continue
            seen.add(st)
            blk = fn.blocks[bid]
            rets = [e for e in blk.elems if e.get("k") == "ret"]
            for nb, s2, _ in self.step_block(fn, bid, b, s, depth):
                if rets:
                    r = rets[-1]
                    if r.get("e") is None:
                        outs.add(("ret", None, s2))
                    else:
                        for v, s3 in self.evals(r["e"], nb, depth):
                            outs.add(("ret", v, s2 and s3))
                    continue
                for nx, nb2, s3 in self.branch(fn, bid, nb, s2, depth):
                    if nx == fn.exit:
                        outs.add(("ret", None, s3))
                    else:
                        work.append((nx, nb2, s3, False))
        if work:
            outs.add(("ret", None, False))
        return outs

    def depends(self, e, bind):
        """is the value of e (partly) determined by the binding?  A value read from memory through a bound pointer is
        not: only the bound lvalues themselves, and calls that receive them, count."""
        k = e.get("k")
        if k == "lazy" and e.get("lz") is not None:
            return self.depends(e["lz"], bind)       # `c ? a : b`, `a && b`: the operands live in other blocks
        if k in ("ref", "mem", "sub", "un", "call") and key(e) in bind:
            return True
        if k == "call" and e.get("fn") in self.call_default:
            return True
        if k == "mem" and "t" in e and self.u.type(e["t"])["k"] == "arr":
            return self.depends(e["b"], bind)          # an array member used as a pointer: an address, not a read
        if (k == "mem" and e.get("arrow")) or k == "sub" or (k == "un" and e.get("op") == "*"):
            if self.memory and k != "mem":
                return any(self.depends(c, bind) for c in core.children(e))
            return False
        return any(self.depends(c, bind) for c in core.children(e))

    def _calls(self, e, bind):
        """known calls in e whose arguments carry bound knowledge"""
        res = []
        for x, _ in walk(e):
            if x.get("k") == "call" and x.get("fn") in self.u.functions and self.u.functions[x["fn"]].has_cfg:
                if key(x) in bind or x.get("fn") in self.call_default or x.get("fn") in BSWAP:
                    continue
                cb = self._callee_bind(x, bind)
                if cb:
                    res.append((x, cb))
        return res

    def _callee_bind(self, call, bind):
        callee = self.u.functions[call["fn"]]
        cb = {}
        # constant arguments are part of the callee's knowledge once any argument carries bound knowledge
        cb_consts = any(self.depends(a, bind) for a in call["args"])
        for p, a in zip(callee.params, call["args"]):
            a0 = strip_casts(a)
            if self.depends(a, bind):
                try:
                    cb[p["n"]] = r_mpt.eval_expr(a, {}, self._hook(bind, {}))
                except r_mpt.Unknown:
                    cb[p["n"]] = UNSURE
            elif const_val(a) is not None and cb_consts:
                cb[p["n"]] = int(const_val(a))
            if a0.get("k") == "ref":
                pre = a0["n"] + "->"
                for kk, v in bind.items():
                    if kk.startswith(pre):
                        cb[p["n"] + "->" + kk[len(pre):]] = v
        return cb

    def evals(self, e, bind, depth):
        """list of (value or None, sure) for expression e"""
        calls = self._calls(e, bind) if depth < MAXDEPTH else []
        if len(calls) > 1:
            return [(None, False)]
        if len(calls) == 1:
            call, cb = calls[0]
            outs = self.outcomes(self.u.functions[call["fn"]], cb, depth + 1)
            res = []
            for rv, sure in sorted(outs, key=str):
                try:
                    res.append((r_mpt.eval_expr(e, {}, self._hook(bind, {id(call): rv})), sure))
                except r_mpt.Unknown:
                    res.append((None, sure))
            return res
        try:
            return [(r_mpt.eval_expr(e, {}, self._hook(bind, {})), True)]
        except r_mpt.Unknown:
            return [(None, not self.depends(e, bind))]

    # ---- statement effects
    @staticmethod
    def _invalidate(nb, lk):
        """the lvalue `lk` changes: whatever is known about lvalues that are *addressed through* it (a[lk], p[lk].f)
        no longer describes the same object"""
        import re
        pat = re.compile(r"(?<![\w>.])" + re.escape(lk) + r"(?![\w])")
        for kk in [kk for kk in nb if kk != lk and lk in kk]:
            # only uses as (part of) a subscript count: p[lk], p[(lk+1)].f
            if any(kk.count("[", 0, m.start()) > kk.count("]", 0, m.start()) for m in pat.finditer(kk)):
                del nb[kk]

    def _assign(self, lhs, rhs, bind, depth):
        """returns list of (bind', sure)"""
        l0 = strip_casts(lhs)
        lk = key(l0)
        base = l0["n"] + "->" if l0.get("k") == "ref" else None
        res = []
        dep = rhs is not None and (self.depends(rhs, bind) or bool(self._calls(rhs, bind)))
        opts = self.evals(rhs, bind, depth) if dep else [(None, True)]
        if not dep and rhs is not None and const_val(rhs) is not None:
            dep, opts = True, [(const_val(rhs), True)]      # plain constants propagate
        for v, sure in opts:
            nb = dict(bind)
            if base and not (v is not None and bind.get(lk) == v):
                # the pointer now designates another object: what was known about *p no longer applies
                # (re-assigning the value it already has keeps the knowledge)
                for kk in [kk for kk in nb if kk.startswith(base)]:
                    del nb[kk]
            if not (v is not None and bind.get(lk) == v):
                self._invalidate(nb, lk)
            if dep:
                nb[lk] = v if v is not None else UNSURE
            else:
                nb.pop(lk, None)
            # an unknown stored value does not make the *path* uncertain: the UNSURE marker on the variable does that
            # for every later test that reads it
            res.append((nb, True if v is None else sure))
        return res

    def _apply_nested_incs(self, e, b):
        """++/-- that occur inside a larger expression (the root-level ones are handled by the statement itself)"""
        nb = b
        for x, ps in walk(e):
            if x is e or not ps:
                continue
            if x.get("k") == "un" and x.get("op") in ("post++", "post--", "pre++", "pre--"):
                lk = key(strip_casts(x["e"]))
                if lk in nb:
                    nb = dict(nb) if nb is b else nb
                    self._invalidate(nb, lk)
                    if isinstance(nb[lk], int):
                        es = 1
                        if "t" in x["e"] and self.u.type(x["e"]["t"])["k"] == "ptr":
                            es = self.u.elem_size(x["e"]["t"]) or 1
                        nb[lk] = nb[lk] + (es if "++" in x["op"] else -es)
                    else:
                        nb[lk] = UNSURE
        return nb

    def _addr_taken(self, e, b):
        """variables whose address is passed on lose their value, unless the callee's stored value is tabled"""
        nb = b
        for x, _ in walk(e):
            if x.get("k") == "call":
                od = self.out_default.get(x.get("fn"), {})
                for i, a in enumerate(x["args"]):
                    a0 = strip_casts(a)
                    if a0.get("k") == "un" and a0.get("op") == "&":
                        kk = key(strip_casts(a0["e"]))
                        if i in od:
                            nb = dict(nb)
                            v = od[i]
                            nb[kk] = v(nb) if callable(v) else v
                        elif kk in nb:
                            nb = dict(nb)
                            nb[kk] = UNSURE
        return nb

    def step_block(self, fn, bid, bind, sure, depth, stop=None):
        """run the statements of a block; returns list of (bind, sure, stopped)"""
        states = [(bind, sure)]
        blk = fn.blocks[bid]
        for e in blk.elems:
            if stop is not None and e is stop:
                return [(b, s, True) for b, s in states]
            if e is blk.cond:
                states = [(self._addr_taken(e, b), s) for b, s in states]
                continue
            k = e.get("k")
            nxt = []
            for b, s in states:
                if k == "bin" and e["op"] == "=":
                    for nb, s2 in self._assign(e["x"], e["y"], self._addr_taken(e["y"], b), depth):
                        nxt.append((nb, s and s2))
                elif k == "bin" and e["op"].endswith("=") and e["op"] not in ("==", "!=", "<=", ">="):
                    nb = dict(b)
                    lk = key(strip_casts(e["x"]))
                    self._invalidate(nb, lk)
                    if lk in nb or self.depends(e["y"], b):
                        # x op= y  evaluated as  x op y  when both sides are known
                        try:
                            tmp = {"k": "bin", "op": e["op"][:-1], "x": e["x"], "y": e["y"]}
                            if "t" in e:
                                tmp["t"] = e["t"]
                            v = r_mpt.eval_expr(tmp, {}, self._hook(b, {}))
                            lt = self.u.type(e["x"]["t"]) if "t" in e["x"] else None
                            if lt is not None and lt["k"] == "int":
                                w = lt.get("w", 64)
                                v &= (1 << w) - 1
                                if lt.get("sg") and v >= 1 << (w - 1):
                                    v -= 1 << w
                            nb[lk] = v
                        except (r_mpt.Unknown, KeyError, TypeError):
                            nb[lk] = UNSURE
                    nxt.append((nb, s))
                elif k == "un" and ("++" in e["op"] or "--" in e["op"]):
                    nb = dict(b)
                    lk = key(strip_casts(e["e"]))
                    self._invalidate(nb, lk)
                    if lk in nb:
                        if isinstance(nb[lk], int):
                            es = 1
                            if "t" in e["e"] and self.u.type(e["e"]["t"])["k"] == "ptr":
                                es = self.u.elem_size(e["e"]["t"]) or 1
                            nb[lk] = nb[lk] + (es if "++" in e["op"] else -es)
                        else:
                            nb[lk] = UNSURE
                    nxt.append((nb, s))
                elif k == "decl":
                    cur = [(b, s)]
                    for dv in e["vars"]:
                        c2 = []
                        for bb, ss in cur:
                            if dv.get("init") is not None:
                                bb = self._addr_taken(dv["init"], bb)
                                for nb, s2 in self._assign({"k": "ref", "n": dv["n"], "id": dv["id"]}, dv["init"], bb, depth):
                                    c2.append((nb, ss and s2))
                            else:
                                c2.append((bb, ss))
                        cur = c2
                    nxt.extend(cur)
                else:
                    nxt.append((self._addr_taken(e, b), s))
            states = [(self._apply_nested_incs(e, b), s) for b, s in nxt[:16]]
        return [(b, s, False) for b, s in states]

    def branch(self, fn, bid, bind, sure, depth):
        """successor blocks with (bind, sure)"""
        blk = fn.blocks[bid]
        succ = [s for s in blk.succ]
        c = blk.cond
        if c is None or len([s for s in succ if s is not None]) < 2:
            return [(s, bind, sure) for s in succ if s is not None]
        res = []
        # ++/-- inside the condition take effect on both edges (the condition itself sees the value before a post-increment)
        after = self._apply_nested_incs({"k": "cast", "e": c}, bind) if any(
            x.get("k") == "un" and x.get("op") in ("post++", "post--", "pre++", "pre--") for x, _ in walk(c)) else bind
        if after is not bind:
            return [(s_, after if b_ is bind else b_, u_) for (s_, b_, u_) in self._branch0(fn, blk, succ, c, bind, sure, depth)]
        return self._branch0(fn, blk, succ, c, bind, sure, depth)

    def _branch0(self, fn, blk, succ, c, bind, sure, depth):
        res = []
        for v, s2 in self.evals(c, bind, depth):
            if v is None:
                for s in succ:
                    if s is not None:
                        res.append((s, bind, sure and s2))
                continue
            if blk.term and blk.term.get("k") == "SwitchStmt":
                tgt = None
                dflt = None
                for s in succ:
                    if s is None:
                        continue
                    lab = fn.blocks[s].label or {}
                    if "case" in lab and int(lab["case"]) == v:
                        tgt = s
                    if lab.get("default"):
                        dflt = s
                if tgt is None:
                    tgt = dflt if dflt is not None else succ[-1]
                # several case labels may share one block: labels record only one; fall back to all edges
                if tgt is None:
                    res.extend((s, bind, sure and s2) for s in succ if s is not None)
                else:
                    res.append((tgt, bind, sure and s2))
            else:
                res.append((succ[0] if v else succ[1], bind, sure and s2))
        return res

    def trace(self, fn, bind, max_steps=4000):
        """deterministic walk from the entry under a binding that decides every branch.
        returns (events, ret) : events = [(stmt, bind before it)], ret = value of the return expression
        (None when not a constant); or (events, "undecided:<why>") when some branch is not decided."""
        bid = fn.entry
        events = []
        b = dict(bind)
        for _ in range(max_steps):
            blk = fn.blocks[bid]
            for e in blk.elems:
                events.append((e, b))
                if e.get("k") == "ret":
                    if e.get("e") is None:
                        return events, None
                    vs = self.evals(e["e"], b, 0)
                    if len(vs) != 1:
                        return events, "undecided:return value at line %s" % e.get("ln")
                    return events, vs[0][0]
                if e is blk.cond:
                    b = self._addr_taken(e, b)
                    continue
                res = self._step_elem(fn, e, b, 0)
                if len(res) != 1 or not res[0][1]:
                    return events, "undecided:statement at line %s" % e.get("ln")
                b = res[0][0]
            nx = self.branch(fn, bid, b, True, 0)
            tg = {x[0] for x in nx}
            if len(tg) != 1 or not all(x[2] for x in nx):
                return events, "undecided:branch at line %s" % ((blk.cond or {}).get("ln"))
            bid = nx[0][0]
            b = nx[0][1]                            # ++/-- inside the condition
            if bid == fn.exit:
                return events, None
        return events, "undecided:too many steps"

    def _step_elem(self, fn, e, b, depth):
        blk = type("B", (), {"elems": [e], "cond": None})()
        saved = fn.blocks.get(-999)
        fn.blocks[-999] = blk
        try:
            return [(x[0], x[1]) for x in self.step_block(fn, -999, b, True, depth)]
        finally:
            if saved is None:
                del fn.blocks[-999]
            else:
                fn.blocks[-999] = saved

    # ---- callee summaries
    def outcomes(self, fn, bind, depth):
        """set of (constant return value or None, sure) reachable in fn knowing `bind`"""
        mk = (fn.name, tuple(sorted(bind.items(), key=str)), depth)
        if mk in self.memo:
            return self.memo[mk]
        self.memo[mk] = {(None, False)}
        outs = set()
        seen = set()
        work = [(fn.entry, bind, True)]
        steps = 0
        while work and steps < 4000:
            steps += 1
            bid, b, s = work.pop()
            st = (bid, tuple(sorted(b.items(), key=str)), s)
            if st in seen:
                continue
            seen.add(st)
            blk = fn.blocks[bid]
            rets = [e for e in blk.elems if e.get("k") == "ret"]
            for nb, s2, _ in self.step_block(fn, bid, b, s, depth):
                if rets:
                    r = rets[-1]
                    if r.get("e") is None:
                        outs.add((None, s2))
                    else:
                        for v, s3 in self.evals(r["e"], nb, depth):
                            outs.add((v, s2 and s3))
                    continue
                for nx, nb2, s3 in self.branch(fn, bid, nb, s2, depth):
                    if nx != fn.exit:
                        work.append((nx, nb2, s3))
        if work:
            outs.add((None, False))
        self.memo[mk] = outs
        return outs

    def reach_stmt(self, fn, head, body, bind, stmt_block, stmt):
        """can the statement be reached from the loop head inside the loop body, knowing `bind`?
        returns 'no' | 'sure' | 'unsure' and a witness list of blocks"""
        seen = set()
        work = [(head, bind, True, (head,))]
        best = "no"
        wit = None
        steps = 0
        while work and steps < 4000:
            steps += 1
            bid, b, s, path = work.pop()
            st = (bid, tuple(sorted(b.items(), key=str)), s)
            if st in seen:
                continue
            seen.add(st)
            for nb, s2, stopped in self.step_block(fn, bid, b, s, 0, stop=stmt if bid == stmt_block else None):
                if stopped:
                    if s2:
                        self.last_bind = nb
                        return "sure", path
                    best, wit = "unsure", path
                    continue
                for nx, nb2, s3 in self.branch(fn, bid, nb, s2, 0):
                    if nx in body and nx != head:
                        work.append((nx, nb2, s3, path + (nx,)))
        if work:
            return "unsure", wit
        return best, wit


def stride_sites(fn):
    """(head, body, block, stmt, var, E, F-node) for every data-dependent stride of a loop-condition variable"""
    res = []
    for h, body in sorted(fn.loops().items()):
        cands = set()
        for b in body:
            blk = fn.blocks[b]
            if blk.cond is not None and any(s is not None and s not in body for s in blk.succ):
                for x in core.refs(blk.cond):
                    if x.get("dk") in ("local", "parm"):
                        cands.add(x["n"])
        for b in sorted(body):
            for e in fn.blocks[b].elems:
                if e.get("k") != "bin" or e["op"] not in ("+=", "-=", "="):
                    continue
                lhs = strip_casts(e["x"])
                if lhs.get("k") != "ref" or lhs["n"] not in cands:
                    continue
                E = e["y"]
                if e["op"] == "=":
                    r = strip_casts(e["y"])
                    if r.get("k") != "bin" or r["op"] not in ("+", "-"):
                        continue
                    if core.is_ref(strip_casts(r["x"]), name=lhs["n"]):
                        E = r["y"]
                    elif r["op"] == "+" and core.is_ref(strip_casts(r["y"]), name=lhs["n"]):
                        E = r["x"]
                    else:
                        continue
                rd = _reads(E)
                keys = sorted(set(key(x) for x in rd))
                if len(keys) != 1:
                    continue
                res.append((h, body, b, e, lhs["n"], E, rd[0]))
        # a zero stride stalls the loop only if nothing else that the exit tests look at moves: every other
        # in-loop write to an exit-condition variable is a stride by the same field or a call result
        mine = [r for r in res if r[0] == h]
        if mine:
            fk = set(key(r[6]) for r in mine)
            stmts = set(id(r[3]) for r in mine)
            other = False
            for b in body:
                for e in fn.blocks[b].elems:
                    for x, _ in walk(e):
                        tgt = None
                        if x.get("k") == "bin" and x["op"].endswith("=") and x["op"] not in ("==", "!=", "<=", ">="):
                            tgt = strip_casts(x["x"])
                            if id(x) in stmts or strip_casts(x["y"]).get("k") == "call":
                                continue
                        elif x.get("k") == "un" and ("++" in x["op"] or "--" in x["op"]):
                            tgt = strip_casts(x["e"])
                        if tgt is not None and tgt.get("k") == "ref" and tgt["n"] in cands:
                            other = True
            if other or len(fk) != 1:
                res = [r for r in res if r[0] != h]
    return res


def check(rep, unit, fns, rule="R-STRIDE"):
    """returns number of stride sites examined"""
    pe = PE(unit)
    n = 0
    for fn in fns:
        if not fn.has_cfg:
            continue
        per = {}
        for h, body, b, stmt, var, E, F in stride_sites(fn):
            fk = key(F)
            Z = []
            for z in range(0, 5):
                try:
                    if r_mpt.eval_expr(E, {}, pe._hook({fk: z}, {})) <= 0:
                        Z.append(z)
                except r_mpt.Unknown:
                    Z = None
                    break
            n += 1
            per[(var, fk)] = per.get((var, fk), 0) + 1
            inst = "stride:%s by %s" % (var, fk) + ("" if per[(var, fk)] == 1 else "#%d" % per[(var, fk)])
            desc = "'%s' moves by %s (read from the walked data): the value cannot be zero when line %s is reached" % (
                var, key(E), stmt.get("ln"))
            if Z is None:
                rep.undecided(rule, fn, inst, desc, "stride expression not evaluable", stmt.get("ln"))
                continue
            if not Z:
                rep.proved(rule, fn, inst, desc, "the stride is positive for every value of %s" % fk, stmt.get("ln"))
                continue
            verdicts = []
            for z in Z:
                r, wit = pe.reach_stmt(fn, h, body, {fk: z}, b, stmt)
                verdicts.append((z, r, wit))
            bad = [(z, w) for z, r, w in verdicts if r == "sure"]
            uns = [(z, w) for z, r, w in verdicts if r == "unsure"]
            if bad:
                z, w = bad[0]
                rep.violated(rule, fn, inst, desc, "with %s == %d the statement is reached (blocks %s) and nothing moves: no test on the "
                             "path, here or in the validators it calls, rejects that value" % (fk, z, "->".join("B%d" % x for x in w)),
                             stmt.get("ln"))
            elif uns:
                rep.undecided(rule, fn, inst, desc, "a test that depends on %s could not be evaluated for value %d" % (fk, uns[0][0]),
                              stmt.get("ln"))
            else:
                rep.proved(rule, fn, inst, desc, "for %s in %s every path from the loop head to the statement is cut by a test "
                           "(partial evaluation of the loop body and of the validators called with it, depth %d)" % (fk, Z, MAXDEPTH),
                           stmt.get("ln"))
    return n
