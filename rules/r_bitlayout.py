"""R-LAYOUT endian-mirror: bit-field records that describe wire formats are declared twice, under
`#if BYTE_ORDER == BIG_ENDIAN` and under `#else`.  A big-endian ABI allocates bit-fields from the most significant bit of
the storage unit, a little-endian ABI from the least significant one; both declarations must therefore designate the
*same wire bits* (byte index, bit within the byte) for every field.  The header is parsed twice - as built, and with
BYTE_ORDER forced to BIG_ENDIAN - and the two layouts are compared per record:

  little-endian build : a field at bit offset o, width w covers bits  (o+j) div 8 , (o+j) mod 8          (LSB = 0)
  big-endian build    : a field whose declaration-order position is c covers (c+j) div 8 , 7 - (c+j) mod 8

(c is the offset clang reports for the forced parse: on the x86 target fields are allocated in declaration order without
reordering, so the reported offset *is* the declaration-order position.)  A big-endian field X may correspond to several
little-endian fields X_hi / X_lo (a value that straddles a byte boundary cannot be one field on a little-endian ABI).
Fields that straddle bytes in the little-endian declaration without filling them are not decided."""
from . import driver
from .driver import UnitSpec

BE_PRE = "#undef BYTE_ORDER\n#define BYTE_ORDER BIG_ENDIAN\n"


def units_for(hdr):
    return [UnitSpec(hdr, "hdr", hdr), UnitSpec(hdr + " [BYTE_ORDER=BIG_ENDIAN]", "hdr", hdr, pre_text=BE_PRE)]


def _masks(rec, be):
    """field -> set of (byte, bit) it covers; ordinary members cover whole bytes (up to the next member)"""
    m = {}
    fs = rec["fields"]
    for i, f in enumerate(fs):
        if "bits" in f:
            m[f["n"]] = {((f["off"] + j) // 8, 7 - ((f["off"] + j) % 8) if be else (f["off"] + j) % 8) for j in range(f["bits"])}
        else:
            end = fs[i + 1]["off"] if i + 1 < len(fs) else rec["size"] * 8
            m[f["n"]] = {(b, j) for b in range(f["off"] // 8, max(end, f["off"] + 8) // 8) for j in range(8)}
    return m


def check(rep, us, hdr):
    """returns the number of bit-fields compared"""
    ul, ub = us[hdr], us[hdr + " [BYTE_ORDER=BIG_ENDIAN]"]
    n = 0
    for name, r in sorted(ul.records.items()):
        if not r["file"].endswith(hdr) or not any("bits" in f for f in r["fields"]):
            continue
        rb = ub.records.get(name)
        inst0 = "bitfields:%s" % name
        where = dict(file="include/" + hdr, unit=hdr)
        if rb is None:
            rep.violated("R-LAYOUT", "", inst0, "record %s exists in the big-endian configuration" % name, "missing", **where)
            continue
        ml, mb = _masks(r, False), _masks(rb, True)
        if r["size"] != rb["size"]:
            rep.violated("R-LAYOUT", "", inst0, "record %s has the same size in both byte-order declarations" % name,
                         "little-endian %d, big-endian %d bytes" % (r["size"], rb["size"]), **where)
        used = set()
        for bn, bm in sorted(mb.items()):
            parts = [ln for ln in ml if ln == bn or ln.startswith(bn + "_")]
            if bn in ml:
                parts = [bn]
            n += 1
            desc = "%s.%s designates the same wire bits in the little-endian and the big-endian declaration" % (name, bn)
            inst = "bitfield:%s.%s" % (name, bn)
            if not parts:
                rep.violated("R-LAYOUT", "", inst, desc, "no field %s / %s_* in the little-endian declaration" % (bn, bn), **where)
                continue
            used.update(parts)
            lm = set().union(*[ml[p] for p in parts])
            ragged = any(len({b for b, _ in ml[p]}) > 1 and any(sum(1 for b2, _ in ml[p] if b2 == b) != 8 for b in {b for b, _ in ml[p]}) for p in parts)
            if ragged:
                rep.undecided("R-LAYOUT", "", inst, desc, "the little-endian declaration has a field that straddles a byte boundary without filling "
                              "the bytes: its value is not a contiguous run of wire bits on a little-endian ABI", **where)
            elif lm == bm:
                rep.proved("R-LAYOUT", "", inst, desc, "bits %s" % _fmt(bm), **where)
            else:
                rep.violated("R-LAYOUT", "", inst, desc, "little-endian build: %s (%s); big-endian build: %s - on one of the two kinds of host "
                             "the field reads other bits of the packet" % (_fmt(lm), "+".join(parts), _fmt(bm)), **where)
        for ln in sorted(set(ml) - used):
            n += 1
            rep.violated("R-LAYOUT", "", "bitfield:%s.%s" % (name, ln), "%s.%s has a counterpart in the big-endian declaration" % (name, ln),
                         "none found", **where)
    return n


def _fmt(m):
    out = {}
    for b, i in sorted(m):
        out.setdefault(b, []).append(i)
    return " ".join("byte%d[%s]" % (b, ",".join(map(str, sorted(v, reverse=True))) if len(v) < 8 else "all") for b, v in sorted(out.items()))
