"""Core data model over the JSON emitted by tool/lcbfacts.cc.

Everything here is generic: CFG utilities (predecessors, dominators,
post-dominators, reachability, back edges), expression-tree helpers
(walk in evaluation order, normalised keys, call lookup) and a small
forward-dataflow driver.  No property logic.
"""
import json
import os
import sys

REPO = os.environ.get("LCB_REPO", "/repo").rstrip("/")

sys.setrecursionlimit(10000)

CHILD_KEYS = ("b", "i", "e", "x", "y", "c", "callee", "arg", "init")


class Unit:
    def __init__(self, path, label=None):
        with open(path) as f:
            d = json.load(f)
        self.path = path
        self.label = label or path
        self.main = d.get("main")
        self.errors = d.get("errors", False)
        self.types = d["types"]
        self.records = {r["n"]: r for r in d["records"]}
        self.enums = d["enums"]
        self.enum_consts = {}
        for e in self.enums:
            self.enum_consts.update(e["c"])
        self.globals = {}
        for g in d["globals"]:
            self.globals.setdefault(g["n"], g)
        self.global_list = d["globals"]
        self.functions = {}
        self.function_list = []
        for fd in d["functions"]:
            fn = Func(self, fd)
            self.function_list.append(fn)
            self.functions.setdefault(fn.name, fn)

    def type(self, tid):
        return self.types[tid]

    def tstr(self, tid):
        return self.types[tid]["s"]

    def tcanon(self, tid):
        return self.types[tid]["c"]

    def is_ptr(self, tid):
        return self.types[tid]["k"] == "ptr"

    def is_int(self, tid):
        return self.types[tid]["k"] in ("int", "enum")

    def pointee(self, tid):
        t = self.types[tid]
        return t.get("to")

    def elem_size(self, tid):
        """size in bytes of what a pointer/array of type tid points to."""
        to = self.pointee(tid)
        if to is None:
            return None
        return self.types[to].get("size")

    def fn(self, name):
        return self.functions.get(name)


class Block:
    __slots__ = ("id", "succ", "usucc", "elems", "term", "label", "preds")

    def __init__(self, d):
        self.id = d["id"]
        self.succ = d["succ"]
        self.usucc = d.get("usucc")
        self.elems = d["e"]
        self.term = d.get("term")
        self.label = d.get("label")
        self.preds = []

    @property
    def cond(self):
        """branch condition: last root element of a block with >1 successors"""
        if self.term and len(self.succ) >= 2 and self.elems:
            return self.elems[-1]
        return None

    def rsucc(self):
        return [s for s in self.succ if s is not None]


class Func:
    def __init__(self, unit, d):
        self.unit = unit
        self.name = d["name"]
        self.file = d["file"]
        self.line = d["line"]
        self.endline = d.get("endline")
        self.ret = d["ret"]
        self.static = d.get("static")
        self.inline = d.get("inline")
        self.params = d["params"]
        self.macro = d.get("m")
        self.has_cfg = "blocks" in d
        self.blocks = {}
        self.entry = d.get("entry")
        self.exit = d.get("exit")
        for bd in d.get("blocks", []):
            b = Block(bd)
            self.blocks[b.id] = b
        for b in self.blocks.values():
            for s in b.succ:
                if s is not None:
                    self.blocks[s].preds.append(b.id)
        self._dom = None
        self._pdom = None
        self._reach = None
        self._back = None

    # ------------------------------------------------------------ identity
    def relfile(self):
        f = self.file
        if f.startswith(REPO + "/"):
            return f[len(REPO) + 1:]
        return f

    def where(self, ln=None):
        return "%s:%s (%s)" % (self.relfile(), ln if ln is not None else self.line, self.name)

    # ------------------------------------------------------------ CFG
    def reachable_blocks(self):
        if self._reach is None:
            seen = set()
            st = [self.entry]
            while st:
                b = st.pop()
                if b in seen:
                    continue
                seen.add(b)
                st.extend(self.blocks[b].rsucc())
            self._reach = seen
        return self._reach

    def _domtree(self, root, succs, preds):
        # iterative dataflow dominators (sets); graphs are small
        nodes = []
        seen = set()
        st = [root]
        while st:
            b = st.pop()
            if b in seen:
                continue
            seen.add(b)
            nodes.append(b)
            st.extend(succs(b))
        allset = set(nodes)
        dom = {n: set(allset) for n in nodes}
        dom[root] = {root}
        changed = True
        while changed:
            changed = False
            for n in nodes:
                if n == root:
                    continue
                ps = [p for p in preds(n) if p in allset]
                if not ps:
                    new = {n}
                else:
                    new = set.intersection(*[dom[p] for p in ps]) | {n}
                if new != dom[n]:
                    dom[n] = new
                    changed = True
        return dom

    def dom(self):
        if self._dom is None:
            self._dom = self._domtree(
                self.entry, lambda b: self.blocks[b].rsucc(), lambda b: self.blocks[b].preds)
        return self._dom

    def pdom(self):
        if self._pdom is None:
            self._pdom = self._domtree(
                self.exit, lambda b: self.blocks[b].preds, lambda b: self.blocks[b].rsucc())
        return self._pdom

    def dominates(self, a, b):
        """block a dominates block b (b reachable)"""
        d = self.dom()
        return b in d and a in d[b]

    def postdominates(self, a, b):
        d = self.pdom()
        return b in d and a in d[b]

    def pos_dominates(self, pa, pb):
        (ba, ia), (bb, ib) = pa, pb
        if ba == bb:
            return ia <= ib
        return self.dominates(ba, bb)

    def pos_postdominates(self, pa, pb):
        """pa post-dominates pb: every path from pb to exit passes pa"""
        (ba, ia), (bb, ib) = pa, pb
        if ba == bb:
            return ia >= ib
        return self.postdominates(ba, bb)

    def reach_from(self, start_blocks, avoid=()):
        """blocks reachable from start_blocks (inclusive) without entering 'avoid'"""
        avoid = set(avoid)
        seen = set()
        st = [b for b in start_blocks if b not in avoid]
        while st:
            b = st.pop()
            if b in seen:
                continue
            seen.add(b)
            for s in self.blocks[b].rsucc():
                if s not in avoid and s not in seen:
                    st.append(s)
        return seen

    def back_edges(self):
        if self._back is None:
            d = self.dom()
            be = []
            for b in self.reachable_blocks():
                for s in self.blocks[b].rsucc():
                    if s in d.get(b, ()):
                        be.append((b, s))
            self._back = be
        return self._back

    def loops(self):
        """natural loops: header -> set(blocks)"""
        res = {}
        for (t, h) in self.back_edges():
            body = {h, t}
            st = [t]
            while st:
                n = st.pop()
                if n == h:
                    continue
                for p in self.blocks[n].preds:
                    if p not in body and p in self.reachable_blocks():
                        body.add(p)
                        st.append(p)
            res.setdefault(h, set()).update(body)
        return res

    def rpo(self):
        seen = set()
        order = []

        def dfs(b):
            st = [(b, iter(self.blocks[b].rsucc()))]
            seen.add(b)
            while st:
                n, it = st[-1]
                adv = False
                for s in it:
                    if s not in seen:
                        seen.add(s)
                        st.append((s, iter(self.blocks[s].rsucc())))
                        adv = True
                        break
                if not adv:
                    order.append(n)
                    st.pop()
        dfs(self.entry)
        order.reverse()
        return order

    # ------------------------------------------------------------ elements
    def roots(self):
        """yield (block_id, index, root_elem) for reachable blocks"""
        rb = self.reachable_blocks()
        for bid in sorted(self.blocks, reverse=True):
            if bid not in rb:
                continue
            b = self.blocks[bid]
            for i, e in enumerate(b.elems):
                yield bid, i, e

    def nodes(self):
        """yield (pos, root, node, parents) over all nodes of reachable roots"""
        for bid, i, e in self.roots():
            for node, parents in walk(e):
                yield (bid, i), e, node, parents

    def calls(self, names=None):
        """yield (pos, root, callnode, parents) for direct calls (optionally by name set)"""
        for pos, root, node, parents in self.nodes():
            if node.get("k") == "call":
                fn = node.get("fn")
                if names is None or fn in names:
                    yield pos, root, node, parents

    def returns(self):
        """yield (pos, retnode) for all reachable return statements"""
        for bid, i, e in self.roots():
            if e.get("k") == "ret":
                yield (bid, i), e

    def is_cond_root(self, pos):
        bid, i = pos
        b = self.blocks[bid]
        return b.term is not None and len(b.succ) >= 2 and i == len(b.elems) - 1

    def edge_facts(self):
        """yield (src_block, dst_block, cond_expr, truth) for conditional edges.
        truth is True/False for two-way branches; for switches truth is ('case', value|None)."""
        for bid in self.reachable_blocks():
            b = self.blocks[bid]
            c = b.cond
            if c is None:
                continue
            k = b.term["k"]
            if k == "SwitchStmt":
                for s in b.succ:
                    if s is None:
                        continue
                    lab = self.blocks[s].label or {}
                    if "case" in lab:
                        yield bid, s, c, ("case", lab["case"])
                    else:
                        yield bid, s, c, ("case", None)
            elif len(b.succ) == 2:
                if b.succ[0] is not None:
                    yield bid, b.succ[0], c, True
                if b.succ[1] is not None:
                    yield bid, b.succ[1], c, False


# ---------------------------------------------------------------- expressions

def children(n):
    """children in evaluation-ish order"""
    k = n.get("k")
    if k == "call":
        if "callee" in n:
            yield n["callee"]
        for a in n["args"]:
            yield a
    elif k == "decl":
        for v in n["vars"]:
            if "init" in v:
                yield v["init"]
    elif k == "init":
        for a in n["e"]:
            yield a
    elif k == "other":
        for a in n.get("ch", []):
            if a:
                yield a
    elif k == "bin":
        # assignments evaluate rhs first for our purposes
        if n["op"] == "=":
            yield n["y"]
            yield n["x"]
        else:
            yield n["x"]
            yield n["y"]
    else:
        for key in ("c", "b", "i", "e", "x", "y", "arg"):
            v = n.get(key)
            if isinstance(v, dict):
                yield v


def walk(n, parents=()):
    """post-order: yields (node, parents_tuple) children first"""
    if n is None:
        return
    np = parents + (n,)
    for c in children(n):
        for r in walk(c, np):
            yield r
    yield n, parents


def walk_pre(n, parents=()):
    if n is None:
        return
    yield n, parents
    np = parents + (n,)
    for c in children(n):
        for r in walk_pre(c, np):
            yield r


def strip_casts(n):
    while n is not None and n.get("k") == "cast":
        n = n["e"]
    return n


def strip_imp(n):
    while n is not None and n.get("k") == "cast" and n.get("imp"):
        n = n["e"]
    return n


def const_val(n):
    """folded integer value of a node or None"""
    if n is None:
        return None
    if n.get("k") == "int":
        v = n["v"]
        return int(v)
    if "cv" in n:
        return int(n["cv"])
    if n.get("k") == "cast":
        return const_val(n["e"]) if n.get("imp") else None
    return None


def key(n):
    """normalised structural key: ignores lines, types, macros and implicit casts"""
    if n is None:
        return "~"
    k = n.get("k")
    if k == "cast":
        if n.get("imp"):
            return key(n["e"])
        return "(cast)" + key(n["e"])
    if k == "int":
        return str(n["v"])
    if k == "ref":
        return n["n"]
    if k == "mem":
        return key(n["b"]) + ("->" if n["arrow"] else ".") + n["f"]
    if k == "sub":
        return key(n["b"]) + "[" + key(n["i"]) + "]"
    if k == "un":
        return n["op"] + "(" + key(n["e"]) + ")"
    if k == "bin":
        return "(" + key(n["x"]) + n["op"] + key(n["y"]) + ")"
    if k == "cond":
        return "(" + key(n["c"]) + "?" + key(n["x"]) + ":" + key(n["y"]) + ")"
    if k == "call":
        return (n.get("fn") or ("*" + key(n.get("callee")))) + "(" + ",".join(key(a) for a in n["args"]) + ")"
    if k == "str":
        return '"' + (n.get("v") or n.get("hex", "")) + '"'
    if k == "sizeof":
        if "cv" in n:
            return str(n["cv"])
        return "sizeof(" + (n.get("of") or key(n.get("arg"))) + ")"
    if k == "lazy":
        if "lz" in n:
            return key(n["lz"])
        return "<lazy%s@%s>" % (n["op"], n["ln"])
    if k == "ret":
        return "return " + key(n.get("e"))
    if k == "decl":
        return "decl " + ",".join(v["n"] + ("=" + key(v["init"]) if "init" in v else "") for v in n["vars"])
    if k == "init":
        return "{" + ",".join(key(a) for a in n["e"]) + "}"
    if k == "complit":
        return "(complit)" + key(n["e"])
    return "<%s>" % (n.get("cls") or k)


def macros(n, parents=()):
    """effective macro chain of node n given its parents (innermost first)"""
    if "m" in n:
        return n["m"]
    for p in reversed(parents):
        if "m" in p:
            return p["m"]
    return []


def macro_chain(n):
    """macro chain spelled at expression n, looking through cast wrappers (the chain is
    recorded on the outermost node that starts in the macro)"""
    while n is not None:
        if n.get("m"):
            return n["m"]
        if n.get("k") == "cast":
            n = n["e"]
        else:
            break
    return []


def refs(n):
    """all variable references (names) in tree"""
    for x, _ in walk(n):
        if x.get("k") == "ref":
            yield x


def ref_ids(n):
    return {x["id"] for x in refs(n) if x.get("dk") in ("local", "parm", "slocal", "global")}


def is_ref(n, name=None, id=None):
    n = strip_imp(n)
    if n is None or n.get("k") != "ref":
        return False
    if name is not None and n["n"] != name:
        return False
    if id is not None and n["id"] != id:
        return False
    return True


def base_ref(n):
    """innermost variable a pointer/lvalue expression is built from:
    &x, x.f, x->f, x[i], *x, (cast)x, x + k  ->  ref node of x (or None)"""
    while n is not None:
        k = n.get("k")
        if k == "ref":
            return n
        if k == "cast":
            n = n["e"]
        elif k == "un" and n["op"] in ("&", "*", "post++", "post--", "pre++", "pre--"):
            n = n["e"]
        elif k in ("mem", "sub"):
            n = n["b"]
        elif k == "bin" and n["op"] in ("+", "-"):
            # pointer arithmetic: follow the pointer-typed side
            n = n["x"]
        else:
            return None
    return None


def assigned_lhs(root):
    """if root (or decl) assigns to something, yield (lhs_node_or_var, rhs)"""
    k = root.get("k")
    if k == "bin" and root["op"] == "=":
        yield root["x"], root["y"]
    elif k == "decl":
        for v in root["vars"]:
            if "init" in v:
                yield {"k": "ref", "n": v["n"], "id": v["id"], "dk": "local", "t": v["t"], "ln": root["ln"]}, v["init"]


# ---------------------------------------------------------------- dataflow

def forward(fn, init, transfer, join, edge=None, max_iter=10000):
    """Generic forward dataflow over blocks.
    init: state at entry; transfer(block, state)->state (must not mutate input);
    join(a,b)->state; edge(src,dst,state)->state|None (None = edge infeasible).
    Returns dict block->in-state."""
    ins = {fn.entry: init}
    outs = {}
    order = fn.rpo()
    idx = {b: i for i, b in enumerate(order)}
    work = set(order[:1])
    it = 0
    while work:
        it += 1
        if it > max_iter:
            raise RuntimeError("dataflow did not converge in %s" % fn.name)
        b = min(work, key=lambda x: idx.get(x, 1 << 30))
        work.discard(b)
        st = ins.get(b)
        if st is None:
            continue
        out = transfer(fn.blocks[b], st)
        outs[b] = out
        for s in fn.blocks[b].rsucc():
            es = out if edge is None else edge(b, s, out)
            if es is None:
                continue
            if s in ins:
                j = join(ins[s], es)
                if j != ins[s]:
                    ins[s] = j
                    work.add(s)
            else:
                ins[s] = es
                work.add(s)
    return ins


# ---------------------------------------------------------------- global initialisers

def init_value(unit, n, tid=None):
    """python value of an initialiser expression tree: ints, lists (arrays / structs
    positionally), strings for string literals; None when not constant."""
    if n is None:
        return None
    k = n.get("k")
    if k == "init":
        vals = [init_value(unit, e) for e in n["e"]]
        t = unit.type(n["t"]) if "t" in n else None
        if t is not None and t["k"] == "arr" and t.get("n") is not None and len(vals) < t["n"]:
            et = unit.type(t["to"])
            fill = 0 if et["k"] in ("int", "enum", "ptr", "float") else None
            vals = vals + [fill] * (t["n"] - len(vals))
        return vals
    if k == "str":
        return n.get("v") if "v" in n else bytes.fromhex(n.get("hex", "")).decode("latin1")
    v = const_val(n)
    if v is not None:
        return v
    if k == "cast":
        return init_value(unit, n["e"])
    if k == "other" and n.get("cls") == "ImplicitValueInitExpr":
        return 0
    if k == "un" and n["op"] == "&":
        return {"addr": key(n["e"])}
    if k == "ref":
        return {"ref": n["n"]}
    if k == "complit":
        return init_value(unit, n["e"])
    return None


def global_value(unit, g):
    if "v" in g:
        return g["v"]
    if "init" in g:
        return init_value(unit, g["init"])
    return None


def alpha_keys(fn, subst=None):
    """statement keys of a function in reverse post-order with its own variables renamed canonically: parameters by
    position (p0, p1, ...), locals by order of declaration of their *source name* (v0, v1, ...; block-scoped temporaries
    that reuse one name, e.g. a macro's status variable, share one canonical name).  Two functions that differ only in
    the spelling of locals/parameters give the same list.  subst(str)->str is applied to each key afterwards."""
    import copy
    names = {}
    byname = {}
    for i, p in enumerate(fn.params):
        names[p["id"]] = "p%d" % i
    # declaration order of local names
    for b in fn.rpo():
        for e in fn.blocks[b].elems:
            for n, _ in walk(e):
                if n.get("k") == "decl":
                    for v in n.get("vars", []):
                        if v["n"] not in byname:
                            byname[v["n"]] = "v%d" % len(byname)
    out = []

    def ren(n):
        if isinstance(n, dict):
            if n.get("k") == "ref" and n.get("dk") in ("local", "parm") and "id" in n:
                if n["id"] in names:
                    n["n"] = names[n["id"]]
                else:
                    if n["n"] not in byname:
                        byname[n["n"]] = "v%d" % len(byname)
                    n["n"] = byname[n["n"]]
            if n.get("k") == "decl":
                for v in n.get("vars", []):
                    v["n"] = byname.get(v["n"], v["n"])
            for v in n.values():
                ren(v)
        elif isinstance(n, list):
            for v in n:
                ren(v)
    for b in fn.rpo():
        for e in fn.blocks[b].elems:
            c = copy.deepcopy(e)
            ren(c)
            k = key(c)
            out.append(subst(k) if subst else k)
    return out


def result_locals(fn, callees=None, field_suffix=None):
    """ids of the locals that receive (a) the result of a call to one of `callees`, or (b) the value of a member whose name
    ends with field_suffix: the variable is identified by what it holds, not by its spelling"""
    ids = set()
    for pos, root, x, ps in fn.nodes():
        tgt = val = None
        if x.get("k") == "bin" and x["op"] == "=" and strip_casts(x["x"]).get("k") == "ref" and strip_casts(x["x"]).get("dk") == "local":
            tgt, val = strip_casts(x["x"]).get("id"), x["y"]
            cands = [(tgt, val)]
        elif x.get("k") == "decl":
            cands = [(v.get("id"), v.get("init")) for v in x.get("vars", []) if v.get("init") is not None]
        else:
            continue
        for t, v in cands:
            v0 = strip_casts(v)
            if v0 is None:
                continue
            if callees and v0.get("k") == "call" and v0.get("fn") in callees:
                ids.add(t)
            if field_suffix and v0.get("k") == "mem" and v0.get("f", "").endswith(field_suffix):
                ids.add(t)
    return ids


def step_of(n):
    """(lvalue node, delta) if n changes an lvalue by a constant step: x++, ++x, x--, x += c, x -= c, x = x + c, x = c + x,
    x = x - c; else None.  Lets rules recognise a counter update whatever its spelling."""
    k = n.get("k")
    if k == "un" and n.get("op") in ("post++", "pre++"):
        return n["e"], 1
    if k == "un" and n.get("op") in ("post--", "pre--"):
        return n["e"], -1
    if k == "bin" and n.get("op") in ("+=", "-="):
        c = const_val(n["y"])
        if c is not None:
            return n["x"], c if n["op"] == "+=" else -c
    if k == "bin" and n.get("op") == "=":
        r = strip_casts(n["y"])
        if r is not None and r.get("k") == "bin" and r.get("op") in ("+", "-"):
            lk = key(strip_casts(n["x"]))
            a, b = strip_casts(r["x"]), strip_casts(r["y"])
            if key(a) == lk and const_val(b) is not None:
                return n["x"], const_val(b) if r["op"] == "+" else -const_val(b)
            if r["op"] == "+" and key(b) == lk and const_val(a) is not None:
                return n["x"], const_val(a)
    return None
