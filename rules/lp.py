"""Entailment of a linear inequality by a conjunction of linear inequalities (Farkas certificates).

entails(cons, g, nonneg):  do the constraints  c_i = a_i.x + b_i <= 0  (and x_j >= 0 for atoms with
nonneg(j)) imply  g.x + g0 <= 0 ?   We search multipliers lam_i >= 0 with
    sum lam_i a_i[j] == g[j]        (free atoms)
    sum lam_i a_i[j] >= g[j]        (non-negative atoms)
    sum lam_i b_i    >= g0
by a phase-one simplex in floating point, then *verify the certificate in exact rational arithmetic*;
only a verified certificate counts, so the answer 'True' is sound (False may be incomplete)."""
from fractions import Fraction

EPS = 1e-9


def _simplex_feasible(A, b, nvars):
    """find x >= 0 with A x = b (b >= 0 ensured by caller); returns x or None.  Dense tableau, Bland's rule."""
    m = len(A)
    n = nvars
    # artificial variables
    T = [row[:] + [1.0 if i == j else 0.0 for j in range(m)] + [b[i]] for i, row in enumerate(A)]
    basis = [n + i for i in range(m)]
    # objective: minimise sum of artificials -> row z = -sum(rows)
    z = [0.0] * (n + m + 1)
    for i in range(m):
        for j in range(n + m + 1):
            z[j] -= T[i][j]
    for j in range(n, n + m):
        z[j] = 0.0
    it = 0
    while it < 5000:
        it += 1
        # entering variable: first with negative reduced cost (Bland)
        ent = -1
        for j in range(n + m):
            if z[j] < -EPS:
                ent = j
                break
        if ent < 0:
            break
        # leaving: min ratio, ties by smallest basis index
        lv = -1
        best = None
        for i in range(m):
            if T[i][ent] > EPS:
                r = T[i][-1] / T[i][ent]
                if best is None or r < best - 1e-12 or (abs(r - best) <= 1e-12 and basis[i] < basis[lv]):
                    best = r
                    lv = i
        if lv < 0:
            return None
        piv = T[lv][ent]
        T[lv] = [v / piv for v in T[lv]]
        for i in range(m):
            if i != lv and abs(T[i][ent]) > 0:
                f = T[i][ent]
                T[i] = [a - f * c for a, c in zip(T[i], T[lv])]
        f = z[ent]
        z = [a - f * c for a, c in zip(z, T[lv])]
        basis[lv] = ent
    if -z[-1] > 1e-7:
        return None
    x = [0.0] * n
    for i, bi in enumerate(basis):
        if bi < n:
            x[bi] = T[i][-1]
    return x


def entails(cons, g_terms, g_const, nonneg):
    """cons: list of (terms dict, const); g: (terms dict, const)"""
    BIG = 1 << 40
    cons = [(t, c) for (t, c) in cons if abs(c) < BIG and all(abs(v) < BIG for v in t.values())]
    if abs(g_const) >= BIG or any(abs(v) >= BIG for v in g_terms.values()):
        return False
    atoms = set(g_terms)
    for t, c in cons:
        atoms |= set(t)
    atoms = sorted(atoms)
    m = len(cons)
    if m == 0:
        return g_const <= 0 and all(v <= 0 and nonneg(a) for a, v in g_terms.items())
    # unknowns: lam_0..lam_{m-1}, then one surplus var per inequality row
    rows = []
    rhs = []
    nsur = 0
    kinds = []
    for a in atoms:
        kinds.append("ge" if nonneg(a) else "eq")
    kinds.append("ge")      # constant row
    nsur = sum(1 for k in kinds if k == "ge")
    nv = m + nsur
    si = 0
    for ri, a in enumerate(atoms + [None]):
        row = [0.0] * nv
        for i, (t, c) in enumerate(cons):
            row[i] = float(t.get(a, 0)) if a is not None else float(c)
        r = float(g_terms.get(a, 0)) if a is not None else float(g_const)
        if kinds[ri] == "ge":
            row[m + si] = -1.0
            si += 1
        if r < 0:
            row = [-v for v in row]
            r = -r
        rows.append(row)
        rhs.append(r)
    x = _simplex_feasible(rows, rhs, nv)
    if x is None:
        return False
    lam = [Fraction(v).limit_denominator(10 ** 6) if v > EPS else Fraction(0) for v in x[:m]]
    # exact verification
    for a in atoms:
        s = sum(l * t.get(a, 0) for l, (t, c) in zip(lam, cons))
        gv = g_terms.get(a, 0)
        if nonneg(a):
            if s < gv:
                return _retry_exact(cons, g_terms, g_const, nonneg, lam, atoms)
        elif s != gv:
            return _retry_exact(cons, g_terms, g_const, nonneg, lam, atoms)
    s = sum(l * c for l, (t, c) in zip(lam, cons))
    if s < g_const:
        return _retry_exact(cons, g_terms, g_const, nonneg, lam, atoms)
    return True


def _retry_exact(cons, g_terms, g_const, nonneg, lam, atoms):
    """rounding made the certificate inexact: re-solve exactly on the support of lam (small system)"""
    sup = [i for i, l in enumerate(lam) if l != 0]
    if not sup or len(sup) > 12:
        return False
    # try small-denominator roundings of the float multipliers
    for den in (1, 2, 3, 4, 6, 8, 12, 24):
        cand = [Fraction(round(float(l) * den), den) for l in lam]
        ok = True
        for a in atoms:
            s = sum(l * t.get(a, 0) for l, (t, c) in zip(cand, cons))
            gv = g_terms.get(a, 0)
            if (nonneg(a) and s < gv) or (not nonneg(a) and s != gv):
                ok = False
                break
        if ok and sum(l * c for l, (t, c) in zip(cand, cons)) >= g_const and all(l >= 0 for l in cand):
            return True
    return False
