"""Polynomial abstract domain for straight-line bignum code.

A deterministic trace (rules/r_stride.PE.trace) of bn_* calls is interpreted over Z[symbols]: every bignum object
is a polynomial in the symbols standing for the inputs (modular reduction is ignored: all operations are ring
homomorphisms mod p, so two sides that agree as integer polynomials agree mod p).  The interpretation is
independent of temporaries, statement order and helper choice (square vs mult), unlike a statement-sequence match.
"""
from .core import walk, key, strip_casts


class Poly:
    __slots__ = ("t",)

    def __init__(self, t=None):
        self.t = {k: v for k, v in (t or {}).items() if v != 0}

    @staticmethod
    def sym(name):
        return Poly({((name, 1),): 1})

    @staticmethod
    def const(c):
        return Poly({(): c})

    def __add__(self, o):
        r = dict(self.t)
        for k, v in o.t.items():
            r[k] = r.get(k, 0) + v
        return Poly(r)

    def __neg__(self):
        return Poly({k: -v for k, v in self.t.items()})

    def __sub__(self, o):
        return self + (-o)

    def __mul__(self, o):
        r = {}
        for k1, v1 in self.t.items():
            for k2, v2 in o.t.items():
                d = dict(k1)
                for s, e in k2:
                    d[s] = d.get(s, 0) + e
                k = tuple(sorted(d.items()))
                r[k] = r.get(k, 0) + v1 * v2
        return Poly(r)

    def __pow__(self, n):
        r = Poly.const(1)
        for _ in range(n):
            r = r * self
        return r

    def __eq__(self, o):
        return self.t == o.t

    def subst(self, name, p):
        r = Poly()
        for k, v in self.t.items():
            term = Poly.const(v)
            for s, e in k:
                term = term * ((p ** e) if s == name else Poly({((s, e),): 1}))
            r = r + term
        return r

    def __repr__(self):
        if not self.t:
            return "0"
        out = []
        for k, v in sorted(self.t.items()):
            m = "*".join(s if e == 1 else "%s^%d" % (s, e) for s, e in k)
            out.append(("%d" % v if not m else (m if v == 1 else "%d*%s" % (v, m))))
        return " + ".join(out)


def _obj(arg):
    a = strip_casts(arg)
    if a.get("k") == "un" and a.get("op") == "&":
        a = strip_casts(a["e"])
    return key(a)


# name -> (arity of interest, lambda store, args(list of keys / ints) -> None)
def interpret(events, const_of=None):
    """run the bn_* calls of a trace; returns (store, compares) where compares = [(call node, Poly a, Poly b)]"""
    store = {}

    def get(k):
        if k not in store:
            store[k] = Poly.sym(k)
        return store[k]
    compares = []
    for e, b in events:
        for x, _ in walk(e):
            if x.get("k") != "call":
                continue
            fn = x.get("fn") or ""
            a = x["args"]
            if fn == "bn_assign":
                store[_obj(a[0])] = get(_obj(a[1]))
            elif fn in ("bn_assign_digit",):
                c = const_of(a[1], b) if const_of else None
                store[_obj(a[0])] = Poly.const(c) if c is not None else Poly.sym("?" + key(a[1]))
            elif fn in ("bn_mod_add", "bn_add"):
                store[_obj(a[0])] = get(_obj(a[0])) + get(_obj(a[1]))
            elif fn in ("bn_mod_sub", "bn_sub"):
                store[_obj(a[0])] = get(_obj(a[0])) - get(_obj(a[1]))
            elif fn in ("bn_mod_mult", "bn_mult"):
                store[_obj(a[0])] = get(_obj(a[0])) * get(_obj(a[1]))
            elif fn in ("bn_mod_square", "bn_square"):
                store[_obj(a[0])] = get(_obj(a[0])) * get(_obj(a[0]))
            elif fn in ("bn_mod_mult_digit", "bn_mult_digit", "bn_mod_exp_digit"):
                c = const_of(a[1], b) if const_of else None
                if c is None:
                    store[_obj(a[0])] = Poly.sym("?%s(%s)" % (fn, _obj(a[0])))
                elif fn == "bn_mod_exp_digit":
                    store[_obj(a[0])] = get(_obj(a[0])) ** c
                else:
                    store[_obj(a[0])] = get(_obj(a[0])) * Poly.const(c)
            elif fn in ("bn_r_shift", "bn_l_shift") and len(a) >= 2:
                c = const_of(a[1], b) if const_of else None
                if c is None:
                    store[_obj(a[0])] = Poly.sym("?%s(%s)" % (fn, _obj(a[0])))
                elif fn == "bn_l_shift":
                    store[_obj(a[0])] = get(_obj(a[0])) * Poly.const(2 ** c)
                else:
                    # an exact halving (the caller made the value even by adding the modulus): times the symbol `half`
                    store[_obj(a[0])] = get(_obj(a[0])) * (Poly.sym("half") ** c)
            elif fn == "bn_assign_zero":
                store[_obj(a[0])] = Poly.const(0)
            elif fn == "bn_cmp":
                compares.append((x, get(_obj(a[0])), get(_obj(a[1]))))
            elif fn.startswith("bn_mod_sqrt"):
                o = _obj(a[0])
                compares.append((x, get(o), None))
                store[o] = Poly.sym("sqrt")
            elif fn.startswith("bn_") and a and fn not in ("bn_init", "bn_is_odd", "bn_is_zero", "bn_is_one", "bn_is_even", "bn_mod_reduce"):
                # any other writer: result unknown
                if fn.startswith(("bn_mod_", "bn_")) and not fn.startswith(("bn_is_", "bn_cmp")):
                    store[_obj(a[0])] = Poly.sym("?%s(%s)" % (fn, _obj(a[0])))
    return store, compares
