"""R-OUTDEF: output parameters are defined together.  A function that reports results through several pointer parameters
(`*val_ret`, `*val_ret_size`) and returns a status stores, on every path to a success return, the same set of them - a
path that fills the pointer but not its length leaves the caller with the length of some earlier call.  Stores guarded
by a NULL test of the parameter itself count as stores (the caller opted out).  Forward dataflow over sets of stored
parameters; only parameters that are stored by plain assignment somewhere and never read before being stored (pure outputs)
take part."""
from . import core, r_mpt
from .core import walk, key, const_val, strip_casts


def _deref_param(e, pids):
    e = strip_casts(e)
    if e is not None and e.get("k") == "un" and e.get("op") == "*":
        b = strip_casts(e["e"])
        if b is not None and b.get("k") == "ref" and b.get("id") in pids:
            return b["id"]
    return None


def out_params(fn):
    """ids of pointer parameters whose pointee is plainly assigned somewhere and is never read (in/out parameters excluded)"""
    pids = {p["id"]: p["n"] for p in fn.params if fn.unit.type(p["t"])["k"] == "ptr"}
    stored, read = set(), set()
    for pos, root, x, ps in fn.nodes():
        if x.get("k") == "bin" and x["op"] == "=":
            d = _deref_param(x["x"], pids)
            if d is not None:
                stored.add(d)
        if x.get("k") == "un" and x.get("op") == "*":
            b = strip_casts(x["e"])
            if b is not None and b.get("k") == "ref" and b.get("id") in pids:
                par = ps[-1] if ps else None
                while par is not None and par.get("k") in ("cast", "paren"):
                    par = ps[ps.index(par) - 1] if ps.index(par) > 0 else None
                if not (par is not None and par.get("k") == "bin" and par["op"] == "=" and _deref_param(par["x"], pids) == b["id"]):
                    read.add(b["id"])
    # a parameter that is itself advanced or indexed is a buffer cursor, not a scalar output
    moved = set()
    for pos, root, x, ps in fn.nodes():
        st_ = core.step_of(x)
        if st_ is not None and strip_casts(st_[0]).get("k") == "ref" and strip_casts(st_[0]).get("id") in pids:
            moved.add(strip_casts(st_[0])["id"])
        if x.get("k") == "bin" and x["op"] in ("=", "+=", "-=") and strip_casts(x["x"]).get("k") == "ref" and strip_casts(x["x"]).get("id") in pids:
            moved.add(strip_casts(x["x"])["id"])
        if x.get("k") == "sub" and strip_casts(x["b"]).get("k") == "ref" and strip_casts(x["b"]).get("id") in pids:
            moved.add(strip_casts(x["b"])["id"])
    return {i: pids[i] for i in stored - read - moved}


def check(rep, fn, rule="R-OUTDEF"):
    outs = out_params(fn)
    if len(outs) < 2 or fn.unit.type(fn.ret)["k"] != "int":
        return 0
    # blocks where the parameter itself is tested against NULL: the 'is NULL' edge counts as stored (caller opted out)
    IN = {fn.entry: {frozenset()}}
    work = [fn.entry]
    at_ret = []
    while work:
        b = work.pop()
        st = set(IN[b])
        blk = fn.blocks[b]
        for e in blk.elems:
            w = set()
            for x, _ in walk(e):
                if x.get("k") == "bin" and x["op"] == "=":
                    d = _deref_param(x["x"], outs)
                    if d is not None:
                        w.add(d)
                # handed on to a callee as its output
                if x.get("k") == "call":
                    for a in x.get("args", []):
                        a0 = strip_casts(a)
                        if a0 is not None and a0.get("k") == "ref" and a0.get("id") in outs:
                            w.add(a0["id"])
            if w:
                st = {s | frozenset(w) for s in st}
            if e.get("k") == "ret" and const_val(e.get("e")) == 0 and core.strip_imp(e.get("e")).get("k") != "ref":
                at_ret.append((e.get("ln"), set(st)))
        succs = blk.rsucc()
        c = blk.cond
        for s_ in succs:
            st2 = st
            if c is not None and len(blk.succ) == 2:
                # `NULL != p` false edge / `NULL == p` true edge: p counts as stored
                c0 = core.strip_imp(c)
                if c0.get("k") == "bin" and c0["op"] in ("==", "!="):
                    sides = [strip_casts(c0["x"]), strip_casts(c0["y"])]
                    pr = [y for y in sides if y is not None and y.get("k") == "ref" and y.get("id") in outs]
                    zr = [y for y in sides if y is not None and const_val(y) == 0]
                    if pr and zr:
                        null_edge = blk.succ[0] if c0["op"] == "==" else blk.succ[1]
                        if s_ == null_edge:
                            st2 = {s | frozenset([pr[0]["id"]]) for s in st}
            if not st2 <= IN.get(s_, set()):
                IN[s_] = IN.get(s_, set()) | st2
                work.append(s_)
    if not at_ret:
        return 0
    allsets = [s for _ln, ss in at_ret for s in ss]
    full = frozenset().union(*allsets) if allsets else frozenset()
    n = 0
    for ln, ss in at_ret:
        n += 1
        desc = "%s: the success return at line %s is reached with every output parameter (%s) stored" % (
            fn.name, ln, ", ".join(sorted(outs[i] for i in full)))
        worst = min(ss, key=len) if ss else frozenset()
        missing = sorted(outs[i] for i in full - worst)
        inst = "outputs@ret#%d" % n
        def pointee_kind(i):
            p_ = next(q for q in fn.params if q["id"] == i)
            return fn.unit.type(fn.unit.type(p_["t"])["to"])["k"]
        ptr_stored = [i for i in worst if pointee_kind(i) == "ptr"]
        int_missing = [i for i in full - worst if pointee_kind(i) == "int"]
        if not missing or not worst:
            # a path that stores nothing at all is the 'nothing to report' form (status tells): not compared
            rep.proved(rule, fn, inst, desc, "all stored" if not missing else "a path that stores no output at all (status only)", ln)
        elif not (ptr_stored and int_missing):
            # a length without its pointer (length 0: nothing to point at) is tolerated; the dangerous form is a pointer
            # handed back without the length that belongs to it
            rep.proved(rule, fn, inst, desc, "no path stores a pointer output without its integer output (%s left unset on some path)" % ", ".join(missing), ln)
        else:
            rep.violated(rule, fn, inst, desc, "a path stores %s but not %s: the caller reads what an earlier call (or nobody) left there" % (
                ", ".join(sorted(outs[i] for i in worst)), ", ".join(missing)), ln)
    return n
