"""Typestate clients for hash / HMAC contexts (C04, C07, C15)."""
from . import core, r_ts
from .core import walk, key

HASH_API = {
    # name: (event, ctx arg index)
    "md5_init": ("init", 0), "md5_update": ("use", 0), "md5_final": ("final", 0),
    "sha1_init": ("init", 0), "sha1_update": ("use", 0), "sha1_final": ("final", 0),
    "sha2_init": ("init", 1), "sha2_update": ("use", 0), "sha2_final": ("final", 0),
    "gost3411_2012_init": ("init", 1), "gost3411_2012_update": ("use", 0), "gost3411_2012_final": ("final", 0),
}
HASH_CTX_RECS = {"md5_ctx_s", "sha1_ctx_s", "sha2_ctx_s", "gost3411_2012_ctx_s"}

HMAC_API = {
    "hmac_md5_init": ("init", 2), "hmac_md5_update": ("use", 0), "hmac_md5_final": ("final", 0),
    "hmac_sha1_init": ("init", 2), "hmac_sha1_update": ("use", 0), "hmac_sha1_final": ("final", 0),
    "hmac_sha2_init": ("init", 3), "hmac_sha2_update": ("use", 0), "hmac_sha2_final": ("final", 0),
    "hmac_gost3411_2012_init": ("init", 3), "hmac_gost3411_2012_update": ("use", 0),
    "hmac_gost3411_2012_final": ("final", 0),
}
HMAC_CTX_RECS = {"hmac_md5_ctx_s", "hmac_sha1_ctx_s", "hmac_sha2_ctx_s", "hmac_gost3411_2012_ctx_s"}


def _rec_of(unit, tid):
    t = unit.type(tid)
    if t["k"] == "ptr":
        t = unit.type(t["to"])
    return t.get("rec")


def make_events(api, recs):
    def events(fn, elem):
        unit = fn.unit
        out = []
        for n, parents in walk(elem):
            k = n.get("k")
            if k == "call":
                name = n.get("fn")
                if name in api:
                    ev, idx = api[name]
                    if idx < len(n["args"]):
                        ok = r_ts.obj_key(n["args"][idx])
                        if ok:
                            out.append((ok, ev, n))
                    continue
                if name in ("memcpy", "memmove") and len(n["args"]) == 3:
                    d, s = n["args"][0], n["args"][1]
                    if _rec_of(unit, core.strip_casts(s)["t"]) in recs:
                        ok = r_ts.obj_key(s)
                        if ok:
                            out.append((ok, "use", n))
                    if _rec_of(unit, core.strip_casts(d)["t"]) in recs:
                        ok = r_ts.obj_key(d)
                        if ok:
                            out.append((ok, "init", n))
                    continue
                # any other call receiving the context
                for a in n["args"]:
                    a0 = core.strip_casts(a)
                    if a0 is not None and "t" in a0 and unit.type(a0["t"])["k"] == "ptr" and \
                            _rec_of(unit, a0["t"]) in recs:
                        ok = r_ts.obj_key(a)
                        if ok:
                            out.append((ok, "use", n))
            elif k == "mem":
                b = core.strip_casts(n["b"])
                if "t" in b and _rec_of(unit, b["t"]) in recs and n.get("rec") in recs:
                    ok = ("*" + key(b)) if n["arrow"] else key(b)
                    # a field access that is itself the argument of '&' for an API call is handled there
                    out.append((ok, "use", n))
        return out
    return events


HASH_TRANS = {
    ("RAW", "use"): ("viol", "context used before *_init"),
    ("RAW", "final"): ("viol", "context finalised before *_init"),
    ("RAW", "init"): "LIVE",
    ("LIVE", "init"): "LIVE",
    ("LIVE", "final"): "DEAD",
    ("DEAD", "init"): "LIVE",
    ("DEAD", "use"): ("viol", "context read/updated after *_final wiped it"),
    ("DEAD", "final"): ("undec", "context may be finalised twice (path-insensitive)", "DEAD"),
}

HMAC_TRANS = {
    ("RAW", "use"): ("viol", "HMAC context used before hmac_*_init"),
    ("RAW", "final"): ("viol", "HMAC context finalised before hmac_*_init"),
    ("RAW", "init"): "PENDING",
    ("PENDING", "init"): ("viol", "hmac_*_init on a context whose pads were not wiped by hmac_*_final", "PENDING"),
    ("PENDING", "final"): "DONE",
    ("DONE", "init"): "PENDING",
    ("DONE", "use"): ("viol", "HMAC context used after hmac_*_final"),
    ("DONE", "final"): ("viol", "HMAC context finalised twice"),
}


def local_names(fn):
    names = set()
    for bid, i, e in fn.roots():
        if e.get("k") == "decl":
            for v in e["vars"]:
                names.add(v["n"])
    return names


def check_hash_typestate(rep, fn, rule="R-TS"):
    """no use-after-final / use-before-init of hash contexts in fn"""
    events = make_events(HASH_API, HASH_CTX_RECS)
    locs = local_names(fn)

    def default(k):
        base = k.lstrip("*").split("->")[0].split(".")[0].split("[")[0]
        return "RAW" if (base in locs and not k.startswith("*")) else "LIVE"
    viols, nev, ins = r_ts.run(fn, events, HASH_TRANS, default)
    if nev == 0:
        return 0
    if viols:
        seen = set()
        for pos, node, k, s, ev, msg in viols:
            inst = "%s:%s-in-%s" % (k, ev, s)
            if inst in seen:
                continue
            seen.add(inst)
            (rep.undecided if msg.startswith("?") else rep.violated)(
                rule, fn, inst, "hash context %s follows init -> update* -> final" % k,
                "%s (line %s)" % (msg.lstrip("?"), node.get("ln")), node.get("ln"))
    else:
        rep.proved(rule, fn, "hash-ctx", "hash contexts follow init -> update* -> final; no access after final",
                   "%d context events on all paths" % nev)
    return nev


def check_hmac_must_final(rep, fn, rule="R-TS"):
    """every hmac_*_init on a local context reaches hmac_*_final on every path to exit"""
    events = make_events(HMAC_API, HMAC_CTX_RECS)
    locs = local_names(fn)

    def default(k):
        base = k.lstrip("*").split("->")[0].split(".")[0].split("[")[0]
        return "RAW" if (base in locs and not k.startswith("*")) else "PENDING"
    viols, nev, ins = r_ts.run(fn, events, HMAC_TRANS, default)
    if nev == 0:
        return 0
    bad = False
    seen = set()
    for pos, node, k, s, ev, msg in viols:
        inst = "%s:%s-in-%s" % (k, ev, s)
        if inst in seen:
            continue
        seen.add(inst)
        bad = True
        rep.violated(rule, fn, inst, "HMAC context %s follows init -> update* -> final" % k,
                     "%s (line %s)" % (msg, node.get("ln")), node.get("ln"))
    ex = r_ts.exit_states(fn, ins, events, HMAC_TRANS, default)
    for bid, st in ex.items():
        for (k, s) in st:
            base = k.split("->")[0].split(".")[0]
            if s == "PENDING" and base in locs and not k.startswith("*"):
                # find the return line
                ln = None
                for e in fn.blocks[bid].elems:
                    if e.get("k") == "ret":
                        ln = e.get("ln")
                inst = "%s:exit-while-PENDING" % k
                if inst in seen:
                    continue
                seen.add(inst)
                bad = True
                rep.violated(rule, fn, inst,
                             "every hmac_*_init of local %s reaches hmac_*_final (which wipes k_opad) before return" % k,
                             "return at line %s reached with keyed pads still in %s" % (ln, k), ln)
    if not bad:
        rep.proved(rule, fn, "hmac-ctx", "HMAC contexts: init -> update* -> final on every path to exit",
                   "%d HMAC context events" % nev)
    return nev
