"""R-MPT: must-pass-through / guard-dominance rules.

A *guard obligation* says: every path from function entry to a target
(normally the `return 0` success exits) passes through a branch that tests
a given atom (a call or an lvalue), and for each value in the atom's finite
value domain the edge taken can reach the target iff the value is in the
allowed set.  The branch condition is evaluated by a tiny expression
evaluator with the atom bound to each domain value, so every syntactic
variant (`x >= 0`, `0 <= x`, `!(x < 0)`, `if (x) ... else`) is treated alike.
"""
from . import core
from .core import walk, key, const_val


class Unknown(Exception):
    pass


def eval_expr(e, env, hook=None):
    """evaluate integer expression e; env maps id(node)->value for atoms; hook(node, recurse)
    may return a value for nodes it understands (e.g. table lookups).
    raises Unknown for anything not computable."""
    if id(e) in env:
        return env[id(e)]
    if hook is not None:
        hv = hook(e, lambda x: eval_expr(x, env, hook))
        if hv is not None:
            return hv
    k = e.get("k")
    if k == "int":
        return int(e["v"])
    if "cv" in e:
        return int(e["cv"])
    if k == "lazy" and e.get("lz") is not None:
        return eval_expr(e["lz"], env, hook)
    if k == "cond":
        return eval_expr(e["x"] if eval_expr(e["c"], env, hook) else e["y"], env, hook)
    if k == "cast":
        v = eval_expr(e["e"], env, hook)
        if e.get("ck") in ("IntegralToBoolean", "PointerToBoolean"):
            return 1 if v else 0
        return v
    if k == "un":
        v = eval_expr(e["e"], env, hook)
        op = e["op"]
        if op == "!":
            return 0 if v else 1
        if op == "-":
            return -v
        if op == "~":
            return ~v
        if op == "+":
            return v
        raise Unknown()
    if k == "bin":
        op = e["op"]
        a = eval_expr(e["x"], env, hook)
        b = eval_expr(e["y"], env, hook)
        if op == "==":
            return int(a == b)
        if op == "!=":
            return int(a != b)
        if op == "<":
            return int(a < b)
        if op == ">":
            return int(a > b)
        if op == "<=":
            return int(a <= b)
        if op == ">=":
            return int(a >= b)
        if op == "+":
            return a + b
        if op == "-":
            return a - b
        if op == "&":
            return a & b
        if op == "|":
            return a | b
        if op == "^":
            return a ^ b
        if op == "*":
            return a * b
        if op == "<<" and 0 <= b < 128:
            return a << b
        if op == ">>" and 0 <= b < 128:
            return a >> b
        if op == "/" and b != 0 and a >= 0 and b > 0:
            return a // b
        if op == "%" and b != 0 and a >= 0 and b > 0:
            return a % b
        if op == "&&":
            return int(bool(a) and bool(b))
        if op == "||":
            return int(bool(a) or bool(b))
        raise Unknown()
    raise Unknown()


def success_returns(fn, value=0):
    res = []
    for pos, r in fn.returns():
        if const_val(r.get("e")) == value and core.strip_imp(r.get("e")).get("k") != "ref":
            res.append(pos)
    return res


def returns_matching(fn, pred):
    return [pos for pos, r in fn.returns() if pred(r)]


def branches_with(fn, atom_pred):
    """yield (block_id, cond_expr, atom_node) for two-way/switch branch conditions containing an atom"""
    for bid in sorted(fn.reachable_blocks(), reverse=True):
        b = fn.blocks[bid]
        c = b.cond
        if c is None:
            continue
        for n, parents in walk(c):
            if atom_pred(n, parents):
                yield bid, c, n
                break


def edge_for_value(fn, bid, cond, atom, value):
    """successor block taken when atom == value, or None if not computable"""
    b = fn.blocks[bid]
    try:
        v = eval_expr(cond, {id(atom): value})
    except Unknown:
        return None, False
    if b.term["k"] == "SwitchStmt":
        dflt = None
        for s in b.succ:
            if s is None:
                continue
            lab = fn.blocks[s].label or {}
            if "case" in lab and int(lab["case"]) == v:
                return s, True
            if lab.get("default"):
                dflt = s
        if dflt is None:
            # implicit default: last successor is the fall-out edge
            dflt = b.succ[-1]
        return dflt, True
    s = b.succ[0] if v else b.succ[1]
    return s, True


def can_reach(fn, start_block, targets, avoid=()):
    """can any target position be reached from the start of start_block
    (without re-entering the blocks in `avoid`, normally the guard itself)?"""
    if start_block is None:
        return False
    r = fn.reach_from([start_block], avoid=avoid)
    return any(t[0] in r for t in targets)


def all_paths_through_block(fn, bid, targets):
    """every entry->target path passes through block bid"""
    r = fn.reach_from([fn.entry], avoid=[bid])
    return not any(t[0] in r for t in targets)


def check_guard(rep, fn, name, atom_pred, domain, allowed, targets=None, rule="R-MPT",
                target_desc="success return", require_dominance=True, stable=False):
    """See module docstring.  domain: iterable of ints; allowed: subset that may reach the targets."""
    if targets is None:
        targets = success_returns(fn)
    desc = "every path to a %s passes a test of %s that admits only %s of %s" % (
        target_desc, name, sorted(allowed), sorted(domain))
    if not targets:
        return rep.violated(rule, fn, name, desc, "no %s found in function" % target_desc)
    cands = list(branches_with(fn, atom_pred))
    why = []
    for bid, cond, atom in cands:
        if require_dominance and not all_paths_through_block(fn, bid, targets):
            why.append("test at line %s does not dominate the %s" % (cond.get("ln"), target_desc))
            continue
        ok = True
        for v in domain:
            s, known = edge_for_value(fn, bid, cond, atom, v)
            if not known:
                ok = False
                why.append("condition at line %s not evaluable" % cond.get("ln"))
                break
            reach = can_reach(fn, s, targets, avoid=[bid])
            if reach != (v in allowed):
                ok = False
                why.append("at line %s value %d %s reach the %s" % (
                    cond.get("ln"), v, "can" if reach else "cannot", target_desc))
                break
        if ok and stable:
            # the tested object must still be the same object at the target: none of the
            # variables of the atom is written between the admitting edge and the target
            from . import r_range
            vids = core.ref_ids(atom)
            for v in allowed:
                s, known = edge_for_value(fn, bid, cond, atom, v)
                for t in targets:
                    if s is not None and r_range.written_between(fn, bid, s, t, vids, direct_only=True):
                        ok = False
                        why.append("the object tested at line %s is reassigned before the %s (the test no longer "
                                   "applies to what is used there)" % (cond.get("ln"), target_desc))
                        break
                if not ok:
                    break
        if ok:
            return rep.proved(rule, fn, name, desc, "branch at line %s (block B%d) dominates; edges checked for %s" % (
                cond.get("ln"), bid, sorted(domain)), cond.get("ln"))
    if not cands:
        why.append("no branch tests this atom")
    return rep.violated(rule, fn, name, desc, "; ".join(why))


# ----------------------------------------------------------- atom predicates

def is_param(fn, node, index):
    node = core.strip_casts(node)
    return node is not None and node.get("k") == "ref" and node.get("dk") == "parm" and \
        index < len(fn.params) and node["id"] == fn.params[index]["id"]


def param_index(fn, node):
    node = core.strip_casts(node)
    if node is None or node.get("k") != "ref" or node.get("dk") != "parm":
        return None
    for i, p in enumerate(fn.params):
        if p["id"] == node["id"]:
            return i
    return None


def call_atom(fname, argpreds):
    """atom = direct call of fname whose args satisfy the predicates (None = any)"""
    def pred(n, parents):
        if n.get("k") != "call" or n.get("fn") != fname:
            return False
        if len(n["args"]) < len(argpreds):
            return False
        for a, p in zip(n["args"], argpreds):
            if p is not None and not p(a):
                return False
        return True
    return pred


def addr_of_field(base_pred, field):
    """&base->field or &base.field"""
    def p(a):
        a = core.strip_casts(a)
        if a.get("k") != "un" or a["op"] != "&":
            return False
        m = core.strip_casts(a["e"])
        return m.get("k") == "mem" and m["f"] == field and (base_pred is None or base_pred(m["b"]))
    return p


def field_atom(field, base_pred=None):
    def pred(n, parents):
        return n.get("k") == "mem" and n["f"] == field and (base_pred is None or base_pred(n["b"]))
    return pred


def check_switch_exhaustive(rep, fn, cond_pred, names, unit, rule="R-CFGX", inst=None,
                            default_must_fail=True, targets=None):
    """switch whose condition satisfies cond_pred has a case for each named constant;
    the default edge (explicit or implicit) cannot reach a success return."""
    found = 0
    for bid in fn.reachable_blocks():
        b = fn.blocks[bid]
        if not b.term or b.term["k"] != "SwitchStmt" or b.cond is None:
            continue
        if not cond_pred(b.cond):
            continue
        found += 1
        have = {}
        dflt = None
        for s in b.succ:
            if s is None:
                continue
            lab = fn.blocks[s].label or {}
            if "case" in lab:
                have[int(lab["case"])] = s
            else:
                dflt = s
        key_ = inst or ("switch(%s)" % key(b.cond))
        missing = [n for n, v in names.items() if v not in have]
        desc = "switch over %s has a case for each of %s and its default arm fails" % (key(b.cond), sorted(names))
        if missing:
            rep.violated(rule, fn, key_, desc, "no case for %s" % missing, b.cond.get("ln"))
            continue
        if default_must_fail:
            tg = targets if targets is not None else success_returns(fn)
            # the default successor: explicit default label or the implicit fall-out edge
            d = dflt if dflt is not None else b.succ[-1]
            lab = fn.blocks[d].label or {} if d is not None else {}
            if d is not None and not lab.get("default") and dflt is None:
                pass
            if d is not None and can_reach(fn, d, tg) and (fn.blocks[d].label or {}).get("default") is None \
                    and dflt is not None:
                pass
            if d is not None and can_reach(fn, d, tg):
                rep.violated(rule, fn, key_, desc, "default/unknown value can reach a success return", b.cond.get("ln"))
                continue
        rep.proved(rule, fn, key_, desc, "cases %s present; default arm cannot reach success" % sorted(names), b.cond.get("ln"))
    return found
