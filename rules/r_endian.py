"""R-ENDIAN: byte-order typestate of wire fields (the rule sparse applies to __be16/__be32 annotated kernel code,
with the annotation inferred from the code).

A multi-byte integer field of a record is a *wire field* when the unit reads it as the direct operand of
ntohs/ntohl or stores the direct result of htons/htonl into it at least once.  Every value then carries a tag

    NET   wire fields, results of hton*(HOST), bitwise combinations of NET values
    HOST  results of ntoh*(NET), arithmetic results, non-symmetric integer constants
    ANY   0 and all-ones constants (equal to their own byte swap)
    UNK   anything else (parameters, fields of other records, call results)

and every access to a wire field is one obligation:

    converted            the access is the operand of ntoh* / the target of a hton* store           -> proved
    copy / compare       stored from, compared (==, !=) or combined bitwise with NET or ANY values  -> proved
    arithmetic           operand of + - * / % << >> ++ -- += ... without conversion, or of an ordering
                         comparison with a host-order value (size_t variables count as host order)  -> VIOLATION
                         (on a little-endian host the carry between the two bytes runs the wrong way)
    ordering             < <= > >= against a value not known to be host order (a table in wire order) -> undecided
    host store           a HOST value is stored into the field                                      -> VIOLATION
    flip                 `f = swap(f)` on the same lvalue: the in-place flip idiom                  -> not an obligation
    escapes              passed to a callee, returned, stored from an UNK value                     -> undecided (listed)

Local variables take the tag of the values assigned to them when all assignments agree.
"""
from . import core
from .core import walk, key, strip_casts, const_val

SWAPS = {"htons": 16, "ntohs": 16, "htonl": 32, "ntohl": 32, "__bswap_16": 16, "__bswap_32": 32,
         "__builtin_bswap16": 16, "__builtin_bswap32": 32, "__uint16_identity": 0, "__uint32_identity": 0}
ARITH = {"+", "-", "*", "/", "%", "<<", ">>", "<", "<=", ">", ">=", "+=", "-=", "*=", "/=", "%=", "<<=", ">>="}
BITW = {"&", "|", "^"}
NET, HOST, ANY, UNK = "NET", "HOST", "ANY", "UNK"


def _swap_call(e):
    return e is not None and e.get("k") == "call" and e.get("fn") in SWAPS and len(e.get("args", [])) == 1


def wire_fields(unit, fns):
    """{(record, field)} read under ntoh* or stored from hton* somewhere in fns"""
    out = {}
    for fn in fns:
        if not fn.has_cfg:
            continue
        for pos, root, x, ps in fn.nodes():
            if _swap_call(x):
                a = strip_casts(x["args"][0])
                if a.get("k") == "mem" and _wide_int(unit, a):
                    out.setdefault((a.get("rec"), a["f"]), []).append(fn.name)
            if x.get("k") == "bin" and x["op"] == "=":
                l = strip_casts(x["x"])
                r = strip_casts(x["y"])
                if l.get("k") == "mem" and _swap_call(r) and _wide_int(unit, l):
                    out.setdefault((l.get("rec"), l["f"]), []).append(fn.name)
    return out


def _wide_int(unit, m):
    if "t" not in m:
        return False
    t = unit.type(m["t"])
    return t["k"] == "int" and (t.get("w") or 0) >= 16


class Tagger:
    def __init__(self, unit, fn, wire):
        self.u, self.fn, self.wire = unit, fn, wire
        self.var = {}
        self._vars()

    def _vars(self):
        """tags of local variables: the join of everything assigned to them (two rounds for chains)"""
        for _ in range(2):
            acc = {}
            use = {}
            for pos, root, x, ps in self.fn.nodes():
                tgt = val = None
                if x.get("k") == "bin" and x["op"] == "=":
                    l = strip_casts(x["x"])
                    if l.get("k") == "ref" and l.get("dk") == "local":
                        tgt, val = l.get("id"), x["y"]
                elif x.get("k") == "decl":
                    for v in x.get("vars", []):
                        if v.get("init") is not None:
                            acc.setdefault(v["id"], set()).add(self.tag(v["init"]))
                elif x.get("k") == "bin" and x["op"] in ARITH and x["op"].endswith("=") and x["op"] not in ("<=", ">="):
                    l = strip_casts(x["x"])
                    if l.get("k") == "ref" and l.get("dk") == "local":
                        acc.setdefault(l.get("id"), set()).add(HOST)
                if tgt is not None:
                    acc.setdefault(tgt, set()).add(self.tag(val))
                # a plain variable handed to hton* holds a host value, to ntoh* a wire value
                if _swap_call(x) and SWAPS[x["fn"]]:
                    a = strip_casts(x["args"][0])
                    if a.get("k") == "ref" and a.get("dk") in ("local", "parm") and (x["fn"].startswith("hton") or x["fn"].startswith("ntoh")):
                        use.setdefault(a.get("id"), set()).add(HOST if x["fn"].startswith("hton") else NET)
            self.var = {}
            for i, ts in acc.items():
                ts = ts - {ANY}
                self.var[i] = next(iter(ts)) if len(ts) == 1 else (ANY if not ts else UNK)
            for i, ts in use.items():
                # never-assigned variables (parameters) take the order their uses imply
                if i not in acc and len(ts) == 1:
                    self.var[i] = next(iter(ts))

    def is_wire(self, m):
        return m.get("k") == "mem" and (m.get("rec"), m.get("f")) in self.wire

    def tag(self, e):
        if e is None:
            return UNK
        k = e.get("k")
        cv = const_val(e)
        if cv is not None:
            return ANY if cv in (0, 0xffff, 0xffffffff, -1) else HOST
        if k == "cast":
            return self.tag(e["e"])
        if k == "lazy" and e.get("lz") is not None:
            return self.tag(e["lz"])
        if _swap_call(e):
            t = self.tag(e["args"][0])
            if SWAPS[e["fn"]] == 0:
                return t
            if t == UNK:
                # a value of unknown order handed to hton* is by convention a host value, to ntoh* a wire value
                return NET if e["fn"].startswith("hton") else (HOST if e["fn"].startswith("ntoh") else UNK)
            return {NET: HOST, HOST: NET, ANY: ANY}[t]
        if k == "mem":
            return NET if self.is_wire(e) else UNK
        if k == "ref":
            t = self.var.get(e.get("id"), UNK)
            if t == UNK and "t" in e:
                ty = self.u.type(e["t"])
                if ty["k"] == "int" and (ty.get("w") or 0) >= 64:
                    return HOST              # sizes and counts (size_t, 64-bit): wire fields here are 16/32-bit
            return t
        if k == "cond":
            a, b = self.tag(e["x"]), self.tag(e["y"])
            if a == b or b == ANY:
                return a
            return b if a == ANY else UNK
        if k == "bin":
            op = e["op"]
            if op in BITW:
                a, b = self.tag(e["x"]), self.tag(e["y"])
                s = {a, b}
                if s <= {NET, ANY}:
                    return NET if NET in s else ANY
                if s <= {HOST, ANY}:
                    return HOST
                return UNK
            if op in ("==", "!=", "&&", "||"):
                return HOST
            if op in ARITH:
                return HOST
            if op == "=":
                return self.tag(e["y"])
            if op == ",":
                return self.tag(e["y"])
        if k == "un":
            if e["op"] == "~":
                return self.tag(e["e"])
            if e["op"] in ("-", "!", "pre++", "pre--", "post++", "post--"):
                return HOST
        return UNK


def check(rep, unit, fns, wire=None, rule="R-ENDIAN"):
    """returns (number of wire fields, number of accesses classified)"""
    fns = [f for f in fns if f.has_cfg]
    if wire is None:
        wire = wire_fields(unit, fns)
    n = 0
    for fn in fns:
        tg = Tagger(unit, fn, wire)
        per = {}
        # uses of NET-tagged values: the wire fields themselves and locals that hold them
        for pos, root, x, ps in fn.nodes():
            is_field = tg.is_wire(x)
            is_var = x.get("k") == "ref" and x.get("dk") == "local" and tg.var.get(x.get("id")) == NET
            if not (is_field or is_var):
                continue
            # climb through casts / parentheses
            i = len(ps) - 1
            child = x
            while i >= 0 and ps[i].get("k") in ("cast", "lazy"):
                child = ps[i]
                i -= 1
            par = ps[i] if i >= 0 else None
            what = key(x)
            per[what] = per.get(what, 0) + 1
            inst = "order:%s#%d" % (what, per[what])
            desc = "%s holds a network byte order value: it is converted before arithmetic and only network-order values are stored in it" % what
            ln = x.get("ln") or root.get("ln")
            n += 1
            rep.functions.add(fn.name)

            def on(side):
                return par is not None and par.get(side) is not None and strip_casts(par[side]) is strip_casts(child)
            if par is None:
                rep.proved(rule, fn, inst, desc, "value unused", ln)
            elif _swap_call(par):
                rep.proved(rule, fn, inst, desc, "converted by %s" % par["fn"], ln)
            elif par.get("k") == "bin" and par["op"] == "=" and on("x"):
                rhs = par["y"]
                r0 = strip_casts(rhs)
                if _swap_call(r0) and key(strip_casts(r0["args"][0])) == what:
                    n -= 1
                    per[what] -= 1
                    continue                 # in-place flip idiom
                t = tg.tag(rhs)
                if t in (NET, ANY):
                    rep.proved(rule, fn, inst, desc, "stored value is %s" % ("network order" if t == NET else "byte-order neutral"), ln)
                elif t == HOST:
                    rep.violated(rule, fn, inst, desc, "a host byte order value (%s) is stored without htons/htonl" % key(r0)[:60], ln)
                else:
                    rep.undecided(rule, fn, inst, desc, "stored value %s has no known byte order" % key(r0)[:60], ln)
            elif par.get("k") == "bin" and par["op"] == "=" and on("y"):
                l = strip_casts(par["x"])
                if l.get("k") == "ref" and l.get("dk") == "local":
                    rep.proved(rule, fn, inst, desc, "copied to local '%s' (its uses are checked as network order)" % l.get("n"), ln)
                elif tg.is_wire(l):
                    rep.proved(rule, fn, inst, desc, "copied to wire field %s" % key(l), ln)
                else:
                    rep.undecided(rule, fn, inst, desc, "copied unconverted to %s" % key(l)[:60], ln)
            elif par.get("k") == "bin" and par["op"] in ("<", "<=", ">", ">=") and \
                    tg.tag(par["y"] if on("x") else par["x"]) != HOST:
                # ordering two unconverted values is meaningful only for tables built in wire order: not decided
                rep.undecided(rule, fn, inst, desc, "ordering comparison with %s, whose byte order is not known to be host order" % key(
                    strip_casts(par["y"] if on("x") else par["x"]))[:60], ln)
            elif par.get("k") == "bin" and par["op"] in ARITH:
                rep.violated(rule, fn, inst, desc, "operand of '%s' without ntohs/ntohl: on a little-endian host the carry between "
                             "the bytes runs the wrong way (%s)" % (par["op"], key(par)[:80]), ln)
            elif par.get("k") == "un" and par["op"] in ("pre++", "pre--", "post++", "post--", "-"):
                rep.violated(rule, fn, inst, desc, "operand of '%s' without ntohs/ntohl" % par["op"], ln)
            elif par.get("k") == "bin" and par["op"] in ("==", "!="):
                other = par["y"] if on("x") else par["x"]
                t = tg.tag(other)
                if t in (NET, ANY):
                    rep.proved(rule, fn, inst, desc, "compared for equality with a %s value" % ("network order" if t == NET else "byte-order neutral"), ln)
                elif t == HOST:
                    rep.violated(rule, fn, inst, desc, "compared with the host byte order value %s without conversion" % key(strip_casts(other))[:60], ln)
                else:
                    rep.undecided(rule, fn, inst, desc, "compared with %s of unknown byte order" % key(strip_casts(other))[:60], ln)
            elif par.get("k") == "bin" and par["op"] in BITW | {"&=", "|=", "^="}:
                other = par["y"] if on("x") else par["x"]
                t = tg.tag(other)
                if t in (NET, ANY):
                    rep.proved(rule, fn, inst, desc, "bitwise '%s' with a network-order or neutral value" % par["op"], ln)
                else:
                    rep.undecided(rule, fn, inst, desc, "bitwise '%s' with %s" % (par["op"], key(strip_casts(other))[:60]), ln)
            elif par.get("k") == "sizeof":
                n -= 1
                per[what] -= 1
                continue                     # not evaluated
            elif par.get("k") == "un" and par["op"] == "&":
                n -= 1
                per[what] -= 1
                continue                     # address taken: bytes are copied, not interpreted
            elif par.get("k") == "decl":
                rep.proved(rule, fn, inst, desc, "initialises a local (its uses are checked as network order)", ln)
            else:
                rep.undecided(rule, fn, inst, desc, "escapes unconverted (%s)" % (par.get("k") + ":" + str(par.get("fn") or par.get("op") or "")), ln)
    return len(wire), n
