"""R-ERR: status discipline.

A *status function* is one whose int result follows the repository's
0 / errno convention.  The set is derived from the code, not from names:
a function returning int is a status function when some return statement
returns an errno macro constant (EINVAL, EOVERFLOW, ...) or -1/-2 *and* 0
is returned for success, or when it returns the value of another status
function (fixed point).  Predicates (bn_cmp, bn_is_*) never return an
errno macro and are therefore not in the set.

Obligation for every call site of a status function: the value is
  tested (part of a branch condition), returned, combined into another
  expression / passed on, or stored in a variable that is read on every
  path before it is overwritten or the function returns.
A value that is discarded (expression statement, or cast to void) or
stored and never read on some path is a violation.
"""
from . import core
from .core import walk, key

ERRNO_NAMES = {
    "EINVAL", "EOVERFLOW", "ENOMEM", "ERANGE", "EDOM", "EFAULT", "ENOENT", "EBADMSG",
    "ENOBUFS", "E2BIG", "EEXIST", "EAGAIN", "ENOSPC", "EPERM", "ESPIPE", "EDEADLK",
    "EHOSTDOWN", "ENOTSUP", "ENOSYS", "EILSEQ", "EPROTO", "EMSGSIZE", "ENODATA", "EALREADY",
    "ENOTCONN", "ETIMEDOUT", "ECONNRESET", "EIO", "ESRCH", "EBUSY", "ENAMETOOLONG",
    "EAFNOSUPPORT", "EPROTONOSUPPORT", "ENXIO", "ENOTDIR", "EBADF", "EINTR", "EACCES",
    "ENOATTR", "ENOEXEC", "EFTYPE", "EAUTH", "EDESTADDRREQ", "ENOPROTOOPT", "ECANCELED",
    "ECONNREFUSED", "ENETUNREACH", "EHOSTUNREACH", "EOPNOTSUPP", "ESHUTDOWN", "EPROTOTYPE",
    "EISCONN", "EADDRINUSE", "EADDRNOTAVAIL", "ENOLCK", "EMLINK", "ELOOP", "EINPROGRESS",
}


def _ret_class(unit, e, parents=()):
    """classify a returned expression: 'errno', 'zero', 'neg', 'call:<fn>', 'var:<id>', 'other'"""
    e = core.strip_imp(e)
    if e is None:
        return "void"
    m = core.macros(e, parents)
    if m and m[0] in ERRNO_NAMES:
        return "errno"
    k = e.get("k")
    if k == "call" and e.get("fn"):
        return "call:" + e["fn"]
    if k == "ref" and e.get("dk") in ("local", "parm"):
        return "var:%d" % e["id"]
    v = core.const_val(e)
    if v is not None:
        if v == 0:
            return "zero"
        if v < 0:
            return "neg"
        return "pos"
    return "other"


def status_functions(unit, extra=(), exclude=()):
    """derive the status-function set of a unit by fixed point"""
    cand = {}
    for fn in unit.function_list:
        t = unit.type(fn.ret)
        if t["k"] != "int" or t.get("w") != 32 or not fn.has_cfg:
            continue
        classes = set()
        assigned_from = {}   # var id -> set of classes assigned
        for pos, root in [(p, r) for (b, i, r) in fn.roots() for p in [(b, i)]]:
            for lhs, rhs in core.assigned_lhs(root):
                l = core.strip_imp(lhs)
                if l.get("k") == "ref":
                    assigned_from.setdefault(l["id"], set()).add(_ret_class(unit, rhs, (root,)))
        for pos, r in fn.returns():
            c = _ret_class(unit, r.get("e"), (r,))
            if c.startswith("var:"):
                vid = int(c[4:])
                classes |= assigned_from.get(vid, {"other"})
                # BN_RET_ON_ERR: 'int ret_error = call(); if (0 != ret_error) return ret_error;'
            else:
                classes.add(c)
        cand[fn.name] = classes
    S = set(extra)
    changed = True
    while changed:
        changed = False
        for name, classes in cand.items():
            if name in S or name in exclude:
                continue
            has_err = "errno" in classes or any(
                c.startswith("call:") and c[5:] in S for c in classes)
            if has_err:
                S.add(name)
                changed = True
    return S - set(exclude), cand


def _var_read_on_all_paths(fn, pos, vid):
    """after the store at pos, is variable vid read on every path before being
    overwritten or before the function exits?  returns (ok, witness)"""
    bid, idx = pos
    # search over (block, start index)
    seen = set()
    stack = [(bid, idx + 1)]
    while stack:
        b, i0 = stack.pop()
        if (b, i0 > 0) in seen and i0 == 0:
            continue
        seen.add((b, i0 > 0))
        blk = fn.blocks[b]
        found = False
        for i in range(i0, len(blk.elems)):
            e = blk.elems[i]
            # a read?
            rd = False
            wr = False
            if e.get("k") == "bin" and e["op"] == "=" and core.is_ref(e["x"], id=vid):
                # plain overwrite: rhs may read it
                if vid in core.ref_ids(e["y"]):
                    rd = True
                else:
                    wr = True
            elif vid in core.ref_ids(e):
                rd = True
            if e.get("k") == "decl":
                for v in e["vars"]:
                    if v["id"] == vid:
                        wr = True   # re-declaration in loop: new object
                        if "init" in v and vid in core.ref_ids(v["init"]):
                            rd = True
            if rd:
                found = True
                break
            if wr:
                return False, "overwritten at line %s without being read" % e.get("ln")
        if found:
            continue
        succ = blk.rsucc()
        if not succ or b == fn.exit:
            return False, "function exit reached without reading it"
        for s in succ:
            if s == fn.exit:
                return False, "function exit reached without reading it"
            if (s, False) not in seen:
                stack.append((s, 0))
    return True, ""


def check(rep, fn, S, exceptions=None, success_reachable_only=True):
    """emit one obligation per call site of a status function inside fn"""
    exceptions = exceptions or {}
    n = 0
    per_callee = {}
    per_bad = {}

    def badkey(callee, kind):
        per_bad[(callee, kind)] = per_bad.get((callee, kind), 0) + 1
        c = per_bad[(callee, kind)]
        return "%s:%s" % (callee, kind) + ("" if c == 1 else "#%d" % c)
    for pos, root, call, parents in fn.calls(S):
        n += 1
        callee = call["fn"]
        per_callee[callee] = per_callee.get(callee, 0) + 1
        inst = "%s#%d" % (callee, per_callee[callee])
        desc = "status of %s() is honoured" % callee
        # context
        ctx = None
        # strip casts/parens between call and its consumer
        ps = list(parents)
        void_cast = False
        while ps and ps[-1].get("k") == "cast":
            if fn.unit.type(ps[-1]["t"])["k"] == "void":
                void_cast = True
            ps.pop()
        if not ps:
            # call is the root element itself
            if fn.is_cond_root(pos) and not void_cast:
                ctx = "condition"
            else:
                ctx = "discarded"
        else:
            p = ps[-1]
            pk = p.get("k")
            if pk == "ret":
                ctx = "returned"
            elif pk == "decl":
                var = [v for v in p["vars"] if v.get("init") is not None and
                       any(x is call for x, _ in walk(v["init"]))]
                ctx = ("stored", var[0]["id"], var[0]["n"]) if var else "used"
            elif pk == "bin" and p["op"] == "=" and core.strip_casts(p["y"]) is call and len(ps) == 1 \
                    and core.strip_imp(p["x"]).get("k") == "ref" and not fn.is_cond_root(pos):
                l = core.strip_imp(p["x"])
                ctx = ("stored", l["id"], l["n"])
            elif pk == "bin" and p["op"] == ",":
                ctx = "discarded" if p["x"] is call or core.strip_casts(p["x"]) is call else "used"
            else:
                ctx = "used"
        if isinstance(ctx, tuple):
            ok, why = _var_read_on_all_paths(fn, pos, ctx[1])
            if ok:
                rep.proved("R-ERR", fn, inst, desc, "stored in '%s' and read on every path" % ctx[2], call["ln"])
            else:
                ekey = (fn.name, callee)
                if ekey in exceptions:
                    rep.proved("R-ERR", fn, inst, desc, "tabled exception: " + exceptions[ekey], call["ln"])
                else:
                    rep.violated("R-ERR", fn, badkey(callee, "stored-unread"), desc,
                                 "stored in '%s' but %s" % (ctx[2], why), call["ln"])
        elif ctx == "discarded":
            ekey = (fn.name, callee)
            if ekey in exceptions:
                rep.proved("R-ERR", fn, inst, desc, "tabled exception: " + exceptions[ekey], call["ln"])
            else:
                rep.violated("R-ERR", fn, badkey(callee, "discarded"), desc,
                             "return value discarded; execution continues to a success return", call["ln"])
        else:
            rep.proved("R-ERR", fn, inst, desc, ctx, call["ln"])
    return n
