"""R-FRESH: a temporary that is assigned only on some paths of a loop iteration is not read on the others.

Inside a loop, a scalar local `t` whose definitions in the loop are only constants (t = 0) or results a callee stores through
&t is a per-iteration temporary (variables that are copied from one another - conditional swaps - are loop state, not
temporaries).  A read R of t is reported when
  * some definition D of t in the loop body reaches R within one iteration (so t is meant to carry D's value there), and
  * R can also be reached from the loop head within one iteration without passing any definition of t:
on those iterations R sees whatever an earlier iteration (or the code before the loop) left in t.
Accumulators (t += ..., t = f(t), t++) are not temporaries and are not examined; a variable that is deliberately carried to
the next iteration (prev = cur at the end of the body, read at the top) has no definition that reaches the read within the
iteration and is not reported either."""
from . import core
from .core import walk, key, strip_casts


def check(rep, fns, rule="R-FRESH"):
    n = 0
    for fn in fns:
        if not fn.has_cfg:
            continue
        loops = fn.loops()
        if not loops:
            continue
        for h, body in loops.items():
            body = set(body)
            defs, selfref, reads = {}, set(), {}
            for pos, root, x, ps in fn.nodes():
                if pos[0] not in body:
                    continue
                if x.get("k") == "bin" and x["op"] == "=" and strip_casts(x["x"]).get("k") == "ref" and strip_casts(x["x"]).get("dk") == "local":
                    v = strip_casts(x["x"])
                    if v["id"] in core.ref_ids(x["y"]) or core.const_val(x["y"]) is None:
                        selfref.add(v["id"])          # an update, or a copy of other state: not a temporary
                    else:
                        defs.setdefault(v["id"], []).append(pos)
                elif x.get("k") == "bin" and x["op"].endswith("=") and x["op"] not in ("==", "!=", "<=", ">=", "=") and \
                        strip_casts(x["x"]).get("k") == "ref":
                    selfref.add(strip_casts(x["x"]).get("id"))
                elif x.get("k") == "un" and ("++" in x["op"] or "--" in x["op"]) and strip_casts(x["e"]).get("k") == "ref":
                    selfref.add(strip_casts(x["e"]).get("id"))
                elif x.get("k") == "un" and x["op"] == "&" and strip_casts(x["e"]).get("k") == "ref" and strip_casts(x["e"]).get("dk") == "local" \
                        and ps and ps[-1].get("k") in ("call", "cast") and "t" in strip_casts(x["e"]) and \
                        fn.unit.type(strip_casts(x["e"])["t"])["k"] == "int":
                    defs.setdefault(strip_casts(x["e"])["id"], []).append(pos)
                elif x.get("k") == "ref" and x.get("dk") == "local":
                    par = ps[-1] if ps else None
                    is_lhs = par is not None and par.get("k") == "bin" and par["op"] == "=" and strip_casts(par["x"]) is x
                    is_addr = par is not None and par.get("k") == "un" and par.get("op") == "&"
                    if not is_lhs and not is_addr:
                        reads.setdefault(x["id"], []).append((pos, x))
            for vid, dpos in defs.items():
                if vid in selfref or vid not in reads:
                    continue
                dblocks = {p[0] for p in dpos}
                for rpos, rx in reads[vid]:
                    # reached by a definition within the iteration?
                    def within(start_blocks, avoid):
                        seen, st = set(), list(start_blocks)
                        while st:
                            b = st.pop()
                            if b in seen or b not in body or b in avoid:
                                continue
                            seen.add(b)
                            st.extend(s_ for s_ in fn.blocks[b].rsucc() if s_ != h)
                        return seen
                    reaching = [d for d in dpos if (d[0] == rpos[0] and d[1] < rpos[1]) or
                                (d[0] != rpos[0] and rpos[0] in within(fn.blocks[d[0]].rsucc(), set()) and rpos[0] != h)]
                    if not reaching:
                        continue
                    # a path head -> read without any definition
                    same_block_def_before = any(d[0] == rpos[0] and d[1] < rpos[1] for d in dpos)
                    if same_block_def_before:
                        free = False
                    else:
                        free = rpos[0] in within([h], dblocks - {rpos[0]}) and not any(d[0] == rpos[0] and d[1] < rpos[1] for d in dpos)
                        # definitions in the head block itself (before the body) count as barriers
                        if any(d[0] == h for d in dpos):
                            free = False
                    n += 1
                    rep.functions.add(fn.name)
                    inst = "fresh:%s@%s" % (rx["n"], (fn.blocks[h].term or {}).get("ln"))
                    desc = "%s: the temporary '%s' read at line %s carries a value assigned in the same iteration of the loop at line %s" % (
                        fn.name, rx["n"], rx.get("ln"), (fn.blocks[h].term or {}).get("ln"))
                    if free:
                        rep.violated(rule, fn, inst, desc, "the definition at line %s is skipped on some paths of the iteration and no other definition precedes the "
                                     "read: there the read sees the value left by an earlier iteration" % (
                                         fn.blocks[reaching[0][0]].elems[reaching[0][1]].get("ln")), rx.get("ln"))
                    else:
                        rep.proved(rule, fn, inst, desc, "", rx.get("ln"))
    return n
