"""R-UNIT (bits / bytes): dimension check of size arithmetic.

Quantities derived from byte sizes (sizeof, BN_DIGIT_SIZE, *_size parameters and what is computed from them) and
quantities in bits (BN_DIGIT_BITS, BN_BIT_LEN, bytes * 8) must not be added, subtracted or compared with each other,
and the amount of a shift must be a bit quantity.  Dimensions: 'bytes', 'bits', unknown; `bytes * 8` is bits, `bits / 8`
is bytes, a sum of equal dimensions keeps it, a constant takes the dimension of the other operand.  Only expressions
whose two operands both have a known dimension produce an obligation, so the rule is silent about everything it cannot
classify."""
from . import core
from .core import walk, key, strip_casts, const_val


class Dim:
    def __init__(self, bits_macros, bytes_macros):
        self.bits_macros, self.bytes_macros = set(bits_macros), set(bytes_macros)

    def dim(self, e, env):
        if e is None:
            return None
        for m in e.get("m") or []:
            if m in self.bits_macros:
                return "bits"
            if m in self.bytes_macros:
                return "bytes"
        k = e.get("k")
        if k == "sizeof":
            return "bytes"
        if k == "cast":
            return self.dim(e.get("e"), env)
        if k == "lazy":
            return self.dim(e.get("lz"), env)
        if k == "ref":
            n = e["n"]
            if n in env:
                return env[n]
            if n.endswith("_size") or n == "size":
                return "bytes"
            if n.endswith("_bits") or n == "bits":
                return "bits"
            return None
        if k == "bin":
            op = e["op"]
            a, b = self.dim(e["x"], env), self.dim(e["y"], env)
            cx, cy = const_val(e["x"]), const_val(e["y"])
            if op == "*":
                if (a == "bytes" and cy == 8) or (b == "bytes" and cx == 8):
                    return "bits"
                return None
            if op == "/":
                return "bytes" if a == "bits" and cy == 8 else None
            if op in ("+", "-"):
                if a and b:
                    return a if a == b else "mixed"
                return a or b
            if op == "%":
                return a
        return None


def check(rep, unit, fns, bits_macros, bytes_macros, rule="R-UNIT"):
    d = Dim(bits_macros, bytes_macros)
    n = 0
    for fn in fns:
        if not fn.has_cfg:
            continue
        env = {}
        for _ in range(2):
            for pos, root, x, ps in fn.nodes():
                if x.get("k") == "bin" and x["op"] == "=" and strip_casts(x["x"]).get("k") == "ref":
                    dv = d.dim(x["y"], env)
                    if dv and dv != "mixed":
                        env.setdefault(strip_casts(x["x"])["n"], dv)
        per = {}
        for pos, root, x, ps in fn.nodes():
            if x.get("k") != "bin":
                continue
            op = x["op"]
            if op in ("+", "-", "<", ">", "<=", ">=", "==", "!="):
                a, b = d.dim(x["x"], env), d.dim(x["y"], env)
                if not (a and b) or "mixed" in (a, b):
                    continue
                n += 1
                rep.functions.add(fn.name)
                per[op] = per.get(op, 0) + 1
                inst = "dim:%s#%d" % (op, per[op])
                desc = "operands of '%s' in %s are both %s quantities" % (op, key(x)[:60], a)
                if a == b:
                    rep.proved(rule, fn, inst, desc, "", x.get("ln"))
                else:
                    rep.violated(rule, fn, inst, "operands of '%s' have the same dimension" % op, "%s: the left operand counts %s, the right operand %s "
                                 "(a factor 8 is missing or misplaced)" % (key(x)[:80], a, b), x.get("ln"))
            elif op in ("<<", ">>", "<<=", ">>="):
                dv = d.dim(x["y"], env)
                if not dv:
                    continue
                n += 1
                rep.functions.add(fn.name)
                per["sh"] = per.get("sh", 0) + 1
                inst = "dim:shift#%d" % per["sh"]
                desc = "the shift amount %s is a bit count" % key(x["y"])[:60]
                if dv == "bits":
                    rep.proved(rule, fn, inst, desc, "", x.get("ln"))
                else:
                    rep.violated(rule, fn, inst, desc, "it is %s" % ("a byte count" if dv == "bytes" else "a mixture of bit and byte counts"), x.get("ln"))
    return n
