"""R-TS for multi-precision numbers and curve points (C01, C02):
a bn_t / ec_point_t / ec_point_proj_t object must be initialised (bn_init,
bn_assign_init(dst), ec_point_init, ec_point_proj_init) before any other use.

Scalars (locals of an initable record type): flow-sensitive *must*-analysis
over the CFG (intersection at joins).  A use on a path where the object is not
definitely initialised is a violation.

Array elements (local arrays and arrays reached through a pointer, e.g.
mult_data->pt_arr[i]): deliberately narrow, function-wide rule so that it is
exact: an element used as a *destination* (first argument of a bn_/ec_
function) while the function does initialise elements of the same array,
but no initialisation has the same index expression and no initialising loop
covers the index, is a violation.  A covering init loop with symbolic bounds
makes the obligation undecided, never an alarm.
"""
from . import core
from .core import walk, key, const_val

INITABLE_RECS = {"big_num_s", "elliptic_curve_point_s", "elliptic_curve_point_projective_s"}
INIT_FUNCS = {"bn_init": 0, "bn_assign_init": 0, "ec_point_init": 0, "ec_point_proj_init": 0}
# functions that fully (re)write their first argument from other arguments without reading it
# (discovered on the tree; each confirmed by reading the callee)
ALSO_INIT = {}


def _rec(unit, tid):
    t = unit.type(tid)
    while t["k"] in ("arr",):
        t = unit.type(t["to"])
    return t.get("rec") if t["k"] == "rec" else None


def local_objects(fn):
    """locals of initable record type: name -> ('scalar'|'array', decl node)"""
    res = {}
    unit = fn.unit
    for bid, i, e in fn.roots():
        if e.get("k") == "decl":
            for v in e["vars"]:
                t = unit.type(v["t"])
                if t["k"] == "rec" and t.get("rec") in INITABLE_RECS:
                    res[v["n"]] = ("scalar", v)
                elif t["k"] == "arr" and _rec(unit, v["t"]) in INITABLE_RECS:
                    res[v["n"]] = ("array", v)
    return res


def _path(e):
    """object path of an lvalue expression rooted at a local: 'R', 'R.x'; None if not such"""
    e = core.strip_casts(e)
    k = e.get("k")
    if k == "ref" and e.get("dk") == "local":
        return e["n"]
    if k == "mem" and not e["arrow"]:
        b = _path(e["b"])
        return None if b is None else b + "." + e["f"]
    return None


def scalar_events(fn, elem, scalars):
    """yield (path, 'init'|'use', node)"""
    unit = fn.unit
    out = []
    handled = set()
    for n, parents in walk(elem):
        if n.get("k") == "call":
            name = n.get("fn")
            for ai, a in enumerate(n["args"]):
                a0 = core.strip_casts(a)
                if a0.get("k") == "un" and a0["op"] == "&":
                    p = _path(a0["e"])
                    if p and p.split(".")[0] in scalars:
                        for x, _ in walk(a0):
                            handled.add(id(x))
                        if name in INIT_FUNCS and INIT_FUNCS[name] == ai:
                            out.append((p, "init", n))
                        elif name in ALSO_INIT and ALSO_INIT[name] == ai:
                            out.append((p, "init", n))
                        elif name in ("memset", "memcpy", "bzero", "explicit_bzero") and ai == 0:
                            out.append((p, "init", n))
                        else:
                            out.append((p, "use", n))
    # direct field accesses R.x.count etc. (not under an & handled above)
    for n, parents in walk(elem):
        if id(n) in handled:
            continue
        if n.get("k") == "mem" and not n["arrow"]:
            p = _path(n)
            if p and p.split(".")[0] in scalars:
                # only report the outermost member expression
                if parents and parents[-1].get("k") == "mem" and _path(parents[-1]):
                    continue
                # plain store to a scalar field (R.infinity = 1) is not a read of the bn
                par = parents[-1] if parents else None
                if par is not None and par.get("k") == "bin" and par["op"] == "=" and core.strip_casts(par["x"]) is n:
                    rec = unit.type(n["t"])
                    if rec["k"] != "rec":
                        continue
                out.append((p, "use", n))
    return out


def check_scalars(rep, fn, rule="R-TS"):
    objs = {k: v for k, v in local_objects(fn).items() if v[0] == "scalar"}
    if not objs:
        return 0
    unit = fn.unit
    # aliases: 'bn_p nn = &tnn' assigned once -> uses of nn are uses of tnn (only through calls)
    scalars = set(objs)

    def covered(st, p):
        parts = p.split(".")
        for i in range(1, len(parts) + 1):
            if ".".join(parts[:i]) in st:
                return True
        # whole object used but only sub-objects initialised: covered if every bn field is
        rec = unit.records.get(unit.type(objs[parts[0]][1]["t"]).get("rec"))
        if len(parts) == 1 and rec:
            subs = [f["n"] for f in rec["fields"] if unit.type(f["t"])["k"] == "rec"]
            if subs and all((p + "." + s) in st for s in subs):
                return True
        return False

    def transfer(block, st):
        for e in block.elems:
            for (p, ev, node) in scalar_events(fn, e, scalars):
                if ev == "init":
                    st = st | {p}
        return st

    ins = core.forward(fn, frozenset(), transfer, lambda a, b: a & b)
    nuse = 0
    bad = {}
    for bid, st in ins.items():
        for e in fn.blocks[bid].elems:
            for (p, ev, node) in scalar_events(fn, e, scalars):
                if ev == "init":
                    st = st | {p}
                else:
                    nuse += 1
                    if not covered(st, p):
                        bad.setdefault(p.split(".")[0], node)
    for name in sorted(objs):
        desc = "local %s is initialised on every path before its first use" % name
        if name in bad:
            rep.violated(rule, fn, "uninit:" + name, desc, "used at line %s on a path without bn_init/ec_point_init" % bad[name].get("ln"),
                         bad[name].get("ln"))
        else:
            rep.proved(rule, fn, "init:" + name, desc, "must-init dataflow over %d blocks" % len(ins))
    return len(objs)


def _elem(e):
    """(array_base_key, index_node) for &A[i] / A[i] expressions, else None"""
    e = core.strip_casts(e)
    if e.get("k") == "un" and e["op"] == "&":
        e = core.strip_casts(e["e"])
    if e.get("k") == "sub":
        return key(e["b"]), e["i"], e
    return None


def init_loops(fn):
    """loops of the form for (v = a; v < b; v++) containing init(&A[v]):
    returns list of (array_key, var_name, a_node, b_node, loop_blocks)"""
    res = []
    loops = fn.loops()
    for h, body in loops.items():
        hb = fn.blocks[h]
        c = hb.cond
        if c is None or c.get("k") != "bin" or c["op"] not in ("<", "<=", "!="):
            continue
        v = core.strip_casts(c["x"])
        if v.get("k") != "ref":
            continue
        for b in body:
            for e in fn.blocks[b].elems:
                for n, _ in walk(e):
                    if n.get("k") == "call" and n.get("fn") in INIT_FUNCS:
                        el = _elem(n["args"][INIT_FUNCS[n["fn"]]])
                        if el and core.is_ref(el[1], id=v["id"]):
                            # lower bound: the assignment v = a in a predecessor outside the loop
                            a = None
                            for p in hb.preds:
                                if p in body:
                                    continue
                                for pe in fn.blocks[p].elems:
                                    if pe.get("k") == "bin" and pe["op"] == "=" and core.is_ref(pe["x"], id=v["id"]):
                                        a = pe["y"]
                            res.append((el[0], v["n"], a, c["y"], c["op"], body))
    return res


def check_arrays(rep, fn, rule="R-TS"):
    unit = fn.unit
    inits = {}      # array key -> list of (index key, pos, node)
    dests = []      # (array key, index node, pos, callnode)
    for pos, root, n, parents in fn.nodes():
        if n.get("k") != "call" or not n.get("fn"):
            continue
        name = n["fn"]
        if not n["args"]:
            continue
        if name in INIT_FUNCS:
            el = _elem(n["args"][INIT_FUNCS[name]])
            if el and _rec(unit, el[2]["t"]) in INITABLE_RECS:
                inits.setdefault(el[0], []).append((key(el[1]), pos, n))
            continue
        if not (name.startswith("bn_") or name.startswith("ec_")):
            continue
        el = _elem(n["args"][0])
        if el and _rec(unit, el[2]["t"]) in INITABLE_RECS:
            dests.append((el[0], el[1], pos, n))
    if not inits:
        return 0
    loops = init_loops(fn)
    count = 0
    seen = {}
    for (ak, idx, pos, call) in dests:
        if ak not in inits:
            continue
        ik = key(idx)
        count += 1
        desc = "element %s[%s] written by %s() was initialised with the same index" % (ak, ik, call["fn"])
        inst = "%s[%s]" % (ak, ik)
        ok = None
        for (k2, ipos, inode) in inits[ak]:
            if k2 == ik and fn.pos_dominates(ipos, pos):
                ok = "init with identical index at line %s dominates" % inode["ln"]
                break
        if ok is None:
            cidx = const_val(idx)
            for (lk, var, a, b, op, body) in loops:
                if lk != ak:
                    continue
                ca, cb = const_val(a) if a is not None else None, const_val(b)
                if cidx is not None and ca is not None and cb is not None:
                    if ca <= cidx < cb or (op == "<=" and cidx == cb):
                        ok = "covered by init loop [%d,%d)" % (ca, cb)
                        break
                else:
                    ok = "?init loop over %s with symbolic bounds may cover it" % var
        if inst in seen:
            continue
        seen[inst] = 1
        if ok is None:
            rep.violated(rule, fn, inst, desc, "array has initialisations at indices {%s} but none matches" % ",".join(
                sorted({k2 for (k2, _, _) in inits[ak]})), call["ln"])
        elif ok.startswith("?"):
            rep.undecided(rule, fn, inst, desc, ok[1:], call["ln"])
        else:
            rep.proved(rule, fn, inst, desc, ok, call["ln"])
    return count
