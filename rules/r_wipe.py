"""R-WIPE: zeroisation obligations (C04 'context holds no message or chaining
data after finalisation', C07 'keyed pads are wiped', C08 cipher finals).

Accepted wiping primitive: a call *through a file-scope `volatile` function
pointer whose initialiser is `memset`* with value 0 (the repository's
`*_memset_volatile` idiom: the compiler cannot elide it), or explicit_bzero /
memset_s.  A plain memset of a dying object is NOT accepted.

Obligations for (function, object, expected size):
  W1  a wipe call whose first argument denotes the object and whose length
      folds to exactly the object's size exists;
  W2  it post-dominates the function entry (every path to every exit wipes);
  W3  no element reachable after the wipe mentions the object again
      (so the wipe is the last access and nothing is written back).
"""
from . import core
from .core import walk, key, const_val


def volatile_memset_ptrs(unit):
    res = set()
    for g in unit.global_list:
        v = g.get("v")
        if g.get("volatile") and isinstance(v, dict) and v.get("ptr") == "memset":
            res.add(g["n"])
    return res


def wipe_calls(fn, unit, vptrs=None):
    """yield (pos, callnode, dst_expr, length_value_or_None)"""
    if vptrs is None:
        vptrs = volatile_memset_ptrs(unit)
    for pos, root, node, parents in fn.nodes():
        if node.get("k") != "call":
            continue
        if node.get("fn") in ("explicit_bzero",) and len(node["args"]) == 2:
            yield pos, node, node["args"][0], const_val(node["args"][1])
            continue
        if node.get("fn") == "memset_s" and len(node["args"]) == 4:
            yield pos, node, node["args"][0], const_val(node["args"][3])
            continue
        cal = core.strip_casts(node.get("callee")) if "callee" in node else None
        if cal is not None and cal.get("k") == "ref" and cal["n"] in vptrs and len(node["args"]) == 3:
            if const_val(node["args"][1]) == 0:
                yield pos, node, node["args"][0], const_val(node["args"][2])


def object_size(unit, fn, obj_expr):
    """size in bytes of the object a wipe destination expression denotes"""
    e = core.strip_casts(obj_expr)
    t = unit.type(e["t"])
    if t["k"] == "arr":
        return t.get("size")
    if t["k"] == "ptr":
        # &x -> type of x ; pointer param -> pointee
        if e.get("k") == "un" and e["op"] == "&":
            return unit.type(core.strip_casts(e["e"])["t"]).get("size")
        to = unit.type(t["to"])
        return to.get("size")
    return None


def check_wipe(rep, fn, unit, inst, obj_pred, mention_pred, rule="R-WIPE", size_exact=True,
               min_size=None):
    """obj_pred(expr)->bool recognises the wipe destination;
    mention_pred(node)->bool recognises any mention of the object in an element."""
    desc = "%s is wiped through the volatile memset pointer with its full size on every path and not touched afterwards" % inst
    cands = [(pos, call, dst, ln_) for pos, call, dst, ln_ in wipe_calls(fn, unit) if obj_pred(dst)]
    if not cands:
        return rep.violated(rule, fn, inst, desc, "no volatile wipe call of this object")
    why = []
    for pos, call, dst, length in cands:
        size = object_size(unit, fn, dst)
        if length is None:
            why.append("wipe length at line %s is not a constant" % call["ln"])
            continue
        need = size if min_size is None else min_size
        if need is None or (size_exact and length != need) or (not size_exact and length < need):
            why.append("wipe at line %s clears %s bytes, object has %s" % (call["ln"], length, need))
            continue
        if size is not None and length > size:
            why.append("wipe at line %s clears %s bytes, more than the object's %s" % (call["ln"], length, size))
            continue
        # W2
        if not fn.pos_postdominates(pos, (fn.entry, 0)) or pos[0] not in fn.reachable_blocks():
            why.append("wipe at line %s is not on every path from entry to exit" % call["ln"])
            continue
        # W3
        later = []
        bid, idx = pos
        blk = fn.blocks[bid]
        for e in blk.elems[idx + 1:]:
            later.append(e)
        after = fn.reach_from(blk.rsucc())
        for b in after:
            if b == bid:
                # wipe inside a loop: elements before it are after it too
                later.extend(blk.elems)
            else:
                later.extend(fn.blocks[b].elems)
        bad = None
        for e in later:
            for n, _ in walk(e):
                if n is call:
                    continue
                if mention_pred(n):
                    bad = n
                    break
            if bad:
                break
        if bad is not None:
            why.append("object mentioned again at line %s after the wipe at line %s" % (bad.get("ln"), call["ln"]))
            continue
        return rep.proved(rule, fn, inst, desc, "wipe at line %s: %d bytes, post-dominates entry, last access" % (
            call["ln"], length), call["ln"])
    return rep.violated(rule, fn, inst, desc, "; ".join(why))


def param_obj(fn, index):
    pid = fn.params[index]["id"]

    def obj(e):
        e = core.strip_casts(e)
        return e.get("k") == "ref" and e["id"] == pid

    def mention(n):
        return n.get("k") == "ref" and n.get("id") == pid
    return obj, mention


def local_obj(fn, name):
    def obj(e):
        e = core.strip_casts(e)
        return e.get("k") == "ref" and e["n"] == name and e.get("dk") == "local"

    def mention(n):
        return n.get("k") == "ref" and n["n"] == name and n.get("dk") == "local"
    return obj, mention


def field_obj(fn, param_index, field):
    pid = fn.params[param_index]["id"]

    def isfield(e):
        e = core.strip_casts(e)
        if e.get("k") == "un" and e["op"] == "&":
            e = core.strip_casts(e["e"])
        return e.get("k") == "mem" and e["f"] == field and core.strip_casts(e["b"]).get("id") == pid

    def mention(n):
        return n.get("k") == "mem" and n["f"] == field and core.strip_casts(n["b"]).get("id") == pid
    return isfield, mention


def check_call_on_all_paths(rep, fn, inst, callee_names, arg_pred=None, rule="R-WIPE"):
    """some call to one of callee_names (with arg_pred on args) post-dominates entry"""
    desc = "%s: a call of %s lies on every path from entry to exit" % (inst, "/".join(sorted(callee_names)))
    for pos, root, call, parents in fn.calls(callee_names):
        if arg_pred is not None and not arg_pred(call):
            continue
        if fn.pos_postdominates(pos, (fn.entry, 0)):
            return rep.proved(rule, fn, inst, desc, "call at line %s post-dominates entry" % call["ln"], call["ln"])
    return rep.violated(rule, fn, inst, desc, "no such call on every path")
