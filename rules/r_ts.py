"""R-TS: typestate by forward dataflow over the CFG.

The engine is generic.  A client supplies
  events(fn, elem) -> list of (objkey, event, node)  in evaluation order
  trans: dict (state, event) -> new state | ('viol', message)
  init_state(objkey) -> state of objects never seen (e.g. 'RAW')
State per program point: frozenset of (objkey, state) pairs — an object may be
in several states after a join; a transition is taken for each possible
state, and a violation is reported if *any* possible state forbids the event
(may-analysis: "on some path").
"""
from . import core
from .core import walk, key


def obj_key(e):
    """canonical key of the object an argument expression designates:
    &x -> 'x', &p->f -> 'p->f', p (pointer var) -> '*p', arr[i] -> 'arr[i]'"""
    e = core.strip_casts(e)
    if e is None:
        return None
    if e.get("k") == "un" and e["op"] == "&":
        return key(core.strip_casts(e["e"]))
    if e.get("k") in ("ref",):
        t = e.get("t")
        return "*" + e["n"]
    if e.get("k") in ("mem", "sub"):
        return "*" + key(e)
    return None


def run(fn, events, trans, default_state, entry_states=None):
    """returns list of violations: (pos, node, objkey, state, event, message)
    and the number of events processed."""
    viols = []
    seen_v = set()
    nevents = [0]

    def get(st, k):
        s = {v for (kk, v) in st if kk == k}
        return s if s else {default_state(k) if callable(default_state) else default_state}

    def transfer_elem(st, pos, elem, record):
        for (k, ev, node) in events(fn, elem):
            if record:
                nevents[0] += 1
            cur = get(st, k)
            new = set()
            for s in cur:
                r = trans.get((s, ev))
                if r is None:
                    new.add(s)
                elif isinstance(r, tuple) and r[0] in ("viol", "undec"):
                    if record:
                        vk = (pos, k, s, ev, node.get("ln"))
                        if vk not in seen_v:
                            seen_v.add(vk)
                            viols.append((pos, node, k, s, ev, ("?" if r[0] == "undec" else "") + r[1]))
                    new.add(r[2] if len(r) > 2 else s)
                else:
                    new.add(r)
            st = frozenset({(kk, v) for (kk, v) in st if kk != k} | {(k, v) for v in new})
        return st

    def transfer(block, st):
        for i, e in enumerate(block.elems):
            st = transfer_elem(st, (block.id, i), e, False)
        return st

    init = frozenset(entry_states or ())
    ins = core.forward(fn, init, transfer, lambda a, b: a | b)
    # second pass: record violations with converged in-states
    for bid, st in ins.items():
        blk = fn.blocks[bid]
        for i, e in enumerate(blk.elems):
            st = transfer_elem(st, (bid, i), e, True)
    return viols, nevents[0], ins


def exit_states(fn, ins, events, trans, default_state):
    """states at each return/exit predecessor: dict block->state set after the block"""
    res = {}

    def get(st, k):
        s = {v for (kk, v) in st if kk == k}
        return s if s else {default_state(k) if callable(default_state) else default_state}
    for bid, st in ins.items():
        blk = fn.blocks[bid]
        if fn.exit not in blk.rsucc():
            continue
        for i, e in enumerate(blk.elems):
            for (k, ev, node) in events(fn, e):
                cur = get(st, k)
                new = set()
                for s in cur:
                    r = trans.get((s, ev))
                    if r is None:
                        new.add(s)
                    elif isinstance(r, tuple):
                        new.add(r[2] if len(r) > 2 else s)
                    else:
                        new.add(r)
                st = frozenset({(kk, v) for (kk, v) in st if kk != k} | {(k, v) for v in new})
        res[bid] = st
    return res
