"""Relational abstract interpretation over the extracted CFG (R-CURSOR / R-BOUND).

Domain: conjunctions of linear inequalities  sum(coeff*atom) + const <= 0  over *atoms*:
variables, parameters and opaque sub-expressions identified by their normalised key.
Pointers are numeric atoms (byte addresses); pointer arithmetic is scaled by the element size.
All reasoning is over mathematical integers; unsigned subtraction is only linearised when the
state entails that it does not wrap, otherwise the difference becomes an opaque non-negative atom.

Entailment is a small, sound, incomplete prover (atom elimination by positive combination,
bounded depth).  Joins keep the constraints of either side that the other side entails;
loop heads are widened after two visits (constraints only ever get dropped).

Obligations (checked with the converged states):
  * every dereference / subscript / library copy whose address is related to a declared buffer
    (ptr,size parameter pair, local array, array member, constant table) lies inside that buffer;
  * every loop makes progress: some atom of its condition strictly increases or decreases on
    every back edge.
Verdicts: proved; alarm (the bound is known but insufficient by a small constant: classic
off-by-one); undecided (no usable bound) -- undecided is reported, never a pass and never a violation.
"""
from . import core
from .core import walk, key, const_val

MAXC = 60          # max constraints per state
DEPTH = 3


class Lin:
    __slots__ = ("t", "c")

    def __init__(self, t=None, c=0):
        self.t = dict(t) if t else {}
        self.c = c

    def copy(self):
        return Lin(self.t, self.c)

    def add(self, o, k=1):
        r = Lin(self.t, self.c + k * o.c)
        for a, v in o.t.items():
            nv = r.t.get(a, 0) + k * v
            if nv:
                r.t[a] = nv
            else:
                r.t.pop(a, None)
        return r

    def scale(self, k):
        if k == 0:
            return Lin()
        return Lin({a: v * k for a, v in self.t.items()}, self.c * k)

    def plus(self, k):
        return Lin(self.t, self.c + k)

    def atoms(self):
        return set(self.t)

    def norm(self):
        return (tuple(sorted(self.t.items())), self.c)

    def is_const(self):
        return not self.t

    def __repr__(self):
        s = " + ".join("%s*%s" % (v, a) if v != 1 else a for a, v in sorted(self.t.items()))
        return "%s%s%d" % (s, " + " if s else "", self.c)


def atom(a):
    return Lin({a: 1}, 0)


class State:
    """conjunction of constraints  lin <= 0"""

    def __init__(self, info):
        self.cons = {}            # norm-terms -> const  (terms..., max const kept = strongest)
        self.info = info          # shared AtomInfo
        self.condfacts = {}       # var name -> list of Lin (<=0) valid when var != NULL
        self.cong = {}            # var name -> (k, base Lin): var = base + k*t for an integer t (k == 0: exact)
        self.bottom = False

    def copy(self):
        s = State(self.info)
        s.cons = dict(self.cons)
        s.condfacts = {k: list(v) for k, v in self.condfacts.items()}
        s.cong = dict(self.cong)
        s.bottom = self.bottom
        return s

    # --- congruences
    def cong_forget(self, name):
        """variable `name` gets an unknown value: drop its own entry; weaken entries whose base mentions it"""
        from math import gcd
        self.cong.pop(name, None)
        new = {}
        for v, (k, b) in self.cong.items():
            cv = b.t.get(name)
            if not cv:
                new[v] = (k, b)
                continue
            k2 = gcd(k, abs(cv))
            if k2 > 1:
                b2 = b.add(atom(name), -cv)
                new[v] = (k2, b2)
        self.cong = new

    def cong_shift(self, name, delta):
        """name := name + delta"""
        new = {}
        for v, (k, b) in self.cong.items():
            if v == name:
                new[v] = (k, b.plus(delta))
            elif name in b.t:
                new[v] = (k, b.plus(-b.t[name] * delta))
            else:
                new[v] = (k, b)
        self.cong = new

    def cong_join(self, o):
        from math import gcd
        r = {}
        for v in set(self.cong) & set(o.cong):
            (k1, b1), (k2, b2) = self.cong[v], o.cong[v]
            d = b1.add(b2, -1)
            if not d.is_const():
                continue
            k = gcd(gcd(k1, k2), abs(d.c))
            if k == 0:
                r[v] = (0, b1)
            elif k > 1:
                r[v] = (k, b1)
        return r

    def residue(self, lin, k, depth=3):
        """lin mod k as an int if determined by the congruences, else None"""
        cur = lin
        for _ in range(depth):
            changed = False
            for a, cf in list(cur.t.items()):
                if cf % k == 0:
                    continue
                e = self.cong.get(a)
                if e is not None and e[0] % k == 0:
                    cur = cur.add(atom(a), -cf).add(e[1], cf)
                    changed = True
            if not changed:
                break
        if all(cf % k == 0 for cf in cur.t.values()):
            return cur.c % k
        return None

    # --- constraints
    def _dirty(self):
        self.__dict__.pop("_memo", None)

    def add(self, lin):
        """assume lin <= 0"""
        self._dirty()
        if lin.is_const():
            if lin.c > 0:
                self.bottom = True
            return
        # normalise by gcd sign-preserving
        terms = tuple(sorted(lin.t.items()))
        c = self.cons.get(terms)
        if c is None or lin.c > c:
            if len(self.cons) < MAXC or terms in self.cons:
                self.cons[terms] = lin.c

    def add_weak(self, lin):
        """record lin <= 0 as an additional explicit constraint even if a stronger one with the same
        terms exists (constraints are keyed by terms: keep the weaker one under a scaled key)"""
        self._dirty()
        terms = tuple(sorted(lin.t.items()))
        c = self.cons.get(terms)
        if c is None:
            if len(self.cons) < MAXC:
                self.cons[terms] = lin.c
            return
        if c >= lin.c and c != lin.c:
            # a stronger constraint is stored: keep the weak one under the doubled form 2*lin <= 0
            t2 = tuple(sorted((a, 2 * v) for a, v in lin.t.items()))
            if t2 not in self.cons or self.cons[t2] < 2 * lin.c:
                if len(self.cons) < MAXC:
                    self.cons[t2] = 2 * lin.c
        elif lin.c > c:
            self.cons[terms] = lin.c

    def add_eq(self, a, b):
        self.add(a.add(b, -1))
        self.add(b.add(a, -1))

    def constraints(self):
        for terms, c in self.cons.items():
            yield Lin(dict(terms), c)

    def forget_atoms(self, pred):
        self._dirty()
        self.cons = {t: c for t, c in self.cons.items() if not any(pred(a) for a, _ in t)}
        self.condfacts = {k: [l for l in v if not any(pred(a) for a in l.t)] for k, v in self.condfacts.items()}

    def havoc_var(self, name):
        info = self.info
        self.forget_atoms(lambda a: name in info.vars(a))
        self.condfacts.pop(name, None)
        self.cong_forget(name)

    def exact_def(self, name, allowed):
        """Lin D with  name == D  recorded as a pair of opposite constraints, D over `allowed` atoms only"""
        for terms, c in self.cons.items():
            d = dict(terms)
            if d.get(name) != 1 or len(d) < 2:
                continue
            if any(a != name and a not in allowed for a in d):
                continue
            neg = tuple(sorted((a, -v) for a, v in d.items()))
            if self.cons.get(neg) == -c:
                return Lin({a: -v for a, v in d.items() if a != name}, -c)
        return None

    def havoc_mem(self):
        info = self.info
        self.forget_atoms(lambda a: info.is_mem(a))

    def subst_var(self, name, delta):
        """var := var + delta  (invertible update; delta is an int or a Lin not mentioning var):
        every occurrence of the atom is replaced by (var - delta)"""
        self._dirty()
        if not isinstance(delta, Lin):
            delta = Lin({}, delta)
        info = self.info
        if delta.is_const():
            self.cong_shift(name, delta.c)
        else:
            self.cong_forget(name)
        new = {}
        for terms, c in self.cons.items():
            lin = Lin(dict(terms), c)
            cf = lin.t.get(name)
            bad = any((a != name and name in info.vars(a)) for a in lin.t)
            if bad:
                continue
            if cf:
                lin = lin.add(delta, -cf)
            t2 = tuple(sorted(lin.t.items()))
            if t2 not in new or lin.c > new[t2]:
                new[t2] = lin.c
        self.cons = new
        cfs = {}
        for k, v in self.condfacts.items():
            if k == name:
                continue
            out = []
            for l in v:
                if any((a != name and name in info.vars(a)) for a in l.t):
                    continue
                cf = l.t.get(name)
                out.append(l.add(delta, -cf) if cf else l)
            cfs[k] = out
        self.condfacts = cfs

    def scale_var(self, name, k):
        """var := k * var  (k > 0)"""
        self._dirty()
        info = self.info
        new = {}
        for terms, c in self.cons.items():
            lin = Lin(dict(terms), c)
            if any((a != name and name in info.vars(a)) for a in lin.t):
                continue
            cf = lin.t.get(name)
            if cf:
                rest = lin.add(atom(name), -cf)
                lin = rest.scale(k).add(atom(name), cf)
            t2 = tuple(sorted(lin.t.items()))
            if t2 not in new or lin.c > new[t2]:
                new[t2] = lin.c
        self.cons = new
        self.cong_forget(name)
        self.condfacts.pop(name, None)

    # --- entailment
    def _trivial(self, g):
        if g.c > 0:
            return False
        for a, v in g.t.items():
            if v > 0:
                return False
            if not self.info.nonneg(a):
                return False
        return True

    def entails(self, g, depth=DEPTH, seen=None):
        """state => g <= 0 ?  quick elimination first, then an LP with an exactly verified Farkas certificate"""
        if self.bottom:
            return True
        if self._trivial(g):
            return True
        if seen is None:
            if self._elim(g, min(depth, 2), set()):
                return True
            key_ = (g.norm(), depth > 0)
            memo = self.__dict__.setdefault("_memo", {})
            if key_ in memo:
                return memo[key_]
            from . import lp
            cons = [(dict(t), c) for t, c in self.cons.items()]
            for a in set(g.t) | {a for t, c in self.cons.items() for a, _ in t}:
                ub = self.info.ub(a)
                if ub is not None and ub < (1 << 32):
                    cons.append(({a: 1}, -ub))
            r = lp.entails(cons, g.t, g.c, self.info.nonneg)
            memo[key_] = r
            return r
        return self._elim(g, depth, seen)

    def _elim(self, g, depth, seen):
        if self._trivial(g):
            return True
        if depth == 0:
            return False
        if seen is None:
            seen = set()
        n = g.norm()
        if n in seen:
            return False
        seen = seen | {n}
        # choose an atom to eliminate: positive coefficients first, then negative coefficients of signed atoms
        cands = [a for a, v in g.t.items() if v > 0] + [a for a, v in g.t.items() if v < 0 and not self.info.nonneg(a)]
        cands += [a for a, v in g.t.items() if v < 0 and self.info.nonneg(a)]
        for a in cands[:3]:
            cg = g.t[a]
            # implicit upper bounds of the atom (x % C, x & M)
            ub = self.info.ub(a)
            pool = list(self.constraints())
            if ub is not None:
                pool.append(Lin({a: 1}, -ub))
            for c in pool:
                cc = c.t.get(a)
                if not cc or (cc > 0) != (cg > 0):
                    continue
                g2 = g.scale(abs(cc)).add(c, -abs(cg))
                if self._elim(g2, depth - 1, seen):
                    return True
        return False

    def entails_le(self, a, b, k=0):
        """a + k <= b"""
        return self.entails(a.add(b, -1).plus(k))

    # --- lattice
    def join(self, o):
        if self.bottom:
            return o.copy()
        if o.bottom:
            return self.copy()
        r = State(self.info)
        for c in self.constraints():
            if o.entails(c, 3):
                r.add(c)
        for c in o.constraints():
            if self.entails(c, 3):
                r.add(c)
        for k in set(self.condfacts) | set(o.condfacts):
            a, b = self.condfacts.get(k), o.condfacts.get(k)
            if a is not None and b is not None:
                r.condfacts[k] = [l for l in a if any(l.norm() == m.norm() for m in b)]
            else:
                # one side knows "k != NULL => facts", the other side has no such knowledge: the conditional fact survives
                # if the other side entails the facts unconditionally
                have, other = (a, o) if a is not None else (b, self)
                keep = [l for l in have if other.entails(l, 3)]
                if keep:
                    r.condfacts[k] = keep
        r.cong = self.cong_join(o)
        # two-point lines: variables that are exact points (v = base + c) in both states with different offsets
        pts = []
        for v in set(self.cong) & set(o.cong):
            (k1, b1), (k2, b2) = self.cong[v], o.cong[v]
            if k1 == 0 and k2 == 0:
                d = b2.add(b1, -1)
                if d.is_const() and d.c != 0:
                    pts.append((v, b1, d.c))
        for i in range(len(pts)):
            for j in range(i + 1, len(pts)):
                (u, bu, du), (v, bv, dv) = pts[i], pts[j]
                # dv*(u - bu) - du*(v - bv) == 0 passes through both points
                line = atom(u).add(bu, -1).scale(dv).add(atom(v).add(bv, -1).scale(du), -1)
                r.add(line)
                r.add(line.scale(-1))
        return r

    def widen(self, new):
        """keep constraints of self that the newer state still entails"""
        r = State(self.info)
        for c in self.constraints():
            if new.entails(c, 3):
                r.add(c)
        for k in self.condfacts:
            if k in new.condfacts:
                r.condfacts[k] = [l for l in self.condfacts[k] if any(l.norm() == m.norm() for m in new.condfacts[k]) or new.entails(l, 3)]
            else:
                keep = [l for l in self.condfacts[k] if new.entails(l, 3)]
                if keep:
                    r.condfacts[k] = keep
        r.cong = self.cong_join(new)
        return r

    def leq(self, o):
        """self is at least as strong as o"""
        if self.bottom:
            return True
        if o.bottom:
            return False
        return all(self.entails(c, 3) for c in o.constraints())

    def signature(self):
        return (frozenset(self.cons.items()), self.bottom, frozenset((v, k, b.norm()) for v, (k, b) in self.cong.items()))


class AtomInfo:
    def __init__(self):
        self._vars = {}
        self._mem = {}
        self._nonneg = {}
        self._ub = {}

    def register(self, a, vars_, mem, nonneg, ub=None):
        if a not in self._vars:
            self._vars[a] = frozenset(vars_)
            self._mem[a] = mem
            self._nonneg[a] = nonneg
        if ub is not None:
            self._ub[a] = ub

    def vars(self, a):
        return self._vars.get(a, frozenset())

    def is_mem(self, a):
        return self._mem.get(a, False)

    def nonneg(self, a):
        return self._nonneg.get(a, False)

    def ub(self, a):
        return self._ub.get(a)


PURE_CALLS = {"strlen", "memcmp", "mem_cmp", "mem_cmpn", "mem_cmpi", "mem_cmpin", "strncasecmp", "strncmp", "memchr", "memrchr", "memmem",
              "mem_chr", "mem_chr_off", "mem_chr_ptr", "mem_rchr", "mem_rchr_off", "mem_rchr_ptr", "mem_find", "mem_find_off",
              "mem_find_ptr", "__builtin_expect", "bn_digit_ctz", "bn_digit_clz", "isalnum", "isdigit", "isxdigit", "tolower",
              "toupper", "ntohs", "ntohl", "htons", "htonl", "__bswap_16", "__bswap_32", "__builtin_bswap32", "__builtin_bswap16",
              "calc_sptab_count", "calc_sptab_count_r", "__ctype_b_loc", "__ctype_tolower_loc", "__ctype_toupper_loc"}

# library routines that access [ptr, ptr+len):  name -> list of (ptr arg, len arg, 'r'|'w')
COPY_CALLS = {
    "memcpy": [(0, 2, "w"), (1, 2, "r")], "memmove": [(0, 2, "w"), (1, 2, "r")], "memset": [(0, 2, "w")],
    "bzero": [(0, 1, "w")], "explicit_bzero": [(0, 1, "w")], "memcmp": [(0, 2, "r"), (1, 2, "r")],
    "mem_cmp": [(0, 2, "r"), (1, 2, "r")], "strncasecmp": [], "memchr": [(0, 2, "r")], "memrchr": [(0, 2, "r")],
    "memmem": [(0, 1, "r"), (2, 3, "r")], "md5_update": [(1, 2, "r")], "sha1_update": [(1, 2, "r")],
    "sha2_update": [(1, 2, "r")], "hmac_md5_update": [(1, 2, "r")],
}


# helpers of the repository whose result is bounded by one of their arguments:  name -> argument index.
# (each contract is itself verified on the helper's body, see Analysis.ret_le)
RET_LE_ARG = {"calc_sptab_count": 1, "calc_sptab_count_r": 1, "calc_non_sptab_count": 1, "calc_non_sptab_count_r": 1}


class Analysis:
    """abstract interpretation of one function"""

    def __init__(self, fn, buffers=None, pairs=None, callee_pairs=None, contracts=True):
        self.fn = fn
        self.unit = fn.unit
        self.info = AtomInfo()
        self.buffers = []          # (base atom, size Lin (bytes), label)
        self.obligations = []      # dicts
        self.callee_pairs = callee_pairs or {}
        self.untracked = 0
        self.entry_facts = []
        self.param_names = {p["n"] for p in fn.params}
        self._declare_params(pairs)
        for b in buffers or []:
            self.buffers.append(b)
        self.ins = {}
        self.templates = None
        self.prov = self._provenance()
        self.loop_heads = set(h for (t, h) in fn.back_edges())
        self.progress = []
        if not hasattr(self, "entry_facts"):
            self.entry_facts = []

    def _provenance(self):
        """flow-insensitive: which pointer variables are (transitively) computed from a declared buffer's
        base parameter / array.  A dereference through such a variable is never silently 'untracked'."""
        fn = self.fn
        prov = {}
        for (b, size, label) in self.buffers:
            prov[b.replace("@entry", "")] = label
        changed = True
        guard = 0
        while changed and guard < 10:
            changed = False
            guard += 1
            for bid, i, e in fn.roots():
                for lhs, rhs in core.assigned_lhs(e):
                    l = core.strip_casts(lhs)
                    if l.get("k") != "ref" or self._tinfo(l["t"])["k"] != "ptr":
                        continue
                    for x in core.refs(rhs):
                        if x["n"] in prov and l["n"] not in prov:
                            # results of search helpers and pointer arithmetic keep the provenance
                            prov[l["n"]] = prov[x["n"]]
                            changed = True
        return prov

    # ------------------------------------------------------------ atoms / types
    def _tinfo(self, tid):
        return self.unit.type(tid)

    def _is_unsigned(self, tid):
        t = self._tinfo(tid)
        return (t["k"] in ("int", "enum") and not t.get("sg")) or t["k"] == "ptr" or t["k"] == "arr"

    def _elem_size(self, tid):
        t = self._tinfo(tid)
        if t["k"] in ("ptr", "arr") and t.get("to") is not None:
            to = self._tinfo(t["to"])
            if to["k"] == "void":
                return 1
            return to.get("size") or 1
        return 1

    def _reg_atom(self, e, k=None, ub=None):
        k = k or key(e)
        vars_ = {x["n"] for x in core.refs(e)} if e is not None else set()
        mem = any(x.get("k") in ("mem", "sub") or (x.get("k") == "un" and x["op"] == "*") or x.get("k") == "call"
                  for x, _ in walk(e)) if e is not None else False
        nn = self._is_unsigned(e["t"]) if e is not None and "t" in e else False
        if ub is None and e is not None and "t" in e:
            ti = self._tinfo(e["t"])
            if ti["k"] == "int" and not ti.get("sg") and ti.get("w") and ti["w"] <= 16:
                ub = (1 << ti["w"]) - 1
        self.info.register(k, vars_, mem, nn, ub)
        return k

    def _declare_params(self, pairs):
        fn = self.fn
        names = {p["n"]: p for p in fn.params}
        for p in fn.params:
            t = self._tinfo(p["t"])
            self.info.register(p["n"], {p["n"]}, False, self._is_unsigned(p["t"]))
        if pairs is None:
            pairs = guess_pairs(fn)
        written = set()
        for bid, i, e in fn.roots():
            for n, ps in walk(e):
                if n.get("k") == "bin" and n["op"].endswith("=") and n["op"] not in ("==", "!=", "<=", ">=") and \
                        core.strip_casts(n["x"]).get("k") == "ref":
                    written.add(core.strip_casts(n["x"])["n"])
                if n.get("k") == "un" and n["op"] in ("post++", "post--", "pre++", "pre--") and core.strip_casts(n["e"]).get("k") == "ref":
                    written.add(core.strip_casts(n["e"])["n"])
        local_names = set()
        for _p, _r, n_, _ps in fn.nodes():
            if n_.get("k") == "decl":
                local_names |= {v["n"] for v in n_.get("vars", [])}
        for (pn, sn, unit_size) in pairs:
            if pn in names and (not isinstance(sn, int)) and sn not in names and sn in local_names:
                # a tabled pair whose size is a local of the function (the validated length field of the object the pointer
                # addresses, read once into a local): the local itself is the size symbol
                self.buffers.append((pn, atom(sn).scale(unit_size if unit_size else 1), "%s[%s]" % (pn, sn)))
                continue
            if pn in names and (sn in names or isinstance(sn, int)):
                es = unit_size if unit_size else 1
                base, sz = pn, sn
                # parameters that the function itself modifies get a ghost copy of their entry value
                if pn in written:
                    base = pn + "@entry"
                    self.info.register(base, set(), False, True)
                    self.entry_facts_pending = getattr(self, "entry_facts_pending", []) + [(pn, base)]
                if not isinstance(sn, int) and sn in written:
                    sz = sn + "@entry"
                    self.info.register(sz, set(), False, True)
                    self.entry_facts_pending = getattr(self, "entry_facts_pending", []) + [(sn, sz)]
                size = Lin({}, sn * es) if isinstance(sn, int) else atom(sz).scale(es)
                self.buffers.append((base, size, "%s[%s]" % (pn, sn)))

    # ------------------------------------------------------------ linearisation
    def lin(self, e, st, facts=None):
        """linear form of expression e in state st (no side effects), or None.
        facts: list collecting extra constraints (Lin <= 0) implied by the expression's shape."""
        if e is None:
            return None
        k = e.get("k")
        cv = const_val(e) if k in ("int", "sizeof") or "cv" in e else None
        if cv is not None:
            return Lin({}, cv)
        if k == "cast":
            inner = self.lin(e["e"], st, facts)
            if inner is None:
                return None
            tt = self._tinfo(e["t"])
            ft = self._tinfo(core.strip_casts(e["e"])["t"]) if "t" in core.strip_casts(e["e"]) else None
            if tt["k"] in ("ptr",) or (ft and ft["k"] in ("ptr", "arr")):
                return inner
            if tt["k"] in ("int", "enum"):
                fw = e["e"].get("t") is not None and self._tinfo(e["e"]["t"]).get("w")
                if tt.get("w") and fw and tt["w"] < fw:
                    # narrowing: only transparent for constants / values known to fit
                    if inner.is_const() and 0 <= inner.c < (1 << tt["w"]):
                        return inner
                    a = self._reg_atom(e, ub=(1 << tt["w"]) - 1 if not tt.get("sg") else None)
                    return atom(a)
                return inner
            return inner
        if k == "ref":
            if e.get("dk") == "enum":
                return None
            a = e["n"]
            if e.get("dk") in ("global", "slocal") and self._tinfo(e["t"])["k"] == "arr":
                self.info.register(a, set(), False, True)
                self._maybe_buffer_global(e)
                return atom(a)
            self.info.register(a, {a}, False, self._is_unsigned(e["t"]))
            if self._tinfo(e["t"])["k"] == "arr":
                self._maybe_buffer_local(e)
            return atom(a)
        if k == "sub":
            ub_ = self._table_ub(e, st)
            if ub_ is not None:
                a = self._reg_atom(e, ub=ub_)
                self.info._ub[a] = ub_
                self.info._nonneg[a] = True
                return atom(a)
        if k in ("mem", "sub") or (k == "un" and e["op"] == "*"):
            if k == "mem" and self._tinfo(e["t"])["k"] == "arr":
                a = self._reg_atom(e)
                sz = self._tinfo(e["t"]).get("size")
                if sz is not None and not any(b[0] == a for b in self.buffers):
                    self.buffers.append((a, Lin({}, sz), "%s[%d bytes]" % (a, sz)))
                return atom(a)
            a = self._reg_atom(e)
            return atom(a)
        if k == "un":
            if e["op"] == "&":
                s = core.strip_casts(e["e"])
                if s.get("k") == "sub":
                    b = self.lin(s["b"], st, facts)
                    i = self.lin(s["i"], st, facts)
                    if b is not None and i is not None:
                        return b.add(i.scale(self._tinfo(s["t"]).get("size") or 1))
                    return None
                if s.get("k") == "ref" and self._tinfo(s["t"])["k"] == "arr":
                    return self.lin(s, st, facts)
                a = self._reg_atom(e)
                self.info.register(a, {x["n"] for x in core.refs(e)}, False, True)
                return atom(a)
            if e["op"] == "-":
                v = self.lin(e["e"], st, facts)
                return v.scale(-1) if v is not None else None
            if e["op"] == "+":
                return self.lin(e["e"], st, facts)
            if e["op"] in ("post++", "post--", "pre++", "pre--"):
                v = self.lin(e["e"], st, facts)
                if v is None:
                    return None
                d = self._elem_size(e["t"]) if self._tinfo(e["t"])["k"] == "ptr" else 1
                if e["op"].startswith("pre"):
                    return v.plus(d if "++" in e["op"] else -d)
                return v
            return None
        if k == "bin":
            op = e["op"]
            if op in ("+", "-"):
                x = self.lin(e["x"], st, facts)
                y = self.lin(e["y"], st, facts)
                if x is None or y is None:
                    return None
                tx = self._tinfo(core.strip_imp(e["x"])["t"]) if "t" in core.strip_imp(e["x"]) else {"k": "int"}
                ty = self._tinfo(core.strip_imp(e["y"])["t"]) if "t" in core.strip_imp(e["y"]) else {"k": "int"}
                xp, yp = tx["k"] in ("ptr", "arr"), ty["k"] in ("ptr", "arr")
                if xp and not yp:
                    ym = self._lin_modular(e["y"], st)
                    y = (ym if ym is not None else y).scale(self._elem_size(core.strip_imp(e["x"])["t"]))
                elif yp and not xp and op == "+":
                    xm = self._lin_modular(e["x"], st)
                    x = (xm if xm is not None else x).scale(self._elem_size(core.strip_imp(e["y"])["t"]))
                r = x.add(y, 1 if op == "+" else -1)
                if xp and yp and op == "-":
                    s = self._elem_size(core.strip_imp(e["x"])["t"])
                    if s != 1:
                        if all(v % s == 0 for v in r.t.values()) and r.c % s == 0:
                            r = Lin({a: v // s for a, v in r.t.items()}, r.c // s)
                        else:
                            return atom(self._reg_atom(e))
                    return r
                if op == "-" and not xp and self._is_unsigned(e["t"]) and (self._tinfo(e["t"]).get("w") or 64) >= 32:
                    # unsigned subtraction wraps unless y <= x is known
                    if not (y.is_const() and x.is_const()) and not st.entails(y.add(x, -1)):
                        a = self._reg_atom(e)
                        return atom(a)
                return r
            if op == "*":
                x = self.lin(e["x"], st, facts)
                y = self.lin(e["y"], st, facts)
                if x is not None and y is not None:
                    if x.is_const():
                        return y.scale(x.c)
                    if y.is_const():
                        return x.scale(y.c)
                return atom(self._reg_atom(e))
            if op == "<<" and const_val(e["y"]) is not None and 0 <= const_val(e["y"]) < 31:
                x = self.lin(e["x"], st, facts)
                return x.scale(1 << const_val(e["y"])) if x is not None else None
            if op == "%" and const_val(e["y"]) and const_val(e["y"]) > 0:
                return atom(self._reg_atom(e, ub=const_val(e["y"]) - 1))
            if op == "&":
                for s_, o_ in ((e["x"], e["y"]), (e["y"], e["x"])):
                    m = const_val(s_)
                    if m is not None and m >= 0:
                        a = self._reg_atom(e, ub=m)
                        self.info._nonneg[a] = True
                        # (x & M) <= x for unsigned x; for M = ~k (k = 2^n - 1) also x - k <= (x & M)
                        if facts is not None and "t" in core.strip_imp(o_) and self._is_unsigned(core.strip_imp(o_)["t"]):
                            ox = self.lin(o_, st, None)
                            if ox is not None:
                                facts.append(atom(a).add(ox, -1))
                                w_ = self._tinfo(e["t"]).get("w") or 64
                                low = (~m) & ((1 << w_) - 1)
                                if low and (low & (low + 1)) == 0 and low < (1 << 16):
                                    facts.append(ox.add(atom(a), -1).plus(-low))
                        return atom(a)
                return atom(self._reg_atom(e))
            if op == "/" and const_val(e["y"]) and const_val(e["y"]) > 0:
                a = self._reg_atom(e)
                x = self.lin(e["x"], st, facts)
                d = const_val(e["y"])
                if x is not None and facts is not None and self._is_unsigned(e["t"]):
                    # d*q <= x  and  x <= d*q + d-1
                    facts.append(atom(a).scale(d).add(x, -1))
                    facts.append(x.add(atom(a).scale(d), -1).plus(-(d - 1)))
                    self.info._nonneg[a] = True
                return atom(a)
            if op == ">>" and const_val(e["y"]) is not None and 0 <= const_val(e["y"]) < 31:
                a = self._reg_atom(e)
                x = self.lin(e["x"], st, facts)
                d = 1 << const_val(e["y"])
                if x is not None and facts is not None and self._is_unsigned(e["t"]):
                    facts.append(atom(a).scale(d).add(x, -1))
                    self.info._nonneg[a] = True
                return atom(a)
            if op in ("=",):
                return self.lin(e["y"], st, facts)
            if op in ("==", "!=", "<", ">", "<=", ">=", "&&", "||"):
                a = self._reg_atom(e, ub=1)
                self.info._nonneg[a] = True
                return atom(a)
            return atom(self._reg_atom(e))
        if k == "lazy":
            lz = e.get("lz")
            if lz is not None and lz.get("k") == "cond":
                return self._lin_cond(e, lz, st, facts)
            a = self._reg_atom(e)
            return atom(a)
        if k == "cond":
            return self._lin_cond(e, e, st, facts)
        if k == "call":
            a = self._reg_atom(e)
            if e.get("fn") in ("strlen", "strnlen"):
                self.info._nonneg[a] = True
            return atom(a)
        return None

    def _lin_modular(self, e, st):
        """offset added to a pointer: address arithmetic is consistent modulo 2^64, so an unsigned
        difference may be linearised without a no-wrap proof (p + (n - 1) == p + n - 1 as addresses)"""
        e0 = core.strip_casts(e)
        if e0 is None or e0.get("k") != "bin" or e0["op"] not in ("+", "-"):
            return None
        if self._tinfo(e0["t"]).get("w") != 64:
            return None
        x = self._lin_modular(e0["x"], st) or self.lin(e0["x"], st)
        y = self._lin_modular(e0["y"], st) or self.lin(e0["y"], st)
        if x is None or y is None:
            return None
        return x.add(y, 1 if e0["op"] == "+" else -1)

    def _table_ub(self, e, st):
        """largest value a read of a constant global table can yield, restricted to the index range if known"""
        b = core.strip_casts(e["b"])
        if b.get("k") != "ref" or b.get("dk") not in ("global", "slocal"):
            return None
        g = None
        for gg in self.unit.global_list:
            if gg["n"] == b["n"] and gg.get("const"):
                g = gg
        if g is None:
            return None
        vals = core.global_value(self.unit, g)
        if isinstance(vals, str):
            vals = [ord(ch) for ch in vals]
        if not isinstance(vals, list) or not vals or not all(isinstance(v, int) for v in vals):
            return None
        if min(vals) < 0:
            return None
        idx = self.lin(e["i"], st)
        lo, hi = 0, len(vals) - 1
        if idx is not None:
            if idx.is_const():
                lo = hi = max(0, min(hi, idx.c))
            else:
                # constant upper bound of the index, if the state has one
                for cand in (15, 31, 63, 127, 255, len(vals) - 1):
                    if cand < hi and st.entails(idx.plus(-cand)):
                        hi = cand
                        break
                for cand in (256, 128, 64):
                    if cand <= hi and st.entails(idx.scale(-1).plus(cand)):
                        lo = cand
                        break
        return max(vals[lo:hi + 1])

    def _lin_cond(self, e, c, st, facts):
        """MIN / MAX shaped conditionals give relational facts about the result atom"""
        a = self._reg_atom(e, k=key(c))
        t = core.strip_casts(c["c"])
        x, y = self.lin(c["x"], st, None), self.lin(c["y"], st, None)
        # the test was decided on this path (trace partition): the value is one of the arms
        if t.get("k") == "bin" and t["op"] in ("==", "!=", "<", ">", "<=", ">="):
            ta = key(t)
            if ta in self.info._vars:
                if x is not None and st.entails(atom(ta).scale(-1).plus(1), 2):
                    return x
                if y is not None and st.entails(atom(ta), 2):
                    return y
        if facts is not None and x is not None and y is not None and t.get("k") == "bin" and t["op"] in ("<", ">", "<=", ">="):
            l, r = self.lin(t["x"], st, None), self.lin(t["y"], st, None)
            if l is not None and r is not None:
                lt = t["op"] in ("<", "<=")
                # value is x when (l op r) else y
                same = (l.norm() == x.norm() and r.norm() == y.norm())
                swap = (l.norm() == y.norm() and r.norm() == x.norm())
                if (same and lt) or (swap and not lt):      # MIN
                    facts.append(atom(a).add(x, -1))
                    facts.append(atom(a).add(y, -1))
                elif (same and not lt) or (swap and lt):    # MAX
                    facts.append(x.add(atom(a), -1))
                    facts.append(y.add(atom(a), -1))
        if self._is_unsigned(e["t"]):
            self.info._nonneg[a] = True
        return atom(a)

    def _maybe_buffer_local(self, e):
        a = e["n"]
        sz = self._tinfo(e["t"]).get("size")
        if sz is not None and not any(b[0] == a for b in self.buffers):
            self.buffers.append((a, Lin({}, sz), "%s[%d bytes]" % (a, sz)))

    def _maybe_buffer_global(self, e):
        self._maybe_buffer_local(e)

    # ------------------------------------------------------------ guards
    def assume(self, st, cond, truth):
        """refine st with cond == truth"""
        c = core.strip_casts(cond)
        if c is None:
            return
        if c.get("k") == "bin" and c["op"] in ("==", "!=", "<", ">", "<=", ">=") and \
                not any(x.get("k") in ("call",) for x, _ in walk(c)):
            a = self._reg_atom(c, ub=1)
            self.info._nonneg[a] = True
            if not self.info.is_mem(a):
                st.add_eq(atom(a), Lin({}, 1 if truth else 0))
        k = c.get("k")
        if k == "un" and c["op"] == "!":
            return self.assume(st, c["e"], not truth)
        if k == "cast":
            return self.assume(st, c["e"], truth)
        if k == "bin" and c["op"] in ("==", "!=", "<", ">", "<=", ">="):
            op = c["op"]
            # boolean wrappers 0 != (x), 0 == (x)
            for a_, b_ in ((c["x"], c["y"]), (c["y"], c["x"])):
                if const_val(a_) == 0 and core.strip_casts(b_).get("k") in ("bin", "un", "lazy") and \
                        op in ("==", "!=") and self._is_boolish(core.strip_casts(b_)):
                    return self.assume(st, b_, truth if op == "!=" else not truth)
            facts = []
            x = self.lin(c["x"], st, facts)
            y = self.lin(c["y"], st, facts)
            for f in facts:
                st.add(f)
            # NULL tests release conditional facts
            for a_, b_ in ((c["x"], c["y"]), (c["y"], c["x"])):
                if (const_val(a_) == 0 or const_val(core.strip_casts(a_)) == 0) and core.strip_casts(b_).get("k") == "ref":
                    nm = core.strip_casts(b_)["n"]
                    nonnull = (truth and op == "!=") or (not truth and op == "==")
                    if nonnull and nm in st.condfacts:
                        for f in st.condfacts.pop(nm):
                            st.add(f)
            if x is None or y is None:
                return
            if not truth:
                op = {"==": "!=", "!=": "==", "<": ">=", ">": "<=", "<=": ">", ">=": "<"}[op]
            if op in ("<", ">"):
                lo_, hi_ = (x, y) if op == "<" else (y, x)
                d = hi_.add(lo_, -1)          # d >= 1
                for k_ in sorted({k for (k, b) in st.cong.values() if k > 1} | {abs(cf) for cf in d.t.values() if abs(cf) > 1}):
                    r_ = st.residue(d, k_)
                    if r_ is not None:
                        m_ = r_ if r_ >= 1 else k_
                        if m_ > 1:
                            st.add(lo_.add(hi_, -1).plus(m_))
            if op == "==":
                st.add_eq(x, y)
            elif op == "<":
                st.add(x.add(y, -1).plus(1))
            elif op == "<=":
                st.add(x.add(y, -1))
            elif op == ">":
                st.add(y.add(x, -1).plus(1))
            elif op == ">=":
                st.add(y.add(x, -1))
            elif op == "!=":
                # x != y with a known one-sided bound sharpens it (unsigned x != 0  =>  x >= 1)
                if st.entails(y.add(x, -1)):          # y <= x
                    st.add(y.add(x, -1).plus(1))      # y < x
                elif st.entails(x.add(y, -1)):
                    st.add(x.add(y, -1).plus(1))
            return
        # plain truthiness of an integer / pointer:  if (x)
        if k in ("ref", "mem") and "t" in c and self._tinfo(c["t"])["k"] in ("int", "enum"):
            x = self.lin(c, st)
            if x is not None:
                if truth and self.info.nonneg(list(x.t)[0] if len(x.t) == 1 else ""):
                    st.add(x.scale(-1).plus(1))
                elif not truth:
                    st.add_eq(x, Lin())
        if k == "ref" and truth and c["n"] in st.condfacts:
            for f in st.condfacts.pop(c["n"]):
                st.add(f)

    def _is_boolish(self, e):
        if e.get("k") == "bin" and e["op"] in ("==", "!=", "<", ">", "<=", ">=", "&&", "||"):
            return True
        if e.get("k") == "un" and e["op"] == "!":
            return True
        if e.get("k") == "lazy" and e["op"] in ("&&", "||"):
            return True
        return False

    # ------------------------------------------------------------ transfer
    def _assign(self, st, lhs, rhs_lin, rhs_expr=None, facts=None):
        l = core.strip_casts(lhs)
        if l.get("k") == "ref":
            nm = l["n"]
            self.info.register(nm, {nm}, False, self._is_unsigned(l["t"]))
            if rhs_lin is not None and nm in rhs_lin.t:
                cf = rhs_lin.t[nm]
                rest = rhs_lin.add(atom(nm), -cf)
                if cf == 1 and not any(nm in self.info.vars(a) for a in rest.t) and \
                        not any(self.info.is_mem(a) for a in rest.t):
                    st.subst_var(nm, rest if not rest.is_const() else rest.c)
                    return
                st.havoc_var(nm)
                return
            st.havoc_var(nm)
            if rhs_lin is not None:
                # additionally express the value over parameters where an operand is a plain alias of one (ptr == buf): that
                # copy of the fact survives later updates of the operand (the original form is kept for the congruences)
                alt = rhs_lin
                for a in list(rhs_lin.t):
                    if a in self.param_names or self.info.is_mem(a) or a == nm:
                        continue
                    d_ = st.exact_def(a, self.param_names)
                    if d_ is not None and d_.c == 0 and len(d_.t) == 1 and list(d_.t.values()) == [1]:
                        cf_ = alt.t[a]
                        alt = alt.add(atom(a), -cf_).add(d_, cf_)
                if alt is not rhs_lin:
                    st.add_eq(atom(nm), alt)
                st.add_eq(atom(nm), rhs_lin)
                if not any(self.info.is_mem(a) for a in rhs_lin.t):
                    st.cong[nm] = (0, rhs_lin)
            for f in facts or []:
                st.add(f)
            return
        # store through memory: the exact atom gets the value, other memory atoms are forgotten
        a = key(l)
        st.forget_atoms(lambda x: self.info.is_mem(x))
        if rhs_lin is not None and not any(self.info.is_mem(x) for x in rhs_lin.t):
            self._reg_atom(l, k=a)
            st.add_eq(atom(a), rhs_lin)

    def exec_elem(self, st, pos, e, record):
        """apply the side effects of one root element; record obligations when asked"""
        self._ev(st, pos, e, record)

    def _ev(self, st, pos, e, record):
        """evaluate expression for side effects in evaluation order; returns Lin value or None"""
        if e is None:
            return None
        k = e.get("k")
        if k in ("int", "str", "sizeof", "lazy"):
            return self.lin(e, st)
        if k == "ref":
            return self.lin(e, st)
        if k == "decl":
            for v in e["vars"]:
                self.info.register(v["n"], {v["n"]}, False, self._is_unsigned(v["t"]))
                st.havoc_var(v["n"])
                if "init" in v:
                    facts = []
                    val = self._ev(st, pos, v["init"], record)
                    if val is None:
                        val = self.lin(v["init"], st, facts)
                    else:
                        self.lin(v["init"], st, facts)
                    if self._tinfo(v["t"])["k"] in ("int", "enum", "ptr"):
                        ref = {"k": "ref", "n": v["n"], "id": v["id"], "dk": "local", "t": v["t"]}
                        self._assign(st, ref, val, v["init"], facts)
                        self._contract(st, v["n"], v["init"])
            return None
        if k == "ret":
            if "e" in e:
                rv = self._ev(st, pos, e["e"], record)
                if record and getattr(self, "ret_le", None) and rv is not None:
                    ok = st.entails(rv.add(atom(self.ret_le), -1))
                    self.obligations.append(dict(pos=pos, ln=e.get("ln"), kind="ret", status="proved" if ok else "undecided",
                                                 buf=self.ret_le, what="return " + key(e["e"]),
                                                 detail="returned value <= %s" % self.ret_le))
            return None
        if k == "cast":
            self._ev(st, pos, e["e"], record)
            return self.lin(e, st)
        if k == "un":
            op = e["op"]
            if op in ("post++", "post--", "pre++", "pre--"):
                tgt = core.strip_casts(e["e"])
                old = self.lin(tgt, st)
                d = self._elem_size(tgt["t"]) if self._tinfo(tgt["t"])["k"] == "ptr" else 1
                d = d if "++" in op else -d
                if tgt.get("k") != "ref":
                    self._deref_check(st, pos, tgt, "w", record)
                self._assign(st, tgt, old.plus(d) if old is not None else None)
                if old is None:
                    return None
                # express the value in terms of the *updated* variable
                cur = self.lin(tgt, st)
                if cur is None:
                    return None
                return cur.plus(-d) if op.startswith("post") else cur
            if op == "*":
                v = self._ev(st, pos, e["e"], record)
                self._access(st, pos, e, v, self._tinfo(e["t"]).get("size") or 1, "r", record)
                return self.lin(e, st)
            if op == "&":
                s = core.strip_casts(e["e"])
                if s.get("k") == "sub":
                    self._ev(st, pos, s["b"], record)
                    self._ev(st, pos, s["i"], record)
                return self.lin(e, st)
            self._ev(st, pos, e["e"], record)
            return self.lin(e, st)
        if k == "sub":
            b = self._ev(st, pos, e["b"], record)
            i = self._ev(st, pos, e["i"], record)
            if b is not None and i is not None:
                w = self._tinfo(e["t"]).get("size") or 1
                self._access(st, pos, e, b.add(i.scale(w)), w, "r", record)
            return self.lin(e, st)
        if k == "mem":
            b = self._ev(st, pos, e["b"], record)
            # p->field: a read of the field's bytes at p + offsetof(field) (bit-fields: the byte(s) they live in)
            if e.get("arrow") and b is not None and "off" in e and self._tinfo(e["t"])["k"] != "arr":
                w = self._tinfo(e["t"]).get("size") or 1
                if "bits" in e:
                    w = (e["off"] % 8 + e["bits"] + 7) // 8
                self._access(st, pos, e, b.plus(e["off"] // 8), w, "r", record)
            return self.lin(e, st)
        if k == "bin":
            op = e["op"]
            if op == "=":
                facts = []
                rv = self._ev(st, pos, e["y"], record)
                self.lin(e["y"], st, facts)
                l = core.strip_casts(e["x"])
                self._lhs_access(st, pos, l, record)
                pre = self._pre_args(st, l["n"], e["y"], pos) if l.get("k") == "ref" else None
                self._assign(st, l, rv, e["y"], facts)
                if l.get("k") == "ref":
                    self._contract(st, l["n"], e["y"], pre)
                return rv
            if op in ("+=", "-=", "*=", "/=", "%=", "&=", "|=", "^=", "<<=", ">>="):
                rv = self._ev(st, pos, e["y"], record)
                l = core.strip_casts(e["x"])
                self._lhs_access(st, pos, l, record)
                old = self.lin(l, st)
                new = None
                if op == "*=" and l.get("k") == "ref" and rv is not None and rv.is_const() and rv.c > 0 and \
                        self._tinfo(l["t"])["k"] in ("int",):
                    st.scale_var(l["n"], rv.c)
                    return None
                if old is not None and rv is not None and op in ("+=", "-="):
                    scale = self._elem_size(l["t"]) if self._tinfo(l["t"])["k"] == "ptr" else 1
                    y = rv.scale(scale)
                    if op == "-=" and self._is_unsigned(l["t"]) and self._tinfo(l["t"])["k"] != "ptr" and \
                            not st.entails(y.add(old, -1)):
                        new = None
                    else:
                        new = old.add(y, 1 if op == "+=" else -1)
                self._assign(st, l, new)
                return new
            if op == ",":
                self._ev(st, pos, e["x"], record)
                return self._ev(st, pos, e["y"], record)
            self._ev(st, pos, e["x"], record)
            self._ev(st, pos, e["y"], record)
            return self.lin(e, st)
        if k == "call":
            return self._call(st, pos, e, record)
        if k == "init":
            for x in e["e"]:
                self._ev(st, pos, x, record)
            return None
        if k == "cond":
            return self.lin(e, st)
        for c in core.children(e):
            self._ev(st, pos, c, record)
        return None

    def _lhs_access(self, st, pos, l, record):
        if l.get("k") == "un" and l["op"] == "*":
            v = self._ev(st, pos, l["e"], record)
            self._access(st, pos, l, v, self._tinfo(l["t"]).get("size") or 1, "w", record)
        elif l.get("k") == "sub":
            b = self._ev(st, pos, l["b"], record)
            i = self._ev(st, pos, l["i"], record)
            if b is not None and i is not None:
                w = self._tinfo(l["t"]).get("size") or 1
                self._access(st, pos, l, b.add(i.scale(w)), w, "w", record)
        elif l.get("k") == "mem":
            self._ev(st, pos, l["b"], record)

    def _deref_check(self, st, pos, tgt, rw, record):
        self._lhs_access(st, pos, tgt, record)

    def _call(self, st, pos, e, record):
        name = e.get("fn")
        argv = []
        for a in e["args"]:
            argv.append(self._ev(st, pos, a, record))
        if "callee" in e:
            self._ev(st, pos, e["callee"], record)
        # library copies
        for (pi, li, rw) in COPY_CALLS.get(name, []) + self.callee_pairs.get(name, []):
            if pi < len(argv) and li < len(argv) and argv[pi] is not None and argv[li] is not None:
                esz = 1
                self._access(st, pos, e, argv[pi], None, rw, record, length=argv[li], what="%s(arg %d, len arg %d)" % (name, pi, li))
        # effects
        if name not in PURE_CALLS:
            st.havoc_mem()
        for a in e["args"]:
            a0 = core.strip_casts(a)
            if a0.get("k") == "un" and a0["op"] == "&":
                s = core.strip_casts(a0["e"])
                if s.get("k") == "ref" and self._tinfo(s["t"])["k"] != "arr":
                    st.havoc_var(s["n"])
        return self.lin(e, st)

    def _pre_args(self, st, var, rhs, pos):
        """values of a helper call's arguments *before* `var = helper(...)` is executed.  When an argument mentions
        var itself (separator = find(separator, ...)) the old value is kept in a ghost atom."""
        r = core.strip_casts(rhs)
        if r is None or r.get("k") != "call":
            return None
        vals = [self.lin(a, st) for a in r["args"]]
        if any(v is not None and var in v.t for v in vals):
            g = "%s@pre%s_%s" % (var, pos[0], pos[1])
            self.info.register(g, {g}, False, self.info.nonneg(var))
            st.forget_atoms(lambda a: a == g)
            # the ghost inherits every linear fact of var (an equality alone would be dropped when var is overwritten)
            info = self.info
            for terms, c in list(st.cons.items()):
                d = dict(terms)
                if var in d and not any(a != var and var in info.vars(a) for a in d):
                    d[g] = d.pop(var)
                    st.add(Lin(d, c))
            vals = [None if v is None else Lin({(g if a == var else a): c for a, c in v.t.items()}, v.c) for v in vals]
        return vals

    def _contract(self, st, var, rhs, pre=None):
        """return-value contracts of the search helpers (valid when the result is non-NULL)"""
        r = core.strip_casts(rhs)
        if r is None or r.get("k") != "call":
            return
        name = r.get("fn")
        args = r["args"]
        L = (lambda i: pre[i]) if pre is not None else (lambda i: self.lin(args[i], st))
        v = atom(var)
        cf = []
        if name in RET_LE_ARG and RET_LE_ARG[name] < len(args):
            b_ = L(RET_LE_ARG[name])
            if b_ is not None:
                st.add(v.add(b_, -1))
            return
        try:
            if name == "memchr" and len(args) == 3:
                p, n = L(0), L(2)
                cf = [p.add(v, -1), v.add(p, -1).add(n, -1).plus(1)]
            elif name == "memrchr" and len(args) == 3:
                p, n = L(0), L(2)
                cf = [p.add(v, -1), v.add(p, -1).add(n, -1).plus(1)]
            elif name == "mem_chr" and len(args) == 3:
                p, n = L(0), L(1)
                cf = [p.add(v, -1), v.add(p, -1).add(n, -1).plus(1)]
            elif name == "mem_chr_off" and len(args) == 4:
                o, p, n = L(0), L(1), L(2)
                cf = [p.add(o).add(v, -1), v.add(p, -1).add(n, -1).plus(1)]
            elif name == "mem_chr_ptr" and len(args) == 4:
                q, p, n = L(0), L(1), L(2)
                cf = [q.add(v, -1), v.add(p, -1).add(n, -1).plus(1)]
            elif name in ("mem_rchr", "mem_rchr_off", "mem_rchr_ptr"):
                p, n = (L(0), L(1)) if name == "mem_rchr" else (L(1), L(2))
                cf = [p.add(v, -1), v.add(p, -1).add(n, -1).plus(1)]
            elif name in ("mem_find", "memmem") and len(args) == 4:
                p, n, w = L(0), L(1), L(3)
                cf = [p.add(v, -1), v.add(w).add(p, -1).add(n, -1)]
            elif name == "mem_find_off" and len(args) == 5:
                o, p, n, w = L(0), L(1), L(2), L(4)
                cf = [p.add(o).add(v, -1), v.add(w).add(p, -1).add(n, -1)]
            elif name == "mem_find_ptr" and len(args) == 5:
                q, p, n, w = L(0), L(1), L(2), L(4)
                cf = [q.add(v, -1), v.add(w).add(p, -1).add(n, -1)]
        except (AttributeError, TypeError):
            cf = []
        if cf:
            # weaker consequences that are more often inductive: "inside the buffer" without the start offset
            extra = []
            try:
                if name in ("mem_find_off", "mem_chr_off", "mem_rchr_off") :
                    pb = L(1)
                    extra.append(pb.add(v, -1))
                elif name in ("mem_find_ptr", "mem_chr_ptr", "mem_rchr_ptr"):
                    pb = L(1)
                    if st.entails(pb.add(L(0), -1)):         # the start pointer is already inside the buffer
                        extra.append(pb.add(v, -1))
            except (AttributeError, TypeError):
                extra = []
            st.condfacts[var] = cf + [x for x in extra if x is not None]

    # ------------------------------------------------------------ obligations
    def _access(self, st, pos, node, addr, width, rw, record, length=None, what=None):
        if not record or addr is None:
            return
        ln = node.get("ln")
        # zero-length library accesses are trivially fine
        if length is not None and length.is_const() and length.c == 0:
            return
        end = addr.plus(width) if length is None else addr.add(length)
        related = False
        best = None
        for (b, size, label) in self.buffers:
            self.info.register(b, {b.split("->")[0].split("[")[0]}, "->" in b, True)
            lo = atom(b)
            hi = atom(b).add(size)
            lo_ok = st.entails(lo.add(addr, -1))
            hi_ok = st.entails(end.add(hi, -1))
            if lo_ok and hi_ok:
                self.obligations.append(dict(pos=pos, ln=ln, kind=rw, status="proved", buf=label, what=what or key(node),
                                             detail="inside %s" % label))
                return
            if self._related(st, addr, b):
                related = True
                slack = None
                if lo_ok:
                    for d in (1, 2, 3, 4, 8, 16, 32, 64, 128, 256):
                        if st.entails(end.add(hi, -1).plus(-d)):
                            slack = d
                            break
                rank = (1 if b in addr.t else 0, 1 if lo_ok else 0, 1 if hi_ok else 0, 1 if slack is not None else 0)
                if best is None or rank > best[0]:
                    best = (rank, label, lo_ok, hi_ok, slack)
        if not related:
            pv = [self.prov[a] for a in addr.t if a in self.prov]
            if not pv:
                self.untracked += 1
                return
            self.obligations.append(dict(pos=pos, ln=ln, kind=rw, status="undecided", buf=pv[0], what=what or key(node),
                                         detail="pointer derived from %s but no relation to its bounds is known here" % pv[0]))
            return
        rank, label, lo_ok, hi_ok, slack = best
        # an alarm needs the strongest evidence: the bound is short by exactly one element (the classic
        # off-by-one: '<=' for '<', terminator after an exactly fitting payload).  A bound that is weaker
        # than that is far more often lost precision than a defect and is reported as undecided.
        one = width if width else 1
        NEAR = 4                     # misses of up to a small header (type/length octets, two hex digits, a 16-bit field)
        if length is not None and not length.is_const():
            # a library access of variable length: a miss of a few bytes is what a lost relation between the length and the
            # cursor looks like (mpeg2_ts_serialize_data: the 4 byte packet header); only the classic miss of one stays eligible
            NEAR = 1
        if slack is not None and slack > max(one, NEAR):
            self.obligations.append(dict(pos=pos, ln=ln, kind=rw, status="undecided", buf=label, what=what or key(node),
                                         detail="bound present but weaker than needed by %d bytes against %s" % (slack, label)))
            return
        if slack is not None:
            # "short by one" alone can be the analysis' own imprecision.  It is reported only with a second piece of evidence:
            #  (A) the state entails that the access *does* end past the buffer whenever it is reached, or
            #  (B) some comparison of the function that holds here, tightened by one, makes the access provably safe
            #      (the off-by-one sits in that comparison).
            hi_lin = None
            for (b, size, lab2) in self.buffers:
                if lab2 == label:
                    hi_lin = atom(b).add(size)
            why = None
            if hi_lin is not None:
                need = end.add(hi_lin, -1)                      # need <= 0 for safety
                if st.entails(need.scale(-1).plus(1)):           # need >= 1 always
                    why = "every execution reaching this access ends %d byte(s) past %s" % (slack, label)
                else:
                    why = self._flip_witness(st, need, slack)
            if why:
                self.obligations.append(dict(pos=pos, ln=ln, kind=rw, status="alarm", buf=label, what=what or key(node),
                                             detail="address is only known to stay within %d byte(s) past the end of %s "
                                                    "(bound present but insufficient): %s" % (slack, label, why)))
            else:
                self.obligations.append(dict(pos=pos, ln=ln, kind=rw, status="undecided", buf=label, what=what or key(node),
                                             detail="bound short by %d byte(s) against %s, but no comparison of the function, tightened by "
                                                    "one, would make it sufficient (likely imprecision)" % (slack, label)))
        else:
            self.obligations.append(dict(pos=pos, ln=ln, kind=rw, status="undecided", buf=label, what=what or key(node),
                                         detail="no bound derivable (lower %s, upper %s) against %s" % (lo_ok, hi_ok, label)))

    def _flip_witness(self, st, need, by=1):
        """a comparison of the function that holds in st and, strengthened by `by` (the number of bytes the bound is short),
        makes `need <= 0` entailed"""
        if getattr(self, "_cmp_cache", None) is None:
            self._cmp_cache = []
            for bid in self.fn.reachable_blocks():
                c = self.fn.blocks[bid].cond
                if c is None:
                    continue
                for n, ps in walk(c):
                    if n.get("k") == "bin" and n["op"] in ("<", ">", "<=", ">="):
                        self._cmp_cache.append(n)
        for n in self._cmp_cache:
            x = self.lin(n["x"], st)
            y = self.lin(n["y"], st)
            if x is None or y is None:
                continue
            d = x.add(y, -1)
            if not d.t or any(self.info.is_mem(a) for a in d.t):
                continue
            for g in (d, d.scale(-1)):
                if not st.entails(g):
                    continue
                for k_ in (0, 1, 2, 3):
                    if st.entails(g.plus(k_)) and not st.entails(g.plus(k_ + 1)):
                        st2 = st.copy()
                        st2.add(g.plus(k_ + by))
                        if st2.entails(Lin({}, 1)):
                            break                   # the tightened comparison contradicts the state: no evidence
                        if not (set(g.t) & set(need.t)):
                            break                   # a comparison about other quantities
                        if st2.entails(need):
                            return "the comparison at line %s, tightened by %d, would make it safe" % (n.get("ln"), by)
                        break
        return None

    def _related(self, st, addr, base):
        """does the address mention the buffer base, or a variable related to it by a constraint?"""
        names = set(addr.t)
        if base in names:
            return True
        for c in st.constraints():
            if base in c.t and names & set(c.t):
                return True
        # two-step relation through an end pointer
        mids = set()
        for c in st.constraints():
            if base in c.t:
                mids |= set(c.t)
        for c in st.constraints():
            if mids & set(c.t) and names & set(c.t):
                return True
        return False

    # ------------------------------------------------------------ fixpoint
    PART_LEN = 5        # decisions remembered per partition key
    PART_MAX = 24       # partitions per block

    def run(self, max_iter=400):
        """worklist fixpoint with trace partitioning: the state of a block is a small set of conjunctive
        states indexed by the most recent branch decisions (outside the current loop), so that correlated
        conditions (the same test made twice) keep their correlation."""
        fn = self.fn
        init = State(self.info)
        for (b, size, label) in self.buffers:
            self.info.register(b, {b}, False, True)
            for a in size.t:
                self.info.register(a, {a}, False, True)
        for f in self.entry_facts:
            init.add(f)
        for (v, g) in getattr(self, "entry_facts_pending", []):
            init.add_eq(atom(v), atom(g))
            init.cong[v] = (0, atom(g))
        loops = fn.loops()
        # partition only on tests that are made more than once in the function (correlated branches)
        def ckey(c):
            c = core.strip_casts(c)
            if c is None:
                return None
            while c.get("k") == "un" and c["op"] == "!":
                c = core.strip_casts(c["e"])
            if c.get("k") == "bin" and c["op"] in ("==", "!=", "<", ">", "<=", ">="):
                a_, b_ = key(core.strip_casts(c["x"])), key(core.strip_casts(c["y"]))
                if c["op"] in ("==", "!="):
                    return "eq:" + "|".join(sorted((a_, b_)))
                if c["op"] in (">", ">="):
                    a_, b_ = b_, a_
                return "lt:" + a_ + "|" + b_
            return "t:" + key(c)
        counts = {}
        ckeys = {}
        for bb in fn.reachable_blocks():
            blk_ = fn.blocks[bb]
            if blk_.cond is not None and len(blk_.succ) == 2:
                ck = ckey(blk_.cond)
                ckeys[bb] = ck
                counts[ck] = counts.get(ck, 0) + 1
        # a branch creates partitions only if both outcomes meet again before the function exit (diamonds);
        # early-exit guards never multiply states
        part_blocks = set()
        for bb in ckeys:
            blk_ = fn.blocks[bb]
            s0, s1 = blk_.succ
            if s0 is None or s1 is None:
                continue
            r0 = fn.reach_from([s0]) - {fn.exit}
            r1 = fn.reach_from([s1]) - {fn.exit}
            common = {x for x in (r0 & r1) if fn.blocks[x].elems or fn.blocks[x].term}
            if common:
                part_blocks.add(bb)
        # a switch over an expression that is switched over again later (size computation and its use): partition on the
        # arm taken, so that the second switch meets one arm's state at a time
        swkeys = {}
        for bb in fn.reachable_blocks():
            blk_ = fn.blocks[bb]
            if blk_.cond is not None and blk_.term and blk_.term["k"] == "SwitchStmt":
                swkeys.setdefault(key(core.strip_casts(blk_.cond)), []).append(bb)
        for k_, bbs in swkeys.items():
            if len(bbs) >= 2:
                part_blocks.update(bbs)
        ins = {fn.entry: {(): init}}
        visits = {}
        order = fn.rpo()
        idx = {b: i for i, b in enumerate(order)}
        work = {fn.entry}
        it = 0
        limit = max_iter * max(1, len(order))
        import time as _time
        t_start = _time.process_time()          # CPU time of this worker: the verdict does not depend on how busy the machine is
        budget = getattr(self, "budget", None)
        while work:
            it += 1
            if it > limit or (budget is not None and (it & 7) == 0 and _time.process_time() - t_start > budget):
                self.diverged = True
                break
            b = min(work, key=lambda x: idx.get(x, 1 << 30))
            work.discard(b)
            blk = fn.blocks[b]
            is_branch = b in part_blocks and blk.term["k"] in ("IfStmt", "&&", "||", "?:", "SwitchStmt")
            for pkey, st0 in list(ins[b].items()):
                st = st0.copy()
                if st.bottom:
                    continue
                for i, e in enumerate(blk.elems):
                    self.exec_elem(st, (b, i), e, False)
                for si, s in enumerate(blk.succ):
                    if s is None:
                        continue
                    es = st.copy()
                    self._edge(es, blk, si, s)
                    if es.bottom:
                        continue
                    nk = pkey + ((b, si),) if is_branch else pkey
                    if s in self.loop_heads:
                        body = loops.get(s, set())
                        nk = tuple(d for d in nk if d[0] not in body)
                    if len(nk) > self.PART_LEN:
                        # keep decisions taken outside the loops around s (they are stable across iterations)
                        # in preference to decisions taken inside them
                        around = set()
                        for h_, body_ in loops.items():
                            if s in body_:
                                around |= body_
                        outer = [d for d in nk if d[0] not in around][-self.PART_LEN:]
                        inner = [d for d in nk if d[0] in around]
                        room = self.PART_LEN - len(outer)
                        keep = set(outer) | set(inner[-room:] if room > 0 else [])
                        nk = tuple(d for d in nk if d in keep)
                    tgt = ins.setdefault(s, {})
                    if nk not in tgt and len(tgt) >= self.PART_MAX:
                        # too many partitions: merge everything at this point into one
                        merged = None
                        for v in tgt.values():
                            merged = v if merged is None else merged.join(v)
                        tgt.clear()
                        tgt[()] = merged
                        nk = ()
                        self.part_merged = getattr(self, "part_merged", 0) + 1
                    if nk not in tgt and () in tgt and len(tgt) == 1 and getattr(self, "part_merged", 0) and s in getattr(self, "_merged_at", set()):
                        nk = ()
                    if nk not in tgt:
                        tgt[nk] = es
                        work.add(s)
                        if len(tgt) == 1 and nk == () and getattr(self, "part_merged", 0):
                            self.__dict__.setdefault("_merged_at", set()).add(s)
                    else:
                        old = tgt[nk]
                        if s in self.loop_heads:
                            es = self.saturate(es)
                            if visits.get((s, nk), 0) == 0:
                                old = self.saturate(old.copy())
                        visits[(s, nk)] = visits.get((s, nk), 0) + 1
                        if s in self.loop_heads and visits[(s, nk)] > 2:
                            newst = old.widen(old.join(es))
                        else:
                            newst = old.join(es)
                        if newst.signature() != old.signature():
                            tgt[nk] = newst
                            work.add(s)
        self.ins_parts = ins
        if getattr(self, "diverged", False):
            self.obligations = []
            self.ins = {}
            return self
        # merged view (used by the loop-progress helper)
        self.ins = {}
        for b, parts in ins.items():
            m = None
            for v in parts.values():
                m = v.copy() if m is None else m.join(v)
            self.ins[b] = m
        # final pass: obligations, aggregated over partitions
        raw = []
        for b, parts in ins.items():
            blk = fn.blocks[b]
            for pkey, st0 in parts.items():
                if st0.bottom:
                    continue
                st = st0.copy()
                self.obligations = []
                for i, e in enumerate(blk.elems):
                    self.exec_elem(st, (b, i), e, True)
                raw.extend(self.obligations)
        agg = {}
        for o in raw:
            k = (o["pos"], o["ln"], o["kind"], o["what"])
            agg.setdefault(k, []).append(o)
        self.obligations = []
        for k, lst in agg.items():
            sts = {o["status"] for o in lst}
            if sts == {"proved"}:
                self.obligations.append(lst[0])
            elif "alarm" in sts:
                self.obligations.append(next(o for o in lst if o["status"] == "alarm"))
            else:
                self.obligations.append(next(o for o in lst if o["status"] == "undecided"))
        self._progress()
        return self

    def _collect_templates(self):
        """difference forms x - y of every comparison made by the function: candidate invariants"""
        ts = []
        seen = set()
        empty = State(self.info)
        for bid in self.fn.reachable_blocks():
            c = self.fn.blocks[bid].cond
            if c is None:
                continue
            for n, ps in walk(c):
                if n.get("k") == "bin" and n["op"] in ("<", ">", "<=", ">=", "==", "!="):
                    x = self.lin(n["x"], empty)
                    y = self.lin(n["y"], empty)
                    if x is None or y is None:
                        continue
                    d = x.add(y, -1)
                    d = Lin(d.t, 0)
                    if not d.t or len(d.t) > 4 or any(self.info.is_mem(a) for a in d.t):
                        continue
                    k_ = d.norm()
                    if k_ in seen or d.scale(-1).norm() in seen:
                        continue
                    seen.add(k_)
                    ts.append(d)
        # buffer ends: every pointer derived from a buffer is compared with its base and its end
        labels = {label: (b, size) for (b, size, label) in self.buffers}
        extra = []
        for v, lab in sorted(self.prov.items()):
            if lab not in labels:
                continue
            b, size = labels[lab]
            self.info.register(v, {v}, False, True)
            for d in (atom(v).add(atom(b), -1), atom(v).add(atom(b), -1).add(size, -1)):
                d = Lin(d.t, 0)
                if d.t and d.norm() not in seen and d.scale(-1).norm() not in seen:
                    seen.add(d.norm())
                    extra.append(d)
        return (extra + ts)[:40]

    def saturate(self, st):
        """make entailed instances of the templates explicit so that the syntactic join keeps them"""
        if self.templates is None:
            self.templates = self._collect_templates()
        if st.bottom:
            return st
        for d in self.templates:
            for g in (d, d.scale(-1)):
                # both the strict and the weak form are made explicit: widening keeps only what is
                # literally present, and the weak form usually is the inductive one
                if st.entails(g.plus(1), 3):
                    st.add_weak(g.plus(1))
                    st.add_weak(g)
                elif st.entails(g, 3):
                    st.add_weak(g)
        return st

    def _edge(self, st, blk, si, s):
        c = blk.cond
        if c is None:
            return
        k = blk.term["k"]
        if k == "SwitchStmt":
            lab = self.fn.blocks[s].label or {}
            if "case" in lab:
                x = self.lin(c, st)
                if x is not None:
                    cv = Lin({}, int(lab["case"]))
                    # the arm is infeasible when the state already excludes the label (a second switch over the same
                    # expression, reached from another arm of the first one)
                    if st.entails_le(x, cv, 1) or st.entails_le(cv, x, 1):
                        st.bottom = True
                        return
                    st.add_eq(x, cv)
            else:
                # the edge taken when no label matches: with labels lo..hi (contiguous) and a state that bounds the operand
                # by hi (or from lo), the operand is below lo (above hi)
                labs = sorted(int((self.fn.blocks[s2].label or {}).get("case")) for s2 in blk.succ
                              if s2 is not None and "case" in (self.fn.blocks[s2].label or {}))
                x = self.lin(c, st)
                if x is not None and labs and labs == list(range(labs[0], labs[-1] + 1)):
                    if st.entails_le(x, Lin({}, labs[-1])):
                        st.add(x.add(Lin({}, labs[0] - 1), -1))          # x <= lo - 1
                    elif st.entails_le(Lin({}, labs[0]), x):
                        st.add(Lin({}, labs[-1] + 1).add(x, -1))         # x >= hi + 1
            return
        if len(blk.succ) == 2:
            self.assume(st, c, si == 0)

    # ------------------------------------------------------------ loop progress
    def _progress(self):
        """for every natural loop: on each back edge some atom of the loop condition strictly moves"""
        fn = self.fn
        for (t, h) in fn.back_edges():
            hb = fn.blocks[h]
            # condition atoms: variables mentioned in the conditions of the loop's exit branches
            body = fn.loops().get(h, set())
            cands = set()
            for b in body:
                blk = fn.blocks[b]
                if blk.cond is not None and any(s is not None and s not in body for s in blk.succ):
                    for x in core.refs(blk.cond):
                        if x.get("dk") in ("local", "parm"):
                            cands.add(x["n"])
            res = None
            for v in sorted(cands):
                d = self._delta_along(h, t, v, body)
                if d is not None and d != 0:
                    res = (v, d)
                    break
            self.progress.append(dict(head=h, tail=t, ln=(hb.term or {}).get("ln"), ok=res is not None,
                                      var=res[0] if res else None, delta=res[1] if res else None, cands=sorted(cands)))

    def _delta_along(self, h, t, v, body):
        """+1 if v strictly increases on every path h -> t -> h, -1 if strictly decreases, else None.
        Computed by a tiny dataflow of the accumulated constant delta (None = unknown)."""
        fn = self.fn
        # delta lattice: (lo, hi) bounds of v - v@head ; saturated at +-2
        INF = 10 ** 6

        def tr(blockid, d):
            lo, hi = d
            for e in fn.blocks[blockid].elems:
                for n, ps in walk(e):
                    k = n.get("k")
                    if k == "un" and n["op"] in ("post++", "pre++", "post--", "pre--") and core.is_ref(n["e"], name=v):
                        s = 1 if "++" in n["op"] else -1
                        lo, hi = lo + s, hi + s
                    elif k == "bin" and n["op"] in ("+=", "-=") and core.is_ref(n["x"], name=v):
                        c = const_val(n["y"])
                        if c is not None:
                            s = c if n["op"] == "+=" else -c
                            lo, hi = lo + s, hi + s
                        else:
                            # adding an unsigned amount: monotone but possibly zero, unless the state says >= 1
                            amt = self.lin(core.strip_casts(n["y"]), self.ins.get(blockid, State(self.info)))
                            pos = amt is not None and self.ins.get(blockid) is not None and \
                                self._state_at_end(blockid).entails(amt.scale(-1).plus(1))
                            nonneg = amt is not None and all(self.info.nonneg(a) for a in amt.t) and amt.c >= 0 and \
                                all(cf > 0 for cf in amt.t.values())
                            if n["op"] == "+=":
                                lo, hi = (lo + 1 if pos else (lo if nonneg else -INF)), INF
                            else:
                                lo, hi = -INF, (hi - 1 if pos else (hi if nonneg else INF))
                    elif k == "bin" and n["op"] in ("/=", ">>=") and core.is_ref(n["x"], name=v) and \
                            const_val(n["y"]) is not None and const_val(n["y"]) >= (2 if n["op"] == "/=" else 1):
                        # unsigned value shrinks while it is non-zero (the loop condition tests it)
                        lo, hi = -INF, (hi - 1 if hi < INF else INF)
                    elif k == "bin" and n["op"] == "=" and core.is_ref(n["x"], name=v):
                        # v = v + c / v = something greater than v (from state)
                        r = core.strip_casts(n["y"])
                        c = None
                        if r.get("k") == "bin" and r["op"] in ("+", "-") and core.is_ref(r["x"], name=v):
                            c = const_val(r["y"])
                            if c is not None and r["op"] == "-":
                                c = -c
                        if c is not None:
                            lo, hi = lo + c, hi + c
                        else:
                            st = self._state_before(blockid, e)
                            val = self.lin(r, st) if st is not None else None
                            if val is not None and st.entails(atom(v).add(val, -1).plus(1)):
                                lo, hi = max(lo, lo) + 1 if lo > -INF else -INF, INF
                                lo = lo if lo > -INF else -INF
                            elif val is not None and st.entails(val.add(atom(v), -1).plus(1)):
                                lo, hi = -INF, hi - 1 if hi < INF else INF
                            else:
                                lo, hi = -INF, INF
                    elif k == "call":
                        for a in n["args"]:
                            a0 = core.strip_casts(a)
                            if a0.get("k") == "un" and a0["op"] == "&" and core.is_ref(a0["e"], name=v):
                                lo, hi = -INF, INF
                    elif k == "decl":
                        for dv in n["vars"]:
                            if dv["n"] == v:
                                lo, hi = -INF, INF
            return (max(lo, -INF), min(hi, INF))
        ins = {h: (0, 0)}
        work = [h]
        outs = {}
        guard = 0
        while work and guard < 2000:
            guard += 1
            b = work.pop()
            out = tr(b, ins[b])
            outs[b] = out
            for s in fn.blocks[b].rsucc():
                if s not in body or s == h:
                    continue
                if s not in ins:
                    ins[s] = out
                    work.append(s)
                else:
                    j = (min(ins[s][0], out[0]), max(ins[s][1], out[1]))
                    if j != ins[s]:
                        ins[s] = j
                        work.append(s)
        if t not in outs:
            return None
        lo, hi = outs[t]
        if lo >= 1:
            return 1
        if hi <= -1:
            return -1
        return None

    def _state_at_end(self, b):
        st = self.ins.get(b)
        if st is None:
            return State(self.info)
        st = st.copy()
        for i, e in enumerate(self.fn.blocks[b].elems):
            self.exec_elem(st, (b, i), e, False)
        return st

    def _state_before(self, b, elem):
        st = self.ins.get(b)
        if st is None:
            return None
        st = st.copy()
        for i, e in enumerate(self.fn.blocks[b].elems):
            if e is elem:
                return st
            self.exec_elem(st, (b, i), e, False)
        return st


SIZE_SUFFIXES = ("_size", "_len", "_length", "_sz", "size", "len")


def guess_pairs(fn):
    """(pointer param, size param, element size) pairs by the repository's naming convention"""
    unit = fn.unit
    names = [p["n"] for p in fn.params]
    out = []
    for p in fn.params:
        t = unit.type(p["t"])
        if t["k"] != "ptr":
            continue
        to = unit.type(t["to"])
        es = 1 if to["k"] == "void" else (to.get("size") or 1)
        pn = p["n"]
        cands = [pn + s for s in ("_size", "_len", "_length", "_sz", "_count", "_cnt")] + [pn + "size", pn + "len"]
        hit = None
        for c in cands:
            if c in names:
                hit = c
                break
        if hit is None:
            continue
        st = unit.type(next(q for q in fn.params if q["n"] == hit)["t"])
        if st["k"] not in ("int", "enum"):
            continue
        unit_sz = es if hit.endswith(("_count", "_cnt")) else 1
        if to.get("size") and to["size"] > 1 and not hit.endswith(("_count", "_cnt")) and to["k"] == "rec":
            unit_sz = 1
        out.append((pn, hit, unit_sz))
    return out
