"""R-CARRY: a carry/borrow flag computed by a comparison must not be lost.

Pattern: `v = (x < y)` / `v = (x < y) ? 1 : 0` on an integer local.  Following every
CFG path from that store, the first later event on v must be a read, a store of the
constant 1 ("or" of two mutually exclusive carries), or the function exit.  A store of
any other value before a read discards the computed carry on that path
(multi-limb add/sub chains silently produce wrong sums only when a limb is all-ones)."""
from . import core
from .core import walk, key, const_val


def _is_carry_expr(e):
    e = core.strip_casts(e)
    if e is None:
        return False
    if e.get("k") == "lazy" and e["op"] == "?:":
        e = e["lz"]
    if e.get("k") == "cond":
        c = core.strip_casts(e["c"])
        return c.get("k") == "bin" and c["op"] in ("<", ">", "<=", ">=") and \
            {const_val(e["x"]), const_val(e["y"])} == {0, 1}
    return e.get("k") == "bin" and e["op"] in ("<", ">", "<=", ">=")


def _events(elem, vid):
    """ordered list of ('r'|'w', rhs) events on variable vid inside one element"""
    out = []
    for n, ps in walk(elem):
        if n.get("k") == "ref" and n.get("id") == vid:
            par = ps[-1] if ps else None
            if par is not None and par.get("k") == "bin" and par["op"] == "=" and core.strip_casts(par["x"]) is n:
                continue            # pure store, handled at the assignment node
            out.append(("r", None))
        elif n.get("k") == "bin" and n["op"] == "=" and core.is_ref(n["x"], id=vid):
            out.append(("w", n["y"]))
        elif n.get("k") == "decl":
            for v in n["vars"]:
                if v["id"] == vid and "init" in v:
                    out.append(("w", v["init"]))
    return out


def check(rep, fn, rule="R-CARRY"):
    n = 0
    unit = fn.unit
    seen = set()
    for bid, idx, e in fn.roots():
        stores = []
        if e.get("k") == "bin" and e["op"] == "=" and core.strip_casts(e["x"]).get("k") == "ref" and \
                core.strip_casts(e["x"]).get("dk") == "local" and _is_carry_expr(e["y"]):
            stores.append((core.strip_casts(e["x"]), e))
        for var, st in stores:
            # a ?: carry lives in a lazy node: the value is in this block's root; fine
            n += 1
            vid = var["id"]
            bad = None
            visited = set()
            stack = [(bid, idx + 1)]
            while stack and bad is None:
                b, i0 = stack.pop()
                blk = fn.blocks[b]
                done = False
                for i in range(i0, len(blk.elems)):
                    evs = _events(blk.elems[i], vid)
                    if not evs:
                        continue
                    kind, rhs = evs[0]
                    if kind == "r":
                        done = True
                        break
                    if const_val(rhs) == 1:
                        done = True
                        break
                    bad = blk.elems[i]
                    done = True
                    break
                if done:
                    continue
                for s in blk.rsucc():
                    if s not in visited:
                        visited.add(s)
                        stack.append((s, 0))
            inst = "%s@%s" % (var["n"], key(st["y"])[:60])
            if inst in seen:
                continue
            seen.add(inst)
            desc = "the carry/borrow stored in '%s' is consumed (or or-ed with 1) before it is overwritten" % var["n"]
            if bad is None:
                rep.proved(rule, fn, inst, desc, "all paths from line %s" % st["ln"], st["ln"])
            else:
                rep.violated(rule, fn, inst, desc, "the carry computed at line %s is overwritten at line %s before being used "
                             "(lost when both partial additions carry)" % (st["ln"], bad.get("ln")), st["ln"])
    return n
