"""R-CARRY: a carry/borrow flag computed by a comparison must not be lost.

Pattern: `v = (x < y)` / `v = (x < y) ? 1 : 0` on an integer local.  Following every
CFG path from that store, the first later event on v must be a read, a store of the
constant 1 ("or" of two mutually exclusive carries), or the function exit.  A store of
any other value before a read discards the computed carry on that path
(multi-limb add/sub chains silently produce wrong sums only when a limb is all-ones)."""
from . import core
from .core import walk, key, const_val


def _is_carry_expr(e):
    e = core.strip_casts(e)
    if e is None:
        return False
    if e.get("k") == "lazy" and e["op"] == "?:":
        e = e["lz"]
    if e.get("k") == "cond":
        c = core.strip_casts(e["c"])
        return c.get("k") == "bin" and c["op"] in ("<", ">", "<=", ">=") and \
            {const_val(e["x"]), const_val(e["y"])} == {0, 1}
    return e.get("k") == "bin" and e["op"] in ("<", ">", "<=", ">=")


def _events(elem, vid):
    """ordered list of ('r'|'w', rhs) events on variable vid inside one element"""
    out = []
    for n, ps in walk(elem):
        if n.get("k") == "ref" and n.get("id") == vid:
            par = ps[-1] if ps else None
            if par is not None and par.get("k") == "bin" and par["op"] == "=" and core.strip_casts(par["x"]) is n:
                continue            # pure store, handled at the assignment node
            out.append(("r", None))
        elif n.get("k") == "bin" and n["op"] == "=" and core.is_ref(n["x"], id=vid):
            out.append(("w", n["y"]))
        elif n.get("k") == "decl":
            for v in n["vars"]:
                if v["id"] == vid and "init" in v:
                    out.append(("w", v["init"]))
    return out


def check(rep, fn, rule="R-CARRY"):
    n = 0
    unit = fn.unit
    seen = set()
    for bid, idx, e in fn.roots():
        stores = []
        if e.get("k") == "bin" and e["op"] == "=" and core.strip_casts(e["x"]).get("k") == "ref" and \
                core.strip_casts(e["x"]).get("dk") == "local" and _is_carry_expr(e["y"]):
            stores.append((core.strip_casts(e["x"]), e))
        for var, st in stores:
            # a ?: carry lives in a lazy node: the value is in this block's root; fine
            n += 1
            vid = var["id"]
            bad = None
            visited = set()
            stack = [(bid, idx + 1)]
            while stack and bad is None:
                b, i0 = stack.pop()
                blk = fn.blocks[b]
                done = False
                for i in range(i0, len(blk.elems)):
                    evs = _events(blk.elems[i], vid)
                    if not evs:
                        continue
                    kind, rhs = evs[0]
                    if kind == "r":
                        done = True
                        break
                    if const_val(rhs) == 1:
                        done = True
                        break
                    bad = blk.elems[i]
                    done = True
                    break
                if done:
                    continue
                for s in blk.rsucc():
                    if s not in visited:
                        visited.add(s)
                        stack.append((s, 0))
            inst = "%s@%s" % (var["n"], key(st["y"])[:60])
            if inst in seen:
                continue
            seen.add(inst)
            desc = "the carry/borrow stored in '%s' is consumed (or or-ed with 1) before it is overwritten" % var["n"]
            if bad is None:
                rep.proved(rule, fn, inst, desc, "all paths from line %s" % st["ln"], st["ln"])
            else:
                rep.violated(rule, fn, inst, desc, "the carry computed at line %s is overwritten at line %s before being used "
                             "(lost when both partial additions carry)" % (st["ln"], bad.get("ln")), st["ln"])
    return n


def _terms(e):
    """addends of a +-chain (casts stripped)"""
    e = core.strip_casts(e)
    if e is not None and e.get("k") == "bin" and e["op"] == "+":
        return _terms(e["x"]) + _terms(e["y"])
    return [e]


def _last_def(fn, pos, var):
    """the assignment `var = E` / `var += E` that reaches position pos inside the same block, or the unique one in a
    dominating block; None when not unique"""
    bid, idx = pos
    elems = fn.blocks[bid].elems
    for i in range(idx - 1, -1, -1):
        for n, _ in walk(elems[i]):
            if n.get("k") == "bin" and n["op"] in ("=", "+=") and key(core.strip_casts(n["x"])) == key(var):
                return n
    cands = []
    for p2, r2, n, _ in fn.nodes():
        if n.get("k") == "bin" and n["op"] in ("=", "+=") and key(core.strip_casts(n["x"])) == key(var):
            cands.append((p2, n))
    cands = [c for c in cands if c[0][0] != bid and fn.dominates(c[0][0], bid)]
    return cands[0][1] if len(cands) == 1 else None


def check_addends(rep, fn, rule="R-CARRY"):
    """`carry = (sum < x)` detects the carry of a *two-term* addition sum = x + y only.  With a third addend (an incoming
    carry folded into the same statement) x + MAX + 1 wraps to exactly x and the carry is missed.  For every unsigned
    wrap test `s < x` / `x > s` whose s was just assigned a +-chain containing x: the chain has two terms."""
    n = 0
    for pos, root, c, ps in fn.nodes():
        if not (c.get("k") == "bin" and c["op"] in ("<", ">")):
            continue
        a, b = core.strip_casts(c["x"]), core.strip_casts(c["y"])
        s_, x_ = (a, b) if c["op"] == "<" else (b, a)
        if s_.get("k") not in ("ref", "sub", "mem", "un") or x_.get("k") not in ("ref", "sub", "mem", "un"):
            continue
        if "t" in s_:
            t = fn.unit.type(s_["t"])
            if t.get("k") != "int" or t.get("sg"):
                continue
        d = _last_def(fn, pos, s_)
        if d is None:
            continue
        terms = _terms(d["y"]) + ([s_] if d["op"] == "+=" else [])
        keys = [key(t_) for t_ in terms if t_ is not None]
        if key(x_) not in keys or len(terms) < 2:
            continue
        n += 1
        inst = "addends:%s<%s#%d" % (key(s_)[:20], key(x_)[:20], n)
        desc = "%s: the wrap test %s %s %s follows an addition of exactly two terms" % (fn.name, key(c["x"])[:30], c["op"], key(c["y"])[:30])
        if len(terms) == 2:
            rep.proved(rule, fn, inst, desc, "%s = %s" % (key(s_), " + ".join(keys)), c.get("ln"))
        else:
            rep.violated(rule, fn, inst, desc, "%s = %s has %d addends: when the other addends sum to 2^W the result equals %s and the "
                         "carry is not seen" % (key(s_), " + ".join(keys), len(terms), key(x_)), c.get("ln"))
    return n
