"""R-KILL: a value stored into a field of a local object is overwritten by a later initialiser call before it is read.

`L.f = E;  ...  init(&L, ...);  ...  use(&L)`  where `init` stores into field f of its first parameter: whatever E carried
(a flag copied from an operand, a length) is lost; the object reaches its use with the initialiser's default.  The store is
reported when
  * E is not a constant (it propagates information),
  * the store dominates the initialiser call (it always executes first),
  * no read of L.f lies between them (dominated by the store and dominating the call), and
  * the object is used after the call (passed by address or read).
Callee summaries (which fields of *p0 a function stores into) are computed from the unit, two levels deep.
"""
from . import core
from .core import walk, key, strip_casts, const_val


def _field_writes(unit, memo, name, depth=0):
    """fields of *param0 that function `name` stores into (directly or through callees that receive param0)"""
    if name in memo:
        return memo[name]
    memo[name] = set()
    fn = unit.fn(name)
    if fn is None or not fn.has_cfg or not fn.params:
        return memo[name]
    p0 = fn.params[0]["n"]
    out = set()
    for pos, root, x, ps in fn.nodes():
        if x.get("k") == "bin" and x["op"] == "=":
            l = strip_casts(x["x"])
            if l.get("k") == "mem" and l.get("arrow") and core.is_ref(strip_casts(l["b"]), name=p0):
                out.add(l["f"])
        if depth < 2 and x.get("k") == "call" and x.get("fn") and x["args"]:
            a0 = strip_casts(x["args"][0])
            if core.is_ref(a0, name=p0):
                out |= _field_writes(unit, memo, x["fn"], depth + 1)
    memo[name] = out
    return out


def check(rep, unit, fns, rule="R-KILL"):
    memo = {}
    n = 0
    for fn in fns:
        if not fn.has_cfg:
            continue
        stores = []
        for pos, root, x, ps in fn.nodes():
            if x.get("k") == "bin" and x["op"] == "=" and const_val(x["y"]) is None:
                l = strip_casts(x["x"])
                if l.get("k") == "mem" and not l.get("arrow"):
                    b = strip_casts(l["b"])
                    if b.get("k") == "ref" and b.get("dk") == "local":
                        stores.append((pos, x, b, l["f"]))
        if not stores:
            continue
        calls = []
        uses = []
        for pos, root, c, ps in fn.calls():
            if not c.get("fn") or not c["args"]:
                continue
            for i, a in enumerate(c["args"]):
                a0 = strip_casts(a)
                if a0.get("k") == "un" and a0.get("op") == "&":
                    t = strip_casts(a0["e"])
                    if t.get("k") == "ref" and t.get("dk") == "local":
                        uses.append((pos, c, t))
                        if i == 0:
                            calls.append((pos, c, t))
        for spos, sx, obj, f in stores:
            n += 1
            rep.functions.add(fn.name)
            what = "%s.%s" % (obj["n"], f)
            inst = "kill:%s@%s" % (what, key(sx["y"])[:30])
            desc = "the value stored in %s (line %s) reaches the uses of %s" % (what, sx.get("ln"), obj["n"])
            killer = None
            for cpos, c, t in calls:
                if t.get("id") != obj.get("id") or cpos == spos or not fn.pos_dominates(spos, cpos):
                    continue
                if f not in _field_writes(unit, memo, c["fn"]):
                    continue
                read_between = False
                for pos, root, x, ps in fn.nodes():
                    if x.get("k") == "mem" and not x.get("arrow") and x.get("f") == f and core.is_ref(strip_casts(x["b"]), id=obj.get("id")):
                        is_lhs = ps and ps[-1].get("k") == "bin" and ps[-1]["op"] == "=" and strip_casts(ps[-1]["x"]) is x
                        if not is_lhs and fn.pos_dominates(spos, pos) and fn.pos_dominates(pos, cpos) and pos != spos:
                            read_between = True
                used_after = any(t2.get("id") == obj.get("id") and p2 != cpos and fn.pos_dominates(cpos, p2) for p2, c2, t2 in uses)
                if not read_between and used_after:
                    killer = c
                    break
            if killer is not None:
                rep.violated(rule, fn, inst, desc, "%s(&%s, ...) at line %s always runs after the store and re-initialises field '%s': "
                             "the value %s is lost before %s is used" % (killer["fn"], obj["n"], killer.get("ln"), f, key(sx["y"])[:40], obj["n"]), sx.get("ln"))
            else:
                rep.proved(rule, fn, inst, desc, "no initialiser of %s runs between the store and the uses" % obj["n"], sx.get("ln"))
    return n
