"""Driver infrastructure: compilation universe, extraction with content-hash
cache, obligation bookkeeping, known findings, evidence and exit protocol."""
import concurrent.futures
import hashlib
import json
import os
import subprocess
import sys
import time

from . import core

VERIF = os.path.dirname(os.path.dirname(os.path.abspath(__file__)))
REPO = os.environ.get("LCB_REPO", "/repo")
CACHE = os.path.join(VERIF, ".cache")
TOOL = os.path.join(VERIF, "build", "lcbfacts")
JOBS = int(os.environ.get("LCB_JOBS", "16"))

BASE_FLAGS = [
    "-DHAVE_ACCEPT4", "-DHAVE_EXPLICIT_BZERO", "-DHAVE_MEMMEM", "-DHAVE_MEMRCHR",
    "-DHAVE_PIPE2", "-DHAVE_POSIX_SPAWN_FILE_ACTIONS_ADDCLOSEFROM_NP",
    "-DHAVE_PTHREAD_SETNAME_NP", "-DHAVE_REALLOCARRAY", "-DHAVE_SOCK_CLOEXEC",
    "-DHAVE_SOCK_NONBLOCK", "-DHAVE_STRNCASECMP", "-DLINUX", "-D_GNU_SOURCE",
    "-D__USE_GNU=1", "-std=gnu11", "-UNDEBUG", "-w",
]

PRELUDE = """#include <sys/param.h>
#include <sys/types.h>
#include <sys/time.h>
#include <sys/socket.h>
#include <netinet/in.h>
#include <inttypes.h>
#include <stdlib.h>
#include <stdio.h>
#include <unistd.h>
#include <string.h>
#include <errno.h>
#include <time.h>
"""


class AnalysisBroken(Exception):
    pass


def flags():
    return BASE_FLAGS + ["-I" + os.path.join(REPO, "include")]


class UnitSpec:
    """One translation unit to analyse.
    kind 'src': a .c file of the repository (relative path)
    kind 'hdr': wrapper including one or more headers after PRELUDE, with defines
    kind 'file': an absolute file (fixtures)
    kind 'text': literal source text (probe units)"""

    def __init__(self, label, kind, what, defines=(), cflags=(), pre_text=""):
        self.label = label
        self.kind = kind
        self.what = what
        self.defines = tuple(defines)
        self.cflags = tuple(cflags)
        self.pre_text = pre_text

    def source(self):
        os.makedirs(os.path.join(CACHE, "units"), exist_ok=True)
        if self.kind == "src":
            return os.path.join(REPO, self.what)
        if self.kind == "file":
            return self.what
        if self.kind == "hdr":
            hs = [self.what] if isinstance(self.what, str) else list(self.what)
            txt = PRELUDE + self.pre_text
            for d in self.defines:
                if "=" in d:
                    n, v = d.split("=", 1)
                    txt += "#define %s %s\n" % (n, v)
                elif d.startswith("!"):
                    txt += "#undef %s\n" % d[1:]
                else:
                    txt += "#define %s 1\n" % d
            for h in hs:
                txt += '#include "%s"\n' % h
        else:
            txt = self.what
        h = hashlib.sha256(txt.encode()).hexdigest()[:16]
        p = os.path.join(CACHE, "units", "u_%s.c" % h)
        if not os.path.exists(p):
            tmp = p + ".%d.tmp" % os.getpid()
            with open(tmp, "w") as f:
                f.write(txt)
            os.replace(tmp, p)
        return p

    def all_flags(self):
        fl = flags() + list(self.cflags)
        if self.kind == "src":
            fl += ["-D" + d for d in self.defines]
        return fl


def _run(cmd, **kw):
    return subprocess.run(cmd, stdout=subprocess.PIPE, stderr=subprocess.PIPE, **kw)


def extract(spec, no_bodies=False):
    """returns path of facts json for spec (cached on preprocessed content)"""
    if not os.path.exists(TOOL):
        raise AnalysisBroken("extractor %s not built (run setup_cmd)" % TOOL)
    src = spec.source()
    fl = spec.all_flags()
    pp = _run(["clang", "-E", "-dD"] + fl + [src])
    if pp.returncode != 0:
        raise AnalysisBroken("unit %s does not preprocess: %s" % (spec.label, pp.stderr.decode()[-600:]))
    h = hashlib.sha256()
    h.update(pp.stdout)
    h.update(" ".join(fl).encode())
    h.update(str(os.path.getmtime(TOOL)).encode())
    h.update(b"nb" if no_bodies else b"b")
    out = os.path.join(CACHE, "facts", h.hexdigest()[:24] + ".json")
    if os.path.exists(out):
        return out
    os.makedirs(os.path.dirname(out), exist_ok=True)
    tmp = out + ".%d.tmp" % os.getpid()
    cmd = [TOOL, "--out=" + tmp, "--prefix=" + REPO + "/"]
    if no_bodies:
        cmd.append("--no-bodies")
    cmd += [src, "--"] + fl
    r = _run(cmd)
    if r.returncode != 0 or not os.path.exists(tmp):
        try:
            os.unlink(tmp)
        except OSError:
            pass
        raise AnalysisBroken("unit %s does not parse: %s" % (spec.label, r.stderr.decode()[-1500:]))
    os.replace(tmp, out)
    return out


def load_units(specs, no_bodies=False):
    """extract in parallel, load sequentially; returns dict label->Unit"""
    res = {}
    with concurrent.futures.ThreadPoolExecutor(max_workers=JOBS) as ex:
        futs = {ex.submit(extract, s, no_bodies): s for s in specs}
        paths = {}
        for f in concurrent.futures.as_completed(futs):
            s = futs[f]
            paths[s.label] = f.result()
    for s in specs:
        u = core.Unit(paths[s.label], s.label)
        if u.errors:
            raise AnalysisBroken("unit %s has compile errors" % s.label)
        res[s.label] = u
    return res


def syntax_only(specs):
    """compile witnesses: returns list of (label, ok, stderr_tail)"""
    def one(s):
        # `-w` would also silence what -Werror=<x> promotes (a vacuous witness): switch everything off by name instead, so
        # that the -Werror=... options of the unit re-enable exactly their diagnostics
        fl = [("-Wno-everything" if f == "-w" else f) for f in s.all_flags() if f != "-w" or True]
        fl = [f for f in fl if f != "-Wno-everything"] + ["-Wno-everything"] + [f for f in s.cflags if f.startswith("-Werror=")]
        r = _run(["clang", "-fsyntax-only"] + fl + [s.source()])
        return s.label, r.returncode == 0, r.stderr.decode()[-800:]
    with concurrent.futures.ThreadPoolExecutor(max_workers=JOBS) as ex:
        return list(ex.map(one, specs))


# ------------------------------------------------------------------ obligations

class Ob:
    """one obligation: rule instance with verdict"""
    __slots__ = ("rule", "file", "fn", "key", "desc", "status", "detail", "ln", "unit")

    def __init__(self, rule, fn, key, desc, status, detail="", ln=None, file=None, unit=None):
        self.rule = rule
        if isinstance(fn, core.Func):
            self.file = file or fn.relfile()
            self.fn = fn.name
            self.unit = unit or fn.unit.label
            self.ln = ln if ln is not None else fn.line
        else:
            self.file = file or ""
            self.fn = fn or ""
            self.unit = unit or ""
            self.ln = ln
        self.key = key
        self.desc = desc
        self.status = status        # proved | violated | undecided
        self.detail = detail

    def ident(self):
        return (self.rule, self.fn, self.key)

    def as_dict(self):
        return {"rule": self.rule, "file": self.file, "line": self.ln, "function": self.fn,
                "instance": self.key, "obligation": self.desc, "result": self.status,
                "detail": self.detail, "unit": self.unit}


class Report:
    def __init__(self, prop, tier):
        self.prop = prop
        self.tier = tier
        self.obs = []
        self.units = []
        self.functions = set()
        self.notes = []
        self.floors = []     # (name, measured, floor)
        self.t0 = time.time()
        self.extra = {}

    def add(self, ob):
        self.obs.append(ob)
        return ob

    def proved(self, rule, fn, key, desc, detail="", ln=None, **kw):
        return self.add(Ob(rule, fn, key, desc, "proved", detail, ln, **kw))

    def violated(self, rule, fn, key, desc, detail="", ln=None, **kw):
        return self.add(Ob(rule, fn, key, desc, "violated", detail, ln, **kw))

    def undecided(self, rule, fn, key, desc, detail="", ln=None, **kw):
        return self.add(Ob(rule, fn, key, desc, "undecided", detail, ln, **kw))

    def floor(self, name, measured, floor):
        self.floors.append((name, measured, floor))

    def note(self, s):
        self.notes.append(s)

    def use_units(self, units):
        for u in units.values():
            self.units.append(u.label)


def load_known():
    p = os.path.join(VERIF, "known_findings.json")
    if not os.path.exists(p):
        return []
    with open(p) as f:
        return json.load(f)["findings"]


def finish(rep, level, explanation, assumptions, trusted_base):
    """dedupe, compare with known findings, write evidence, print verdict, return exit code"""
    prop = rep.prop
    # de-duplicate identical obligations coming from several configurations:
    # violated wins over undecided wins over proved
    rank = {"violated": 2, "undecided": 1, "proved": 0}
    merged = {}
    cfgs = {}
    for o in rep.obs:
        k = o.ident()
        cfgs.setdefault(k, set()).add(o.unit)
        if k not in merged or rank[o.status] > rank[merged[k].status]:
            merged[k] = o
    obs = list(merged.values())
    known = [k for k in load_known() if k["property"] == prop and k.get("status", "known") == "known"]
    kmap = {(k["rule"], k["function"], k["instance"]): k for k in known}
    viol = [o for o in obs if o.status == "violated"]
    listed = [o for o in viol if o.ident() in kmap]
    unlisted = [o for o in viol if o.ident() not in kmap]
    undec = [o for o in obs if o.status == "undecided"]
    proved = [o for o in obs if o.status == "proved"]

    broken = [(n, m, fl) for (n, m, fl) in rep.floors if m < fl]
    ev_dir = os.path.join(VERIF, "evidence")
    os.makedirs(ev_dir, exist_ok=True)
    rp_dir = os.path.join(VERIF, "reports")
    os.makedirs(rp_dir, exist_ok=True)

    if broken and not unlisted:
        for n, m, fl in broken:
            print("ANALYSIS-BROKEN property=%s rule-instance count %s = %d below floor %d" % (prop, n, m, fl))
        return 2
    # a rule lost instances *and* another rule reports a violation in what is left: the violation is real and is
    # reported; the lost instances are noted (they usually are the other face of the same change)
    for n, m, fl in broken:
        print("  note: rule-instance count %s = %d below floor %d" % (n, m, fl))
        rep.notes.append("rule-instance count %s = %d below floor %d" % (n, m, fl))

    for o in listed:
        k = kmap[o.ident()]
        print("KNOWN-FINDING: property=%s %s %s:%s %s -- %s" % (prop, o.rule, o.file, o.fn, o.key, k.get("what", o.desc)))
    replay = None
    if unlisted:
        replay = os.path.join(rp_dir, "%s-violations.json" % prop)
        with open(replay, "w") as f:
            json.dump({"property": prop, "violations": [o.as_dict() for o in unlisted]}, f, indent=1)
        for o in unlisted:
            print("  violated: [%s] %s:%s %s(): %s -- %s %s" % (o.rule, o.file, o.ln, o.fn, o.key, o.desc, o.detail))
        print("VIOLATION property=%s replay=%s" % (prop, replay))

    by_rule = {}
    for o in obs:
        r = by_rule.setdefault(o.rule, {"proved": 0, "violated": 0, "undecided": 0})
        r[o.status] += 1
    samples = []
    seen_rules = set()
    for o in proved + undec + viol:
        if o.rule in seen_rules and len(samples) >= 12:
            continue
        if o.rule in seen_rules and sum(1 for s in samples if s["rule"] == o.rule) >= 2:
            continue
        seen_rules.add(o.rule)
        samples.append(o.as_dict())
    n_obl = len(proved) + len(viol)  # undecided obligations are not part of the claim
    cov = {
        "obligations": n_obl,
        "discharged": len(proved) + len(listed),
        "undecided": len(undec),
        "evaluations": len(rep.obs),
        "distinct_nontrivial": len(obs),
        "rule": "one obligation per (rule, function, instance) found by walking every function of the listed units; "
                "distinct = distinct (rule,function,instance) triples after merging configurations",
        "checker_cmd": "./check %s --tier %s" % (prop, rep.tier),
        "trusted_base": trusted_base,
        "explanation": explanation,
        "units": rep.units,
        "functions_analysed": len(rep.functions),
        "per_rule": by_rule,
        "floors": [{"name": n, "measured": m, "floor": fl} for (n, m, fl) in rep.floors],
        "samples": samples,
        "undecided_list": [o.as_dict() for o in undec][:200],
        "known_findings_seen": [o.as_dict() for o in listed],
        "unlisted_violations": [o.as_dict() for o in unlisted],
        "notes": rep.notes,
        "exhaustive": True,
    }
    cov.update(rep.extra)
    ev = {
        "property_id": prop,
        "tier": rep.tier,
        "seed": int(os.environ.get("VERIF_SEED", "0") or 0),
        "level": level,
        "coverage": cov,
        "assumptions": assumptions,
        "wall_s": round(time.time() - rep.t0, 3),
        "violations": len(unlisted),
    }
    with open(os.path.join(ev_dir, "%s.json" % prop), "w") as f:
        json.dump(ev, f, indent=1)
    print("%s tier=%s units=%d functions=%d obligations=%d proved=%d known=%d undecided=%d violated=%d wall=%.1fs" % (
        prop, rep.tier, len(rep.units), len(rep.functions), n_obl, len(proved), len(listed), len(undec),
        len(unlisted), time.time() - rep.t0))
    return 1 if unlisted else 0


def compile_witnesses(items):
    """build (not run) witnesses: items = [(label, argv head e.g. ['gcc', '-O2', '-msha'], source text)].  The object is
    discarded.  Returns [(label, ok, stderr tail)]."""
    os.makedirs(os.path.join(CACHE, "units"), exist_ok=True)

    paths = {}
    for label, head, txt in items:               # written before the pool starts: several items share one text
        h = hashlib.sha256(txt.encode()).hexdigest()[:16]
        p = os.path.join(CACHE, "units", "w_%s.c" % h)
        if not os.path.exists(p):
            tmp = p + ".%d.tmp" % os.getpid()
            with open(tmp, "w") as f:
                f.write(txt)
            os.replace(tmp, p)
        paths[label] = p

    def one(it):
        label, head, txt = it
        p = paths[label]
        r = _run(head + flags() + ["-c", "-o", "/dev/null", p])
        err = [l for l in r.stderr.decode().splitlines() if "error" in l]
        return label, r.returncode == 0, (err[0] if err else r.stderr.decode()[-300:])
    with concurrent.futures.ThreadPoolExecutor(max_workers=JOBS) as ex:
        return list(ex.map(one, items))
