"""R-PATH: bounded enumeration of acyclic CFG paths with per-path event summaries."""
from . import core, r_mpt
from .core import walk, key, const_val


class TooMany(Exception):
    pass


def enum_paths(fn, start, stop_blocks=(), max_paths=4096):
    """acyclic paths from block `start` to the function exit or to a block in stop_blocks.
    A path is a list of (block_id, succ_index|None).  The final entry has succ_index None."""
    stop = set(stop_blocks)
    out = []
    path = []
    onpath = set()

    def rec(b, first=False):
        if len(out) > max_paths:
            raise TooMany()
        if (b in stop and not first) or b == fn.exit:
            out.append(path + [(b, None)])
            return
        if b in onpath:
            return      # cycle: not an acyclic path
        blk = fn.blocks[b]
        succ = blk.succ
        if not blk.rsucc():
            out.append(path + [(b, None)])
            return
        onpath.add(b)
        for i, s in enumerate(succ):
            if s is None:
                continue
            path.append((b, i))
            rec(s)
            path.pop()
        onpath.discard(b)
    rec(start, True)
    return out


def events(fn, path):
    """yield ('elem', pos, elem) and ('branch', block, cond, truth) along a path.
    truth: True/False for two-way branches, ('case', value|None) for switches."""
    for (b, si) in path:
        blk = fn.blocks[b]
        if si is None and (b == fn.exit):
            continue
        for i, e in enumerate(blk.elems):
            yield ("elem", (b, i), e)
        if si is not None and blk.cond is not None:
            if blk.term["k"] == "SwitchStmt":
                lab = fn.blocks[blk.succ[si]].label or {}
                yield ("branch", b, blk.cond, ("case", lab.get("case")))
            elif len(blk.succ) == 2:
                yield ("branch", b, blk.cond, si == 0)


def flag_test(cond, truth, flag_values):
    """if cond tests (FLAG & x) for a FLAG in flag_values (dict name->value), return (name, is_set) else None"""
    for n, ps in walk(cond):
        if n.get("k") == "bin" and n["op"] == "&":
            for a, b in ((n["x"], n["y"]), (n["y"], n["x"])):
                v = const_val(a)
                if v is not None and const_val(b) is None:
                    for name, fv in flag_values.items():
                        if v == fv:
                            try:
                                r = r_mpt.eval_expr(cond, {id(n): fv})
                            except r_mpt.Unknown:
                                return None
                            return name, bool(r) == bool(truth)
    return None


def ret_class(e):
    """classify a returned expression"""
    if e is None:
        return "void"
    v = const_val(e)
    m = core.macros(core.strip_imp(e))
    if m and m[0].startswith("E") and m[0].isupper():
        return m[0]
    if v is not None:
        return "0" if v == 0 else str(v)
    k = key(e)
    if "errno" in k or "__errno_location" in k:
        return "errno"
    return "expr:" + k
