"""Single-expression range facts from dominating guards (R-DIV, R-SHIFT, table index).

Method: *candidate evaluation*.  For a tracked expression v (by normalised
key) and a program site, every branch that (a) mentions v in its condition and
(b) lies on every path to the site (dominates it) is evaluated with v bound to
each candidate value (constants compared against v, +-1, 0, type maximum).
A value is *feasible* when, for every such branch, the edge taken can reach the
site (conditions with other unknown sub-terms are treated as passable).
Soundness conditions checked: v is not written between the branch and the site.
"""
from . import core, r_mpt
from .core import walk, key, const_val


def direct_writes_of(elem):
    """variable ids that are themselves assigned / incremented (not objects reached through them)"""
    out = set()
    for n, parents in walk(elem):
        k = n.get("k")
        if k == "bin" and (n["op"] == "=" or (n["op"].endswith("=") and n["op"] not in ("==", "!=", "<=", ">="))):
            r = core.strip_casts(n["x"])
            if r is not None and r.get("k") == "ref":
                out.add(r["id"])
        elif k == "un" and n["op"] in ("post++", "post--", "pre++", "pre--"):
            r = core.strip_casts(n["e"])
            if r is not None and r.get("k") == "ref":
                out.add(r["id"])
        elif k == "call":
            for a in n["args"]:
                a0 = core.strip_casts(a)
                if a0.get("k") == "un" and a0["op"] == "&" and core.strip_casts(a0["e"]).get("k") == "ref":
                    out.add(core.strip_casts(a0["e"])["id"])
        elif k == "decl":
            for v in n["vars"]:
                out.add(v["id"])
    return out


def writes_of(elem):
    """variable ids written by an element (assignment, ++/--, compound assignment, &x passed to a call)"""
    out = set()
    for n, parents in walk(elem):
        k = n.get("k")
        if k == "bin" and (n["op"] == "=" or (n["op"].endswith("=") and n["op"] not in ("==", "!=", "<=", ">="))):
            r = core.base_ref(n["x"])
            if r is not None:
                out.add(r["id"])
        elif k == "un" and n["op"] in ("post++", "post--", "pre++", "pre--"):
            r = core.base_ref(n["e"])
            if r is not None:
                out.add(r["id"])
        elif k == "call":
            for a in n["args"]:
                a0 = core.strip_casts(a)
                if a0.get("k") == "un" and a0["op"] == "&":
                    r = core.base_ref(a0["e"])
                    if r is not None:
                        out.add(r["id"])
        elif k == "decl":
            for v in n["vars"]:
                out.add(v["id"])
    return out


def written_between(fn, branch_block, succ, site, var_ids, direct_only=False):
    """is any var written on a path from succ (after the branch) to the site that does
    not pass through the branch block again?"""
    sb, si = site
    fwd = fn.reach_from([succ], avoid=[branch_block])
    if sb not in fwd:
        return False
    back = set()
    st = [sb]
    while st:
        b = st.pop()
        if b in back:
            continue
        back.add(b)
        st.extend(p for p in fn.blocks[b].preds if p in fwd)
    between = fwd & back
    # is the site block on a cycle that avoids the branch block?
    cyc = sb in fn.reach_from([x for x in fn.blocks[sb].rsucc() if x in fwd], avoid=[branch_block])
    for b in between:
        elems = fn.blocks[b].elems
        lim = len(elems) if (b != sb or cyc) else si
        for e in elems[:lim]:
            if (direct_writes_of(e) if direct_only else writes_of(e)) & var_ids:
                return True
    return False


def _in_loop_with(fn, b):
    for h, body in fn.loops().items():
        if b in body:
            return True
    return False


def guards_for(fn, site, vkey):
    """branches dominating the site whose condition contains a node with key vkey:
    yields (block, cond, atom)"""
    sb, si = site
    for bid in fn.reachable_blocks():
        blk = fn.blocks[bid]
        c = blk.cond
        if c is None or len(blk.succ) != 2:
            continue
        if bid == sb:
            continue
        if not fn.dominates(bid, sb):
            continue
        atom = None
        for n, ps in walk(c):
            if n.get("k") in ("ref", "mem", "sub", "un", "bin", "call") and key(n) == vkey:
                atom = n
                break
        if atom is not None:
            yield bid, c, atom


def candidates(fn, site, vkey, width=64):
    cs = {0, 1, (1 << width) - 1}
    for bid, c, atom in guards_for(fn, site, vkey):
        for n, ps in walk(c):
            v = const_val(n)
            if v is not None and n is not atom:
                for d in (-1, 0, 1):
                    if 0 <= v + d < (1 << width):
                        cs.add(v + d)
    return sorted(cs)


def feasible_values(fn, site, vnode, width=64):
    """returns (list of feasible candidate values, list of all candidates, sound flag)"""
    vkey = key(vnode)
    vids = core.ref_ids(vnode)
    cs = candidates(fn, site, vkey, width)
    gs = list(guards_for(fn, site, vkey))
    sound = True
    feas = []
    for val in cs:
        ok = True
        for bid, c, atom in gs:
            s, known = r_mpt.edge_for_value(fn, bid, c, atom, val)
            if not known:
                continue     # other unknown terms: passable
            if s is None or site[0] not in fn.reach_from([s], avoid=[bid]):
                ok = False
                break
        if ok:
            feas.append(val)
    for bid, c, atom in gs:
        for s in fn.blocks[bid].rsucc():
            if written_between(fn, bid, s, site, vids):
                sound = False
    return feas, cs, sound


def upper_bound(fn, site, vnode, width=64):
    """largest feasible value if the type maximum is infeasible, else None; also sound flag"""
    feas, cs, sound = feasible_values(fn, site, vnode, width)
    tmax = (1 << width) - 1
    if tmax in feas or not feas:
        return None, sound
    return max(feas), sound


def excludes_zero(fn, site, vnode, zero_value=0, width=64):
    """True if value zero_value of vnode cannot reach the site (and v not rewritten in between)"""
    vkey = key(vnode)
    vids = core.ref_ids(vnode)
    for bid, c, atom in guards_for(fn, site, vkey):
        s, known = r_mpt.edge_for_value(fn, bid, c, atom, zero_value)
        if not known:
            continue
        if s is None or site[0] not in fn.reach_from([s], avoid=[bid]):
            # the excluding edge found; check no rewrite after the branch on the passing side
            other = [x for x in fn.blocks[bid].rsucc() if x != s]
            if any(written_between(fn, bid, o, site, vids) for o in other):
                continue
            return True, "branch at line %s excludes it" % c.get("ln")
    # loop-condition form: while (0 != b) { ... a % b ... }  (site inside the loop body, cond block is header)
    return False, ""
