"""R-TBAA: type-based alias (strict aliasing) rule.

C11 6.5p7: an object with a declared type may be accessed only through an lvalue of a compatible type (modulo
signedness and qualifiers), a character type, or - as a compiler extension that gcc and clang both honour - a type
carrying __attribute__((may_alias)).  Compilers at -O2 and above reorder or drop accesses that break this rule
(observed: gcc 12 -O2 returned the ChaCha state instead of the key stream).

The rule reports every dereference `((T2 *)E)[i]` / `*((T2 *)E)` where
  * E, with casts and array decay removed, designates a *declared* object (a local or global variable, an array, or a
    struct member) of non-character type T1 - so the effective type is known -, and
  * T2 is neither character-sized, nor compatible with T1, nor may_alias, nor a SIMD vector type (gcc declares those
    may_alias, clang gives them the character TBAA node).
Pointers whose target is not visible (parameters such as `const uint8_t *src`) are not reported: the effective type of
what they point to is unknown to a per-function rule.
"""
from . import core
from .core import walk, key, strip_casts


def _strip_all(e):
    """remove every cast (explicit, implicit, via void* / via integers)"""
    while e is not None and e.get("k") == "cast":
        e = e["e"]
    return e


def _elem_type(u, tid):
    t = u.type(tid)
    while t["k"] in ("arr",):
        t = u.type(t["to"])
    return t


def _declared_object(u, e):
    """(element type, description) if e designates a declared object / array / member, else None"""
    e = _strip_all(e)
    if e is None:
        return None
    k = e.get("k")
    if k == "un" and e.get("op") == "&":
        inner = _strip_all(e["e"])
        if inner is not None and inner.get("k") in ("ref", "mem", "sub") and "t" in inner:
            return _elem_type(u, inner["t"]), key(inner)
        return None
    if k in ("ref", "mem") and "t" in e:
        t = u.type(e["t"])
        if t["k"] == "arr":
            return _elem_type(u, e["t"]), key(e)
        return None            # a pointer variable: target unknown
    if k == "bin" and e.get("op") in ("+", "-"):
        return _declared_object(u, e["x"]) or _declared_object(u, e["y"])
    return None


def _compatible(t1, t2):
    if t1["k"] != t2["k"]:
        return False
    if t1["k"] == "int":
        return t1.get("w") == t2.get("w")
    if t1["k"] == "rec":
        return t1.get("rec") == t2.get("rec")
    return t1.get("c") == t2.get("c")


def check(rep, unit, fns, rule="R-TBAA"):
    n = 0
    for fn in fns:
        if not fn.has_cfg:
            continue
        per = {}
        seen = set()
        for pos, root, x, ps in fn.nodes():
            base = None
            if x.get("k") == "sub":
                base = x["b"]
            elif x.get("k") == "un" and x.get("op") == "*":
                base = x["e"]
            if base is None or "t" not in base:
                continue
            bt = unit.type(base["t"])
            if bt["k"] != "ptr":
                continue
            # the access type: pointee of the (cast) pointer as written
            t2 = unit.type(bt["to"])
            # is there a cast at all?
            if strip_casts(base) is base and base.get("k") != "cast":
                continue
            obj = _declared_object(unit, base)
            if obj is None:
                continue
            t1, what = obj
            if t2.get("size") == 1 or t2["k"] == "void":
                continue
            if "vector_size" in (t2.get("c") or ""):
                # SIMD vector types: gcc's headers declare them may_alias and clang gives them the character TBAA
                # node ("handle any other kind of type conservatively"), so both compilers treat them as aliasing all
                continue
            sig = (what, t1.get("c"), t2.get("s"))
            if sig in seen:
                continue
            seen.add(sig)
            n += 1
            rep.functions.add(fn.name)
            per[what] = per.get(what, 0) + 1
            inst = "alias:%s as %s" % (what, t2.get("s")) + ("" if per[what] == 1 else "#%d" % per[what])
            desc = "%s (declared %s) is accessed only through compatible, character or may_alias lvalues" % (what, t1.get("s"))
            if _compatible(t1, t2):
                rep.proved(rule, fn, inst, desc, "accessed as %s: compatible" % t2.get("s"), x.get("ln"))
            elif t2.get("ma"):
                rep.proved(rule, fn, inst, desc, "accessed as %s, which carries __attribute__((may_alias))" % t2.get("s"), x.get("ln"))
            else:
                rep.violated(rule, fn, inst, desc, "accessed through an lvalue of type %s (%d bytes): not compatible with %s, not a character "
                             "type and not may_alias - the compiler may assume the two never alias (strict aliasing)" % (
                                 t2.get("s"), t2.get("size") or 0, t1.get("s")), x.get("ln"))
    return n


def check_record_casts(rep, u, fns, rule="R-TBAA"):
    """A pointer whose declared target is record T, cast to a pointer to an unrelated record U and used to read or write a
    member (`((U *)p)->f`): the bytes of a T are interpreted as a U.  Related means: same record, U is the type of T's
    first member (or the reverse - the container idiom), or one of them is a character/void pointer.  Returns the number
    of cast member accesses classified."""
    n = 0

    def rec_of(tid):
        t = u.type(tid)
        if t["k"] != "ptr":
            return None
        to = u.type(t["to"])
        if to["k"] != "rec":
            return None
        name = (to.get("c") or "").replace("const ", "").replace("volatile ", "").replace("struct ", "").replace("union ", "").strip()
        return name

    def first_member_rec(name):
        r = u.records.get(name)
        if not r or not r["fields"]:
            return None
        t = u.type(r["fields"][0]["t"])
        if t["k"] == "rec":
            return (t.get("c") or "").replace("struct ", "").replace("union ", "").strip()
        return None
    for fn in fns:
        if not fn.has_cfg:
            continue
        per = 0
        for pos, root, x, ps in fn.nodes():
            if not (x.get("k") == "mem" and x.get("arrow")):
                continue
            b = x["b"]
            # the outermost explicit cast directly under the member access
            while b is not None and b.get("k") == "cast" and b.get("imp"):
                b = b["e"]
            if b is None or b.get("k") != "cast" or "t" not in b:
                continue
            dst = rec_of(b["t"])
            src_e = _strip_all(b)
            if dst is None or src_e is None or src_e.get("k") != "ref" or "t" not in src_e:
                continue
            src = rec_of(src_e["t"])
            if src is None:
                continue
            per += 1
            n += 1
            inst = "record-cast:%s->%s#%d" % (src, dst, per)
            desc = "%s: '%s' (a pointer to %s) is read as a %s only if the two records are related" % (fn.name, src_e.get("n"), src, dst)
            ok = src == dst or first_member_rec(src) == dst or first_member_rec(dst) == src
            # POSIX: the sockaddr_* records share their initial family member and sockaddr_storage exists to be cast to them
            if src.startswith("sockaddr") and dst.startswith("sockaddr"):
                rep.proved(rule, fn, inst, desc, "sockaddr family (POSIX: mutually castable, tagged by the family member)", x.get("ln"))
                continue
            if ok:
                rep.proved(rule, fn, inst, desc, "same record or first-member container", x.get("ln"))
            else:
                rep.violated(rule, fn, inst, desc, "((%s *)%s)->%s at line %s reads offset %d of a %s: unrelated records (probably a member of '%s' "
                             "was meant)" % (dst, src_e.get("n"), x.get("f"), x.get("ln"), x.get("off", 0) // 8, src, src_e.get("n")), x.get("ln"))
    return n


def check_byte_param_casts(rep, unit, fns, rule="R-TBAA"):
    """A byte pointer parameter (uint8_t* / void*: the caller's buffer, whose effective type the function cannot know) that
    is cast to a pointer to a wider integer type which does not carry may_alias: every access through the result - in this
    function or in a callee it is handed to - breaks C11 6.5p7 whenever the caller's object is not of that very type
    (gcc -O2 then keeps the caller's copy in a register: an in-place block encryption returns its plaintext).
    Returns the number of such casts classified."""
    n = 0
    for fn in fns:
        if not fn.has_cfg:
            continue
        pids = {p["id"] for p in fn.params}
        seen = set()
        for pos, root, x, ps in fn.nodes():
            if x.get("k") != "cast" or x.get("imp") or "t" not in x:
                continue
            t = unit.type(x["t"])
            if t["k"] != "ptr":
                continue
            to = unit.type(t["to"])
            if to["k"] != "int" or (to.get("size") or 1) <= 1:
                continue
            if ps and ps[-1].get("k") == "cast" and not ps[-1].get("imp"):
                continue                    # an inner cast of a chain: the outermost decides
            src = x["e"]
            while src.get("k") == "cast":
                src = src["e"]
            st = unit.type(src["t"]) if "t" in src else None
            if st is None or st["k"] != "ptr":
                continue
            sto = unit.type(st["to"])
            if not (sto["k"] == "void" or (sto["k"] == "int" and (sto.get("size") or 1) == 1)):
                continue
            ids = core.ref_ids(src) & pids
            if not ids:
                continue
            pname = next(p["n"] for p in fn.params if p["id"] in ids)
            sig = (pname, to.get("s"))
            if sig in seen:
                continue
            seen.add(sig)
            n += 1
            rep.functions.add(fn.name)
            inst = "byte-param-as:%s:%s" % (pname, to.get("s"))
            desc = "%s: the caller's buffer '%s' is accessed as %s only through a may_alias type" % (fn.name, pname, to.get("s"))
            if to.get("ma"):
                rep.proved(rule, fn, inst, desc, "may_alias", x.get("ln"))
            else:
                rep.violated(rule, fn, inst, desc, "cast to plain %s * at line %s: when the caller's block is a uint64_t, a struct or an array of another "
                             "type, gcc -O2 may keep using its own copy (in-place encryption returns the plaintext)" % (to.get("s"), x.get("ln")), x.get("ln"))
    return n



def check_alias_dropped(rep, unit, fns, rule="R-TBAA"):
    """a pointer to a may_alias word (made from the caller's bytes) handed to a parameter declared as pointer to the plain
    type: the callee's accesses are ordinary typed accesses again, the attribute is lost at the call"""
    n = 0
    for fn in fns:
        if not fn.has_cfg:
            continue
        for pos, root, c, ps in fn.calls():
            callee = unit.fn(c.get("fn")) if c.get("fn") else None
            if callee is None:
                continue
            for i, a in enumerate(c["args"]):
                if i >= len(callee.params):
                    break
                a0 = core.strip_imp(a)
                if "t" not in a0:
                    continue
                ta = unit.type(a0["t"])
                tp_ = unit.type(callee.params[i]["t"])
                if ta["k"] != "ptr" or tp_["k"] != "ptr":
                    continue
                ea, ep = unit.type(ta["to"]), unit.type(tp_["to"])
                if ea["k"] == "int" and ep["k"] == "int" and ea.get("ma") and (ea.get("size") or 1) > 1:
                    n += 1
                    rep.functions.add(fn.name)
                    desc = "%s: the may_alias word pointer passed to %s() keeps the attribute in the parameter type" % (fn.name, callee.name)
                    if ep.get("ma"):
                        rep.proved(rule, fn, "alias-kept:%s#%d" % (callee.name, i), desc, "", c.get("ln"))
                    else:
                        rep.violated(rule, fn, "alias-kept:%s#%d" % (callee.name, i), desc, "parameter %d of %s is a plain %s *: the stores through it are not seen as "
                                     "modifying the caller's object (gcc -O2, in-place encryption of a uint64_t block)" % (i, callee.name, ep.get("s")), c.get("ln"))
    return n
