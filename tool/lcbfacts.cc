// lcbfacts: generic fact extractor for the liblcb static-analysis checks.
//
// Emits, for one translation unit, a JSON file with:
//   * types table (spelling, canonical spelling, kind, width, signedness, pointee)
//   * functions defined under the accepted path prefixes (or in the main file):
//     parameters, per-function clang CFG reduced to "root" elements per block,
//     each element as a typed expression tree (resolved callees, members,
//     subscripts, operators, casts, folded integer constants, macro chains)
//   * global / static-local variables with evaluated initialisers
//   * record layouts, enum constants
// No property logic lives here; all rules are in python (rules/*.py).
//
// Usage: lcbfacts --out=FILE [--prefix=/repo ...] unit.c -- <compile flags>

#include "clang/AST/ASTConsumer.h"
#include "clang/AST/ASTContext.h"
#include "clang/AST/ParentMap.h"
#include "clang/AST/RecordLayout.h"
#include "clang/AST/RecursiveASTVisitor.h"
#include "clang/Analysis/CFG.h"
#include "clang/Frontend/CompilerInstance.h"
#include "clang/Frontend/FrontendAction.h"
#include "clang/Lex/Lexer.h"
#include "clang/Tooling/CommonOptionsParser.h"
#include "clang/Tooling/Tooling.h"
#include "llvm/ADT/DenseMap.h"
#include "llvm/ADT/DenseSet.h"
#include "llvm/Support/CommandLine.h"
#include "llvm/Support/JSON.h"
#include "llvm/Support/raw_ostream.h"

#include <map>
#include <string>
#include <vector>

using namespace clang;
using namespace clang::tooling;
namespace json = llvm::json;

static llvm::cl::OptionCategory Cat("lcbfacts options");
static llvm::cl::opt<std::string> OutFile("out", llvm::cl::desc("output json"),
                                          llvm::cl::cat(Cat), llvm::cl::Required);
static llvm::cl::list<std::string> Prefixes("prefix", llvm::cl::desc("accepted path prefix"),
                                            llvm::cl::cat(Cat));
static llvm::cl::opt<bool> NoBodies("no-bodies", llvm::cl::desc("emit only signatures/tables"),
                                    llvm::cl::cat(Cat));

namespace {

class Emitter {
public:
  ASTContext &Ctx;
  SourceManager &SM;
  json::OStream &J;
  llvm::DenseMap<const Decl *, unsigned> DeclIds;
  std::map<std::string, unsigned> TypeIds;
  std::vector<QualType> TypeList;
  const llvm::DenseSet<const Stmt *> *OtherBlockElems = nullptr; // elements owned by CFG blocks
  std::vector<const RecordDecl *> UsedRecs; // records named by member expressions (system headers included)
  llvm::DenseSet<const RecordDecl *> UsedRecSet;

  Emitter(ASTContext &C, json::OStream &J) : Ctx(C), SM(C.getSourceManager()), J(J) {}

  unsigned declId(const Decl *D) {
    D = D->getCanonicalDecl();
    auto It = DeclIds.find(D);
    if (It != DeclIds.end())
      return It->second;
    unsigned Id = DeclIds.size() + 1;
    DeclIds[D] = Id;
    return Id;
  }

  unsigned typeId(QualType T) {
    std::string S = T.getAsString();
    std::string C = T.getCanonicalType().getAsString();
    std::string Key = S + "|" + C;
    auto It = TypeIds.find(Key);
    if (It != TypeIds.end())
      return It->second;
    unsigned Id = TypeList.size();
    TypeIds[Key] = Id;
    TypeList.push_back(T);
    // make sure pointee / element types are registered too
    QualType CT = T.getCanonicalType();
    if (CT->isPointerType())
      typeId(T->getPointeeType());
    else if (const auto *AT = Ctx.getAsArrayType(T))
      typeId(AT->getElementType());
    return Id;
  }

  std::string fileOf(SourceLocation L) {
    L = SM.getExpansionLoc(L);
    return SM.getFilename(L).str();
  }
  unsigned lineOf(SourceLocation L) { return SM.getExpansionLineNumber(L); }
  unsigned colOf(SourceLocation L) { return SM.getExpansionColumnNumber(L); }

  std::vector<std::string> macroChain(SourceLocation L) {
    std::vector<std::string> R;
    unsigned Guard = 0;
    while (L.isMacroID() && Guard++ < 32) {
      StringRef N = Lexer::getImmediateMacroName(L, SM, Ctx.getLangOpts());
      if (!N.empty() && (R.empty() || R.back() != N))
        R.push_back(N.str());
      L = SM.getImmediateMacroCallerLoc(L);
    }
    return R;
  }

  void emitAPInt(const llvm::APSInt &V) {
    if (V.isSigned() ? V.isSignedIntN(63) : V.isIntN(63))
      J.value(V.getExtValue());
    else {
      llvm::SmallString<40> S;
      V.toString(S, 10);
      J.value(S.str());
    }
  }

  void emitMacro(SourceLocation L, const std::vector<std::string> *Parent,
                 std::vector<std::string> &Mine) {
    Mine = macroChain(L);
    if (Mine.empty())
      return;
    if (Parent && *Parent == Mine)
      return;
    J.attributeArray("m", [&] {
      for (auto &S : Mine)
        J.value(S);
    });
  }

  static const Expr *strip(const Expr *E) {
    while (true) {
      if (const auto *P = dyn_cast<ParenExpr>(E)) {
        E = P->getSubExpr();
        continue;
      }
      if (const auto *IC = dyn_cast<ImplicitCastExpr>(E)) {
        switch (IC->getCastKind()) {
        case CK_IntegralCast:
        case CK_IntegralToBoolean:
        case CK_IntegralToPointer:
        case CK_PointerToIntegral:
        case CK_BitCast:
        case CK_IntegralToFloating:
        case CK_FloatingToIntegral:
          return E;
        default:
          E = IC->getSubExpr();
          continue;
        }
      }
      if (const auto *CE = dyn_cast<ConstantExpr>(E)) {
        E = CE->getSubExpr();
        continue;
      }
      return E;
    }
  }

  void emitStmt(const Stmt *S, const std::vector<std::string> *PM, bool Root) {
    if (!S) {
      J.value(nullptr);
      return;
    }
    if (const auto *E = dyn_cast<Expr>(S)) {
      emitExpr(E, PM, Root);
      return;
    }
    J.object([&] {
      std::vector<std::string> Mine;
      if (const auto *DS = dyn_cast<DeclStmt>(S)) {
        J.attribute("k", "decl");
        J.attribute("ln", lineOf(S->getBeginLoc()));
        emitMacro(S->getBeginLoc(), PM, Mine);
        J.attributeArray("vars", [&] {
          for (const Decl *D : DS->decls()) {
            const auto *VD = dyn_cast<VarDecl>(D);
            if (!VD)
              continue;
            J.object([&] {
              J.attribute("n", VD->getName());
              J.attribute("id", declId(VD));
              J.attribute("t", typeId(VD->getType()));
              if (VD->isStaticLocal())
                J.attribute("static", true);
              if (VD->hasInit() && !VD->isStaticLocal()) {
                J.attributeBegin("init");
                emitStmt(VD->getInit(), &Mine, false);
                J.attributeEnd();
              }
            });
          }
        });
        return;
      }
      if (const auto *RS = dyn_cast<ReturnStmt>(S)) {
        J.attribute("k", "ret");
        J.attribute("ln", lineOf(S->getBeginLoc()));
        emitMacro(S->getBeginLoc(), PM, Mine);
        if (RS->getRetValue()) {
          J.attributeBegin("e");
          emitStmt(RS->getRetValue(), &Mine, false);
          J.attributeEnd();
        }
        return;
      }
      if (isa<GCCAsmStmt>(S)) {
        J.attribute("k", "asm");
        J.attribute("ln", lineOf(S->getBeginLoc()));
        return;
      }
      J.attribute("k", "other");
      J.attribute("cls", S->getStmtClassName());
      J.attribute("ln", lineOf(S->getBeginLoc()));
    });
  }

  void emitExpr(const Expr *E0, const std::vector<std::string> *PM, bool Root) {
    const Expr *E = strip(E0);
    J.object([&] {
      std::vector<std::string> Mine;
      J.attribute("t", typeId(E->getType()));
      J.attribute("ln", lineOf(E->getExprLoc()));
      if (Root)
        J.attribute("col", colOf(E->getExprLoc()));
      emitMacro(E->getExprLoc(), PM, Mine);
      const std::vector<std::string> *MP = Mine.empty() ? PM : &Mine;
      if (Mine.empty() && PM && !PM->empty() && !E->getExprLoc().isMacroID()) {
        // left the macro: children must re-emit their own chains
        J.attributeArray("m", [&] {});
        MP = &Mine;
      }

      // folded integer value
      bool IsLit = isa<IntegerLiteral>(E) || isa<CharacterLiteral>(E);
      if (!IsLit && E->isPRValue() && !E->isValueDependent() &&
          E->getType()->isIntegralOrEnumerationType()) {
        Expr::EvalResult R;
        if (E->EvaluateAsInt(R, Ctx, Expr::SE_NoSideEffects)) {
          J.attributeBegin("cv");
          emitAPInt(R.Val.getInt());
          J.attributeEnd();
        }
      }

      // sub-expressions evaluated in other CFG blocks (short-circuit operands)
      if (!Root && OtherBlockElems) {
        bool Lazy = false;
        const char *Op = "";
        if (const auto *BO = dyn_cast<BinaryOperator>(E)) {
          if (BO->isLogicalOp()) {
            Lazy = true;
            Op = BO->getOpcode() == BO_LAnd ? "&&" : "||";
          }
        } else if (isa<AbstractConditionalOperator>(E)) {
          Lazy = true;
          Op = "?:";
        }
        if (Lazy) {
          J.attribute("k", "lazy");
          J.attribute("op", Op);
          // full operator tree for structural (non-dataflow) rules; walkers skip "lz"
          J.attributeBegin("lz");
          emitLazyBody(E, MP);
          J.attributeEnd();
          return;
        }
      }

      if (const auto *IL = dyn_cast<IntegerLiteral>(E)) {
        J.attribute("k", "int");
        J.attributeBegin("v");
        emitAPInt(llvm::APSInt(IL->getValue(), !IL->getType()->isSignedIntegerType()));
        J.attributeEnd();
        return;
      }
      if (const auto *CL = dyn_cast<CharacterLiteral>(E)) {
        J.attribute("k", "int");
        J.attribute("v", (int64_t)CL->getValue());
        J.attribute("ch", true);
        return;
      }
      if (const auto *SL = dyn_cast<StringLiteral>(E)) {
        J.attribute("k", "str");
        J.attribute("len", (int64_t)SL->getByteLength());
        if (SL->getCharByteWidth() == 1) {
          // hex-escape to stay valid UTF-8
          std::string V;
          bool Plain = true;
          for (unsigned char C : SL->getBytes())
            if (C < 0x20 || C > 0x7e)
              Plain = false;
          if (Plain)
            J.attribute("v", SL->getBytes());
          else {
            static const char *H = "0123456789abcdef";
            for (unsigned char C : SL->getBytes()) {
              V.push_back(H[C >> 4]);
              V.push_back(H[C & 15]);
            }
            J.attribute("hex", V);
          }
        }
        return;
      }
      if (const auto *DR = dyn_cast<DeclRefExpr>(E)) {
        const ValueDecl *D = DR->getDecl();
        J.attribute("k", "ref");
        J.attribute("n", D->getName());
        J.attribute("id", declId(D));
        const char *DK = "other";
        if (isa<ParmVarDecl>(D))
          DK = "parm";
        else if (const auto *VD = dyn_cast<VarDecl>(D))
          DK = VD->isStaticLocal() ? "slocal" : (VD->hasGlobalStorage() ? "global" : "local");
        else if (isa<FunctionDecl>(D))
          DK = "fn";
        else if (isa<EnumConstantDecl>(D))
          DK = "enum";
        J.attribute("dk", DK);
        return;
      }
      if (const auto *ME = dyn_cast<MemberExpr>(E)) {
        J.attribute("k", "mem");
        J.attribute("f", ME->getMemberDecl()->getName());
        J.attribute("arrow", ME->isArrow());
        if (const auto *FD = dyn_cast<FieldDecl>(ME->getMemberDecl())) {
          const RecordDecl *RD = FD->getParent();
          std::string RN = RD->getName().str();
          if (RN.empty())
            if (const auto *TD = RD->getTypedefNameForAnonDecl())
              RN = TD->getName().str();
          J.attribute("rec", RN);
          if (!RN.empty() && RD->isCompleteDefinition() && UsedRecSet.insert(RD).second)
            UsedRecs.push_back(RD);
          if (RD->isCompleteDefinition() && !RD->isInvalidDecl())
            J.attribute("off", (int64_t)Ctx.getASTRecordLayout(RD).getFieldOffset(FD->getFieldIndex()));
        }
        J.attributeBegin("b");
        emitExpr(ME->getBase(), MP, false);
        J.attributeEnd();
        return;
      }
      if (const auto *AS = dyn_cast<ArraySubscriptExpr>(E)) {
        J.attribute("k", "sub");
        J.attributeBegin("b");
        emitExpr(AS->getBase(), MP, false);
        J.attributeEnd();
        J.attributeBegin("i");
        emitExpr(AS->getIdx(), MP, false);
        J.attributeEnd();
        return;
      }
      if (const auto *UO = dyn_cast<UnaryOperator>(E)) {
        J.attribute("k", "un");
        std::string Op = UnaryOperator::getOpcodeStr(UO->getOpcode()).str();
        if (UO->isPostfix())
          Op = "post" + Op;
        else if (UO->isIncrementDecrementOp())
          Op = "pre" + Op;
        J.attribute("op", Op);
        J.attributeBegin("e");
        emitExpr(UO->getSubExpr(), MP, false);
        J.attributeEnd();
        return;
      }
      if (const auto *BO = dyn_cast<BinaryOperator>(E)) {
        J.attribute("k", "bin");
        J.attribute("op", BO->getOpcodeStr());
        if (const auto *CAO = dyn_cast<CompoundAssignOperator>(BO))
          J.attribute("ct", typeId(CAO->getComputationResultType()));
        J.attributeBegin("x");
        emitExpr(BO->getLHS(), MP, false);
        J.attributeEnd();
        J.attributeBegin("y");
        emitExpr(BO->getRHS(), MP, false);
        J.attributeEnd();
        return;
      }
      if (const auto *CO = dyn_cast<ConditionalOperator>(E)) {
        J.attribute("k", "cond");
        J.attributeBegin("c");
        emitExpr(CO->getCond(), MP, false);
        J.attributeEnd();
        J.attributeBegin("x");
        emitExpr(CO->getTrueExpr(), MP, false);
        J.attributeEnd();
        J.attributeBegin("y");
        emitExpr(CO->getFalseExpr(), MP, false);
        J.attributeEnd();
        return;
      }
      if (const auto *CE = dyn_cast<CallExpr>(E)) {
        J.attribute("k", "call");
        if (const FunctionDecl *FD = CE->getDirectCallee()) {
          J.attribute("fn", FD->getName());
          if (FD->getBuiltinID())
            J.attribute("builtin", true);
        } else {
          J.attributeBegin("callee");
          emitExpr(CE->getCallee(), MP, false);
          J.attributeEnd();
        }
        J.attributeArray("args", [&] {
          for (const Expr *A : CE->arguments())
            emitExpr(A, MP, false);
        });
        return;
      }
      if (const auto *CE = dyn_cast<CastExpr>(E)) {
        J.attribute("k", "cast");
        J.attribute("ck", CE->getCastKindName());
        if (isa<ImplicitCastExpr>(CE))
          J.attribute("imp", true);
        J.attributeBegin("e");
        emitExpr(CE->getSubExpr(), MP, false);
        J.attributeEnd();
        return;
      }
      if (const auto *UE = dyn_cast<UnaryExprOrTypeTraitExpr>(E)) {
        J.attribute("k", UE->getKind() == UETT_SizeOf ? "sizeof" : "trait");
        if (UE->isArgumentType())
          J.attribute("of", UE->getArgumentType().getAsString());
        else {
          J.attributeBegin("arg");
          emitExpr(UE->getArgumentExpr(), MP, false);
          J.attributeEnd();
        }
        return;
      }
      if (const auto *IL = dyn_cast<InitListExpr>(E)) {
        J.attribute("k", "init");
        J.attributeArray("e", [&] {
          for (const Expr *I : IL->inits())
            emitExpr(I, MP, false);
        });
        return;
      }
      if (const auto *CLE = dyn_cast<CompoundLiteralExpr>(E)) {
        J.attribute("k", "complit");
        J.attributeBegin("e");
        emitExpr(CLE->getInitializer(), MP, false);
        J.attributeEnd();
        return;
      }
      J.attribute("k", "other");
      J.attribute("cls", E->getStmtClassName());
      J.attributeArray("ch", [&] {
        for (const Stmt *C : E->children())
          if (C)
            emitStmt(C, MP, false);
      });
    });
  }

  void emitLazyBody(const Expr *E, const std::vector<std::string> *MP) {
    J.object([&] {
      J.attribute("t", typeId(E->getType()));
      J.attribute("ln", lineOf(E->getExprLoc()));
      if (const auto *BO = dyn_cast<BinaryOperator>(E)) {
        J.attribute("k", "bin");
        J.attribute("op", BO->getOpcodeStr());
        J.attributeBegin("x");
        emitExpr(BO->getLHS(), MP, false);
        J.attributeEnd();
        J.attributeBegin("y");
        emitExpr(BO->getRHS(), MP, false);
        J.attributeEnd();
      } else if (const auto *CO = dyn_cast<ConditionalOperator>(E)) {
        J.attribute("k", "cond");
        J.attributeBegin("c");
        emitExpr(CO->getCond(), MP, false);
        J.attributeEnd();
        J.attributeBegin("x");
        emitExpr(CO->getTrueExpr(), MP, false);
        J.attributeEnd();
        J.attributeBegin("y");
        emitExpr(CO->getFalseExpr(), MP, false);
        J.attributeEnd();
      } else {
        J.attribute("k", "other");
        J.attribute("cls", E->getStmtClassName());
      }
    });
  }

  void emitAPValue(const APValue &V, QualType T) {
    switch (V.getKind()) {
    case APValue::Int:
      emitAPInt(V.getInt());
      return;
    case APValue::Float: {
      J.value(V.getFloat().convertToDouble());
      return;
    }
    case APValue::Array: {
      QualType ET;
      if (const auto *AT = Ctx.getAsArrayType(T))
        ET = AT->getElementType();
      J.array([&] {
        unsigned N = V.getArraySize(), I = V.getArrayInitializedElts();
        for (unsigned K = 0; K < N; ++K) {
          if (K < I)
            emitAPValue(V.getArrayInitializedElt(K), ET);
          else if (V.hasArrayFiller())
            emitAPValue(V.getArrayFiller(), ET);
          else
            J.value(nullptr);
        }
      });
      return;
    }
    case APValue::Struct: {
      const RecordDecl *RD = T->getAsRecordDecl();
      J.object([&] {
        if (!RD)
          return;
        unsigned I = 0;
        for (const FieldDecl *F : RD->fields()) {
          if (I >= V.getStructNumFields())
            break;
          J.attributeBegin(F->getName().empty() ? ("_anon" + std::to_string(I)) : F->getName().str());
          emitAPValue(V.getStructField(I), F->getType());
          J.attributeEnd();
          ++I;
        }
      });
      return;
    }
    case APValue::Union: {
      J.object([&] {
        if (const FieldDecl *F = V.getUnionField()) {
          J.attributeBegin(F->getName().empty() ? "_anon" : F->getName().str());
          emitAPValue(V.getUnionValue(), F->getType());
          J.attributeEnd();
        }
      });
      return;
    }
    case APValue::LValue: {
      J.object([&] {
        APValue::LValueBase B = V.getLValueBase();
        if (!B) {
          J.attribute("null", true);
          J.attribute("off", (int64_t)V.getLValueOffset().getQuantity());
          return;
        }
        if (const auto *VD = B.dyn_cast<const ValueDecl *>()) {
          J.attribute("ptr", VD->getName());
        } else if (const Expr *BE = B.dyn_cast<const Expr *>()) {
          if (const auto *SL = dyn_cast<StringLiteral>(BE->IgnoreParenCasts())) {
            if (SL->getCharByteWidth() == 1) {
              bool Plain = true;
              for (unsigned char C : SL->getBytes())
                if (C < 0x20 || C > 0x7e)
                  Plain = false;
              if (Plain)
                J.attribute("str", SL->getBytes());
              else {
                static const char *H = "0123456789abcdef";
                std::string X;
                for (unsigned char C : SL->getBytes()) {
                  X.push_back(H[C >> 4]);
                  X.push_back(H[C & 15]);
                }
                J.attribute("strhex", X);
              }
              J.attribute("len", (int64_t)SL->getByteLength());
            }
          } else
            J.attribute("expr", BE->getStmtClassName());
        }
        J.attribute("off", (int64_t)V.getLValueOffset().getQuantity());
      });
      return;
    }
    default:
      J.value(nullptr);
      return;
    }
  }
};

class Consumer : public ASTConsumer, public RecursiveASTVisitor<Consumer> {
public:
  std::vector<const FunctionDecl *> Funcs;
  std::vector<const VarDecl *> Vars;
  std::vector<const RecordDecl *> Recs;
  std::vector<const EnumDecl *> Enums;
  ASTContext *Ctx = nullptr;

  bool accepted(SourceLocation L) {
    SourceManager &SM = Ctx->getSourceManager();
    L = SM.getExpansionLoc(L);
    if (L.isInvalid())
      return false;
    if (SM.isInMainFile(L))
      return true;
    StringRef F = SM.getFilename(L);
    for (auto &P : Prefixes)
      if (F.startswith(P))
        return true;
    return false;
  }

  bool shouldVisitImplicitCode() const { return false; }

  bool VisitFunctionDecl(FunctionDecl *FD) {
    if (FD->isThisDeclarationADefinition() && FD->hasBody() && accepted(FD->getLocation()))
      Funcs.push_back(FD);
    return true;
  }
  bool VisitVarDecl(VarDecl *VD) {
    if (VD->hasGlobalStorage() && !isa<ParmVarDecl>(VD) && VD->isThisDeclarationADefinition() &&
        accepted(VD->getLocation()))
      Vars.push_back(VD);
    return true;
  }
  bool VisitRecordDecl(RecordDecl *RD) {
    if (RD->isCompleteDefinition() && accepted(RD->getLocation()))
      Recs.push_back(RD);
    return true;
  }
  bool VisitEnumDecl(EnumDecl *ED) {
    if (ED->isCompleteDefinition() && accepted(ED->getLocation()))
      Enums.push_back(ED);
    return true;
  }

  void emitFunction(Emitter &Em, json::OStream &J, const FunctionDecl *FD) {
    SourceManager &SM = Ctx->getSourceManager();
    J.object([&] {
      J.attribute("name", FD->getName());
      J.attribute("file", Em.fileOf(FD->getLocation()));
      J.attribute("line", Em.lineOf(FD->getLocation()));
      J.attribute("endline", Em.lineOf(FD->getBody()->getEndLoc()));
      J.attribute("ret", Em.typeId(FD->getReturnType()));
      J.attribute("static", FD->getStorageClass() == SC_Static);
      J.attribute("inline", FD->isInlineSpecified());
      {
        std::vector<std::string> MC = Em.macroChain(FD->getLocation());
        if (!MC.empty())
          J.attributeArray("m", [&] {
            for (auto &S : MC)
              J.value(S);
          });
      }
      J.attributeArray("params", [&] {
        for (const ParmVarDecl *P : FD->parameters())
          J.object([&] {
            J.attribute("n", P->getName());
            J.attribute("id", Em.declId(P));
            J.attribute("t", Em.typeId(P->getType()));
          });
      });
      if (NoBodies)
        return;
      CFG::BuildOptions BO;
      BO.setAllAlwaysAdd();
      BO.PruneTriviallyFalseEdges = true;
      std::unique_ptr<CFG> G = CFG::buildCFG(FD, FD->getBody(), Ctx, BO);
      if (!G) {
        J.attribute("cfg_failed", true);
        return;
      }
      ParentMap PM(FD->getBody());
      J.attribute("entry", G->getEntry().getBlockID());
      J.attribute("exit", G->getExit().getBlockID());
      J.attributeArray("blocks", [&] {
        for (const CFGBlock *B : *G) {
          // collect statement elements of this block
          std::vector<const Stmt *> Elems;
          llvm::DenseSet<const Stmt *> InBlock;
          for (const CFGElement &El : *B) {
            if (auto CS = El.getAs<CFGStmt>()) {
              Elems.push_back(CS->getStmt());
              InBlock.insert(CS->getStmt());
            }
          }
          Em.OtherBlockElems = &InBlock;
          J.object([&] {
            J.attribute("id", B->getBlockID());
            J.attributeArray("succ", [&] {
              for (auto SI = B->succ_begin(); SI != B->succ_end(); ++SI) {
                const CFGBlock *SB = SI->getReachableBlock();
                if (SB)
                  J.value((int64_t)SB->getBlockID());
                else
                  J.value(nullptr);
              }
            });
            // possibly-unreachable successors, kept separately
            bool AnyUnreach = false;
            for (auto SI = B->succ_begin(); SI != B->succ_end(); ++SI)
              if (!SI->getReachableBlock() && SI->getPossiblyUnreachableBlock())
                AnyUnreach = true;
            if (AnyUnreach)
              J.attributeArray("usucc", [&] {
                for (auto SI = B->succ_begin(); SI != B->succ_end(); ++SI) {
                  const CFGBlock *UB = SI->getReachableBlock() ? nullptr : SI->getPossiblyUnreachableBlock();
                  if (UB)
                    J.value((int64_t)UB->getBlockID());
                  else
                    J.value(nullptr);
                }
              });
            if (const Stmt *T = B->getTerminatorStmt()) {
              J.attributeObject("term", [&] {
                std::string K = T->getStmtClassName();
                if (const auto *BOp = dyn_cast<BinaryOperator>(T))
                  K = BOp->getOpcodeStr().str();
                else if (isa<AbstractConditionalOperator>(T))
                  K = "?:";
                J.attribute("k", K);
                J.attribute("ln", Em.lineOf(T->getBeginLoc()));
                if (const auto *GS = dyn_cast<GotoStmt>(T))
                  J.attribute("label", GS->getLabel()->getName());
                std::vector<std::string> MC = Em.macroChain(T->getBeginLoc());
                if (!MC.empty())
                  J.attributeArray("m", [&] {
                    for (auto &S : MC)
                      J.value(S);
                  });
              });
            }
            if (const Stmt *L = B->getLabel()) {
              J.attributeObject("label", [&] {
                J.attribute("ln", Em.lineOf(L->getBeginLoc()));
                if (const auto *CS = dyn_cast<CaseStmt>(L)) {
                  Expr::EvalResult R;
                  if (CS->getLHS()->EvaluateAsInt(R, *Ctx)) {
                    J.attributeBegin("case");
                    Em.emitAPInt(R.Val.getInt());
                    J.attributeEnd();
                  }
                  if (CS->getRHS() && CS->getRHS()->EvaluateAsInt(R, *Ctx)) {
                    J.attributeBegin("case_hi");
                    Em.emitAPInt(R.Val.getInt());
                    J.attributeEnd();
                  }
                  // spelled name of the case constant, if an enumerator / macro
                  const Expr *LE = CS->getLHS()->IgnoreParenCasts();
                  if (const auto *DR = dyn_cast<DeclRefExpr>(LE))
                    J.attribute("case_name", DR->getDecl()->getName());
                  std::vector<std::string> MC = Em.macroChain(CS->getLHS()->getExprLoc());
                  if (!MC.empty())
                    J.attribute("case_macro", MC.front());
                } else if (isa<DefaultStmt>(L)) {
                  J.attribute("default", true);
                } else if (const auto *LS = dyn_cast<LabelStmt>(L)) {
                  J.attribute("name", LS->getName());
                }
              });
            }
            J.attributeArray("e", [&] {
              for (const Stmt *S : Elems) {
                // root = no ancestor among this block's elements
                bool IsRoot = true;
                const Stmt *P = PM.getParent(S);
                unsigned Guard = 0;
                while (P && Guard++ < 4096) {
                  if (InBlock.count(P)) {
                    IsRoot = false;
                    break;
                  }
                  P = PM.getParent(P);
                }
                if (!IsRoot)
                  continue;
                // pure wrappers of an element already there (paren / implicit cast of root)
                Em.emitStmt(S, nullptr, true);
              }
            });
          });
          Em.OtherBlockElems = nullptr;
        }
      });
      (void)SM;
    });
  }

  void HandleTranslationUnit(ASTContext &C) override {
    Ctx = &C;
    if (C.getDiagnostics().hasErrorOccurred()) {
      llvm::errs() << "lcbfacts: unit has compile errors\n";
    }
    TraverseDecl(C.getTranslationUnitDecl());
    std::error_code EC;
    llvm::raw_fd_ostream OS(OutFile, EC);
    if (EC) {
      llvm::errs() << "lcbfacts: cannot open " << OutFile << "\n";
      return;
    }
    json::OStream J(OS, 0);
    Emitter Em(C, J);
    SourceManager &SM = C.getSourceManager();
    J.object([&] {
      J.attribute("main", SM.getFileEntryForID(SM.getMainFileID())->getName());
      J.attribute("errors", C.getDiagnostics().hasErrorOccurred());
      J.attributeArray("functions", [&] {
        for (const FunctionDecl *FD : Funcs)
          emitFunction(Em, J, FD);
      });
      J.attributeArray("globals", [&] {
        for (const VarDecl *VD : Vars) {
          J.object([&] {
            J.attribute("n", VD->getName());
            J.attribute("id", Em.declId(VD));
            J.attribute("t", Em.typeId(VD->getType()));
            J.attribute("file", Em.fileOf(VD->getLocation()));
            J.attribute("ln", Em.lineOf(VD->getLocation()));
            J.attribute("const", VD->getType().isConstQualified() ||
                                     (C.getAsArrayType(VD->getType()) &&
                                      C.getBaseElementType(VD->getType()).isConstQualified()));
            J.attribute("volatile", VD->getType().isVolatileQualified());
            J.attribute("static", VD->getStorageClass() == SC_Static);
            if (VD->isStaticLocal())
              if (const auto *FD = dyn_cast<FunctionDecl>(VD->getDeclContext()))
                J.attribute("fn", FD->getName());
            if (VD->hasInit()) {
              const APValue *V = VD->evaluateValue();
              if (V && !V->isAbsent() && !V->isIndeterminate()) {
                J.attributeBegin("v");
                Em.emitAPValue(*V, VD->getType());
                J.attributeEnd();
              } else {
                J.attributeBegin("init");
                Em.emitStmt(VD->getInit(), nullptr, false);
                J.attributeEnd();
              }
            }
          });
        }
      });
      J.attributeArray("records", [&] {
        {
          llvm::DenseSet<const RecordDecl *> Have(Recs.begin(), Recs.end());
          for (const RecordDecl *RD : Em.UsedRecs)
            if (Have.insert(RD).second)
              Recs.push_back(RD);
        }
        for (const RecordDecl *RD : Recs) {
          if (RD->isInvalidDecl())
            continue;
          std::string RN = RD->getName().str();
          if (RN.empty())
            if (const auto *TD = RD->getTypedefNameForAnonDecl())
              RN = TD->getName().str();
          if (RN.empty())
            continue;
          const ASTRecordLayout &L = C.getASTRecordLayout(RD);
          J.object([&] {
            J.attribute("n", RN);
            J.attribute("union", RD->isUnion());
            J.attribute("size", (int64_t)L.getSize().getQuantity());
            J.attribute("align", (int64_t)L.getAlignment().getQuantity());
            J.attribute("file", Em.fileOf(RD->getLocation()));
            J.attributeArray("fields", [&] {
              unsigned I = 0;
              for (const FieldDecl *F : RD->fields()) {
                J.object([&] {
                  J.attribute("n", F->getName());
                  J.attribute("off", (int64_t)L.getFieldOffset(I));
                  J.attribute("t", Em.typeId(F->getType()));
                  if (F->isBitField())
                    J.attribute("bits", (int64_t)F->getBitWidthValue(C));
                });
                ++I;
              }
            });
          });
        }
      });
      J.attributeArray("enums", [&] {
        for (const EnumDecl *ED : Enums) {
          J.object([&] {
            std::string N = ED->getName().str();
            if (N.empty())
              if (const auto *TD = ED->getTypedefNameForAnonDecl())
                N = TD->getName().str();
            J.attribute("n", N);
            J.attributeObject("c", [&] {
              for (const EnumConstantDecl *EC : ED->enumerators()) {
                J.attributeBegin(EC->getName());
                Em.emitAPInt(EC->getInitVal());
                J.attributeEnd();
              }
            });
          });
        }
      });
      // types last: all ids are known now (emission may add pointee types)
      J.attributeArray("types", [&] {
        for (unsigned I = 0; I < Em.TypeList.size(); ++I) {
          QualType T = Em.TypeList[I];
          QualType CT = T.getCanonicalType();
          J.object([&] {
            J.attribute("s", T.getAsString());
            J.attribute("c", CT.getAsString());
            const char *K = "other";
            if (CT->isVoidType())
              K = "void";
            else if (CT->isBooleanType())
              K = "int";
            else if (CT->isEnumeralType())
              K = "enum";
            else if (CT->isIntegerType())
              K = "int";
            else if (CT->isFloatingType())
              K = "float";
            else if (CT->isPointerType())
              K = "ptr";
            else if (CT->isArrayType())
              K = "arr";
            else if (CT->isRecordType())
              K = "rec";
            else if (CT->isFunctionType())
              K = "fn";
            J.attribute("k", K);
            if (CT->isIntegralOrEnumerationType() && !CT->isIncompleteType()) {
              J.attribute("w", (int64_t)C.getTypeSize(CT));
              J.attribute("sg", CT->isSignedIntegerOrEnumerationType());
            }
            if (CT->isPointerType())
              J.attribute("to", Em.typeId(T->getPointeeType()));
            if (const auto *AT = C.getAsArrayType(T)) {
              J.attribute("to", Em.typeId(AT->getElementType()));
              if (const auto *CAT = dyn_cast<ConstantArrayType>(AT))
                J.attribute("n", (int64_t)CAT->getSize().getZExtValue());
            }
            if (const RecordDecl *RD = CT->getAsRecordDecl()) {
              std::string RN = RD->getName().str();
              if (RN.empty())
                if (const auto *TD = RD->getTypedefNameForAnonDecl())
                  RN = TD->getName().str();
              J.attribute("rec", RN);
            }
            if (!CT->isIncompleteType() && !CT->isFunctionType() && !CT->isVoidType() &&
                !CT->isDependentType())
              J.attribute("size", (int64_t)C.getTypeSizeInChars(CT).getQuantity());
            J.attribute("const", T.isConstQualified());
            J.attribute("volatile", T.isVolatileQualified());
            {
              // __attribute__((may_alias)) on a typedef in the sugar chain
              bool MA = false;
              QualType W = T;
              for (int Guard = 0; Guard < 16; ++Guard) {
                const auto *TT = W->getAs<TypedefType>();
                if (!TT)
                  break;
                if (TT->getDecl()->hasAttr<MayAliasAttr>()) {
                  MA = true;
                  break;
                }
                W = TT->getDecl()->getUnderlyingType();
              }
              if (MA)
                J.attribute("ma", true);
            }
          });
        }
      });
    });
    OS << "\n";
  }
};

class Action : public ASTFrontendAction {
public:
  std::unique_ptr<ASTConsumer> CreateASTConsumer(CompilerInstance &, StringRef) override {
    return std::make_unique<Consumer>();
  }
};

} // namespace

int main(int argc, const char **argv) {
  auto Exp = CommonOptionsParser::create(argc, argv, Cat);
  if (!Exp) {
    llvm::errs() << Exp.takeError();
    return 2;
  }
  CommonOptionsParser &OP = Exp.get();
  ClangTool Tool(OP.getCompilations(), OP.getSourcePathList());
  int R = Tool.run(newFrontendActionFactory<Action>().get());
  return R ? 3 : 0;
}
