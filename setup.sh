#!/bin/sh
# Build the fact extractor (offline; clang/llvm 14 from the image).
set -e
cd "$(dirname "$0")"
mkdir -p build
if [ ! -x build/lcbfacts ] || [ tool/lcbfacts.cc -nt build/lcbfacts ]; then
  clang++ $(llvm-config-14 --cxxflags) -fno-rtti tool/lcbfacts.cc -o build/lcbfacts \
    /usr/lib/llvm-14/lib/libclang-cpp.so.14 /usr/lib/llvm-14/lib/libLLVM-14.so
fi
echo "lcbfacts built"
