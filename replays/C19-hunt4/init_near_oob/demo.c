/* r_buf_rpos_init_near(): a new reader that is ahead of every existing reader
 * (the normal case: it starts at the writer's head) makes the search loop end
 * with i == rposs_cnt; rposs[i] is then read, handed to
 * r_buf_data_avail_size() (which also WRITES it) and may be copied out as the
 * new reader's position. */
#include <sys/param.h>
#include <sys/types.h>
#include <inttypes.h>
#include <string.h>
#include <stdio.h>
#include <stdlib.h>
#include <errno.h>
#include "utils/ring_buffer.h"

int main(void) {
	r_buf_p r = r_buf_alloc((uintptr_t)-1, 4096, 16);
	uint8_t *buf;
	r_buf_rpos_t *rposs, nr;
	int i;

	if (!r) return 2;
	/* two existing readers at the very start */
	rposs = malloc(2 * sizeof(r_buf_rpos_t)); /* exactly 2: ASan guards rposs[2] */
	r_buf_rpos_init(r, &rposs[0], 0);
	r_buf_rpos_init(r, &rposs[1], 0);
	/* writer commits 4 blocks */
	for (i = 0; i < 4; i ++) {
		if (0 == r_buf_wbuf_get(r, 64, &buf)) return 2;
		memset(buf, 'a' + i, 64);
		if (0 != r_buf_wbuf_set(r, 0, 64)) return 2;
	}
	/* reader 1 consumed one block, reader 0 nothing: sorted ascending */
	r_buf_rpos_inc(r, &rposs[1], 64);
	/* third reader joins at the head (no history) */
	r_buf_rpos_init_near(r, &nr, 0, rposs, 2);
	printf("new reader: idx %zu off %zu round %zu\n", nr.iov_index, nr.iov_off, nr.round_num);
	printf("OK (no out-of-bounds access seen)\n");
	return 0;
}
