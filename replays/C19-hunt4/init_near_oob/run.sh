#!/bin/sh
T=${1:-/tmp/hunt/C19}
D=$(cd "$(dirname "$0")" && pwd)
clang -g -O0 -fsanitize=address,undefined -fno-sanitize-recover=all -DHAVE_ACCEPT4 -DHAVE_EXPLICIT_BZERO -DHAVE_MEMMEM -DHAVE_MEMRCHR -DHAVE_PIPE2 -DHAVE_POSIX_SPAWN_FILE_ACTIONS_ADDCLOSEFROM_NP -DHAVE_PTHREAD_SETNAME_NP -DHAVE_REALLOCARRAY -DHAVE_SOCK_CLOEXEC -DHAVE_SOCK_NONBLOCK -DHAVE_STRNCASECMP -DLINUX -D_GNU_SOURCE -D__USE_GNU=1 -I"$T/include" "$D/demo.c" "$T/src/utils/ring_buffer.c" -o "$D/demo" || exit 2
"$D/demo" > "$D/out.txt" 2>&1
rc=$?
head -12 "$D/out.txt"
if [ $rc -ne 0 ]; then echo "FAIL: r_buf_rpos_init_near accessed rposs[rposs_cnt]"; exit 1; fi
echo PASS
