/* Model-based random test of ring_buffer.c: one writer, several readers. */
#include <sys/param.h>
#include <sys/types.h>
#include <inttypes.h>
#include <string.h>
#include <stdio.h>
#include <stdlib.h>
#include <errno.h>
#include "utils/ring_buffer.h"

#define NR 4
#define NOOFF ((uint64_t)-1)

static uint64_t rs;
static uint64_t rnd(void) { rs ^= rs << 13; rs ^= rs >> 7; rs ^= rs << 17; return rs; }
static size_t rr(size_t lo, size_t hi) { return lo + (size_t)(rnd() % (hi - lo + 1)); }

static uint8_t content(uint64_t off) { return (uint8_t)((off * 2654435761u) >> 13); }

static r_buf_p r;
static uint64_t *shadow;	/* stream offset of the byte living at each ring position */
static uint8_t *bstart;		/* 1 if a block starts here */
static uint64_t stream;		/* bytes committed so far */
static int verbose;
static int opt_availreal, opt_set2, opt_mid, opt_noinit_hist;

typedef struct {
	r_buf_rpos_t rp;
	int active;
	int synced;		/* expected offset is known */
	uint64_t e;		/* expected next stream offset */
	int drop_seen;		/* a drop was reported since the last data */
	size_t pend;		/* delayed advance */
	int fresh;		/* just initialised or resynced: any block start >= e ok */
} rd_t;
static rd_t rd[NR];
static unsigned long step;
static unsigned long n_drop, n_data, n_wrap;

#define FAILF(...) do { printf("FAIL step %lu: ", step); printf(__VA_ARGS__); printf("\n"); \
	dump(); return 1; } while (0)

static void dump(void) {
	size_t i;
	printf(" rbuf: size %zu minblk %zu wpos %zu idx %zu max %zu round %zu flags %u\n",
	    r->size, r->min_block_size, r->wpos, r->iov_index, r->iov_index_max, r->round_num, r->flags);
	for (i = 0; i < r->iov_count && i <= MAX(r->iov_index, r->iov_index_max) + 2; i ++)
		printf("  iov[%zu] off %td len %zu\n", i, r->iov[i].iov_base ? r->iov[i].iov_base - r->buf : -1, r->iov[i].iov_len);
	for (i = 0; i < NR; i ++)
		printf(" rd%zu: act %d idx %zu off %zu round %zu e %" PRIu64 " synced %d fresh %d drop_seen %d pend %zu\n",
		    i, rd[i].active, rd[i].rp.iov_index, rd[i].rp.iov_off, rd[i].rp.round_num, rd[i].e,
		    rd[i].synced, rd[i].fresh, rd[i].drop_seen, rd[i].pend);
}

static uint8_t *w_buf; static size_t w_got; static int opt_split;
static int writer_step(void) {
	uint8_t *buf = NULL;
	size_t minb, got, bsz, off, i, old_round = r->round_num;

	if (w_buf) { buf = w_buf; got = w_got; w_buf = NULL; goto commit; }

	minb = (rnd() % 4) ? rr(0, r->min_block_size * 3) : rr(0, r->size);
	if (minb > r->size) minb = r->size;
	got = r_buf_wbuf_get(r, minb, &buf);
	if (r->round_num != old_round) n_wrap ++;
	if (verbose) printf("W get(%zu) -> %zu at %td\n", minb, got, buf ? buf - r->buf : -1);
	if (got == 0) FAILF("wbuf_get(%zu) returned 0", minb);
	if (buf < r->buf || buf + got > r->buf + r->size) FAILF("write region outside the ring");
	if (got < minb) FAILF("write region smaller than asked");
	if (got < r->min_block_size) FAILF("write region smaller than min block");
	if (r->iov_index + 1 >= r->iov_count) FAILF("block table overflow");
	if ((rnd() % 8) == 0)
		return 0; /* get without commit */
	if (opt_split && (rnd() % 2)) { w_buf = buf; w_got = got; return 0; }
commit:
	if (rnd() % 3) bsz = rr(r->min_block_size, MIN(got, r->min_block_size * 4));
	else bsz = rr(r->min_block_size, got);
	off = 0;
	if (opt_mid && (rnd() % 3) == 0 && bsz > r->min_block_size)
		off = rr(0, bsz - r->min_block_size);
	/* write */
	for (i = 0; i < off; i ++) { buf[i] = 0xEE; shadow[(buf - r->buf) + i] = NOOFF; bstart[(buf - r->buf) + i] = 0; }
	for (i = off; i < bsz; i ++) {
		buf[i] = content(stream + (i - off));
		shadow[(buf - r->buf) + i] = stream + (i - off);
		bstart[(buf - r->buf) + i] = (i == off);
	}
	if (opt_set2 && (rnd() % 2)) {
		if (0 != r_buf_wbuf_set2(r, buf + off, bsz - off, NULL)) FAILF("set2 refused");
		if (verbose) printf("W set2(%zu, %zu) stream %" PRIu64 "\n", off, bsz - off, stream);
	} else {
		if (0 != r_buf_wbuf_set(r, off, bsz)) FAILF("set refused off %zu bsz %zu", off, bsz);
		if (verbose) printf("W set(%zu, %zu) stream %" PRIu64 "\n", off, bsz, stream);
	}
	stream += bsz - off;
	if (r->iov_index + 1 >= r->iov_count) FAILF("block table overflow");
	return 0;
}

static int reader_step(size_t k) {
	rd_t *d = &rd[k];
	iovec_t iov[8];
	size_t cnt, want, n, drop = 0, got = 0, i, j, av, avdrop = 0, tot;
	uint64_t s0, so;
	r_buf_rpos_t save;

	if (!d->active) {
		size_t hist = opt_noinit_hist ? 0 : ((rnd() % 2) ? 0 : rr(0, r->size * 2));
		if (0 != r_buf_rpos_init(r, &d->rp, hist)) FAILF("rpos_init");
		if (verbose) printf("R%zu init(%zu) -> idx %zu round %zu\n", k, hist, d->rp.iov_index, d->rp.round_num);
		d->active = 1; d->synced = 0; d->fresh = 1; d->drop_seen = 0; d->pend = 0; d->e = 0;
		return 0;
	}
	if (d->pend && (rnd() % 3) == 0) goto reget; /* look again before the advance */
	if (d->pend) { /* delayed advance */
		if (rnd() % 2) return 0;
		n = (rnd() % 2) ? d->pend : rr(1, d->pend);
		r_buf_rpos_inc(r, &d->rp, n);
		if (verbose) printf("R%zu inc(%zu) late -> idx %zu off %zu round %zu\n", k, n, d->rp.iov_index, d->rp.iov_off, d->rp.round_num);
		d->e += n; d->pend = 0;
		return 0;
	}
reget:
	cnt = rr(1, 8);
	switch (rnd() % 3) {
	case 0: want = (size_t)~0 >> 1; break;
	case 1: want = rr(1, r->size); break;
	default: want = rr(1, r->min_block_size * 6); break;
	}
	/* avail query on a copy */
	save = d->rp;
	av = r_buf_data_avail_size(r, (opt_availreal ? &d->rp : &save), &avdrop);
	if (opt_availreal && avdrop) { d->drop_seen = 1; d->fresh = 1; n_drop ++; d->pend = 0; }
	if (rnd() % 2) (void)r_buf_rpos_check_fast(r, &d->rp);
	n = r_buf_data_get(r, &d->rp, want, iov, cnt, &drop, &got);
	if (verbose) printf("R%zu get(%zu, cnt %zu) -> n %zu got %zu drop %zu (avail %zu) idx %zu off %zu round %zu\n",
	    k, want, cnt, n, got, drop, av, d->rp.iov_index, d->rp.iov_off, d->rp.round_num);
	if (drop) { d->drop_seen = 1; d->fresh = 1; n_drop ++; d->pend = 0; }
	if (n > cnt) FAILF("more regions than asked");
	tot = 0;
	for (i = 0; i < n; i ++) tot += iov[i].iov_len;
	if (tot != got) FAILF("rd%zu: data_size_ret %zu != sum of regions %zu", k, got, tot);
	if (got > want) FAILF("rd%zu: more data than asked", k);
	if (n == 0) {
		if (got) FAILF("size without regions");
		return 0;
	}
	if (drop) FAILF("rd%zu: data and drop together", k);
	/* check regions */
	s0 = NOOFF; so = 0;
	for (i = 0; i < n; i ++) {
		if (iov[i].iov_base < r->buf || iov[i].iov_base + iov[i].iov_len > r->buf + r->size)
			FAILF("rd%zu: region %zu outside the ring", k, i);
		for (j = 0; j < iov[i].iov_len; j ++) {
			size_t p = (size_t)(iov[i].iov_base - r->buf) + j;
			if (shadow[p] == NOOFF) FAILF("rd%zu: byte at %zu is not stream data", k, p);
			if (s0 == NOOFF) {
				s0 = shadow[p];
				if (d->synced && !d->fresh && s0 != d->e)
					FAILF("rd%zu: expected stream off %" PRIu64 " got %" PRIu64 " (no drop reported)", k, d->e, s0);
				if (d->synced && d->fresh && s0 < d->e)
					FAILF("rd%zu: after resync went BACK: expected >= %" PRIu64 " got %" PRIu64, k, d->e, s0);
				if (d->synced && d->fresh && s0 != d->e && !d->drop_seen)
					FAILF("rd%zu: skipped without drop", k);
				if ((!d->synced || s0 != d->e) && !bstart[p])
					FAILF("rd%zu: resynced into the middle of a block at %zu", k, p);
			} else if (shadow[p] != s0 + so)
				FAILF("rd%zu: discontinuity at ring %zu: expected stream %" PRIu64 " got %" PRIu64, k, p, s0 + so, shadow[p]);
			if (iov[i].iov_base[j] != content(s0 + so)) FAILF("rd%zu: content", k);
			so ++;
		}
	}
	n_data ++;
	/* avail vs full read */
	if (want == ((size_t)~0 >> 1) && cnt == 8 && n < 8 && av != got)
		FAILF("rd%zu: avail %zu != full read %zu", k, av, got);
	if (av < got) FAILF("rd%zu: avail %zu < read %zu", k, av, got);
	d->synced = 1; d->fresh = 0; d->drop_seen = 0; d->e = s0;
	/* advance */
	if (d->pend) { if (d->pend > got) d->pend = got; return 0; }
	switch (rnd() % 4) {
	case 0: d->pend = got; break;				/* delayed */
	case 1: n = rr(1, got); r_buf_rpos_inc(r, &d->rp, n); d->e += n; 	/* partial */
		if (verbose) printf("R%zu inc(%zu)\n", k, n);
		break;
	default: r_buf_rpos_inc(r, &d->rp, got); d->e += got;
		if (verbose) printf("R%zu inc(%zu)\n", k, got);
		break;
	}
	return 0;
}

int main(int argc, char **argv) {
	size_t size, minb, i;
	unsigned long steps, seed;
	int wweight;

	seed = argc > 1 ? strtoul(argv[1], NULL, 0) : 1;
	steps = argc > 2 ? strtoul(argv[2], NULL, 0) : 100000;
	verbose = argc > 3 ? atoi(argv[3]) : 0;
	rs = seed * 0x9E3779B97F4A7C15ull + 12345;
	rnd(); rnd();
	minb = rr(1, 64);
	size = minb * ((rnd() % 3) ? rr(1, 6) : rr(1, 40)) + rr(0, minb - 1);
	opt_set2 = rnd() % 2; opt_mid = rnd() % 2; opt_noinit_hist = rnd() % 2; opt_split = rnd() % 2; opt_availreal = rnd() % 2;
	wweight = (int)rr(1, 7);
	r = r_buf_alloc((uintptr_t)-1, size, minb);
	if (!r) { printf("alloc failed\n"); return 2; }
	if (rnd() % 2) r->round_num = (size_t)~0 - rr(0, 3);
	shadow = malloc(sizeof(uint64_t) * size);
	bstart = calloc(1, size);
	for (i = 0; i < size; i ++) shadow[i] = NOOFF;
	if (verbose) printf("seed %lu size %zu minb %zu set2 %d mid %d\n", seed, size, minb, opt_set2, opt_mid);
	for (step = 0; step < steps; step ++) {
		if ((int)(rnd() % 8) < wweight) {
			if (writer_step()) goto fail;
		} else {
			size_t k = rnd() % NR;
			if ((rnd() % 500) == 0) rd[k].active = 0; /* re-init */
			if (reader_step(k)) goto fail;
		}
	}
	if (verbose) printf("ok: wraps %lu drops %lu reads %lu\n", n_wrap, n_drop, n_data);
	return 0;
fail:
	printf(" seed %lu size %zu minb %zu set2 %d mid %d hist0 %d ww %d\n", seed, size, minb, opt_set2, opt_mid, opt_noinit_hist, wweight);
	return 1;
}
