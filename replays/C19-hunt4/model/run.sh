#!/bin/sh
# Model-based random test (supporting evidence, not a finding): exits 0 when no seed fails.
T=${1:-/tmp/hunt/C19}
D=$(cd "$(dirname "$0")" && pwd)
"$D/build.sh" "$T" || exit 2
rc=0
for s in $(seq 1 ${2:-200}); do "$D/model" $s 30000 > "$D/last.txt" 2>&1 || { echo "seed $s: $(grep -m1 -E 'FAIL|ERROR|runtime' "$D/last.txt")"; rc=1; }; done
[ $rc -eq 0 ] && echo "PASS: no seed failed"
exit $rc
