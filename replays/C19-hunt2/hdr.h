#include <sys/param.h>
#include <sys/types.h>
#include <inttypes.h>
#include <string.h>
#include <stdio.h>
#include <stdlib.h>
#include <errno.h>
#include "utils/ring_buffer.h"
/* writer helper: one block of n bytes, filled with the running stream counter */
static size_t g_total;
static int wr(r_buf_p rb, size_t n) {
	uint8_t *b = NULL; size_t got = r_buf_wbuf_get(rb, n, &b), i;
	if (got < n) return (-1);
	for (i = 0; i < n; i ++) b[i] = (uint8_t)(g_total + i);
	g_total += n;
	return (r_buf_wbuf_set(rb, 0, n));
}
