/* Reader one round behind, resynchronised because the writer's block INDEX
 * passed the reader's index.  The reported amount is size + new blocks
 * idx..iov_index, which is not what the reader skipped.
 * A: blocks of different sizes (120, then 10 x 8 in a ring of 200).
 * B: uniform blocks, reader in the middle of a block (iov_off ignored). */
#include "../hdr.h"
int main(void) {
	int rc = 0;
	{
		r_buf_p rb = r_buf_alloc((uintptr_t)-1, 200, 8);
		r_buf_rpos_t rp; iovec_t iov[16]; size_t drop = 0, got = 0, avail, i, mark;
		if (!rb) return (2);
		r_buf_rpos_init(rb, &rp, 0);
		if (wr(rb, 120)) return (2);
		for (i = 0; i < 10; i ++) if (wr(rb, 8)) return (2);
		r_buf_data_get(rb, &rp, 121, iov, 16, &drop, &got); /* takes the 120 byte block only */
		if (got != 120) { printf("unexpected got=%zu\n", got); return (2); }
		r_buf_rpos_inc(rb, &rp, got);
		mark = g_total - 80;                      /* reader's stream position: 80 bytes unread */
		for (i = 0; i < 3; i ++) if (wr(rb, 8)) return (2); /* new round: offsets 0..24 only */
		avail = r_buf_data_avail_size(rb, &rp, &drop);
		printf("A: unread by the reader=%zu (all of it still intact at ring offset >= 120, wpos=%zu): avail=%zu drop=%zu\n",
		    g_total - mark, rb->wpos, avail, drop);
		if (avail == 0 && drop != g_total - mark) { printf("FAIL A: reported %zu, skipped %zu\n", drop, g_total - mark); rc = 1; }
		r_buf_free(rb);
	}
	{
		r_buf_p rb = r_buf_alloc((uintptr_t)-1, 40, 8);
		r_buf_rpos_t rp; iovec_t iov[16]; size_t drop = 0, got = 0, avail, i, mark;
		if (!rb) return (2);
		r_buf_rpos_init(rb, &rp, 0);
		for (i = 0; i < 5; i ++) if (wr(rb, 8)) return (2);
		r_buf_data_get(rb, &rp, (size_t)~0, iov, 16, &drop, &got);
		r_buf_rpos_inc(rb, &rp, 8 + 5);           /* block 1, 5 bytes into it */
		mark = g_total - (40 - 13);
		for (i = 0; i < 2; i ++) if (wr(rb, 8)) return (2); /* overwrites blocks 0 and 1 */
		avail = r_buf_data_avail_size(rb, &rp, &drop);
		printf("B: skipped=%zu avail=%zu drop=%zu\n", g_total - mark, avail, drop);
		if (avail == 0 && drop != g_total - mark) { printf("FAIL B: reported %zu, skipped %zu\n", drop, g_total - mark); rc = 1; }
		r_buf_free(rb);
	}
	if (!rc) printf("OK\n");
	return (rc);
}
