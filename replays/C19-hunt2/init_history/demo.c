/* Ring of 5 blocks of 8 bytes, writer in its second round (2 blocks written,
 * blocks 2..4 of the previous round intact: 40 bytes of history are valid).
 * A new reader asks for more history than the ring holds.  It never fell
 * behind, so no drop may be reported and it should get the history there is. */
#include "../hdr.h"
int main(void) {
	r_buf_p rb = r_buf_alloc((uintptr_t)-1, 40, 8);
	r_buf_rpos_t rp, rp2; iovec_t iov[8]; size_t drop = 0, avail, i, drop2 = 0, avail2;
	if (!rb) return (2);
	for (i = 0; i < 7; i ++) if (wr(rb, 8)) return (2);
	r_buf_rpos_init(rb, &rp2, 24);
	avail2 = r_buf_data_avail_size(rb, &rp2, &drop2);
	r_buf_rpos_init(rb, &rp, 100);
	printf("init(100): rpos=(idx %zu, round %zu) writer=(idx %zu, round %zu)\n",
	    rp.iov_index, rp.round_num, rb->iov_index, rb->round_num);
	avail = r_buf_data_avail_size(rb, &rp, &drop);
	printf("init(24): avail=%zu drop=%zu;  init(100): avail=%zu drop=%zu\n", avail2, drop2, avail, drop);
	if (drop != 0 || avail < avail2) { printf("FAIL: new reader is told it lost %zu bytes and gets %zu bytes of history\n", drop, avail); return (1); }
	printf("OK\n");
	return (0);
}
