#!/bin/sh
T=${1:-/tmp/hunt/C19}
clang -g -O1 -fsanitize=address,undefined -fno-sanitize-recover=undefined -DHAVE_ACCEPT4 -DHAVE_EXPLICIT_BZERO -DHAVE_MEMMEM -DHAVE_MEMRCHR -DHAVE_PIPE2 -DHAVE_POSIX_SPAWN_FILE_ACTIONS_ADDCLOSEFROM_NP -DHAVE_PTHREAD_SETNAME_NP -DHAVE_REALLOCARRAY -DHAVE_SOCK_CLOEXEC -DHAVE_SOCK_NONBLOCK -DHAVE_STRNCASECMP -DLINUX -D_GNU_SOURCE -D__USE_GNU=1 -I$T/include -Wno-pointer-arith -w $(dirname $0)/fuzz.c $T/src/utils/ring_buffer.c -o $(dirname $0)/fuzz
