#include <sys/param.h>
#include <sys/types.h>
#include <sys/mman.h>
#include <inttypes.h>
#include <string.h>
#include <stdio.h>
#include <stdlib.h>
#include <errno.h>
#include <signal.h>
#include "utils/ring_buffer.h"

static uint8_t *stream; static size_t stream_len, stream_cap;
static uint8_t sb(size_t pos) { uint64_t x = pos * 0x9E3779B97F4A7C15ull; x ^= x >> 29; x *= 0xBF58476D1CE4E5B9ull; x ^= x >> 32; return (uint8_t)x; }
static void stream_append(uint8_t *dst, size_t n) {
	if (stream_len + n > stream_cap) { stream_cap = (stream_len + n) * 2; stream = realloc(stream, stream_cap); }
	for (size_t i = 0; i < n; i++) { stream[stream_len] = sb(stream_len); dst[i] = stream[stream_len]; stream_len++; }
}
static uint64_t rs = 88172645463325252ull;
static uint64_t rnd(void) { rs ^= rs << 13; rs ^= rs >> 7; rs ^= rs << 17; return rs; }
static size_t rr(size_t lo, size_t hi) { return lo + (size_t)(rnd() % (hi - lo + 1)); }

#define NR 4
typedef struct { r_buf_rpos_t rp; size_t pos; int active; } rd_t;
static int fails = 0; static int verbose = 0;
static int exact_drop = 0; /* config where drop must be exact */
static size_t cnt_dropmis = 0, cnt_drop = 0, cnt_initdrop = 0;

static void fail(const char *what, unsigned long seed, size_t step) {
	printf("FAIL seed=%lu step=%zu: %s\n", seed, step, what); fails++;
}

int main(int argc, char **argv) {
	unsigned long seed0 = argc > 1 ? strtoul(argv[1], 0, 0) : 1, nseeds = argc > 2 ? strtoul(argv[2], 0, 0) : 1;
	int mode = argc > 3 ? atoi(argv[3]) : 0; /* 0 any, 1 uniform exact (no frag), 2 no set2, 3 only set2 */
	verbose = argc > 4;
	for (unsigned long seed = seed0; seed < seed0 + nseeds && fails < 5; seed++) {
		rs = seed * 2654435761ull + 12345; rnd(); rnd();
		size_t minb = rr(1, 16), size, ublk = 0;
		if (mode == 1) { ublk = minb; size = ublk * rr(2, 12); exact_drop = 1; }
		else size = minb * rr(1, 12) + rr(0, minb - 1);
		r_buf_p rb = r_buf_alloc((uintptr_t)-1, size, minb);
		if (!rb) { printf("alloc fail\n"); return 2; }
		if (rnd() % 3 == 0) rb->round_num = (size_t)0 - rr(0, 3); /* near counter wrap; before any data */
		stream_len = 0; if (!stream) { stream_cap = 4096; stream = malloc(stream_cap); }
		rd_t rd[NR]; memset(rd, 0, sizeof(rd));
		size_t steps = 400;
		for (size_t st = 0; st < steps && fails < 5; st++) {
			int op = (int)(rnd() % 10);
			static uint8_t *pbuf; static size_t pgot;
			if (st == 0) { pbuf = NULL; pgot = 0; }
			if (op < 4) { /* writer */
				uint8_t *buf = NULL; size_t got, want; int use2;
				if (getenv("SPLIT") && pbuf != NULL && rnd() % 3) { buf = pbuf; got = pgot; pbuf = NULL; goto commit; }
				want = (mode == 1) ? ublk : rr(0, size + 1);
				if (rnd() % 4) want = (mode == 1) ? ublk : rr(0, minb * 2);
				got = r_buf_wbuf_get(rb, want, &buf);
				if (verbose) printf("[%zu] get(%zu)=%zu off=%td round=%zu idx=%zu\n", st, want, got, buf ? buf - rb->buf : -1, rb->round_num, rb->iov_index);
				if (got == 0) continue;
				if (buf < rb->buf || buf + got > rb->buf + size) { fail("wbuf range", seed, st); continue; }
				if (got < want) { fail("wbuf smaller than asked", seed, st); }
				if (got < minb) { fail("wbuf smaller than minb", seed, st); continue; }
				if (getenv("SPLIT")) { pbuf = buf; pgot = got; continue; }
commit:
				use2 = (mode == 3) || (mode == 0 && rnd() % 3 == 0);
				if (mode == 1) {
					stream_append(buf, ublk);
					if (r_buf_wbuf_set(rb, 0, ublk)) fail("set err", seed, st);
					if (verbose) printf("[%zu] set(0,%zu)\n", st, ublk);
				} else if (!use2) {
					size_t off = (rnd() % 3 == 0 && got > minb) ? rr(1, got - minb) : 0;
					size_t bs = rr(off + minb, got);
					memset(buf, 0xEE, off);
					stream_append(buf + off, bs - off);
					int e = r_buf_wbuf_set(rb, off, bs);
					if (verbose) printf("[%zu] set(%zu,%zu)=%d\n", st, off, bs, e);
					if (e) fail("set err", seed, st);
				} else {
					uint8_t *p = buf, *end = buf + got;
					int n = 0;
					while ((size_t)(end - p) >= minb && (n == 0 || rnd() % 2)) {
						size_t gap = (rnd() % 4 == 0 && (size_t)(end - p) > minb) ? rr(1, (size_t)(end - p) - minb) : 0;
						memset(p, 0xEE, gap); p += gap;
						size_t bs = rr(minb, (size_t)(end - p));
						stream_append(p, bs);
						int e = r_buf_wbuf_set2(rb, p, bs, NULL);
						if (verbose) printf("[%zu] set2(off=%td,%zu)=%d\n", st, p - rb->buf, bs, e);
						if (e) fail("set2 err", seed, st);
						p += bs; n++;
					}
				}
			} else { /* reader */
				rd_t *r = &rd[rnd() % NR];
				if (!getenv("FRESH") && rb->iov[0].iov_base == NULL) continue; /* known: fresh ring */
				if (!r->active) {
					/* start at writer position: data_size 0 */
					size_t hist = (rnd() % 2) ? 0 : rr(0, size * 2), d0 = ((size_t)-7);
					r_buf_rpos_init(rb, &r->rp, hist);
					{ size_t a0 = r_buf_data_avail_size(rb, &r->rp, &d0);
					  if (a0 == 0 && d0 != 0 && d0 != ((size_t)-7)) { if (verbose) printf("init(%zu) then immediate drop %zu\n", hist, d0); cnt_initdrop++; }
					  if (a0 > stream_len) { fail("init: avail > written", seed, st); a0 = 0; }
					  r->pos = stream_len - a0; }
					r->active = 1;
					if (verbose) printf("[%zu] reader init idx=%zu round=%zu\n", st, r->rp.iov_index, r->rp.round_num);
					continue;
				}
				size_t drop = ((size_t)-7), drop2 = ((size_t)-7), dsr = 0;
				if (verbose) printf("[%zu] reader %d before rp=(%zu,%zu,%zu) wr=(idx %zu, max %zu, round %zu, wpos %zu, flags %u)\n", st, (int)(r - rd), r->rp.iov_index, r->rp.iov_off, r->rp.round_num, rb->iov_index, rb->iov_index_max, rb->round_num, rb->wpos, rb->flags);
				size_t av = r_buf_data_avail_size(rb, &r->rp, &drop);
				if (verbose) printf("[%zu] avail=%zu drop=%zu (model pos=%zu total=%zu) rp=(%zu,%zu,%zu)\n", st, av, drop, r->pos, stream_len, r->rp.iov_index, r->rp.iov_off, r->rp.round_num);
				if (av == 0 && drop != 0 && drop != ((size_t)-7)) {
					cnt_drop++;
					if (exact_drop && drop != stream_len - r->pos && (getenv("OFFX") || drop != stream_len - (r->pos - r->pos % ublk))) { cnt_dropmis++; char b[200]; snprintf(b, sizeof b, "drop=%zu but skipped=%zu", drop, stream_len - r->pos); fail(b, seed, st); }
					r->pos = stream_len; /* resynchronised to writer */
				}
				iovec_t iov[64];
				size_t full = (rnd() % 2) ? (size_t)~0 : (rnd() % 2 ? av : rr(1, size * 2));
				size_t ic = (rnd() % 3 == 0) ? rr(1, 4) : 64;
				{ r_buf_rpos_t c = r->rp; int f = r_buf_rpos_check_fast(rb, &c); if (!f) fail("check_fast says invalid right after avail", seed, st); }
				size_t n = r_buf_data_get(rb, &r->rp, full, iov, ic, &drop2, &dsr);
				if (n > ic) fail("more regions than slots", seed, st);
				if (ic < 64 && full == (size_t)~0) full -= 1; /* not a full read */
				size_t tot = 0;
				uint8_t tmp[8192];
				for (size_t i = 0; i < n; i++) {
					if (iov[i].iov_base < rb->buf || iov[i].iov_base + iov[i].iov_len > rb->buf + size) { fail("region out of ring", seed, st); goto next; }
					memcpy(tmp + tot, iov[i].iov_base, iov[i].iov_len);
					tot += iov[i].iov_len;
				}
				if (verbose) printf("[%zu] get(%zu)=%zu regions tot=%zu dsr=%zu drop=%zu\n", st, full, n, tot, dsr, drop2);
				if (n == 0 && drop2 != 0 && drop2 != ((size_t)-7)) { fail("drop reported by get right after avail", seed, st); r->pos = stream_len; }
				if (tot != dsr) fail("data_size_ret != sum of regions", seed, st);
				if (full != (size_t)~0 && tot > full) fail("returned more than asked", seed, st);
				if (r->pos + tot > stream_len) { fail("returned more than written", seed, st); goto next; }
				if (memcmp(tmp, stream + r->pos, tot) != 0) { fail("bytes differ from stream at reader position", seed, st); goto next; }
				if (full == (size_t)~0 && tot != av) { char b[200]; snprintf(b, sizeof b, "avail=%zu full read=%zu", av, tot); fail(b, seed, st); }
				if (av != stream_len - r->pos && !(av == 0 && drop)) { char b[200]; snprintf(b, sizeof b, "avail=%zu model unread=%zu", av, stream_len - r->pos); fail(b, seed, st); }
				/* advance */
				if (tot) {
					size_t adv = (rnd() % 2) ? tot : rr(0, tot);
					r_buf_rpos_inc(rb, &r->rp, adv);
					r->pos += adv;
					if (verbose) printf("[%zu] inc(%zu) rp=(%zu,%zu,%zu)\n", st, adv, r->rp.iov_index, r->rp.iov_off, r->rp.round_num);
				}
			}
next:;
		}
		r_buf_free(rb);
	}
	printf("done fails=%d drops=%zu initdrops=%zu\n", fails, cnt_drop, cnt_initdrop);
	return fails ? 1 : 0;
}
