/* A reader that attaches to a ring into which nothing was written yet:
 * r_buf_data_avail_size() must be 0 (a full read returns 0 bytes). */
#include "../hdr.h"
int main(void) {
	r_buf_p rb = r_buf_alloc((uintptr_t)-1, 64, 8);
	r_buf_rpos_t rp; iovec_t iov[8]; size_t drop = 0, got = 0, avail, n;
	if (!rb) return (2);
	r_buf_rpos_init(rb, &rp, 0);
	avail = r_buf_data_avail_size(rb, &rp, &drop);
	n = r_buf_data_get(rb, &rp, (size_t)~0, iov, 8, &drop, &got);
	printf("empty ring: avail=%zu (ring buf address %p), full read: regions=%zu bytes=%zu\n",
	    avail, (void*)rb->buf, n, got);
	if (avail != got) { printf("FAIL: available size %zu != bytes of a full read %zu\n", avail, got); return (1); }
	printf("OK\n");
	return (0);
}
