/* Ring of 5 blocks of 8 bytes.  The reader consumes round 0 completely, then
 * the writer writes a whole round and one more block (two wraps).  The reader
 * skipped exactly 48 bytes; the drop report must say so. */
#include "../hdr.h"
int main(void) {
	r_buf_p rb = r_buf_alloc((uintptr_t)-1, 40, 8);
	r_buf_rpos_t rp; iovec_t iov[8]; size_t drop = 0, got = 0, avail, n, i, before;
	if (!rb) return (2);
	r_buf_rpos_init(rb, &rp, 0);
	for (i = 0; i < 5; i ++) if (wr(rb, 8)) return (2);
	n = r_buf_data_get(rb, &rp, (size_t)~0, iov, 8, &drop, &got);
	if (got != 40 || drop != 0) { printf("unexpected: got=%zu drop=%zu\n", got, drop); return (2); }
	r_buf_rpos_inc(rb, &rp, got);           /* reader is fully caught up */
	before = g_total;
	for (i = 0; i < 6; i ++) if (wr(rb, 8)) return (2); /* round 1 complete + 1 block of round 2 */
	avail = r_buf_data_avail_size(rb, &rp, &drop);
	printf("written since the reader's position: %zu, avail=%zu, reported drop=%zu\n",
	    g_total - before, avail, drop);
	if (avail == 0 && drop != (g_total - before)) {
		printf("FAIL: dropped amount %zu does not account for the %zu skipped bytes\n", drop, g_total - before);
		return (1);
	}
	printf("OK\n");
	return (0);
}
