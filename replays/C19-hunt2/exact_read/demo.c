/* One committed block of 8 bytes is pending.  avail says 8; reading exactly
 * the available amount must return these 8 bytes. */
#include "../hdr.h"
int main(void) {
	r_buf_p rb = r_buf_alloc((uintptr_t)-1, 64, 8);
	r_buf_rpos_t rp; iovec_t iov[8]; size_t drop = 0, got = 0, got9 = 0, avail, n, n9;
	uint8_t *b;
	if (!rb) return (2);
	r_buf_wbuf_get(rb, 8, &b);               /* writer has started, nothing committed */
	r_buf_rpos_init(rb, &rp, 0);
	if (wr(rb, 8)) return (2);
	avail = r_buf_data_avail_size(rb, &rp, &drop);
	n = r_buf_data_get(rb, &rp, avail, iov, 8, &drop, &got);
	n9 = r_buf_data_get(rb, &rp, avail + 1, iov, 8, &drop, &got9);
	printf("avail=%zu; data_get(%zu): regions=%zu bytes=%zu; data_get(%zu): regions=%zu bytes=%zu\n",
	    avail, avail, n, got, avail + 1, n9, got9);
	if (got != avail) { printf("FAIL: a read of the available size returned %zu of %zu bytes\n", got, avail); return (1); }
	printf("OK\n");
	return (0);
}
