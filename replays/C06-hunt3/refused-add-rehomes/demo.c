/* tpt_ev_add*() stores the thread argument into tp_udata->tpt BEFORE validation.
 * A refused (malformed) add that names another pool thread therefore re-homes the
 * live registration: the following delete goes to the wrong epoll, reports
 * ENOENT, forgets the registration (tpdata = 0) - and the event keeps firing on
 * the original thread and cannot be deleted any more. */
#include <sys/param.h>
#include <sys/types.h>
#include <inttypes.h>
#include <stdlib.h>
#include <stdio.h>
#include <unistd.h>
#include <string.h>
#include <errno.h>
#include <fcntl.h>
#include "al/os.h"
#include "threadpool/threadpool.h"
#include "threadpool/threadpool_msg_sys.h"

typedef struct { tp_udata_t u; volatile int cnt; } rec_t;
static void cb(tp_event_p ev, tp_udata_p u) {
	rec_t *p = (rec_t*)u; char c;
	(void)ev;
	if (0 < read((int)u->ident, &c, 1)) p->cnt ++;
}

int main(void) {
	tp_settings_t s; tp_p tp = NULL; tpt_p A, B; rec_t r; int p[2], e1, e2, e3, e4, fail = 0;

	setvbuf(stdout, NULL, _IONBF, 0);
	tp_settings_def(&s); s.threads_max = 2; s.flags = 0;
	if (0 != tp_create(&s, &tp) || 0 != tp_threads_create(tp, 0)) return (2);
	usleep(200000);
	A = tp_thread_get(tp, 0); B = tp_thread_get(tp, 1);
	if (0 != pipe2(p, O_NONBLOCK)) return (2);
	memset(&r, 0, sizeof(r)); r.u.cb_func = cb; r.u.ident = (uintptr_t)p[0];

	e1 = tpt_ev_add_args(A, TP_EV_READ, 0, 0, 0, &r.u);
	write(p[1], "a", 1); usleep(100000);
	printf("add(A, READ, persistent) = %d, callbacks after 1 byte: %d, udata.tpt is A: %d\n", e1, r.cnt, r.u.tpt == A);
	/* Malformed: unknown flag bit 3. */
	e2 = tpt_ev_add_args(B, TP_EV_READ, 0x0008, 0, 0, &r.u);
	printf("add(B, READ, flags=0x8 malformed) = %d (EINVAL=%d), udata.tpt is A: %d, is B: %d\n", e2, EINVAL, r.u.tpt == A, r.u.tpt == B);
	e3 = tpt_ev_del_args1(TP_EV_READ, &r.u);
	printf("del(READ) = %d (expected 0)\n", e3);
	r.cnt = 0;
	write(p[1], "b", 1); usleep(100000);
	printf("callbacks after del returned and 1 more byte was written: %d (expected 0)\n", r.cnt);
	e4 = tpt_ev_del_args1(TP_EV_READ, &r.u);
	printf("second del(READ) = %d\n", e4);
	if (EINVAL != e2) { printf("FAIL: malformed add accepted\n"); fail = 1; }
	if (r.u.tpt != A && 0 != e2) { printf("FAIL: refused add changed the owner thread of the live registration\n"); fail = 1; }
	if (0 != e3) { printf("FAIL: delete of a live registration returned %d\n", e3); fail = 1; }
	if (0 != r.cnt) { printf("FAIL: deleted event fired %d time(s) after the delete call returned\n", r.cnt); fail = 1; }
	/* cleanup so that the pool can stop quietly */
	r.u.tpt = A; r.u.tpdata = 0; tpt_ev_add_args(A, TP_EV_READ, 0, 0, 0, &r.u); tpt_ev_del_args1(TP_EV_READ, &r.u);
	tp_destroy(tp);
	if (0 == fail) printf("OK\n");
	return (fail);
}
