/* A TP_F_ONESHOT timer registered on the pool virtual thread is delivered more
 * than once: the timerfd is in the shared epoll without EPOLLONESHOT, so several
 * workers fetch the same level-triggered event.  The worker that wins read()
 * deletes the timer and sets tp_udata->tpdata = 0; a worker that fetched the
 * event too but looks at tpdata after that decodes 0 as "persistent TP_EV_READ,
 * enabled" and calls the callback again, with ev->event == TP_EV_READ.
 *
 * Mode "sched": epoll_wait is wrapped at link time and only ADDS DELAYS after the
 *   nested fetch from the virtual thread's epoll (first fetcher 5 ms, the others
 *   50 ms): a legal schedule, deterministic.
 * Mode "stress": no delays, 16 workers, up to 60000 timers; natural race. */
#include <sys/param.h>
#include <sys/types.h>
#include <sys/epoll.h>
#include <inttypes.h>
#include <stdlib.h>
#include <stdio.h>
#include <unistd.h>
#include <string.h>
#include <errno.h>
#include <time.h>
#include "al/os.h"
#include "threadpool/threadpool.h"
#include "threadpool/threadpool_msg_sys.h"

typedef struct { tp_udata_t u; volatile int cnt; volatile int nontimer; } rec_t;
static rec_t r;
static volatile int g_delay, g_fetchers;

int __real_epoll_wait(int epfd, struct epoll_event *ev, int max, int timeout);
int __wrap_epoll_wait(int epfd, struct epoll_event *ev, int max, int timeout) {
	int ret = __real_epoll_wait(epfd, ev, max, timeout);
	if (0 != g_delay && 0 == timeout && 1 == ret && ev->data.ptr == (void*)&r.u) {
		usleep((0 == __sync_fetch_and_add(&g_fetchers, 1)) ? 5000 : 50000);
	}
	return (ret);
}

static void cb(tp_event_p ev, tp_udata_p u) {
	rec_t *p = (rec_t*)u;
	int n = __sync_add_and_fetch(&p->cnt, 1);
	if (TP_EV_TIMER != ev->event) __sync_fetch_and_add(&p->nontimer, 1);
	printf("  callback #%d: ev->event=%u (%s) flags=0x%x data=%"PRIu64"\n", n, ev->event,
	    (TP_EV_TIMER == ev->event ? "TIMER" : "not a timer"), ev->flags, ev->data);
}

int main(int argc, char **argv) {
	int stress = (argc > 1 && 0 == strcmp(argv[1], "stress"));
	size_t nthr = (stress ? 16 : 4);
	int iters = (stress ? 60000 : 1), bad = 0, e;
	tp_settings_t s; tp_p tp = NULL; tpt_p pvt;

	setvbuf(stdout, NULL, _IONBF, 0);
	tp_settings_def(&s); s.threads_max = nthr; s.flags = 0;
	if (0 != tp_create(&s, &tp) || 0 != tp_threads_create(tp, 0)) return (2);
	usleep(200000);
	pvt = tp_thread_get_pvt(tp);
	memset(&r, 0, sizeof(r)); r.u.cb_func = cb; r.u.ident = 777;
	g_delay = !stress;
	for (int i = 0; i < iters && 0 == bad; i ++) {
		r.cnt = 0; r.nontimer = 0; r.u.tpdata = 0; g_fetchers = 0;
		e = tpt_ev_add_args(pvt, TP_EV_TIMER, TP_F_ONESHOT, TP_FF_T_USEC, 50, &r.u);
		if (0 != e) { printf("add: %d\n", e); return (2); }
		for (int w = 0; 0 == r.cnt && w < 2000; w ++) usleep(100);
		usleep(stress ? 300 : 200000);
		if (1 != r.cnt) { bad ++; printf("timer %d: one-shot timer called back %d times (%d not as TP_EV_TIMER)\n", i, r.cnt, r.nontimer); }
	}
	g_delay = 0;
	tp_destroy(tp);
	if (bad) { printf("FAIL: TP_F_ONESHOT timer on the pool virtual thread fired more than once\n"); return (1); }
	printf("OK\n");
	return (0);
}
