/* Delete/disable of TP_EV_PROC and TP_EV_TIMER do not check the registered kind
 * (the read/write branch does since the first repair): del(TP_EV_PROC) removes a
 * live timer, del(TP_EV_TIMER) removes a live process watch, both return 0. */
#include <sys/param.h>
#include <sys/types.h>
#include <sys/wait.h>
#include <inttypes.h>
#include <stdlib.h>
#include <stdio.h>
#include <unistd.h>
#include <string.h>
#include <errno.h>
#include <signal.h>
#include "al/os.h"
#include "threadpool/threadpool.h"
#include "threadpool/threadpool_msg_sys.h"

typedef struct { tp_udata_t u; volatile int cnt; } rec_t;
static void cb(tp_event_p ev, tp_udata_p u) { (void)ev; ((rec_t*)u)->cnt ++; }

int main(void) {
	tp_settings_t s; tp_p tp = NULL; tpt_p A; rec_t t, pr; int e, fail = 0; pid_t pid;

	setvbuf(stdout, NULL, _IONBF, 0);
	tp_settings_def(&s); s.threads_max = 1; s.flags = 0;
	if (0 != tp_create(&s, &tp) || 0 != tp_threads_create(tp, 0)) return (2);
	usleep(200000);
	A = tp_thread_get(tp, 0);

	/* 1. periodic 20 ms timer, then del(TP_EV_PROC) on its tp_udata. */
	memset(&t, 0, sizeof(t)); t.u.cb_func = cb; t.u.ident = 5;
	e = tpt_ev_add_args(A, TP_EV_TIMER, 0, TP_FF_T_MSEC, 20, &t.u);
	usleep(110000);
	printf("timer add = %d, fired %d times in 110 ms\n", e, t.cnt);
	e = tpt_ev_del_args1(TP_EV_PROC, &t.u);
	t.cnt = 0; usleep(110000);
	printf("del(TP_EV_PROC) on the timer registration = %d (expected ENOENT=%d); timer fired %d times afterwards (expected ~5)\n", e, ENOENT, t.cnt);
	if (0 == e || 0 == t.cnt) { printf("FAIL: del(TP_EV_PROC) deleted a TP_EV_TIMER registration\n"); fail = 1; }
	tpt_ev_del_args1(TP_EV_TIMER, &t.u);

	/* 2. process watch, then del(TP_EV_TIMER) / disable(TP_EV_TIMER) on its tp_udata. */
	pid = fork();
	if (0 == pid) { usleep(300000); _exit(7); }
	memset(&pr, 0, sizeof(pr)); pr.u.cb_func = cb; pr.u.ident = (uintptr_t)pid;
	e = tpt_ev_add_args(A, TP_EV_PROC, 0, TP_FF_P_EXIT, 0, &pr.u);
	printf("proc add = %d\n", e);
	e = tpt_ev_del_args1(TP_EV_TIMER, &pr.u);
	usleep(600000);
	printf("del(TP_EV_TIMER) on the process registration = %d (expected ENOENT=%d); exit callbacks: %d (expected 1)\n", e, ENOENT, pr.cnt);
	if (0 == e || 1 != pr.cnt) { printf("FAIL: del(TP_EV_TIMER) deleted a TP_EV_PROC registration\n"); fail = 1; }
	waitpid(pid, NULL, 0);
	tp_destroy(tp);
	if (0 == fail) printf("OK\n");
	return (fail);
}
