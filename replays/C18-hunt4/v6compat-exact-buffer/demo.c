/* sa_addr_to_str()/sa_addr_port_to_str(): an IPv6 address in ::/96 is written in
 * the RFC 5952 form ("::1:80"), but the buffer must be large enough for the
 * longer mixed text inet_ntop() produces first ("::0.1.0.128"): a buffer that
 * holds the final text exactly (strlen + 1, or any size up to the mixed
 * length) is refused with ENOSPC. */
#include <sys/param.h>
#include <sys/types.h>
#include <inttypes.h>
#include <string.h>
#include <stdio.h>
#include <errno.h>
#include "net/socket_address.h"

static int fails = 0;

static void
probe(const char *text, uint16_t port) {
	struct sockaddr_storage ss;
	char full[128], exp[128], buf[128];
	size_t n, el, bs;
	int e;

	if (0 != sa_addr_from_str(&ss, text, strlen(text))) {
		printf("FAIL: cannot parse %s\n", text);
		fails ++;
		return;
	}
	sa_port_set(&ss, port);
	/* Reference: what the library itself writes into a large buffer. */
	if (0 != port) {
		e = sa_addr_port_to_str(&ss, full, sizeof(full), &n);
		snprintf(exp, sizeof(exp), "[%s]:%u", text, port);
	} else {
		e = sa_addr_to_str(&ss, full, sizeof(full), &n);
		snprintf(exp, sizeof(exp), "%s", text);
	}
	if (0 != e || 0 != strcmp(full, exp)) {
		printf("FAIL: big buffer: e=%d '%s' expected '%s'\n", e, full, exp);
		fails ++;
		return;
	}
	el = strlen(exp);
	for (bs = (el + 1); bs <= (el + 12); bs ++) { /* Every one of these fits. */
		memset(buf, '#', sizeof(buf));
		n = 0;
		e = (0 != port) ? sa_addr_port_to_str(&ss, buf, bs, &n) :
		    sa_addr_to_str(&ss, buf, bs, &n);
		if (0 != e || 0 != strcmp(buf, exp)) {
			printf("FAIL: '%s' (%zu chars + NUL) into a %zu byte buffer: error %d (%s)\n",
			    exp, el, bs, e, strerror(e));
			fails ++;
		}
	}
}

int
main(void) {
	probe("::1:80", 0);	/* The address the fix commit names. */
	probe("::1:80", 8080);
	probe("::a:0", 0);
	probe("::ffff:0", 0);
	probe("::102:304", 53);
	probe("::1", 0);	/* Controls: not mixed in inet_ntop(), pass. */
	probe("2001:db8::1", 80);
	printf("%s (%d)\n", (fails ? "FAIL" : "OK"), fails);
	return (fails ? 1 : 0);
}
