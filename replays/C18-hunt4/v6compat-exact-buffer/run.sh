#!/bin/sh
# usage: run.sh <tree>
T="${1:-/tmp/hunt/C18}"
D="$(cd "$(dirname "$0")" && pwd)"
O="$(mktemp -d)"
F="-DHAVE_ACCEPT4 -DHAVE_EXPLICIT_BZERO -DHAVE_MEMMEM -DHAVE_MEMRCHR -DHAVE_PIPE2 -DHAVE_POSIX_SPAWN_FILE_ACTIONS_ADDCLOSEFROM_NP -DHAVE_PTHREAD_SETNAME_NP -DHAVE_REALLOCARRAY -DHAVE_SOCK_CLOEXEC -DHAVE_SOCK_NONBLOCK -DHAVE_STRNCASECMP -DLINUX -D_GNU_SOURCE -D__USE_GNU=1"
gcc $F -I"$T/include" -w -g -O1 -fsanitize=address,undefined -include stdio.h \
    "$D/demo.c" "$T/src/net/socket_address.c" -o "$O/demo" || exit 2
"$O/demo"
rc=$?
rm -rf "$O"
exit $rc
