/* src/net/socket_address.c calls snprintf() (the ::/96 rewrite added to
 * sa_addr_to_str) without including <stdio.h>: the call is an implicit function
 * declaration.  gcc 12 / clang 14 only warn; every compiler that follows C99
 * (gcc >= 14, clang >= 16, or -Werror=implicit-function-declaration /
 * -pedantic-errors here) refuses the file, so none of the socket address
 * text functions can be built.  run.sh compiles the unmodified source. */
int main(void) { return (0); }
