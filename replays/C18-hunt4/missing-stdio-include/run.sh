#!/bin/sh
# usage: run.sh <tree>
T="${1:-/tmp/hunt/C18}"
O="$(mktemp -d)"
F="-DHAVE_ACCEPT4 -DHAVE_EXPLICIT_BZERO -DHAVE_MEMMEM -DHAVE_MEMRCHR -DHAVE_PIPE2 -DHAVE_POSIX_SPAWN_FILE_ACTIONS_ADDCLOSEFROM_NP -DHAVE_PTHREAD_SETNAME_NP -DHAVE_REALLOCARRAY -DHAVE_SOCK_CLOEXEC -DHAVE_SOCK_NONBLOCK -DHAVE_STRNCASECMP -DLINUX -D_GNU_SOURCE -D__USE_GNU=1"
rc=0
for CC in gcc clang; do
	if ! $CC $F -I"$T/include" -Werror=implicit-function-declaration -c \
	    "$T/src/net/socket_address.c" -o "$O/sa.o" 2>"$O/err.txt"; then
		echo "FAIL: $CC refuses src/net/socket_address.c:"
		grep -m2 "snprintf" "$O/err.txt"
		rc=1
	fi
done
[ $rc -eq 0 ] && echo OK
rm -rf "$O"
exit $rc
