/*
 * Hash values numerically >= n are mapped with bn_mod_reduce(), i.e.
 *     e = (H mod (n - 1)) + 1
 * (the formula meant for turning random bytes into a nonce / private key in [1, n-1])
 * instead of the standard's  e = H mod n  (ECDSA: X9.62 / SEC 1 4.1.3-4.1.4, all arithmetic mod n;
 * GOST R 34.10-2012 6.1 step 2: e = alpha mod q).
 * ecdsa_sign(), ecdsa_verify() and ecdsa_verify_priv_key() all do it, so the library agrees with
 * itself, but not with any other implementation:
 *   - brainpoolP256r1 (n = a9fb57db...): 34% of all SHA-256 digests are >= n, e.g. SHA-256("abc") = ba7816bf...
 *   - GOST CryptoPro-B / Test / tc26-512-B parameter sets (q ~ 2^255 / 2^511): every hash with the top bit set.
 *
 * Independent side: OpenSSL ECDSA_do_sign/ECDSA_do_verify for ECDSA, and the GOST R 34.10 verification
 * equations written with OpenSSL BIGNUM/EC_POINT for GOST.
 */
#include <sys/param.h>
#include <sys/types.h>
#include <inttypes.h>
#include <stdlib.h>
#include <stdio.h>
#include <string.h>
#include <errno.h>

#define BN_DIGIT_BIT_CNT 	64
#define BN_BIT_LEN		1408
#define BN_CC_MULL_DIV		1
#define BN_NO_POINTERS_CHK	1
#define BN_MOD_REDUCE_ALGO	BN_MOD_REDUCE_ALGO_BASIC
#define EC_USE_PROJECTIVE	1
#define EC_PROJ_REPEAT_DOUBLE	1
#define EC_PROJ_ADD_MIX		1
#define EC_PF_FXP_MULT_ALGO	EC_PF_FXP_MULT_ALGO_COMB_2T
#define EC_PF_FXP_MULT_WIN_BITS	9
#define EC_PF_UNKPT_MULT_ALGO	EC_PF_UNKPT_MULT_ALGO_COMB_1T
#define EC_PF_UNKPT_MULT_WIN_BITS 2
#define EC_PF_TWIN_MULT_ALGO	EC_PF_TWIN_MULT_ALGO_INTER
#define EC_DISABLE_PUB_KEY_CHK	1

#include "crypto/dsa/ecdsa.h"

#include <openssl/bn.h>
#include <openssl/ec.h>
#include <openssl/ecdsa.h>
#include <openssl/obj_mac.h>
#include <openssl/sha.h>

static ec_curve_t curve;
static int failures = 0;

#define CHECK(cond, ...) do { printf(__VA_ARGS__); if (cond) printf("  ok\n"); else { printf("  <-- FAIL\n"); failures ++; } } while (0)

static void
ecdsa_case(const char *lcb_name, int nid, const char *msg) {
	ec_curve_str_p cs = ecdsa_curve_str_get_by_name(lcb_name, strlen(lcb_name));
	uint8_t hash[32], d[32], k[32], r[32], s[32], qx[32], qy[32];
	size_t sign_size = 0, qsz = 0, i;
	int res, ores;

	ecdsa_curve_from_str(cs, &curve);
	SHA256((const uint8_t*)msg, strlen(msg), hash);
	for (i = 0; i < 32; i ++) { /* Any key / nonce below n. */
		d[i] = (uint8_t)(0x11 + i);
		k[i] = (uint8_t)(0x5a ^ (i * 7));
	}
	printf("--- %s, SHA-256(\"%s\") = %02x%02x%02x%02x..., n = %.8s...\n", lcb_name, msg,
	    hash[0], hash[1], hash[2], hash[3], cs->n);

	/* OpenSSL key object with the same key pair. */
	EC_KEY *ok = EC_KEY_new_by_curve_name(nid);
	const EC_GROUP *g = EC_KEY_get0_group(ok);
	BIGNUM *bd = BN_bin2bn(d, 32, NULL), *x = BN_new(), *y = BN_new();
	EC_POINT *Q = EC_POINT_new(g);
	EC_POINT_mul(g, Q, bd, NULL, NULL, NULL);
	EC_KEY_set_private_key(ok, bd);
	EC_KEY_set_public_key(ok, Q);
	EC_POINT_get_affine_coordinates(g, Q, x, y, NULL);
	BN_bn2binpad(x, qx, 32);
	BN_bn2binpad(y, qy, 32);
	qsz = 32;

	/* 1. library signs, library verifies, OpenSSL verifies. */
	res = ecdsa_sign_be(&curve, hash, 32, d, 32, k, 32, r, s, &sign_size);
	CHECK(0 == res, "liblcb ecdsa_sign_be                      = %d", res);
	res = ecdsa_verify_be(&curve, hash, 32, r, s, sign_size, qx, qy, qsz);
	CHECK(0 == res, "liblcb ecdsa_verify_be(own signature)     = %d", res);
	ECDSA_SIG *sig = ECDSA_SIG_new();
	ECDSA_SIG_set0(sig, BN_bin2bn(r, 32, NULL), BN_bin2bn(s, 32, NULL));
	ores = ECDSA_do_verify(hash, 32, sig, ok);
	CHECK(1 == ores, "OpenSSL ECDSA_do_verify(liblcb signature) = %d (1 = valid)", ores);

	/* 2. OpenSSL signs, library verifies (public and private key variants). */
	ECDSA_SIG *sig2 = ECDSA_do_sign(hash, 32, ok);
	const BIGNUM *br, *bs;
	ECDSA_SIG_get0(sig2, &br, &bs);
	BN_bn2binpad(br, r, 32);
	BN_bn2binpad(bs, s, 32);
	ores = ECDSA_do_verify(hash, 32, sig2, ok);
	CHECK(1 == ores, "OpenSSL ECDSA_do_verify(OpenSSL signature)= %d", ores);
	res = ecdsa_verify_be(&curve, hash, 32, r, s, 32, qx, qy, qsz);
	CHECK(0 == res, "liblcb ecdsa_verify_be(OpenSSL signature) = %d (0 = valid, -2 = bad signature)", res);
	res = ecdsa_verify_priv_key_be(&curve, hash, 32, r, s, 32, d, 32);
	CHECK(0 == res, "liblcb ecdsa_verify_priv_key_be(OpenSSL s.)= %d", res);
}

/* GOST R 34.10-2012 6.2 verification, written with OpenSSL primitives. 1 = valid. */
static int
gost_ref_verify(ec_curve_str_p cs, const uint8_t *hash, size_t hl, const uint8_t *r, const uint8_t *s,
    size_t sl, const uint8_t *qx, const uint8_t *qy) {
	BN_CTX *ctx = BN_CTX_new();
	BIGNUM *p = NULL, *a = NULL, *b = NULL, *gx = NULL, *gy = NULL, *q = NULL, *h = BN_new();
	BN_hex2bn(&p, cs->p); BN_hex2bn(&a, cs->a); BN_hex2bn(&b, cs->b);
	BN_hex2bn(&gx, cs->Gx); BN_hex2bn(&gy, cs->Gy); BN_hex2bn(&q, cs->n); BN_set_word(h, cs->h);
	EC_GROUP *g = EC_GROUP_new_curve_GFp(p, a, b, ctx);
	EC_POINT *P = EC_POINT_new(g), *Q = EC_POINT_new(g), *C = EC_POINT_new(g);
	EC_POINT_set_affine_coordinates(g, P, gx, gy, ctx);
	EC_GROUP_set_generator(g, P, q, h);
	BIGNUM *x = BN_bin2bn(qx, sl, NULL), *y = BN_bin2bn(qy, sl, NULL);
	if (1 != EC_POINT_set_affine_coordinates(g, Q, x, y, ctx))
		return (0);
	BIGNUM *br = BN_bin2bn(r, sl, NULL), *bs = BN_bin2bn(s, sl, NULL);
	BIGNUM *e = BN_bin2bn(hash, hl, NULL), *v = BN_new(), *z1 = BN_new(), *z2 = BN_new(), *xc = BN_new();
	if (BN_is_zero(br) || BN_is_zero(bs) || BN_cmp(br, q) >= 0 || BN_cmp(bs, q) >= 0)
		return (0);				/* step 1 */
	BN_nnmod(e, e, q, ctx);				/* step 3: e = alpha mod q */
	if (BN_is_zero(e)) BN_one(e);
	BN_mod_inverse(v, e, q, ctx);			/* step 4 */
	BN_mod_mul(z1, bs, v, q, ctx);			/* step 5 */
	BN_mod_mul(z2, br, v, q, ctx);
	BN_sub(z2, q, z2);
	EC_POINT_mul(g, C, z1, Q, z2, ctx);		/* step 6: C = z1*P + z2*Q */
	if (EC_POINT_is_at_infinity(g, C))
		return (0);
	EC_POINT_get_affine_coordinates(g, C, xc, NULL, ctx);
	BN_nnmod(xc, xc, q, ctx);
	return (0 == BN_cmp(xc, br));			/* step 7 */
}

static void
gost_case(const char *lcb_name, uint8_t top_byte) {
	ec_curve_str_p cs = ecdsa_curve_str_get_by_name(lcb_name, strlen(lcb_name));
	uint8_t hash[32], d[32], k[32], r[32], s[32], qx[32], qy[32];
	size_t sign_size = 0, qsz = 0, i;
	int res, rres;

	ecdsa_curve_from_str(cs, &curve);
	for (i = 0; i < 32; i ++) {
		hash[i] = (uint8_t)(0xc3 ^ (i * 29));
		d[i] = (uint8_t)(0x21 + i);
		k[i] = (uint8_t)(0x3a ^ (i * 5));
	}
	hash[0] = top_byte;
	d[0] = 0x01; k[0] = 0x02; /* below q */
	printf("--- %s, hash = %02x%02x%02x%02x..., q = %.8s...\n", lcb_name,
	    hash[0], hash[1], hash[2], hash[3], cs->n);
	res = ecdsa_recover_pub_key_from_priv_key_be(&curve, d, 32, 0, qx, qy, &qsz);
	CHECK(0 == res && 32 == qsz, "liblcb public key from private key        = %d", res);
	res = ecdsa_sign_be(&curve, hash, 32, d, 32, k, 32, r, s, &sign_size);
	CHECK(0 == res, "liblcb ecdsa_sign_be                      = %d", res);
	res = ecdsa_verify_be(&curve, hash, 32, r, s, sign_size, qx, qy, qsz);
	CHECK(0 == res, "liblcb ecdsa_verify_be(own signature)     = %d", res);
	rres = gost_ref_verify(cs, hash, 32, r, s, 32, qx, qy);
	CHECK(1 == rres, "GOST R 34.10 reference verify(liblcb sig.)= %d (1 = valid)", rres);
}

int
main(void) {
	printf("=== control: hash < n, both directions must and do agree ===\n");
	ecdsa_case("brainpoolP256r1", NID_brainpoolP256r1, "hello");	/* 2cf24dba... < n */
	gost_case("id-gostR3410-2001-CryptoPro-B-ParamSet", 0x7f);
	if (0 != failures) {
		printf("control failed?!\n");
		return (2);
	}
	printf("=== hash >= n ===\n");
	ecdsa_case("brainpoolP256r1", NID_brainpoolP256r1, "abc");	/* ba7816bf... >= n = a9fb57db... */
	gost_case("id-gostR3410-2001-CryptoPro-B-ParamSet", 0x9f);	/* >= q = 80000000... */
	if (0 != failures) {
		printf("FAIL: %d disagreements with the standard for hash >= n\n", failures);
		return (1);
	}
	printf("OK\n");
	return (0);
}
