#!/bin/sh
# usage: run.sh <tree>     (needs OpenSSL libcrypto + headers as the independent implementation)
T=${1:-/tmp/hunt/C03}
D=$(dirname "$0")
CF="-DHAVE_ACCEPT4 -DHAVE_EXPLICIT_BZERO -DHAVE_MEMMEM -DHAVE_MEMRCHR -DHAVE_PIPE2 -DHAVE_POSIX_SPAWN_FILE_ACTIONS_ADDCLOSEFROM_NP -DHAVE_PTHREAD_SETNAME_NP -DHAVE_REALLOCARRAY -DHAVE_SOCK_CLOEXEC -DHAVE_SOCK_NONBLOCK -DHAVE_STRNCASECMP -DLINUX -D_GNU_SOURCE -D__USE_GNU=1"
O=$(mktemp -d)
gcc -O1 -g -w $CF -I"$T/include" "$D/demo.c" -o "$O/demo" -lcrypto || exit 2
"$O/demo"; rc=$?
rm -rf "$O"
exit $rc
