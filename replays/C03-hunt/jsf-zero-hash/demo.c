/*
 * With the joint-sparse-form twin multiplication (EC_PF_TWIN_MULT_ALGO_JOINT - the header's DEFAULT
 * when EC_PF_TWIN_MULT_ALGO is not defined) ecdsa_verify() breaks on every ECDSA signature whose hash is
 * e = 0 (mod n), e.g. an all-zero hash: u1 = e * s^-1 = 0, and bn_calc_jsf(a = u1, ...) reads
 * tmA.num[0] although tmA.digits == 0.  bn_assign_init() copied 0 digits, so num[0] is whatever the
 * stack held.  Depending on that garbage the verifier
 *   - rejects a valid signature (spurious non-zero JSF digits for u1), or
 *   - never leaves the while loop (carry d0 stays 1) and writes behind jsf[BN_BIT_LEN] on the stack of
 *     ec_point_*_joint_twin_mult() until it crashes.
 * The signature itself is perfectly standard: OpenSSL accepts it (checked when built with -DWITH_OPENSSL).
 *
 * This file uses the library's default configuration: nothing is defined before the include.
 */
#include <sys/param.h>
#include <sys/types.h>
#include <inttypes.h>
#include <stdlib.h>
#include <stdio.h>
#include <string.h>
#include <errno.h>

#ifdef PROJECTIVE_JOINT /* Second flavour: the configuration of tests/ecdsa/main.c with its commented-out JOINT alternative. */
#define BN_DIGIT_BIT_CNT 	64
#define BN_BIT_LEN		1408
#define BN_CC_MULL_DIV		1
#define BN_NO_POINTERS_CHK	1
#define BN_MOD_REDUCE_ALGO	BN_MOD_REDUCE_ALGO_BASIC
#define EC_USE_PROJECTIVE	1
#define EC_PROJ_REPEAT_DOUBLE	1
#define EC_PROJ_ADD_MIX		1
#define EC_PF_FXP_MULT_ALGO	EC_PF_FXP_MULT_ALGO_COMB_2T
#define EC_PF_FXP_MULT_WIN_BITS	9
#define EC_PF_UNKPT_MULT_ALGO	EC_PF_UNKPT_MULT_ALGO_COMB_1T
#define EC_PF_UNKPT_MULT_WIN_BITS 2
#define EC_PF_TWIN_MULT_ALGO	EC_PF_TWIN_MULT_ALGO_JOINT
#define EC_DISABLE_PUB_KEY_CHK	1
#endif

#include "crypto/dsa/ecdsa.h"

#ifdef WITH_OPENSSL
#include <openssl/bn.h>
#include <openssl/ec.h>
#include <openssl/ecdsa.h>
#include <openssl/obj_mac.h>
#endif

static ec_curve_t curve;

/* What an application's earlier calls leave on the stack is arbitrary; make it explicit. */
static void __attribute__((noinline))
dirty_stack(uint8_t v) {
	volatile uint8_t junk[96 * 1024];
	size_t i;

	for (i = 0; i < sizeof(junk); i ++)
		junk[i] = v;
}

int
main(int argc, char **argv) {
	const char *name = "secp256r1";
	ec_curve_str_p cs = ecdsa_curve_str_get_by_name(name, strlen(name));
	uint8_t hash[32], d[32], k[32], r[32], s[32], qx[32], qy[32];
	size_t sign_size = 0, qsz = 0, i;
	int res, bad = 0;
	uint8_t fill = (uint8_t)((argc > 1) ? strtoul(argv[1], NULL, 0) : 0x01);

	if (0 != ecdsa_curve_from_str(cs, &curve)) {
		printf("curve setup failed\n");
		return (2);
	}
	memset(hash, 0x00, sizeof(hash)); /* e = 0 */
	for (i = 0; i < 32; i ++) {
		d[i] = (uint8_t)(0x11 + i);
		k[i] = (uint8_t)(0x5a ^ (i * 7));
	}
	res = ecdsa_recover_pub_key_from_priv_key_be(&curve, d, 32, 0, qx, qy, &qsz);
	printf("public key from private key: %d\n", res);
	res = ecdsa_sign_be(&curve, hash, 32, d, 32, k, 32, r, s, &sign_size);
	printf("ecdsa_sign_be(hash = 00..00): %d\n", res);
	if (0 != res)
		return (2);
#ifdef WITH_OPENSSL
	{
		EC_KEY *ok = EC_KEY_new_by_curve_name(NID_X9_62_prime256v1);
		const EC_GROUP *g = EC_KEY_get0_group(ok);
		EC_POINT *Q = EC_POINT_new(g);
		EC_POINT_set_affine_coordinates(g, Q, BN_bin2bn(qx, 32, NULL), BN_bin2bn(qy, 32, NULL), NULL);
		EC_KEY_set_public_key(ok, Q);
		ECDSA_SIG *sig = ECDSA_SIG_new();
		ECDSA_SIG_set0(sig, BN_bin2bn(r, 32, NULL), BN_bin2bn(s, 32, NULL));
		printf("OpenSSL ECDSA_do_verify of that signature: %d (1 = valid)\n", ECDSA_do_verify(hash, 32, sig, ok));
	}
#endif
	res = ecdsa_verify_priv_key_be(&curve, hash, 32, r, s, sign_size, d, 32);
	printf("ecdsa_verify_priv_key_be: %d (expected 0)\n", res);
	bad += (0 != res);

	printf("stack filled with 0x%02x, then ecdsa_verify_be of the valid signature ...\n", fill);
	fflush(stdout);
	dirty_stack(fill);
	res = ecdsa_verify_be(&curve, hash, 32, r, s, sign_size, qx, qy, qsz);
	printf("ecdsa_verify_be: %d (expected 0)\n", res);
	bad += (0 != res);
	if (0 != bad) {
		printf("FAIL: valid signature over a zero hash not accepted\n");
		return (1);
	}
	printf("OK\n");
	return (0);
}
