#!/bin/sh
# usage: run.sh <tree>
# 1. default configuration (affine + JOINT), stack garbage 0x01 -> valid signature rejected
# 2. default configuration, stack garbage 0xff -> endless JSF loop, stack smashed (ASan report / SIGSEGV)
# 3. projective + JOINT (tests/ecdsa/main.c with its commented-out alternative) -> same
# 4. clang MemorySanitizer, no stack games at all -> use-of-uninitialized-value in bn_calc_jsf
T=${1:-/tmp/hunt/C03}
D=$(dirname "$0")
CF="-DHAVE_ACCEPT4 -DHAVE_EXPLICIT_BZERO -DHAVE_MEMMEM -DHAVE_MEMRCHR -DHAVE_PIPE2 -DHAVE_POSIX_SPAWN_FILE_ACTIONS_ADDCLOSEFROM_NP -DHAVE_PTHREAD_SETNAME_NP -DHAVE_REALLOCARRAY -DHAVE_SOCK_CLOEXEC -DHAVE_SOCK_NONBLOCK -DHAVE_STRNCASECMP -DLINUX -D_GNU_SOURCE -D__USE_GNU=1"
O=$(mktemp -d)
fail=0
OSSL=""
if [ -f /usr/include/openssl/ec.h ]; then OSSL="-DWITH_OPENSSL -lcrypto"; fi
ulimit -s 65536 2>/dev/null

echo "##### 1. default configuration, gcc -O1, stack garbage 0x01"
gcc -O1 -g -w $CF -I"$T/include" "$D/demo.c" -o "$O/demo1" $OSSL || exit 2
"$O/demo1" 0x01; rc=$?; echo "exit code $rc"; [ $rc -ne 0 ] && fail=1

echo "##### 2. default configuration, gcc -O1 -fsanitize=address, stack garbage 0xff"
gcc -O1 -g -w -fsanitize=address -fno-omit-frame-pointer $CF -I"$T/include" "$D/demo.c" -o "$O/demo2" || exit 2
ASAN_OPTIONS=detect_leaks=0 "$O/demo2" 0xff 2>&1 | head -40; rc=$?
"$O/demo1" 0xff > /dev/null 2>&1; rc=$?; echo "exit code of the non-ASan build with 0xff: $rc"; [ $rc -ne 0 ] && fail=1

echo "##### 3. projective + JOINT, gcc -O1, stack garbage 0x01"
gcc -O1 -g -w -DPROJECTIVE_JOINT $CF -I"$T/include" "$D/demo.c" -o "$O/demo3" || exit 2
"$O/demo3" 0x01; rc=$?; echo "exit code $rc"; [ $rc -ne 0 ] && fail=1

if command -v clang >/dev/null 2>&1; then
	echo "##### 4. default configuration, clang -fsanitize=memory"
	if clang -O1 -g -w -fsanitize=memory -fno-omit-frame-pointer $CF -I"$T/include" "$D/demo.c" -o "$O/demo4" 2>/dev/null; then
		"$O/demo4" 0x00 > "$O/msan.txt" 2>&1
		head -30 "$O/msan.txt"
		grep -q "use-of-uninitialized-value" "$O/msan.txt" && fail=1
	fi
fi
rm -rf "$O"
[ $fail -ne 0 ] && { echo "FAIL"; exit 1; }
echo "OK"
exit 0
