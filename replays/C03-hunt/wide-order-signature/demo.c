/*
 * secp160k1, secp160r1, secp160r2 and secp224k1 have a group order n that is one bit LONGER than the
 * field (n = 2^160 + ..., 2^224 + ...).  The byte level API sizes everything with
 * bytes = (m + 7) / 8 (m = field bits): ecdsa_verify_be/le and ecdsa_verify_priv_key_be/le refuse
 * sign_size > bytes with EINVAL, so a signature component in [2^(8*bytes), n-1] - perfectly legal, every
 * other implementation encodes it in 21 (29) bytes - cannot even be passed in.
 * (ecdsa_sign_be itself gives up with EOVERFLOW when its own s lands in that range.)
 *
 * The demo builds such a signature with a conforming signer (OpenSSL BIGNUM/EC arithmetic, SEC 1 4.1.3):
 * fix k, r = x(kG) mod n, pick s = 2^160 + 5 and solve  e = s*k - r*d (mod n)  for the 20 byte hash.
 * OpenSSL's ECDSA_do_verify accepts (hash, r, s, Q); the library has no way to.
 */
#include <sys/param.h>
#include <sys/types.h>
#include <inttypes.h>
#include <stdlib.h>
#include <stdio.h>
#include <string.h>
#include <errno.h>

#define BN_DIGIT_BIT_CNT 	64
#define BN_BIT_LEN		1408
#define BN_CC_MULL_DIV		1
#define BN_NO_POINTERS_CHK	1
#define BN_MOD_REDUCE_ALGO	BN_MOD_REDUCE_ALGO_BASIC
#define EC_USE_PROJECTIVE	1
#define EC_PROJ_REPEAT_DOUBLE	1
#define EC_PROJ_ADD_MIX		1
#define EC_PF_FXP_MULT_ALGO	EC_PF_FXP_MULT_ALGO_COMB_2T
#define EC_PF_FXP_MULT_WIN_BITS	9
#define EC_PF_UNKPT_MULT_ALGO	EC_PF_UNKPT_MULT_ALGO_COMB_1T
#define EC_PF_UNKPT_MULT_WIN_BITS 2
#define EC_PF_TWIN_MULT_ALGO	EC_PF_TWIN_MULT_ALGO_INTER
#define EC_DISABLE_PUB_KEY_CHK	1

#include "crypto/dsa/ecdsa.h"

#include <openssl/bn.h>
#include <openssl/ec.h>
#include <openssl/ecdsa.h>
#include <openssl/obj_mac.h>

static ec_curve_t curve;

int
main(void) {
	const char *name = "secp160r1";
	ec_curve_str_p cs = ecdsa_curve_str_get_by_name(name, strlen(name));
	uint8_t hash[20], d[20], r[21], s[21], qx[20], qy[20];
	size_t i, bytes;
	int res20, res21, resp, ores;
	BN_CTX *ctx = BN_CTX_new();

	ecdsa_curve_from_str(cs, &curve);
	bytes = EC_CURVE_CALC_BYTES(&curve); /* 20 */
	for (i = 0; i < 20; i ++)
		d[i] = (uint8_t)(0x11 + i);

	EC_KEY *ok = EC_KEY_new_by_curve_name(NID_secp160r1);
	const EC_GROUP *g = EC_KEY_get0_group(ok);
	const BIGNUM *n = EC_GROUP_get0_order(g);
	BIGNUM *bd = BN_bin2bn(d, 20, NULL), *x = BN_new(), *y = BN_new();
	BIGNUM *k = BN_new(), *br = BN_new(), *bs = BN_new(), *e = BN_new(), *t = BN_new();
	EC_POINT *Q = EC_POINT_new(g), *R = EC_POINT_new(g);
	EC_POINT_mul(g, Q, bd, NULL, NULL, ctx);
	EC_KEY_set_public_key(ok, Q);
	EC_POINT_get_affine_coordinates(g, Q, x, y, ctx);
	BN_bn2binpad(x, qx, 20);
	BN_bn2binpad(y, qy, 20);

	/* Conforming signer with chosen s. */
	BN_hex2bn(&k, "0123456789abcdef0123456789abcdef01234567");
	EC_POINT_mul(g, R, k, NULL, NULL, ctx);
	EC_POINT_get_affine_coordinates(g, R, br, NULL, ctx);
	BN_nnmod(br, br, n, ctx);			/* r = x(kG) mod n */
	BN_one(bs); BN_lshift(bs, bs, 160); BN_add_word(bs, 5);	/* s = 2^160 + 5 < n */
	BN_mod_mul(e, bs, k, n, ctx);
	BN_mod_mul(t, br, bd, n, ctx);
	BN_mod_sub(e, e, t, n, ctx);			/* e = s*k - r*d, i.e. s = k^-1 (e + r d) */
	if (BN_num_bytes(e) > 20 || BN_cmp(bs, n) >= 0) {
		printf("unlucky constants\n");
		return (2);
	}
	BN_bn2binpad(e, hash, 20);
	BN_bn2binpad(br, r, 21);
	BN_bn2binpad(bs, s, 21);

	printf("n = %s\ns = %s\nr = %s\n", BN_bn2hex(n), BN_bn2hex(bs), BN_bn2hex(br));
	ECDSA_SIG *sig = ECDSA_SIG_new();
	ECDSA_SIG_set0(sig, BN_dup(br), BN_dup(bs));
	ores = ECDSA_do_verify(hash, 20, sig, ok);
	printf("OpenSSL ECDSA_do_verify(hash[20], r, s, Q)                 = %d (1 = valid)\n", ores);
	if (1 != ores)
		return (2);

	res21 = ecdsa_verify_be(&curve, hash, 20, r, s, 21, qx, qy, bytes);
	printf("liblcb ecdsa_verify_be(sign_size = 21)                     = %d (EINVAL = %d)\n", res21, EINVAL);
	res20 = ecdsa_verify_be(&curve, hash, 20, r + 1, s + 1, 20, qx, qy, bytes);
	printf("liblcb ecdsa_verify_be(sign_size = 20, top byte cut off)   = %d\n", res20);
	resp = ecdsa_verify_priv_key_be(&curve, hash, 20, r, s, 21, d, 20);
	printf("liblcb ecdsa_verify_priv_key_be(sign_size = 21)            = %d\n", resp);

	/* The arithmetic underneath is fine: the bn level verifier accepts the same numbers. */
	{
		bn_t be, bnr, bns; ec_point_t P;
		size_t bits = EC_CURVE_CALC_BITS_DBL(&curve);
		bn_init(&be, bits); bn_init(&bnr, bits); bn_init(&bns, bits); ec_point_init(&P, bits);
		bn_import_be_bin(&be, hash, 20); bn_import_be_bin(&bnr, r, 21); bn_import_be_bin(&bns, s, 21);
		bn_import_be_bin(&P.x, qx, 20); bn_import_be_bin(&P.y, qy, 20);
		printf("liblcb ecdsa_verify() on bn_t (no size limit)              = %d\n",
		    ecdsa_verify(&curve, &be, &bnr, &bns, &P));
	}
	if (0 != res21 && 0 != res20) {
		printf("FAIL: a valid secp160r1 signature with s >= 2^160 cannot be verified through ecdsa_verify_be\n");
		return (1);
	}
	printf("OK\n");
	return (0);
}
