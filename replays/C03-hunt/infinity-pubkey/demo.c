/*
 * ecdsa_verify_be()/ecdsa_verify_le() accept the one byte public key encoding 00
 * (point at infinity) and then accept a signature anybody can compute without
 * any private key: with Q = O the verifier computes R = u1*G + u2*O = u1*G, so
 * (r = x(G) mod n, s = e) gives u1 = e * s^-1 = 1, R = G, v = r.
 * A standard verifier (X9.62 / SEC 1 4.1.4, FIPS 186-4) only works on a valid
 * public key, and Q = O is not one (SEC 1 3.2.2.1 step 1).
 * Public key validation is ENABLED in this build (EC_DISABLE_PUB_KEY_CHK is not defined).
 */
#include <sys/param.h>
#include <sys/types.h>
#include <inttypes.h>
#include <stdlib.h>
#include <stdio.h>
#include <string.h>
#include <errno.h>

#define BN_DIGIT_BIT_CNT 	64
#define BN_BIT_LEN		1408
#define BN_CC_MULL_DIV		1
#define BN_NO_POINTERS_CHK	1
#define BN_MOD_REDUCE_ALGO	BN_MOD_REDUCE_ALGO_BASIC
#define EC_USE_PROJECTIVE	1
#define EC_PROJ_REPEAT_DOUBLE	1
#define EC_PROJ_ADD_MIX		1
#define EC_PF_FXP_MULT_ALGO	EC_PF_FXP_MULT_ALGO_COMB_2T
#define EC_PF_FXP_MULT_WIN_BITS	9
#define EC_PF_UNKPT_MULT_ALGO	EC_PF_UNKPT_MULT_ALGO_COMB_1T
#define EC_PF_UNKPT_MULT_WIN_BITS 2
#define EC_PF_TWIN_MULT_ALGO	EC_PF_TWIN_MULT_ALGO_INTER
/* NOTE: no EC_DISABLE_PUB_KEY_CHK: public keys are validated on import. */

#include "crypto/dsa/ecdsa.h"

static ec_curve_t curve;

static int
hex2bin(const char *h, uint8_t *out, size_t n) {
	for (size_t i = 0; i < n; i ++) {
		unsigned v;
		if (1 != sscanf(h + 2 * i, "%2x", &v))
			return (-1);
		out[i] = (uint8_t)v;
	}
	return (0);
}

static int
try_curve(const char *name, const uint8_t *msg_hash, size_t hash_size) {
	ec_curve_str_p cs = ecdsa_curve_str_get_by_name(name, strlen(name));
	uint8_t r[80], s[80], key00[1] = { 0x00 };
	size_t bytes;
	int res, res_le, i;
	uint8_t rl[80], sl[80], hl[80];

	if (NULL == cs || 0 != ecdsa_curve_from_str(cs, &curve)) {
		printf("cannot set up %s\n", name);
		return (0);
	}
	bytes = EC_CURVE_CALC_BYTES(&curve);
	/* Forgery, no private key involved: r = Gx, s = e (e < n here). */
	hex2bin(cs->Gx, r, bytes);
	memset(s, 0, sizeof(s));
	memcpy(s + (bytes - hash_size), msg_hash, hash_size);

	res = ecdsa_verify_be(&curve, (uint8_t*)msg_hash, hash_size, r, s, bytes,
	    key00, NULL, sizeof(key00));
	for (i = 0; i < (int)bytes; i ++) {
		rl[i] = r[bytes - 1 - i];
		sl[i] = s[bytes - 1 - i];
	}
	for (i = 0; i < (int)hash_size; i ++)
		hl[i] = msg_hash[hash_size - 1 - i];
	res_le = ecdsa_verify_le(&curve, hl, hash_size, rl, sl, bytes,
	    key00, NULL, sizeof(key00));
	printf("%-45s ecdsa_verify_be(pub key = 00, r = Gx, s = e) = %d, ecdsa_verify_le = %d  (expected: != 0)\n",
	    name, res, res_le);
	{ /* Same hole on the private key side: d = 0 (the key whose public key is O) is not refused. */
		uint8_t d0[1] = { 0x00 };
		int res_p = ecdsa_verify_priv_key_be(&curve, (uint8_t*)msg_hash, hash_size, r, s, bytes, d0, sizeof(d0));
		printf("%-45s ecdsa_verify_priv_key_be(d = 0, same r, s)          = %d  (expected: != 0)\n", "", res_p);
	}
	return ((0 == res) + (0 == res_le));
}

int
main(void) {
	/* SHA-1("abc"), 20 bytes: below n on every curve used here. */
	static const uint8_t h[20] = {
		0xa9,0x99,0x3e,0x36,0x47,0x06,0x81,0x6a,0xba,0x3e,
		0x25,0x71,0x78,0x50,0xc2,0x6c,0x9c,0xd0,0xd8,0x9d };
	int bad = 0;

	bad += try_curve("secp256r1", h, sizeof(h));
	bad += try_curve("secp384r1", h, sizeof(h));
	bad += try_curve("brainpoolP256r1", h, sizeof(h));
	if (0 != bad) {
		printf("FAIL: forged signature accepted under the public key O (%d acceptances)\n", bad);
		return (1);
	}
	printf("OK\n");
	return (0);
}
