/*
 * Build option BN_MOD_REDUCE_ALGO = BN_MOD_REDUCE_ALGO_BARRETT (everything else as tests/ecdsa/main.c):
 * bn_mod() cuts the intermediate remainder to m->digits digits ("r.digits = m->digits;") BEFORE the final
 * "while (r >= m) r -= m" loop.  r = r1 - r2 can be as large as 3m - 1, i.e. one digit longer than m when
 * the top digit of m is below ~0x5555...; the carry digit is thrown away and the result is short by
 * 2^(64 * digits) mod m.  (It also copies m->digits + 1 digits out of a number that may have fewer
 * significant digits - stale storage.)
 * With brainpoolP192r1 (p = c302f41d...) about 0.5% of all reductions are wrong: public keys are computed
 * off the curve and the library's verifier rejects the library's own signatures.
 */
#include <sys/param.h>
#include <sys/types.h>
#include <inttypes.h>
#include <stdlib.h>
#include <stdio.h>
#include <string.h>
#include <errno.h>

#define BN_DIGIT_BIT_CNT 	64
#define BN_BIT_LEN		1408
#define BN_CC_MULL_DIV		1
#define BN_NO_POINTERS_CHK	1
#define BN_MOD_REDUCE_ALGO	BN_MOD_REDUCE_ALGO_BARRETT
#define EC_USE_PROJECTIVE	1
#define EC_PROJ_REPEAT_DOUBLE	1
#define EC_PROJ_ADD_MIX		1
#define EC_PF_FXP_MULT_ALGO	EC_PF_FXP_MULT_ALGO_COMB_2T
#define EC_PF_FXP_MULT_WIN_BITS	9
#define EC_PF_UNKPT_MULT_ALGO	EC_PF_UNKPT_MULT_ALGO_COMB_1T
#define EC_PF_UNKPT_MULT_WIN_BITS 2
#define EC_PF_TWIN_MULT_ALGO	EC_PF_TWIN_MULT_ALGO_INTER
#define EC_DISABLE_PUB_KEY_CHK	1

#include "crypto/dsa/ecdsa.h"

static ec_curve_t curve;

static void
pr(const char *t, bn_p b) {
	char buf[1024];
	size_t n = 0;

	bn_export_be_hex(b, BN_EXPORT_F_AUTO_SIZE, (uint8_t*)buf, sizeof(buf) - 1, &n);
	buf[n] = 0;
	printf("%s%s\n", t, buf);
}

int
main(void) {
	static const char *m_hex = "c302f41d932a36cda7a3463093d18db78fce476de1a86297"; /* brainpoolP192r1 p */
	static const char *a_hex = "fdee72aaddfa4bbb7d6e765a10f07a52a87c7eb18d50a078efc60fe01bd253c2a396e246b066a425c10441402f7cb2a7";
	bn_t m, a, q, r_div, chk;
	bn_mod_rd_data_t rd;
	int bad = 0, res;

	/* 1. bn_mod (Barrett) against bn_div on one value; bn_div's answer is checked by q*m + r == a. */
	bn_init(&m, 1024); bn_init(&a, 1024); bn_init(&q, 1024); bn_init(&r_div, 1024); bn_init(&chk, 1024);
	bn_import_be_hex(&m, (const uint8_t*)m_hex, strlen(m_hex));
	bn_import_be_hex(&a, (const uint8_t*)a_hex, strlen(a_hex));
	bn_mod_rd_data_init(&m, &rd);
	bn_assign(&q, &a);
	bn_div(&q, &m, &r_div);
	bn_assign(&chk, &q); bn_mult(&chk, &m); bn_add(&chk, &r_div, NULL);
	printf("a            = %s\nm            = %s\n", a_hex, m_hex);
	pr("a mod m (bn_div)        = ", &r_div);
	printf("   q*m + r == a: %s, r < m: %s\n", (0 == bn_cmp(&chk, &a)) ? "yes" : "NO", (bn_cmp(&r_div, &m) < 0) ? "yes" : "NO");
	res = bn_mod(&a, &m, &rd);
	pr("a mod m (bn_mod/Barrett) = ", &a);
	if (0 != res || 0 != bn_cmp(&a, &r_div)) {
		printf("   -> wrong\n");
		bad ++;
	}

	/* 2. What it does to ECDSA. */
	{
		const char *name = "brainpoolP192r1";
		ec_curve_str_p cs = ecdsa_curve_str_get_by_name(name, strlen(name));
		uint8_t hash[24], d[24], k[24], r[24], s[24], qx[24], qy[24];
		size_t i, sign_size = 0, qsz = 0;

		res = ecdsa_curve_from_str(cs, &curve);
		printf("%s: ecdsa_curve_from_str = %d\n", name, res);
		for (i = 0; i < 24; i ++) {
			hash[i] = (uint8_t)(0x30 + i);
			d[i] = (uint8_t)(0x11 + i);
			k[i] = (uint8_t)(0x5a ^ (i * 7));
		}
		res = ecdsa_recover_pub_key_from_priv_key_be(&curve, d, 24, 0, qx, qy, &qsz);
		printf("ecdsa_recover_pub_key_from_priv_key_be = %d (expected 0)\n", res);
		bad += (0 != res);
		res = ecdsa_sign_be(&curve, hash, 24, d, 24, k, 24, r, s, &sign_size);
		printf("ecdsa_sign_be = %d\n", res);
		if (0 == res) {
			res = ecdsa_verify_priv_key_be(&curve, hash, 24, r, s, sign_size, d, 24);
			printf("ecdsa_verify_priv_key_be(own signature) = %d (expected 0)\n", res);
			bad += (0 != res);
		}
	}
	if (0 != bad) {
		printf("FAIL\n");
		return (1);
	}
	printf("OK\n");
	return (0);
}
