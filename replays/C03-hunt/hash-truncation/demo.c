/*
 * ecdsa_sign_be / ecdsa_verify_be / ecdsa_verify_priv_key_be cut a long hash to
 * MIN(hash_size, (m + 7) / 8) BYTES, m = field size.  The standard (X9.62-2005 7.3 e,
 * SEC 1 v2 4.1.3 step 5, FIPS 186-4 6.4) takes the leftmost ceil(log2 n) BITS of the hash,
 * n = group order.  The two differ whenever a hash longer than n is used on a curve whose
 * order length is not 8 * ((m + 7) / 8):
 *   secp160k1/r1/r2 (n = 161 bits), secp224k1 (225 bits), secp112r2 (110), secp128r2 (126),
 *   secp521r1 (521 bits; hashes of 66 bytes and more).
 * Other implementations then reject the library's signatures and the library rejects theirs.
 * In none of the cases below the cut hash reaches n, so this is independent of the
 * "(e mod (n-1)) + 1" reduction defect.
 *
 * Independent side: OpenSSL ECDSA_do_sign / ECDSA_do_verify.
 */
#include <sys/param.h>
#include <sys/types.h>
#include <inttypes.h>
#include <stdlib.h>
#include <stdio.h>
#include <string.h>
#include <errno.h>

#define BN_DIGIT_BIT_CNT 	64
#define BN_BIT_LEN		1408
#define BN_CC_MULL_DIV		1
#define BN_NO_POINTERS_CHK	1
#define BN_MOD_REDUCE_ALGO	BN_MOD_REDUCE_ALGO_BASIC
#define EC_USE_PROJECTIVE	1
#define EC_PROJ_REPEAT_DOUBLE	1
#define EC_PROJ_ADD_MIX		1
#define EC_PF_FXP_MULT_ALGO	EC_PF_FXP_MULT_ALGO_COMB_2T
#define EC_PF_FXP_MULT_WIN_BITS	9
#define EC_PF_UNKPT_MULT_ALGO	EC_PF_UNKPT_MULT_ALGO_COMB_1T
#define EC_PF_UNKPT_MULT_WIN_BITS 2
#define EC_PF_TWIN_MULT_ALGO	EC_PF_TWIN_MULT_ALGO_INTER
#define EC_DISABLE_PUB_KEY_CHK	1

#include "crypto/dsa/ecdsa.h"

#include <openssl/bn.h>
#include <openssl/ec.h>
#include <openssl/ecdsa.h>
#include <openssl/obj_mac.h>
#include <openssl/sha.h>

static ec_curve_t curve;
static int failures = 0;

#define CHECK(cond, ...) do { printf(__VA_ARGS__); if (cond) printf("  ok\n"); else { printf("  <-- FAIL\n"); failures ++; } } while (0)

static void
ecdsa_case(const char *lcb_name, int nid, const char *hname, const uint8_t *hash, size_t hl) {
	ec_curve_str_p cs = ecdsa_curve_str_get_by_name(lcb_name, strlen(lcb_name));
	uint8_t d[80], k[80], r[80], s[80], qx[80], qy[80];
	size_t sign_size = 0, bytes, i;
	int res, ores;

	ecdsa_curve_from_str(cs, &curve);
	bytes = EC_CURVE_CALC_BYTES(&curve);
	for (i = 0; i < bytes; i ++) {
		d[i] = (uint8_t)(0x11 + i);
		k[i] = (uint8_t)(0x5a ^ (i * 7));
	}
	d[0] = 0; k[0] = 0; /* Below n on every curve. */
	printf("--- %s (m = %zu, n = %zu hex digits), %s (%zu bytes)\n", lcb_name, curve.m, strlen(cs->n), hname, hl);

	EC_KEY *ok = EC_KEY_new_by_curve_name(nid);
	const EC_GROUP *g = EC_KEY_get0_group(ok);
	BIGNUM *bd = BN_bin2bn(d, (int)bytes, NULL), *x = BN_new(), *y = BN_new();
	EC_POINT *Q = EC_POINT_new(g);
	EC_POINT_mul(g, Q, bd, NULL, NULL, NULL);
	EC_KEY_set_private_key(ok, bd);
	EC_KEY_set_public_key(ok, Q);
	EC_POINT_get_affine_coordinates(g, Q, x, y, NULL);
	BN_bn2binpad(x, qx, (int)bytes);
	BN_bn2binpad(y, qy, (int)bytes);

	res = ecdsa_sign_be(&curve, (uint8_t*)hash, hl, d, bytes, k, bytes, r, s, &sign_size);
	CHECK(0 == res, "liblcb ecdsa_sign_be                      = %d", res);
	res = ecdsa_verify_be(&curve, (uint8_t*)hash, hl, r, s, sign_size, qx, qy, bytes);
	CHECK(0 == res, "liblcb ecdsa_verify_be(own signature)     = %d", res);
	ECDSA_SIG *sig = ECDSA_SIG_new();
	ECDSA_SIG_set0(sig, BN_bin2bn(r, (int)bytes, NULL), BN_bin2bn(s, (int)bytes, NULL));
	ores = ECDSA_do_verify(hash, (int)hl, sig, ok);
	CHECK(1 == ores, "OpenSSL ECDSA_do_verify(liblcb signature) = %d (1 = valid)", ores);

	for (;;) { /* An OpenSSL signature whose r, s fit into `bytes` bytes (always, but for 2^-80). */
		ECDSA_SIG *sig2 = ECDSA_do_sign(hash, (int)hl, ok);
		const BIGNUM *br, *bs;
		ECDSA_SIG_get0(sig2, &br, &bs);
		if ((size_t)BN_num_bytes(br) > bytes || (size_t)BN_num_bytes(bs) > bytes)
			continue;
		BN_bn2binpad(br, r, (int)bytes);
		BN_bn2binpad(bs, s, (int)bytes);
		ores = ECDSA_do_verify(hash, (int)hl, sig2, ok);
		break;
	}
	CHECK(1 == ores, "OpenSSL ECDSA_do_verify(OpenSSL signature)= %d", ores);
	res = ecdsa_verify_be(&curve, (uint8_t*)hash, hl, r, s, bytes, qx, qy, bytes);
	CHECK(0 == res, "liblcb ecdsa_verify_be(OpenSSL signature) = %d (0 = valid, -2 = bad signature)", res);
	res = ecdsa_verify_priv_key_be(&curve, (uint8_t*)hash, hl, r, s, bytes, d, bytes);
	CHECK(0 == res, "liblcb ecdsa_verify_priv_key_be(OpenSSL s.)= %d", res);
}

int
main(void) {
	uint8_t sha1[20], sha256[32], sha512[64], h72[72];

	SHA1((const uint8_t*)"abc", 3, sha1);
	SHA256((const uint8_t*)"abc", 3, sha256);
	SHA512((const uint8_t*)"abc", 3, sha512);
	memcpy(h72, sha512, 64); /* 72 byte digest (e.g. a SHAKE256 output): SHA-512("abc") || 8 more bytes, top byte 00 so that it stays below n. */
	memmove(h72 + 1, h72, 64);
	h72[0] = 0x00;
	memset(h72 + 65, 0xa5, 7);

	printf("=== control: hash not longer than n ===\n");
	ecdsa_case("secp160r1", NID_secp160r1, "SHA-1(\"abc\")", sha1, 20);
	ecdsa_case("secp521r1", NID_secp521r1, "SHA-512(\"abc\")", sha512, 64);
	if (0 != failures) {
		printf("control failed?!\n");
		return (2);
	}
	printf("=== hash longer than n ===\n");
	ecdsa_case("secp160r1", NID_secp160r1, "SHA-256(\"abc\")", sha256, 32);
	ecdsa_case("secp224k1", NID_secp224k1, "SHA-256(\"abc\")", sha256, 32);
	ecdsa_case("secp521r1", NID_secp521r1, "72 byte digest", h72, 72);
	if (0 != failures) {
		printf("FAIL: %d disagreements with the standard for hashes longer than the group order\n", failures);
		return (1);
	}
	printf("OK\n");
	return (0);
}
