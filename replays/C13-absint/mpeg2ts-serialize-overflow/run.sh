#!/bin/sh
# usage: run.sh <tree>
T=${1:-/repo}
D=$(cd "$(dirname "$0")" && pwd)
O=$(mktemp -d)
clang -w -g -O1 -fsanitize=address,undefined -DHAVE_ACCEPT4 -DHAVE_EXPLICIT_BZERO -DHAVE_MEMMEM -DHAVE_MEMRCHR -DHAVE_PIPE2 -DHAVE_REALLOCARRAY -DHAVE_STRNCASECMP -DLINUX -D_GNU_SOURCE -D__USE_GNU=1 -I"$T/include" "$D/demo.c" -o "$O/demo" || exit 2
"$O/demo"; rc=$?
rm -rf "$O"
exit $rc
