/* mpeg2_ts_serialize_data() checks only buf_size >= one packet, then writes as many packets as the adaptation field,
 * pointer field and data need.  Reported by the C13 check (R-CURSOR, memcpy at the first payload copy: the second packet's
 * bytes lie behind buf[buf_size]) once the interpreter kept the partitions of the adaptation-field branch apart. */
#include <sys/param.h>
#include <sys/types.h>
#include <inttypes.h>
#include <stdlib.h>
#include <string.h>
#include <stdio.h>
#include <errno.h>
#include "proto/mpeg2ts.h"
int main(void) {
	uint8_t af[184], data[10];
	uint8_t *buf = malloc(188);          /* exactly one packet: passes the function's only size test */
	size_t n = 0, pk = 0; uint8_t cc = 0;
	int e;
	memset(af, 0, sizeof(af)); memset(data, 0x55, sizeof(data));
	/* adaptation field fills the first packet: the payload goes to a second packet = bytes 188..375 */
	e = mpeg2_ts_serialize_data(0x100, 0, 0, af, sizeof(af), 0, data, sizeof(data), 188, buf, 188, &n, &pk, &cc);
	printf("e = %d, reported size = %zu, packets = %zu (buffer is 188 bytes)\n", e, n, pk);
	free(buf);
	if (0 == e && n > 188) { printf("FAIL: wrote %zu bytes into a 188 byte buffer and returned 0\n", n); return (1); }
	return (0);
}
