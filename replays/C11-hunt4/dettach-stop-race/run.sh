#!/bin/sh
# usage: run.sh <tree> 
T=${1:-/tmp/hunt/C11}

D=$(cd "$(dirname "$0")" && pwd)
O=$(mktemp -d)
CF="-DHAVE_ACCEPT4 -DHAVE_EXPLICIT_BZERO -DHAVE_MEMMEM -DHAVE_MEMRCHR -DHAVE_PIPE2 -DHAVE_POSIX_SPAWN_FILE_ACTIONS_ADDCLOSEFROM_NP -DHAVE_PTHREAD_SETNAME_NP -DHAVE_REALLOCARRAY -DHAVE_SOCK_CLOEXEC -DHAVE_SOCK_NONBLOCK -DHAVE_STRNCASECMP -DLINUX -D_GNU_SOURCE -D__USE_GNU=1 -I$T/include"
gcc -g -O1 -w $CF "$D/demo.c" "$T/src/threadpool/threadpool.c" "$T/src/threadpool/threadpool_msg_sys.c" -o "$O/demo" -lpthread || { echo "BUILD FAILED"; exit 2; }
timeout 40 "$O/demo"
rc=$?
rm -rf "$O"
[ $rc -eq 0 ] || { echo "FAIL (rc=$rc)"; exit 1; }
exit 0
