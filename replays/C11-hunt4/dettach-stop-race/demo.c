/* tp_thread_dettach() from another thread: "if (STOP != state) ... state = STOPING"
 * is a test and a store.  When the target thread finishes in between (it sets
 * STOP as its last access) the slot is left in STOPING with no thread in it:
 * nobody will ever set STOP.  tp_thread_attach_first() then answers ESPIPE for
 * ever and tp_shutdown_wait()/tp_destroy() poll the attached slot for ever. */
#include <sys/param.h>
#include <sys/types.h>
#include <inttypes.h>
#include <string.h>
#include <stdio.h>
#include <stdlib.h>
#include <errno.h>
#include <unistd.h>
#include <signal.h>
#include <pthread.h>
#include "al/os.h"
#include "threadpool/threadpool.h"
#include "threadpool/threadpool_msg_sys.h"

static tp_p tp;
static volatile size_t go = 0, done_a = 0, done_b = 0, quit = 0;

/* Not for the pool virtual thread (its start hook runs inside tp_create()). */
static void on_start(tpt_p tpt) { if (0 == tpt_get_num(tpt)) go ++; }

static void *
helper(void *arg) {
	volatile size_t *done = arg;
	size_t seen = 0;
	unsigned int seed = (unsigned int)(size_t)arg;

	while (0 == quit) {
		if (go == seen) continue;
		seen = go;
		if (done == &done_b) /* Second caller: a little later. */
			for (volatile int i = rand_r(&seed) % 3000; i > 0; i --) ;
		tp_thread_dettach(tp_thread_get(tp, 0));
		(*done) = seen;
	}
	return (NULL);
}

static void
on_alarm(int sig) {
	static const char m[] = "FAIL: tp_destroy() does not return: slot 0 is STOPING and no thread is there to set STOP\n";
	write(1, m, sizeof(m) - 1);
	_exit(1);
}

int
main(void) {
	tp_settings_t s;
	pthread_t a, b;
	int error;
	size_t i;

	setvbuf(stdout, NULL, _IONBF, 0);
	tp_settings_def(&s);
	s.flags = 0;
	s.threads_max = 1;
	s.tpt_on_start = on_start;
	error = tp_create(&s, &tp);
	if (0 != error) { printf("tp_create: %i\n", error); return (2); }
	pthread_create(&a, NULL, helper, (void*)&done_a);
	pthread_create(&b, NULL, helper, (void*)&done_b);
	for (i = 1; i <= 200000; i ++) {
		error = tp_thread_attach_first(tp); /* Returns after one of the helpers detached us. */
		if (0 != error) {
			printf("iteration %zu: tp_thread_attach_first() = %i (%s) although the previous call returned: "
			    "no thread is in slot 0, tpt_is_running = %i\n",
			    i, error, strerror(error), tpt_is_running(tp_thread_get(tp, 0)));
			break;
		}
		while (done_a != i || done_b != i) ;
	}
	quit = 1;
	pthread_join(a, NULL);
	pthread_join(b, NULL);
	if (0 == error) {
		printf("race not hit in %zu iterations\n", i - 1);
	}
	signal(SIGALRM, on_alarm);
	alarm(5);
	tp_destroy(tp);
	alarm(0);
	if (0 != error) {
		printf("FAIL\n");
		return (1);
	}
	printf("OK\n");
	return (0);
}
