/* tp_thread_dettach(tp_thread_get_pvt(tp)): the pool virtual thread's stop
 * hook is never run (start hook ran in tp_create). */
#include <sys/param.h>
#include <sys/types.h>
#include <inttypes.h>
#include <string.h>
#include <stdio.h>
#include <errno.h>
#include <unistd.h>
#include <pthread.h>
#include "al/os.h"
#include "threadpool/threadpool.h"
#include "threadpool/threadpool_msg_sys.h"

#define N 2
static volatile int n_start[N + 1], n_stop[N + 1];
static void on_start(tpt_p tpt) { __sync_fetch_and_add(&n_start[tpt_get_num(tpt)], 1); }
static void on_stop(tpt_p tpt) { __sync_fetch_and_add(&n_stop[tpt_get_num(tpt)], 1); }

static int
run(int with_workers) {
	tp_settings_t s;
	tp_p tp = NULL;
	int error, bad = 0;

	memset((void*)n_start, 0, sizeof(n_start));
	memset((void*)n_stop, 0, sizeof(n_stop));
	tp_settings_def(&s);
	s.flags = 0;
	s.threads_max = N;
	s.tpt_on_start = on_start;
	s.tpt_on_stop = on_stop;
	error = tp_create(&s, &tp);
	if (0 != error) { printf("tp_create: %i\n", error); return (1); }
	if (with_workers) {
		error = tp_threads_create(tp, 0);
		if (0 != error) { printf("tp_threads_create: %i\n", error); return (1); }
		usleep(100000);
	}
	error = tp_thread_dettach(tp_thread_get_pvt(tp));
	printf("workers=%i: tp_thread_dettach(pvt) = %i\n", with_workers, error);
	usleep(200000);
	error = tp_destroy(tp);
	printf("workers=%i: tp_destroy = %i\n", with_workers, error);
	for (int i = 0; i <= N; i ++) {
		printf("  thread %i%s: on_start x%i on_stop x%i\n", i,
		    (N == i ? " (pvt)" : ""), n_start[i], n_stop[i]);
		if (n_start[i] != n_stop[i])
			bad ++;
	}
	return (bad);
}

int
main(void) {
	int bad = 0;

	bad += run(1);
	bad += run(0);
	if (0 != bad) {
		printf("FAIL: start/stop hooks are not balanced (pvt stop hook lost)\n");
		return (1);
	}
	printf("OK\n");
	return (0);
}
