/* tp_threads_create() publishes tpt->created = 1 BEFORE pthread_create() has
 * stored tpt->pt_id.  A concurrent tp_shutdown() + tp_shutdown_wait() (or
 * tp_destroy()) claims the join and calls pthread_join() with the unset id.
 *
 * mode "slow":   pthread_create is wrapped at link time and is slow once
 *                (deterministic; the same window that pthread_create_eagain()
 *                holds open for up to 210 ms while it retries on EAGAIN).
 * mode "stress": nothing is delayed, plain race.
 */
#include <sys/param.h>
#include <sys/types.h>
#include <inttypes.h>
#include <string.h>
#include <stdio.h>
#include <stdlib.h>
#include <errno.h>
#include <unistd.h>
#include <signal.h>
#include <pthread.h>
#include "al/os.h"
#include "threadpool/threadpool.h"
#include "threadpool/threadpool_msg_sys.h"

int __real_pthread_create(pthread_t *, const pthread_attr_t *, void *(*)(void*), void *);
static volatile int slow_armed = 0, in_create = 0;
static volatile int n_created = 0, n_joined = 0, n_join_failed = 0;

int
__wrap_pthread_create(pthread_t *t, const pthread_attr_t *a, void *(*fn)(void*), void *arg) {

	if (0 != slow_armed && 0 != __sync_bool_compare_and_swap(&slow_armed, 1, 0)) {
		in_create = 1;
		usleep(500000); /* A slow pthread_create() (stack allocation, EAGAIN retry...). */
	}
	int error = __real_pthread_create(t, a, fn, arg);
	if (0 == error)
		__sync_fetch_and_add(&n_created, 1);
	return (error);
}

int __real_pthread_join(pthread_t, void **);
static volatile int join_last_error = 0;

int
__wrap_pthread_join(pthread_t t, void **r) {
	int error = __real_pthread_join(t, r);

	if (0 == error) {
		__sync_fetch_and_add(&n_joined, 1);
	} else {
		join_last_error = error;
		__sync_fetch_and_add(&n_join_failed, 1);
	}
	return (error);
}

static volatile int n_start = 0, n_stop = 0;
static void on_start(tpt_p tpt) { __sync_fetch_and_add(&n_start, 1); }
static void on_stop(tpt_p tpt) { __sync_fetch_and_add(&n_stop, 1); }

static void *
creator(void *arg) {
	int error = tp_threads_create((tp_p)arg, 0);
	if (0 != error && EBUSY != error)
		printf("tp_threads_create = %i\n", error);
	return (NULL);
}

static void
on_segv(int sig) {
	static const char m[] = "FAIL: SIGSEGV inside tp_shutdown_wait(): pthread_join() of a thread id that tp_threads_create() did not store yet\n";
	write(1, m, sizeof(m) - 1);
	_exit(1);
}

static size_t
threads_alive(void) { /* Threads of this process. */
	char buf[4096]; size_t n = 0; FILE *f = fopen("/proc/self/status", "r");
	while (NULL != fgets(buf, sizeof(buf), f))
		if (0 == strncmp(buf, "Threads:", 8)) n = (size_t)atol(buf + 8);
	fclose(f);
	return (n);
}

static int
one(int slow, size_t threads_max) {
	tp_settings_t s;
	tp_p tp = NULL;
	pthread_t cr;
	int error;

	tp_settings_def(&s);
	s.flags = 0;
	s.threads_max = threads_max;
	s.tpt_on_start = on_start;
	s.tpt_on_stop = on_stop;
	error = tp_create(&s, &tp);
	if (0 != error) { printf("tp_create: %i\n", error); return (1); }
	in_create = 0;
	slow_armed = 0;
	__real_pthread_create(&cr, NULL, creator, tp);
	if (slow) {
		slow_armed = 1;
		while (0 == in_create) usleep(100);
	}
	tp_shutdown(tp);
	error = tp_shutdown_wait(tp);
	if (0 != error) { printf("tp_shutdown_wait: %i\n", error); return (1); }
	__real_pthread_join(cr, NULL);
	error = tp_destroy(tp);
	if (0 != error) { printf("tp_destroy: %i\n", error); return (1); }
	return (0);
}

int
main(int argc, char **argv) {
	int slow = (argc < 2 || 0 == strcmp(argv[1], "slow"));
	size_t before, after;

	signal(SIGSEGV, on_segv);
	before = threads_alive();
	if (slow) {
		if (0 != one(1, 4)) return (1);
	} else {
		for (int i = 0; i < 3000; i ++)
			if (0 != one(0, 32)) return (1);
	}
	usleep(300000);
	after = threads_alive();
	printf("threads before %zu after %zu; hooks start %i stop %i\n",
	    before, after, n_start, n_stop);
	printf("pool threads created %i, joined %i, pthread_join() failed %i times (last error %i: %s)\n",
	    n_created, n_joined, n_join_failed, join_last_error, strerror(join_last_error));
	if (before != after || n_start != n_stop || n_created != n_joined || 0 != n_join_failed) {
		printf("FAIL: after tp_destroy() %i created thread(s) were never joined "
		    "(stack and descriptor of each stay allocated); pthread_join() was called with an id that was not stored yet\n",
		    (n_created - n_joined));
		return (1);
	}
	printf("OK\n");
	return (0);
}
