#!/bin/sh
T="${1:-/tmp/hunt/C13}"
D="$(cd "$(dirname "$0")" && pwd)"
O="$(mktemp -d)"
CF="-DHAVE_ACCEPT4 -DHAVE_EXPLICIT_BZERO -DHAVE_MEMMEM -DHAVE_MEMRCHR -DHAVE_PIPE2 -DHAVE_POSIX_SPAWN_FILE_ACTIONS_ADDCLOSEFROM_NP -DHAVE_PTHREAD_SETNAME_NP -DHAVE_REALLOCARRAY -DHAVE_SOCK_CLOEXEC -DHAVE_SOCK_NONBLOCK -DHAVE_STRNCASECMP -DLINUX -D_GNU_SOURCE -D__USE_GNU=1"
clang -g -O0 -w -fsanitize=address $CF -I"$T/include" "$D/demo.c" \
 "$T/src/proto/dns_resolv.c" "$T"/src/threadpool/*.c "$T"/src/net/*.c "$T/src/utils/sys.c" \
 -lpthread -o "$O/demo" || { echo "BUILD FAILED"; exit 99; }
"$O/demo" legit; rc=$?
if [ $rc -ne 0 ]; then echo "control run failed (rc=$rc): environment problem"; rm -rf "$O"; exit 99; fi
"$O/demo" queued; rc=$?
rm -rf "$O"
if [ $rc -ne 0 ]; then echo "FAIL: resolver crashed on a reply carrying the ID of a queued task (rc=$rc)"; exit 1; fi
exit 0
