/* dns_resolver_recv_cb(): a reply whose ID belongs to a task that is QUEUED
 * behind another lookup of the same name (dns_rslvr_cache_entry_task_n_add()
 * stores task->cache_entry = NULL) is accepted, and task->cache_entry->name is
 * read: NULL dereference on a packet from the (hostile / spoofed) DNS server.
 *
 * mode "legit":  the fake server answers the ID it was asked with -> callbacks, exit 0.
 * mode "queued": the fake server answers with the ID of the queued task -> SEGV. */
#include <sys/param.h>
#include <sys/types.h>
#include <sys/socket.h>
#include <netinet/in.h>
#include <arpa/inet.h>
#include <inttypes.h>
#include <unistd.h>
#include <string.h>
#include <stdio.h>
#include <stdlib.h>
#include <errno.h>
#include <poll.h>

#include "threadpool/threadpool.h"
#include "proto/dns_resolv.h"

static volatile int cb_calls = 0;

static int
res_cb(dns_rslvr_task_p task, int error, struct sockaddr_storage *addrs,
    size_t addrs_count, void *arg) {
	(void)task; (void)addrs;
	printf("callback %s: error = %d, addrs_count = %zu\n", (char*)arg, error, addrs_count);
	fflush(stdout);
	cb_calls ++;
	return (0);
}

int
main(int argc, char **argv) {
	int queued = (argc > 1 && 0 == strcmp(argv[1], "queued"));
	int srv, error;
	struct sockaddr_in sin, from;
	socklen_t sl;
	struct sockaddr_storage dns_addr;
	tp_settings_t s;
	tp_p tp = NULL;
	dns_rslvr_p rslvr = NULL;
	dns_rslvr_task_p t1 = NULL, t2 = NULL;
	uint8_t q[512], r[600];
	ssize_t n;
	size_t qend, rlen;
	struct pollfd pfd;
	static uint8_t name[] = "example.com";
	const uint8_t ans[] = { 0xc0, 0x0c, 0, 1, 0, 1, 0, 0, 0, 60, 0, 4, 10, 1, 2, 3 };

	srv = socket(AF_INET, SOCK_DGRAM, 0);
	memset(&sin, 0, sizeof(sin));
	sin.sin_family = AF_INET;
	sin.sin_addr.s_addr = htonl(INADDR_LOOPBACK);
	if (0 != bind(srv, (struct sockaddr*)&sin, sizeof(sin))) { perror("bind"); return (99); }
	sl = sizeof(sin);
	getsockname(srv, (struct sockaddr*)&sin, &sl);
	memset(&dns_addr, 0, sizeof(dns_addr));
	memcpy(&dns_addr, &sin, sizeof(sin));

	tp_settings_def(&s);
	s.threads_max = 1;
	s.flags = 0;
	error = tp_create(&s, &tp);
	if (0 != error) { printf("tp_create: %d\n", error); return (99); }
	error = tp_threads_create(tp, 0);
	if (0 != error) { printf("tp_threads_create: %d\n", error); return (99); }
	usleep(300000);
	error = dns_resolver_create(tp, &dns_addr, 1, 5000, 1, 10, &rslvr);
	if (0 != error) { printf("dns_resolver_create: %d\n", error); return (99); }

	/* Two lookups of the same name: the first sends a query, the second is
	 * queued in the cache entry that is being updated. */
	error = dns_resolv_hostaddr(rslvr, name, sizeof(name) - 1, 0, res_cb, "first", &t1);
	printf("dns_resolv_hostaddr #1: %d\n", error);
	error = dns_resolv_hostaddr(rslvr, name, sizeof(name) - 1, 0, res_cb, "second", &t2);
	printf("dns_resolv_hostaddr #2: %d\n", error);

	pfd.fd = srv; pfd.events = POLLIN;
	if (1 != poll(&pfd, 1, 3000)) { printf("no query received (no loopback?)\n"); return (99); }
	sl = sizeof(from);
	n = recvfrom(srv, q, sizeof(q), 0, (struct sockaddr*)&from, &sl);
	if (n < 17) { printf("short query\n"); return (99); }
	printf("server: query of %zd bytes, id bytes %02x %02x\n", n, q[0], q[1]);
	/* Reply: header + question + one A record. */
	qend = 12;
	while (0 != q[qend]) qend += (size_t)q[qend] + 1;
	qend += 5;
	memcpy(r, q, qend);
	r[2] = 0x81; r[3] = 0x80;		/* QR, RD, RA, NOERROR */
	r[6] = 0; r[7] = 1;			/* ANCOUNT = 1 */
	r[8] = r[9] = r[10] = r[11] = 0;	/* NS/AR = 0 */
	memcpy(r + qend, ans, sizeof(ans));
	rlen = qend + sizeof(ans);
	if (queued) {
		/* The queued task got the next ID (whatever byte order is used). */
		r[0] = q[0] + 1; r[1] = q[1];
		sendto(srv, r, rlen, 0, (struct sockaddr*)&from, sl);
		r[0] = q[0]; r[1] = q[1] + 1;
		sendto(srv, r, rlen, 0, (struct sockaddr*)&from, sl);
		printf("server: sent replies with the ID of the queued task\n");
	} else {
		sendto(srv, r, rlen, 0, (struct sockaddr*)&from, sl);
		printf("server: sent reply with the asked ID\n");
	}
	fflush(stdout);
	sleep(1);
	if (queued) {
		printf("OK: the reply for the queued task was ignored (callbacks so far: %d)\n", cb_calls);
		_exit(0);
	}
	if (2 != cb_calls) { printf("legit mode: expected 2 callbacks, got %d\n", cb_calls); _exit(98); }
	printf("legit mode OK\n");
	_exit(0);
}
