#!/bin/sh
T="${1:-/tmp/hunt/C13}"
D="$(cd "$(dirname "$0")" && pwd)"
O="$(mktemp -d)"
clang -g -O0 -fsanitize=address,undefined -fno-sanitize-recover=undefined \
 -DHAVE_ACCEPT4 -DHAVE_EXPLICIT_BZERO -DHAVE_MEMMEM -DHAVE_MEMRCHR -DHAVE_PIPE2 -DHAVE_REALLOCARRAY -DHAVE_SOCK_CLOEXEC -DHAVE_SOCK_NONBLOCK -DHAVE_STRNCASECMP -DLINUX -D_GNU_SOURCE -D__USE_GNU=1 \
 -I"$T/include" "$D/demo.c" -o "$O/demo" || exit 99
"$O/demo"; rc=$?
rm -rf "$O"
exit $rc
