/* sdp_msg_sec_chk(): check 3 ("Control codes: < 32, != CRLF, != tab, > 126")
 * never refuses bytes > 126: the test "(*ptm) > 31 -> continue" comes first, so
 * "(*ptm) > 126 -> return 3" is dead code.  DEL (0x7f) and 0x80..0xff pass. */
#include <sys/param.h>
#include <sys/types.h>
#include <inttypes.h>
#include <string.h>
#include <stdio.h>
#include <errno.h>
#include "proto/sdp.h"

int main(void) {
	int fails = 0, rc;
	uint8_t good[] = "v=0\r\no=- 1 1 IN IP4 1.2.3.4\r\ns=name\r\nt=0 0\r\nc=IN IP4 1.2.3.4\r\nm=video 1234 RTP/AVP 33\r\n";
	uint8_t bad[sizeof(good)];
	const uint8_t vals[] = { 0x7f, 0x80, 0x9b, 0xff };

	rc = sdp_msg_sec_chk(good, sizeof(good) - 1);
	printf("clean message: %d\n", rc);
	if (0 != rc) { printf("FAIL: clean message refused\n"); return 2; }
	for (size_t i = 0; i < sizeof(vals); i ++) {
		memcpy(bad, good, sizeof(good));
		bad[33] = vals[i]; /* inside "s=name" */
		rc = sdp_msg_sec_chk(bad, sizeof(good) - 1);
		printf("byte 0x%02x in s= line: sdp_msg_sec_chk = %d (expected 3)\n", vals[i], rc);
		if (3 != rc) fails ++;
	}
	/* control: 0x01 is refused. */
	memcpy(bad, good, sizeof(good)); bad[33] = 1;
	printf("byte 0x01: %d\n", sdp_msg_sec_chk(bad, sizeof(good) - 1));
	if (fails) { printf("FAIL: %d bytes > 126 accepted\n", fails); return 1; }
	printf("OK\n");
	return 0;
}
