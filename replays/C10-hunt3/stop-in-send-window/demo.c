/* tpt_msg_send() tests tpt_is_running(dst) and then writes to dst's pipe.
 * A thread that leaves the pool (tp_thread_dettach() / stop message) in
 * between drains its queue once and never reads it again, but the pipe
 * stays open until tp_destroy(): the write succeeds, the broadcast counts
 * the message as sent, nobody ever runs it.  The synchronous form then
 * never returns (the completion form never completes).
 * The window is made wide with a scheduling point in write(): this program
 * defines write() itself, the library code is not changed. */
#include <sys/param.h>
#include <sys/types.h>
#include <sys/syscall.h>
#include <inttypes.h>
#include <stdlib.h>
#include <stdio.h>
#include <unistd.h>
#include <string.h>
#include <errno.h>
#include <pthread.h>
#include <time.h>

#include "al/os.h"
#include "threadpool/threadpool.h"
#include "threadpool/threadpool_msg_sys.h"

#define N 4
#define VICTIM 2
static tp_p tp;
static volatile int armed, wr_idx, cb_total, returned, ret_code;
static volatile size_t r_sent, r_err;
static pthread_t bcaster;

static void
msleep(long ms) {
	struct timespec ts = { ms / 1000, (ms % 1000) * 1000000L };
	nanosleep(&ts, NULL);
}

static void
leave_cb(tpt_p tpt, void *udata) {
	(void)udata;
	tp_thread_dettach(tpt); /* This thread leaves the pool. */
}

ssize_t
write(int fd, const void *buf, size_t n) {
	if (0 != armed && 32 == n && pthread_equal(pthread_self(), bcaster)) {
		if (VICTIM == wr_idx ++) { /* Broadcast is about to write to VICTIM. */
			armed = 0;
			/* Meanwhile somebody tells VICTIM to leave; it drains and exits. */
			tpt_msg_send(tp_thread_get(tp, VICTIM), NULL, 0, leave_cb, NULL);
			while ((N - 1) != tp_thread_count_get(tp)) {
				msleep(5);
			}
			msleep(200);
			armed = 1;
		}
	}
	return (syscall(SYS_write, fd, buf, n));
}

static void
cb(tpt_p tpt, void *udata) {
	(void)tpt; (void)udata;
	__sync_fetch_and_add(&cb_total, 1);
}

static void *
bcast_thr(void *arg) {
	size_t sent = 0, err = 0;
	(void)arg;
	armed = 1;
	ret_code = tpt_msg_bsend_ex(tp, NULL, TP_BMSG_F_SYNC, cb, NULL, &sent, &err);
	armed = 0;
	r_sent = sent;
	r_err = err;
	returned = 1;
	return (NULL);
}

int
main(void) {
	tp_settings_t s;
	int i;

	setvbuf(stdout, NULL, _IONBF, 0);
	tp_settings_def(&s);
	s.threads_max = N;
	s.flags = 0;
	if (0 != tp_create(&s, &tp) || 0 != tp_threads_create(tp, 0)) {
		printf("setup failed\n");
		return (2);
	}
	while (N != tp_thread_count_get(tp)) {
		msleep(10);
	}
	msleep(100);
	pthread_create(&bcaster, NULL, bcast_thr, NULL);
	for (i = 0; i < 300 && 0 == returned; i ++) {
		msleep(10);
	}
	printf("sync broadcast over %d threads, thread %d leaves between the "
	    "running test and the write:\n returned=%d ret=%d callbacks=%d "
	    "sent=%zu failed=%zu running now=%zu\n", N, VICTIM, returned,
	    ret_code, cb_total, r_sent, r_err, tp_thread_count_get(tp));
	if (0 == returned) {
		printf("FAIL: message accepted for a thread that already left: "
		    "never run, synchronous broadcast waits for ever\n");
		_exit(1);
	}
	if ((size_t)cb_total != r_sent || N != (r_sent + r_err)) {
		printf("FAIL: counts\n");
		_exit(1);
	}
	tp_shutdown(tp);
	tp_shutdown_wait(tp);
	tp_destroy(tp);
	printf("OK\n");
	return (0);
}
