/* tpt_msg_bsend_ex(TP_BMSG_F_SYNC) called on a pool thread with a src that
 * is a thread of this pool but not the calling thread (here: the pool
 * virtual thread, which is the tpt an event callback registered on the pvt
 * receives in tp_udata->tpt).  "Serve the caller's own copy directly" is
 * decided by src == tpt_get_current(); with src = pvt the caller's copy is
 * queued to the caller's own queue and the caller then waits for it
 * for ever: the synchronous form never returns. */
#include <sys/param.h>
#include <sys/types.h>
#include <inttypes.h>
#include <stdlib.h>
#include <stdio.h>
#include <unistd.h>
#include <string.h>
#include <errno.h>
#include <pthread.h>
#include <time.h>

#include "al/os.h"
#include "threadpool/threadpool.h"
#include "threadpool/threadpool_msg_sys.h"

#define N 4
static tp_p tp;
static volatile int cb_total, returned, ret_code, entered;
static volatile size_t r_sent, r_err;
static volatile int use_null_src;
static volatile uint32_t g_flags;
static int pfd[2];

static void
msleep(long ms) {
	struct timespec ts = { ms / 1000, (ms % 1000) * 1000000L };
	nanosleep(&ts, NULL);
}

static void
cb(tpt_p tpt, void *udata) {
	(void)tpt; (void)udata;
	__sync_fetch_and_add(&cb_total, 1);
}

static void
ev_cb(tp_event_p ev, tp_udata_p tp_udata) {
	size_t sent = 0, err = 0;
	char c;

	(void)ev;
	read(pfd[0], &c, 1);
	entered = 1;
	/* tp_udata->tpt is the pvt here; the code runs on a pool worker. */
	ret_code = tpt_msg_bsend_ex(tp, (use_null_src ? NULL : tp_udata->tpt),
	    g_flags, cb, NULL, &sent, &err);
	r_sent = sent;
	r_err = err;
	returned = 1;
}

static int
run(int null_src, uint32_t flags, const char *name, int expect_cb) {
	static tp_udata_t ud[8];
	static int udi;
	tp_udata_p u = &ud[udi ++];
	int i;

	cb_total = returned = entered = 0;
	r_sent = r_err = 0;
	ret_code = -1;
	use_null_src = null_src;
	g_flags = flags;
	memset(u, 0, sizeof(*u));
	u->cb_func = ev_cb;
	u->ident = (uintptr_t)pfd[0];
	if (0 != tpt_ev_add_args(tp_thread_get_pvt(tp), TP_EV_READ,
	    TP_F_ONESHOT, 0, 0, u)) {
		printf("tpt_ev_add_args failed\n");
		exit(2);
	}
	write(pfd[1], "1", 1);
	for (i = 0; i < 300 && 0 == returned; i ++) {
		msleep(10);
	}
	printf("%-34s entered=%d returned=%d ret=%d callbacks=%d sent=%zu failed=%zu\n",
	    name, entered, returned, ret_code, cb_total, r_sent, r_err);
	if (0 == returned || expect_cb != cb_total)
		return (1);
	return (0);
}

int
main(void) {
	tp_settings_t s;
	int bad = 0;

	setvbuf(stdout, NULL, _IONBF, 0);
	tp_settings_def(&s);
	s.threads_max = N;
	s.flags = 0;
	if (0 != pipe(pfd) || 0 != tp_create(&s, &tp) ||
	    0 != tp_threads_create(tp, 0)) {
		printf("setup failed\n");
		return (2);
	}
	while (N != tp_thread_count_get(tp)) {
		msleep(10);
	}
	msleep(100);

	/* Reference: src = NULL (resolved to the calling worker): returns. */
	if (0 != run(1, TP_BMSG_F_SYNC, "SYNC, src=NULL (reference)", N)) {
		printf("unexpected: reference case fails\n");
	}
	bad = run(0, TP_BMSG_F_SYNC, "SYNC, src=tp_udata->tpt (pvt)", N);
	if (bad) {
		printf("FAIL: synchronous broadcast from a pool thread never returned "
		    "(caller waits for the copy in its own queue)\n");
		_exit(1); /* A worker is stuck for ever: no clean shutdown possible. */
	}
	tp_shutdown(tp);
	tp_shutdown_wait(tp);
	tp_destroy(tp);
	printf("OK\n");
	return (0);
}
