/* tpt_msg_cbsend(TP_CBMSG_F_ONE_BY_ONE) with the pool virtual thread (pvt)
 * as originator: the pvt is not one of the threads a broadcast targets
 * (the plain completion form with the same originator runs N callbacks and
 * reports sent = N), but the one-by-one form runs the callback N + 1 times
 * (once more "as pvt", on a worker that already ran it) and reports N + 1. */
#include <sys/param.h>
#include <sys/types.h>
#include <inttypes.h>
#include <stdlib.h>
#include <stdio.h>
#include <unistd.h>
#include <string.h>
#include <errno.h>
#include <pthread.h>
#include <time.h>

#include "al/os.h"
#include "threadpool/threadpool.h"
#include "threadpool/threadpool_msg_sys.h"

#define N 4
static tp_p tp;
static volatile int cb_total, cb_on_pvt, done_calls;
static volatile size_t done_sent, done_err;
static volatile int per_os_thread_max;
static pthread_t seen[64];
static int seen_cnt[64], seen_n;
static pthread_mutex_t mtx = PTHREAD_MUTEX_INITIALIZER;

static void
msleep(long ms) {
	struct timespec ts = { ms / 1000, (ms % 1000) * 1000000L };
	nanosleep(&ts, NULL);
}

static void
cb(tpt_p tpt, void *udata) {
	int i;
	(void)udata;
	pthread_mutex_lock(&mtx);
	cb_total ++;
	if (tpt == tp_thread_get_pvt(tp)) {
		cb_on_pvt ++;
	}
	for (i = 0; i < seen_n; i ++) {
		if (pthread_equal(seen[i], pthread_self()))
			break;
	}
	if (i == seen_n) {
		seen[seen_n ++] = pthread_self();
	}
	seen_cnt[i] ++;
	if (seen_cnt[i] > per_os_thread_max) {
		per_os_thread_max = seen_cnt[i];
	}
	pthread_mutex_unlock(&mtx);
}

static void
done(tpt_p tpt, size_t sent, size_t err, void *udata) {
	(void)tpt; (void)udata;
	done_sent = sent;
	done_err = err;
	done_calls ++;
}

static void
reset(void) {
	cb_total = cb_on_pvt = done_calls = 0;
	done_sent = done_err = 0;
	per_os_thread_max = 0;
	seen_n = 0;
	memset(seen_cnt, 0, sizeof(seen_cnt));
}

static int
run(uint32_t flags, const char *name) {
	int error, bad = 0;

	reset();
	error = tpt_msg_cbsend(tp, tp_thread_get_pvt(tp), flags, cb, NULL, done);
	msleep(500);
	printf("%-28s ret=%d callbacks=%d (as pvt: %d) max per OS thread=%d "
	    "done_calls=%d sent=%zu failed=%zu\n", name, error, cb_total,
	    cb_on_pvt, per_os_thread_max, done_calls, done_sent, done_err);
	if (N != cb_total || 1 != done_calls || N != (done_sent + done_err) ||
	    1 != per_os_thread_max) {
		bad = 1;
	}
	return (bad);
}

int
main(void) {
	tp_settings_t s;
	int bad = 0;

	tp_settings_def(&s);
	s.threads_max = N;
	s.flags = 0;
	if (0 != tp_create(&s, &tp) || 0 != tp_threads_create(tp, 0)) {
		printf("setup failed\n");
		return (2);
	}
	while (N != tp_thread_count_get(tp)) {
		msleep(10);
	}
	msleep(100);

	/* Reference: plain completion form, same originator: N targets. */
	if (0 != run(0, "cbsend(0)")) {
		printf("unexpected: reference case differs\n");
	}
	bad |= run(TP_CBMSG_F_ONE_BY_ONE, "cbsend(ONE_BY_ONE)");
	bad |= run(TP_CBMSG_F_ONE_BY_ONE | TP_MSG_F_SELF_DIRECT,
	    "cbsend(ONE_BY_ONE|SELF_DIRECT)");

	tp_shutdown(tp);
	tp_shutdown_wait(tp);
	tp_destroy(tp);
	if (bad) {
		printf("FAIL: %d threads targeted, callback ran / was counted %d + 1 times\n", N, N);
		return (1);
	}
	printf("OK\n");
	return (0);
}
