/* A caller outside the pool (main thread) that names thread 0 as originator
 * (exactly what the library's own tests do for tpt_msg_cbsend) and passes
 * TP_MSG_F_SELF_DIRECT: "self" is decided from the declared src, not from
 * the calling thread, so the callback for thread 0 is executed on the main
 * thread - not on a pool thread, and at the same time as thread 0 runs
 * something else.  (The 1-thread shortcuts of both functions do test
 * src == tpt_get_current(), but the general path that is taken instead
 * hands the declared src to tpt_msg_send(), which trusts it.) */
#include <sys/param.h>
#include <sys/types.h>
#include <inttypes.h>
#include <stdlib.h>
#include <stdio.h>
#include <unistd.h>
#include <string.h>
#include <errno.h>
#include <pthread.h>
#include <time.h>

#include "al/os.h"
#include "threadpool/threadpool.h"
#include "threadpool/threadpool_msg_sys.h"

static tp_p tp;
static pthread_t main_thr;
static volatile int cb_total, cb_on_main, cb_not_current, cb_while_busy, done_calls;
static volatile int thr0_busy;

static void
msleep(long ms) {
	struct timespec ts = { ms / 1000, (ms % 1000) * 1000000L };
	nanosleep(&ts, NULL);
}

static void
busy_cb(tpt_p tpt, void *udata) {
	(void)tpt; (void)udata;
	thr0_busy = 1;
	msleep(300);
	thr0_busy = 0;
}

static void
cb(tpt_p tpt, void *udata) {
	(void)udata;
	__sync_fetch_and_add(&cb_total, 1);
	if (pthread_equal(pthread_self(), main_thr)) {
		__sync_fetch_and_add(&cb_on_main, 1);
	}
	if (tpt_get_current() != tpt) {
		__sync_fetch_and_add(&cb_not_current, 1);
	}
	if (0 == tpt_get_num(tpt) && 0 != thr0_busy) {
		__sync_fetch_and_add(&cb_while_busy, 1);
	}
}

static void
done(tpt_p tpt, size_t sent, size_t err, void *udata) {
	(void)tpt; (void)sent; (void)err; (void)udata;
	done_calls ++;
}

static int
run(size_t n, int mode, uint32_t flags, const char *name) {
	tp_settings_t s;
	int error, bad;
	size_t sent = 0, failed = 0;

	tp_settings_def(&s);
	s.threads_max = n;
	s.flags = 0;
	if (0 != tp_create(&s, &tp) || 0 != tp_threads_create(tp, 0)) {
		printf("setup failed\n");
		exit(2);
	}
	while (n != tp_thread_count_get(tp)) {
		msleep(10);
	}
	msleep(50);
	cb_total = cb_on_main = cb_not_current = cb_while_busy = done_calls = 0;
	/* Thread 0 is inside some other callback for 300 ms. */
	tpt_msg_send(tp_thread_get(tp, 0), NULL, 0, busy_cb, NULL);
	while (0 == thr0_busy) {
		msleep(1);
	}
	if (0 == mode) {
		error = tpt_msg_bsend_ex(tp, tp_thread_get(tp, 0), flags, cb,
		    NULL, &sent, &failed);
	} else {
		error = tpt_msg_cbsend(tp, tp_thread_get(tp, 0), flags, cb,
		    NULL, done);
	}
	msleep(600);
	printf("%-40s N=%zu ret=%d callbacks=%d on_main_thread=%d "
	    "tpt!=current=%d while_thread0_busy=%d\n", name, n, error,
	    cb_total, cb_on_main, cb_not_current, cb_while_busy);
	bad = (0 != cb_on_main || 0 != cb_not_current || 0 != cb_while_busy);
	tp_shutdown(tp);
	tp_shutdown_wait(tp);
	tp_destroy(tp);
	return (bad);
}

int
main(void) {
	int bad = 0;

	setvbuf(stdout, NULL, _IONBF, 0);
	main_thr = pthread_self();
	/* Reference: without SELF_DIRECT every callback runs on its thread. */
	if (0 != run(4, 1, 0, "cbsend(0) (reference)")) {
		printf("unexpected: reference case differs\n");
	}
	bad |= run(1, 1, TP_MSG_F_SELF_DIRECT, "cbsend(SELF_DIRECT)");
	bad |= run(4, 1, TP_MSG_F_SELF_DIRECT, "cbsend(SELF_DIRECT)");
	bad |= run(4, 1, TP_MSG_F_SELF_DIRECT | TP_CBMSG_F_ONE_BY_ONE,
	    "cbsend(SELF_DIRECT|ONE_BY_ONE)");
	bad |= run(4, 0, TP_MSG_F_SELF_DIRECT, "bsend_ex(SELF_DIRECT)");
	if (bad) {
		printf("FAIL: callback of thread 0 executed on the outside caller's thread\n");
		return (1);
	}
	printf("OK\n");
	return (0);
}
