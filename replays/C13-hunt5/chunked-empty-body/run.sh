#!/bin/sh
T=${1:-/tmp/hunt/C13}
D=$(cd "$(dirname "$0")" && pwd)
O=$(mktemp -d)
CF="-DHAVE_ACCEPT4 -DHAVE_EXPLICIT_BZERO -DHAVE_MEMMEM -DHAVE_MEMRCHR -DHAVE_PIPE2 \
-DHAVE_POSIX_SPAWN_FILE_ACTIONS_ADDCLOSEFROM_NP -DHAVE_PTHREAD_SETNAME_NP -DHAVE_REALLOCARRAY \
-DHAVE_SOCK_CLOEXEC -DHAVE_SOCK_NONBLOCK -DHAVE_STRNCASECMP -DLINUX -D_GNU_SOURCE -D__USE_GNU=1"
clang -g -O0 -w -fsanitize=address,undefined $CF -I"$T/include" "$D/demo.c" "$T/src/proto/http.c" \
    -o "$O/demo" || { echo "BUILD FAILED"; exit 3; }
"$O/demo"; rc=$?
rm -rf "$O"
[ $rc -ne 0 ] && { echo "FAIL (exit $rc)"; exit 1; }
echo PASS; exit 0
