/*
 * http_data_decode_chunked(): returns 0 (success) without storing *data_ret
 * when the first chunk-size line is the last-chunk ("0\r\n\r\n" - the legal
 * encoding of an empty body), for an empty input, and for input without CRLF
 * that holds no hex digit.  The caller is told "decoded, 0 bytes" and is left
 * with whatever its pointer variable held before.
 * Second check: a chunk size with more than 16 hex digits is reduced modulo
 * 2^64 (10000000000000005 -> 5) and the body is accepted.
 */
#include <sys/param.h>
#include <sys/types.h>
#include <inttypes.h>
#include <string.h>
#include <stdio.h>
#include <stdlib.h>
#include <errno.h>
#include "proto/http.h"

static int
one(const char *name, const char *body, int want_err_only) {
	size_t n = strlen(body), rsz = 12345;
	uint8_t *buf = malloc(n + 1), *ret;
	int error, bad = 0;

	memcpy(buf, body, n);
	memset(&ret, 0xA5, sizeof(ret)); /* what an uninitialised local may hold */
	error = http_data_decode_chunked(buf, n, &ret, &rsz);
	printf("%-14s error = %i, data_ret = %p, size = %zu (buf %p..%p)\n",
	    name, error, (void*)ret, rsz, (void*)buf, (void*)(buf + n));
	if (0 == error) {
		if (want_err_only) {
			printf("  FAIL: accepted (size field is not the number that was sent)\n");
			bad = 1;
		} else if (ret < buf || ret > (buf + n) || rsz > (size_t)((buf + n) - ret)) {
			printf("  FAIL: success, but the returned pointer is not inside the message\n");
			bad = 1;
		}
	}
	free(buf);
	return (bad);
}

int
main(void) {
	int bad = 0;

	bad |= one("empty-body", "0\r\n\r\n", 0);
	bad |= one("empty-input", "", 0);
	bad |= one("ok-body", "3\r\nabc\r\n0\r\n\r\n", 0);
	bad |= one("size-wraps", "10000000000000005\r\nhello\r\n0\r\n\r\n", 1);
	if (bad) {
		printf("FAIL\n");
		return (1);
	}
	printf("OK\n");
	return (0);
}
