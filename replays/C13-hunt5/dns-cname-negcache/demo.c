/*
 * dns_resolv.c: a cache entry that holds a CNAME (pdata = alias text,
 * data_count = alias length in BYTES) loses its DNS_R_CD_F_CNAME flag when a
 * later refresh of the same name ends without data (NXDOMAIN / error /
 * timeout: dns_rslvr_cache_entry_data_add(entry, ..., data_count = 0, flags = 0)
 * jumps to data_upd_done and stores cache_entry->flags = 0 but keeps pdata and
 * data_count).  The next lookup inside the negative-cache time treats the
 * entry as "data_count addresses of 26 bytes each" and copies them out of the
 * (alias length + 2) byte heap block: heap over-read, and the caller gets
 * error 0 with garbage addresses.
 *
 * Two datagrams from the configured server are enough:
 *   1. answer to "x.test": x.test CNAME y.test (ttl 1)
 *   2. (after the ttl) answer to "x.test": NXDOMAIN
 * The datagrams are handed to the real receive callback dns_resolver_recv_cb()
 * (static, therefore the source file is included).
 */
#include "src/proto/dns_resolv.c"

#include <stdlib.h>
#include <arpa/inet.h>

static int cb_calls, cb_last_error;
static size_t cb_last_count;

static int
resolv_cb(dns_rslvr_task_p task __unused, int error,
    struct sockaddr_storage *addrs __unused, size_t addrs_count, void *arg) {

	cb_calls ++;
	cb_last_error = error;
	cb_last_count = addrs_count;
	printf("  callback(%s): error = %i, addrs_count = %zu\n",
	    (const char*)arg, error, addrs_count);
	return (0);
}

static size_t
put(uint8_t *p, size_t off, const void *d, size_t n) {
	memcpy(p + off, d, n);
	return (off + n);
}

/* Give one datagram to the resolver exactly as the packet receiver does. */
static void
feed(dns_rslvr_p rslvr, sockaddr_storage_p from, const uint8_t *msg, size_t n) {

	memcpy(rslvr->buf.data, msg, n);
	rslvr->buf.used = n;
	dns_resolver_recv_cb(NULL, 0, from, &rslvr->buf, n, rslvr);
}

int
main(void) {
	tp_settings_t s;
	tp_p tp = NULL;
	dns_rslvr_p rslvr = NULL;
	dns_rslvr_task_p task;
	sockaddr_storage_t srv;
	uint8_t m[512];
	size_t n;
	uint16_t id;
	int error;
	static const uint8_t q[] = { 1,'x',4,'t','e','s','t',0, 0,1, 0,1 };
	static const uint8_t cn[] = { 0xc0,0x0c, 0,5, 0,1, 0,0,0,1, 0,8,
	    1,'y',4,'t','e','s','t',0 };

	tp_settings_def(&s);
	s.threads_max = 1;
	s.flags = 0;
	error = tp_create(&s, &tp);
	if (0 != error) {
		printf("tp_create: %i\n", error);
		return (2);
	}
	memset(&srv, 0, sizeof(srv));
	((struct sockaddr_in*)&srv)->sin_family = AF_INET;
	((struct sockaddr_in*)&srv)->sin_port = htons(5353);
	((struct sockaddr_in*)&srv)->sin_addr.s_addr = htonl(INADDR_LOOPBACK);
	/* timeout 60 s (no timer will fire here), retry 1, negative cache 30 s. */
	error = dns_resolver_create(tp, &srv, 1, 60000, 1, 30, &rslvr);
	if (0 != error) {
		printf("dns_resolver_create: %i\n", error);
		return (2);
	}

	/* 1. first lookup; the server answers with a CNAME only. */
	printf("lookup 1 of x.test\n");
	task = NULL;
	error = dns_resolv_hostaddr(rslvr, (uint8_t*)"x.test", 6, 0, resolv_cb,
	    (void*)"1", &task);
	if (0 != error || NULL == task) {
		printf("dns_resolv_hostaddr 1: %i (no loopback UDP?)\n", error);
		return (2);
	}
	id = task->task_id;
	n = 0;
	n = put(m, n, &id, 2);
	n = put(m, n, "\x81\x80" "\0\1" "\0\1" "\0\0" "\0\0", 10);
	n = put(m, n, q, sizeof(q));
	n = put(m, n, cn, sizeof(cn));
	feed(rslvr, &srv, m, n); /* x.test -> CNAME y.test, a query for y.test goes out. */

	sleep(5); /* ttl 1 is raised to DNS_RESOLVER_TTL_MIN = 4 */

	/* 2. the entry is out of date: refresh; the server says NXDOMAIN. */
	printf("lookup 2 of x.test (refresh)\n");
	task = NULL;
	error = dns_resolv_hostaddr(rslvr, (uint8_t*)"x.test", 6, 0, resolv_cb,
	    (void*)"2", &task);
	if (0 != error || NULL == task) {
		printf("dns_resolv_hostaddr 2: %i\n", error);
		return (2);
	}
	id = task->task_id;
	n = 0;
	n = put(m, n, &id, 2);
	n = put(m, n, "\x81\x83" "\0\1" "\0\0" "\0\0" "\0\0", 10);
	n = put(m, n, q, sizeof(q));
	feed(rslvr, &srv, m, n); /* callback "2" reports the error, negative cache for 30 s */

	/* 3. lookup inside the negative cache time. */
	printf("lookup 3 of x.test (negative cache)\n");
	cb_calls = 0;
	task = NULL;
	error = dns_resolv_hostaddr(rslvr, (uint8_t*)"x.test", 6, 0, resolv_cb,
	    (void*)"3", &task);
	printf("dns_resolv_hostaddr 3: %i, callbacks = %i\n", error, cb_calls);
	if (0 != cb_calls && 0 == cb_last_error && 0 != cb_last_count) {
		printf("FAIL: a name that has no address (CNAME, then NXDOMAIN) "
		    "is answered with %zu 'addresses' read from the %i byte "
		    "alias text\n", cb_last_count, 6 + 2);
		return (1);
	}
	printf("OK\n");
	return (0);
}
