#!/bin/sh
# usage: run.sh <tree>; exits non-zero when the defect shows (ASan report or FAIL).
T=${1:-/tmp/hunt/C13}
D=$(cd "$(dirname "$0")" && pwd)
O=$(mktemp -d)
CF="-DHAVE_ACCEPT4 -DHAVE_EXPLICIT_BZERO -DHAVE_MEMMEM -DHAVE_MEMRCHR -DHAVE_PIPE2 \
-DHAVE_POSIX_SPAWN_FILE_ACTIONS_ADDCLOSEFROM_NP -DHAVE_PTHREAD_SETNAME_NP -DHAVE_REALLOCARRAY \
-DHAVE_SOCK_CLOEXEC -DHAVE_SOCK_NONBLOCK -DHAVE_STRNCASECMP -DLINUX -D_GNU_SOURCE -D__USE_GNU=1"
clang -g -O0 -w -fsanitize=address,undefined -fno-sanitize-recover=address $CF \
    -I"$T/include" -I"$T" "$D/demo.c" \
    "$T"/src/threadpool/threadpool.c "$T"/src/threadpool/threadpool_msg_sys.c \
    "$T"/src/threadpool/threadpool_task.c \
    "$T"/src/net/socket.c "$T"/src/net/socket_address.c "$T"/src/net/socket_options.c \
    "$T"/src/net/utils.c "$T"/src/utils/sys.c \
    -lpthread -o "$O/demo" || { echo "BUILD FAILED"; exit 3; }
ASAN_OPTIONS=detect_leaks=0 "$O/demo"
rc=$?
rm -rf "$O"
if [ $rc -ne 0 ]; then echo "FAIL (exit $rc)"; exit 1; fi
echo PASS
exit 0
