/* Peer writes 48 bytes and closes.  A receive task with a 16 byte window gets
 * the 'eof' argument != 0 (TP_TASK_IOF_F_SYS, taken from EPOLLRDHUP) already in
 * the first callback, while 32 bytes of the stream are still unread: end of
 * stream is reported 4 times, 3 of them before the end.  A callback that acts
 * on eof (the library's own tp_task_cb_check() order is only saved by the
 * window test in front of it; with TP_TASK_F_CB_AFTER_EVERY_READ and a
 * SOCK_SEQPACKET peer it says TP_TASK_CB_EOF) drops the rest of the data. */
#include <sys/param.h>
#include <sys/types.h>
#include <sys/socket.h>
#include <inttypes.h>
#include <string.h>
#include <stdio.h>
#include <stdlib.h>
#include <errno.h>
#include <unistd.h>
#include "threadpool/threadpool.h"
#include "threadpool/threadpool_task.h"

static volatile int n_cb = 0, n_eof_early = 0, n_check_eof_early = 0, done = 0;
static volatile size_t total = 0;
static size_t expect_total;

static int
cb(tp_task_p t, int error, io_buf_p buf, uint32_t eof, size_t tr, void *udata) {
	int chk = tp_task_cb_check(buf, eof, tr);
	n_cb ++; total += tr;
	printf("  cb %i: error=%i eof=0x%x transfered=%zu (total %zu of %zu) tp_task_cb_check=%i\n",
	    n_cb, error, eof, tr, total, expect_total, chk);
	if (0 != eof && total < expect_total) {
		n_eof_early ++;
		if (TP_TASK_CB_EOF == chk) n_check_eof_early ++;
	}
	if (0 != error || (0 != (eof & TP_TASK_IOF_F_BUF)) || n_cb > 16) {
		done = 1; tp_task_stop(t); return (TP_TASK_CB_NONE);
	}
	IO_BUF_MARK_AS_EMPTY(buf); IO_BUF_MARK_TRANSFER_ALL_FREE(buf);
	return (TP_TASK_CB_CONTINUE);
}

static int
run(tp_p tp, int type, uint32_t flags) {
	tp_task_p task; io_buf_p buf; int sv[2], i; uint8_t msg[16];

	n_cb = n_eof_early = n_check_eof_early = done = 0; total = 0; expect_total = 48;
	socketpair(AF_UNIX, type | SOCK_NONBLOCK, 0, sv);
	memset(msg, 0x55, sizeof(msg));
	buf = io_buf_alloc(IO_BUF_FLAGS_STD, ((SOCK_STREAM == type) ? 16 : 64));
	IO_BUF_MARK_TRANSFER_ALL_FREE(buf);
	for (i = 0; i < 3; i ++) write(sv[1], msg, 16);
	close(sv[1]);
	tp_task_create_start(tp_thread_get(tp, 0), (uintptr_t)sv[0], tp_task_sr_handler,
	    flags, TP_EV_READ, 0, 0, 0, buf, cb, NULL, &task);
	for (i = 0; i < 50 && !done; i ++) usleep(20000);
	tp_task_destroy(task); close(sv[0]); io_buf_free(buf);
	return (n_eof_early);
}

int
main(void) {
	tp_settings_t s; tp_p tp; int a, b, bc;

	tp_settings_def(&s); s.flags = 0; s.threads_max = 1;
	if (0 != tp_create(&s, &tp)) return (2);
	tp_threads_create(tp, 0);
	printf("SOCK_STREAM, window 16, 48 bytes then close:\n");
	a = run(tp, SOCK_STREAM, 0);
	printf("SOCK_SEQPACKET, window 64, TP_TASK_F_CB_AFTER_EVERY_READ, 3 x 16 bytes then close:\n");
	b = run(tp, SOCK_SEQPACKET, TP_TASK_F_CB_AFTER_EVERY_READ); bc = n_check_eof_early;
	tp_shutdown(tp); tp_shutdown_wait(tp); tp_destroy(tp);
	if (a || b) {
		printf("FAIL: eof reported before the end of the data: %i (stream) + %i (seqpacket) times; "
		    "tp_task_cb_check() answered TP_TASK_CB_EOF with data pending %i times\n", a, b, bc);
		return (1);
	}
	printf("OK\n");
	return (0);
}
