#!/bin/sh
T="${1:-/tmp/hunt/C16}"; D="$(dirname "$(readlink -f "$0")")"
. "$D/../build.inc.sh"
build "$T" "$D/demo.c" /tmp/hunt_c16_eof || exit 2
/tmp/hunt_c16_eof
