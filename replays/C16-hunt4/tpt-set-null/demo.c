/* tp_task_tpt_set(): the guard reads  NULL == tptask && NULL != tpt  (should be ||).
 * (NULL, NULL) dereferences NULL although every other setter of the module
 * ignores a NULL task; (task, NULL) stores a NULL thread into a task: the
 * next re-arm in tp_task_handler_post_int()/tp_task_restart() gets EINVAL. */
#include <sys/param.h>
#include <sys/types.h>
#include <sys/wait.h>
#include <inttypes.h>
#include <string.h>
#include <stdio.h>
#include <stdlib.h>
#include <errno.h>
#include <unistd.h>
#include "threadpool/threadpool.h"
#include "threadpool/threadpool_task.h"

static int cb(tp_task_p t, int e, io_buf_p b, uint32_t eof, size_t tr, void *u) { return (0); }

int
main(void) {
	tp_settings_t s;
	tp_p tp;
	tp_task_p task;
	int st = 0, fail = 0, error;
	pid_t pid;

	/* all the other accessors take a NULL task. */
	tp_task_ident_set(NULL, 1); tp_task_udata_set(NULL, NULL); tp_task_buf_set(NULL, NULL);
	tp_task_timeout_set(NULL, 1); tp_task_offset_set(NULL, 1); tp_task_flags_set(NULL, 1);
	pid = fork();
	if (0 == pid) { tp_task_tpt_set(NULL, NULL); _exit(0); }
	waitpid(pid, &st, 0);
	if (WIFSIGNALED(st)) {
		printf("tp_task_tpt_set(NULL, NULL): killed by signal %i\n", WTERMSIG(st));
		fail = 1;
	}
	tp_settings_def(&s); s.flags = 0; s.threads_max = 1;
	if (0 != tp_create(&s, &tp)) return (2);
	tp_threads_create(tp, 0);
	tp_task_create(tp_thread_get(tp, 0), 0, tp_task_notify_handler, 0, NULL, &task);
	tp_task_tpt_set(task, NULL);
	if (NULL == tp_task_tpt_get(task)) {
		error = tp_task_start(task, TP_EV_READ, TP_F_ONESHOT, 100, 0, NULL, cb);
		printf("tp_task_tpt_set(task, NULL) stored the NULL thread; tp_task_start() = %i\n", error);
		fail = 1;
	}
	tp_task_destroy(task);
	tp_shutdown(tp); tp_shutdown_wait(tp); tp_destroy(tp);
	if (fail) { printf("FAIL\n"); return (1); }
	printf("OK\n");
	return (0);
}
