/* A TP_F_ONESHOT receive task with a 200 ms inactivity timeout.
 * The pool deletes the task's timer on every delivered I/O event and
 * tp_task_handler_post_int() creates it again (timerfd_create) after the
 * callback answered TP_TASK_CB_CONTINUE - and ignores the result.
 * While the process is at its descriptor limit (normal for a loaded server:
 * accept() says EMFILE) the timer is not created, nobody is told, the task
 * stays armed for I/O only and the inactivity is never reported. */
#include <sys/param.h>
#include <sys/types.h>
#include <sys/socket.h>
#include <sys/resource.h>
#include <inttypes.h>
#include <string.h>
#include <stdio.h>
#include <stdlib.h>
#include <errno.h>
#include <unistd.h>
#include <fcntl.h>
#include <pthread.h>
#include "threadpool/threadpool.h"
#include "threadpool/threadpool_task.h"

static volatile int n_cb = 0, n_data = 0, n_timeout = 0, n_err = 0, last_err = 0;
static int hog[4096], hog_cnt = 0;
static volatile int hog_on = 0;

static int
cb(tp_task_p t, int error, io_buf_p buf, uint32_t eof, size_t tr, void *udata) {
	n_cb ++;
	if (ETIMEDOUT == error) {
		n_timeout ++;
		return (TP_TASK_CB_NONE); /* one shot + stopped by handler. */
	}
	if (0 != error) {
		n_err ++; last_err = error;
		return (TP_TASK_CB_NONE);
	}
	n_data ++;
	if (hog_on) { /* Some other part of the server eats the last descriptors. */
		for (;;) {
			int fd = open("/dev/null", O_RDONLY);
			if (-1 == fd)
				break;
			hog[hog_cnt ++] = fd;
		}
	}
	return (TP_TASK_CB_CONTINUE); /* wait for more, timeout must be reported. */
}

static void *
thr(void *p) { tp_thread_attach_first((tp_p)p); return (NULL); }

static int
run(int with_hog) {
	tp_settings_t s;
	tp_p tp;
	tp_task_p task;
	io_buf_p buf;
	int sv[2], error, i;
	pthread_t th;

	n_cb = n_data = n_timeout = n_err = 0; hog_on = with_hog;
	tp_settings_def(&s);
	s.flags = 0; s.threads_max = 1;
	if (0 != tp_create(&s, &tp)) { printf("tp_create failed\n"); return (2); }
	tp_threads_create(tp, 0);
	socketpair(AF_UNIX, SOCK_STREAM | SOCK_NONBLOCK, 0, sv);
	buf = io_buf_alloc(IO_BUF_FLAGS_STD, 64);
	IO_BUF_MARK_TRANSFER_ALL_FREE(buf);
	error = tp_task_create_start(tp_thread_get(tp, 0), (uintptr_t)sv[0],
	    tp_task_sr_handler, TP_TASK_F_CB_AFTER_EVERY_READ, TP_EV_READ,
	    TP_F_ONESHOT, 200 /* ms */, 0, buf, cb, NULL, &task);
	if (0 != error) { printf("start failed %i\n", error); return (2); }
	usleep(50000);
	write(sv[1], "x", 1); /* one byte, then silence. */
	usleep(100000);
	/* the shortage is over. */
	for (i = 0; i < hog_cnt; i ++) close(hog[i]);
	hog_cnt = 0; hog_on = 0;
	usleep(1500000); /* 7 timeouts long. */
	printf("%s: callbacks=%i data=%i timeouts=%i errors=%i(last %i)\n",
	    (with_hog ? "descriptor shortage during the callback" : "control"),
	    n_cb, n_data, n_timeout, n_err, last_err);
	error = (1 == n_data && 0 == n_timeout && 0 == n_err);
	tp_task_destroy(task);
	tp_shutdown(tp); tp_shutdown_wait(tp); tp_destroy(tp);
	close(sv[0]); close(sv[1]);
	return (error);
}

int
main(void) {
	struct rlimit rl;
	int lost;

	rl.rlim_cur = rl.rlim_max = 64;
	setrlimit(RLIMIT_NOFILE, &rl);
	if (0 != run(0)) { printf("control run: no timeout either?\n"); return (2); }
	lost = run(1);
	if (lost) {
		printf("FAIL: the callback asked to continue, 1.5 s of silence with a 200 ms timeout: "
		    "neither ETIMEDOUT nor the re-arming error was ever reported\n");
		return (1);
	}
	printf("OK\n");
	return (0);
}
