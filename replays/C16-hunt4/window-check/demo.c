/* The header promises / demands  buf->offset + buf->transfer_size <= buf->size.
 * tp_task_start_ex() tests it only on the shedule_first_io == 0 path and with
 * an addition that wraps; tp_task_start() (== start_ex(1,...)), tp_task_restart()
 * and the handlers never test it.  The receive then writes outside the buffer. */
#include <sys/param.h>
#include <sys/types.h>
#include <sys/socket.h>
#include <inttypes.h>
#include <string.h>
#include <stdio.h>
#include <stdlib.h>
#include <errno.h>
#include <unistd.h>
#include "threadpool/threadpool.h"
#include "threadpool/threadpool_task.h"

static volatile int n_cb = 0;
static volatile size_t got = 0;

static int
cb(tp_task_p t, int error, io_buf_p buf, uint32_t eof, size_t tr, void *udata) {
	n_cb ++; got += tr;
	tp_task_stop(t);
	return (TP_TASK_CB_NONE);
}

static int
dirty(const uint8_t *p, size_t from, size_t to) {
	size_t i; int n = 0;
	for (i = from; i < to; i ++) if (0xAA != p[i]) n ++;
	return (n);
}

int
main(void) {
	tp_settings_t s;
	tp_p tp;
	tp_task_p task;
	io_buf_t b;
	uint8_t area[64], msg[32];
	int sv[2], error, fail = 0, n;

	tp_settings_def(&s); s.flags = 0; s.threads_max = 1;
	if (0 != tp_create(&s, &tp)) return (2);
	tp_threads_create(tp, 0);
	memset(msg, 0x55, sizeof(msg));

	/* 1. normal (sheduled) start: window [8, 40) of a 16 byte buffer. */
	socketpair(AF_UNIX, SOCK_STREAM | SOCK_NONBLOCK, 0, sv);
	memset(area, 0xAA, sizeof(area));
	io_buf_init(&b, 0, area + 16, 16); /* buffer = area[16..32) */
	b.offset = 8; b.transfer_size = 32;
	tp_task_create(tp_thread_get(tp, 0), (uintptr_t)sv[0], tp_task_sr_handler, 0, NULL, &task);
	error = tp_task_start(task, TP_EV_READ, 0, 0, 0, &b, cb);
	write(sv[1], msg, 32);
	usleep(200000);
	n = dirty(area, 32, 64);
	printf("tp_task_start, size 16 offset 8 transfer_size 32: returned %i, callback got %zu bytes, "
	    "%i bytes written BEHIND the buffer\n", error, got, n);
	if (EINVAL != error || 0 != n) fail = 1;
	tp_task_destroy(task); close(sv[0]); close(sv[1]);

	/* 2. first I/O without sheduling: the only place with a test, it wraps. */
	socketpair(AF_UNIX, SOCK_STREAM | SOCK_NONBLOCK, 0, sv);
	memset(area, 0xAA, sizeof(area)); got = 0;
	io_buf_init(&b, 0, area + 16, 16);
	b.offset = (size_t)-8; b.transfer_size = 16; /* offset + transfer_size == 8 <= 16 */
	write(sv[1], msg, 16);
	tp_task_create(tp_thread_get(tp, 0), (uintptr_t)sv[0], tp_task_sr_handler, 0, NULL, &task);
	error = tp_task_start_ex(0, task, TP_EV_READ, 0, 0, 0, &b, cb);
	usleep(100000);
	n = dirty(area, 0, 16);
	printf("tp_task_start_ex(0), size 16 offset (size_t)-8 transfer_size 16: returned %i, callback got %zu bytes, "
	    "%i bytes written IN FRONT of the buffer\n", error, got, n);
	if (EINVAL != error || 0 != n) fail = 1;
	tp_task_destroy(task); close(sv[0]); close(sv[1]);

	tp_shutdown(tp); tp_shutdown_wait(tp); tp_destroy(tp);
	if (fail) { printf("FAIL: a window outside the buffer is accepted and the transfer leaves the buffer\n"); return (1); }
	printf("OK\n");
	return (0);
}
