#include <sys/param.h>
#include <sys/types.h>
#include <inttypes.h>
#include <stdlib.h>
#include <stdio.h>
#include <string.h>
#include <errno.h>
#include "crypto/dsa/ecdsa.h"
#include "real_vec.h"

static long nfail, ntests;
static ec_curve_t curve;
static int cur_ci = -1;
static size_t bits;
#ifndef MAXREP
#define MAXREP 6
#endif
static int repcnt[256];

static void hex2bn(bn_p bn, const char *s) {
	size_t i, l = strlen(s); int v;
	bn_assign_zero(bn);
	for (i = 0; i < l; i ++) {
		char ch = s[l - 1 - i];
		v = (ch >= 'a') ? (ch - 'a' + 10) : (ch - '0');
		if (v & 1) bn_bit_set(bn, i * 4, 1);
		if (v & 2) bn_bit_set(bn, i * 4 + 1, 1);
		if (v & 4) bn_bit_set(bn, i * 4 + 2, 1);
		if (v & 8) bn_bit_set(bn, i * 4 + 3, 1);
	}
}
static void setpt(ec_point_p pt, const char *x, const char *y) {
	if (0 == strcmp(x, "inf")) { hex2bn(&pt->x, "1"); hex2bn(&pt->y, "1"); pt->infinity = 1; }
	else { hex2bn(&pt->x, x); hex2bn(&pt->y, y); pt->infinity = 0; }
}
static int pteq(ec_point_p a, ec_point_p b) {
	if (a->infinity || b->infinity) return (!!a->infinity) == (!!b->infinity);
	return bn_is_equal(&a->x, &b->x) && bn_is_equal(&a->y, &b->y);
}
static void chk(int id, const char *tag, int w, int vec, ec_point_p got, ec_point_p exp, int err) {
	ntests ++;
	if (0 == err && pteq(got, exp)) return;
	nfail ++;
	if (repcnt[id] ++ >= MAXREP) return;
	printf("FAIL %s w=%d curve=%s vec=%d err=%d got_inf=%d exp_inf=%d\n", tag, w, ec_curve_str[cur_ci].name, vec, err, got->infinity, exp->infinity);
}
static int load_curve(int ci) {
	int e;
	if (ci == cur_ci) return 0;
	cur_ci = ci;
	e = ecdsa_curve_from_str(&ec_curve_str[ci], &curve);
	if (e) { printf("FAIL from_str %s err=%d\n", ec_curve_str[ci].name, e); nfail ++; cur_ci = -1; return e; }
	bits = EC_CURVE_CALC_BITS_DBL(&curve);
	e = ec_curve_validate(&curve, NULL);
	if (e) { printf("FAIL ec_curve_validate %s err=%d\n", ec_curve_str[ci].name, e); nfail ++; }
	memset(repcnt, 0, sizeof(repcnt));
	return 0;
}
static ec_point_fpx_pre_dbl_mult_data_t d_apd;
static ec_point_proj_fpx_pre_dbl_mult_data_t d_ppd;
static ec_point_fpx_sl_win_mult_data_t d_asw;
static ec_point_proj_fpx_sl_win_mult_data_t d_psw;
static ec_point_fpx_comb1t_mult_data_t d_ac1;
static ec_point_proj_fpx_comb1t_mult_data_t d_pc1;
static ec_point_fpx_comb2t_mult_data_t d_ac2;
static ec_point_proj_fpx_comb2t_mult_data_t d_pc2;
#ifndef MAXW
#define MAXW EC_PF_FXP_MULT_WIN_BITS
#endif

int main(int argc, char **argv) {
	size_t i, j, w; int only = -1, err;
	ec_point_t P, Q, R, E, E2; bn_t k, k2; ec_point_proj_t tm;
	if (argc > 1) only = atoi(argv[1]);

	/* add/sub */
	for (i = 0; i < nitems(avs); i ++) {
		if (only >= 0 && avs[i].ci != only) continue;
		if (load_curve(avs[i].ci)) continue;
		ec_point_init(&P, bits); ec_point_init(&Q, bits); ec_point_init(&E, bits); ec_point_init(&E2, bits);
		setpt(&E, avs[i].sx, avs[i].sy); setpt(&E2, avs[i].dx, avs[i].dy);
#define AS(id, fn, exp) setpt(&P, avs[i].ax, avs[i].ay); setpt(&Q, avs[i].bx, avs[i].by); err = fn(&P, &Q, &curve); chk(id, #fn, 0, (int)i, &P, exp, err);
		AS(60, ec_point_affine_add, &E) AS(61, ec_point_affine_sub, &E2) AS(62, ec_point_proj_add_affine, &E) AS(63, ec_point_proj_sub_affine, &E2)
		AS(64, ec_point_add, &E) AS(65, ec_point_sub, &E2)
	}
	/* twin */
	for (i = 0; i < nitems(tvs); i ++) {
		if (only >= 0 && tvs[i].ci != only) continue;
		if (load_curve(tvs[i].ci)) continue;
		ec_point_init(&P, bits); ec_point_init(&Q, bits); ec_point_init(&E, bits); ec_point_init(&R, bits);
		bn_init(&k, bits); bn_init(&k2, bits);
		setpt(&P, tvs[i].ax, tvs[i].ay); setpt(&Q, tvs[i].bx, tvs[i].by); setpt(&E, tvs[i].rx, tvs[i].ry);
		hex2bn(&k, tvs[i].ka); hex2bn(&k2, tvs[i].kb);
#define TW(id, fn) setpt(&R, "2", "3"); err = fn(&P, &k, &Q, &k2, &curve, &R); chk(id, #fn, 0, (int)i, &R, &E, err);
		TW(50, ec_point_affine_bin_twin_mult) TW(51, ec_point_proj_bin_twin_mult_affine) TW(52, ec_point_affine_joint_twin_mult)
		TW(53, ec_point_proj_joint_twin_mult_affine) TW(54, ec_point_proj_inter_twin_mult_affine) TW(55, ec_point_twin_mult)
		if (pteq(&P, &curve.G)) {
			setpt(&R, "2", "3"); err = ec_point_twin_mult_bp(&k, &Q, &k2, &curve, &R); chk(57, "ec_point_twin_mult_bp", 0, (int)i, &R, &E, err);
			setpt(&R, "2", "3"); err = ec_point_fpx_unkpt_twin_mult_bp(&k, &Q, &k2, &curve, &R); chk(58, "ec_point_fpx_unkpt_twin_mult_bp", 0, (int)i, &R, &E, err);
		}
	}
	/* mult */
	for (i = 0; i < nitems(mvs); i = j) {
		/* group of vectors with the same point */
		for (j = i + 1; j < nitems(mvs) && mvs[j].ci == mvs[i].ci && 0 == strcmp(mvs[j].px, mvs[i].px) && 0 == strcmp(mvs[j].py, mvs[i].py); j ++) ;
		if (only >= 0 && mvs[i].ci != only) continue;
		if (load_curve(mvs[i].ci)) continue;
		ec_point_init(&P, bits); ec_point_init(&E, bits); ec_point_init(&R, bits); bn_init(&k, bits);
		setpt(&P, mvs[i].px, mvs[i].py);
		size_t v;
#define LOOPK(...) for (v = i; v < j; v ++) { hex2bn(&k, mvs[v].k); setpt(&E, mvs[v].rx, mvs[v].ry); __VA_ARGS__ }
		LOOPK( ec_point_assign(&R, &P); err = ec_point_affine_bin_mult(&R, &k, &curve); chk(1, "affine_bin_mult", 0, (int)v, &R, &E, err); )
		LOOPK( ec_point_assign(&R, &P); err = ec_point_proj_bin_mult_affine(&R, &k, &curve); chk(2, "proj_bin_mult_affine", 0, (int)v, &R, &E, err); )
		LOOPK( ec_point_assign(&R, &P); err = ec_point_unknown_pt_mult(&R, &k, &curve); chk(4, "ec_point_unknown_pt_mult", 0, (int)v, &R, &E, err); )
		if (pteq(&P, &curve.G)) { LOOPK( setpt(&R, "2", "3"); err = ec_point_mult_bp(&k, &curve, &R); chk(5, "ec_point_mult_bp", 0, (int)v, &R, &E, err); ) }
		err = ec_point_affine_fpx_pre_dbl_mult_precompute(0, &P, &curve, &d_apd);
		if (err) chk(10, "affine_pre_dbl_precompute", 0, (int)i, &R, &E, err);
		else LOOPK( setpt(&R, "inf", ""); err = ec_point_affine_fpx_pre_dbl_mult(&R, &d_apd, &k, &curve); chk(11, "affine_pre_dbl", 0, (int)v, &R, &E, err); )
		err = ec_point_proj_fpx_pre_dbl_mult_precompute_affine(0, &P, &curve, &d_ppd);
		if (err) chk(12, "proj_pre_dbl_precompute", 0, (int)i, &R, &E, err);
		else LOOPK( ec_point_proj_init(&tm, curve.m); err = ec_point_proj_fpx_pre_dbl_mult(&tm, &d_ppd, &k, &curve); if (!err) err = ec_point_proj_export_affine(&tm, &R, &curve); chk(13, "proj_pre_dbl", 0, (int)v, &R, &E, err); )
		for (w = 1; w <= MAXW; w ++) {
#ifdef WLIST
			if (!((WLIST >> w) & 1)) continue;
#endif
			if (0 == (w & (w - 1))) {
				err = ec_point_affine_fpx_sl_win_mult_precompute(w, &P, &curve, &d_asw);
				if (err) chk(20, "affine_sl_win_precompute", w, (int)i, &R, &E, err);
				else LOOPK( setpt(&R, "inf", ""); err = ec_point_affine_fpx_sl_win_mult(&R, &d_asw, &k, &curve); chk(21, "affine_sl_win", w, (int)v, &R, &E, err); )
				err = ec_point_proj_fpx_sl_win_mult_precompute_affine(w, &P, &curve, &d_psw);
				if (err) chk(22, "proj_sl_win_precompute", w, (int)i, &R, &E, err);
				else LOOPK( ec_point_proj_init(&tm, curve.m); err = ec_point_proj_fpx_sl_win_mult(&tm, &d_psw, &k, &curve); if (!err) err = ec_point_proj_export_affine(&tm, &R, &curve); chk(23, "proj_sl_win", w, (int)v, &R, &E, err); )
			}
			err = ec_point_affine_fpx_comb1t_mult_precompute(w, &P, &curve, &d_ac1);
			if (err) chk(30, "affine_comb1t_precompute", w, (int)i, &R, &E, err);
			else LOOPK( setpt(&R, "inf", ""); err = ec_point_affine_fpx_comb1t_mult(&R, &d_ac1, &k, &curve); chk(31, "affine_comb1t", w, (int)v, &R, &E, err); )
			err = ec_point_proj_fpx_comb1t_mult_precompute_affine(w, &P, &curve, &d_pc1);
			if (err) chk(32, "proj_comb1t_precompute", w, (int)i, &R, &E, err);
			else LOOPK( ec_point_proj_init(&tm, curve.m); err = ec_point_proj_fpx_comb1t_mult(&tm, &d_pc1, &k, &curve); if (!err) err = ec_point_proj_export_affine(&tm, &R, &curve); chk(33, "proj_comb1t", w, (int)v, &R, &E, err); )
			err = ec_point_affine_fpx_comb2t_mult_precompute(w, &P, &curve, &d_ac2);
			if (err) chk(40, "affine_comb2t_precompute", w, (int)i, &R, &E, err);
			else LOOPK( setpt(&R, "inf", ""); err = ec_point_affine_fpx_comb2t_mult(&R, &d_ac2, &k, &curve); chk(41, "affine_comb2t", w, (int)v, &R, &E, err); )
			err = ec_point_proj_fpx_comb2t_mult_precompute_affine(w, &P, &curve, &d_pc2);
			if (err) chk(42, "proj_comb2t_precompute", w, (int)i, &R, &E, err);
			else LOOPK( ec_point_proj_init(&tm, curve.m); err = ec_point_proj_fpx_comb2t_mult(&tm, &d_pc2, &k, &curve); if (!err) err = ec_point_proj_export_affine(&tm, &R, &curve); chk(43, "proj_comb2t", w, (int)v, &R, &E, err); )
		}
	}
	printf("TOTAL only=%d tests=%ld failures=%ld\n", only, ntests, nfail);
	return nfail ? 1 : 0;
}
