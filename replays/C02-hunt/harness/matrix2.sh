#!/bin/bash
T=/tmp/hunt/C02
mkdir -p mx2
run() {
  local name=$1; shift
  if ! ./build.sh $T mx2/$name "$@" > mx2/$name.build 2>&1; then echo "$name BUILD-FAIL"; return; fi
  QUICK=1 timeout 1200 ./mx2/$name 0 28 > mx2/$name.out 2>&1
  echo "$name rc=$? $(tail -1 mx2/$name.out) nontrivial=$(grep FAIL mx2/$name.out | grep -vc 'proj_dbl_n w=0')"
}
export -f run; export T
for proj in 0 1; do for fxp in 0 1 2 3 4; do for unk in 0 1 2 3 4 5; do for tw in 0 1 2 3; do
  f="-DNO_DIRECT -DBN_BIT_LEN=1408 -DEC_PF_FXP_MULT_ALGO=$fxp -DEC_PF_UNKPT_MULT_ALGO=$unk -DEC_PF_TWIN_MULT_ALGO=$tw -DEC_PF_FXP_MULT_WIN_BITS=4 -DEC_PF_UNKPT_MULT_WIN_BITS=2"
  [ $proj = 1 ] && f="$f -DEC_USE_PROJECTIVE=1 -DEC_PROJ_ADD_MIX=1 -DEC_PROJ_REPEAT_DOUBLE=1"
  echo "p${proj}_f${fxp}_u${unk}_t${tw} $f"
done; done; done; done > mx2/jobs.txt
cat mx2/jobs.txt | xargs -P 16 -L 1 bash -c 'run "$@"' _
