#!/usr/bin/env python3
# Generate synthetic small curves as ec_curve_str_t entries.
import random, sys
random.seed(12345)
def isprime(n):
    if n<2: return False
    i=2
    while i*i<=n:
        if n%i==0: return False
        i+=1
    return True
def pts(p,a,b):
    sq={}
    for y in range(p):
        sq.setdefault(y*y%p,[]).append(y)
    r=[]
    for x in range(p):
        for y in sq.get((x*x*x+a*x+b)%p,[]):
            r.append((x,y))
    return r
def add(P,Q,p,a):
    if P is None: return Q
    if Q is None: return P
    if P[0]==Q[0]:
        if (P[1]+Q[1])%p==0: return None
        l=(3*P[0]*P[0]+a)*pow(2*P[1],-1,p)%p
    else:
        l=(Q[1]-P[1])*pow(Q[0]-P[0],-1,p)%p
    x=(l*l-P[0]-Q[0])%p
    return (x,(l*(P[0]-x)-P[1])%p)
def order(P,p,a):
    Q=P;n=1
    while Q is not None:
        Q=add(Q,P,p,a);n+=1
    return n
out=[]
def emit(name,p,a,b,flags):
    if (4*a**3+27*b*b)%p==0: return False
    P=pts(p,a,b)
    N=len(P)+1
    # choose G of max order
    best=None;bo=0
    for pt in random.sample(P,min(len(P),40)):
        o=order(pt,p,a)
        if o>bo: bo=o;best=pt
    if bo<5: return False
    m=p.bit_length()
    ns=(m+7)//8*2
    nb=bo.bit_length()
    nlen = ns if nb<=ns*4 else ns+2
    h=N//bo
    out.append('\t{ "%s", %d, "0", 1, %d, %d, %d, {0}, "%0*x", "", 0, "%0*x", "%0*x", "%0*x", "%0*x", "%0*x", %d, EC_CURVE_ALGO_ECDSA, %s },'%(
        name,len(name),ns,m//2,m,ns,p,ns,a,ns,b,ns,best[0],ns,best[1],nlen,bo,h,flags))
    sys.stderr.write("%s p=%d a=%d b=%d N=%d n=%d h=%d G=%s\n"%(name,p,a,b,N,bo,h,best))
    return True
primes=[p for p in range(5,70000) if isprime(p)]
def pick(lo,hi): return random.choice([p for p in primes if lo<=p<hi])
cnt=0
specs=[]
# tiny full-enumeration curves
for (lo,hi) in [(11,16),(17,32),(37,64),(67,128),(131,256),(200,256),(257,512),(521,1024),(1031,2048),(4099,8192),(32771,65536),(65521,65536)]:
    for kind in ('m3','a0','gen','b0'):
        for tries in range(200):
            p=pick(lo,hi)
            if kind=='m3': a=p-3;b=random.randrange(1,p);fl='EC_CURVE_FLAG_A_M3'
            elif kind=='a0': a=0;b=random.randrange(1,p);fl='0'
            elif kind=='b0': a=random.randrange(1,p);b=0;fl='0'
            else: a=random.randrange(1,p);b=random.randrange(1,p);fl='0'
            if emit("syn%d_%s"%(cnt,kind),p,a,b,fl):
                cnt+=1;break
print("static ec_curve_str_t syn_curve_str[] = {")
print("\n".join(out))
print("};")
