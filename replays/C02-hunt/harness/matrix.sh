#!/bin/bash
# run config matrix
T=/tmp/hunt/C02
mkdir -p mx
run() { # name flags...
  local name=$1; shift
  if ! ./build.sh $T mx/$name "$@" > mx/$name.build 2>&1; then echo "$name BUILD-FAIL"; return; fi
  QUICK=1 timeout 1200 ./mx/$name > mx/$name.out 2>&1
  echo "$name rc=$? $(tail -1 mx/$name.out) nontrivial=$(grep FAIL mx/$name.out | grep -vc 'proj_dbl_n w=0')"
}
export -f run
export T
jobs=()
i=0
for dig in 8 16 32 64 128; do
 for cc in 0 1; do
  [ $dig = 128 ] && [ $cc = 1 ] && continue
  for red in BASIC BARRETT; do
   for mix in 0 1; do for rep in 0 1; do
     f="-DBN_BIT_LEN=1408 -DBN_DIGIT_BIT_CNT=$dig -DBN_MOD_REDUCE_ALGO=BN_MOD_REDUCE_ALGO_$red -DEC_PF_FXP_MULT_WIN_BITS=4 -DEC_USE_PROJECTIVE=1"
     [ $cc = 1 ] && f="$f -DBN_CC_MULL_DIV=1"
     [ $mix = 1 ] && f="$f -DEC_PROJ_ADD_MIX=1"
     [ $rep = 1 ] && f="$f -DEC_PROJ_REPEAT_DOUBLE=1"
     echo "d${dig}_cc${cc}_${red}_m${mix}_r${rep} $f"
   done; done
  done
 done
done > mx/jobs.txt
cat mx/jobs.txt | xargs -P 16 -L 1 bash -c 'run "$@"' _
