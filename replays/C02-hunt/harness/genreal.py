#!/usr/bin/env python3
import re, random, sys
random.seed(777)
src=open('/tmp/hunt/C02/include/crypto/dsa/ecdsa.h').read()
start=src.index('static ec_curve_str_t ec_curve_str[] = {')
end=src.index('\n};',start)
body=src[start:end]
ents=re.findall(r'/\*\.name =\*/(.*?)/\*\.flags =\*/\s*([^,]*),\s*\}',body,re.S)
curves=[]
for e,flags in ents:
    def g(k):
        m=re.search(r'/\*\.%s =\*/\s*(.*?),\s*\n'%k,'/*.name =*/'+e)
        return m.group(1).strip()
    name=g('name').strip('"')
    c=dict(name=name,m=int(g('m')),p=int(g('p').strip('"'),16),a=int(g('a').strip('"'),16),b=int(g('b').strip('"'),16),
       gx=int(g('Gx').strip('"'),16),gy=int(g('Gy').strip('"'),16),n=int(g('n').strip('"'),16),h=int(g('h')),flags=flags.strip())
    curves.append(c)
sys.stderr.write("%d curves\n"%len(curves))
def add(P,Q,c):
    p=c['p']
    if P is None: return Q
    if Q is None: return P
    if P[0]==Q[0]:
        if (P[1]+Q[1])%p==0: return None
        l=(3*P[0]*P[0]+c['a'])*pow(2*P[1],-1,p)%p
    else:
        l=(Q[1]-P[1])*pow(Q[0]-P[0],-1,p)%p
    x=(l*l-P[0]-Q[0])%p
    return (x,(l*(P[0]-x)-P[1])%p)
def neg(P,c): return None if P is None else (P[0],(-P[1])%c['p'])
def mul(k,P,c):
    R=None
    while k:
        if k&1: R=add(R,P,c)
        P=add(P,P,c); k>>=1
    return R
def sqrtm(a,p):
    a%=p
    if a==0: return 0
    if pow(a,(p-1)//2,p)!=1: return None
    if p%4==3: return pow(a,(p+1)//4,p)
    q=p-1;s=0
    while q%2==0: q//=2;s+=1
    z=2
    while pow(z,(p-1)//2,p)!=p-1: z+=1
    m_=s;c_=pow(z,q,p);t=pow(a,q,p);r=pow(a,(q+1)//2,p)
    while t!=1:
        i=0;t2=t
        while t2!=1: t2=t2*t2%p;i+=1
        b=pow(c_,1<<(m_-i-1),p);m_=i;c_=b*b%p;t=t*c_%p;r=r*b%p
    return r
def oncurve(P,c): return P is None or (P[1]*P[1]-(P[0]**3+c['a']*P[0]+c['b']))%c['p']==0
def randpt(c):
    while True:
        x=random.randrange(c['p']); y=sqrtm(x**3+c['a']*x+c['b'],c['p'])
        if y is not None: return (x,y)
def hx(v): return '"%x"'%v
def pt(P): return ('"inf","inf"' if P is None else '%s,%s'%(hx(P[0]),hx(P[1])))
mv=[];tv=[];av=[]
for ci,c in enumerate(curves):
    G=(c['gx'],c['gy']); n=c['n']; m=c['m']; p=c['p']
    assert oncurve(G,c) and mul(n,G,c) is None, c['name']
    sys.stderr.write("%s m=%d pbits=%d nbits=%d h=%d flags=%s a_is_m3=%s\n"%(c['name'],m,p.bit_length(),n.bit_length(),c['h'],c['flags'],c['a']==p-3))
    pts=[G, mul(random.randrange(1,n),G,c), neg(G,c)]
    if c['h']>1:
        for _ in range(50):
            Q=randpt(c)
            if mul(n,Q,c) is not None:
                pts.append(Q)
                # a point of order 2 if any: (h*n/2)*Q
                if c['h']%2==0:
                    T=mul(c['h']*n//2,Q,c)
                    if T is not None and T[1]==0: pts.append(T)
                break
    nb=n.bit_length()
    ks=[0,1,2,3,5,n-1,n,n-2,(n-1)//2,(n+1)//2]
    for j in [63,64,65,m-2,m-1,m,nb-1]:
        for d in (-1,0,1):
            k=(1<<j)+d
            if 0<=k<=n: ks.append(k)
    ks+= [random.randrange(n) for _ in range(5)]
    ks+= [random.randrange(1<<64), random.randrange(1<<(nb//2)), int('55'*((nb+7)//8),16)%n, int('aa'*((nb+7)//8),16)%n, ((1<<nb)-1)%n if ((1<<nb)-1)>n else (1<<(nb-1))-1]
    # sparse comb-pattern scalars
    for w in (2,3,4,5,8,9):
        d=(m+w-1)//w
        k=sum(1<<(i*d) for i in range(w))
        if k<=n: ks.append(k)
    ks=list(dict.fromkeys(ks))
    for P in pts:
        kk = ks if P==G or P==pts[1] else ks[:14]+ks[-6:]
        for k in kk:
            mv.append('{%d,%s,%s,%s},'%(ci,pt(P),hx(k),pt(mul(k,P,c))))
    mv.append('{%d,%s,%s,%s},'%(ci,pt(None),hx(5),pt(None)))
    # twin
    for t in range(14):
        A=G if t%2==0 else random.choice(pts); B=random.choice(pts)
        ka=random.randrange(n+1); kb=random.randrange(n+1)
        if t==2: B=A
        if t==3: B=neg(A,c)
        if t==4: ka=0
        if t==5: kb=0
        if t==6: ka=n
        if t==7: kb=n; ka=1
        if t==8: ka=kb
        if t==9: ka=n-kb; B=A
        if t==10: ka=1;kb=1
        if t==11: ka=random.randrange(1<<32)
        R=add(mul(ka,A,c),mul(kb,B,c),c)
        tv.append('{%d,%s,%s,%s,%s,%s},'%(ci,pt(A),hx(ka),pt(B),hx(kb),pt(R)))
    for A in pts+[None]:
        for B in pts+[None]:
            av.append('{%d,%s,%s,%s,%s},'%(ci,pt(A),pt(B),pt(add(A,B,c)),pt(add(A,neg(B,c),c))))
print('typedef struct {int ci; const char *px,*py,*k,*rx,*ry;} mv_t;\nstatic mv_t mvs[]={\n'+'\n'.join(mv)+'\n};')
print('typedef struct {int ci; const char *ax,*ay,*ka,*bx,*by,*kb,*rx,*ry;} tv_t;\nstatic tv_t tvs[]={\n'+'\n'.join(tv)+'\n};')
print('typedef struct {int ci; const char *ax,*ay,*bx,*by,*sx,*sy,*dx,*dy;} av_t;\nstatic av_t avs[]={\n'+'\n'.join(av)+'\n};')
