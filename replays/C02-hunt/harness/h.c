#include <sys/param.h>
#include <sys/types.h>
#include <inttypes.h>
#include <stdlib.h>
#include <stdio.h>
#include <string.h>
#include <errno.h>

#include "crypto/dsa/ecdsa.h"
#include "syn_curves.h"

typedef unsigned long long u64;
typedef struct { int inf; u64 x, y; } rp_t;

static u64 P_, A_;
static u64 mulm(u64 a, u64 b) { return (u64)(((__uint128_t)a * b) % P_); }
static u64 powm(u64 a, u64 e) { u64 r = 1; a %= P_; while (e) { if (e & 1) r = mulm(r, a); a = mulm(a, a); e >>= 1; } return r; }
static u64 invm(u64 a) { return powm(a, P_ - 2); }
static rp_t radd(rp_t p, rp_t q) {
	rp_t r; u64 l;
	if (p.inf) return q;
	if (q.inf) return p;
	if (p.x == q.x) {
		if ((p.y + q.y) % P_ == 0) { r.inf = 1; r.x = r.y = 0; return r; }
		l = mulm((mulm(3, mulm(p.x, p.x)) + A_) % P_, invm((2 * p.y) % P_));
	} else {
		l = mulm((q.y + P_ - p.y) % P_, invm((q.x + P_ - p.x) % P_));
	}
	r.inf = 0;
	r.x = (mulm(l, l) + 2 * P_ - p.x - q.x) % P_;
	r.y = (mulm(l, (p.x + P_ - r.x) % P_) + P_ - p.y) % P_;
	return r;
}
static rp_t rneg(rp_t p) { if (!p.inf) p.y = (P_ - p.y) % P_; return p; }
static rp_t rmul(u64 k, rp_t p) {
	rp_t r; r.inf = 1; r.x = r.y = 0;
	while (k) { if (k & 1) r = radd(r, p); p = radd(p, p); k >>= 1; }
	return r;
}

static u64 bn2u(bn_p bn) {
	u64 r = 0; size_t i;
	for (i = 0; i < bn->digits; i ++) {
		if (i * BN_DIGIT_BITS >= 64) { if (bn->num[i]) return ~0ULL; continue; }
		r |= ((u64)bn->num[i]) << (i * BN_DIGIT_BITS);
	}
	return r;
}
static void u2bn(bn_p bn, u64 v) {
	int i;
	bn_assign_zero(bn);
	for (i = 0; i < 64; i ++) if (v & (1ULL << i)) bn_bit_set(bn, (size_t)i, 1);
}
static void rp2pt(ec_point_p pt, rp_t r) {
	if (r.inf) { /* leave junk coordinates */
		u2bn(&pt->x, 1); u2bn(&pt->y, 1); pt->infinity = 1;
	} else { u2bn(&pt->x, r.x); u2bn(&pt->y, r.y); pt->infinity = 0; }
}
static rp_t pt2rp(ec_point_p pt) {
	rp_t r;
	r.inf = (0 != pt->infinity);
	r.x = r.inf ? 0 : bn2u(&pt->x); r.y = r.inf ? 0 : bn2u(&pt->y);
	return r;
}
static int rpeq(rp_t a, rp_t b) { if (a.inf || b.inf) return a.inf == b.inf; return a.x == b.x && a.y == b.y; }

static long nfail = 0, ntests = 0;
static const char *cur_curve = "";
#ifndef MAXREP
#define MAXREP 12
#endif
static int repcnt[256];
static void report(int id, const char *tag, int w, rp_t P, u64 k, rp_t Q, u64 k2, rp_t got, rp_t exp, int err) {
	nfail ++;
	if (repcnt[id] ++ >= MAXREP) return;
	printf("FAIL %s w=%d curve=%s P=%s(%llu,%llu) k=%llu Q=%s(%llu,%llu) k2=%llu got=%s(%llu,%llu) exp=%s(%llu,%llu) err=%d\n",
	    tag, w, cur_curve, P.inf?"INF":"", P.x, P.y, k, Q.inf?"INF":"", Q.x, Q.y, k2,
	    got.inf?"INF":"", got.x, got.y, exp.inf?"INF":"", exp.x, exp.y, err);
}
#define CHECK(id, tag, w, P, k, Q, k2, gotpt, exp, err) do { rp_t g__ = pt2rp(gotpt); ntests ++; \
	if (0 != (err) || !rpeq(g__, (exp))) report((id), (tag), (int)(w), (P), (k), (Q), (k2), g__, (exp), (err)); } while (0)

#ifndef MAXW
#define MAXW EC_PF_FXP_MULT_WIN_BITS
#endif

static rp_t RINF = {1, 0, 0};
static rp_t JUNK = {0, 1, 1};

/* big data static to keep stack small */
static ec_point_fpx_pre_dbl_mult_data_t d_apd;
static ec_point_proj_fpx_pre_dbl_mult_data_t d_ppd;
static ec_point_fpx_sl_win_mult_data_t d_asw;
static ec_point_proj_fpx_sl_win_mult_data_t d_psw;
static ec_point_fpx_comb1t_mult_data_t d_ac1;
static ec_point_proj_fpx_comb1t_mult_data_t d_pc1;
static ec_point_fpx_comb2t_mult_data_t d_ac2;
static ec_point_proj_fpx_comb2t_mult_data_t d_pc2;
static ec_curve_t curve;

static int proj_wrap_res(ec_point_proj_p tm, ec_point_p res, ec_curve_p c) {
	return ec_point_proj_export_affine(tm, res, c);
}

/* Test every multiplication algorithm for point P and all scalars in ks[]. */
static void test_mult_point(rp_t P, u64 *ks, size_t nk, int is_G) {
	size_t bits = EC_CURVE_CALC_BITS_DBL(&curve), i, w;
	ec_point_t pt, res; ec_point_proj_t tm; bn_t d; int err;
	rp_t exp;
	ec_point_init(&pt, bits); ec_point_init(&res, bits); bn_init(&d, bits);
	rp2pt(&pt, P);

#define LOOPK(...) for (i = 0; i < nk; i ++) { u2bn(&d, ks[i]); exp = rmul(ks[i], P); __VA_ARGS__ }
	/* bin */
	LOOPK( ec_point_assign(&res, &pt); err = ec_point_affine_bin_mult(&res, &d, &curve); CHECK(1, "affine_bin_mult", 0, P, ks[i], RINF, 0, &res, exp, err); )
	LOOPK( ec_point_assign(&res, &pt); err = ec_point_proj_bin_mult_affine(&res, &d, &curve); CHECK(2, "proj_bin_mult_affine", 0, P, ks[i], RINF, 0, &res, exp, err); )
	/* dispatch */
	LOOPK( ec_point_assign(&res, &pt); err = ec_point_bin_mult(&res, &d, &curve); CHECK(3, "ec_point_bin_mult", 0, P, ks[i], RINF, 0, &res, exp, err); )
	LOOPK( ec_point_assign(&res, &pt); err = ec_point_unknown_pt_mult(&res, &d, &curve); CHECK(4, "ec_point_unknown_pt_mult", 0, P, ks[i], RINF, 0, &res, exp, err); )
	if (is_G) {
		LOOPK( rp2pt(&res, RINF); err = ec_point_mult_bp(&d, &curve, &res); CHECK(5, "ec_point_mult_bp", 0, P, ks[i], RINF, 0, &res, exp, err); )
		LOOPK( rp2pt(&res, JUNK); err = ec_point_mult_bp(&d, &curve, &res); CHECK(5, "ec_point_mult_bp(2)", 0, P, ks[i], RINF, 0, &res, exp, err); )
	}
#ifndef NO_DIRECT
	/* pre dbl */
	err = ec_point_affine_fpx_pre_dbl_mult_precompute(0, &pt, &curve, &d_apd);
	if (err) report(10, "affine_pre_dbl_precompute", 0, P, 0, RINF, 0, RINF, RINF, err);
	else LOOPK( rp2pt(&res, RINF); err = ec_point_affine_fpx_pre_dbl_mult(&res, &d_apd, &d, &curve); CHECK(11, "affine_pre_dbl", 0, P, ks[i], RINF, 0, &res, exp, err); )
	err = ec_point_proj_fpx_pre_dbl_mult_precompute_affine(0, &pt, &curve, &d_ppd);
	if (err) report(12, "proj_pre_dbl_precompute", 0, P, 0, RINF, 0, RINF, RINF, err);
	else LOOPK( ec_point_proj_init(&tm, curve.m); err = ec_point_proj_fpx_pre_dbl_mult(&tm, &d_ppd, &d, &curve); if (!err) err = proj_wrap_res(&tm, &res, &curve); CHECK(13, "proj_pre_dbl", 0, P, ks[i], RINF, 0, &res, exp, err); )
	for (w = 1; w <= MAXW; w ++) {
		if (0 == (w & (w - 1))) {
			err = ec_point_affine_fpx_sl_win_mult_precompute(w, &pt, &curve, &d_asw);
			if (err) report(20, "affine_sl_win_precompute", w, P, 0, RINF, 0, RINF, RINF, err);
			else LOOPK( rp2pt(&res, RINF); err = ec_point_affine_fpx_sl_win_mult(&res, &d_asw, &d, &curve); CHECK(21, "affine_sl_win", w, P, ks[i], RINF, 0, &res, exp, err); )
			err = ec_point_proj_fpx_sl_win_mult_precompute_affine(w, &pt, &curve, &d_psw);
			if (err) report(22, "proj_sl_win_precompute", w, P, 0, RINF, 0, RINF, RINF, err);
			else LOOPK( ec_point_proj_init(&tm, curve.m); err = ec_point_proj_fpx_sl_win_mult(&tm, &d_psw, &d, &curve); if (!err) err = proj_wrap_res(&tm, &res, &curve); CHECK(23, "proj_sl_win", w, P, ks[i], RINF, 0, &res, exp, err); )
		}
		err = ec_point_affine_fpx_comb1t_mult_precompute(w, &pt, &curve, &d_ac1);
		if (err) report(30, "affine_comb1t_precompute", w, P, 0, RINF, 0, RINF, RINF, err);
		else LOOPK( rp2pt(&res, RINF); err = ec_point_affine_fpx_comb1t_mult(&res, &d_ac1, &d, &curve); CHECK(31, "affine_comb1t", w, P, ks[i], RINF, 0, &res, exp, err); )
		err = ec_point_proj_fpx_comb1t_mult_precompute_affine(w, &pt, &curve, &d_pc1);
		if (err) report(32, "proj_comb1t_precompute", w, P, 0, RINF, 0, RINF, RINF, err);
		else LOOPK( ec_point_proj_init(&tm, curve.m); err = ec_point_proj_fpx_comb1t_mult(&tm, &d_pc1, &d, &curve); if (!err) err = proj_wrap_res(&tm, &res, &curve); CHECK(33, "proj_comb1t", w, P, ks[i], RINF, 0, &res, exp, err); )
		err = ec_point_affine_fpx_comb2t_mult_precompute(w, &pt, &curve, &d_ac2);
		if (err) report(40, "affine_comb2t_precompute", w, P, 0, RINF, 0, RINF, RINF, err);
		else LOOPK( rp2pt(&res, RINF); err = ec_point_affine_fpx_comb2t_mult(&res, &d_ac2, &d, &curve); CHECK(41, "affine_comb2t", w, P, ks[i], RINF, 0, &res, exp, err); )
		err = ec_point_proj_fpx_comb2t_mult_precompute_affine(w, &pt, &curve, &d_pc2);
		if (err) report(42, "proj_comb2t_precompute", w, P, 0, RINF, 0, RINF, RINF, err);
		else LOOPK( ec_point_proj_init(&tm, curve.m); err = ec_point_proj_fpx_comb2t_mult(&tm, &d_pc2, &d, &curve); if (!err) err = proj_wrap_res(&tm, &res, &curve); CHECK(43, "proj_comb2t", w, P, ks[i], RINF, 0, &res, exp, err); )
	}
#endif
}

static void test_twin(rp_t A, u64 ka, rp_t B, u64 kb, int a_is_G) {
	size_t bits = EC_CURVE_CALC_BITS_DBL(&curve);
	ec_point_t pa, pb, res; bn_t da, db; int err;
	rp_t exp = radd(rmul(ka, A), rmul(kb, B));
	rp_t junk = {0, 1, 1};
	ec_point_init(&pa, bits); ec_point_init(&pb, bits); ec_point_init(&res, bits);
	bn_init(&da, bits); bn_init(&db, bits);
	rp2pt(&pa, A); rp2pt(&pb, B); u2bn(&da, ka); u2bn(&db, kb);
#define TW(id, fn) rp2pt(&res, junk); err = fn(&pa, &da, &pb, &db, &curve, &res); CHECK(id, #fn, 0, A, ka, B, kb, &res, exp, err);
	TW(50, ec_point_affine_bin_twin_mult)
	TW(51, ec_point_proj_bin_twin_mult_affine)
	TW(52, ec_point_affine_joint_twin_mult)
	TW(53, ec_point_proj_joint_twin_mult_affine)
	TW(54, ec_point_proj_inter_twin_mult_affine)
	TW(55, ec_point_twin_mult)
	rp2pt(&res, RINF);
	TW(56, ec_point_twin_mult)
#define TWA(id, fn) rp2pt(&pa, A); err = fn(&pa, &da, &pb, &db, &curve, &pa); CHECK(id, #fn "(res==a)", 0, A, ka, B, kb, &pa, exp, err); rp2pt(&pa, A); \
	err = fn(&pa, &da, &pb, &db, &curve, &pb); CHECK(id, #fn "(res==b)", 0, A, ka, B, kb, &pb, exp, err); rp2pt(&pb, B); \
	if (rpeq(A, B)) { err = fn(&pa, &da, &pa, &db, &curve, &res); CHECK(id, #fn "(a==b)", 0, A, ka, B, kb, &res, exp, err); } \
	if (ka == kb) { err = fn(&pa, &da, &pb, &da, &curve, &res); CHECK(id, #fn "(ad==bd)", 0, A, ka, B, kb, &res, exp, err); }
	TWA(90, ec_point_affine_bin_twin_mult)
	TWA(91, ec_point_proj_bin_twin_mult_affine)
	TWA(92, ec_point_affine_joint_twin_mult)
	TWA(93, ec_point_proj_joint_twin_mult_affine)
	TWA(94, ec_point_proj_inter_twin_mult_affine)
	if (a_is_G) {
		err = ec_point_twin_mult_bp(&da, &pb, &db, &curve, &pb); CHECK(95, "ec_point_twin_mult_bp(res==b)", 0, A, ka, B, kb, &pb, exp, err); rp2pt(&pb, B);
		err = ec_point_fpx_unkpt_twin_mult_bp(&da, &pb, &db, &curve, &pb); CHECK(96, "ec_point_fpx_unkpt_twin_mult_bp(res==b)", 0, A, ka, B, kb, &pb, exp, err); rp2pt(&pb, B);
	}
	if (a_is_G) {
		rp2pt(&res, junk); err = ec_point_twin_mult_bp(&da, &pb, &db, &curve, &res); CHECK(57, "ec_point_twin_mult_bp", 0, A, ka, B, kb, &res, exp, err);
		rp2pt(&res, junk); err = ec_point_fpx_unkpt_twin_mult_bp(&da, &pb, &db, &curve, &res); CHECK(58, "ec_point_fpx_unkpt_twin_mult_bp", 0, A, ka, B, kb, &res, exp, err);
	}
}

static void test_addsub(rp_t A, rp_t B) {
	size_t bits = EC_CURVE_CALC_BITS_DBL(&curve);
	ec_point_t pa, pb; int err;
	rp_t es = radd(A, B), ed = radd(A, rneg(B));
	ec_point_init(&pa, bits); ec_point_init(&pb, bits);
#define AS(id, fn, exp) rp2pt(&pa, A); rp2pt(&pb, B); err = fn(&pa, &pb, &curve); CHECK(id, #fn, 0, A, 0, B, 0, &pa, exp, err); \
	{ rp_t b2 = pt2rp(&pb); if (!rpeq(b2, B)) report(id, #fn " modified b", 0, A, 0, B, 0, b2, B, 0); }
	AS(60, ec_point_affine_add, es)
	AS(61, ec_point_affine_sub, ed)
	AS(62, ec_point_proj_add_affine, es)
	AS(63, ec_point_proj_sub_affine, ed)
	AS(64, ec_point_add, es)
	AS(65, ec_point_sub, ed)
	if (rpeq(A, B)) { /* aliasing: P+P, P-P through the same object */
		rp2pt(&pa, A); err = ec_point_affine_add(&pa, &pa, &curve); CHECK(66, "affine_add(a,a)", 0, A, 0, B, 0, &pa, es, err);
		rp2pt(&pa, A); err = ec_point_affine_sub(&pa, &pa, &curve); CHECK(67, "affine_sub(a,a)", 0, A, 0, B, 0, &pa, ed, err);
		rp2pt(&pa, A); err = ec_point_proj_add_affine(&pa, &pa, &curve); CHECK(68, "proj_add_affine(a,a)", 0, A, 0, B, 0, &pa, es, err);
		rp2pt(&pa, A); err = ec_point_proj_sub_affine(&pa, &pa, &curve); CHECK(69, "proj_sub_affine(a,a)", 0, A, 0, B, 0, &pa, ed, err);
	}
	/* proj level: a with z != 1 */
	{
		ec_point_proj_t ja, jb; u64 z, z2;
		ec_point_proj_init(&ja, bits); ec_point_proj_init(&jb, bits);
		for (z = 1; z < 4 && z < P_; z ++) for (z2 = 1; z2 < 4 && z2 < P_; z2 ++) {
			rp2pt(&pa, A); rp2pt(&pb, B);
			ec_point_proj_import_affine(&ja, &pa, &curve); ec_point_proj_import_affine(&jb, &pb, &curve);
			if (!A.inf) { u2bn(&ja.x, mulm(A.x, mulm(z, z))); u2bn(&ja.y, mulm(A.y, mulm(z, mulm(z, z)))); u2bn(&ja.z, z); }
			if (!B.inf) { u2bn(&jb.x, mulm(B.x, mulm(z2, z2))); u2bn(&jb.y, mulm(B.y, mulm(z2, mulm(z2, z2)))); u2bn(&jb.z, z2); }
			err = ec_point_proj_add(&ja, &jb, &curve); if (!err) err = ec_point_proj_export_affine(&ja, &pa, &curve);
			CHECK(70, "proj_add(z,z2)", (int)(z * 10 + z2), A, 0, B, 0, &pa, es, err);
			rp2pt(&pa, A);
			ec_point_proj_import_affine(&ja, &pa, &curve);
			if (!A.inf) { u2bn(&ja.x, mulm(A.x, mulm(z, z))); u2bn(&ja.y, mulm(A.y, mulm(z, mulm(z, z)))); u2bn(&ja.z, z); }
			err = ec_point_proj_sub(&ja, &jb, &curve); if (!err) err = ec_point_proj_export_affine(&ja, &pa, &curve);
			CHECK(71, "proj_sub(z,z2)", (int)(z * 10 + z2), A, 0, B, 0, &pa, ed, err);
			if (z2 == 1) {
				rp2pt(&pa, A); rp2pt(&pb, B);
				ec_point_proj_import_affine(&ja, &pa, &curve);
				if (!A.inf) { u2bn(&ja.x, mulm(A.x, mulm(z, z))); u2bn(&ja.y, mulm(A.y, mulm(z, mulm(z, z)))); u2bn(&ja.z, z); }
				err = ec_point_proj_add_mix(&ja, &pb, &curve); if (!err) err = ec_point_proj_export_affine(&ja, &pa, &curve);
				CHECK(72, "proj_add_mix(z)", (int)z, A, 0, B, 0, &pa, es, err);
				rp2pt(&pa, A);
				ec_point_proj_import_affine(&ja, &pa, &curve);
				if (!A.inf) { u2bn(&ja.x, mulm(A.x, mulm(z, z))); u2bn(&ja.y, mulm(A.y, mulm(z, mulm(z, z)))); u2bn(&ja.z, z); }
				err = ec_point_proj_sub_mix(&ja, &pb, &curve); if (!err) err = ec_point_proj_export_affine(&ja, &pa, &curve);
				CHECK(73, "proj_sub_mix(z)", (int)z, A, 0, B, 0, &pa, ed, err);
			}
		}
	}
}
static void test_dbl_n(rp_t A) {
	size_t bits = EC_CURVE_CALC_BITS_DBL(&curve), n;
	ec_point_t pa; ec_point_proj_t ja; u64 z; int err;
	ec_point_init(&pa, bits); ec_point_proj_init(&ja, bits);
	for (n = 0; n < 6; n ++) for (z = 1; z < 3; z ++) {
		rp_t exp = rmul(1ULL << n, A);
		rp2pt(&pa, A);
		ec_point_proj_import_affine(&ja, &pa, &curve);
		if (!A.inf) { u2bn(&ja.x, mulm(A.x, mulm(z, z))); u2bn(&ja.y, mulm(A.y, mulm(z, mulm(z, z)))); u2bn(&ja.z, z); }
		err = ec_point_proj_dbl_n(&ja, n, &curve); if (!err) err = ec_point_proj_export_affine(&ja, &pa, &curve);
		CHECK(80, "proj_dbl_n", (int)n, A, z, RINF, 0, &pa, exp, err);
		rp2pt(&pa, A);
		err = ec_point_affine_dbl_n(&pa, n, &curve);
		CHECK(81, "affine_dbl_n", (int)n, A, z, RINF, 0, &pa, exp, err);
	}
}

static u64 rnd_state = 88172645463325252ULL;
static u64 rnd(void) { rnd_state ^= rnd_state << 13; rnd_state ^= rnd_state >> 7; rnd_state ^= rnd_state << 17; return rnd_state; }

int main(int argc, char **argv) {
	size_t ci, i, j, npts;
	static rp_t pts[70000];
	static u64 ks[70000];
	int err, warn;
	size_t from = 0, to = nitems(syn_curve_str); size_t quick = getenv("QUICK") ? (size_t)atoi(getenv("QUICK")) : 0;
	if (argc > 1) from = (size_t)atoi(argv[1]);
	if (argc > 2) to = (size_t)atoi(argv[2]);
	if (to > nitems(syn_curve_str)) to = nitems(syn_curve_str);

	for (ci = from; ci < to; ci ++) {
		u64 b, n, x, y; rp_t G;
		cur_curve = syn_curve_str[ci].name;
		err = ecdsa_curve_from_str(&syn_curve_str[ci], &curve);
		if (err) { printf("FAIL curve_from_str %s err=%d\n", cur_curve, err); nfail ++; continue; }
		P_ = bn2u(&curve.p); A_ = bn2u(&curve.a); b = bn2u(&curve.b); n = bn2u(&curve.n);
		G = pt2rp(&curve.G);
		err = ec_curve_validate(&curve, &warn);
		/* validate may refuse small n (n <= 4 sqrt p); only note */
		if (err) printf("note: ec_curve_validate(%s) = %d\n", cur_curve, err);
		/* enumerate */
		npts = 0; pts[npts ++] = RINF;
		if (P_ < 600) {
			for (x = 0; x < P_; x ++) for (y = 0; y < P_; y ++)
				if (mulm(y, y) == (mulm(x, mulm(x, x)) + mulm(A_, x) + b) % P_) { pts[npts].inf = 0; pts[npts].x = x; pts[npts].y = y; npts ++; }
		} else { /* sample: multiples of G + 2-torsion if any */
			rp_t q = G;
			for (i = 0; i < 40; i ++) { pts[npts ++] = rmul(rnd() % n, G); }
			pts[npts ++] = G; pts[npts ++] = rneg(G); pts[npts ++] = rmul(2, G);
			for (x = 0; x < P_; x ++) if (0 == (mulm(x, mulm(x, x)) + mulm(A_, x) + b) % P_) { pts[npts].inf = 0; pts[npts].x = x; pts[npts].y = 0; npts ++; }
			(void)q;
		}
		/* add/sub all pairs (cap) */
		{
			size_t lim = npts > (quick ? 24 : 120) ? (quick ? 24 : 120) : npts;
			for (i = 0; i < lim; i ++) for (j = 0; j < lim; j ++) test_addsub(pts[i], pts[j]);
			if (npts > lim) for (i = 0; i < (quick ? 300 : 3000); i ++) test_addsub(pts[rnd() % npts], pts[rnd() % npts]);
			for (i = 0; i < npts; i ++) { test_addsub(pts[i], pts[i]); test_addsub(pts[i], rneg(pts[i])); test_addsub(pts[i], RINF); test_addsub(RINF, pts[i]); test_dbl_n(pts[i]); }
		}
		/* mult: scalars 0..n all (or sample) */
		{
			size_t nk = 0, np;
			if (n < (quick ? 130 : 700)) { for (i = 0; i <= n; i ++) ks[nk ++] = i; }
			else {
				for (i = 0; i < 20; i ++) ks[nk ++] = i;
				for (i = 0; i < 20; i ++) ks[nk ++] = n - i;
				for (i = 0; (1ULL << i) <= n; i ++) { ks[nk ++] = 1ULL << i; ks[nk ++] = (1ULL << i) - 1; if ((1ULL << i) + 1 <= n) ks[nk ++] = (1ULL << i) + 1; }
				for (i = 0; i < (quick ? 60 : 300); i ++) ks[nk ++] = rnd() % (n + 1);
			}
			test_mult_point(G, ks, nk, 1);
			np = (npts > 30 && n > 100) ? 30 : npts; if (quick && np > 6) np = 6;
			for (i = 0; i < np; i ++) test_mult_point(np == npts ? pts[i] : pts[rnd() % npts], ks, nk, 0);
		}
		/* twin */
		{
			for (i = 0; i < (quick ? 800 : 6000); i ++) {
				rp_t A = (i & 1) ? G : pts[rnd() % npts], B = pts[rnd() % npts];
				u64 ka = rnd() % (n + 1), kb = rnd() % (n + 1);
				switch ((i >> 1) % 8) { case 0: ka = 0; break; case 1: kb = 0; break; case 2: B = A; break; case 3: B = rneg(A); break;
				case 4: ka = n; break; case 5: kb = n; break; case 6: ka = kb; break; default: break; }
				if (i % 97 == 0) { ka = 0; kb = 0; }
				test_twin(A, ka, B, kb, rpeq(A, G));
			}
		}
		printf("curve %s p=%llu n=%llu pts=%zu: tests so far %ld, failures %ld\n", cur_curve, P_, n, npts, ntests, nfail);
		fflush(stdout);
	}
	printf("TOTAL tests=%ld failures=%ld\n", ntests, nfail);
	return (nfail ? 1 : 0);
}
