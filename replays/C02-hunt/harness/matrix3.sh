#!/bin/bash
T=/tmp/hunt/C02
for dig in 8 16 32 64 128; do for cc in 0 1; do
 [ $dig = 128 ] && [ $cc = 1 ] && continue
 for mr in 00 01 10 11; do
  f="-DBN_BIT_LEN=1408 -DBN_DIGIT_BIT_CNT=$dig -DEC_PF_FXP_MULT_WIN_BITS=8 -DWLIST=0x11c -DEC_USE_PROJECTIVE=1"
  [ $cc = 1 ] && f="$f -DBN_CC_MULL_DIV=1"
  [ ${mr:0:1} = 1 ] && f="$f -DEC_PROJ_ADD_MIX=1"
  [ ${mr:1:1} = 1 ] && f="$f -DEC_PROJ_REPEAT_DOUBLE=1"
  n=d${dig}_cc${cc}_mr${mr}
  ./buildr.sh $T mx3/$n $f > mx3/$n.build 2>&1 || echo "$n BUILD-FAIL"
  for c in 0 1 5 11 12 17 30 31; do echo "$n $c"; done
 done
done; done > mx3/jobs.txt
grep -v BUILD-FAIL mx3/jobs.txt | xargs -P 16 -L 1 sh -c 'timeout 3000 ./mx3/$0 $1 > mx3/$0.$1.out 2>&1; echo "$0 $1 rc=$? $(tail -1 mx3/$0.$1.out)"'
