#!/bin/sh
# usage: run.sh <tree>
# Exits non-zero (prints FAIL) when the table multipliers return wrong points
# for a window that is wider than a bignum digit.
T=${1:-/tmp/hunt/C02}
D=$(dirname "$0")
CC=${CC:-gcc}
FL="-O2 -w -DHAVE_EXPLICIT_BZERO -DHAVE_MEMMEM -DHAVE_MEMRCHR -DHAVE_REALLOCARRAY -DHAVE_STRNCASECMP -DLINUX -D_GNU_SOURCE -D__USE_GNU=1 -I$T/include"
rc=0
# control: the same window with 16 bit digits is right
$CC $FL -DDIGIT=16 -DWIN=9 -DFXP_ALGO=EC_PF_FXP_MULT_ALGO_COMB_2T -DPROJ $D/demo.c -o $D/demo_ctl || exit 2
echo "== control: 16 bit digits, COMB_2T, window 9"
$D/demo_ctl || { echo "control failed"; rc=1; }
# the library's test configuration (Jacobian, COMB_2T, window 9) with 8 bit digits
$CC $FL -DDIGIT=8 -DWIN=9 -DFXP_ALGO=EC_PF_FXP_MULT_ALGO_COMB_2T -DPROJ $D/demo.c -o $D/demo_c2t || exit 2
echo "== 8 bit digits, Jacobian, COMB_2T, window 9"
$D/demo_c2t || rc=1
# affine, one table comb
$CC $FL -DDIGIT=8 -DWIN=9 -DFXP_ALGO=EC_PF_FXP_MULT_ALGO_COMB_1T $D/demo.c -o $D/demo_c1t || exit 2
echo "== 8 bit digits, affine, COMB_1T, window 9"
$D/demo_c1t || rc=1
# sliding window, 16 bit window: control with 16 bit digits, then 8 bit digits
$CC $FL -DDIGIT=16 $D/demo_slwin.c -o $D/demo_sw16 || exit 2
echo "== control: 16 bit digits, sliding window 16"
$D/demo_sw16 || { echo "control failed"; rc=1; }
$CC $FL -DDIGIT=8 $D/demo_slwin.c -o $D/demo_sw8 || exit 2
echo "== 8 bit digits, sliding window 16"
$D/demo_sw8 || rc=1
exit $rc
