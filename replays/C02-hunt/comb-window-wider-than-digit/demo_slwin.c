/*
 * Sliding window multiplication with a 16 bit window and 8 bit digits:
 * the inner loop runs (BN_DIGIT_BITS / wnd_bits) = 0 times per digit, so
 * every scalar >= 2 gives the point at infinity, with a success status.
 */
#include <sys/param.h>
#include <sys/types.h>
#include <inttypes.h>
#include <string.h>
#include <stdio.h>
#include <errno.h>
#define BN_DIGIT_BIT_CNT	DIGIT
#define BN_BIT_LEN		512
#define EC_PF_FXP_MULT_ALGO	EC_PF_FXP_MULT_ALGO_SLIDING_WIN
#define EC_PF_FXP_MULT_WIN_BITS	16
#define EC_PF_UNKPT_MULT_ALGO	EC_PF_UNKPT_MULT_ALGO_BIN
#define EC_USE_PROJECTIVE	1
#define EC_PROJ_ADD_MIX		1
#include "crypto/dsa/ecdsa.h"

static ec_curve_t curve; /* 65535 point table inside */

int
main(void) {
	int err, eq;
	bn_t k;
	ec_point_t R, B;
	size_t bits;

	err = ecdsa_curve_from_str(ecdsa_curve_str_get_by_name("secp112r1", 9), &curve);
	if (0 != err) {
		printf("FAIL: ecdsa_curve_from_str = %d\n", err);
		return (1);
	}
	bits = EC_CURVE_CALC_BITS_DBL(&curve);
	bn_init(&k, bits);
	ec_point_init(&R, bits);
	ec_point_init(&B, bits);
	bn_assign(&k, &curve.n);
	bn_sub_digit(&k, 5, NULL); /* k = n - 5 */
	err = ec_point_mult_bp(&k, &curve, &R);
	ec_point_assign(&B, &curve.G);
	ec_point_affine_bin_mult(&B, &k, &curve); /* reference */
	eq = ec_point_is_eq(&R, &B);
	printf("digit=%d window=16: ec_point_mult_bp(n-5): err=%d infinity=%d, binary method infinity=%d, equal=%d\n",
	    (int)DIGIT, err, R.infinity, B.infinity, eq);
	if (0 != err || 0 == eq) {
		printf("FAIL: sliding window result differs from the binary method\n");
		return (1);
	}
	printf("OK\n");
	return (0);
}
