/*
 * Comb (and sliding window) multiplication with a window wider than one
 * bignum digit: bn_combo_column_get() collects the wnd_bits column bits in a
 * bn_digit_t, so with BN_DIGIT_BIT_CNT = 8 and the 9 bit window that the
 * library's own test configuration uses, the top bit of every table index is
 * lost.  ec_point_mult_bp() / ec_point_unknown_pt_mult() return success with
 * a wrong point (n*G is not the point at infinity, k*G differs from the
 * binary method).
 *
 * Build-time configuration is given by run.sh (-DDIGIT=8 -DWIN=9).
 */
#include <sys/param.h>
#include <sys/types.h>
#include <inttypes.h>
#include <string.h>
#include <stdio.h>
#include <errno.h>

#define BN_DIGIT_BIT_CNT	DIGIT
#define BN_BIT_LEN		1408
#define EC_PF_FXP_MULT_ALGO	FXP_ALGO
#define EC_PF_FXP_MULT_WIN_BITS	WIN
#define EC_PF_UNKPT_MULT_ALGO	EC_PF_UNKPT_MULT_ALGO_SAME_AS_FXP
#define EC_PF_TWIN_MULT_ALGO	EC_PF_TWIN_MULT_ALGO_FXP_UNKPT
#ifdef PROJ
#define EC_USE_PROJECTIVE	1
#define EC_PROJ_REPEAT_DOUBLE	1
#define EC_PROJ_ADD_MIX		1
#endif
#include "crypto/dsa/ecdsa.h"

static ec_curve_t curve;

static int
pt_eq(ec_point_p a, ec_point_p b) {
	if (a->infinity || b->infinity)
		return ((0 != a->infinity) == (0 != b->infinity));
	return (bn_is_equal(&a->x, &b->x) && bn_is_equal(&a->y, &b->y));
}

int
main(void) {
	const char *names[] = { "secp112r1", "secp256r1" };
	size_t ci, bits, i;
	int fails = 0, err;
	bn_t k, one;
	ec_point_t R, B, Q;

	for (ci = 0; ci < 2; ci ++) {
		err = ecdsa_curve_from_str(ecdsa_curve_str_get_by_name(names[ci],
		    strlen(names[ci])), &curve);
		if (0 != err) {
			printf("FAIL: ecdsa_curve_from_str(%s) = %d\n", names[ci], err);
			return (1);
		}
		bits = EC_CURVE_CALC_BITS_DBL(&curve);
		bn_init(&k, bits);
		bn_init(&one, bits);
		bn_assign_digit(&one, 1);
		ec_point_init(&R, bits);
		ec_point_init(&B, bits);
		ec_point_init(&Q, bits);

		/* 1. n*G must be the point at infinity. */
		bn_assign(&k, &curve.n);
		err = ec_point_mult_bp(&k, &curve, &R);
		printf("%s: ec_point_mult_bp(n): err=%d infinity=%d (expected infinity=1)\n",
		    names[ci], err, R.infinity);
		if (0 != err || 0 == R.infinity) {
			fails ++;
			if (0 == R.infinity)
				printf("   result on curve: %s\n",
				    (0 == ec_point_check_affine(&R, &curve)) ? "yes" : "no");
		}

		/* 2. k*G: table method against the plain binary method. */
		for (i = 0; i < 6; i ++) {
			bn_assign(&k, &curve.n);
			switch (i) {
			case 0: bn_sub_digit(&k, 1, NULL); break;	/* n - 1 */
			case 1: bn_r_shift(&k, 1); break;		/* n / 2 */
			case 2: bn_r_shift(&k, 3); break;		/* n / 8 */
			case 3: bn_assign_digit(&k, 2); break;		/* small: top column bit clear */
			case 4: bn_r_shift(&k, 11); break;
			case 5: bn_sub_digit(&k, 77, NULL); break;
			}
			ec_point_assign(&B, &curve.G);
			err = ec_point_affine_bin_mult(&B, &k, &curve); /* reference */
			if (0 != err) { printf("FAIL: reference err %d\n", err); return (1); }
			err = ec_point_mult_bp(&k, &curve, &R);
			if (0 != err || 0 == pt_eq(&R, &B)) {
				printf("%s: ec_point_mult_bp(k%zu) != binary k*G  (err=%d)\n",
				    names[ci], i, err);
				fails ++;
			}
			/* Same for an arbitrary point through the dispatch macro. */
			ec_point_assign(&Q, &curve.G);
			ec_point_affine_add(&Q, &Q, &curve); /* Q = 2G */
			ec_point_assign(&B, &Q);
			ec_point_affine_bin_mult(&B, &k, &curve);
			err = ec_point_unknown_pt_mult(&Q, &k, &curve);
			if (0 != err || 0 == pt_eq(&Q, &B)) {
				printf("%s: ec_point_unknown_pt_mult(2G, k%zu) != binary (err=%d)\n",
				    names[ci], i, err);
				fails ++;
			}
			/* Double-scalar multiplication k*G + 1*G against (k+1)*G. */
			err = ec_point_twin_mult_bp(&k, &curve.G, &one, &curve, &R);
			ec_point_assign(&B, &curve.G);
			ec_point_affine_bin_mult(&B, &k, &curve);
			ec_point_affine_add(&B, &curve.G, &curve);
			if (0 != err || 0 == pt_eq(&R, &B)) {
				printf("%s: ec_point_twin_mult_bp(k%zu, G, 1) != k*G + G (err=%d)\n",
				    names[ci], i, err);
				fails ++;
			}
		}
	}
	if (0 != fails) {
		printf("FAIL: %d wrong results (digit=%d bits, window=%d bits)\n",
		    fails, (int)DIGIT, (int)WIN);
		return (1);
	}
	printf("OK (digit=%d bits, window=%d bits)\n", (int)DIGIT, (int)WIN);
	return (0);
}
