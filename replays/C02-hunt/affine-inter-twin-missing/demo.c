/*
 * Affine coordinates (EC_USE_PROJECTIVE not defined) together with
 * EC_PF_TWIN_MULT_ALGO_INTER: elliptic_curve.h maps ec_point_twin_mult /
 * ec_point_twin_mult_bp to ec_point_affine_inter_twin_mult(), a function that
 * does not exist anywhere in the library.  Every program that uses double-
 * scalar multiplication (ecdsa_verify included) fails to link in this
 * selectable configuration.
 *
 * When it does build (other configurations, or a fixed tree) the program
 * checks u1*G + u2*Q against the binary method.
 */
#include <sys/param.h>
#include <sys/types.h>
#include <inttypes.h>
#include <string.h>
#include <stdio.h>
#include <errno.h>

#define EC_PF_TWIN_MULT_ALGO	TWIN
#include "crypto/dsa/ecdsa.h"

static ec_curve_t curve;

int
main(void) {
	int err;
	size_t bits;
	bn_t u1, u2;
	ec_point_t Q, R, A, B;

	err = ecdsa_curve_from_str(ecdsa_curve_str_get_by_name("secp192r1", 9), &curve);
	if (0 != err)
		return (2);
	bits = EC_CURVE_CALC_BITS_DBL(&curve);
	bn_init(&u1, bits); bn_init(&u2, bits);
	ec_point_init(&Q, bits); ec_point_init(&R, bits);
	ec_point_init(&A, bits); ec_point_init(&B, bits);
	bn_assign(&u1, &curve.n); bn_r_shift(&u1, 3);
	bn_assign(&u2, &curve.n); bn_sub_digit(&u2, 12345, NULL);
	ec_point_assign(&Q, &curve.G);
	ec_point_affine_add(&Q, &Q, &curve); /* Q = 2G */

	err = ec_point_twin_mult_bp(&u1, &Q, &u2, &curve, &R);
	/* reference */
	ec_point_assign(&A, &curve.G); ec_point_affine_bin_mult(&A, &u1, &curve);
	ec_point_assign(&B, &Q); ec_point_affine_bin_mult(&B, &u2, &curve);
	ec_point_affine_add(&A, &B, &curve);
	if (0 != err || 0 == ec_point_is_eq(&R, &A)) {
		printf("FAIL: ec_point_twin_mult_bp err=%d, result differs\n", err);
		return (1);
	}
	printf("OK: twin multiplication algorithm %d\n", (int)TWIN);
	return (0);
}
