#!/bin/sh
# usage: run.sh <tree>
# affine + EC_PF_TWIN_MULT_ALGO_INTER must build and give the same point as
# the other twin multiplication algorithms.
T=${1:-/tmp/hunt/C02}
D=$(dirname "$0")
CC=${CC:-gcc}
FL="-O2 -w -DLINUX -D_GNU_SOURCE -D__USE_GNU=1 -I$T/include"
rc=0
for tw in 0 1 2; do
	$CC $FL -DTWIN=$tw $D/demo.c -o $D/demo_t$tw || { echo "FAIL: control build twin=$tw"; exit 2; }
	$D/demo_t$tw || rc=1
done
echo "== affine, EC_PF_TWIN_MULT_ALGO_INTER (3)"
if ! $CC $FL -DTWIN=3 $D/demo.c -o $D/demo_t3 2> $D/build_t3.log; then
	grep -m 3 "undefined\|implicit" $D/build_t3.log
	echo "FAIL: affine + EC_PF_TWIN_MULT_ALGO_INTER does not build (ec_point_affine_inter_twin_mult is not defined)"
	exit 1
fi
$D/demo_t3 || rc=1
exit $rc
