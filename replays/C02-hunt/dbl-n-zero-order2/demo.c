/*
 * ec_point_proj_dbl_n(point, n, curve) = 2^n * point.  With
 * EC_PROJ_REPEAT_DOUBLE the "y == 0 -> infinity" shortcut is taken before the
 * "n == 0 -> nothing to do" test, so zero doublings of a point of order 2
 * (y = 0; secp112r2, secp128r2 and id-GostR3410-2001-ParamSet-cc have one)
 * return the point at infinity.  Without EC_PROJ_REPEAT_DOUBLE the same call
 * returns the point unchanged.
 */
#include <sys/param.h>
#include <sys/types.h>
#include <inttypes.h>
#include <string.h>
#include <stdio.h>
#include <errno.h>

#define EC_USE_PROJECTIVE	1
#define EC_PROJ_ADD_MIX		1
#ifdef REPEAT
#define EC_PROJ_REPEAT_DOUBLE	1
#endif
#include "crypto/dsa/ecdsa.h"

static ec_curve_t curve;
static const struct { const char *curve, *x; } tv[] = {
	{ "secp112r2", "b1fd8de127d4656b573eb513984d" },
	{ "secp128r2", "ea1e91cc9229e872d1e910ce3edcb319" },
	{ "id-GostR3410-2001-ParamSet-cc", "7487bab2808d0b782a65cdc258732373bff74977793e104d0c8475a0807235c3" },
};

int
main(void) {
	size_t i, n, bits;
	int err, fails = 0;
	ec_point_t T, R;
	ec_point_proj_t J;

	for (i = 0; i < 3; i ++) {
		err = ecdsa_curve_from_str(ecdsa_curve_str_get_by_name(tv[i].curve,
		    strlen(tv[i].curve)), &curve);
		if (0 != err)
			return (2);
		bits = EC_CURVE_CALC_BITS_DBL(&curve);
		ec_point_init(&T, bits); ec_point_init(&R, bits);
		bn_import_be_hex(&T.x, (const uint8_t*)tv[i].x, strlen(tv[i].x));
		bn_assign_zero(&T.y);
		if (0 != ec_point_check_affine(&T, &curve)) {
			printf("bad test vector\n");
			return (2);
		}
		for (n = 0; n < 3; n ++) {
			ec_point_proj_init(&J, bits);
			ec_point_proj_import_affine(&J, &T, &curve);
			err = ec_point_proj_dbl_n(&J, n, &curve);
			if (0 == err)
				err = ec_point_proj_export_affine(&J, &R, &curve);
			/* 2^0 * T = T, 2^n * T = O for n >= 1. */
			printf("%s: dbl_n(T, %zu): err=%d infinity=%d (expected %d)\n",
			    tv[i].curve, n, err, R.infinity, (0 != n));
			if (0 != err || (0 != R.infinity) != (0 != n) ||
			    (0 == n && 0 == ec_point_is_eq(&R, &T)))
				fails ++;
		}
	}
	if (0 != fails) {
		printf("FAIL: %d wrong results\n", fails);
		return (1);
	}
	printf("OK\n");
	return (0);
}
