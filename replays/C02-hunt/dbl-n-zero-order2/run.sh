#!/bin/sh
# usage: run.sh <tree>
T=${1:-/tmp/hunt/C02}
D=$(dirname "$0")
CC=${CC:-gcc}
FL="-O2 -w -DLINUX -D_GNU_SOURCE -D__USE_GNU=1 -I$T/include"
rc=0
$CC $FL $D/demo.c -o $D/demo_norepeat || exit 2
echo "== without EC_PROJ_REPEAT_DOUBLE (control)"
$D/demo_norepeat || { echo "control failed"; rc=1; }
$CC $FL -DREPEAT $D/demo.c -o $D/demo_repeat || exit 2
echo "== with EC_PROJ_REPEAT_DOUBLE"
$D/demo_repeat || rc=1
exit $rc
