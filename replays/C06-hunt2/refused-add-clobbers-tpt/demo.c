/* tpt_ev_add*() store tp_udata->tpt = tpt BEFORE the arguments are validated.  A call that is
 * refused with EINVAL (tpt == NULL, e.g. tp_thread_get(tp, out-of-range)) has already destroyed
 * the owner pointer of the live registration kept in the same tp_udata: it can not be deleted
 * any more (EINVAL) and the loop dereferences tp_udata->tpt when the one-shot event fires. */
#include <sys/param.h>
#include <sys/types.h>
#include <sys/socket.h>
#include <sys/resource.h>
#include <inttypes.h>
#include <string.h>
#include <stdio.h>
#include <stdlib.h>
#include <errno.h>
#include <unistd.h>
#include <fcntl.h>
#include <pthread.h>
#include <semaphore.h>
#include <time.h>
#include "threadpool/threadpool.h"
#include "threadpool/threadpool_msg_sys.h"

static tp_p g_pool; static tpt_p g_t0;
typedef struct { void (*fn)(void*); void *arg; sem_t done; } job_t;
static void job_cb(tpt_p tpt, void *ud){ job_t *j = ud; (void)tpt; j->fn(j->arg); sem_post(&j->done); }
/* run fn(arg) on the owning worker thread and wait. */
static void on_owner(void (*fn)(void*), void *arg){ job_t j; j.fn=fn; j.arg=arg; sem_init(&j.done,0,0);
  int e = tpt_msg_send(g_t0, NULL, 0, job_cb, &j); if (e){ printf("msg_send err %d\n", e); exit(2);} sem_wait(&j.done); sem_destroy(&j.done);}
static void msleep(int ms){ struct timespec ts={ms/1000,(ms%1000)*1000000L}; nanosleep(&ts,NULL);}
static void pool_start(void){ tp_settings_t s; tp_settings_def(&s); s.threads_max=1; s.flags=0;
  if (tp_create(&s,&g_pool)) exit(2); if (tp_threads_create(g_pool,0)) exit(2); g_t0=tp_thread_get(g_pool,0);
  while(!tpt_is_running(g_t0)) msleep(1); msleep(20);}
static void pool_stop(void){ tp_shutdown(g_pool); tp_shutdown_wait(g_pool); tp_destroy(g_pool);}
static volatile int rd_cnt; static int sv[2]; static tp_udata_t u1; static int r1, r2, r3;
static void rd_cb(tp_event_p ev, tp_udata_p u) { (void)ev; (void)u; rd_cnt++; }
static void step1(void *a) { (void)a; memset(&u1, 0, sizeof u1); u1.cb_func = rd_cb; u1.ident = (uintptr_t)sv[0];
	r1 = tpt_ev_add_args(g_t0, TP_EV_READ, TP_F_ONESHOT, 0, 0, &u1);
	/* pool has 1 thread: tp_thread_get(pool, 1) == NULL -> malformed registration. */
	r2 = tpt_ev_add_args(tp_thread_get(g_pool, 1), TP_EV_READ, TP_F_ONESHOT, 0, 0, &u1);
	r3 = tpt_ev_del_args1(TP_EV_READ, &u1);
}
int main(void) {
	socketpair(AF_UNIX, SOCK_STREAM, 0, sv);
	pool_start();
	on_owner(step1, NULL);
	printf("add = %d, add(tpt = NULL) = %d (refused), del = %d (0 expected), u1.tpt = %p (owner expected)\n",
	    r1, r2, r3, (void*)u1.tpt);
	if (0 == r3) { pool_stop(); return (0); }
	fflush(stdout);
	write(sv[1], "x", 1); /* the still installed one-shot fires: tpt_loop() uses tp_udata->tpt->io_fd */
	msleep(200);
	printf("rd_cnt = %d\n", rd_cnt);
	pool_stop();
	return (1); /* del was refused */
}
