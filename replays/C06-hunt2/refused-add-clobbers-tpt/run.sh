#!/bin/sh
# usage: run.sh <tree>   -- exits non-zero / prints FAIL when the defect shows.
T=${1:?tree path}
D=$(cd "$(dirname "$0")" && pwd)
O=$(mktemp -d)
gcc -g -O1 -fsanitize=address,undefined -fno-sanitize-recover=undefined \
 -DHAVE_ACCEPT4 -DHAVE_EXPLICIT_BZERO -DHAVE_MEMMEM -DHAVE_MEMRCHR -DHAVE_PIPE2 \
 -DHAVE_POSIX_SPAWN_FILE_ACTIONS_ADDCLOSEFROM_NP -DHAVE_PTHREAD_SETNAME_NP -DHAVE_REALLOCARRAY \
 -DHAVE_SOCK_CLOEXEC -DHAVE_SOCK_NONBLOCK -DHAVE_STRNCASECMP -DLINUX -D_GNU_SOURCE -D__USE_GNU=1 \
 -I"$T/include" "$D/demo.c" "$T/src/threadpool/threadpool.c" "$T/src/threadpool/threadpool_msg_sys.c" \
 -o "$O/demo" -lpthread || { echo "BUILD FAILED"; exit 2; }
"$O/demo"; rc=$?
rm -rf "$O"
if [ $rc -ne 0 ]; then echo "FAIL (rc=$rc)"; exit 1; fi
echo PASS; exit 0
