/* One descriptor, two tp_udata (one for READ, one for WRITE - the natural kqueue style, each
 * (ident, filter) pair is its own registration there).  epoll has ONE registration per fd:
 * epoll_ctl_ex() turns the EEXIST of the second add into EPOLL_CTL_MOD, which silently
 * replaces the first registration (events AND data.ptr).  Both adds return 0, the READ event
 * never fires; and tpt_ev_del(READ, u1) returns 0 and removes the WRITE registration of u2. */
#include <sys/param.h>
#include <sys/types.h>
#include <sys/socket.h>
#include <sys/resource.h>
#include <inttypes.h>
#include <string.h>
#include <stdio.h>
#include <stdlib.h>
#include <errno.h>
#include <unistd.h>
#include <fcntl.h>
#include <pthread.h>
#include <semaphore.h>
#include <time.h>
#include "threadpool/threadpool.h"
#include "threadpool/threadpool_msg_sys.h"

static tp_p g_pool; static tpt_p g_t0;
typedef struct { void (*fn)(void*); void *arg; sem_t done; } job_t;
static void job_cb(tpt_p tpt, void *ud){ job_t *j = ud; (void)tpt; j->fn(j->arg); sem_post(&j->done); }
/* run fn(arg) on the owning worker thread and wait. */
static void on_owner(void (*fn)(void*), void *arg){ job_t j; j.fn=fn; j.arg=arg; sem_init(&j.done,0,0);
  int e = tpt_msg_send(g_t0, NULL, 0, job_cb, &j); if (e){ printf("msg_send err %d\n", e); exit(2);} sem_wait(&j.done); sem_destroy(&j.done);}
static void msleep(int ms){ struct timespec ts={ms/1000,(ms%1000)*1000000L}; nanosleep(&ts,NULL);}
static void pool_start(void){ tp_settings_t s; tp_settings_def(&s); s.threads_max=1; s.flags=0;
  if (tp_create(&s,&g_pool)) exit(2); if (tp_threads_create(g_pool,0)) exit(2); g_t0=tp_thread_get(g_pool,0);
  while(!tpt_is_running(g_t0)) msleep(1); msleep(20);}
static void pool_stop(void){ tp_shutdown(g_pool); tp_shutdown_wait(g_pool); tp_destroy(g_pool);}
static volatile int rd_cnt, wr_cnt;
static int sv[2];
static tp_udata_t u1, u2;
static int r1, r2, r3;
static void rd_cb(tp_event_p ev, tp_udata_p u) { char b[64]; (void)ev; rd_cnt++; if (0 > read((int)u->ident, b, sizeof b)) {} }
static void wr_cb(tp_event_p ev, tp_udata_p u) { (void)ev; (void)u; wr_cnt++; msleep(1); }
static void step_add(void *a) { (void)a;
	memset(&u1, 0, sizeof u1); u1.cb_func = rd_cb; u1.ident = (uintptr_t)sv[0];
	memset(&u2, 0, sizeof u2); u2.cb_func = wr_cb; u2.ident = (uintptr_t)sv[0];
	r1 = tpt_ev_add_args(g_t0, TP_EV_READ, 0, 0, 0, &u1);  /* persistent read */
	r2 = tpt_ev_add_args(g_t0, TP_EV_WRITE, 0, 0, 0, &u2); /* persistent write */
}
static void step_del_read(void *a) { (void)a; r3 = tpt_ev_del_args1(TP_EV_READ, &u1); }
static void step_del_write(void *a) { (void)a; r3 = tpt_ev_del_args1(TP_EV_WRITE, &u2); }
int main(void) {
	int bad = 0, w0, w1;
	socketpair(AF_UNIX, SOCK_STREAM, 0, sv);
	pool_start();
	on_owner(step_add, NULL);
	printf("add(READ, u1) = %d, add(WRITE, u2) = %d   (same fd, same thread)\n", r1, r2);
	if (0 != r1 || 0 != r2) { printf("second registration refused: OK\n"); pool_stop(); return (0); }
	write(sv[1], "x", 1);
	msleep(200);
	printf("peer wrote 1 byte: READ callbacks = %d (>= 1 expected: both adds returned 0)\n", rd_cnt);
	if (0 == rd_cnt) bad++;
	w0 = wr_cnt; msleep(100); w1 = wr_cnt;
	printf("WRITE callbacks in 100 ms: %d (persistent, socket writable)\n", w1 - w0);
	on_owner(step_del_read, NULL);
	w0 = wr_cnt; msleep(100); w1 = wr_cnt;
	printf("del(READ, u1) = %d; WRITE callbacks of u2 in the next 100 ms: %d (> 0 expected: u2 was not deleted)\n", r3, w1 - w0);
	if (0 == (w1 - w0)) bad++;
	on_owner(step_del_write, NULL);
	pool_stop();
	return (0 != bad);
}
