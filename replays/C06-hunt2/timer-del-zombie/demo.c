/* tpt_ev_del(TP_EV_TIMER) only close()s the timerfd ("No need to epoll_ctl(EPOLL_CTL_DEL)").
 * close() removes an epoll registration only when the LAST reference to the open file
 * description goes away.  A child process made with fork()/posix_spawn() (the pool does not set
 * TFD_CLOEXEC unless the internal TP_S_F_CLOEXEC bit is used; a plain fork() child inherits it
 * anyway) keeps the description alive: the armed periodic timer stays in the pool thread's epoll
 * set with data.ptr = tp_udata.  After tpt_ev_del() returned 0 on the owning thread the callback
 * is still invoked - as TP_EV_READ, in a busy loop (tpdata == 0 decodes as persistent READ, the
 * timerfd is never read) - until the child exits. */
#include <sys/param.h>
#include <sys/types.h>
#include <sys/socket.h>
#include <sys/resource.h>
#include <inttypes.h>
#include <string.h>
#include <stdio.h>
#include <stdlib.h>
#include <errno.h>
#include <unistd.h>
#include <fcntl.h>
#include <pthread.h>
#include <semaphore.h>
#include <time.h>
#include "threadpool/threadpool.h"
#include "threadpool/threadpool_msg_sys.h"

static tp_p g_pool; static tpt_p g_t0;
typedef struct { void (*fn)(void*); void *arg; sem_t done; } job_t;
static void job_cb(tpt_p tpt, void *ud){ job_t *j = ud; (void)tpt; j->fn(j->arg); sem_post(&j->done); }
/* run fn(arg) on the owning worker thread and wait. */
static void on_owner(void (*fn)(void*), void *arg){ job_t j; j.fn=fn; j.arg=arg; sem_init(&j.done,0,0);
  int e = tpt_msg_send(g_t0, NULL, 0, job_cb, &j); if (e){ printf("msg_send err %d\n", e); exit(2);} sem_wait(&j.done); sem_destroy(&j.done);}
static void msleep(int ms){ struct timespec ts={ms/1000,(ms%1000)*1000000L}; nanosleep(&ts,NULL);}
static void pool_start(void){ tp_settings_t s; tp_settings_def(&s); s.threads_max=1; s.flags=0;
  if (tp_create(&s,&g_pool)) exit(2); if (tp_threads_create(g_pool,0)) exit(2); g_t0=tp_thread_get(g_pool,0);
  while(!tpt_is_running(g_t0)) msleep(1); msleep(20);}
static void pool_stop(void){ tp_shutdown(g_pool); tp_shutdown_wait(g_pool); tp_destroy(g_pool);}
#include <signal.h>
#include <spawn.h>
#include <sys/wait.h>
extern char **environ;
static volatile long t_cnt, after_del; static volatile int deleted; static volatile unsigned last_event = 99;
static tp_udata_t u1; static int r1;
static void t_cb(tp_event_p ev, tp_udata_p u) { (void)u; t_cnt++; if (deleted) { after_del++; last_event = ev->event; } }
static void step_add(void *a) { (void)a; memset(&u1, 0, sizeof u1); u1.cb_func = t_cb; u1.ident = 77;
	r1 = tpt_ev_add_args(g_t0, TP_EV_TIMER, 0, TP_FF_T_MSEC, 20, &u1); }
static void step_del(void *a) { (void)a; r1 = tpt_ev_del_args1(TP_EV_TIMER, &u1); deleted = 1; }
int main(void) {
	pid_t c; char *argv[] = { "sleep", "5", NULL };
	pool_start(); /* default style settings: no TP_S_F_CLOEXEC */
	on_owner(step_add, NULL);
	printf("add periodic 20 ms timer = %d\n", r1);
	msleep(110);
	printf("fired %ld times in 110 ms\n", t_cnt);
	/* The application starts a helper process (what TP_EV_PROC is there to watch). */
	if (0 != posix_spawnp(&c, "sleep", NULL, NULL, argv, environ)) {
		c = fork(); if (0 == c) { sleep(5); _exit(0); }
	}
	on_owner(step_del, NULL); /* delete on the owning thread */
	printf("tpt_ev_del_args1(TP_EV_TIMER) = %d, tpdata = %" PRIu64 "\n", r1, u1.tpdata);
	msleep(300);
	printf("callbacks AFTER del returned on the owning thread: %ld (last ev->event = %u; expected 0 callbacks)\n",
	    after_del, last_event);
	kill(c, SIGKILL); waitpid(c, NULL, 0);
	pool_stop();
	return (0 != after_del);
}
