#include <sys/param.h>
#include <sys/types.h>
#include <sys/socket.h>
#include <sys/resource.h>
#include <inttypes.h>
#include <string.h>
#include <stdio.h>
#include <stdlib.h>
#include <errno.h>
#include <unistd.h>
#include <fcntl.h>
#include <pthread.h>
#include <semaphore.h>
#include <time.h>
#include "threadpool/threadpool.h"
#include "threadpool/threadpool_msg_sys.h"

static tp_p g_pool; static tpt_p g_t0;
typedef struct { void (*fn)(void*); void *arg; sem_t done; } job_t;
static void job_cb(tpt_p tpt, void *ud){ job_t *j = ud; (void)tpt; j->fn(j->arg); sem_post(&j->done); }
/* run fn(arg) on the owning worker thread and wait. */
static void on_owner(void (*fn)(void*), void *arg){ job_t j; j.fn=fn; j.arg=arg; sem_init(&j.done,0,0);
  int e = tpt_msg_send(g_t0, NULL, 0, job_cb, &j); if (e){ printf("msg_send err %d\n", e); exit(2);} sem_wait(&j.done); sem_destroy(&j.done);}
static void msleep(int ms){ struct timespec ts={ms/1000,(ms%1000)*1000000L}; nanosleep(&ts,NULL);}
static void pool_start(void){ tp_settings_t s; tp_settings_def(&s); s.threads_max=1; s.flags=0;
  if (tp_create(&s,&g_pool)) exit(2); if (tp_threads_create(g_pool,0)) exit(2); g_t0=tp_thread_get(g_pool,0);
  while(!tpt_is_running(g_t0)) msleep(1); msleep(20);}
static void pool_stop(void){ tp_shutdown(g_pool); tp_shutdown_wait(g_pool); tp_destroy(g_pool);}
