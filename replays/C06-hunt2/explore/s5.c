#include "h.h"
#include <signal.h>
#include <sys/wait.h>
static volatile int p_cnt; static volatile uint64_t p_data; static volatile uint32_t p_ff; static volatile uint16_t p_ev;
static tp_udata_t u1; static int r1; static uint16_t g_flags;
static void p_cb(tp_event_p ev, tp_udata_p u){ (void)u; p_cnt++; p_data=ev->data; p_ff=ev->fflags; p_ev=ev->event; }
static void add(void*a){ (void)a; r1=tpt_ev_add_args(g_t0,TP_EV_PROC,g_flags,TP_FF_P_EXIT,0,&u1);}
static void dis(void*a){ (void)a; r1=tpt_ev_enable_args1(0,TP_EV_PROC,&u1);}
static void en(void*a){ (void)a; r1=tpt_ev_enable_args(1,TP_EV_PROC,g_flags,TP_FF_P_EXIT,0,&u1);}
static void del(void*a){ (void)a; r1=tpt_ev_del_args1(TP_EV_PROC,&u1);}
static pid_t mk(int ms,int code){ pid_t c=fork(); if(!c){ struct timespec ts={ms/1000,(ms%1000)*1000000L}; nanosleep(&ts,NULL); _exit(code);} return c;}
int main(void){ pool_start();
 for (g_flags=0; g_flags<3; g_flags++){ p_cnt=0; pid_t c=mk(100,7); memset(&u1,0,sizeof u1); u1.cb_func=p_cb; u1.ident=c;
  on_owner(add,NULL); printf("flags=%u add=%d",g_flags,r1); on_owner(add,NULL); printf(" add again=%d",r1);
  msleep(300); printf(" cnt=%d ev=%u ff=%u status=%"PRIu64" (exit %d) tpdata=%"PRIx64,p_cnt,p_ev,p_ff,p_data,WEXITSTATUS((int)p_data),u1.tpdata);
  on_owner(del,NULL); printf(" del after fire=%d\n",r1); }
 /* disable / enable */
 g_flags=0; p_cnt=0; pid_t c=mk(200,3); memset(&u1,0,sizeof u1); u1.cb_func=p_cb; u1.ident=c; on_owner(add,NULL); on_owner(dis,NULL); printf("disable=%d",r1); msleep(400); printf(" cnt=%d (expect 0)",p_cnt); on_owner(en,NULL); printf(" enable=%d",r1); msleep(100); printf(" cnt=%d status=%"PRIu64"\n",p_cnt,p_data);
 /* ident 0, ident = 2^31 + pid */
 memset(&u1,0,sizeof u1); u1.cb_func=p_cb; u1.ident=0; on_owner(add,NULL); printf("ident 0 add=%d\n",r1);
 u1.ident=(uintptr_t)getpid()+(1ull<<32); on_owner(add,NULL); printf("ident pid+2^32 add=%d\n",r1);
 u1.ident=999999; on_owner(add,NULL); printf("ident nonexist add=%d\n",r1);
 pool_stop(); return 0;}
