#include "h.h"
static volatile int rd_cnt, wr_cnt;
static int sv[2];
static tp_udata_t u1, u2;
static void rd_cb(tp_event_p ev, tp_udata_p u){ char b[64]; (void)ev; rd_cnt++; read((int)u->ident,b,sizeof b);}
static void wr_cb(tp_event_p ev, tp_udata_p u){ (void)ev;(void)u; wr_cnt++; }
static int r1,r2,r3;
static void step1(void*a){ (void)a;
  memset(&u1,0,sizeof u1); u1.cb_func=rd_cb; u1.ident=sv[0];
  memset(&u2,0,sizeof u2); u2.cb_func=wr_cb; u2.ident=sv[0];
  r1=tpt_ev_add_args(g_t0, TP_EV_READ, 0,0,0,&u1);
  r2=tpt_ev_add_args(g_t0, TP_EV_WRITE, TP_F_DISPATCH,0,0,&u2);
}
static void step2(void*a){ (void)a; r3=tpt_ev_del_args1(TP_EV_READ,&u1); }
static void step3(void*a){ (void)a; r3=tpt_ev_enable_args(1,TP_EV_WRITE,TP_F_DISPATCH,0,0,&u2); }
int main(void){ socketpair(AF_UNIX,SOCK_STREAM,0,sv); pool_start();
  on_owner(step1,NULL); printf("add READ u1=%d add WRITE u2=%d\n",r1,r2);
  msleep(100); printf("wr_cnt=%d (dispatch, expect 1)\n",wr_cnt);
  write(sv[1],"x",1); msleep(200); printf("rd_cnt=%d after data written (expect 1)\n",rd_cnt);
  on_owner(step3,NULL); msleep(100); printf("re-enable WRITE=%d wr_cnt=%d (expect 2)\n",r3,wr_cnt);
  on_owner(step2,NULL); printf("del READ u1=%d\n",r3);
  on_owner(step3,NULL); msleep(100); printf("re-enable WRITE=%d wr_cnt=%d (expect 3)\n",r3,wr_cnt);
  pool_stop(); return 0;}
