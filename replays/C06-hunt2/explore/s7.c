#include "h.h"
#include <signal.h>
#include <sys/wait.h>
static volatile long t_cnt, after_del; static volatile int deleted; static volatile unsigned last_event=99;
static tp_udata_t u1; static int r1;
static void t_cb(tp_event_p ev, tp_udata_p u){ (void)u; t_cnt++; if (deleted){ after_del++; last_event=ev->event; } }
static void step1(void*a){ (void)a; memset(&u1,0,sizeof u1); u1.cb_func=t_cb; u1.ident=77; r1=tpt_ev_add_args(g_t0,TP_EV_TIMER,0,TP_FF_T_MSEC,20,&u1);}
static void step2(void*a){ (void)a; r1=tpt_ev_del_args1(TP_EV_TIMER,&u1); deleted=1; }
int main(void){ pool_start(); on_owner(step1,NULL); printf("add periodic 20ms timer=%d\n",r1); msleep(110); printf("fired %ld times\n",t_cnt);
 pid_t c=fork(); if(c==0){ sleep(5); _exit(0);} 
 on_owner(step2,NULL); printf("del=%d tpdata=%"PRIu64"\n",r1,u1.tpdata); msleep(300);
 printf("callbacks after del returned: %ld (last ev->event=%u)\n",after_del,last_event);
 kill(c,SIGKILL); waitpid(c,NULL,0); msleep(50); long x=after_del; msleep(100); printf("after child gone: +%ld\n",after_del-x);
 pool_stop(); return after_del!=0;}
