#include "h.h"
static volatile int rd_cnt; static volatile uint16_t last_flags;
static int sv[2];
static tp_udata_t u1;
static void rd_cb(tp_event_p ev, tp_udata_p u){ (void)u; rd_cnt++; last_flags=ev->flags;}
static int r1;
static void step1(void*a){ (void)a;
  memset(&u1,0,sizeof u1); u1.cb_func=rd_cb; u1.ident=sv[0];
  r1=tpt_ev_add_args(g_t0, TP_EV_READ, TP_F_DISPATCH,TP_FF_RW_LOWAT,100,&u1);
}
static void step2(void*a){ (void)a; r1=tpt_ev_enable_args(1,TP_EV_READ,TP_F_DISPATCH,0,0,&u1); }
static void step3(void*a){ (void)a; r1=tpt_ev_del_args1(TP_EV_READ,&u1); }
static void step4(void*a){ (void)a; memset(&u1,0,sizeof u1); u1.cb_func=rd_cb; u1.ident=sv[0]; r1=tpt_ev_add_args(g_t0, TP_EV_READ, TP_F_DISPATCH,0,0,&u1); }
int main(void){ socketpair(AF_UNIX,SOCK_STREAM,0,sv); pool_start();
  on_owner(step1,NULL); printf("add READ LOWAT 100 =%d\n",r1);
  write(sv[1],"0123456789",10); msleep(200); printf("rd_cnt=%d after 10 bytes (expect 0)\n",rd_cnt);
  on_owner(step2,NULL); msleep(200); printf("enable READ w/o LOWAT=%d rd_cnt=%d (expect 1)\n",r1,rd_cnt);
  on_owner(step3,NULL); printf("del=%d\n", r1);
  on_owner(step4,NULL); msleep(200); printf("fresh add READ w/o LOWAT=%d rd_cnt=%d (expect 1)\n",r1,rd_cnt);
  pool_stop(); return 0;}
