#include "h.h"
static volatile int cnt; static volatile uint16_t lf; static volatile uint32_t lff;
static tp_udata_t u1; static int r1; static int fd; static uint16_t g_ev, g_fl;
static void cb(tp_event_p ev, tp_udata_p u){ (void)u; cnt++; lf=ev->flags; lff=ev->fflags; if (cnt>1000) tpt_ev_del_args1(ev->event,u); }
static void add(void*a){ (void)a; memset(&u1,0,sizeof u1); u1.cb_func=cb; u1.ident=fd; r1=tpt_ev_add_args(g_t0,g_ev,g_fl,0,0,&u1);}
static void dis(void*a){ (void)a; r1=tpt_ev_enable_args(0,g_ev,g_fl,0,0,&u1);}
static void en(void*a){ (void)a; r1=tpt_ev_enable_args(1,g_ev,g_fl,0,0,&u1);}
static void del(void*a){ (void)a; r1=tpt_ev_del_args1(g_ev,&u1);}
int main(void){ int sv[2], p[2]; pool_start();
 /* 1: READ dispatch, disable, peer close, nothing; enable -> EOF */
 socketpair(AF_UNIX,SOCK_STREAM,0,sv); fd=sv[0]; g_ev=TP_EV_READ; g_fl=TP_F_DISPATCH; cnt=0;
 on_owner(add,NULL); on_owner(dis,NULL); close(sv[1]); msleep(100); printf("1: disabled, peer closed: cnt=%d (0)\n",cnt);
 on_owner(en,NULL); msleep(100); printf("1: enabled: cnt=%d (1) flags=%x\n",cnt,lf); msleep(100); printf("1: still cnt=%d (1)\n",cnt);
 on_owner(en,NULL); msleep(100); printf("1: re-enabled: cnt=%d (2) flags=%x\n",cnt,lf); on_owner(del,NULL); printf("1: del=%d\n",r1); on_owner(del,NULL); printf("1: del again=%d\n",r1); close(sv[0]);
 /* 2: WRITE on pipe, reader closed -> ERROR */
 pipe(p); fd=p[1]; g_ev=TP_EV_WRITE; g_fl=TP_F_ONESHOT; cnt=0; close(p[0]); on_owner(add,NULL); msleep(100); printf("2: add=%d cnt=%d flags=%x fflags=%u\n",r1,cnt,lf,lff); on_owner(del,NULL); printf("2: del after oneshot=%d\n",r1); close(p[1]);
 /* 3: READ persistent on pipe, data stays -> many */
 pipe(p); fd=p[0]; g_ev=TP_EV_READ; g_fl=0; cnt=0; write(p[1],"x",1); on_owner(add,NULL); msleep(50); on_owner(dis,NULL); int c0=cnt; msleep(100); printf("3: persistent cnt=%d, after disable +%d (0)\n",c0,cnt-c0);
 close(p[1]); msleep(50); printf("3: hup while disabled +%d (0)\n",cnt-c0); g_fl=TP_F_DISPATCH; on_owner(en,NULL); msleep(50); printf("3: enable dispatch +%d (1) flags=%x\n",cnt-c0,lf);
 /* disable of WRITE when READ registered */ g_ev=TP_EV_WRITE; on_owner(dis,NULL); printf("3: disable WRITE while READ registered=%d\n",r1); on_owner(del,NULL); printf("3: del WRITE=%d\n",r1); g_ev=TP_EV_READ; on_owner(del,NULL); printf("3: del READ=%d\n",r1);
 /* 4: bad args */
 g_ev=TP_EV_READ; g_fl=3; on_owner(add,NULL); printf("4: flags 3 add=%d\n",r1); g_fl=4; on_owner(add,NULL); printf("4: flags 4 add=%d\n",r1); g_fl=TP_F_EOF; on_owner(add,NULL); printf("4: flags EOF add=%d\n",r1);
 g_ev=4; g_fl=0; on_owner(add,NULL); printf("4: event 4 add=%d\n",r1); fd=100000000; g_ev=0; on_owner(add,NULL); printf("4: big fd add=%d\n",r1); fd=500; on_owner(add,NULL); printf("4: closed fd add=%d tpdata=%"PRIx64"\n",r1,u1.tpdata);
 fd=open("/etc/passwd",O_RDONLY); on_owner(add,NULL); printf("4: regular file add=%d tpdata=%"PRIx64"\n",r1,u1.tpdata);
 pool_stop(); return 0;}
