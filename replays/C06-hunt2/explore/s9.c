#include "h.h"
static volatile int cnt; static tp_udata_t u1; static int r1; static uint16_t g_fl; static uint32_t g_ff; static uint64_t g_d;
static void cb(tp_event_p ev, tp_udata_p u){ (void)u;(void)ev; cnt++; }
static void add(void*a){ (void)a; r1=tpt_ev_add_args(g_t0,TP_EV_TIMER,g_fl,g_ff,g_d,&u1);}
static void dis(void*a){ (void)a; r1=tpt_ev_enable_args1(0,TP_EV_TIMER,&u1);}
static void en(void*a){ (void)a; r1=tpt_ev_enable_args(1,TP_EV_TIMER,g_fl,g_ff,g_d,&u1);}
static void del(void*a){ (void)a; r1=tpt_ev_del_args1(TP_EV_TIMER,&u1);}
static uint64_t now_ms(void){ struct timespec ts; clock_gettime(CLOCK_REALTIME,&ts); return (uint64_t)ts.tv_sec*1000+ts.tv_nsec/1000000; }
int main(void){ pool_start(); memset(&u1,0,sizeof u1); u1.cb_func=cb; u1.ident=5;
 g_fl=0; g_ff=TP_FF_T_USEC; g_d=20000; on_owner(add,NULL); msleep(210); printf("periodic 20ms/210ms: %d (10)\n",cnt);
 on_owner(dis,NULL); int c=cnt; msleep(100); printf("disabled: +%d (0) r=%d\n",cnt-c,r1);
 g_fl=TP_F_DISPATCH; g_ff=TP_FF_T_NSEC; g_d=20000000; on_owner(en,NULL); c=cnt; msleep(100); printf("dispatch: +%d (1)\n",cnt-c); on_owner(en,NULL); msleep(100); printf("dispatch re-enable: +%d (2)\n",cnt-c);
 g_fl=0; g_ff=TP_FF_T_MSEC|TP_FF_T_ABSTIME; g_d=now_ms()+50; c=cnt; on_owner(en,NULL); msleep(150); printf("abs persistent: r=%d +%d (1)\n",r1,cnt-c);
 g_fl=0; g_ff=TP_FF_T_MSEC; g_d=20; c=cnt; on_owner(en,NULL); msleep(110); printf("back to relative periodic: r=%d +%d (5)\n",r1,cnt-c);
 g_fl=TP_F_ONESHOT; c=cnt; on_owner(en,NULL); msleep(110); printf("oneshot: +%d (1) tpdata=%"PRIx64"\n",cnt-c,u1.tpdata); on_owner(del,NULL); printf("del after oneshot=%d\n",r1);
 on_owner(dis,NULL); printf("disable never added=%d\n",r1);
 g_d=0; on_owner(add,NULL); printf("data 0=%d\n",r1); g_d=5; g_ff=8; on_owner(add,NULL); printf("fflags 8=%d\n",r1);
 pool_stop(); return 0;}
