#include <netinet/in.h>
#include <arpa/inet.h>
static int tcp_pair(int sv[2]){ int l=socket(AF_INET,SOCK_STREAM,0); struct sockaddr_in a; socklen_t al=sizeof a; memset(&a,0,sizeof a); a.sin_family=AF_INET; a.sin_addr.s_addr=htonl(INADDR_LOOPBACK);
 if (l<0||bind(l,(void*)&a,sizeof a)||listen(l,1)||getsockname(l,(void*)&a,&al)) return -1;
 sv[1]=socket(AF_INET,SOCK_STREAM,0); if (connect(sv[1],(void*)&a,sizeof a)) return -1; sv[0]=accept(l,NULL,NULL); close(l); return sv[0]<0?-1:0;}
