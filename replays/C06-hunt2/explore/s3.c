#include "h.h"
#include <sys/timerfd.h>
static volatile int t_cnt;
static tp_udata_t u1;
static void t_cb(tp_event_p ev, tp_udata_p u){ (void)u;(void)ev; t_cnt++; }
static struct itimerspec last; static int last_flags, last_ret, settime_calls;
int __real_timerfd_settime(int fd,int fl,const struct itimerspec*n,struct itimerspec*o);
int __wrap_timerfd_settime(int fd,int fl,const struct itimerspec*n,struct itimerspec*o){ last=*n; last_flags=fl; settime_calls++; last_ret=__real_timerfd_settime(fd,fl,n,o); return last_ret;}
typedef struct { int op; uint16_t flags; uint32_t ff; uint64_t data; int ret; } req_t;
static void doit(void*a){ req_t*r=a; if(r->op==0) r->ret=tpt_ev_add_args(g_t0,TP_EV_TIMER,r->flags,r->ff,r->data,&u1);
 else if(r->op==1) r->ret=tpt_ev_enable_args(1,TP_EV_TIMER,r->flags,r->ff,r->data,&u1);
 else if(r->op==2) r->ret=tpt_ev_enable_args(0,TP_EV_TIMER,r->flags,r->ff,r->data,&u1);
 else r->ret=tpt_ev_del_args1(TP_EV_TIMER,&u1);}
static int call(int op,uint16_t fl,uint32_t ff,uint64_t d){ req_t r={op,fl,ff,d,0}; settime_calls=0; on_owner(doit,&r); return r.ret;}
static const uint64_t div_[4]={1,1000,1000000,1000000000};
int main(void){ int bad=0; pool_start(); memset(&u1,0,sizeof u1); u1.cb_func=t_cb; u1.ident=1234;
 uint64_t vals[]={1,999,1000,1001,999999,1000000,1000001,999999999,1000000000,1000000001,4294967295ull,4294967296ull,4294967297ull,1ull<<40,(1ull<<62)+7,(1ull<<63)-1,1ull<<63,UINT64_MAX};
 for(unsigned v=0;v<sizeof vals/sizeof*vals;v++) for(uint32_t un=0;un<4;un++) for(uint16_t fl=0;fl<3;fl++) for (int abs=0;abs<2;abs++){
   uint64_t d=vals[v]; uint32_t ff=un|(abs?TP_FF_T_ABSTIME:0);
   int r=call(0,fl,ff,d);
   uint64_t es=d/div_[un], en=(d%div_[un])*(1000000000/div_[un]);
   if (r!=0){ printf("data=%"PRIu64" unit=%u fl=%u abs=%d -> ret %d calls=%d last_ret=%d\n",d,un,fl,abs,r,settime_calls,last_ret); int dr=call(3,0,0,0); if(dr!=ENOENT) printf("  del after failure=%d\n",dr); continue;}
   int per = (fl==0 && !abs);
   if ((uint64_t)last.it_value.tv_sec!=es || (uint64_t)last.it_value.tv_nsec!=en || (uint64_t)last.it_interval.tv_sec!=(per?es:0) || (uint64_t)last.it_interval.tv_nsec!=(per?en:0) || last_flags!=(abs?TFD_TIMER_ABSTIME:0)){
     bad++; printf("MISMATCH data=%"PRIu64" unit=%u fl=%u abs=%d: value %ld.%09ld interval %ld.%09ld flags %d\n",d,un,fl,abs,(long)last.it_value.tv_sec,last.it_value.tv_nsec,(long)last.it_interval.tv_sec,last.it_interval.tv_nsec,last_flags);}
   int dr=call(3,0,0,0); if(dr){printf("del=%d\n",dr);bad++;}
 }
 printf("bad=%d\n",bad); pool_stop(); return bad!=0;}
