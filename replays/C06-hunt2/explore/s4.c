#include "h.h"
static volatile int rd_cnt; static int sv[2]; static tp_udata_t u1; static int r1,r2,r3;
static void rd_cb(tp_event_p ev, tp_udata_p u){ (void)ev;(void)u; rd_cnt++; }
static void step1(void*a){ (void)a; memset(&u1,0,sizeof u1); u1.cb_func=rd_cb; u1.ident=sv[0];
  r1=tpt_ev_add_args(g_t0, TP_EV_READ, TP_F_ONESHOT,0,0,&u1);
  r2=tpt_ev_add_args(tp_thread_get(g_pool, 1) /* NULL: pool has 1 thread */, TP_EV_READ, TP_F_ONESHOT,0,0,&u1);
  r3=tpt_ev_del_args1(TP_EV_READ,&u1);
}
int main(void){ socketpair(AF_UNIX,SOCK_STREAM,0,sv); pool_start();
  on_owner(step1,NULL); printf("add=%d add(NULL tpt)=%d del=%d u1.tpt=%p\n",r1,r2,r3,(void*)u1.tpt);
  write(sv[1],"x",1); msleep(200); printf("rd_cnt=%d\n",rd_cnt);
  pool_stop(); return 0;}
