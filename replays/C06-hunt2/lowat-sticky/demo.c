/* TP_FF_RW_LOWAT is implemented with setsockopt(SO_RCVLOWAT), a property of the SOCKET, and is
 * never reset.  A later enable / a delete followed by a fresh add WITHOUT TP_FF_RW_LOWAT still
 * waits for the old low-water mark: the event that (by its fflags = 0) has to fire while any
 * data is readable stays silent.  (kqueue: NOTE_LOWAT belongs to the registration.) */
#include <sys/param.h>
#include <sys/types.h>
#include <sys/socket.h>
#include <sys/resource.h>
#include <inttypes.h>
#include <string.h>
#include <stdio.h>
#include <stdlib.h>
#include <errno.h>
#include <unistd.h>
#include <fcntl.h>
#include <pthread.h>
#include <semaphore.h>
#include <time.h>
#include "threadpool/threadpool.h"
#include "threadpool/threadpool_msg_sys.h"

static tp_p g_pool; static tpt_p g_t0;
typedef struct { void (*fn)(void*); void *arg; sem_t done; } job_t;
static void job_cb(tpt_p tpt, void *ud){ job_t *j = ud; (void)tpt; j->fn(j->arg); sem_post(&j->done); }
/* run fn(arg) on the owning worker thread and wait. */
static void on_owner(void (*fn)(void*), void *arg){ job_t j; j.fn=fn; j.arg=arg; sem_init(&j.done,0,0);
  int e = tpt_msg_send(g_t0, NULL, 0, job_cb, &j); if (e){ printf("msg_send err %d\n", e); exit(2);} sem_wait(&j.done); sem_destroy(&j.done);}
static void msleep(int ms){ struct timespec ts={ms/1000,(ms%1000)*1000000L}; nanosleep(&ts,NULL);}
static void pool_start(void){ tp_settings_t s; tp_settings_def(&s); s.threads_max=1; s.flags=0;
  if (tp_create(&s,&g_pool)) exit(2); if (tp_threads_create(g_pool,0)) exit(2); g_t0=tp_thread_get(g_pool,0);
  while(!tpt_is_running(g_t0)) msleep(1); msleep(20);}
static void pool_stop(void){ tp_shutdown(g_pool); tp_shutdown_wait(g_pool); tp_destroy(g_pool);}
#include <netinet/in.h>
#include <arpa/inet.h>
static int tcp_pair(int sv[2]){ int l=socket(AF_INET,SOCK_STREAM,0); struct sockaddr_in a; socklen_t al=sizeof a; memset(&a,0,sizeof a); a.sin_family=AF_INET; a.sin_addr.s_addr=htonl(INADDR_LOOPBACK);
 if (l<0||bind(l,(void*)&a,sizeof a)||listen(l,1)||getsockname(l,(void*)&a,&al)) return -1;
 sv[1]=socket(AF_INET,SOCK_STREAM,0); if (connect(sv[1],(void*)&a,sizeof a)) return -1; sv[0]=accept(l,NULL,NULL); close(l); return sv[0]<0?-1:0;}
static volatile int rd_cnt;
static int sv[2];
static tp_udata_t u1;
static int r1;
static void rd_cb(tp_event_p ev, tp_udata_p u) { (void)u; (void)ev; rd_cnt++; }
static void step_add_lowat(void *a) { (void)a; memset(&u1, 0, sizeof u1); u1.cb_func = rd_cb; u1.ident = (uintptr_t)sv[0];
	r1 = tpt_ev_add_args(g_t0, TP_EV_READ, TP_F_DISPATCH, TP_FF_RW_LOWAT, 100, &u1); }
static void step_enable_plain(void *a) { (void)a; r1 = tpt_ev_enable_args(1, TP_EV_READ, TP_F_DISPATCH, 0, 0, &u1); }
static void step_del(void *a) { (void)a; r1 = tpt_ev_del_args1(TP_EV_READ, &u1); }
static void step_add_plain(void *a) { (void)a; memset(&u1, 0, sizeof u1); u1.cb_func = rd_cb; u1.ident = (uintptr_t)sv[0];
	r1 = tpt_ev_add_args(g_t0, TP_EV_READ, TP_F_DISPATCH, 0, 0, &u1); }
int main(void) {
	int bad = 0, c;
	if (0 != tcp_pair(sv)) { perror("loopback tcp"); return (0); /* can not test */ }
	pool_start();
	on_owner(step_add_lowat, NULL);
	printf("add READ|DISPATCH, TP_FF_RW_LOWAT data=100 -> %d\n", r1);
	write(sv[1], "0123456789", 10);
	msleep(150);
	printf("10 bytes readable: callbacks = %d (0 expected: below the mark)\n", rd_cnt);
	on_owner(step_enable_plain, NULL);
	msleep(150); c = rd_cnt;
	printf("enable READ|DISPATCH, fflags=0 -> %d; callbacks = %d (1 expected: 10 bytes are readable)\n", r1, c);
	if (1 != c) bad++;
	on_owner(step_del, NULL);
	printf("del -> %d\n", r1);
	rd_cnt = 0;
	on_owner(step_add_plain, NULL);
	msleep(150); c = rd_cnt;
	printf("fresh add READ|DISPATCH, fflags=0, zeroed tp_udata -> %d; callbacks = %d (1 expected)\n", r1, c);
	if (1 != c) bad++;
	pool_stop();
	return (0 != bad);
}
