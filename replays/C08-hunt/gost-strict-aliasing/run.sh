#!/bin/sh
# usage: run.sh <tree>
# Builds demo.c against <tree>/include with gcc and clang at several
# optimisation levels, with the expanded and the small S-box tables.
# Exits non-zero (and prints FAIL) when any build returns a wrong block.
TREE=${1:-/tmp/hunt/C08}
DIR=$(cd "$(dirname "$0")" && pwd)
OUT=$(mktemp -d)
trap 'rm -rf "$OUT"' EXIT
rc=0
for cc in gcc clang; do
	command -v $cc >/dev/null 2>&1 || continue
	for opt in "-O0" "-O1" "-O2" "-O3" "-O2 -fno-strict-aliasing"; do
		for tbl in "" "-DGOST28147_USE_SMALL_TABLES"; do
			if ! $cc $opt $tbl -w -Wno-missing-prototypes -DLINUX -D_GNU_SOURCE -I"$TREE/include" \
			    "$DIR/demo.c" -o "$OUT/demo" 2>"$OUT/err"; then
				echo "BUILD ERROR: $cc $opt $tbl"; cat "$OUT/err"; rc=2; continue
			fi
			if "$OUT/demo" >"$OUT/log" 2>&1; then
				echo "ok   : $cc $opt $tbl"
			else
				echo "FAIL : $cc $opt $tbl"
				sed 's/^/        /' "$OUT/log"
				rc=1
			fi
		done
	done
done
[ $rc -ne 0 ] && echo "FAIL"
exit $rc
