/*
 * gost28147_blocks_encrypt/_decrypt/_mac (and the _be twins) read and write the
 * caller's buffers through GOST28147_PTR_8TO32(), a plain uint32_t* cast.
 * When the caller keeps the 64-bit block in anything that is not
 * char/uint32_t (uint64_t, a struct, uint16_t[4] ...) gcc -O2/-O3 (strict
 * aliasing is on by default) is entitled to assume the uint32_t stores do
 * not touch that object: the "encrypted" block comes back as the untouched
 * plaintext.  Same class as the ChaCha macros fixed in c7389f1.
 *
 * Every case is compared against the same call made through an unaligned
 * uint8_t copy (byte-wise path of the library, no casts).
 */
#include <sys/param.h>
#include <sys/types.h>
#include <inttypes.h>
#include <string.h>
#include <stdio.h>
#include <stdlib.h>
#include <errno.h>
#include "crypto/cipher/gost28147.h"

static gost28147_context_t ctx, ctx_be;

/* The user code under test (ordinary external functions, as they would sit
 * in an application source file): a 64-bit block kept in a uint64_t. */
__attribute__((noinline)) uint64_t
user_encrypt_u64(uint64_t v) {
	uint64_t blk = v;
	gost28147_blocks_encrypt(&ctx, (const uint8_t*)&blk, 1, (uint8_t*)&blk);
	return (blk);
}
__attribute__((noinline)) uint64_t
user_decrypt_u64(uint64_t v) {
	uint64_t blk = v;
	gost28147_blocks_decrypt(&ctx, (const uint8_t*)&blk, 1, (uint8_t*)&blk);
	return (blk);
}
__attribute__((noinline)) uint64_t
user_encrypt_be_u64(uint64_t v) {
	uint64_t blk = v;
	gost28147_blocks_encrypt_be(&ctx_be, (const uint8_t*)&blk, 1, (uint8_t*)&blk);
	return (blk);
}
/* Out of place: CTR-like use, the counter lives in a uint64_t. */
__attribute__((noinline)) uint64_t
user_ctr_u64(uint64_t *counter) {
	uint64_t gamma = 0;
	(*counter) ++;
	gost28147_blocks_encrypt(&ctx, (const uint8_t*)counter, 1, (uint8_t*)&gamma);
	return (gamma);
}
struct blk_s { uint16_t w[4]; };
__attribute__((noinline)) struct blk_s
user_encrypt_struct(struct blk_s b) {
	gost28147_blocks_encrypt(&ctx, (const uint8_t*)&b, 1, (uint8_t*)&b);
	return (b);
}

/* Reference: same library call, byte path (unaligned uint8_t buffers). */
static uint64_t
ref_u64(int op, uint64_t v) {
	uint8_t tmp[GOST28147_BLK_SIZE + 1];
	memcpy(tmp + 1, &v, 8);
	switch (op) {
	case 0: gost28147_blocks_encrypt(&ctx, tmp + 1, 1, tmp + 1); break;
	case 1: gost28147_blocks_decrypt(&ctx, tmp + 1, 1, tmp + 1); break;
	case 2: gost28147_blocks_encrypt_be(&ctx_be, tmp + 1, 1, tmp + 1); break;
	}
	memcpy(&v, tmp + 1, 8);
	return (v);
}

int
main(void) {
	int fail = 0;
	uint8_t key[GOST28147_KEY_SIZE];
	uint64_t pt = 0x0807060504030201ULL, r, e, c;
	struct blk_s sb, sr;

	for (size_t i = 0; i < sizeof(key); i ++)
		key[i] = (uint8_t)(i * 7 + 1);
	gost28147_init(key, sizeof(key), id_tc26_gost_28147_param_z_sbox, &ctx);
	gost28147_init_be(key, sizeof(key), id_tc26_gost_28147_param_z_sbox, &ctx_be);

	e = ref_u64(0, pt); r = user_encrypt_u64(pt);
	printf("encrypt    uint64_t block: got %016" PRIx64 " expected %016" PRIx64 " %s\n",
	    r, e, (r == e) ? "ok" : "FAIL");
	fail += (r != e);
	if (r == pt)
		printf("           -> the plaintext came back unencrypted\n");

	e = ref_u64(1, pt); r = user_decrypt_u64(pt);
	printf("decrypt    uint64_t block: got %016" PRIx64 " expected %016" PRIx64 " %s\n",
	    r, e, (r == e) ? "ok" : "FAIL");
	fail += (r != e);

	r = user_decrypt_u64(user_encrypt_u64(pt));
	e = ref_u64(0, pt);
	printf("dec(enc(x)) == x && enc(x) != x: %s\n",
	    (r == pt && user_encrypt_u64(pt) == e) ? "ok" : "FAIL");

	e = ref_u64(2, pt); r = user_encrypt_be_u64(pt);
	printf("encrypt_be uint64_t block: got %016" PRIx64 " expected %016" PRIx64 " %s\n",
	    r, e, (r == e) ? "ok" : "FAIL");
	fail += (r != e);

	c = pt - 1; e = ref_u64(0, pt); r = user_ctr_u64(&c);
	printf("ctr        uint64_t block: got %016" PRIx64 " expected %016" PRIx64 " %s\n",
	    r, e, (r == e) ? "ok" : "FAIL");
	fail += (r != e);

	memcpy(&sb, &pt, 8); e = ref_u64(0, pt); sr = user_encrypt_struct(sb);
	memcpy(&r, &sr, 8);
	printf("encrypt    struct   block: got %016" PRIx64 " expected %016" PRIx64 " %s\n",
	    r, e, (r == e) ? "ok" : "FAIL");
	fail += (r != e);

	printf("%s\n", fail ? "FAIL" : "PASS");
	return (fail != 0);
}
