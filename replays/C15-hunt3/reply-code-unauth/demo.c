/* radius_pkt_verify(pkt, key, pkt_req) accepts a "reply" whose code is
 * Access-Request (1) or Status-Client (13) without checking anything:
 * a one byte corruption of a signed reply, a wrong secret and a packet
 * forged without the secret all pass. */
#include <sys/param.h>
#include <sys/types.h>
#include <inttypes.h>
#include <string.h>
#include <stdio.h>
#include <errno.h>
#include "proto/radius.h"

int
main(void) {
	uint8_t req[512], rep[512], bad[512], ra[16], key[] = "shared-secret", wrong[] = "not-the-secret";
	size_t req_sz = 0, rep_sz = 0, i;
	int e, fails = 0;
	uint8_t codes[] = { RADIUS_PKT_TYPE_ACCESS_ACCEPT, RADIUS_PKT_TYPE_ACCESS_REJECT,
	    RADIUS_PKT_TYPE_ACCOUNTING_RESPONSE, RADIUS_PKT_TYPE_COA_ACK };
	uint8_t newcode[] = { RADIUS_PKT_TYPE_ACCESS_REQUEST, RADIUS_PKT_TYPE_STATUS_CLIENT };

	for (i = 0; i < 16; i ++)
		ra[i] = (uint8_t)(0x11 * i);
	/* The request the client sent. */
	e = radius_pkt_init((rad_pkt_hdr_p)req, sizeof(req), &req_sz,
	    RADIUS_PKT_TYPE_ACCESS_REQUEST, 42, ra);
	e |= radius_pkt_attr_add((rad_pkt_hdr_p)req, sizeof(req), &req_sz,
	    RADIUS_ATTR_TYPE_USER_NAME, 5, (uint8_t*)"alice", NULL);
	e |= radius_pkt_sign((rad_pkt_hdr_p)req, sizeof(req), &req_sz, key, sizeof(key) - 1, 1);
	if (0 != e) {
		printf("setup failed %d\n", e);
		return (2);
	}

	/* 1. Single byte corruption of a correctly signed reply. */
	for (i = 0; i < sizeof(codes); i ++) {
		size_t j;
		e = radius_pkt_reply_init((rad_pkt_hdr_p)rep, sizeof(rep), &rep_sz,
		    codes[i], (rad_pkt_hdr_p)req);
		e |= radius_pkt_attr_add((rad_pkt_hdr_p)rep, sizeof(rep), &rep_sz,
		    RADIUS_ATTR_TYPE_REPLY_MESSAGE, 5, (uint8_t*)"hello", NULL);
		e |= radius_pkt_sign((rad_pkt_hdr_p)rep, sizeof(rep), &rep_sz, key, sizeof(key) - 1, 0);
		if (0 != e || 0 != radius_pkt_chk((rad_pkt_hdr_p)rep, rep_sz) ||
		    0 != radius_pkt_verify((rad_pkt_hdr_p)rep, key, sizeof(key) - 1, (rad_pkt_hdr_p)req)) {
			printf("setup: signed reply code %u does not verify\n", codes[i]);
			return (2);
		}
		for (j = 0; j < sizeof(newcode); j ++) {
			memcpy(bad, rep, rep_sz);
			bad[0] = newcode[j]; /* One modified byte. */
			if (0 == radius_pkt_chk((rad_pkt_hdr_p)bad, rep_sz) &&
			    0 == radius_pkt_verify((rad_pkt_hdr_p)bad, key, sizeof(key) - 1, (rad_pkt_hdr_p)req)) {
				printf("FAIL: signed reply code %u with byte 0 changed to %u: chk = 0, verify = 0\n",
				    codes[i], newcode[j]);
				fails ++;
			}
		}
	}

	/* 2. Wrong secret. */
	memcpy(bad, rep, rep_sz);
	bad[0] = RADIUS_PKT_TYPE_STATUS_CLIENT;
	if (0 == radius_pkt_verify((rad_pkt_hdr_p)bad, wrong, sizeof(wrong) - 1, (rad_pkt_hdr_p)req)) {
		printf("FAIL: code 13 reply verifies with the wrong secret\n");
		fails ++;
	}

	/* 3. Forged from nothing: no secret used at all (what radius_client_recv_cb()
	 * would accept as the answer for query id 42: it calls radius_pkt_chk() and
	 * radius_pkt_verify() only). */
	memset(bad, 0x00, sizeof(bad));
	bad[0] = RADIUS_PKT_TYPE_STATUS_CLIENT;
	bad[1] = 42;
	bad[2] = 0; bad[3] = 20 + 7;
	memset(bad + 4, 0xEE, 16); /* Any authenticator. */
	bad[20] = RADIUS_ATTR_TYPE_REPLY_MESSAGE; bad[21] = 7; memcpy(bad + 22, "owned", 5);
	if (0 == radius_pkt_chk((rad_pkt_hdr_p)bad, 27) &&
	    0 == radius_pkt_verify((rad_pkt_hdr_p)bad, key, sizeof(key) - 1, (rad_pkt_hdr_p)req)) {
		printf("FAIL: packet forged without the secret (code 13) passes radius_pkt_chk() and radius_pkt_verify() as reply\n");
		fails ++;
	}

	if (0 == fails) {
		printf("OK: replies with a request code are rejected\n");
		return (0);
	}
	return (1);
}
