#!/bin/sh
# usage: run.sh <tree>
T="${1:-/tmp/hunt/C15}"
D="$(cd "$(dirname "$0")" && pwd)"
CC="${CC:-clang}"
$CC -g -O1 -fsanitize=address,undefined -fno-sanitize-recover=undefined \
  -DHAVE_ACCEPT4 -DHAVE_EXPLICIT_BZERO -DHAVE_MEMMEM -DHAVE_MEMRCHR -DHAVE_PIPE2 \
  -DHAVE_PTHREAD_SETNAME_NP -DHAVE_REALLOCARRAY -DHAVE_SOCK_CLOEXEC -DHAVE_SOCK_NONBLOCK \
  -DHAVE_STRNCASECMP -DLINUX -D_GNU_SOURCE -D__USE_GNU=1 -w \
  -I"$T/include" "$D/demo.c" -o "$D/demo.bin" || exit 3
"$D/demo.bin"
