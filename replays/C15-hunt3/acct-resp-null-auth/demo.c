/* radius_pkt_init(RADIUS_PKT_TYPE_ACCOUNTING_RESPONSE, authenticator = NULL)
 * is accepted (every other reply code answers EINVAL), radius_pkt_sign()
 * then "signs" the packet over 16 zero bytes instead of the Request
 * Authenticator (RFC 2866 ch. 3): success is reported, but the Response
 * Authenticator is not the RFC value and does not verify. */
#include <sys/param.h>
#include <sys/types.h>
#include <inttypes.h>
#include <string.h>
#include <stdio.h>
#include <errno.h>
#include "proto/radius.h"

int
main(void) {
	uint8_t req[512], rep[512], ref[512], key[] = "shared-secret", exp[16];
	size_t req_sz = 0, rep_sz = 0, ref_sz = 0;
	int e, e_init, e_sign, e_ver, fails = 0;
	uint32_t v = htonl(RADIUS_A_T_ACCT_STATUS_START);
	md5_ctx_t ctx;

	e = radius_pkt_init((rad_pkt_hdr_p)req, sizeof(req), &req_sz,
	    RADIUS_PKT_TYPE_ACCOUNTING_REQUEST, 9, NULL);
	e |= radius_pkt_attr_add_uint32((rad_pkt_hdr_p)req, sizeof(req), &req_sz,
	    RADIUS_ATTR_TYPE_ACCT_STATUS_TYPE, v, NULL);
	e |= radius_pkt_attr_add((rad_pkt_hdr_p)req, sizeof(req), &req_sz,
	    RADIUS_ATTR_TYPE_ACCT_SESSION_ID, 8, (uint8_t*)"sess0001", NULL);
	e |= radius_pkt_sign((rad_pkt_hdr_p)req, sizeof(req), &req_sz, key, sizeof(key) - 1, 0);
	if (0 != e) {
		printf("setup failed %d\n", e);
		return (2);
	}
	/* Other reply codes demand the request authenticator. */
	e = radius_pkt_init((rad_pkt_hdr_p)rep, sizeof(rep), &rep_sz,
	    RADIUS_PKT_TYPE_ACCESS_ACCEPT, 9, NULL);
	printf("radius_pkt_init(Access-Accept, NULL) = %d (EINVAL = %d)\n", e, EINVAL);

	e_init = radius_pkt_init((rad_pkt_hdr_p)rep, sizeof(rep), &rep_sz,
	    RADIUS_PKT_TYPE_ACCOUNTING_RESPONSE, 9, NULL);
	e_sign = radius_pkt_sign((rad_pkt_hdr_p)rep, sizeof(rep), &rep_sz, key, sizeof(key) - 1, 0);
	printf("radius_pkt_init(Accounting-Response, NULL) = %d, radius_pkt_sign() = %d\n", e_init, e_sign);
	if (0 != e_init || 0 != e_sign) {
		printf("OK: refused\n");
		return (0);
	}
	/* RFC 2866: MD5(Code + Id + Length + RequestAuth + Attributes + Secret). */
	md5_init(&ctx);
	md5_update(&ctx, rep, 4);
	md5_update(&ctx, ((rad_pkt_hdr_p)req)->authenticator, 16);
	md5_update(&ctx, rep + 20, rep_sz - 20);
	md5_update(&ctx, key, sizeof(key) - 1);
	md5_final(&ctx, exp);
	if (0 != memcmp(exp, ((rad_pkt_hdr_p)rep)->authenticator, 16)) {
		printf("FAIL: sign returned 0 but the Response Authenticator is not the RFC 2866 value\n");
		fails ++;
	}
	e_ver = radius_pkt_verify((rad_pkt_hdr_p)rep, key, sizeof(key) - 1, (rad_pkt_hdr_p)req);
	if (0 != e_ver) {
		printf("FAIL: packet built and signed without an error does not verify against its request: %d (EBADMSG = %d)\n",
		    e_ver, EBADMSG);
		fails ++;
	}
	/* Reference: the same through radius_pkt_reply_init(). */
	radius_pkt_reply_init((rad_pkt_hdr_p)ref, sizeof(ref), &ref_sz,
	    RADIUS_PKT_TYPE_ACCOUNTING_RESPONSE, (rad_pkt_hdr_p)req);
	radius_pkt_sign((rad_pkt_hdr_p)ref, sizeof(ref), &ref_sz, key, sizeof(key) - 1, 0);
	printf("reference via radius_pkt_reply_init(): verify = %d, RFC value %s\n",
	    radius_pkt_verify((rad_pkt_hdr_p)ref, key, sizeof(key) - 1, (rad_pkt_hdr_p)req),
	    (0 == memcmp(exp, ((rad_pkt_hdr_p)ref)->authenticator, 16)) ? "matches" : "differs");

	return ((0 != fails) ? 1 : 0);
}
