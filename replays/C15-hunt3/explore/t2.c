#include <sys/param.h>
#include <sys/types.h>
#include <inttypes.h>
#include <string.h>
#include <stdio.h>
#include <stdlib.h>
#include <errno.h>
#include "proto/dns.h"
static void hex(const char *tag, const uint8_t *p, size_t n){ printf("%s ", tag); for(size_t i=0;i<n;i++) printf("%02x", p[i]); printf("\n"); }
static uint32_t rs=12345; static uint32_t rnd(void){ rs = rs*1103515245u+12345u; return (rs>>8); }
static size_t mkname(uint8_t *n, size_t maxlen){ /* 1..maxlen */
	size_t target = 1 + rnd()%maxlen, len=0;
	for(;;){
		size_t l = 1 + rnd()% ((rnd()%4==0)?63:12);
		size_t need = l + (len?1:0);
		if (len + need > target) { if (len==0){ l = target>63?63:target; } else break; }
		if (len) n[len++]='.';
		for (size_t i=0;i<l;i++) n[len++]=(uint8_t)("abcdefghijklmnopqrstuvwxyz0123456789-"[rnd()%37]);
		if (len>=target) break;
	}
	return len;
}
int main(void){
	int fails=0;
	for (int iter=0; iter<20000; iter++){
		size_t cap = 12 + rnd()% ((iter&1)?600:80);
		uint8_t *buf = malloc(cap); memset(buf,0xAA,cap);
		dns_hdr_p h=(dns_hdr_p)buf; size_t msz=0;
		if (dns_hdr_create(htons((uint16_t)iter), 0x0001, h, cap, &msz)) { free(buf); continue; }
		printf("CASE %d cap=%zu\n", iter, cap);
		int nq = rnd()%3, nr = rnd()%6, sect;
		struct { uint8_t n[256]; size_t nl; uint16_t t,c; uint32_t ttl; uint16_t dl; uint8_t d[600]; int isq; int sect;} recs[16]; int nrec=0;
		for (int q=0;q<nq;q++){
			uint8_t n[256]; size_t nl = (rnd()%10==0)?0:mkname(n,253); uint16_t t=(uint16_t)rnd(), c=(uint16_t)rnd(); size_t nsz=0xdeadbeef;
			int e = dns_msg_question_add(h, msz, cap, 0, n, nl, t, c, &nsz);
			size_t need = msz + (nl?nl+2:1) + 4;
			if (e==0){ if (nsz!=need || need>cap){printf("FAIL q size %zu need %zu cap %zu\n", nsz, need, cap); fails++;} msz=nsz; memcpy(recs[nrec].n,n,nl); recs[nrec].nl=nl; recs[nrec].t=t; recs[nrec].c=c; recs[nrec].isq=1; nrec++;
				printf("Q %u %u ", t, c); hex("N", n, nl); }
			else if (e==EOVERFLOW){ if (need<=cap){printf("FAIL q overflow but fits need %zu cap %zu\n", need, cap); fails++;} if (nsz!=need){printf("FAIL q ovf size %zu need %zu\n", nsz, need); fails++;} }
			else { printf("FAIL q err %d\n", e); fails++; }
		}
		for (int r=0;r<nr;r++){
			uint8_t n[256]; size_t nl = (rnd()%10==0)?0:mkname(n,253); uint16_t t=(uint16_t)rnd(), c=(uint16_t)rnd(); uint32_t ttl = rnd()<<8 ^ rnd(); 
			if (t==41) t=42;
			uint16_t dl = (uint16_t)(rnd()% ((rnd()%3)?20:500)); uint8_t d[600]; for (int i=0;i<dl;i++) d[i]=(uint8_t)rnd();
			size_t nsz=0xdeadbeef; sect = (r<2)?0:((r<4)?1:2);
			int e = dns_msg_rr_add(h, msz, cap, 0, n, nl, t, c, ttl, dl, dl?d:NULL, &nsz);
			size_t need = msz + (nl?nl+2:1) + 10 + dl;
			if (e==0){ if (nsz!=need || need>cap){printf("FAIL rr size %zu need %zu cap %zu\n", nsz, need, cap); fails++;} msz=nsz;
				if (sect==0) dns_hdr_an_inc(h,1); else if (sect==1) dns_hdr_ns_inc(h,1); else dns_hdr_ar_inc(h,1);
				memcpy(recs[nrec].n,n,nl); recs[nrec].nl=nl; recs[nrec].t=t; recs[nrec].c=c; recs[nrec].ttl=ttl; recs[nrec].dl=dl; memcpy(recs[nrec].d,d,dl); recs[nrec].isq=0; recs[nrec].sect=sect; nrec++;
				printf("R %d %u %u %u ", sect, t, c, ttl); hex("N", n, nl); hex("D", d, dl); }
			else if (e==EOVERFLOW){ if (need<=cap){printf("FAIL rr overflow but fits need %zu cap %zu\n", need, cap); fails++;} if (nsz!=need){printf("FAIL rr ovf size %zu need %zu\n", nsz, need); fails++;} }
			else { printf("FAIL rr err %d\n", e); fails++; }
		}
		if (rnd()%2){
			uint16_t dl = (uint16_t)(rnd()%12); uint8_t d[16]; for (int i=0;i<dl;i++) d[i]=(uint8_t)rnd();
			uint16_t ups=(uint16_t)rnd(); uint8_t ver=(uint8_t)rnd(), exr=(uint8_t)rnd(); uint16_t fl = (rnd()&1)?htons(0x8000):0; size_t nsz=0;
			int e = dns_msg_optrr_add(h, msz, cap, ups, ver, exr, fl, dl, dl?d:NULL, &nsz);
			size_t need = msz + 11 + dl;
			if (e==0){ if (nsz!=need||need>cap){printf("FAIL opt size\n"); fails++;} msz=nsz; dns_hdr_ar_inc(h,1); printf("O %u %u %u %u ", ups, exr, ver, ntohs(fl)); hex("D", d, dl);
				recs[nrec].nl=0; recs[nrec].t=41; recs[nrec].c=ups; recs[nrec].ttl=0; recs[nrec].dl=dl; memcpy(recs[nrec].d,d,dl); recs[nrec].isq=0; nrec++; }
			else if (e==EOVERFLOW){ if (need<=cap){printf("FAIL opt ovf but fits\n"); fails++;} }
			else {printf("FAIL opt err %d\n", e); fails++;}
		}
		hex("MSG", buf, msz);
		/* parse back from an exact-size copy */
		uint8_t *m2 = malloc(msz); memcpy(m2, buf, msz); dns_hdr_p h2=(dns_hdr_p)m2;
		size_t qd,an,ns,ar,rrc,tot=0;
		int e = dns_msg_info_get(h2, msz, &qd,&an,&ns,&ar,&rrc,&tot);
		if (e || tot!=msz || dns_msg_validate(h2,msz)) { printf("FAIL info_get %d tot %zu msz %zu\n", e, tot, msz); fails++; }
		else {
			size_t off = qd;
			for (int i=0;i<nrec;i++){
				uint8_t nm[256]; size_t nl=sizeof(nm), s=0; uint16_t t,c,dl; uint32_t ttl; void *dp;
				/* exact-size name buffer */
				size_t exact = recs[i].nl+1; uint8_t *nmx = malloc(exact); size_t nlx = exact;
				if (recs[i].isq){
					e = dns_msg_question_get_data(h2, msz, off, nm, &nl, &t, &c, &s);
					if (e || nl!=recs[i].nl || memcmp(nm,recs[i].n,nl) || nm[nl]!=0 || t!=recs[i].t || c!=recs[i].c){printf("FAIL q parse e=%d nl=%zu want %zu\n", e, nl, recs[i].nl); fails++;}
					e = dns_msg_question_get_data(h2, msz, off, nmx, &nlx, &t, &c, &s);
					if (e || nlx!=recs[i].nl || memcmp(nmx,recs[i].n,nlx)) {printf("FAIL q parse exact e=%d nl=%zu want %zu\n", e, nlx, recs[i].nl); fails++;}
				} else {
					e = dns_msg_rr_get_data(h2, msz, off, nm, &nl, &t, &c, &ttl, &dl, &dp, &s);
					if (e || nl!=recs[i].nl || memcmp(nm,recs[i].n,nl) || nm[nl]!=0 || t!=recs[i].t || c!=recs[i].c || dl!=recs[i].dl || memcmp(dp,recs[i].d,dl) || (t!=41 && ttl!=recs[i].ttl)){printf("FAIL rr parse e=%d\n", e); fails++;}
					e = dns_msg_rr_get_data(h2, msz, off, nmx, &nlx, &t, &c, &ttl, &dl, &dp, &s);
					if (e || nlx!=recs[i].nl || memcmp(nmx,recs[i].n,nlx)) {printf("FAIL rr parse exact e=%d nl=%zu want %zu\n", e, nlx, recs[i].nl); fails++;}
					if (exact>1){ size_t nls = exact-1; uint8_t *nms = malloc(nls); e = dns_msg_rr_get_data(h2, msz, off, nms, &nls, NULL,NULL,NULL,NULL,NULL,NULL); if (e!=EOVERFLOW || nls!=exact){printf("FAIL short name buf e=%d nls=%zu exact=%zu\n", e, nls, exact); fails++;} free(nms);}
				}
				free(nmx);
				off += s;
			}
			if (off!=msz){printf("FAIL walk end\n"); fails++;}
		}
		free(m2); free(buf);
	}
	printf("fails %d\n", fails);
	return fails?1:0;
}
