#include <sys/param.h>
#include <sys/types.h>
#include <inttypes.h>
#include <string.h>
#include <stdio.h>
#include <stdlib.h>
#include <errno.h>
#include "proto/radius.h"
int main(void){
	uint8_t req[4096], rep[4096], buf[4096], ra[16]={1,2,3,4,5,6,7,8,9,10,11,12,13,14,15,16}; size_t sz, rsz;
	/* NULL key */
	radius_pkt_init((rad_pkt_hdr_p)req, sizeof(req), &sz, 1, 7, ra);
	radius_pkt_attr_add((rad_pkt_hdr_p)req, sizeof(req), &sz, 1, 5, (uint8_t*)"alice", NULL);
	radius_pkt_attr_add((rad_pkt_hdr_p)req, sizeof(req), &sz, 2, 0, NULL, NULL);
	int e = radius_pkt_sign((rad_pkt_hdr_p)req, sizeof(req), &sz, NULL, 0, 1);
	printf("sign NULL key %d\n", e);
	e = radius_pkt_verify((rad_pkt_hdr_p)req, NULL, 0, NULL);
	printf("verify NULL key %d\n", e);
	uint8_t *key=(uint8_t*)"secret"; size_t kl=6;
	uint8_t codes[]={2,3,5,11,41,42,44,45};
	for (int ma=0;ma<2;ma++) for (unsigned c=0;c<sizeof(codes);c++){
		radius_pkt_reply_init((rad_pkt_hdr_p)rep, sizeof(rep), &rsz, codes[c], (rad_pkt_hdr_p)req);
		radius_pkt_attr_add((rad_pkt_hdr_p)rep, sizeof(rep), &rsz, 18, 5, (uint8_t*)"hello", NULL);
		uint8_t vsa[]={0,0,0,9,1,6,'a','b','c','d'};
		radius_pkt_attr_add((rad_pkt_hdr_p)rep, sizeof(rep), &rsz, 26, sizeof(vsa), vsa, NULL);
		e = radius_pkt_sign((rad_pkt_hdr_p)rep, sizeof(rep), &rsz, key, kl, ma);
		if (e) printf("sign err %d\n", e);
		for (size_t b=0;b<rsz;b++) for (int m=1;m<256;m++){ memcpy(buf, rep, rsz); buf[b]^=(uint8_t)m; if (0==radius_pkt_chk((rad_pkt_hdr_p)buf, rsz) && 0==radius_pkt_verify((rad_pkt_hdr_p)buf,key,kl,(rad_pkt_hdr_p)req)) { printf("SURVIVE code %d ma %d byte %zu -> %02x\n", codes[c], ma, b, buf[b]);} }
	}
	return 0;
}
