import sys, struct
bad=0
def encname(n):
    if not n: return b'\0'
    out=b''
    for l in n.split(b'.'):
        assert 1<=len(l)<=63
        out+=bytes([len(l)])+l
    return out+b'\0'
cur=None; body=b''; cnt=[0,0,0,0]; pend=None
def fin(msg):
    global bad
    hdr = struct.pack('>H',cur&0xffff)+ b'\x01\x00' + struct.pack('>HHHH',*cnt)
    exp = hdr+body
    if exp!=msg:
        bad+=1; print("MISMATCH case",cur); print(exp.hex()); print(msg.hex())
for ln in open(sys.argv[1]):
    p=ln.rstrip('\n').split(' ')
    if p[0]=='CASE': cur=int(p[1]); body=b''; cnt=[0,0,0,0]
    elif p[0]=='Q':
        n=bytes.fromhex(p[4]) if len(p)>4 else b''
        body+=encname(n)+struct.pack('>HH',int(p[1]),int(p[2])); cnt[0]+=1
    elif p[0]=='R':
        pend=(int(p[1]),int(p[2]),int(p[3]),int(p[4]),bytes.fromhex(p[6]) if len(p)>6 else b'')
    elif p[0]=='D' and pend is not None:
        d=bytes.fromhex(p[1]) if len(p)>1 else b''
        s,t,c,ttl,n=pend; pend=None
        body+=encname(n)+struct.pack('>HHIH',t,c,ttl,len(d))+d; cnt[1+s]+=1
    elif p[0]=='O':
        d=bytes.fromhex(p[6]) if len(p)>6 else b''
        body+=b'\0'+struct.pack('>HHBBHH',41,int(p[1]),int(p[2]),int(p[3]),int(p[4]),len(d))+d; cnt[3]+=1
    elif p[0]=='MSG': fin(bytes.fromhex(p[1]))
    elif p[0] in('FAIL','fails'): print(ln.strip())
print("py bad",bad)
