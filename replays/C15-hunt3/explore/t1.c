#include <sys/param.h>
#include <sys/types.h>
#include <inttypes.h>
#include <string.h>
#include <stdio.h>
#include <stdlib.h>
#include <errno.h>
#include "proto/radius.h"

static void hex(const char *tag, const uint8_t *p, size_t n){ printf("%s ", tag); for(size_t i=0;i<n;i++) printf("%02x", p[i]); printf("\n"); }

int main(void){
	uint8_t buf[4096], req[4096], key[300], pw[128], ra[16];
	size_t sz, klens[] = {0,1,16,55,56,63,64,65,100,200};
	int fails = 0;
	printf("table %zu\n", sizeof(rad_attr_params)/sizeof(rad_attr_params[0]));
	for (size_t i=0;i<sizeof(key);i++) key[i]=(uint8_t)(i*7+3);
	for (size_t i=0;i<sizeof(pw);i++) pw[i]=(uint8_t)('a'+(i%26));
	for (size_t i=0;i<16;i++) ra[i]=(uint8_t)(0xf0-i*3);
	for (size_t ki=0; ki<sizeof(klens)/sizeof(klens[0]); ki++) {
	  size_t kl = klens[ki];
	  for (size_t pl=0; pl<=128; pl+= (pl<34?1:13)) {
		memset(req,0xAA,sizeof(req));
		int e = radius_pkt_init((rad_pkt_hdr_p)req, sizeof(req), &sz, RADIUS_PKT_TYPE_ACCESS_REQUEST, 7, ra);
		e |= radius_pkt_attr_add((rad_pkt_hdr_p)req, sizeof(req), &sz, RADIUS_ATTR_TYPE_USER_NAME, 5, (uint8_t*)"alice", NULL);
		e |= radius_pkt_attr_add((rad_pkt_hdr_p)req, sizeof(req), &sz, RADIUS_ATTR_TYPE_USER_PASSWORD, (uint8_t)pl, pw, NULL);
		uint32_t v = htonl(1234);
		e |= radius_pkt_attr_add_uint32((rad_pkt_hdr_p)req, sizeof(req), &sz, RADIUS_ATTR_TYPE_NAS_PORT, v, NULL);
		if (e) { printf("build err %d\n", e); fails++; continue; }
		e = radius_pkt_sign((rad_pkt_hdr_p)req, sizeof(req), &sz, key, kl, 1);
		if (e) { printf("sign err %d\n", e); fails++; continue; }
		printf("CASE AR kl=%zu pl=%zu\n", kl, pl);
		hex("KEY", key, kl); hex("PW", pw, pl); hex("PKT", req, sz);
		e = radius_pkt_chk((rad_pkt_hdr_p)req, sz);
		if (e) { printf("FAIL chk %d\n", e); fails++; }
		memcpy(buf, req, sz);
		e = radius_pkt_verify((rad_pkt_hdr_p)buf, key, kl, NULL);
		if (e) { printf("FAIL verify %d\n", e); fails++; }
		size_t off=0; uint8_t *d; size_t dl; 
		if (0==radius_pkt_attr_find((rad_pkt_hdr_p)buf,0,RADIUS_ATTR_TYPE_USER_PASSWORD,&off)) {
			radius_pkt_attr_get_data_ptr((rad_pkt_hdr_p)buf, off, NULL, &d, &dl);
			if (dl!=pl || memcmp(d,pw,pl)) { printf("FAIL pw roundtrip kl=%zu pl=%zu got %zu\n", kl,pl,dl); fails++; }
		} else { printf("FAIL nopw\n"); fails++; }
		/* wrong secret */
		if (kl) { memcpy(buf, req, sz); key[0]^=1; e = radius_pkt_verify((rad_pkt_hdr_p)buf, key, kl, NULL); key[0]^=1; if (!e){printf("FAIL wrong secret accepted\n"); fails++;} }
		/* corruptions */
		if (pl==5 && kl==16) for (size_t b=0;b<sz;b++) for (int m=1;m<256;m<<=1){ memcpy(buf, req, sz); buf[b]^=(uint8_t)m; if (0==radius_pkt_chk((rad_pkt_hdr_p)buf, sz) && 0==radius_pkt_verify((rad_pkt_hdr_p)buf,key,kl,NULL)) { printf("SURVIVE AR byte %zu mask %02x\n", b, m);} }
		/* replies */
		uint8_t codes[] = {2,3,11};
		for (int c=0;c<3;c++){
			uint8_t rep[4096]; size_t rsz;
			e = radius_pkt_reply_init((rad_pkt_hdr_p)rep, sizeof(rep), &rsz, codes[c], (rad_pkt_hdr_p)req);
			e |= radius_pkt_attr_add((rad_pkt_hdr_p)rep, sizeof(rep), &rsz, RADIUS_ATTR_TYPE_REPLY_MESSAGE, 5, (uint8_t*)"hello", NULL);
			for (int withma=0; withma<2; withma++){
				uint8_t r2[4096]; memcpy(r2,rep,rsz); size_t r2sz=rsz;
				e = radius_pkt_sign((rad_pkt_hdr_p)r2, sizeof(r2), &r2sz, key, kl, withma);
				if (e){printf("FAIL reply sign %d\n", e); fails++; continue;}
				printf("CASE REPLY kl=%zu code=%d ma=%d\n", kl, codes[c], withma);
				hex("KEY", key, kl); hex("REQAUTH", ((rad_pkt_hdr_p)req)->authenticator, 16); hex("PKT", r2, r2sz);
				if (radius_pkt_chk((rad_pkt_hdr_p)r2, r2sz) || radius_pkt_verify((rad_pkt_hdr_p)r2, key, kl, (rad_pkt_hdr_p)req)) { printf("FAIL reply verify\n"); fails++; }
				if (pl==5 && kl==16) for (size_t b=0;b<r2sz;b++) for (int m=1;m<256;m<<=1){ memcpy(buf, r2, r2sz); buf[b]^=(uint8_t)m; if (0==radius_pkt_chk((rad_pkt_hdr_p)buf, r2sz) && 0==radius_pkt_verify((rad_pkt_hdr_p)buf,key,kl,(rad_pkt_hdr_p)req)) { printf("SURVIVE REPLY code %d ma %d byte %zu mask %02x\n", codes[c], withma, b, m);} }
			}
		}
	  }
	  /* accounting etc */
	  uint8_t rc[] = {4,40,43}; uint8_t ac[]={5,41,44};
	  for (int c=0;c<3;c++) for (int withma=0; withma<2; withma++){
		int e = radius_pkt_init((rad_pkt_hdr_p)req, sizeof(req), &sz, rc[c], 9, NULL);
		uint32_t v = htonl(1);
		e |= radius_pkt_attr_add_uint32((rad_pkt_hdr_p)req, sizeof(req), &sz, RADIUS_ATTR_TYPE_ACCT_STATUS_TYPE, v, NULL);
		e |= radius_pkt_attr_add((rad_pkt_hdr_p)req, sizeof(req), &sz, RADIUS_ATTR_TYPE_ACCT_SESSION_ID, 8, (uint8_t*)"sess0001", NULL);
		e |= radius_pkt_sign((rad_pkt_hdr_p)req, sizeof(req), &sz, key, kl, withma);
		if (e){printf("FAIL acct build %d\n", e); fails++; continue;}
		printf("CASE ACCT kl=%zu code=%d ma=%d\n", kl, rc[c], withma);
		hex("KEY", key, kl); hex("PKT", req, sz);
		if (radius_pkt_chk((rad_pkt_hdr_p)req, sz) || radius_pkt_verify((rad_pkt_hdr_p)req, key, kl, NULL)) { printf("FAIL acct verify\n"); fails++; }
		if (kl==16) for (size_t b=0;b<sz;b++) for (int m=1;m<256;m<<=1){ memcpy(buf, req, sz); buf[b]^=(uint8_t)m; if (0==radius_pkt_chk((rad_pkt_hdr_p)buf, sz) && 0==radius_pkt_verify((rad_pkt_hdr_p)buf,key,kl,NULL)) { printf("SURVIVE ACCT code %d ma %d byte %zu mask %02x\n", rc[c], withma, b, m);} }
		uint8_t rep[4096]; size_t rsz;
		e = radius_pkt_reply_init((rad_pkt_hdr_p)rep, sizeof(rep), &rsz, ac[c], (rad_pkt_hdr_p)req);
		e |= radius_pkt_sign((rad_pkt_hdr_p)rep, sizeof(rep), &rsz, key, kl, withma);
		if (e){printf("FAIL acct reply build %d\n", e); fails++; continue;}
		printf("CASE REPLY kl=%zu code=%d ma=%d\n", kl, ac[c], withma);
		hex("KEY", key, kl); hex("REQAUTH", ((rad_pkt_hdr_p)req)->authenticator, 16); hex("PKT", rep, rsz);
		if (radius_pkt_chk((rad_pkt_hdr_p)rep, rsz) || radius_pkt_verify((rad_pkt_hdr_p)rep, key, kl, (rad_pkt_hdr_p)req)) { printf("FAIL acct reply verify\n"); fails++; }
		if (kl==16) for (size_t b=0;b<rsz;b++) for (int m=1;m<256;m<<=1){ memcpy(buf, rep, rsz); buf[b]^=(uint8_t)m; if (0==radius_pkt_chk((rad_pkt_hdr_p)buf, rsz) && 0==radius_pkt_verify((rad_pkt_hdr_p)buf,key,kl,(rad_pkt_hdr_p)req)) { printf("SURVIVE ACCTREPLY code %d ma %d byte %zu mask %02x\n", ac[c], withma, b, m);} }
	  }
	}
	printf("fails %d\n", fails);
	return fails?1:0;
}
