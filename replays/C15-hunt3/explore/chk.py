import sys, hashlib, hmac
lines = open(sys.argv[1]).read().split('\n')
bad = 0
i = 0
cur = None
d = {}
def check(kind, d):
    global bad
    key = bytes.fromhex(d.get('KEY',''))
    pkt = bytearray(bytes.fromhex(d['PKT']))
    code = pkt[0]; ln = int.from_bytes(pkt[2:4],'big')
    assert ln == len(pkt), (ln, len(pkt))
    auth = bytes(pkt[4:20])
    # parse attrs
    attrs = []; o = 20
    while o < ln:
        t = pkt[o]; l = pkt[o+1]; attrs.append((t, o, l)); o += l
    assert o == ln
    reqauth = bytes.fromhex(d['REQAUTH']) if 'REQAUTH' in d else None
    # message authenticator
    for (t,o,l) in attrs:
        if t == 80:
            p2 = bytearray(pkt)
            ma = bytes(p2[o+2:o+18])
            p2[o+2:o+18] = bytes(16)
            if code in (1,12): pass
            elif code in (4,40,43): p2[4:20] = bytes(16)
            else: p2[4:20] = reqauth
            exp = hmac.new(key, bytes(p2), hashlib.md5).digest()
            if exp != ma:
                print("BAD MA", kind, d.get('hdr')); bad += 1
    if code in (4,40,43):
        exp = hashlib.md5(bytes(pkt[0:4]) + bytes(16) + bytes(pkt[20:]) + key).digest()
        if exp != auth: print("BAD REQ AUTH", d.get('hdr')); bad += 1
    elif code not in (1,12):
        exp = hashlib.md5(bytes(pkt[0:4]) + reqauth + bytes(pkt[20:]) + key).digest()
        if exp != auth: print("BAD RESP AUTH", d.get('hdr')); bad += 1
    if code == 1 and 'PW' in d:
        pw = bytes.fromhex(d['PW'])
        for (t,o,l) in attrs:
            if t == 2:
                c = bytes(pkt[o+2:o+l])
                p = pw + bytes((-len(pw)) % 16) if len(pw) else bytes(16)
                out = b''; prev = auth
                for j in range(0, len(p), 16):
                    b = hashlib.md5(key + prev).digest()
                    blk = bytes(x ^ y for x, y in zip(p[j:j+16], b))
                    out += blk; prev = blk
                if out != c: print("BAD PW", d.get('hdr')); bad += 1
for ln in lines:
    if ln.startswith('CASE'):
        if d: check(cur, d)
        d = {'hdr': ln}; cur = ln
    elif ln.split(' ')[0] in ('KEY','PW','PKT','REQAUTH'):
        parts = ln.split(' ')
        d[parts[0]] = parts[1] if len(parts) > 1 else ''
    elif ln.startswith('FAIL') or ln.startswith('SURVIVE') or ln.startswith('fails') or ln.startswith('table'):
        print(ln)
if d: check(cur, d)
print("python bad", bad)
