/* C19: for a reader two or more rounds behind r_buf_rpos_check() reports
 *     drop_size = size * (r_buf->round_num - rpos->round_num)
 * and ignores where in their rounds reader and writer stand.  A reader at the START of
 * round 0 with the writer at the END of round 2 has lost three full rings, reported: two.
 * (The one-round-behind branch does add the in-round distance.) */
#include <sys/param.h>
#include <sys/types.h>
#include <inttypes.h>
#include <string.h>
#include <stdio.h>
#include <stdlib.h>
#include <errno.h>
#include "utils/ring_buffer.h"

int
main(void) {
	r_buf_p rb = r_buf_alloc((uintptr_t)-1, 100, 10);
	r_buf_rpos_t rpos;
	iovec_t iov[16];
	uint8_t *buf = NULL;
	size_t i, n, drop = 0, avail, written = 0, got = 0;

	r_buf_rpos_init(rb, &rpos, 0); /* Reader at stream offset 0. */
	for (i = 0; i < 30; i ++) { /* Exactly three rings of ten 10 byte blocks. */
		if (10 > r_buf_wbuf_get(rb, 10, &buf))
			return (3);
		memset(buf, (int)i, 10);
		if (0 != r_buf_wbuf_set(rb, 0, 10))
			return (3);
		written += 10;
	}
	avail = r_buf_data_avail_size(rb, &rpos, &drop);
	n = r_buf_data_get(rb, &rpos, (size_t)-1, iov, 16, NULL, &got);
	printf("written=%zu; reader (never read anything): avail=%zu got=%zu(regions %zu) reported drop=%zu; ring round=%zu iov_index=%zu, reader now round=%zu iov_index=%zu\n",
	    written, avail, got, n, drop, rb->round_num, rb->iov_index, rpos.round_num, rpos.iov_index);
	if (drop + got != written) {
		printf("FAIL: %zu bytes were skipped, the reader is told %zu: %zu bytes lost silently\n",
		    (written - got), drop, (written - got - drop));
		return (1);
	}
	return (0);
}
