/* C19 ("for all ring sizes and minimum block sizes"): r_buf_alloc() accepts
 * size < min_block_size.  Then every r_buf_wbuf_get() takes the wrap branch with
 * iov_index == 0 and stores iov_index_max = iov_index - 1 = SIZE_MAX; the reader side
 * then indexes iov[SIZE_MAX] / walks SIZE_MAX table entries. */
#include <sys/param.h>
#include <sys/types.h>
#include <inttypes.h>
#include <string.h>
#include <stdio.h>
#include <stdlib.h>
#include <errno.h>
#include "utils/ring_buffer.h"

int
main(void) {
	r_buf_p rb = r_buf_alloc((uintptr_t)-1, 5, 10);
	r_buf_rpos_t rpos;
	iovec_t iov[8];
	uint8_t *buf = NULL;
	size_t i, n, got = 0, drop = 0, avail;
	int rc = 0;

	if (NULL == rb) {
		printf("r_buf_alloc(size=5, min_block_size=10) refused - fine\n");
		return (0);
	}
	r_buf_rpos_init(rb, &rpos, 0);
	for (i = 0; i < 3; i ++) {
		n = r_buf_wbuf_get(rb, 0, &buf);
		printf("wbuf_get -> %zu, round=%zu iov_index=%zu iov_index_max=%zu\n",
		    n, rb->round_num, rb->iov_index, rb->iov_index_max);
		if (((size_t)-1) == rb->iov_index_max) {
			printf("FAIL: iov_index_max underflowed to SIZE_MAX\n");
			rc = 1;
		}
		fflush(stdout);
		avail = r_buf_data_avail_size(rb, &rpos, &drop);
		n = r_buf_data_get(rb, &rpos, (size_t)-1, iov, 8, &drop, &got);
		printf("reader: avail=%zu regions=%zu bytes=%zu (nothing was ever written)\n", avail, n, got);
		if (0 != avail || 0 != n) {
			printf("FAIL: data reported/returned from an empty ring\n");
			rc = 1;
		}
		fflush(stdout);
	}
	return (rc);
}
