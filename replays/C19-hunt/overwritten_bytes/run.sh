#!/bin/sh
# usage: run.sh <tree>   (exits non-zero / prints FAIL when the defect shows)
T="${1:-/tmp/hunt/C19}"
D="$(cd "$(dirname "$0")" && pwd)"
CF="-DHAVE_ACCEPT4 -DHAVE_EXPLICIT_BZERO -DHAVE_MEMMEM -DHAVE_MEMRCHR -DHAVE_PIPE2 -DHAVE_POSIX_SPAWN_FILE_ACTIONS_ADDCLOSEFROM_NP -DHAVE_PTHREAD_SETNAME_NP -DHAVE_REALLOCARRAY -DHAVE_SOCK_CLOEXEC -DHAVE_SOCK_NONBLOCK -DHAVE_STRNCASECMP -DLINUX -D_GNU_SOURCE -D__USE_GNU=1"
O="$(mktemp -d)"
gcc $CF -I"$T/include" -g -O1 -fsanitize=address,undefined -fno-sanitize-recover=undefined \
    "$D/demo.c" "$T/src/utils/ring_buffer.c" -o "$O/demo" || { echo "BUILD FAILED"; exit 2; }
ASAN_OPTIONS=detect_leaks=0 "$O/demo"
rc=$?
rm -rf "$O"
[ $rc -eq 0 ] && echo "PASS" || echo "FAIL (rc=$rc)"
exit $rc
