/* C19: a reader one round behind is validated by block INDEX only.
 * With blocks of different sizes the writer's new block 0 overwrites the bytes of
 * the old blocks 1..4, but the reader standing at old block 1 is still "in range"
 * (1 > iov_index 0) and gets the overwritten bytes, with drop_size == 0. */
#include <sys/param.h>
#include <sys/types.h>
#include <inttypes.h>
#include <string.h>
#include <stdio.h>
#include <stdlib.h>
#include <errno.h>
#include "utils/ring_buffer.h"

static size_t S; /* stream offset of the next byte to be written; byte value == stream offset (< 256). */

static void
wr(r_buf_p rb, size_t min_buf, size_t len) {
	uint8_t *buf = NULL;
	size_t i, n = r_buf_wbuf_get(rb, min_buf, &buf);

	if (n < len || buf < rb->buf || (buf + len) > rb->buf_max) {
		printf("unexpected: wbuf_get gave %zu\n", n);
		exit(3);
	}
	for (i = 0; i < len; i ++) {
		buf[i] = (uint8_t)(S + i);
	}
	if (0 != r_buf_wbuf_set(rb, 0, len)) {
		printf("unexpected: wbuf_set failed\n");
		exit(3);
	}
	S += len;
}

int
main(void) {
	r_buf_p rb = r_buf_alloc((uintptr_t)-1, 100, 10);
	r_buf_rpos_t rpos;
	iovec_t iov[16];
	size_t i, j, n, drop = 0, got = 0, expect, bad = 0;

	r_buf_rpos_init(rb, &rpos, 0); /* Reader joins the empty ring. */
	for (i = 0; i < 10; i ++) { /* Round 0: ten blocks of 10 bytes, stream 0..99. */
		wr(rb, 10, 10);
	}
	/* The reader takes the first block (request 11 > block size, see iovec_aggregate_ex()). */
	n = r_buf_data_get(rb, &rpos, 11, iov, 16, &drop, &got);
	if (1 != n || 10 != got || 0 != iov[0].iov_base[0] || 9 != iov[0].iov_base[9]) {
		printf("unexpected first read n=%zu got=%zu\n", n, got);
		return (3);
	}
	r_buf_rpos_inc(rb, &rpos, got);
	expect = 10; /* Next stream byte the reader must see. */

	/* The ring is full: the writer wraps and commits ONE block of 50 bytes
	 * (stream 100..149) over the old blocks 0..4. */
	wr(rb, 50, 50);
	printf("writer: round=%zu iov_index=%zu wpos=%zu; reader: round=%zu iov_index=%zu\n",
	    rb->round_num, rb->iov_index, rb->wpos, rpos.round_num, rpos.iov_index);

	printf("avail_size=%zu", r_buf_data_avail_size(rb, &rpos, &drop));
	printf(" drop=%zu\n", drop);
	n = r_buf_data_get(rb, &rpos, (size_t)-1, iov, 16, &drop, &got);
	printf("data_get: regions=%zu bytes=%zu drop=%zu\n", n, got, drop);
	if (0 != drop) {
		printf("reader was told it lost %zu bytes - fine\n", drop);
		return (0);
	}
	for (i = 0; i < n; i ++) {
		for (j = 0; j < iov[i].iov_len; j ++, expect ++) {
			if (iov[i].iov_base[j] != (uint8_t)expect) {
				if (0 == bad) {
					printf("region %zu (ring offset %td) byte %zu: got stream byte %u, expected stream byte %zu\n",
					    i, (iov[i].iov_base - rb->buf), j,
					    (unsigned)iov[i].iov_base[j], expect);
				}
				bad ++;
			}
		}
	}
	if (0 != bad) {
		printf("FAIL: %zu overwritten/out-of-order bytes handed to the reader as if in sequence, drop_size=0\n", bad);
		return (1);
	}
	printf("stream is in order\n");
	return (0);
}
