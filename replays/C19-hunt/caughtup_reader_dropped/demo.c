/* C19: r_buf_wbuf_set()/r_buf_wbuf_set2() raise iov_index_max to the index of the
 * block just written.  iov_index_max is what tells a reader of the PREVIOUS round where
 * that round ended.  A reader that had consumed everything before the wrap stands at
 * old_last + 1; as soon as the new round holds more blocks than the old one the test
 * "rpos->iov_index > iov_index_max" no longer recognises it, it falls into the
 * "slow reader" branch, is told that size + ... bytes were dropped and is moved behind
 * blocks that were never overwritten. */
#include <sys/param.h>
#include <sys/types.h>
#include <inttypes.h>
#include <string.h>
#include <stdio.h>
#include <stdlib.h>
#include <errno.h>
#include "utils/ring_buffer.h"

static size_t S;

static void
wr(r_buf_p rb, size_t min_buf, size_t len) {
	uint8_t *buf = NULL;
	size_t i, n = r_buf_wbuf_get(rb, min_buf, &buf);

	if (n < len || buf < rb->buf || (buf + len) > rb->buf_max) {
		printf("unexpected: wbuf_get gave %zu\n", n);
		exit(3);
	}
	for (i = 0; i < len; i ++) {
		buf[i] = (uint8_t)(S + i);
	}
	if (0 != r_buf_wbuf_set(rb, 0, len)) {
		printf("unexpected: wbuf_set failed\n");
		exit(3);
	}
	S += len;
}

int
main(void) {
	r_buf_p rb = r_buf_alloc((uintptr_t)-1, 100, 10);
	r_buf_rpos_t rpos;
	iovec_t iov[16];
	size_t n, drop = 0, drop1, got = 0, avail;

	r_buf_rpos_init(rb, &rpos, 0);
	wr(rb, 0, 10); /* Round 0: one block, stream 0..9. */
	n = r_buf_data_get(rb, &rpos, (size_t)-1, iov, 16, &drop, &got);
	if (1 != n || 10 != got) {
		printf("unexpected first read\n");
		return (3);
	}
	r_buf_rpos_inc(rb, &rpos, got); /* Reader has everything that was written. */

	/* Writer needs 100 contiguous bytes once -> wraps (90 left), then writes 2 x 10 bytes.
	 * 30 bytes were written into a 100 byte ring in total: nothing is overwritten. */
	wr(rb, 100, 10); /* stream 10..19, round 1, block 0 */
	wr(rb, 0, 10);   /* stream 20..29, round 1, block 1 */
	printf("writer: round=%zu iov_index=%zu iov_index_max=%zu; reader: round=%zu iov_index=%zu\n",
	    rb->round_num, rb->iov_index, rb->iov_index_max, rpos.round_num, rpos.iov_index);

	avail = r_buf_data_avail_size(rb, &rpos, &drop);
	drop1 = drop;
	printf("avail_size=%zu drop=%zu (expected avail 20, drop 0)\n", avail, drop);
	n = r_buf_data_get(rb, &rpos, (size_t)-1, iov, 16, &drop, &got);
	printf("data_get: regions=%zu bytes=%zu\n", n, got);
	if (20 != avail || 20 != got || 10 != iov[0].iov_base[0]) {
		printf("FAIL: reader that was fully caught up lost 20 bytes that are still in the ring and was told %zu bytes were dropped\n",
		    drop1);
		return (1);
	}
	return (0);
}
