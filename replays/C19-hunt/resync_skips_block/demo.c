/* C19: every resynchronisation in r_buf_rpos_check() puts the reader at
 * r_buf->iov_index + 1.  That is right only while iov[iov_index] is a committed block.
 * When iov[iov_index] is the (still empty) slot the NEXT block goes into - always the
 * case with the r_buf_wbuf_set2() flow, and between r_buf_wbuf_get() and
 * r_buf_wbuf_set() in the other flow - the reader is placed BEHIND that slot and never
 * receives the block that is committed into it.  The block is not part of the reported
 * drop size either (its length was 0 when the amount was computed): silent loss. */
#include <sys/param.h>
#include <sys/types.h>
#include <inttypes.h>
#include <string.h>
#include <stdio.h>
#include <stdlib.h>
#include <errno.h>
#include "utils/ring_buffer.h"

static size_t S; /* Stream offset, byte value == stream offset & 0xff. */

static void
fill(uint8_t *buf, size_t len) {
	size_t i;

	for (i = 0; i < len; i ++) {
		buf[i] = (uint8_t)(S + i);
	}
	S += len;
}

static void
wr_set2(r_buf_p rb, size_t len) {
	uint8_t *buf = NULL;
	size_t n = r_buf_wbuf_get(rb, len, &buf);

	if (n < len || buf < rb->buf || (buf + len) > rb->buf_max) {
		printf("unexpected: wbuf_get gave %zu\n", n);
		exit(3);
	}
	fill(buf, len);
	if (0 != r_buf_wbuf_set2(rb, buf, len, NULL)) {
		printf("unexpected: wbuf_set2 failed\n");
		exit(3);
	}
}

static int
scenario(int use_set2) {
	r_buf_p rb = r_buf_alloc((uintptr_t)-1, 100, 10);
	r_buf_rpos_t rpos;
	iovec_t iov[16];
	uint8_t *buf = NULL;
	size_t i, n, drop = 0, got = 0, avail, pos, total_drop;

	S = 0;
	printf("--- %s flow\n", (use_set2 ? "wbuf_get + wbuf_set2" : "wbuf_get + [reader polls] + wbuf_set"));
	r_buf_rpos_init(rb, &rpos, 0); /* Reader position: stream offset 0. */
	pos = 0;
	/* 15 blocks of 10 bytes into a ring of 100: the idle reader is overrun. */
	for (i = 0; i < 15; i ++) {
		if (use_set2) {
			wr_set2(rb, 10);
		} else {
			n = r_buf_wbuf_get(rb, 10, &buf);
			fill(buf, 10);
			r_buf_wbuf_set(rb, 0, 10);
		}
	}
	if (!use_set2) { /* Writer asks for the next buffer, reader is polled before the commit. */
		n = r_buf_wbuf_get(rb, 10, &buf);
	}
	avail = r_buf_data_avail_size(rb, &rpos, &drop);
	total_drop = drop;
	printf("stream written so far: %zu bytes; reader polled: avail=%zu drop=%zu -> rpos round=%zu iov_index=%zu (writer round=%zu iov_index=%zu)\n",
	    S, avail, drop, rpos.round_num, rpos.iov_index, rb->round_num, rb->iov_index);
	pos += drop; /* The reader believes it continues at this stream offset. */
	/* Two more blocks: stream 150..159 and 160..169. */
	if (use_set2) {
		wr_set2(rb, 10);
		wr_set2(rb, 10);
	} else {
		fill(buf, 10);
		r_buf_wbuf_set(rb, 0, 10);
		n = r_buf_wbuf_get(rb, 10, &buf);
		fill(buf, 10);
		r_buf_wbuf_set(rb, 0, 10);
	}
	avail = r_buf_data_avail_size(rb, &rpos, &drop);
	total_drop += drop;
	n = r_buf_data_get(rb, &rpos, (size_t)-1, iov, 16, &drop, &got);
	total_drop += drop;
	printf("after 2 more blocks (stream 150..169): avail=%zu, data_get regions=%zu bytes=%zu, first byte=%u, total reported drop=%zu\n",
	    avail, n, got, (0 != n ? (unsigned)iov[0].iov_base[0] : 0), total_drop);
	if (0 == n || iov[0].iov_base[0] != (uint8_t)pos || 20 != got) {
		printf("FAIL: reader was told %zu bytes were dropped, so its next byte is stream offset %zu, "
		    "but it received %zu bytes starting at stream offset %u: block 150..159 vanished silently\n",
		    total_drop, pos, got, (0 != n ? (unsigned)iov[0].iov_base[0] : 0));
		r_buf_free(rb);
		return (1);
	}
	r_buf_free(rb);
	return (0);
}

int
main(void) {
	int rc = 0;

	rc |= scenario(1);
	rc |= scenario(0);
	return (rc);
}
