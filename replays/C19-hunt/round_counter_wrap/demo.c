/* C19: "very slow reader" branch of r_buf_rpos_check():
 *     if (((size_t)(rpos->round_num + 1)) >= r_buf->round_num)  drop_size = 0;
 * is meant for "reader ahead of writer", but it is also true for every reader that is
 * two or more rounds behind when the round counter has just wrapped through 0
 * (reader round SIZE_MAX-1 / SIZE_MAX, ring round 0 / 1 ...).  The reader is moved to
 * the writer position and told that NOTHING was dropped. */
#include <sys/param.h>
#include <sys/types.h>
#include <inttypes.h>
#include <string.h>
#include <stdio.h>
#include <stdlib.h>
#include <errno.h>
#include "utils/ring_buffer.h"

static size_t
run(size_t start_round) {
	r_buf_p rb = r_buf_alloc((uintptr_t)-1, 100, 10);
	r_buf_rpos_t rpos;
	uint8_t *buf = NULL;
	size_t i, drop = 12345, avail;

	rb->round_num = start_round; /* A ring that has been running for a long time. */
	r_buf_rpos_init(rb, &rpos, 0);
	for (i = 0; i < 25; i ++) { /* 250 bytes = 2.5 rings; the idle reader loses everything. */
		if (10 > r_buf_wbuf_get(rb, 10, &buf))
			exit(3);
		memset(buf, (int)i, 10);
		if (0 != r_buf_wbuf_set(rb, 0, 10))
			exit(3);
	}
	avail = r_buf_data_avail_size(rb, &rpos, &drop);
	printf("start round %20zu: ring round now %20zu, reader: avail=%zu reported drop=%zu (250 bytes were skipped)\n",
	    start_round, rb->round_num, avail, drop);
	r_buf_free(rb);
	return (drop);
}

int
main(void) {
	size_t d_ref, d_wrap;

	d_ref = run(5);
	d_wrap = run(((size_t)-1) - 1); /* SIZE_MAX-1 -> SIZE_MAX -> 0 */
	if (0 == d_wrap || d_wrap != d_ref) {
		printf("FAIL: identical history, but across the round counter wrap the overrun reader is told drop=%zu (otherwise %zu)\n",
		    d_wrap, d_ref);
		return (1);
	}
	return (0);
}
