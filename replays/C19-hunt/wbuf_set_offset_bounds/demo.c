/* C19: r_buf_wbuf_set() "paranoid" space check tests data_size (= buf_size - offset)
 * against the free space, but advances wpos by buf_size and the block base by offset.
 * A commit whose offset + data exceeds the space returned by r_buf_wbuf_get() is accepted:
 * the block handed to readers and the next writer buffer lie outside the ring storage. */
#include <sys/param.h>
#include <sys/types.h>
#include <inttypes.h>
#include <string.h>
#include <stdio.h>
#include <stdlib.h>
#include <errno.h>
#include "utils/ring_buffer.h"

int
main(void) {
	r_buf_p rb = r_buf_alloc((uintptr_t)-1, 100, 10);
	r_buf_rpos_t rpos;
	iovec_t iov[4];
	uint8_t *buf = NULL;
	size_t n, got = 0, drop = 0;
	int rc = 0, error;

	r_buf_rpos_init(rb, &rpos, 0);
	n = r_buf_wbuf_get(rb, 10, &buf);
	printf("wbuf_get: %zu bytes at ring offset %td\n", n, (buf - rb->buf));
	/* 50 bytes of header to skip + 100 bytes payload = 150 > 100 available. */
	error = r_buf_wbuf_set(rb, 50, 150);
	printf("wbuf_set(offset=50, buf_size=150) = %d (expected EINVAL=%d), wpos=%zu size=%zu\n",
	    error, EINVAL, rb->wpos, rb->size);
	if (0 != error)
		return (0);
	n = r_buf_data_get(rb, &rpos, (size_t)-1, iov, 4, &drop, &got);
	if (0 != n) {
		printf("reader region: ring offset %td .. %td, ring is 0 .. %zu\n",
		    (iov[0].iov_base - rb->buf), (iov[0].iov_base + iov[0].iov_len - rb->buf), rb->size);
		if (iov[0].iov_base < rb->buf || (iov[0].iov_base + iov[0].iov_len) > rb->buf_max) {
			printf("FAIL: region handed to the reader is outside the ring storage\n");
			rc = 1;
		}
	}
	n = r_buf_wbuf_get(rb, 10, &buf);
	printf("next wbuf_get: %zu bytes at ring offset %td\n", n, (buf - rb->buf));
	if (0 != n && (buf < rb->buf || buf >= rb->buf_max || n > rb->size)) {
		printf("FAIL: region handed to the writer is outside the ring storage\n");
		rc = 1;
	}
	return (rc);
}
