#include <sys/param.h>
#include <sys/types.h>
#include <inttypes.h>
#include <string.h>
#include <stdio.h>
#include <stdlib.h>
#include <errno.h>

#include "proto/radius.h"
/* radius_pkt_sign() is not repeatable on the same packet although
 * radius_client.c calls it "once for server before send" (radius_client_send_new()
 * runs again for the next server with that server's secret):
 *  - the User-Password attribute is hidden in place every time, so the second
 *    call hides the already hidden value (with add_msg_authr = 0 this returns 0
 *    and the server decodes garbage);
 *  - with add_msg_authr = 1 (what radius_client.c passes) the second call
 *    returns EEXIST because the Message-Authenticator is already there - after
 *    having re-hidden the password. */
int main(void) {
	uint8_t keyA[] = "secretA", keyB[] = "secretB", ra[16], b[256], cp[256], *d;
	rad_pkt_hdr_p p = (rad_pkt_hdr_p)b;
	size_t sz = 0, off = 0, dl = 0, i;
	int e, rc = 0;

	setvbuf(stdout, NULL, _IONBF, 0);
	for (i = 0; i < 16; i ++) ra[i] = (uint8_t)(0x10 + i);

	/* Case 1: no Message-Authenticator, sign for server A, then for server B. */
	radius_pkt_init(p, sizeof(b), &sz, RADIUS_PKT_TYPE_ACCESS_REQUEST, 1, ra);
	radius_pkt_attr_add(p, sizeof(b), &sz, RADIUS_ATTR_TYPE_USER_NAME, 3, (uint8_t*)"bob", NULL);
	radius_pkt_attr_add(p, sizeof(b), &sz, RADIUS_ATTR_TYPE_USER_PASSWORD, 5, (uint8_t*)"hello", NULL);
	e = radius_pkt_sign(p, sizeof(b), &sz, keyA, 7, 0);
	printf("sign #1 (server A): %d\n", e);
	e = radius_pkt_sign(p, sizeof(b), &sz, keyB, 7, 0);
	printf("sign #2 (server B): %d\n", e);
	memcpy(cp, b, sz);
	e = radius_pkt_verify((rad_pkt_hdr_p)cp, keyB, 7, NULL);
	radius_pkt_attr_find((rad_pkt_hdr_p)cp, 0, RADIUS_ATTR_TYPE_USER_PASSWORD, &off);
	radius_pkt_attr_get_data_ptr((rad_pkt_hdr_p)cp, off, NULL, &d, &dl);
	printf("server B: verify=%d, decoded password length %zu:", e, dl);
	for (i = 0; i < dl && i < 16; i ++) printf(" %02x", d[i]);
	printf("\n");
	if (0 != e || 5 != dl || 0 != memcmp(d, "hello", 5)) { printf("FAIL: server B does not get the password \"hello\"\n"); rc = 1; }

	/* Case 2: with Message-Authenticator, as radius_client.c does. */
	sz = 0;
	radius_pkt_init(p, sizeof(b), &sz, RADIUS_PKT_TYPE_ACCESS_REQUEST, 1, ra);
	radius_pkt_attr_add(p, sizeof(b), &sz, RADIUS_ATTR_TYPE_USER_NAME, 3, (uint8_t*)"bob", NULL);
	radius_pkt_attr_add(p, sizeof(b), &sz, RADIUS_ATTR_TYPE_USER_PASSWORD, 5, (uint8_t*)"hello", NULL);
	e = radius_pkt_sign(p, sizeof(b), &sz, keyA, 7, 1);
	printf("sign #1 with Message-Authenticator: %d\n", e);
	e = radius_pkt_sign(p, sizeof(b), &sz, keyB, 7, 1);
	printf("sign #2 with Message-Authenticator: %d (EEXIST = %d)\n", e, EEXIST);
	if (0 != e) { printf("FAIL: packet cannot be signed for the next server\n"); rc = 1; }
	printf(rc ? "FAIL\n" : "PASS\n");
	return rc;
}
