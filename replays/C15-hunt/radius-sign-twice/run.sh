#!/bin/sh
. "$(dirname "$0")/../common.sh"
clang -g -O1 -fsanitize=address,undefined $FL "$HERE/demo.c" -o "$OUT/demo" 2>"$OUT/cc.log" || { cat "$OUT/cc.log"; echo "BUILD FAILED"; exit 2; }
"$OUT/demo" >"$OUT/log" 2>&1; rc=$?
sed '/^Shadow bytes/,$d' "$OUT/log" | head -40
[ $rc -ne 0 ] && echo "FAIL (exit $rc)"
exit $rc
