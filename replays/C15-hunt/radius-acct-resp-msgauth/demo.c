#include <sys/param.h>
#include <sys/types.h>
#include <inttypes.h>
#include <string.h>
#include <stdio.h>
#include <stdlib.h>
#include <errno.h>

#include "proto/radius.h"
/* Accounting-Request -> Accounting-Response carrying a Message-Authenticator.
 * radius_pkt_sign() computes the Message-Authenticator of the response over
 * the packet with the Request Authenticator in the authenticator field
 * (pkt_authenticator_inside = 1; radius_pkt_reply_init() copied it there) -
 * the general RFC 2869 5.14 / RFC 3579 3.2 rule for replies.
 * radius_pkt_verify() -> radius_pkt_attr_msg_authenticator_calc(inside = 0)
 * treats code 5 like a request (falls through to the ACCOUNTING_REQUEST arm)
 * and uses 16 zero bytes unless the request was a Status-Server.
 * So the library rejects the response it has just signed itself. */
static void hmac_ref(const uint8_t *key, size_t kl, const uint8_t *d, size_t dl, uint8_t *out) {
	hmac_md5(key, kl, d, dl, out); /* only the HMAC primitive, the packet layout below is independent */
}
int main(void) {
	uint8_t key[] = "secret", reqb[256], respb[256], tmp[256], ref[16];
	rad_pkt_hdr_p req = (rad_pkt_hdr_p)reqb, resp = (rad_pkt_hdr_p)respb;
	size_t sz = 0, rsz = 0, off = 0;
	int e, rc = 0;

	setvbuf(stdout, NULL, _IONBF, 0);
	e = radius_pkt_init(req, sizeof(reqb), &sz, RADIUS_PKT_TYPE_ACCOUNTING_REQUEST, 7, NULL);
	e |= radius_pkt_attr_add_uint32(req, sizeof(reqb), &sz, RADIUS_ATTR_TYPE_ACCT_STATUS_TYPE, htonl(RADIUS_A_T_ACCT_STATUS_START), NULL);
	e |= radius_pkt_attr_add(req, sizeof(reqb), &sz, RADIUS_ATTR_TYPE_ACCT_SESSION_ID, 4, (uint8_t*)"abcd", NULL);
	e |= radius_pkt_sign(req, sizeof(reqb), &sz, key, 6, 0);
	e |= radius_pkt_chk(req, sz);
	e |= radius_pkt_verify(req, key, 6, NULL);
	printf("request built/signed/verified: err=%d size=%zu\n", e, sz);
	if (0 != e) { printf("setup failed\n"); return 2; }

	e = radius_pkt_reply_init(resp, sizeof(respb), &rsz, RADIUS_PKT_TYPE_ACCOUNTING_RESPONSE, req);
	e |= radius_pkt_sign(resp, sizeof(respb), &rsz, key, 6, 1 /* add Message-Authenticator */);
	e |= radius_pkt_chk(resp, rsz);
	printf("response built/signed/checked: err=%d size=%zu\n", e, rsz);
	if (0 != e) { printf("setup failed\n"); return 2; }

	/* Independent RFC value: HMAC-MD5(secret; Code,Id,Len,RequestAuth,Attrs with M-A zeroed). */
	radius_pkt_attr_find(resp, 0, RADIUS_ATTR_TYPE_MSG_AUTHENTIC, &off);
	memcpy(tmp, respb, rsz);
	memcpy(tmp + 4, req->authenticator, 16);
	memset(tmp + off + 2, 0, 16);
	hmac_ref(key, 6, tmp, rsz, ref);
	printf("Message-Authenticator in signed response %s the RFC value\n",
	    (0 == memcmp(ref, respb + off + 2, 16)) ? "==" : "!=");

	e = radius_pkt_verify(resp, key, 6, req);
	printf("radius_pkt_verify(response, secret, request) = %d (EBADMSG = %d)\n", e, EBADMSG);
	if (0 != e) { printf("FAIL: the library rejects its own correctly signed Accounting-Response\n"); rc = 1; }
	else printf("PASS\n");
	return rc;
}
