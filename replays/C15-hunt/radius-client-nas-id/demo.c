#include <sys/param.h>
#include <sys/types.h>
#include <inttypes.h>
#include <string.h>
#include <stdio.h>
#include <stdlib.h>
#include <errno.h>
#include <unistd.h>
#include <poll.h>
#include <pthread.h>
#include <sys/socket.h>
#include <netinet/in.h>
#include <arpa/inet.h>
#include "threadpool/threadpool.h"
#include "threadpool/threadpool_msg_sys.h"
#include "utils/io_buf.h"
#include "proto/radius.h"
#include "proto/radius_client.h"
/* radius_client_query() is documented ("Add NAS-Identifier to Access-Request")
 * to append the configured NAS-Identifier to every Access-Request, but it tests
 *     ((rad_pkt_hdr_p)buf)->code        -- buf is the io_buf_t, not buf->data
 * i.e. the low byte of the io_buf_t.data pointer, which is never 1 for an
 * aligned allocation.  The Access-Request that reaches the server (loopback
 * UDP socket below) therefore lists no NAS-Identifier (RFC 2865 4.1: an
 * Access-Request MUST contain NAS-IP-Address or NAS-Identifier). */
static volatile int cb_called = 0, cb_error = -1;
static radius_cli_p cli; static io_buf_p qbuf; static volatile int qerr = -1;
static void q_cb(radius_cli_query_p q, rad_pkt_hdr_p pkt, int error, io_buf_p buf, void *arg) {
	(void)q; (void)pkt; (void)buf; (void)arg;
	cb_error = error; cb_called = 1;
}
static void start_query(tpt_p tpt, void *udata) { (void)udata;
	qerr = radius_client_query(cli, tpt, RADIUS_CLIENT_QUERY_ID_AUTO, qbuf, q_cb, NULL, NULL);
}
int main(void) {
	tp_p tp; tp_settings_t s; int e, srv, got = 0, t, fail = 0; uint16_t port;
	struct sockaddr_in a; socklen_t l = sizeof(a);
	radius_cli_settings_t cs; radius_cli_srv_settings_t ss;
	uint8_t ra[16], rb[4096], *d; ssize_t n = 0; size_t off = 0, dl = 0, i;
	rad_pkt_hdr_p pkt;

	setvbuf(stdout, NULL, _IONBF, 0);
	srv = socket(AF_INET, SOCK_DGRAM, 0);
	memset(&a, 0, sizeof(a)); a.sin_family = AF_INET; a.sin_addr.s_addr = htonl(INADDR_LOOPBACK);
	if (0 != bind(srv, (struct sockaddr*)&a, sizeof(a))) { perror("bind"); return 2; }
	getsockname(srv, (struct sockaddr*)&a, &l); port = ntohs(a.sin_port);

	tp_init(); tp_settings_def(&s); s.threads_max = 1; s.flags = 0;
	e = tp_create(&s, &tp); if (e) { printf("tp_create %d\n", e); return 2; }
	e = tp_threads_create(tp, 0); if (e) { printf("tp_threads_create %d\n", e); return 2; }
	usleep(300000);
	radius_client_def_settings(&cs);
	memcpy(cs.NAS_Identifier, "mynas", 5); cs.NAS_Identifier_size = 5;
	e = radius_client_create(tp, &cs, &cli); if (e) { printf("radius_client_create %d\n", e); return 2; }
	radius_client_server_def_settings(&ss);
	memcpy(ss.shared_secret, "secretA", 7); ss.shared_secret_size = 7;
	ss.retrans_time_init = 100; ss.retrans_time_max = 200; ss.retrans_duration_max = 0; ss.retrans_count_max = 2;
	memset(&ss.addr, 0, sizeof(ss.addr));
	((struct sockaddr_in*)&ss.addr)->sin_family = AF_INET;
	((struct sockaddr_in*)&ss.addr)->sin_addr.s_addr = htonl(INADDR_LOOPBACK);
	((struct sockaddr_in*)&ss.addr)->sin_port = htons(port);
	e = radius_client_server_add(cli, &ss); if (e) { printf("server add %d\n", e); return 2; }

	qbuf = io_buf_alloc(IO_BUF_FLAGS_STD, 4096);
	for (i = 0; i < 16; i ++) ra[i] = (uint8_t)(0x10 + i);
	pkt = (rad_pkt_hdr_p)qbuf->data;
	radius_pkt_init(pkt, qbuf->size, &qbuf->used, RADIUS_PKT_TYPE_ACCESS_REQUEST, 0, ra);
	radius_pkt_attr_add(pkt, qbuf->size, &qbuf->used, RADIUS_ATTR_TYPE_USER_NAME, 3, (uint8_t*)"bob", NULL);
	radius_pkt_attr_add(pkt, qbuf->size, &qbuf->used, RADIUS_ATTR_TYPE_USER_PASSWORD, 5, (uint8_t*)"hello", NULL);
	printf("io_buf_t at %p (first byte 0x%02x is what radius_client_query() takes for the packet code), packet code = %u\n",
	    (void*)qbuf, *((uint8_t*)qbuf), pkt->code);
	e = tpt_msg_send(tp_thread_get(tp, 0), NULL, 0, start_query, NULL); if (e) { printf("tpt_msg_send %d\n", e); return 2; }
	for (t = 0; t < 50 && 0 == got; t ++) {
		struct pollfd pf = { srv, POLLIN, 0 };
		poll(&pf, 1, 100);
		if (pf.revents & POLLIN) { n = recv(srv, rb, sizeof(rb), 0); got ++; }
	}
	printf("radius_client_query() = %d, server received %d datagram(s), %zd bytes\n", qerr, got, n);
	if (0 == got) { printf("FAIL: nothing received\n"); _exit(1); }
	e = radius_pkt_chk((rad_pkt_hdr_p)rb, (size_t)n);
	printf("radius_pkt_chk = %d, radius_pkt_verify = %d\n", e, radius_pkt_verify((rad_pkt_hdr_p)rb, (uint8_t*)"secretA", 7, NULL));
	if (0 != radius_pkt_attr_find((rad_pkt_hdr_p)rb, 0, RADIUS_ATTR_TYPE_NAS_IDENTIFIER, &off)) {
		printf("FAIL: the Access-Request received by the server has no NAS-Identifier although \"mynas\" is configured\n");
		fail = 1;
	} else {
		radius_pkt_attr_get_data_ptr((rad_pkt_hdr_p)rb, off, NULL, &d, &dl);
		if (5 != dl || 0 != memcmp(d, "mynas", 5)) { printf("FAIL: wrong NAS-Identifier\n"); fail = 1; }
	}
	printf(fail ? "FAIL\n" : "PASS\n");
	_exit(fail);
}
