#!/bin/sh
. "$(dirname "$0")/../common.sh"
T="$TREE"
gcc -g -O1 -w $FL "$HERE/demo.c" $T/src/proto/radius_client.c $T/src/threadpool/threadpool.c $T/src/threadpool/threadpool_msg_sys.c $T/src/threadpool/threadpool_task.c $T/src/net/socket.c $T/src/net/socket_address.c $T/src/net/socket_options.c $T/src/net/utils.c $T/src/utils/sys.c $T/src/utils/buf_str.c -o "$OUT/demo" -lpthread 2>"$OUT/cc.log" || { grep -E "error|undefined" "$OUT/cc.log" | head; echo "BUILD FAILED"; exit 2; }
timeout 30 "$OUT/demo" >"$OUT/log" 2>&1; rc=$?
head -30 "$OUT/log"
[ $rc -ne 0 ] && echo "FAIL (exit $rc)"
exit $rc
