#include <sys/param.h>
#include <sys/types.h>
#include <inttypes.h>
#include <string.h>
#include <stdio.h>
#include <stdlib.h>
#include <errno.h>

#include "proto/dns.h"
/* OPT pseudo-RR (RFC 2671 4.3/4.6, RFC 6891 6.1.3): the 32 bit TTL field is
 *   byte 0: EXTENDED-RCODE, byte 1: VERSION, bytes 2-3: DO + Z.
 * dns_opt_rr_t declares "version" before "ex_rcode", so dns_msg_optrr_add()
 * puts VERSION into the EXTENDED-RCODE octet and vice versa. */
int main(void) {
	uint8_t buf[64];
	dns_hdr_p h = (dns_hdr_p)buf;
	size_t sz = 0, nsz = 0, i;
	uint8_t dummy = 0;
	/* version = 0, extended rcode = 1 (i.e. BADVERS = 16), DO = 0, udp size 4096 */
	static const uint8_t rfc[11] = { 0x00, 0x00, 0x29, 0x10, 0x00, 0x01, 0x00, 0x00, 0x00, 0x00, 0x00 };
	int e;

	setvbuf(stdout, NULL, _IONBF, 0);
	memset(buf, 0xee, sizeof(buf));
	e = dns_hdr_create(0x1234, 0, h, sizeof(buf), &sz);
	e |= dns_msg_optrr_add(h, sz, sizeof(buf), 4096, 0 /* version */, 1 /* ex_rcode */, 0, 0, &dummy, &nsz);
	printf("dns_msg_optrr_add: err=%d new size=%zu\n", e, nsz);
	if (0 != e || nsz != sz + sizeof(rfc)) { printf("setup failed\n"); return 2; }
	printf("library :"); for (i = 0; i < sizeof(rfc); i ++) printf(" %02x", buf[sz + i]); printf("\n");
	printf("RFC 6891:"); for (i = 0; i < sizeof(rfc); i ++) printf(" %02x", rfc[i]); printf("\n");
	if (0 != memcmp(buf + sz, rfc, sizeof(rfc))) {
		printf("FAIL: EXTENDED-RCODE and VERSION octets are exchanged on the wire\n");
		return 1;
	}
	printf("PASS\n");
	return 0;
}
