#include <sys/param.h>
#include <sys/types.h>
#include <inttypes.h>
#include <string.h>
#include <stdio.h>
#include <stdlib.h>
#include <errno.h>
#include "proto/dns.h"
static uint32_t rs = 777; static uint32_t rnd(void){ rs = rs*1103515245u+12345u; return rs>>8; }
static size_t mkname(uint8_t *n){ /* random valid name 1..253 */
	size_t target = 1 + rnd()%253, len=0;
	if (rnd()%8==0) target = 253;
	while (len < target){
		size_t l = 1 + rnd()%63; if (rnd()%6==0) l=63;
		if (len) { if (len+1 >= target) break; n[len++]='.'; }
		if (len + l > target) l = target-len;
		for (size_t i=0;i<l;i++) n[len++] = (uint8_t)("abcXYZ019-_"[rnd()%11]);
	}
	return len;
}
static size_t refname(uint8_t *o, const uint8_t *n, size_t nl){ size_t p=0,i=0; while(i<nl){ size_t j=i; while(j<nl&&n[j]!='.')j++; o[p++]=(uint8_t)(j-i); memcpy(o+p,n+i,j-i); p+=j-i; i=j+1;} o[p++]=0; return p; }
int main(void){
	int bad=0;
	for (int it=0; it<20000; it++){
		size_t bsz = 12 + rnd()%1500, sz=0, rsz=12, nsz;
		uint8_t *b = malloc(bsz), *ref = malloc(bsz+70000);
		dns_hdr_p h=(dns_hdr_p)b; int e;
		struct { uint8_t n[256]; size_t nl; uint16_t t,c; uint32_t ttl; uint16_t dl; uint8_t d[600]; size_t off; int q; } rec[64]; int nr=0;
		memset(b,0xee,bsz);
		dns_hdr_create(0xabcd, 0x0100, h, bsz, &sz);
		memset(ref,0,12); ref[0]=0xcd; ref[1]=0xab; ref[2]=0x00; ref[3]=0x01;
		int nq=0, na=0;
		int phase=0;
		for (int k=0;k<60;k++){
			uint8_t n[256]; size_t nl = mkname(n); uint16_t t=(uint16_t)rnd(), c=(uint16_t)rnd(); uint32_t ttl=rnd()*rnd(); uint16_t dl=(uint16_t)(rnd()%300); uint8_t d[600]; for(int i=0;i<dl;i++)d[i]=(uint8_t)rnd();
			if (phase==0 && rnd()%3==0) phase=1;
			size_t need = nl+2 + (phase? 10+dl : 4);
			if (phase==0) { e = dns_msg_question_add(h, sz, bsz, 0, n, nl, t, c, &nsz); }
			else { e = dns_msg_rr_add(h, sz, bsz, 0, n, nl, t, c, ttl, dl, d, &nsz); }
			if (sz+need > bsz) { if (e!=EOVERFLOW){ printf("BAD expected EOVERFLOW got %d\n", e); bad++;} break; }
			if (e) { printf("BAD add err %d nl=%zu\n", e, nl); bad++; break; }
			if (nsz != sz+need) { printf("BAD size ret %zu exp %zu\n", nsz, sz+need); bad++; }
			rec[nr].nl=nl; memcpy(rec[nr].n,n,nl); rec[nr].t=t; rec[nr].c=c; rec[nr].ttl=ttl; rec[nr].dl=dl; memcpy(rec[nr].d,d,dl); rec[nr].off=sz; rec[nr].q=!phase; nr++;
			size_t p = rsz; p += refname(ref+p, n, nl); ref[p++]=t>>8; ref[p++]=t&255; ref[p++]=c>>8; ref[p++]=c&255;
			if (phase){ ref[p++]=ttl>>24; ref[p++]=(ttl>>16)&255; ref[p++]=(ttl>>8)&255; ref[p++]=ttl&255; ref[p++]=dl>>8; ref[p++]=dl&255; memcpy(ref+p,d,dl); p+=dl; dns_hdr_an_inc(h,1); na++; } else nq++;
			rsz=p; sz=nsz;
		}
		ref[4]=nq>>8; ref[5]=nq&255; ref[6]=na>>8; ref[7]=na&255;
		if (rsz!=sz || memcmp(ref,b,sz)) { printf("BAD bytes differ\n"); bad++; }
		size_t ms=0; e = dns_msg_info_get(h, sz, NULL,NULL,NULL,NULL,NULL,&ms); if (e||ms!=sz){ printf("BAD validate e=%d ms=%zu sz=%zu\n", e, ms, sz); bad++; }
		for (int i=0;i<nr;i++){
			uint8_t nm[256]; size_t nml=sizeof(nm), rs2; uint16_t t,c,dl; uint32_t ttl; void *dp;
			if (rec[i].q) { e = dns_msg_question_get_data(h, sz, rec[i].off, nm, &nml, &t,&c,&rs2); if (e||nml!=rec[i].nl||memcmp(nm,rec[i].n,nml)||t!=rec[i].t||c!=rec[i].c){ printf("BAD q parse e=%d nl=%zu/%zu\n", e, nml, rec[i].nl); bad++; } }
			else { e = dns_msg_rr_get_data(h, sz, rec[i].off, nm, &nml, &t,&c,&ttl,&dl,&dp,&rs2); if (e||nml!=rec[i].nl||memcmp(nm,rec[i].n,nml)||t!=rec[i].t||c!=rec[i].c||(t!=41&&ttl!=rec[i].ttl)||dl!=rec[i].dl||memcmp(dp,rec[i].d,dl)){ printf("BAD rr parse e=%d nl %zu/%zu t=%u\n", e, nml, rec[i].nl, t); bad++; } }
		}
		free(b); free(ref);
		if (bad>20) break;
	}
	printf("done bad=%d\n", bad);
	return bad!=0;
}
