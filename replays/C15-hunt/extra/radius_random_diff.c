#include <sys/param.h>
#include <sys/types.h>
#include <inttypes.h>
#include <string.h>
#include <stdio.h>
#include <stdlib.h>
#include <errno.h>
#include "proto/radius.h"
static void hex(uint8_t *p, size_t n){ for(size_t i=0;i<n;i++) printf("%02x", p[i]); }
static uint32_t rs = 12345; static uint32_t rnd(void){ rs = rs*1103515245u+12345u; return rs>>8; }
int main(void){
	uint8_t reqb[4096], respb[4096], key[200], pw[128], ra[16];
	rad_pkt_hdr_p req=(rad_pkt_hdr_p)reqb, resp=(rad_pkt_hdr_p)respb;
	static const uint8_t reqc[] = {1,4,12,40,43}; 
	static const uint8_t respc[][3] = {{2,3,11},{5,5,5},{2,5,5},{41,42,41},{44,45,44}};
	for (int it=0; it<400; it++){
		size_t kl = rnd()%130, pl = rnd()%129, sz=0, rsz=0; int e, ci = rnd()%5, ma = rnd()&1;
		for (size_t i=0;i<kl;i++) key[i]=(uint8_t)rnd();
		for (size_t i=0;i<pl;i++) pw[i]=(uint8_t)(1+rnd()%255);
		for (size_t i=0;i<16;i++) ra[i]=(uint8_t)rnd();
		if (reqc[ci]==12) ma=1;
		e = radius_pkt_init(req, sizeof(reqb), &sz, reqc[ci], (uint8_t)rnd(), ra); if(e){printf("ERR init %d\n",e);continue;}
		e = radius_pkt_attr_add(req, sizeof(reqb), &sz, 1, 3, (uint8_t*)"bob", NULL);
		if (reqc[ci]==1) { e = radius_pkt_attr_add(req, sizeof(reqb), &sz, 2, (uint8_t)pl, pw, NULL); if(e){printf("ERR addpw %d\n",e);continue;} }
		e = radius_pkt_attr_add_uint32(req, sizeof(reqb), &sz, 5, htonl(rnd()), NULL);
		e = radius_pkt_sign(req, sizeof(reqb), &sz, key, kl, ma); if(e){printf("ERR sign %d\n",e);continue;}
		e = radius_pkt_chk(req, sz); if(e){printf("ERR chk %d\n",e);}
		printf("REQ "); hex(key,kl); printf(" "); hex(pw,pl); printf(" "); hex(ra,16); printf(" "); hex(reqb,sz); printf("\n");
		/* verify copy */
		uint8_t cp[4096]; memcpy(cp, reqb, sz);
		e = radius_pkt_verify((rad_pkt_hdr_p)cp, key, kl, NULL); if(e){printf("ERR verify req %d code %d\n",e, reqc[ci]);}
		if (reqc[ci]==1){ uint8_t *d; size_t dl; size_t off; radius_pkt_attr_find((rad_pkt_hdr_p)cp,0,2,&off); radius_pkt_attr_get_data_ptr((rad_pkt_hdr_p)cp, off, NULL,&d,&dl); if (dl!=pl||memcmp(d,pw,pl)) printf("ERR pw roundtrip pl=%zu dl=%zu\n", pl, dl);}
		/* wrong secret / corruption */
		if (ma || reqc[ci]!=1) {
			for (size_t i=0;i<sz;i++){ memcpy(cp, reqb, sz); cp[i]^=0x01; if (0==radius_pkt_chk((rad_pkt_hdr_p)cp, sz) && 0==radius_pkt_verify((rad_pkt_hdr_p)cp,key,kl,NULL)) printf("ERR corrupt accepted req code %d byte %zu (val %02x) ma=%d\n", reqc[ci], i, reqb[i], ma); }
		}
		/* response */
		uint8_t rc = respc[ci][rnd()%3]; int rma = rnd()&1;
		e = radius_pkt_reply_init(resp, sizeof(respb), &rsz, rc, req); if(e){printf("ERR rinit %d\n",e);continue;}
		e = radius_pkt_attr_add(resp, sizeof(respb), &rsz, 18, 5, (uint8_t*)"hello", NULL);
		e = radius_pkt_sign(resp, sizeof(respb), &rsz, key, kl, rma); if(e){printf("ERR rsign %d\n",e);continue;}
		printf("RSP "); hex(key,kl); printf(" "); hex(reqb,sz); printf(" "); hex(respb,rsz); printf("\n");
		e = radius_pkt_chk(resp, rsz); if(e){printf("ERR rchk %d\n",e);}
		memcpy(cp, respb, rsz);
		e = radius_pkt_verify((rad_pkt_hdr_p)cp, key, kl, req); if(e){printf("ERR verify resp %d code %d->%d ma=%d\n",e, reqc[ci], rc, rma);}
		for (size_t i=0;i<rsz;i++){ memcpy(cp, respb, rsz); cp[i]^=0x01; if (0==radius_pkt_chk((rad_pkt_hdr_p)cp, rsz) && 0==radius_pkt_verify((rad_pkt_hdr_p)cp,key,kl,req)) printf("ERR corrupt accepted resp code %d byte %zu\n", rc, i); }
		if (kl>0){ key[0]^=1; memcpy(cp, respb, rsz); if (0==radius_pkt_verify((rad_pkt_hdr_p)cp,key,kl,req)) printf("ERR wrong secret accepted resp\n"); key[0]^=1; }
	}
	return 0;
}
