import hashlib, hmac, sys
def attrs(p):
    o=20; r=[]
    while o < len(p):
        t=p[o]; l=p[o+1]; r.append((t,o,l)); o+=l
    return r
def ma_calc(p, key, auth16):
    q=bytearray(p); q[4:20]=auth16
    for t,o,l in attrs(p):
        if t==80: q[o+2:o+18]=b'\0'*16
    return hmac.new(key, bytes(q), hashlib.md5).digest()
def pw_hide(pw, key, ra):
    if len(pw)==0: pw=b'\0'*16
    if len(pw)%16: pw += b'\0'*(16-len(pw)%16)
    out=b''; prev=ra
    for i in range(0,len(pw),16):
        b=hashlib.md5(key+prev).digest()
        c=bytes(x^y for x,y in zip(pw[i:i+16],b)); out+=c; prev=c
    return out
bad=0; n=0
for line in open('r4.out'):
    f=line.rstrip('\n').split(' ')
    if f[0]=='REQ':
        key=bytes.fromhex(f[1]); pw=bytes.fromhex(f[2]); ra=bytes.fromhex(f[3]); p=bytes.fromhex(f[4]); n+=1
        code=p[0]
        assert int.from_bytes(p[2:4],'big')==len(p)
        if code in (1,12):
            if p[4:20]!=ra: print("RA changed"); bad+=1
            authin=p[4:20]
        else:
            authin=b'\0'*16
        for t,o,l in attrs(p):
            if t==80:
                if p[o+2:o+18]!=ma_calc(p,key,authin): print("REQ MA mismatch code",code); bad+=1
            if t==2:
                if p[o+2:o+l]!=pw_hide(pw,key,ra): print("PW mismatch", len(pw)); bad+=1
        if code in (4,40,43):
            q=bytearray(p); q[4:20]=b'\0'*16
            if hashlib.md5(bytes(q)+key).digest()!=p[4:20]: print("REQ auth mismatch", code); bad+=1
    elif f[0]=='RSP':
        key=bytes.fromhex(f[1]); rq=bytes.fromhex(f[2]); p=bytes.fromhex(f[3]); n+=1
        q=bytearray(p); q[4:20]=rq[4:20]
        if hashlib.md5(bytes(q)+key).digest()!=p[4:20]: print("RSP auth mismatch", p[0]); bad+=1
        for t,o,l in attrs(p):
            if t==80:
                a = ma_calc(p,key,rq[4:20]); z = ma_calc(p,key,b'\0'*16)
                if p[o+2:o+18]!=a: print("RSP MA != HMAC with request authenticator; code",p[0], "req",rq[0], "equals-zero-variant", p[o+2:o+18]==z); bad+=1
print("checked",n,"bad",bad)
