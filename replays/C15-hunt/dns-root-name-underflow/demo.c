#include <sys/param.h>
#include <sys/types.h>
#include <inttypes.h>
#include <string.h>
#include <stdio.h>
#include <stdlib.h>
#include <errno.h>

#include "proto/dns.h"
/* Root name ("" <-> single zero label) round trip.
 * DomainNameToSequenceOfLabels() encodes the empty name as one 0 byte;
 * SequenceOfLabelsToDomainName() on that encoding executes "name --" (the
 * "clear last dot" step, guarded by (cur_pos - buf) != 0 which is always true
 * because cur_pos was already advanced) and stores the terminating NUL at
 * name[-1]: one byte before the caller's buffer. */
int main(void) {
	uint8_t seq[8], *name;
	size_t ssz = 0, nl = 99;
	int e;

	setvbuf(stdout, NULL, _IONBF, 0);
	e = DomainNameToSequenceOfLabels((const uint8_t*)"", 0, seq, sizeof(seq), &ssz);
	printf("encode root: err=%d size=%zu first byte=%u\n", e, ssz, seq[0]);
	if (0 != e || 1 != ssz || 0 != seq[0]) { printf("setup failed\n"); return 2; }
	name = malloc(16);
	memset(name, 'x', 16);
	e = SequenceOfLabelsToDomainName(seq, ssz, name, 16, &nl);
	printf("decode root: err=%d name[0]=0x%02x\n", e, name[0]);
	if (0 != e || 0 != name[0]) { printf("FAIL: name not terminated at name[0] (NUL was written at name[-1])\n"); return 1; }
	printf("PASS\n");
	free(name);
	return 0;
}
