#include <sys/param.h>
#include <sys/types.h>
#include <inttypes.h>
#include <string.h>
#include <stdio.h>
#include <stdlib.h>
#include <errno.h>

#include "proto/radius.h"
/* A packet built with the library, stored in a buffer of exactly the packet
 * size, is enumerated with radius_pkt_attr_get_data_to_buf().  When the last
 * attribute of the packet has the requested type the next search starts at
 * offset == packet length and radius_pkt_attr_get_from_offset() dereferences
 * attr->len there: one/two bytes past the packet (ASan: heap-buffer-overflow). */
int main(void) {
	size_t sz = 0, bsz = RADIUS_PKT_HDR_SIZE + 5 + 6, outl = 0;
	uint8_t ra[16] = { 0 }, out[64];
	rad_pkt_hdr_p p = malloc(bsz);
	int e;

	setvbuf(stdout, NULL, _IONBF, 0);
	e = radius_pkt_init(p, bsz, &sz, RADIUS_PKT_TYPE_ACCESS_REQUEST, 9, ra);
	e |= radius_pkt_attr_add(p, bsz, &sz, RADIUS_ATTR_TYPE_USER_NAME, 3, (uint8_t*)"bob", NULL);
	e |= radius_pkt_attr_add(p, bsz, &sz, RADIUS_ATTR_TYPE_REPLY_MESSAGE, 4, (uint8_t*)"abcd", NULL);
	e |= radius_pkt_chk(p, sz);
	printf("built: err=%d size=%zu (buffer %zu)\n", e, sz, bsz);
	if (0 != e || sz != bsz) { printf("setup failed\n"); return 2; }
	e = radius_pkt_attr_get_data_to_buf(p, 0, 0, RADIUS_ATTR_TYPE_REPLY_MESSAGE, out, sizeof(out), &outl);
	printf("get_data_to_buf: err=%d len=%zu\n", e, outl);
	if (0 != e || 4 != outl || 0 != memcmp(out, "abcd", 4)) { printf("FAIL: wrong data\n"); return 1; }
	printf("PASS (no out of bounds access)\n");
	free(p);
	return 0;
}
