#include <sys/param.h>
#include <sys/types.h>
#include <inttypes.h>
#include <string.h>
#include <stdio.h>
#include <stdlib.h>
#include <errno.h>

#include "proto/dns.h"
/* Resource record owned by the root name (name_len = 0), e.g. ". NS a." :
 * dns_msg_rr_add() reports the new message size from its pre-check estimate
 * (2 + name_len bytes for the name) and never corrects it after the name was
 * stored, but the root name occupies 1 byte.  The caller continues at an
 * offset one byte too far: an uninitialised byte becomes part of the message
 * and everything after it is mis-parsed.  (dns_msg_question_add() recomputes
 * the size and is right.)  Same estimate also makes both add functions return
 * EOVERFLOW for a root-name entry that fits the buffer exactly. */
int main(void) {
	uint8_t buf[128], nm[256];
	dns_hdr_p h = (dns_hdr_p)buf;
	size_t sz = 0, nsz = 0, before, ms = 0, nml, rrsz;
	uint16_t t, c, dl; uint32_t ttl; void *dp;
	int e, rc = 0;

	setvbuf(stdout, NULL, _IONBF, 0);
	memset(buf, 0xee, sizeof(buf));
	e = dns_hdr_create(0x1234, 0, h, sizeof(buf), &sz);
	before = sz;
	e |= dns_msg_rr_add(h, sz, sizeof(buf), 0, (const uint8_t*)"", 0, DNS_RR_TYPE_NS, DNS_RR_CLASS_IN, 3600, 3, "\x01""a\x00", &nsz);
	dns_hdr_an_inc(h, 1);
	printf("rr_add(root NS): err=%d size %zu -> %zu, RFC 1035 encoding needs %zu\n", e, before, nsz, before + 1 + 10 + 3);
	if (0 != e) { printf("setup failed\n"); return 2; }
	if (nsz != before + 1 + 10 + 3) { printf("FAIL: returned message size is %zu, real size is %zu\n", nsz, before + 14); rc = 1; }
	sz = nsz;
	/* Second record appended where the library told us to. */
	e = dns_msg_rr_add(h, sz, sizeof(buf), 0, (const uint8_t*)"a.b", 3, DNS_RR_TYPE_A, DNS_RR_CLASS_IN, 60, 4, "\x01\x02\x03\x04", &nsz);
	dns_hdr_an_inc(h, 1);
	if (0 != e) { printf("setup failed (2nd add %d)\n", e); return 2; }
	sz = nsz;
	e = dns_msg_info_get(h, sz, NULL, NULL, NULL, NULL, NULL, &ms);
	printf("dns_msg_info_get: err=%d parsed size=%zu built size=%zu\n", e, ms, sz);
	if (0 != e || ms != sz) { printf("FAIL: message built by the library does not parse back to its size\n"); rc = 1; }
	nml = sizeof(nm);
	e = dns_msg_rr_get_data(h, sz, before, NULL, NULL, NULL, NULL, NULL, NULL, NULL, &rrsz);
	if (0 == e) {
		nml = sizeof(nm);
		e = dns_msg_rr_get_data(h, sz, before + rrsz, nm, &nml, &t, &c, &ttl, &dl, &dp, &rrsz);
		printf("2nd record parsed: err=%d name_len=%zu type=%u (expected name a.b type 1)\n", e, nml, (0 == e) ? t : 0);
		if (0 != e || 3 != nml || 0 != memcmp(nm, "a.b", 3) || DNS_RR_TYPE_A != t) { printf("FAIL: second record does not parse back\n"); rc = 1; }
	}
	/* exact fit */
	{
		uint8_t b2[12 + 1 + 10 + 3];
		e = dns_hdr_create(1, 0, (dns_hdr_p)b2, sizeof(b2), &sz);
		e = dns_msg_rr_add((dns_hdr_p)b2, sz, sizeof(b2), 0, (const uint8_t*)"", 0, DNS_RR_TYPE_NS, DNS_RR_CLASS_IN, 3600, 3, "\x01""a\x00", &nsz);
		printf("root NS record into a buffer of exactly 26 bytes: err=%d (EOVERFLOW=%d)\n", e, EOVERFLOW);
		if (0 != e) { printf("FAIL: record fits but EOVERFLOW is returned\n"); rc = 1; }
	}
	printf(rc ? "FAIL\n" : "PASS\n");
	return rc;
}
