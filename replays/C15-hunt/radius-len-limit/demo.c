#include <sys/param.h>
#include <sys/types.h>
#include <inttypes.h>
#include <string.h>
#include <stdio.h>
#include <stdlib.h>
#include <errno.h>

#include "proto/radius.h"
/* "all sequences of add operations until the buffer is full":
 * radius_pkt_attr_alloc_raw() bounds the packet only by the caller's buffer
 * size, not by RADIUS_PKT_MAX_SIZE (4096) nor by the 16 bit length field.
 *  - buffer 8192: adds keep succeeding past 4096 and the packet assembled by
 *    the library fails the library's own radius_pkt_chk();
 *  - buffer 70000: at 65536 the header length wraps (htons truncation), add
 *    still returns 0, the reported size and the header disagree, and the next
 *    attribute is written over the packet header. */
int main(void) {
	uint8_t ra[16] = { 0 }, data[253];
	size_t sz, n, bsz;
	rad_pkt_hdr_p p;
	int e, rc = 0;

	setvbuf(stdout, NULL, _IONBF, 0);
	memset(data, 'x', sizeof(data));

	bsz = 8192; p = malloc(bsz); sz = 0; n = 0;
	radius_pkt_init(p, bsz, &sz, RADIUS_PKT_TYPE_ACCESS_REQUEST, 1, ra);
	while (0 == (e = radius_pkt_attr_add(p, bsz, &sz, RADIUS_ATTR_TYPE_REPLY_MESSAGE, 253, data, NULL)))
		n ++;
	sz = RADIUS_PKT_HDR_LEN_GET(p);
	printf("buffer %zu: %zu attributes added, last add err=%d, packet length %zu, radius_pkt_chk=%d\n",
	    bsz, n, e, sz, radius_pkt_chk(p, sz));
	if (0 != radius_pkt_chk(p, sz)) { printf("FAIL: packet assembled by successful adds fails the library's check (length > %d)\n", RADIUS_PKT_MAX_SIZE); rc = 1; }
	free(p);

	bsz = 70000; p = malloc(bsz); sz = 0; n = 0;
	radius_pkt_init(p, bsz, &sz, RADIUS_PKT_TYPE_ACCESS_REQUEST, 1, ra);
	for (;;) {
		e = radius_pkt_attr_add(p, bsz, &sz, RADIUS_ATTR_TYPE_REPLY_MESSAGE, 253, data, NULL);
		if (0 != e)
			break;
		n ++;
		if (sz != RADIUS_PKT_HDR_LEN_GET(p)) {
			printf("buffer %zu: add #%zu returned 0 and size %zu, but the header length field is now %u\n",
			    bsz, n, sz, (unsigned)RADIUS_PKT_HDR_LEN_GET(p));
			printf("FAIL: 16 bit packet length wrapped\n");
			rc = 1;
			break;
		}
		if (n > 1000) break;
	}
	free(p);
	printf(rc ? "FAIL\n" : "PASS\n");
	return rc;
}
