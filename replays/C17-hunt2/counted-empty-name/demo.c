/* The store keeps empty names ("[]", "=v") and enumeration returns them as
 * (pointer into the record, size 0).  ini_val_get / ini_vali_get / ini_val_set
 * treat size 0 as "measure with strlen()", so the counted empty name is read as
 * the C string that starts at the pointer: another key is looked up / created,
 * and strlen() runs over record storage that is not NUL terminated (after a
 * growing replacement moved the record: read past the allocation). */
#include <sys/param.h>
#include <sys/types.h>
#include <inttypes.h>
#include <string.h>
#include <stdlib.h>
#include <stdio.h>
#include <errno.h>
#include "utils/ini.h"
#define U(s) ((const uint8_t*)(s))

int main(void) {
	ini_p ini;
	const uint8_t *sn, *kn, *kv, *v; size_t sns, kns, kvs, vs, so = 0, vo = 0, sz = 0;
	int e, bad = 0;
	static const char txt[] = "[]\r\n=v\r\n";
	uint8_t big[200];

	ini_create(&ini);
	ini_buf_parse(ini, U(txt), sizeof(txt) - 1);
	e = ini_val_get(ini, U(""), 0, U(""), 0, &v, &vs);
	printf("get(\"\",\"\") as C strings: %d '%.*s'\n", e, (0 == e) ? (int)vs : 0, v);

	/* Every enumerated (section, name) must be found with the pair enumeration gave. */
	if (0 != ini_sect_enum(ini, &so, &sn, &sns) ||
	    0 != ini_sect_val_enum(ini, so, &vo, &kn, &kns, &kv, &kvs)) return (2);
	printf("enum: section size %zu, name size %zu, value '%.*s'\n", sns, kns, (int)kvs, kv);
	e = ini_val_get(ini, sn, sns, kn, kns, &v, &vs);
	printf("get(enumerated section, enumerated name) = %d (0 expected)\n", e);
	if (0 != e) bad ++;
	/* set with the enumerated pair: must replace '=v', creates '[]]' instead. */
	e = ini_val_set(ini, sn, sns, kn, kns, U("w"), 1);
	ini_buf_calc_size(ini, &sz);
	printf("set(enumerated pair) = %d, text size %zu (0, 8 expected: '=v' replaced by '=w')\n", e, sz);
	if (0 != e || 8 != sz) bad ++;
	if (bad) printf("FAIL: counted empty names are not looked up\n");

	/* Grow the record: realloc moves it, the padding behind the text is not zeroed. */
	memset(big, 'x', sizeof(big));
	ini_val_set(ini, U(""), 0, U(""), 0, big, sizeof(big));
	so = 0; vo = 0;
	ini_sect_enum(ini, &so, &sn, &sns);
	ini_sect_val_enum(ini, so, &vo, &kn, &kns, &kv, &kvs);
	fflush(stdout);
	e = ini_val_get(ini, U(""), 0, kn, kns, &v, &vs); /* ASan: heap-buffer-overflow in strlen. */
	printf("get after growth = %d\n", e);
	ini_destroy(ini);
	return (bad ? 1 : 0);
}
