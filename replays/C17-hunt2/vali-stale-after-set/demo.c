/* Case-insensitive lookup returns the record that is last in FILE order, not the
 * one most recently set: ini_val_set() replaces the exact-case record in place,
 * a later record that differs only in case keeps shadowing it for ini_vali_get*. */
#include <sys/param.h>
#include <sys/types.h>
#include <inttypes.h>
#include <string.h>
#include <stdio.h>
#include <errno.h>
#include "utils/ini.h"
#define U(s) ((const uint8_t*)(s))

int main(void) {
	ini_p ini;
	const uint8_t *v; size_t vs; ssize_t n = -1;
	int e, bad = 0;
	static const char txt[] = "[srv]\r\nport=1\r\nPort=2\r\n";

	ini_create(&ini);
	ini_buf_parse(ini, U(txt), sizeof(txt) - 1);
	e = ini_vali_get(ini, U("srv"), 3, U("port"), 4, &v, &vs);
	printf("after parse      vali_get(srv,port) = %d '%.*s' (2 expected: last parsed)\n", e, (int)vs, v);
	/* The most recent operation on a name equal to "port" ignoring case. */
	e = ini_val_set(ini, U("srv"), 3, U("port"), 4, U("8080"), 4);
	printf("set(srv,port,8080) = %d\n", e);
	e = ini_val_get(ini, U("srv"), 3, U("port"), 4, &v, &vs);
	printf("val_get (srv,port) = %d '%.*s'\n", e, (int)vs, v);
	e = ini_vali_get(ini, U("srv"), 3, U("port"), 4, &v, &vs);
	printf("vali_get(srv,port) = %d '%.*s' (8080 expected)\n", e, (int)vs, v);
	if (0 != e || 4 != vs || 0 != memcmp(v, "8080", 4)) bad ++;
	ini_vali_get_int(ini, U("srv"), 3, U("PORT"), 4, &n);
	printf("vali_get_int(srv,PORT) = %zd (8080 expected)\n", n);
	if (8080 != n) bad ++;

	/* Same with sections that differ in case only. */
	ini_val_set(ini, U("Log"), 3, U("level"), 5, U("1"), 1);
	ini_val_set(ini, U("log"), 3, U("level"), 5, U("2"), 1);
	ini_val_set(ini, U("Log"), 3, U("level"), 5, U("3"), 1); /* most recent. */
	e = ini_vali_get(ini, U("LOG"), 3, U("level"), 5, &v, &vs);
	printf("vali_get(LOG,level) = %d '%.*s' (3 expected)\n", e, (int)vs, v);
	if (0 != e || 1 != vs || '3' != v[0]) bad ++;
	ini_destroy(ini);
	return (bad ? 1 : 0);
}
