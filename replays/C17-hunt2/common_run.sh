#!/bin/sh
# usage: common_run.sh <demo dir> <tree> [extra cflags]
D="$1"; T="${2:-/tmp/hunt/C17}"; shift; shift
F="-DHAVE_ACCEPT4 -DHAVE_EXPLICIT_BZERO -DHAVE_MEMMEM -DHAVE_MEMRCHR -DHAVE_PIPE2 -DHAVE_POSIX_SPAWN_FILE_ACTIONS_ADDCLOSEFROM_NP -DHAVE_PTHREAD_SETNAME_NP -DHAVE_REALLOCARRAY -DHAVE_SOCK_CLOEXEC -DHAVE_SOCK_NONBLOCK -DHAVE_STRNCASECMP -DLINUX -D_GNU_SOURCE -D__USE_GNU=1"
O=$(mktemp -d)
clang -g -O1 -w -fsanitize=address,undefined -fno-sanitize-recover=undefined $F -I"$T/include" "$@" \
    "$D/demo.c" "$T/src/utils/ini.c" "$T/src/utils/buf_str.c" -o "$O/demo" || { echo "BUILD FAILED"; exit 2; }
"$O/demo"; rc=$?
rm -rf "$O"
if [ $rc -ne 0 ]; then echo "FAIL (exit $rc)"; exit 1; fi
echo PASS; exit 0
