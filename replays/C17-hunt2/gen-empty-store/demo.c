/* ini_buf_calc_size() says 0 for a store without lines; ini_buf_gen() into a
 * buffer of exactly that size fails with EINVAL instead of writing 0 bytes. */
#include <sys/param.h>
#include <sys/types.h>
#include <inttypes.h>
#include <string.h>
#include <stdlib.h>
#include <stdio.h>
#include <errno.h>
#include "utils/ini.h"

int main(void) {
	ini_p ini;
	size_t sz = 123, w = 777;
	uint8_t *buf;
	int e;

	ini_create(&ini);
	ini_buf_parse(ini, (const uint8_t*)"", 0); /* empty file: OK, no lines. */
	e = ini_buf_calc_size(ini, &sz);
	printf("calc_size = %d, %zu\n", e, sz);
	buf = malloc(sz + 1); /* non NULL. */
	e = ini_buf_gen(ini, buf, sz, &w);
	printf("gen(buf, calc_size) = %d, written %zu (0, 0 expected)\n", e, w);
	free(buf);
	ini_destroy(ini);
	return ((0 == e && 0 == w) ? 0 : 1);
}
