#!/bin/sh
H=$(cd "$(dirname "$0")" && pwd)
exec "$H/../common_run.sh" "$H" "${1:-/tmp/hunt/C17}"
