/* ini_val_set(..., val = NULL, val_size = 0) is accepted by the argument check
 * ((NULL == val && 0 != val_size) -> EINVAL only) but ends in
 * memcpy(line->val, NULL, 0): undefined behaviour (nonnull argument). */
#include <sys/param.h>
#include <sys/types.h>
#include <inttypes.h>
#include <string.h>
#include <stdio.h>
#include <errno.h>
#include "utils/ini.h"

int main(void) {
	ini_p ini;
	const uint8_t *v; size_t vs;
	int e;

	if (0 != ini_create(&ini)) return (2);
	/* new record with the empty value. */
	e = ini_val_set(ini, (const uint8_t*)"s", 1, (const uint8_t*)"k", 1, NULL, 0);
	printf("set new (NULL,0): %d\n", e);
	/* shrink an existing record to the empty value. */
	ini_val_set(ini, (const uint8_t*)"s", 1, (const uint8_t*)"j", 1, (const uint8_t*)"abc", 3);
	e = ini_val_set(ini, (const uint8_t*)"s", 1, (const uint8_t*)"j", 1, NULL, 0);
	printf("set existing (NULL,0): %d\n", e);
	e = ini_val_get(ini, (const uint8_t*)"s", 1, (const uint8_t*)"j", 1, &v, &vs);
	printf("get: %d size %zu\n", e, vs);
	ini_destroy(ini);
	return ((0 == e && 0 == vs) ? 0 : 1);
}
