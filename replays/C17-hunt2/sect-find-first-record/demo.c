/* ini_sect_find[i]() returns the FIRST record of a section name, ini_val_get /
 * ini_val_set work with all records, the LAST wins and new keys go into the LAST
 * record.  Two step lookup (ini_sect_find + ini_sect_val_find) gives the stale
 * value / does not find the key that was just set. */
#include <sys/param.h>
#include <sys/types.h>
#include <inttypes.h>
#include <string.h>
#include <stdio.h>
#include <errno.h>
#include "utils/ini.h"
#define U(s) ((const uint8_t*)(s))

static int
two_step(ini_p ini, const char *s, const char *k, const uint8_t **v, size_t *vs) {
	size_t so, vo;

	so = ini_sect_find(ini, U(s), strlen(s));
	if (INI_OFFSET_INVALID == so) return (ENOENT);
	vo = ini_sect_val_find(ini, so, U(k), strlen(k));
	if (INI_OFFSET_INVALID == vo) return (ENOENT);
	return (ini_sect_val_enum(ini, so, &vo, NULL, NULL, v, vs));
}

int main(void) {
	ini_p ini;
	const uint8_t *v; size_t vs;
	int e, bad = 0;
	static const char base[] = "[main]\r\nhost=default\r\n";
	static const char over[] = "[main]\r\nhost=example.org\r\n";

	ini_create(&ini);
	ini_buf_parse(ini, U(base), sizeof(base) - 1);
	ini_buf_parse(ini, U(over), sizeof(over) - 1); /* most recently parsed. */
	ini_val_set(ini, U("main"), 4, U("port"), 4, U("8080"), 4); /* most recently set. */

	e = ini_val_get(ini, U("main"), 4, U("host"), 4, &v, &vs);
	printf("ini_val_get(main,host)  = %d '%.*s'\n", e, (int)vs, v);
	e = two_step(ini, "main", "host", &v, &vs);
	printf("sect_find+val_find host = %d '%.*s' (example.org expected)\n", e, (0 == e) ? (int)vs : 0, v);
	if (0 != e || 11 != vs || 0 != memcmp(v, "example.org", 11)) bad ++;
	e = ini_val_get(ini, U("main"), 4, U("port"), 4, &v, &vs);
	printf("ini_val_get(main,port)  = %d '%.*s'\n", e, (int)vs, v);
	e = two_step(ini, "main", "port", &v, &vs);
	printf("sect_find+val_find port = %d (0 expected)\n", e);
	if (0 != e) bad ++;
	ini_destroy(ini);
	return (bad ? 1 : 0);
}
