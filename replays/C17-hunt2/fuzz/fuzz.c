#include <sys/param.h>
#include <sys/types.h>
#include <inttypes.h>
#include <string.h>
#include <stdio.h>
#include <errno.h>
#include <stdlib.h>
#include "utils/ini.h"

/* Model: array of lines. */
typedef struct { uint8_t *d; size_t n; } mline;
static mline *ML; static size_t MLn, MLa;
static void ml_ins(size_t at, const uint8_t *d, size_t n){
	if (MLn==MLa){MLa=MLa?MLa*2:64;ML=realloc(ML,MLa*sizeof(mline));}
	memmove(&ML[at+1],&ML[at],(MLn-at)*sizeof(mline));
	ML[at].d=malloc(n+1); if(n) memcpy(ML[at].d,d,n); ML[at].n=n; MLn++;
}
static int ml_type(mline *l, size_t *ns, size_t *no, size_t *vo){ /*0 empty 1 inv 2 com 3 sect 4 val*/
	if(l->n==0) return 0;
	if(l->d[0]==';'||l->d[0]=='#') return 2;
	if(l->d[0]=='['){ size_t i; for(i=l->n;i>0;i--) if(l->d[i-1]==']'){*no=1;*ns=i-1-1;return 3;} return 1;}
	for(size_t i=0;i<l->n;i++) if(l->d[i]=='='){*no=0;*ns=i;*vo=i+1;return 4;}
	return 1;
}
static int eqn(const uint8_t*a,size_t an,const uint8_t*b,size_t bn,int ci){
	if(an!=bn) return 0;
	for(size_t i=0;i<an;i++){uint8_t x=a[i],y=b[i]; if(ci){if(x>='A'&&x<='Z')x|=32; if(y>='A'&&y<='Z')y|=32;} if(x!=y) return 0;}
	return 1;
}
static void ml_parse(const uint8_t *b, size_t n){
	size_t p=0;
	while(p<n){
		size_t e=p; while(e<n&&b[e]!='\n') e++;
		size_t le=e; if(e<n && le>p && b[le-1]=='\r') le--;
		ml_insert: ml_ins(MLn,b+p,le-p);
		p=(e<n)?e+1:n;
	}
}
/* find: returns line idx or -1; last sect idx in *ls */
static long ml_find(const uint8_t*s,size_t sn,const uint8_t*k,size_t kn,int ci,long *ls){
	long found=-1; int in=0; *ls=-1;
	for(size_t i=0;i<MLn;i++){ size_t ns,no,vo; int t=ml_type(&ML[i],&ns,&no,&vo);
		if(t==3){ in=eqn(ML[i].d+no,ns,s,sn,ci); if(in)*ls=(long)i; }
		else if(t==4&&in&&eqn(ML[i].d,ns,k,kn,ci)) found=(long)i; }
	return found;
}
static void ml_set(const uint8_t*s,size_t sn,const uint8_t*k,size_t kn,const uint8_t*v,size_t vn){
	long ls; long f=ml_find(s,sn,k,kn,0,&ls);
	uint8_t *nl=malloc(kn+vn+sn+4); size_t nn;
	if(ls<0){ nl[0]='[';memcpy(nl+1,s,sn);nl[1+sn]=']'; ml_ins(MLn,nl,sn+2); ls=(long)MLn-1; }
	memcpy(nl,k,kn);nl[kn]='=';if(vn)memcpy(nl+kn+1,v,vn);nn=kn+1+vn;
	if(f>=0){ free(ML[f].d); ML[f].d=malloc(nn+1); memcpy(ML[f].d,nl,nn); ML[f].n=nn; free(nl); return; }
	size_t at=(size_t)ls+1; for(;at<MLn;at++){size_t a,b,c; if(ml_type(&ML[at],&a,&b,&c)==3)break;}
	while(at>0 && ML[at-1].n==0) at--;
	ml_ins(at,nl,nn); free(nl);
}

static uint64_t rs=88172645463325252ull;
static uint32_t rnd(void){rs^=rs<<13;rs^=rs>>7;rs^=rs<<17;return (uint32_t)(rs>>11);}
static const char *names[]={"","a","A","b","key","KEY","Key","k k"," x","x ","]","a]b","s","S","long_name_long_name_long_name_0123456789","\x01\xff","z\0z"};
static size_t nsz[]={0,1,1,1,3,3,3,3,2,2,1,3,1,1,40,2,3};
#define NN (sizeof(nsz)/sizeof(nsz[0]))
static size_t gen_val(uint8_t *o){ uint32_t m=rnd()%8; size_t n;
	switch(m){case 0:n=0;break;case 1:n=rnd()%4;break;case 2:n=rnd()%40;break;case 3:n=14+rnd()%6;break;case 4: n=rnd()%600;break; default:n=rnd()%24;}
	for(size_t i=0;i<n;i++){ uint8_t c; do{c=(uint8_t)("abc=[];# ]\t\0xyz01"[rnd()%18]);}while(0); o[i]=c;} return n;}
static size_t gen_text(uint8_t *o){ size_t n=0; uint32_t L=rnd()%8;
	for(uint32_t l=0;l<L;l++){ uint32_t t=rnd()%10; size_t i;
		if(t==0){} else if(t<3){ i=rnd()%NN; o[n++]='['; memcpy(o+n,names[i],nsz[i]); n+=nsz[i]; if(rnd()%8)o[n++]=']'; if(!(rnd()%6)){o[n++]='x';}}
		else if(t<8){ i=rnd()%NN; memcpy(o+n,names[i],nsz[i]); n+=nsz[i]; if(rnd()%10)o[n++]='='; n+=gen_val(o+n)%30; }
		else if(t==8){ o[n++]=';'; o[n++]='c'; } else { o[n++]='\r'; if(rnd()%2)o[n++]='q'; if(rnd()%2)o[n++]='\r';}
		if(l+1<L || rnd()%2){ if(rnd()%2) o[n++]='\r'; o[n++]='\n'; }
	} return n; }

static int fails;
#define CHECK(c,...) do{ if(!(c)){ printf("FAIL line %d: ",__LINE__); printf(__VA_ARGS__); printf("\n"); fails++; } }while(0)

static void check_all(ini_p ini){
	/* gen vs model */
	size_t sz=0,w=0,exp=0; for(size_t i=0;i<MLn;i++) exp+=ML[i].n+2;
	CHECK(0==ini_buf_calc_size(ini,&sz),"calc");
	CHECK(sz==exp,"calc size %zu model %zu",sz,exp);
	if(sz){
		uint8_t *b=malloc(sz); int e=ini_buf_gen(ini,b,sz,&w);
		CHECK(e==0&&w==sz,"gen e=%d w=%zu sz=%zu",e,w,sz);
		size_t o=0; int bad=0; for(size_t i=0;i<MLn&&!bad;i++){ if(memcmp(b+o,ML[i].d,ML[i].n))bad=1; o+=ML[i].n; if(b[o]!='\r'||b[o+1]!='\n')bad=1; o+=2;}
		CHECK(!bad,"gen text differs from model");
		/* smaller buffers */
		for(int t=0;t<3;t++){ size_t s2=(t==0)?sz-1:(t==1?1:(rnd()%sz)); if(!s2)continue; uint8_t *b2=malloc(s2); w=0; e=ini_buf_gen(ini,b2,s2,&w); CHECK(e!=0&&w<=s2,"small gen"); free(b2);} 
		/* reparse */
		ini_p i2; ini_create(&i2); CHECK(0==ini_buf_parse(i2,b,sz),"reparse"); size_t s3=0; ini_buf_calc_size(i2,&s3); CHECK(s3==sz,"reparse size %zu vs %zu",s3,sz);
		uint8_t *b3=malloc(sz); ini_buf_gen(i2,b3,sz,&w); CHECK(w==sz&&!memcmp(b,b3,sz),"reparse text");
		free(b3); ini_destroy(i2); free(b);
	}
	/* lookups */
	for(size_t si=0;si<NN;si++) for(size_t ki=0;ki<NN;ki++){
		if((nsz[si]==0)||(nsz[ki]==0)) { /* names by C string convention: "" */ }
		for(int ci=0;ci<2;ci++){
			long ls; long f=ml_find((const uint8_t*)names[si],nsz[si],(const uint8_t*)names[ki],nsz[ki],ci,&ls);
			const uint8_t *v=NULL; size_t vn=0; int e=(ci?ini_vali_get:ini_val_get)(ini,(const uint8_t*)names[si],nsz[si],(const uint8_t*)names[ki],nsz[ki],&v,&vn);
			if(f<0) CHECK(e==ENOENT,"get expected ENOENT got %d s=%zu k=%zu ci=%d",e,si,ki,ci);
			else { size_t ns,no,vo; ml_type(&ML[f],&ns,&no,&vo); CHECK(e==0&&vn==ML[f].n-vo&&!memcmp(v,ML[f].d+vo,vn),"get mismatch e=%d s=%zu k=%zu ci=%d",e,si,ki,ci);}            
		}
	}
	/* enumeration */
	size_t so=0; size_t mi=0; const uint8_t *sn; size_t sns;
	while(0==ini_sect_enum(ini,&so,&sn,&sns)){
		size_t a,b,c; while(mi<MLn&&ml_type(&ML[mi],&a,&b,&c)!=3) mi++;
		CHECK(mi<MLn&&mi==so&&a==sns&&!memcmp(sn,ML[mi].d+1,sns),"sect enum");
		size_t vo=0,mj=mi+1; const uint8_t*vn,*vv; size_t vns,vvs;
		while(0==ini_sect_val_enum(ini,so,&vo,&vn,&vns,&vv,&vvs)){
			int t; while(mj<MLn&&(t=ml_type(&ML[mj],&a,&b,&c))!=4&&t!=3) mj++;
			CHECK(mj<MLn&&mj==vo&&ml_type(&ML[mj],&a,&b,&c)==4&&a==vns&&!memcmp(vn,ML[mj].d,vns)&&vvs==ML[mj].n-c&&!memcmp(vv,ML[mj].d+c,vvs),"val enum");
			vo++; mj++;
		}
		{int t; while(mj<MLn&&(t=ml_type(&ML[mj],&a,&b,&c))!=4&&t!=3) mj++; CHECK(mj>=MLn||ml_type(&ML[mj],&a,&b,&c)==3,"val enum ended early");}
		so++; mi++;
	}
	{size_t a,b,c; while(mi<MLn&&ml_type(&ML[mi],&a,&b,&c)!=3) mi++; CHECK(mi>=MLn,"sect enum ended early");}
}

int main(int argc,char**argv){
	uint32_t iters=argc>1?(uint32_t)atoi(argv[1]):2000;
	static uint8_t tb[8192], vb[1024];
	for(uint32_t it=0;it<iters&&fails<5;it++){
		ini_p ini; ini_create(&ini); for(size_t i=0;i<MLn;i++)free(ML[i].d); MLn=0;
		uint32_t ops=rnd()%40;
		for(uint32_t o=0;o<ops&&fails<5;o++){
			uint32_t k=rnd()%10;
			if(k<2){ size_t n=gen_text(tb); uint8_t *x=malloc(n?n:1); memcpy(x,tb,n); int e=ini_buf_parse(ini,x,n); CHECK(e==0,"parse %d",e); ml_parse(x,n); free(x);} 
			else { size_t si=rnd()%NN, ki=rnd()%NN; size_t vn=gen_val(vb); for(size_t i=0;i<vn;i++) if(vb[i]=='\r'||vb[i]=='\n') vb[i]='.';
				int legal=1; if(memchr(names[ki],'=',nsz[ki]))legal=0; if(nsz[ki]&&strchr(";#[",names[ki][0])&&names[ki][0])legal=0;
				uint8_t *x=malloc(vn?vn:1); memcpy(x,vb,vn);
				/* size 0 means C string: only names with nsz 0 -> "" */
				int e=ini_val_set(ini,(const uint8_t*)names[si],nsz[si],(const uint8_t*)names[ki],nsz[ki],x,vn);
				free(x);
				if(legal){ CHECK(e==0,"set %d",e); if(e==0) ml_set((const uint8_t*)names[si],nsz[si],(const uint8_t*)names[ki],nsz[ki],vb,vn);} else CHECK(e==EINVAL,"illegal set %d",e);
			}
			check_all(ini);
		}
		ini_destroy(ini);
	}
	printf(fails?"FAILED\n":"OK\n"); return fails?1:0;
}
