/* The caller is "outside the pool" but is itself a thread of ANOTHER pool
 * (src = NULL -> tpt_get_current() returns pool A's thread).  The broadcast
 * code treats any non-NULL src as a member of the target pool B:
 *   sync : TP_BMSG_F_SYNC | TP_BMSG_F_SELF_SKIP  -> active_thr_count = N - 1
 *          although N messages are sent: tpt_msg_bsend_ex() returns while one
 *          callback is still running and that worker then locks / decrements
 *          the dead on-stack record (stack-use-after-return).
 *   cb   : tpt_msg_cbsend(TP_CBMSG_F_SELF_SKIP)  -> completion fires after N-1
 *          callbacks, record freed, last worker uses it (heap-use-after-free).
 *   one  : pool B has 1 thread: SELF_SKIP sends nothing (B's thread is not the
 *          caller), SYNC runs the callback on pool A's thread. */
#include <sys/param.h>
#include <sys/types.h>
#include <inttypes.h>
#include <string.h>
#include <stdio.h>
#include <stdlib.h>
#include <errno.h>
#include <unistd.h>
#include <pthread.h>
#include "threadpool/threadpool.h"
#include "threadpool/threadpool_msg_sys.h"

static tp_p tpa, tpb;
static volatile int started, finished, fail, driver_done;
static volatile int done_runs, finished_at_done;
static pthread_t cb_thread;
static const char *mode;

static void
slow_cb(tpt_p tpt, void *udata) {
	(void)udata;
	__sync_fetch_and_add(&started, 1);
	usleep((useconds_t)(50000 * (1 + tpt_get_num(tpt))));
	cb_thread = pthread_self();
	__sync_fetch_and_add(&finished, 1);
}
static void
done_cb(tpt_p tpt, size_t sent, size_t failed, void *udata) {
	(void)tpt; (void)udata;
	done_runs ++;
	finished_at_done = finished;
	printf("cb  : completion: sent=%zu failed=%zu, callbacks finished at that time=%i\n",
	    sent, failed, finished_at_done);
	if ((size_t)finished_at_done != sent) {
		printf("FAIL: completion fired before the last callback finished\n");
		fail ++;
	}
	fflush(stdout);
}

static void
clobber(void) { /* Reuse the stack area of the returned tpt_msg_bsend_ex() frame. */
	volatile char pad[1024];
	memset((void*)pad, 0xa5, sizeof(pad));
}

static void
driver_cb(tpt_p tpt, void *udata) { /* Runs on pool A's thread. */
	size_t sent = 0, failed = 0;
	int error, fin;
	(void)udata;

	if (0 == strcmp(mode, "sync")) {
		error = tpt_msg_bsend_ex(tpb, NULL, (TP_BMSG_F_SYNC | TP_BMSG_F_SELF_SKIP),
		    slow_cb, NULL, &sent, &failed);
		fin = finished;
		printf("sync: ret=%i sent=%zu failed=%zu, callbacks finished at return=%i\n",
		    error, sent, failed, fin);
		if ((size_t)fin != sent) {
			printf("FAIL: synchronous broadcast returned before every callback finished\n");
			fail ++;
		}
		fflush(stdout);
		clobber();
	} else if (0 == strcmp(mode, "cb")) {
		error = tpt_msg_cbsend(tpb, NULL, TP_CBMSG_F_SELF_SKIP, slow_cb, NULL, done_cb);
		printf("cb  : ret=%i\n", error);
	} else { /* one */
		started = finished = 0;
		error = tpt_msg_bsend_ex(tpb, NULL, TP_BMSG_F_SELF_SKIP, slow_cb, NULL, &sent, &failed);
		usleep(300000);
		printf("one : SELF_SKIP from pool A thread to 1-thread pool B: ret=%i sent=%zu failed=%zu callbacks run=%i\n",
		    error, sent, failed, finished);
		if (1 != finished) {
			printf("FAIL: pool B's only thread is not the caller but did not get the callback\n");
			fail ++;
		}
		started = finished = 0;
		error = tpt_msg_bsend_ex(tpb, NULL, TP_BMSG_F_SYNC, slow_cb, NULL, &sent, &failed);
		printf("one : SYNC from pool A thread to 1-thread pool B: ret=%i sent=%zu failed=%zu callbacks run=%i on %s thread\n",
		    error, sent, failed, finished,
		    pthread_equal(cb_thread, pthread_self()) ? "the CALLER's (pool A)" : "pool B's");
		if (pthread_equal(cb_thread, pthread_self())) {
			printf("FAIL: callback ran on the foreign caller thread, not on pool B's thread\n");
			fail ++;
		}
	}
	(void)tpt;
	driver_done = 1;
}

int
main(int argc, char **argv) {
	tp_settings_t s;
	int i;

	mode = (argc > 1) ? argv[1] : "sync";
	setvbuf(stdout, NULL, _IOLBF, 0);
	tp_settings_def(&s); s.flags = 0;
	s.threads_max = 1;
	if (0 != tp_create(&s, &tpa)) return (2);
	s.threads_max = (0 == strcmp(mode, "one")) ? 1 : 4;
	if (0 != tp_create(&s, &tpb)) return (2);
	tp_threads_create(tpa, 0);
	tp_threads_create(tpb, 0);
	usleep(100000);
	tpt_msg_send(tp_thread_get(tpa, 0), NULL, 0, driver_cb, NULL);
	for (i = 0; i < 300 && 0 == driver_done; i ++) usleep(10000);
	usleep(600000); /* Let the late worker touch the dead record. */
	if (0 == strcmp(mode, "cb") && 1 != done_runs) {
		printf("FAIL: completion ran %i times\n", done_runs);
		fail ++;
	}
	printf(fail ? "RESULT(%s): FAIL\n" : "RESULT(%s): OK\n", mode);
	fflush(stdout);
	_exit(fail ? 1 : 0);
}
