#!/bin/sh
# usage: run.sh <tree>
D="$(cd "$(dirname "$0")" && pwd)"
T="${1:?tree path}"
build() {
	T="$1"; SRC="$2"; OUT="$3"; shift 3
	${CC:-clang} -g -O1 -fno-omit-frame-pointer "$@" \
	  -DHAVE_ACCEPT4 -DHAVE_EXPLICIT_BZERO -DHAVE_MEMMEM -DHAVE_MEMRCHR -DHAVE_PIPE2 \
	  -DHAVE_POSIX_SPAWN_FILE_ACTIONS_ADDCLOSEFROM_NP -DHAVE_PTHREAD_SETNAME_NP \
	  -DHAVE_REALLOCARRAY -DHAVE_SOCK_CLOEXEC -DHAVE_SOCK_NONBLOCK -DHAVE_STRNCASECMP \
	  -DLINUX -D_GNU_SOURCE -D__USE_GNU=1 -I"$T/include" -w \
	  "$SRC" "$T/src/threadpool/threadpool.c" "$T/src/threadpool/threadpool_msg_sys.c" \
	  -o "$OUT" -lpthread
}
O="$(mktemp -d)"
build "$T" "$D/demo.c" "$O/demo" -fsanitize=address || { echo "BUILD FAILED"; exit 2; }
rc=0
for m in one sync cb; do
	ASAN_OPTIONS=detect_stack_use_after_return=1:detect_leaks=0 "$O/demo" $m 2>"$O/err.txt" || rc=1
	grep -E "ERROR: AddressSanitizer|WRITE of size|READ of size|is located in stack of|freed by thread|#[0-4] " "$O/err.txt" | head -14
done
rm -rf "$O"
[ $rc -ne 0 ] && echo "FAIL"
exit $rc
