#!/bin/sh
# usage: run.sh <tree>
D="$(cd "$(dirname "$0")" && pwd)"
T="${1:?tree path}"
build() {
	T="$1"; SRC="$2"; OUT="$3"; shift 3
	${CC:-clang} -g -O1 -fno-omit-frame-pointer "$@" \
	  -DHAVE_ACCEPT4 -DHAVE_EXPLICIT_BZERO -DHAVE_MEMMEM -DHAVE_MEMRCHR -DHAVE_PIPE2 \
	  -DHAVE_POSIX_SPAWN_FILE_ACTIONS_ADDCLOSEFROM_NP -DHAVE_PTHREAD_SETNAME_NP \
	  -DHAVE_REALLOCARRAY -DHAVE_SOCK_CLOEXEC -DHAVE_SOCK_NONBLOCK -DHAVE_STRNCASECMP \
	  -DLINUX -D_GNU_SOURCE -D__USE_GNU=1 -I"$T/include" -w \
	  "$SRC" "$T/src/threadpool/threadpool.c" "$T/src/threadpool/threadpool_msg_sys.c" \
	  -o "$OUT" -lpthread
}
O="$(mktemp -d)"
build "$T" "$D/demo.c" "$O/demo" || { echo "BUILD FAILED"; exit 2; }
"$O/demo" 2>/dev/null; rc=$?
rm -rf "$O"
exit $rc
