/* tpt_msg_bsend_ex(TP_BMSG_F_SYNC) issued from INSIDE the pool, flags without
 * SELF_SKIP / SELF_DIRECT.  Pool size 1 is special-cased ("Cant async call from
 * self": the callback is called directly) and returns.  Pool sizes 2..16 queue
 * the caller's own copy into the caller's own pipe and then spin waiting for
 * it: the call never returns (the caller can not read its queue while it
 * spins), for every schedule. */
#include <sys/param.h>
#include <sys/types.h>
#include <inttypes.h>
#include <string.h>
#include <stdio.h>
#include <stdlib.h>
#include <errno.h>
#include <unistd.h>
#include <pthread.h>
#include "threadpool/threadpool.h"
#include "threadpool/threadpool_msg_sys.h"

static tp_p tp;
static volatile int cb_runs, returned, ret;
static volatile size_t g_sent, g_failed;
static void bcast_cb(tpt_p tpt, void *udata) { (void)tpt; (void)udata; __sync_fetch_and_add(&cb_runs, 1); }
static void driver_cb(tpt_p tpt, void *udata) {
	size_t sent = 0, failed = 0;
	(void)tpt;
	ret = tpt_msg_bsend_ex(tp, NULL, (uint32_t)(uintptr_t)udata, bcast_cb, NULL, &sent, &failed);
	g_sent = sent; g_failed = failed;
	returned = 1;
}
static int
run(size_t n, uint32_t flags, const char *name) {
	tp_settings_t s;
	int i;

	tp_settings_def(&s); s.flags = 0; s.threads_max = n;
	if (0 != tp_create(&s, &tp)) exit(2);
	tp_threads_create(tp, 0);
	usleep(100000);
	cb_runs = returned = 0;
	tpt_msg_send(tp_thread_get(tp, 0), NULL, 0, driver_cb, (void*)(uintptr_t)flags);
	for (i = 0; i < 200 && 0 == returned; i ++) usleep(10000); /* 2 s watchdog */
	if (returned) {
		printf("n=%zu %s from thread 0: returned %i, sent=%zu failed=%zu, callbacks run=%i\n",
		    n, name, ret, g_sent, g_failed, cb_runs);
		return (0);
	}
	printf("n=%zu %s from thread 0: NOT returned after 2 s, callbacks run=%i of %zu (caller spins on its own queued copy)\n",
	    n, name, cb_runs, n);
	printf("FAIL: synchronous broadcast never returns\n");
	return (1);
}
int
main(void) {
	int fail = 0;
	setvbuf(stdout, NULL, _IOLBF, 0);
	fail += run(1, TP_BMSG_F_SYNC, "SYNC");
	fail += run(2, (TP_BMSG_F_SYNC | TP_MSG_F_SELF_DIRECT), "SYNC|SELF_DIRECT");
	fail += run(2, TP_BMSG_F_SYNC, "SYNC");
	fail += run(4, (TP_BMSG_F_SYNC | TP_BMSG_F_SYNC_USLEEP), "SYNC|SYNC_USLEEP");
	printf(fail ? "RESULT: FAIL\n" : "RESULT: OK\n");
	_exit(fail ? 1 : 0);
}
