/* Completion is posted to the origin thread with
 *   tpt_msg_send(origin, ..., TP_MSG_F_FAIL_DIRECT | TP_MSG_F_SELF_DIRECT, tpt_msg_cb_done_proxy_cb, msg_data)
 * and the result is ignored.  If the origin is not running (thread 0 reserved
 * for tp_thread_attach_first(), i.e. tp_threads_create(tp, 1)), tpt_msg_send()
 * returns EHOSTDOWN: tpt_msg_cbsend() has returned 0 ("scheduled, counts on
 * done cb"), every callback runs, but the completion callback never fires -
 * not even after thread 0 has attached - and the record is leaked. */
#include <sys/param.h>
#include <sys/types.h>
#include <inttypes.h>
#include <string.h>
#include <stdio.h>
#include <stdlib.h>
#include <errno.h>
#include <unistd.h>
#include <pthread.h>
#include "threadpool/threadpool.h"
#include "threadpool/threadpool_msg_sys.h"

static tp_p tp;
static volatile int cb_runs, done_runs;
static void bcast_cb(tpt_p tpt, void *udata) { (void)tpt; (void)udata; __sync_fetch_and_add(&cb_runs, 1); }
static void done_cb(tpt_p tpt, size_t sent, size_t failed, void *udata) {
	(void)tpt; (void)udata; done_runs ++;
	printf("  completion: sent=%zu failed=%zu\n", sent, failed);
}
static void *attach(void *arg) { (void)arg; tp_thread_attach_first(tp); return (NULL); }

int
main(void) {
	tp_settings_t s;
	pthread_t pt;
	int fail = 0, error;
	uint32_t flags[2] = { 0, TP_CBMSG_F_ONE_BY_ONE };
	size_t i;

	setvbuf(stdout, NULL, _IOLBF, 0);
	tp_settings_def(&s); s.flags = 0; s.threads_max = 3;
	if (0 != tp_create(&s, &tp)) return (2);
	tp_threads_create(tp, 1); /* Threads 1, 2 run; thread 0 will be attached later. */
	usleep(100000);
	for (i = 0; i < 2; i ++) {
		cb_runs = done_runs = 0;
		error = tpt_msg_cbsend(tp, tp_thread_get(tp, 0), (flags[i] | TP_CBMSG_F_SELF_SKIP),
		    bcast_cb, NULL, done_cb);
		usleep(200000);
		printf("%s: origin thread 0 not running: ret=%i callbacks run=%i completion runs=%i\n",
		    flags[i] ? "one-by-one" : "plain     ", error, cb_runs, done_runs);
		if (0 == error && 1 != done_runs) {
			printf("FAIL: cbsend returned 0 but the completion callback never fired\n");
			fail ++;
		}
	}
	/* Attach thread 0 now: the lost completions do not show up either. */
	done_runs = 0;
	pthread_create(&pt, NULL, attach, NULL);
	usleep(300000);
	printf("after thread 0 attached: completion runs=%i (2 broadcasts outstanding)\n", done_runs);
	printf(fail ? "RESULT: FAIL\n" : "RESULT: OK\n");
	_exit(fail ? 1 : 0);
}
