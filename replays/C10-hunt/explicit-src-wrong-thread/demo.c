/* A caller outside the pool must name an origin thread to use tpt_msg_cbsend()
 * (src = NULL gives EINVAL), exactly as tests/threadpool/main.c does:
 *     tpt_msg_cbsend(tp, tp_thread_get(tp, 0), 0, cb, udata, done_cb)
 * With pool size >= 2 the callbacks run on the pool threads and the completion
 * is posted to thread 0.  With pool size 1 the "1 thread specific" shortcut
 * assumes src is the calling thread and calls msg_cb() and done_cb() directly:
 * both run on the foreign caller thread, concurrently with whatever thread 0 is
 * doing, and even when thread 0 is not running at all (reported sent = 1). */
#include <sys/param.h>
#include <sys/types.h>
#include <inttypes.h>
#include <string.h>
#include <stdio.h>
#include <stdlib.h>
#include <errno.h>
#include <unistd.h>
#include <pthread.h>
#include "threadpool/threadpool.h"
#include "threadpool/threadpool_msg_sys.h"

static tp_p tp;
static pthread_t cb_thr, done_thr;
static volatile int cb_runs, done_runs, thr0_busy, overlap;
static volatile size_t d_sent, d_failed;

static void busy_cb(tpt_p tpt, void *udata) { (void)tpt; (void)udata; thr0_busy = 1; usleep(300000); thr0_busy = 0; }
static void bcast_cb(tpt_p tpt, void *udata) {
	(void)udata; if (0 == tpt_get_num(tpt)) cb_thr = pthread_self(); cb_runs ++;
	if (thr0_busy && 0 == tpt_get_num(tpt)) overlap ++;
}
static void done_cb(tpt_p tpt, size_t sent, size_t failed, void *udata) {
	(void)tpt; (void)udata; done_thr = pthread_self(); done_runs ++; d_sent = sent; d_failed = failed;
}

static int
run(size_t n, int start_threads) {
	tp_settings_t s;
	int fail = 0, error;

	tp_settings_def(&s); s.flags = 0; s.threads_max = n;
	if (0 != tp_create(&s, &tp)) exit(2);
	if (start_threads) {
		tp_threads_create(tp, 0);
		usleep(100000);
		tpt_msg_send(tp_thread_get(tp, 0), NULL, 0, busy_cb, NULL); /* thread 0 is inside a callback for 300 ms */
		usleep(50000);
	}
	cb_runs = done_runs = overlap = 0;
	error = tpt_msg_cbsend(tp, tp_thread_get(tp, 0), 0, bcast_cb, NULL, done_cb);
	usleep(start_threads ? 500000 : 100000);
	printf("n=%zu threads %s: ret=%i cb_runs=%i done_runs=%i done(sent=%zu failed=%zu)%s%s%s\n",
	    n, start_threads ? "running" : "NOT started", error, cb_runs, done_runs, d_sent, d_failed,
	    (cb_runs && pthread_equal(cb_thr, pthread_self())) ? " [callback ran on the CALLER thread]" : "",
	    (done_runs && pthread_equal(done_thr, pthread_self())) ? " [completion ran on the CALLER thread]" : "",
	    overlap ? " [callback 'of thread 0' overlapped thread 0's running callback]" : "");
	if (cb_runs && pthread_equal(cb_thr, pthread_self())) { printf("FAIL: callback not run on the pool thread\n"); fail ++; }
	if (done_runs && pthread_equal(done_thr, pthread_self())) { printf("FAIL: completion not run on the originating pool thread\n"); fail ++; }
	if (!start_threads && 0 != d_sent && 0 != done_runs) { printf("FAIL: sent=%zu reported for a thread that is not running\n", d_sent); fail ++; }
	return (fail);
}

int
main(void) {
	int fail = 0;
	setvbuf(stdout, NULL, _IOLBF, 0);
	printf("reference, pool of 2:\n");
	fail += run(2, 1);
	printf("pool of 1:\n");
	fail += run(1, 1);
	fail += run(1, 0);
	printf(fail ? "RESULT: FAIL\n" : "RESULT: OK\n");
	_exit(fail ? 1 : 0);
}
