/* tpt_msg_cbsend(TP_CBMSG_F_ONE_BY_ONE) from a running pool thread while every
 * OTHER thread is not running (here: thread 0 of a 2/4-thread pool is not yet
 * attached - tp_threads_create(tp, 1 = skip first) - the documented start-up
 * pattern).  Flags carry neither SELF_SKIP nor SELF_DIRECT, so the caller's own
 * thread is a target and is normally served last by the token chain.
 * Observed: ESPIPE, callback never runs on the (running, targeted) caller
 * thread, completion never fires.  The plain (non one-by-one) form in the very
 * same situation runs the callback on the caller and completes with (1, N-1). */
#include <sys/param.h>
#include <sys/types.h>
#include <inttypes.h>
#include <string.h>
#include <stdio.h>
#include <stdlib.h>
#include <errno.h>
#include <unistd.h>
#include <pthread.h>
#include "threadpool/threadpool.h"
#include "threadpool/threadpool_msg_sys.h"

static tp_p tp;
static volatile int cb_runs[32];
static volatile int done_runs, done_sent, done_failed;
static volatile int ret_plain = -1, ret_obo = -1, issued = 0;

static void bcast_cb(tpt_p tpt, void *udata) { (void)udata; cb_runs[tpt_get_num(tpt)] ++; }
static void done_cb(tpt_p tpt, size_t sent, size_t failed, void *udata) {
	(void)tpt; (void)udata; done_runs ++; done_sent = (int)sent; done_failed = (int)failed;
}
static void issue_plain(tpt_p tpt, void *udata) {
	(void)tpt; (void)udata;
	ret_plain = tpt_msg_cbsend(tp, NULL, 0, bcast_cb, NULL, done_cb); issued = 1;
}
static void issue_obo(tpt_p tpt, void *udata) {
	(void)tpt; (void)udata;
	ret_obo = tpt_msg_cbsend(tp, NULL, TP_CBMSG_F_ONE_BY_ONE, bcast_cb, NULL, done_cb); issued = 1;
}

static int
run(size_t n) {
	tp_settings_t s;
	size_t caller = (n - 1), i;
	int fail = 0, total;

	tp_settings_def(&s);
	s.threads_max = n; s.flags = 0;
	if (0 != tp_create(&s, &tp)) exit(2);
	tp_threads_create(tp, 1); /* thread 0 reserved for tp_thread_attach_first(): not running. */
	usleep(100000);
	/* Make all other threads but the caller not running too. */
	for (i = 1; i < caller; i ++) tp_thread_dettach(tp_thread_get(tp, i));

	/* Reference: plain completion broadcast. */
	memset((void*)cb_runs, 0, sizeof(cb_runs)); done_runs = 0; issued = 0;
	tpt_msg_send(tp_thread_get(tp, caller), NULL, 0, issue_plain, NULL);
	usleep(200000);
	printf("n=%zu plain     : ret=%i cb on caller=%i done_runs=%i done(sent=%i, failed=%i)\n",
	    n, ret_plain, cb_runs[caller], done_runs, done_sent, done_failed);

	/* One-by-one. */
	memset((void*)cb_runs, 0, sizeof(cb_runs)); done_runs = 0; done_sent = done_failed = -1; issued = 0;
	tpt_msg_send(tp_thread_get(tp, caller), NULL, 0, issue_obo, NULL);
	usleep(200000);
	for (total = 0, i = 0; i < n; i ++) total += cb_runs[i];
	printf("n=%zu one-by-one: ret=%i (%s) cb on caller=%i cb total=%i done_runs=%i done(sent=%i, failed=%i)\n",
	    n, ret_obo, strerror(ret_obo), cb_runs[caller], total, done_runs, done_sent, done_failed);
	if (1 != cb_runs[caller]) {
		printf("FAIL: running, targeted caller thread %zu did not get the callback\n", caller);
		fail ++;
	}
	if (1 != done_runs) {
		printf("FAIL: completion callback ran %i times (expected once, with sent=1 failed=%zu)\n",
		    done_runs, (n - 1));
		fail ++;
	}
	for (i = 1; i < caller; i ++) tp_thread_get(tp, i); /* nop */
	/* Let the detached threads leave their loops. */
	tp_shutdown(tp);
	for (i = 1; i < n; i ++) tpt_msg_send(tp_thread_get(tp, i), NULL, TP_MSG_F_FORCE, bcast_cb, NULL);
	return (fail);
}

int
main(void) {
	int fail = 0;
	fail += run(2);
	fail += run(4);
	printf(fail ? "RESULT: FAIL\n" : "RESULT: OK\n");
	fflush(stdout);
	_exit(fail ? 1 : 0);
}
