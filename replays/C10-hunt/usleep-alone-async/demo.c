/* Header: TP_BMSG_F_SYNC_USLEEP - "Wait before all thread process message
 * before return."  tpt_msg_cbsend() treats SYNC and SYNC_USLEEP alike (either
 * one -> EINVAL), but tpt_msg_bsend_ex() only tests TP_BMSG_F_SYNC: with
 * TP_BMSG_F_SYNC_USLEEP alone it returns at once while no callback has
 * finished. */
#include <sys/param.h>
#include <sys/types.h>
#include <inttypes.h>
#include <string.h>
#include <stdio.h>
#include <stdlib.h>
#include <errno.h>
#include <unistd.h>
#include <pthread.h>
#include "threadpool/threadpool.h"
#include "threadpool/threadpool_msg_sys.h"

static volatile int finished;
static void slow_cb(tpt_p tpt, void *udata) { (void)tpt; (void)udata; usleep(200000); __sync_fetch_and_add(&finished, 1); }

int
main(void) {
	tp_p tp;
	tp_settings_t s;
	size_t sent, failed;
	int fail = 0, error, fin;
	uint32_t fl[2] = { (TP_BMSG_F_SYNC | TP_BMSG_F_SYNC_USLEEP), TP_BMSG_F_SYNC_USLEEP };
	int i;

	setvbuf(stdout, NULL, _IOLBF, 0);
	tp_settings_def(&s); s.flags = 0; s.threads_max = 4;
	if (0 != tp_create(&s, &tp)) return (2);
	tp_threads_create(tp, 0);
	usleep(100000);
	for (i = 0; i < 2; i ++) {
		finished = 0;
		error = tpt_msg_bsend_ex(tp, NULL, fl[i], slow_cb, NULL, &sent, &failed);
		fin = finished;
		printf("%s: ret=%i sent=%zu failed=%zu callbacks finished at return=%i\n",
		    i ? "SYNC_USLEEP alone  " : "SYNC | SYNC_USLEEP ", error, sent, failed, fin);
		if ((size_t)fin != sent) { printf("FAIL: returned before the callbacks finished\n"); fail ++; }
		usleep(400000);
	}
	printf(fail ? "RESULT: FAIL\n" : "RESULT: OK\n");
	_exit(fail ? 1 : 0);
}
