/* Pool of 1 thread, broadcast issued from inside the pool (src = thread 0).
 * tpt_msg_bsend_ex(TP_BMSG_F_SYNC) runs the callback once but reports
 * send_msg_cnt = 0, error_cnt = 0 (targeted = 1).
 * Without SYNC a failed send (pipe full) is reported as 0 sent / 0 failed. */
#include <sys/param.h>
#include <sys/types.h>
#include <inttypes.h>
#include <string.h>
#include <stdio.h>
#include <stdlib.h>
#include <errno.h>
#include <unistd.h>
#include <pthread.h>
#include "threadpool/threadpool.h"
#include "threadpool/threadpool_msg_sys.h"

static volatile int cb_runs = 0;
static volatile int finished = 0;
static int fail = 0;
static tp_p tp;

static void bcast_cb(tpt_p tpt, void *udata) { (void)tpt; (void)udata; cb_runs ++; }

static void
driver_cb(tpt_p tpt, void *udata) {
	size_t sent = 777, failed = 777, i;
	int error;
	(void)udata;

	/* 1. Synchronous broadcast from the pool's only thread. */
	cb_runs = 0;
	error = tpt_msg_bsend_ex(tp, NULL, TP_BMSG_F_SYNC, bcast_cb, NULL, &sent, &failed);
	printf("SYNC from inside, 1 thread: ret=%i cb_runs=%i sent=%zu failed=%zu (targeted 1)\n",
	    error, cb_runs, sent, failed);
	if (1 != (sent + failed) || (size_t)cb_runs != sent) {
		printf("FAIL: sent + failed != targeted / callback ran but was not counted\n");
		fail ++;
	}
	/* Same with SELF_DIRECT, as radius_client_destroy() uses it. */
	cb_runs = 0;
	error = tpt_msg_bsend_ex(tp, NULL, (TP_BMSG_F_SYNC | TP_MSG_F_SELF_DIRECT),
	    bcast_cb, NULL, &sent, &failed);
	printf("SYNC|SELF_DIRECT from inside, 1 thread: ret=%i cb_runs=%i sent=%zu failed=%zu\n",
	    error, cb_runs, sent, failed);
	if (1 != (sent + failed) || (size_t)cb_runs != sent) {
		printf("FAIL: sent + failed != targeted\n");
		fail ++;
	}

	/* 2. Asynchronous: fill own queue until the send fails. */
	for (i = 0; i < 100000; i ++) {
		error = tpt_msg_bsend_ex(tp, NULL, 0, bcast_cb, NULL, &sent, &failed);
		if (0 != error)
			break;
	}
	printf("async from inside, 1 thread, queue full after %zu sends: ret=%i (%s) sent=%zu failed=%zu (targeted 1)\n",
	    i, error, strerror(error), sent, failed);
	if (0 != error && 1 != (sent + failed)) {
		printf("FAIL: failed send not counted: sent + failed = %zu, targeted 1\n", (sent + failed));
		fail ++;
	}
	finished = 1;
	(void)tpt;
}

int
main(void) {
	tp_settings_t s;
	int i;

	tp_settings_def(&s);
	s.threads_max = 1;
	s.flags = 0;
	if (0 != tp_create(&s, &tp)) return (2);
	tp_threads_create(tp, 0);
	usleep(100000);
	if (0 != tpt_msg_send(tp_thread_get(tp, 0), NULL, 0, driver_cb, NULL)) return (2);
	for (i = 0; i < 500 && 0 == finished; i ++) usleep(10000);
	if (0 == finished) { printf("FAIL: driver did not finish\n"); return (1); }
	usleep(200000);
	tp_shutdown(tp);
	tp_shutdown_wait(tp);
	tp_destroy(tp);
	printf(fail ? "RESULT: FAIL (%i)\n" : "RESULT: OK\n", fail);
	return (fail ? 1 : 0);
}
