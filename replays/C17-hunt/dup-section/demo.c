#include <sys/param.h>
#include <sys/types.h>
#include <inttypes.h>
#include <string.h>
#include <stdio.h>
#include <stdlib.h>
#include <errno.h>
#include "utils/ini.h"
#define U(s) ((const uint8_t*)(s))
static int fails;
static void expect_val(const char *what, int err, const uint8_t *v, size_t vn, const char *exp) {
	size_t en = strlen(exp);
	if (0 != err) { printf("FAIL: %s: error %d, expected \"%s\"\n", what, err, exp); fails ++; return; }
	if (vn != en || 0 != memcmp(v, exp, en)) { printf("FAIL: %s: got \"%.*s\", expected \"%s\"\n", what, (int)vn, (const char*)v, exp); fails ++; return; }
	printf("ok:   %s = \"%s\"\n", what, exp);
}

/* A section name that occurs twice (in one text, or in two ini_buf_parse()
 * calls on the same store - parse appends) : lookups only ever search the
 * first occurrence, so everything parsed under the second one is unreachable,
 * and a value given again in the second one does not replace the first. */
int main(void) {
	ini_p ini;
	const uint8_t *v; size_t vn; int e;
	static const char base[] = "[main]\r\nhost=default\r\n[log]\r\nlevel=1\r\n";
	static const char over[] = "[main]\r\nhost=example\r\nport=8080\r\n";

	ini_create(&ini);
	ini_buf_parse(ini, U(base), sizeof(base) - 1);
	ini_buf_parse(ini, U(over), sizeof(over) - 1);

	e = ini_val_get(ini, U("main"), 4, U("port"), 4, &v, &vn);
	expect_val("get [main] port after 2 parses", e, v, vn, "8080");
	e = ini_val_get(ini, U("main"), 4, U("host"), 4, &v, &vn);
	expect_val("get [main] host after 2 parses", e, v, vn, "example");
	e = ini_vali_get(ini, U("MAIN"), 4, U("PORT"), 4, &v, &vn);
	expect_val("geti [MAIN] PORT after 2 parses", e, v, vn, "8080");

	/* Same thing inside a single text. */
	ini_destroy(ini);
	ini_create(&ini);
	{
		static const char one[] = "[s]\na=1\n[t]\nc=3\n[s]\nb=2\n";
		ini_buf_parse(ini, U(one), sizeof(one) - 1);
	}
	e = ini_val_get(ini, U("s"), 1, U("b"), 1, &v, &vn);
	expect_val("get [s] b (second [s] block)", e, v, vn, "2");
	/* ...although enumeration shows the entry is in the store: */
	{
		size_t so = 0, vo; const uint8_t *sn, *k; size_t snn, kn;
		while (0 == ini_sect_enum(ini, &so, &sn, &snn)) {
			vo = 0;
			while (0 == ini_sect_val_enum(ini, so, &vo, &k, &kn, &v, &vn)) {
				printf("      enum: [%.*s] %.*s=%.*s\n", (int)snn, sn, (int)kn, k, (int)vn, v);
				vo ++;
			}
			so ++;
		}
	}
	ini_destroy(ini);
	return (fails ? 1 : 0);
}
