#include <sys/param.h>
#include <sys/types.h>
#include <inttypes.h>
#include <string.h>
#include <stdio.h>
#include <stdlib.h>
#include <errno.h>
#include "utils/ini.h"
#define U(s) ((const uint8_t*)(s))
static int fails;
static void expect_val(const char *what, int err, const uint8_t *v, size_t vn, const char *exp) {
	size_t en = strlen(exp);
	if (0 != err) { printf("FAIL: %s: error %d, expected \"%s\"\n", what, err, exp); fails ++; return; }
	if (vn != en || 0 != memcmp(v, exp, en)) { printf("FAIL: %s: got \"%.*s\", expected \"%s\"\n", what, (int)vn, (const char*)v, exp); fails ++; return; }
	printf("ok:   %s = \"%s\"\n", what, exp);
}

/* The same key twice in one section: lookup returns the FIRST parsed value,
 * the property (and the usual "later line overrides") wants the most recent. */
int main(void) {
	ini_p ini;
	const uint8_t *v; size_t vn; int e; ssize_t n = 0;
	static const char txt[] = "[s]\r\nk=old\r\nn=1\r\nk=new\r\nn=2\r\n";

	ini_create(&ini);
	ini_buf_parse(ini, U(txt), sizeof(txt) - 1);
	e = ini_val_get(ini, U("s"), 1, U("k"), 1, &v, &vn);
	expect_val("get [s] k after parsing k=old, k=new", e, v, vn, "new");
	e = ini_vali_get(ini, U("S"), 1, U("K"), 1, &v, &vn);
	expect_val("geti [S] K", e, v, vn, "new");
	e = ini_val_get_int(ini, U("s"), 1, U("n"), 1, &n);
	if (0 != e || 2 != n) { printf("FAIL: get_int [s] n = %zd (err %d), expected 2\n", n, e); fails ++; }

	/* Case-insensitive view of a store written case-sensitively. */
	ini_destroy(ini);
	ini_create(&ini);
	ini_val_set(ini, U("s"), 1, U("Key"), 3, U("first"), 5);
	ini_val_set(ini, U("s"), 1, U("KEY"), 3, U("second"), 6); /* most recent set of "key" (nocase) */
	e = ini_vali_get(ini, U("s"), 1, U("key"), 3, &v, &vn);
	expect_val("geti [s] key after set Key=first, KEY=second", e, v, vn, "second");
	ini_destroy(ini);
	return (fails ? 1 : 0);
}
