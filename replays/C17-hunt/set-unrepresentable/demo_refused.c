/* Companion of demo.c for the repaired tree: the repair REFUSES what the line format cannot carry (the finding's second
 * accepted outcome); demo.c only models the read-back outcome.  Exit 0: every unrepresentable set is refused with EINVAL,
 * the store is unchanged by it, and gen + parse of the accepted pairs answers every lookup like the original. */
#include <sys/param.h>
#include <sys/types.h>
#include <inttypes.h>
#include <string.h>
#include <stdio.h>
#include <stdlib.h>
#include <errno.h>
#include "utils/ini.h"
#define U(s) ((const uint8_t*)(s))
int main(void) {
	ini_p ini, r; const uint8_t *v; size_t vn, sz = 0, n = 0; uint8_t *b; int fails = 0;
	struct { const char *k; size_t kn; const char *val; size_t vn_; } bad[] = {
		{"nick", 4, "bob\nadmin=1\n[x]", 15}, {"a=b", 3, "c", 1}, {"#k", 2, "1", 1}, {"[k]", 3, "2", 1}, {";k", 2, "1", 1},
		{"k\nx", 3, "1", 1}, {"k", 1, "a\rb", 3} };
	ini_create(&ini);
	ini_val_set(ini, U("user"), 4, U("admin"), 5, U("0"), 1);
	for (size_t i = 0; i < sizeof(bad) / sizeof(bad[0]); i ++) {
		int e = ini_val_set(ini, U("user"), 4, U(bad[i].k), bad[i].kn, U(bad[i].val), bad[i].vn_);
		if (EINVAL != e) { printf("FAIL: set #%zu returned %d, expected EINVAL\n", i, e); fails ++; }
	}
	if (EINVAL != ini_val_set(ini, U("a\nb"), 3, U("k"), 1, U("v"), 1)) { printf("FAIL: LF in section name accepted\n"); fails ++; }
	ini_val_set(ini, U("user"), 4, U("z"), 1, U("9"), 1);
	ini_buf_calc_size(ini, &sz); b = malloc(sz); ini_buf_gen(ini, b, sz, &n);
	ini_create(&r); ini_buf_parse(r, b, n);
	if (0 != ini_val_get(r, U("user"), 4, U("admin"), 5, &v, &vn) || 1 != vn || '0' != v[0]) { printf("FAIL: admin after round trip\n"); fails ++; }
	if (0 != ini_val_get(r, U("user"), 4, U("z"), 1, &v, &vn) || 1 != vn || '9' != v[0]) { printf("FAIL: z after round trip\n"); fails ++; }
	if (0 == ini_val_get(r, U("x"), 1, U("admin"), 5, &v, &vn)) { printf("FAIL: injected section\n"); fails ++; }
	free(b); ini_destroy(r); ini_destroy(ini);
	printf(fails ? "FAIL\n" : "OK: unrepresentable names/values refused, round trip equivalent\n");
	return (fails ? 1 : 0);
}
