#include <sys/param.h>
#include <sys/types.h>
#include <inttypes.h>
#include <string.h>
#include <stdio.h>
#include <stdlib.h>
#include <errno.h>
#include "utils/ini.h"
#define U(s) ((const uint8_t*)(s))
static int fails;
static void expect_val(const char *what, int err, const uint8_t *v, size_t vn, const char *exp) {
	size_t en = strlen(exp);
	if (0 != err) { printf("FAIL: %s: error %d, expected \"%s\"\n", what, err, exp); fails ++; return; }
	if (vn != en || 0 != memcmp(v, exp, en)) { printf("FAIL: %s: got \"%.*s\", expected \"%s\"\n", what, (int)vn, (const char*)v, exp); fails ++; return; }
	printf("ok:   %s = \"%s\"\n", what, exp);
}

/* ini_val_set() stores any bytes, but the text form cannot represent all of
 * them: after ini_buf_gen() + ini_buf_parse() the store is a different map. */
static ini_p roundtrip(ini_p ini) {
	size_t sz = 0, n = 0; uint8_t *b; ini_p r;
	ini_buf_calc_size(ini, &sz);
	b = malloc(sz);
	ini_buf_gen(ini, b, sz, &n);
	printf("---- generated\n%.*s----\n", (int)n, b);
	ini_create(&r);
	ini_buf_parse(r, b, n);
	free(b);
	return (r);
}
int main(void) {
	ini_p ini, r;
	const uint8_t *v; size_t vn; int e;

	/* 1. LF in a value: injects lines/sections. */
	ini_create(&ini);
	ini_val_set(ini, U("user"), 4, U("admin"), 5, U("0"), 1);
	e = ini_val_set(ini, U("user"), 4, U("nick"), 4, U("bob\nadmin=1\n[x]"), 15);
	printf("      set nick=\"bob\\nadmin=1\\n[x]\" -> %d\n", e);
	ini_val_set(ini, U("user"), 4, U("z"), 1, U("9"), 1);
	e = ini_val_get(ini, U("user"), 4, U("nick"), 4, &v, &vn);
	expect_val("before: nick", e, v, vn, "bob\nadmin=1\n[x]");
	r = roundtrip(ini);
	e = ini_val_get(r, U("user"), 4, U("nick"), 4, &v, &vn);
	expect_val("after round trip: nick", e, v, vn, "bob\nadmin=1\n[x]");
	e = ini_val_get(r, U("user"), 4, U("z"), 1, &v, &vn);
	expect_val("after round trip: [user] z", e, v, vn, "9");
	ini_destroy(r); ini_destroy(ini);

	/* 2. '=' in a key name. */
	ini_create(&ini);
	ini_val_set(ini, U("s"), 1, U("a=b"), 3, U("c"), 1);
	r = roundtrip(ini);
	e = ini_val_get(r, U("s"), 1, U("a=b"), 3, &v, &vn);
	expect_val("after round trip: [s] \"a=b\"", e, v, vn, "c");
	ini_destroy(r); ini_destroy(ini);

	/* 3. key name starting with a comment / section character. */
	ini_create(&ini);
	ini_val_set(ini, U("s"), 1, U("#k"), 2, U("1"), 1);
	ini_val_set(ini, U("s"), 1, U("[k]"), 3, U("2"), 1);
	ini_val_set(ini, U("s"), 1, U("after"), 5, U("3"), 1);
	r = roundtrip(ini);
	e = ini_val_get(r, U("s"), 1, U("#k"), 2, &v, &vn);
	expect_val("after round trip: [s] \"#k\"", e, v, vn, "1");
	e = ini_val_get(r, U("s"), 1, U("after"), 5, &v, &vn);
	expect_val("after round trip: [s] after", e, v, vn, "3");
	ini_destroy(r); ini_destroy(ini);
	return (fails ? 1 : 0);
}
