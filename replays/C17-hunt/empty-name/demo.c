#include <sys/param.h>
#include <sys/types.h>
#include <inttypes.h>
#include <string.h>
#include <stdio.h>
#include <stdlib.h>
#include <errno.h>
#include "utils/ini.h"
#define U(s) ((const uint8_t*)(s))
static int fails;
static void expect_val(const char *what, int err, const uint8_t *v, size_t vn, const char *exp) {
	size_t en = strlen(exp);
	if (0 != err) { printf("FAIL: %s: error %d, expected \"%s\"\n", what, err, exp); fails ++; return; }
	if (vn != en || 0 != memcmp(v, exp, en)) { printf("FAIL: %s: got \"%.*s\", expected \"%s\"\n", what, (int)vn, (const char*)v, exp); fails ++; return; }
	printf("ok:   %s = \"%s\"\n", what, exp);
}

/* Empty section name / empty key name: ini_val_set() reports success, but the
 * finders refuse zero-length names, so the value can never be read back and
 * every further set appends one more duplicate line instead of replacing. */
int main(void) {
	ini_p ini;
	const uint8_t *v; size_t vn, sz1 = 0, sz2 = 0; int e, i;
	uint8_t buf[512]; size_t n = 0;

	ini_create(&ini);
	e = ini_val_set(ini, U(""), 0, U("k"), 1, U("v1"), 2);
	printf("      set [\"\"] k=v1 -> %d\n", e);
	if (0 == e) {
		e = ini_val_get(ini, U(""), 0, U("k"), 1, &v, &vn);
		expect_val("get [\"\"] k after successful set", e, v, vn, "v1");
	}
	ini_buf_calc_size(ini, &sz1);
	for (i = 0; i < 3; i ++)
		ini_val_set(ini, U(""), 0, U("k"), 1, U("v1"), 2);
	ini_buf_calc_size(ini, &sz2);
	if (sz2 != sz1) { printf("FAIL: re-setting the same value grew the text from %zu to %zu bytes\n", sz1, sz2); fails ++; }
	ini_buf_gen(ini, buf, sizeof(buf), &n);
	printf("---- generated\n%.*s----\n", (int)n, buf);
	ini_destroy(ini);

	/* Empty key name in a normal section. */
	ini_create(&ini);
	e = ini_val_set(ini, U("s"), 1, U(""), 0, U("x"), 1);
	printf("      set [s] \"\"=x -> %d\n", e);
	if (0 == e) {
		e = ini_val_get(ini, U("s"), 1, U(""), 0, &v, &vn);
		expect_val("get [s] \"\" after successful set", e, v, vn, "x");
	}
	e = ini_val_set(ini, U("s"), 1, U(""), 0, U("y"), 1);
	ini_buf_gen(ini, buf, sizeof(buf), &n);
	printf("---- generated\n%.*s----\n", (int)n, buf);
	if (n != sizeof("[s]\r\n=y\r\n") - 1) { printf("FAIL: replacing \"\"=x by \"\"=y left %zu bytes, expected %zu\n", n, sizeof("[s]\r\n=y\r\n") - 1); fails ++; }

	/* The parser does produce such records, they are enumerable but not findable. */
	ini_destroy(ini);
	ini_create(&ini);
	ini_buf_parse(ini, U("[]\n=z\nq=1\n"), 10);
	e = ini_val_get(ini, U(""), 0, U("q"), 1, &v, &vn);
	expect_val("get [\"\"] q after parsing \"[]\\n=z\\nq=1\"", e, v, vn, "1");
	ini_destroy(ini);
	return (fails ? 1 : 0);
}
