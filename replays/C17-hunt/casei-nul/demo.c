#include <sys/param.h>
#include <sys/types.h>
#include <inttypes.h>
#include <string.h>
#include <stdio.h>
#include <stdlib.h>
#include <errno.h>
#include "utils/ini.h"
#define U(s) ((const uint8_t*)(s))
static int fails;
static void expect_val(const char *what, int err, const uint8_t *v, size_t vn, const char *exp) {
	size_t en = strlen(exp);
	if (0 != err) { printf("FAIL: %s: error %d, expected \"%s\"\n", what, err, exp); fails ++; return; }
	if (vn != en || 0 != memcmp(v, exp, en)) { printf("FAIL: %s: got \"%.*s\", expected \"%s\"\n", what, (int)vn, (const char*)v, exp); fails ++; return; }
	printf("ok:   %s = \"%s\"\n", what, exp);
}

/* Names are (pointer,size) byte strings.  The case-insensitive compare
 * mem_cmpi() is strncasecmp(), which stops at the first NUL byte, so two
 * different names that share the part before a NUL are "equal". */
int main(void) {
	ini_p ini;
	const uint8_t *v; size_t vn; int e;
	static const char txt[] = "[s]\nk\0x=1\nk\0y=2\n";

	ini_create(&ini);
	ini_buf_parse(ini, U(txt), sizeof(txt) - 1);
	e = ini_val_get(ini, U("s"), 1, U("k\0y"), 3, &v, &vn);
	expect_val("get  [s] k\\0y (case sensitive)", e, v, vn, "2");
	e = ini_vali_get(ini, U("s"), 1, U("k\0y"), 3, &v, &vn);
	expect_val("geti [s] k\\0y (case insensitive)", e, v, vn, "2");
	e = ini_vali_get(ini, U("s"), 1, U("k\0_"), 3, &v, &vn);
	if (0 == e) { printf("FAIL: geti [s] k\\0_ found \"%.*s\" for a name that is not in the store\n", (int)vn, v); fails ++; }
	if (INI_OFFSET_INVALID != ini_sect_findi(ini, U("\0zzz"), 4)) { /* vs "[s]"? sizes differ -> fine */ }
	ini_destroy(ini);

	ini_create(&ini);
	ini_val_set(ini, U("a\0one"), 5, U("k"), 1, U("1"), 1);
	ini_val_set(ini, U("a\0two"), 5, U("k"), 1, U("2"), 1);
	e = ini_vali_get(ini, U("A\0TWO"), 5, U("k"), 1, &v, &vn);
	expect_val("geti [A\\0TWO] k", e, v, vn, "2");
	ini_destroy(ini);
	return (fails ? 1 : 0);
}
