#include <sys/param.h>
#include <sys/types.h>
#include <inttypes.h>
#include <string.h>
#include <stdio.h>
#include <stdlib.h>
#include <errno.h>
#include "math/big_num.h"

static uint64_t S = 88172645463325252ULL;
static uint64_t rnd(void) { S ^= S << 13; S ^= S >> 7; S ^= S << 17; return S; }
static size_t rn(size_t n) { return (size_t)(rnd() % n); }

#ifndef MAXD
#define MAXD 12
#endif

static void stale(bn_p x) {
	size_t i;
	uint8_t *p = (uint8_t*)&x->num[x->digits];
	size_t n = (BN_MAX_DIGITS - x->digits) * BN_DIGIT_SIZE;
	for (i = 0; i < n; i ++) p[i] = (uint8_t)(0xA5 ^ (rnd() & 0xff));
}
/* make value: capacity cap digits, value < 2^(cap*BITS) */
static void mk(bn_p x, size_t cap) {
	size_t bits = cap * BN_DIGIT_BITS, vb, i, nb;
	uint8_t buf[BN_LEN + 8];
	memset(x, 0xA5, sizeof(*x));
	bn_init(x, bits);
	memset(buf, 0, sizeof(buf));
	nb = cap * BN_DIGIT_SIZE;
	switch (rn(10)) {
	case 0: vb = 0; break;
	case 1: vb = 1; break;
	case 2: vb = bits; break;
	default: vb = rn(bits + 1); break;
	}
	switch (rn(6)) {
	case 0: /* all ones */
		for (i = 0; i < nb; i ++) buf[i] = 0xff;
		break;
	case 1: /* power of two */
		if (vb) buf[(vb - 1) / 8] = (uint8_t)(1 << ((vb - 1) % 8));
		vb = bits;
		break;
	case 2: /* digits 0 or max */
		for (i = 0; i < nb; i ++) buf[i] = (rn(2 + (i / BN_DIGIT_SIZE) % 2)) ? 0xff : 0;
		for (i = 0; i < nb; i += BN_DIGIT_SIZE) { size_t k; uint8_t v = rn(2) ? 0xff : 0; for (k = 0; k < BN_DIGIT_SIZE; k ++) buf[i + k] = v; }
		break;
	default:
		for (i = 0; i < nb; i ++) buf[i] = (uint8_t)rnd();
	}
	/* mask to vb bits */
	for (i = 0; i < nb; i ++) {
		if (i * 8 >= vb) buf[i] = 0;
		else if (i * 8 + 8 > vb) buf[i] &= (uint8_t)((1 << (vb - i * 8)) - 1);
	}
	if (0 != bn_import_le_bin(x, buf, nb)) { printf("IMPORTFAIL\n"); exit(2); }
	stale(x);
}
static void pr(bn_p x) {
	ssize_t i; size_t k;
	printf("%zu:%zu:", x->count, x->digits);
	if (x->digits > x->count) { printf("BAD|"); return; }
	if (x->digits == 0) printf("0");
	for (i = (ssize_t)x->digits - 1; i >= 0; i --)
		for (k = BN_DIGIT_SIZE; k > 0; k --)
			printf("%02x", (unsigned)((x->num[i] >> ((k - 1) * 8)) & 0xff));
	printf("|");
}
static void prd(bn_digit_t d) {
	size_t k;
	for (k = BN_DIGIT_SIZE; k > 0; k --) printf("%02x", (unsigned)((d >> ((k - 1) * 8)) & 0xff));
	printf("|");
}
static bn_digit_t rdig(void) {
	bn_digit_t d = 0; size_t k;
	for (k = 0; k < BN_DIGIT_SIZE; k ++) d = (bn_digit_t)((d << 4) << 4) | (uint8_t)rnd();
	switch (rn(8)) {
	case 0: return 0; case 1: return 1; case 2: return BN_MAX_DIGIT; case 3: return (bn_digit_t)rn(8);
	case 4: return (bn_digit_t)(((bn_digit_t)1) << rn(BN_DIGIT_BITS));
	case 5: return (bn_digit_t)(d >> rn(BN_DIGIT_BITS));
	}
	return d;
}
static size_t rcap(void) { size_t m = MAXD; if (m > BN_MAX_DIGITS) m = BN_MAX_DIGITS; return 1 + rn(rn(3) ? 4 : m); }

static const unsigned primes[] = {3,5,7,11,13,17,29,37,41,73,89,97,113,193,241,251,257,337,449,577,641,769,65521,65537,40961,12289,786433};

int main(int argc, char **argv) {
	size_t iters = 20000, it;
	bn_t a, b, m, r, q, t;
	int rc;
	bn_digit_t c, d, d2, d3, d4;
	if (argc > 1) iters = (size_t)atol(argv[1]);
	if (argc > 2) S ^= (uint64_t)atol(argv[2]) * 0x9E3779B97F4A7C15ULL;
	printf("W|%d\n", (int)BN_DIGIT_BITS);
	for (it = 0; it < iters; it ++) {
		size_t ca = rcap(), cb = rcap(), cm = rcap();
		size_t op = rn(44);
		mk(&a, ca); mk(&b, cb); mk(&m, cm);
		c = 7;
		switch (op) {
		case 0: printf("add|"); pr(&a); pr(&b); rc = bn_add(&a, &b, &c); printf("%d|", rc); pr(&a); prd(c); break;
		case 1: printf("sub|"); pr(&a); pr(&b); rc = bn_sub(&a, &b, &c); printf("%d|", rc); pr(&a); prd(c); break;
		case 2: printf("mult|"); pr(&a); pr(&b); rc = bn_mult(&a, &b); printf("%d|", rc); pr(&a); break;
		case 3: d = rdig(); printf("multd|"); pr(&a); prd(d); rc = bn_mult_digit(&a, d); printf("%d|", rc); pr(&a); break;
		case 4: printf("div|"); pr(&a); pr(&b); mk(&r, rcap()); rc = bn_div(&a, &b, &r); printf("%d|", rc); pr(&a); pr(&r); break;
		case 5: { size_t s = rn(ca * BN_DIGIT_BITS + 9); printf("lsh|"); pr(&a); printf("%zu|", s); bn_l_shift(&a, s); pr(&a); } break;
		case 6: { size_t s = rn(ca * BN_DIGIT_BITS + 9); printf("rsh|"); pr(&a); printf("%zu|", s); bn_r_shift(&a, s); pr(&a); } break;
		case 7: printf("and|"); pr(&a); pr(&b); rc = bn_and(&a, &b); printf("%d|", rc); pr(&a); break;
		case 8: printf("or|"); pr(&a); pr(&b); rc = bn_or(&a, &b); printf("%d|", rc); pr(&a); break;
		case 9: printf("xor|"); pr(&a); pr(&b); rc = bn_xor(&a, &b); printf("%d|", rc); pr(&a); break;
		case 10: printf("cmp|"); pr(&a); pr(&b); printf("%d|", bn_cmp(&a, &b)); break;
		case 11: printf("gcd|"); pr(&a); pr(&b); mk(&r, rcap()); rc = bn_gcd(&r, &a, &b); printf("%d|", rc); pr(&r); break;
		case 12: printf("gcdbin|"); pr(&a); pr(&b); mk(&r, rcap()); rc = bn_gcd_bin(&r, &a, &b); printf("%d|", rc); pr(&r); break;
		case 13: printf("sqrt1|"); pr(&a); rc = bn_sqrt1(&a); printf("%d|", rc); pr(&a); break;
		case 14: printf("sqrt2|"); pr(&a); rc = bn_sqrt2(&a); printf("%d|", rc); pr(&a); break;
		case 15: printf("sqrt3|"); pr(&a); rc = bn_sqrt3(&a); printf("%d|", rc); pr(&a); break;
		case 16: printf("sqrt5|"); pr(&a); rc = bn_sqrt5(&a); printf("%d|", rc); pr(&a); break;
		case 17: printf("mod|"); pr(&a); pr(&m); rc = bn_mod(&a, &m, NULL); printf("%d|", rc); pr(&a); break;
		case 18: /* reduced operands */
			bn_mod(&a, &m, NULL); bn_assign_init(&t, &b); if (0 != bn_mod(&t, &m, NULL) || 0 != bn_assign(&b, &t)) { bn_assign_zero(&b); }
			stale(&a); stale(&b);
			printf("modadd|"); pr(&a); pr(&b); pr(&m); rc = bn_mod_add(&a, &b, &m, NULL); printf("%d|", rc); pr(&a); break;
		case 19:
			bn_mod(&a, &m, NULL); bn_assign_init(&t, &b); if (0 != bn_mod(&t, &m, NULL) || 0 != bn_assign(&b, &t)) { bn_assign_zero(&b); }
			stale(&a); stale(&b);
			printf("modsub|"); pr(&a); pr(&b); pr(&m); rc = bn_mod_sub(&a, &b, &m, NULL); printf("%d|", rc); pr(&a); break;
		case 20: printf("modmult|"); pr(&a); pr(&b); pr(&m); rc = bn_mod_mult(&a, &b, &m, NULL); printf("%d|", rc); pr(&a); break;
		case 21: printf("modexp|"); pr(&a); pr(&b); pr(&m); rc = bn_mod_exp(&a, &b, &m, NULL); printf("%d|", rc); pr(&a); break;
		case 22: { size_t e = rn(3) ? rn(6) : (size_t)rnd(); printf("modexpd|"); pr(&a); printf("%zx|", e); pr(&m); rc = bn_mod_exp_digit(&a, e, &m, NULL); printf("%d|", rc); pr(&a); } break;
		case 23: printf("modinvbin|"); pr(&a); pr(&m); rc = bn_mod_inv_bin(&a, &m, NULL); printf("%d|", rc); pr(&a); break;
		case 24: printf("modinv1|"); pr(&a); pr(&m); rc = bn_mod_inv1(&a, &m, NULL); printf("%d|", rc); pr(&a); break;
		case 25: printf("modinv2|"); pr(&a); pr(&m); rc = bn_mod_inv2(&a, &m, NULL); printf("%d|", rc); pr(&a); break;
		case 26: printf("modinvmont|"); pr(&a); pr(&m); rc = bn_mod_inv_mont(&a, &m, NULL); printf("%d|", rc); pr(&a); break;
		case 27: printf("moddivmont|"); pr(&a); pr(&b); pr(&m); rc = bn_mod_div_mont(&a, &b, &m, NULL); printf("%d|", rc); pr(&a); break;
		case 28: printf("moddiv|"); pr(&a); pr(&b); pr(&m); rc = bn_mod_div(&a, &b, &m, NULL); printf("%d|", rc); pr(&a); break;
		case 29: { /* mod sqrt with a small or product prime */
			unsigned p = primes[rn(sizeof(primes) / sizeof(primes[0]))];
			uint8_t pb[4] = { (uint8_t)p, (uint8_t)(p >> 8), (uint8_t)(p >> 16), (uint8_t)(p >> 24) };
			size_t need = (4 + BN_DIGIT_SIZE - 1) / BN_DIGIT_SIZE;
			mk(&m, need + rn(3)); bn_import_le_bin(&m, pb, 4); stale(&m);
			printf("modsqrt|"); pr(&a); pr(&m); rc = bn_mod_sqrt(&a, &m, NULL); printf("%d|", rc); pr(&a); } break;
		case 30: { int8_t naf[BN_BIT_LEN + 8]; size_t cnt = 0, w = 2 + rn(6), i, sz = bn_calc_bits(&a) + 1 + rn(3);
			printf("naf|"); pr(&a); printf("%zu|", w); rc = bn_calc_naf(&a, w, sz, naf, &cnt); printf("%d|", rc);
			if (0 == rc) for (i = 0; i < cnt; i ++) printf("%d,", naf[i]); printf("|"); pr(&a); } break;
		case 31: { int8_t jsf[2 * BN_BIT_LEN + 16]; size_t cnt = 0, off = 0, i;
			printf("jsf|"); pr(&a); pr(&b); rc = bn_calc_jsf(&a, &b, sizeof(jsf), jsf, &cnt, &off); printf("%d|", rc);
			if (0 == rc) { for (i = 0; i < cnt; i ++) printf("%d,", jsf[i]); printf("|"); for (i = 0; i < cnt; i ++) printf("%d,", jsf[i + off]); } printf("|"); } break;
		case 32: { uint8_t buf[2 * BN_LEN + 8]; size_t sz = 1 + rn(ca * BN_DIGIT_SIZE * 2 + 3), rs = 0, i; uint32_t fl = rn(2) ? BN_EXPORT_F_AUTO_SIZE : 0; int k = (int)rn(4);
			memset(buf, 0x5a, sizeof(buf));
			printf("export%d|", k); pr(&a); printf("%u|%zu|", fl, sz);
			switch (k) { case 0: rc = bn_export_be_bin(&a, fl, buf, sz, &rs); break; case 1: rc = bn_export_le_bin(&a, fl, buf, sz, &rs); break;
			case 2: rc = bn_export_be_hex(&a, fl, buf, sz, &rs); break; default: rc = bn_export_le_hex(&a, fl, buf, sz, &rs); }
			printf("%d|%zu|", rc, rs); if (0 == rc && rs <= sz) for (i = 0; i < rs; i ++) printf("%02x", buf[i]); printf("|");
			/* guard */ for (i = sz + 1; i < sz + 4; i ++) if (buf[i] != 0x5a) printf("GUARD"); printf("|"); } break;
		case 33: { uint8_t buf[2 * BN_LEN + 8]; size_t sz = 1 + rn(cb * BN_DIGIT_SIZE * 2 + 3), i; int k = (int)rn(4);
			for (i = 0; i < sz; i ++) { if (k >= 2) buf[i] = (uint8_t)"0123456789abcdefABCDEF0000"[rn(26)]; else buf[i] = rn(3) ? (uint8_t)rnd() : 0; }
			printf("import%d|", k); pr(&b); for (i = 0; i < sz; i ++) printf("%02x", buf[i]); printf("|");
			switch (k) { case 0: rc = bn_import_be_bin(&b, buf, sz); break; case 1: rc = bn_import_le_bin(&b, buf, sz); break;
			case 2: rc = bn_import_be_hex(&b, buf, sz); break; default: rc = bn_import_le_hex(&b, buf, sz); }
			printf("%d|", rc); pr(&b); } break;
		case 34: d = rdig(); printf("expd|"); pr(&a); d = (bn_digit_t)(d % 9); prd(d); rc = bn_exp_digit(&a, d); printf("%d|", rc); pr(&a); break;
		case 35: printf("modreduce|"); pr(&a); pr(&m); rc = bn_mod_reduce(&a, &m, NULL); printf("%d|", rc); pr(&a); break;
		case 36: { size_t bit = rn(ca * BN_DIGIT_BITS + 3); int v = (int)rn(2); printf("bitset|"); pr(&a); printf("%zu|%d|", bit, v); rc = bn_bit_set(&a, bit, v); printf("%d|", rc); pr(&a); printf("%d|", bn_is_bit_set(&a, bit)); } break;
		case 37: d = rdig(); printf("addd|"); pr(&a); prd(d); c = 0; bn_add_digit(&a, d, &c); pr(&a); prd(c); break;
		case 38: d = rdig(); printf("subd|"); pr(&a); prd(d); c = 0; bn_sub_digit(&a, d, &c); pr(&a); prd(c); break;
		case 39: d = rdig(); d2 = rdig(); printf("dmult|"); prd(d); prd(d2); bn_digit_mult(d, d2, &d3, &d4); prd(d3); prd(d4); break;
		case 40: { bn_digit_t lo = rdig(), hi = rdig(), dv = rdig(), q0, q1, r0, r1, qs = 0; int rc2;
			printf("ddiv|"); prd(lo); prd(hi); prd(dv); rc = bn_digit_div(lo, hi, dv, &q0, &q1, &r0, &r1); printf("%d|", rc); prd(q0); prd(q1); prd(r0); prd(r1);
			rc2 = bn_digit_div__int_short(lo, hi, dv, &qs); printf("%d|", rc2); prd(qs); } break;
		case 41: printf("misc|"); pr(&a); printf("%zu|%zu|%zu|%d|%d|%d|%d|%zu|", bn_calc_bits(&a), bn_ctz(&a), bn_clz(&a), bn_is_zero(&a), bn_is_one(&a), bn_is_even(&a), bn_is_odd(&a), bn_is_pow2(&a)); break;
		case 42: d = rdig(); d2 = rdig(); printf("dgcd|"); prd(d); prd(d2); prd(bn_digit_gcd(d, d2)); prd(bn_digit_gcd_bin(d, d2)); d3 = d4 = 0; prd(bn_digit_egcd(d, d2, &d3, &d4)); prd(d3); prd(d4); break;
		case 43: /* aliasing */
			switch (rn(6)) {
			case 0: printf("add_aa|"); pr(&a); rc = bn_add(&a, &a, &c); printf("%d|", rc); pr(&a); prd(c); break;
			case 1: printf("sub_aa|"); pr(&a); rc = bn_sub(&a, &a, &c); printf("%d|", rc); pr(&a); prd(c); break;
			case 2: printf("mult_aa|"); pr(&a); rc = bn_mult(&a, &a); printf("%d|", rc); pr(&a); break;
			case 3: printf("div_arem|"); pr(&a); pr(&b); rc = bn_div(&a, &b, &a); printf("%d|", rc); pr(&a); break;
			case 4: printf("div_brem|"); pr(&a); pr(&b); rc = bn_div(&a, &b, &b); printf("%d|", rc); pr(&a); pr(&b); break;
			default: printf("gcd_rb|"); pr(&a); pr(&b); rc = (rn(2) ? bn_gcd(&b, &a, &b) : bn_gcd_bin(&b, &a, &b)); printf("%d|", rc); pr(&b); break;
			}
			break;
		}
		printf("\n");
	}
	return 0;
}
