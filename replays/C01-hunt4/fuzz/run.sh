#!/bin/sh
# usage: run.sh <tree> [iters]
T=${1:-/tmp/hunt/C01}; N=${2:-30000}
F="-DHAVE_EXPLICIT_BZERO -DHAVE_MEMMEM -DHAVE_MEMRCHR -DHAVE_REALLOCARRAY -DHAVE_STRNCASECMP -DLINUX -D_GNU_SOURCE -D__USE_GNU=1 -I$T/include -w"
cd "$(dirname "$0")"
rcx=0
for cfg in "64 -DBN_CC_MULL_DIV" "64 " "32 -DBN_CC_MULL_DIV" "32 " "16 -DBN_CC_MULL_DIV" "16 " "8 -DBN_CC_MULL_DIV" "8 "; do
  set -- $cfg; w=$1; cc=$2
  for comp in "gcc -O2" "clang -O2" "gcc -O0"; do
    tag=$(echo "w$w$cc-$comp" | tr ' ' '_')
    $comp $F -DBN_DIGIT_BIT_CNT=$w $cc -o fz_$tag fz.c 2>cc_$tag.log || { echo "BUILD FAIL $tag"; continue; }
    ./fz_$tag $N 1 > out_$tag.txt 2>&1; echo "exit $? $tag"
    python3 chk.py < out_$tag.txt > res_$tag.txt 2>&1 || rcx=1
    tail -1 res_$tag.txt
  done
done
exit $rcx
