import sys, math
from collections import Counter
W = 64
fails = Counter(); shown = Counter(); stats = Counter()
def B(s):
    c, d, h = s.split(':'); c = int(c); d = int(d)
    if h == 'BAD': return (c, d, None)
    return (c, d, int(h, 16))
def norm_ok(x):
    c, d, v = x
    if v is None or d > c: return False
    nd = (v.bit_length() + W - 1) // W
    return nd == d
def fail(op, line, why):
    fails[op + ':' + why.split()[0]] += 1
    if shown[op + why.split()[0]] < 3:
        shown[op + why.split()[0]] += 1
        print("FAIL", op, why, "::", line[:400])
def D(s): return int(s, 16)
def isqrt(n): return math.isqrt(n)
def nafval(lst): return sum(v << i for i, v in enumerate(lst))
for line in sys.stdin:
    line = line.rstrip('\n')
    f = line.split('|')
    op = f[0]
    if op == 'W': W = int(f[1]); continue
    BASE = 1 << W
    stats[op] += 1
    try:
        def cap(x): return 1 << (x[0] * W)
        def chk(res, exp, what=''):
            if not norm_ok(res): fail(op, line, 'nonnorm ' + what); return
            if res[2] != exp: fail(op, line, 'value %s got %x exp %x' % (what, res[2], exp))
        if op in ('add', 'add_aa'):
            if op == 'add': a, b, rc, r, c = B(f[1]), B(f[2]), int(f[3]), B(f[4]), D(f[5])
            else: a, rc, r, c = B(f[1]), int(f[2]), B(f[3]), D(f[4]); b = a
            if rc == 0:
                s = a[2] + b[2]
                chk(r, s % cap(a));
                if c != s // cap(a): fail(op, line, 'carry')
            else:
                stats[op + '_err'] += 1
                if b[1] <= a[0]: fail(op, line, 'spurious-err')
        elif op in ('sub', 'sub_aa'):
            if op == 'sub': a, b, rc, r, c = B(f[1]), B(f[2]), int(f[3]), B(f[4]), D(f[5])
            else: a, rc, r, c = B(f[1]), int(f[2]), B(f[3]), D(f[4]); b = a
            if rc == 0:
                s = a[2] - b[2]
                chk(r, s % cap(a))
                if c != (1 if s < 0 else 0): fail(op, line, 'borrow')
            else:
                stats[op + '_err'] += 1
                if b[1] <= a[0]: fail(op, line, 'spurious-err')
        elif op in ('mult', 'mult_aa'):
            if op == 'mult': a, b, rc, r = B(f[1]), B(f[2]), int(f[3]), B(f[4])
            else: a, rc, r = B(f[1]), int(f[2]), B(f[3]); b = a
            if rc == 0: chk(r, a[2] * b[2]);
            else:
                stats[op + '_err'] += 1
                if a[2] * b[2] < cap(a) and a[1] + b[1] <= a[0]: fail(op, line, 'spurious-err')
            if rc == 0 and a[2] * b[2] >= cap(a): fail(op, line, 'overflow-ok')
        elif op == 'multd':
            a, d, rc, r = B(f[1]), D(f[2]), int(f[3]), B(f[4])
            if rc == 0:
                if a[2] * d >= cap(a): fail(op, line, 'overflow-ok')
                else: chk(r, a[2] * d)
            else: stats[op + '_err'] += 1
        elif op == 'expd':
            a, d, rc, r = B(f[1]), D(f[2]), int(f[3]), B(f[4])
            if rc == 0:
                if a[2] ** d >= cap(a): fail(op, line, 'overflow-ok')
                else: chk(r, a[2] ** d)
            else: stats[op + '_err'] += 1
        elif op == 'div':
            a, b, rc, q, r = B(f[1]), B(f[2]), int(f[3]), B(f[4]), B(f[5])
            if rc == 0:
                if b[2] == 0: fail(op, line, 'div0-ok')
                else: chk(q, a[2] // b[2], 'q'); chk(r, a[2] % b[2], 'r')
            else:
                stats[op + '_err'] += 1
                if b[2] == 0: stats['div_err0'] += 1
        elif op == 'div_arem':
            a, b, rc, r = B(f[1]), B(f[2]), int(f[3]), B(f[4])
            if rc == 0:
                if b[2] == 0: fail(op, line, 'div0-ok')
                else: chk(r, a[2] % b[2], 'r')
            else: stats[op + '_err'] += 1
        elif op == 'div_brem':
            a, b, rc, q, r = B(f[1]), B(f[2]), int(f[3]), B(f[4]), B(f[5])
            if rc == 0:
                if b[2] == 0: fail(op, line, 'div0-ok')
                else: chk(q, a[2] // b[2], 'q'); chk(r, a[2] % b[2], 'r')
            else: stats[op + '_err'] += 1
        elif op == 'mod':
            a, m, rc, r = B(f[1]), B(f[2]), int(f[3]), B(f[4])
            if rc == 0:
                if m[2] == 0: fail(op, line, 'div0-ok')
                else: chk(r, a[2] % m[2])
            else: stats[op + '_err'] += 1
        elif op == 'lsh':
            a, s, r = B(f[1]), int(f[2]), B(f[3]); chk(r, (a[2] << s) % cap(a))
        elif op == 'rsh':
            a, s, r = B(f[1]), int(f[2]), B(f[3]); chk(r, a[2] >> s)
        elif op in ('and', 'or', 'xor'):
            a, b, rc, r = B(f[1]), B(f[2]), int(f[3]), B(f[4])
            e = {'and': a[2] & b[2], 'or': a[2] | b[2], 'xor': a[2] ^ b[2]}[op]
            if rc == 0:
                if e >= cap(a): fail(op, line, 'overflow-ok')
                else: chk(r, e)
            else:
                stats[op + '_err'] += 1
                if e < cap(a): fail(op, line, 'spurious-err')
        elif op == 'cmp':
            a, b, r = B(f[1]), B(f[2]), int(f[3])
            if r != (a[2] > b[2]) - (a[2] < b[2]): fail(op, line, 'value')
        elif op in ('gcd', 'gcdbin', 'gcd_rb'):
            a, b, rc, r = B(f[1]), B(f[2]), int(f[3]), B(f[4])
            if rc == 0: chk(r, math.gcd(a[2], b[2]))
            else: stats[op + '_err'] += 1
        elif op.startswith('sqrt'):
            a, rc, r = B(f[1]), int(f[2]), B(f[3])
            if rc == 0: chk(r, isqrt(a[2]))
            else: stats[op + '_err'] += 1; fail(op, line, 'err rc=%d' % rc)
        elif op in ('modadd', 'modsub', 'modmult', 'modexp', 'moddivmont', 'moddiv'):
            a, b, m, rc, r = B(f[1]), B(f[2]), B(f[3]), int(f[4]), B(f[5])
            if op in ('modadd','modsub') and (m[2] == 0 or a[2] >= m[2] or b[2] >= m[2]): stats['skip_'+op] += 1
            elif rc == 0:
                if m[2] == 0: fail(op, line, 'mod0-ok')
                elif op == 'modadd': chk(r, (a[2] + b[2]) % m[2])
                elif op == 'modsub': chk(r, (a[2] - b[2]) % m[2])
                elif op == 'modmult': chk(r, (a[2] * b[2]) % m[2])
                elif op == 'modexp': chk(r, pow(a[2], b[2], m[2]))
                else:
                    if math.gcd(b[2], m[2]) != 1: fail(op, line, 'noinv-ok')
                    else: chk(r, (a[2] * pow(b[2], -1, m[2])) % m[2])
            else:
                stats[op + '_err'] += 1
                if op in ('modadd',) and m[2] != 0 and b[1] <= a[0] and m[1] <= a[0]: fail(op, line, 'spurious-err')
        elif op == 'modexpd':
            a, e, m, rc, r = B(f[1]), int(f[2], 16), B(f[3]), int(f[4]), B(f[5])
            if rc == 0:
                if m[2] == 0: fail(op, line, 'mod0-ok')
                else: chk(r, pow(a[2], e, m[2]))
            else: stats[op + '_err'] += 1
        elif op in ('modinvbin', 'modinv1', 'modinv2', 'modinvmont'):
            a, m, rc, r = B(f[1]), B(f[2]), int(f[3]), B(f[4])
            if rc == 0:
                if m[2] == 0 or math.gcd(a[2], m[2]) != 1: fail(op, line, 'noinv-ok')
                else: chk(r, pow(a[2], -1, m[2]))
            else:
                stats[op + '_err'] += 1
                if m[2] > 1 and m[2] % 2 == 1 and 0 < a[2] < m[2] and math.gcd(a[2], m[2]) == 1 and pow(a[2], -1, m[2]) < cap(a): fails[op + ':err-for-invertible rc=%d' % rc] += 1
        elif op == 'modsqrt':
            a, m, rc, r = B(f[1]), B(f[2]), int(f[3]), B(f[4])
            p = m[2]; x = a[2] % p
            isres = x == 0 or pow(x, (p - 1) // 2, p) == 1
            if rc == 0:
                if not norm_ok(r) or (r[2] * r[2]) % p != x or r[2] >= p: fail(op, line, 'value')
            elif rc == -1:
                if isres: fail(op, line, 'noroot-for-residue')
            else:
                stats[op + '_err%d' % rc] += 1
        elif op == 'naf':
            a, w, rc, lst, a2 = B(f[1]), int(f[2]), int(f[3]), f[4], B(f[5])
            if a2[2] != a[2]: fail(op, line, 'operand-changed')
            if rc == 0:
                l = [int(x) for x in lst.split(',') if x]
                if nafval(l) != a[2]: fail(op, line, 'value')
                for i, v in enumerate(l):
                    if v:
                        if v % 2 == 0 or abs(v) >= (1 << (w - 1)): fail(op, line, 'digit-range')
                        if any(l[i + 1:i + w]): fail(op, line, 'adjacent')
            else: stats[op + '_err'] += 1; fail(op, line, 'err rc=%d' % rc)
        elif op == 'jsf':
            a, b, rc = B(f[1]), B(f[2]), int(f[3])
            if rc == 0:
                l0 = [int(x) for x in f[4].split(',') if x]; l1 = [int(x) for x in f[5].split(',') if x]
                if nafval(l0) != a[2] or nafval(l1) != b[2]: fail(op, line, 'value')
                if any(abs(v) > 1 for v in l0 + l1): fail(op, line, 'digit-range')
            else: stats[op + '_err'] += 1; fail(op, line, 'err rc=%d' % rc)
        elif op.startswith('export'):
            k = int(op[6]); a, fl, sz, rc, rs, data, guard = B(f[1]), int(f[2]), int(f[3]), int(f[4]), int(f[5]), f[6], f[7]
            if guard: fail(op, line, 'GUARD')
            if rc == 0:
                raw = bytes.fromhex(data)
                if rs > sz: fail(op, line, 'size-ret>buf')
                elif k == 0: v = int.from_bytes(raw, 'big')
                elif k == 1: v = int.from_bytes(raw, 'little')
                elif k == 2: v = int(raw.decode() or '0', 16)
                else:
                    s = raw.decode(); v = int.from_bytes(bytes.fromhex(s), 'little') if s else 0
                if rs <= sz and v != a[2]: fail(op, line, 'value got %x' % v)
                if not (fl & 1) and k < 2 and rs != sz: fail(op, line, 'size-ret')
            else:
                stats[op + '_err'] += 1
                nbytes = (a[2].bit_length() + 7) // 8
                if k == 0 and nbytes <= sz and sz > 0: fail(op, line, 'spurious-err')
                if k == 1 and nbytes <= sz and sz > 0: fail(op, line, 'spurious-err')
        elif op.startswith('import'):
            k = int(op[6]); b, data, rc, r = B(f[1]), bytes.fromhex(f[2]), int(f[3]), B(f[4])
            if k == 0: v = int.from_bytes(data, 'big')
            elif k == 1: v = int.from_bytes(data, 'little')
            elif k == 2: v = int(data.decode(), 16)
            else:
                v = int.from_bytes(bytes.fromhex(data.decode()), 'little') if len(data) % 2 == 0 else None
            if rc == 0:
                if v is None: fail(op, line, 'odd-ok')
                elif v >= cap(b): fail(op, line, 'overflow-ok')
                else: chk(r, v)
            else: stats[op + '_err'] += 1
        elif op == 'modreduce':
            a, m, rc, r = B(f[1]), B(f[2]), int(f[3]), B(f[4])
            if rc == 0:
                if m[2] < 2: fail(op, line, 'm<2-ok')
                else:
                    e = a[2] % (m[2] - 1) + 1
                    if not norm_ok(r): fail(op, line, 'nonnorm')
                    elif r[2] != e:
                        if a[2] < m[2]: fails['modreduce:shortcut-differs'] += 1
                        else: fail(op, line, 'value')
            else: stats[op + '_err'] += 1
        elif op == 'bitset':
            a, bit, v, rc, r, isset = B(f[1]), int(f[2]), int(f[3]), int(f[4]), B(f[5]), int(f[6])
            if rc == 0:
                e = (a[2] | (1 << bit)) if v else (a[2] & ~(1 << bit))
                if e >= cap(a): fail(op, line, 'overflow-ok')
                else:
                    chk(r, e)
                    if isset != v: fail(op, line, 'isbitset')
            else:
                if bit < a[0] * W: fail(op, line, 'spurious-err')
        elif op == 'addd':
            a, d, r, c = B(f[1]), D(f[2]), B(f[3]), D(f[4]); s = a[2] + d
            chk(r, s % cap(a));
            if c != s // cap(a): fail(op, line, 'carry')
        elif op == 'subd':
            a, d, r, c = B(f[1]), D(f[2]), B(f[3]), D(f[4]); s = a[2] - d
            chk(r, s % cap(a));
            if c != (1 if s < 0 else 0): fail(op, line, 'borrow')
        elif op == 'dmult':
            a, b, lo, hi = D(f[1]), D(f[2]), D(f[3]), D(f[4])
            if a * b != lo + hi * BASE: fail(op, line, 'value')
        elif op == 'ddiv':
            lo, hi, dv, rc, q0, q1, r0, r1, rc2, qs = D(f[1]), D(f[2]), D(f[3]), int(f[4]), D(f[5]), D(f[6]), D(f[7]), D(f[8]), int(f[9]), D(f[10])
            n = lo + hi * BASE
            if dv == 0:
                if rc == 0 or rc2 == 0: fail(op, line, 'div0-ok')
            else:
                if rc != 0 or q0 + q1 * BASE != n // dv or r0 + r1 * BASE != n % dv: fail(op, line, 'value')
                if rc2 != 0 or qs != (n // dv) % BASE: fail(op, line, 'short-value')
        elif op == 'misc':
            a = B(f[1]); bits, ctz, clz, z, one, ev, od, p2 = [int(x) for x in f[2:10]]
            v = a[2]
            if bits != v.bit_length(): fail(op, line, 'bits')
            if v and ctz != (v & -v).bit_length() - 1: fail(op, line, 'ctz')
            if clz != a[0] * W - v.bit_length(): fail(op, line, 'clz')
            if z != (v == 0) or one != (v == 1) or od != (v & 1): fail(op, line, 'pred')
            if v and ev != (1 - (v & 1)): fail(op, line, 'even')
            if (p2 != 0) != (v != 0 and v & (v - 1) == 0): fail(op, line, 'pow2')
        elif op == 'dgcd':
            a, b, g1, g2, g3, x, y = [D(t) for t in f[1:8]]
            g = math.gcd(a, b)
            if g1 != g or g2 != g or g3 != g: fail(op, line, 'value')
            if (a * x + b * y) % BASE != g % BASE: fail(op, line, 'bezout')
        else:
            stats['unknown_' + op] += 1
    except Exception as e:
        fail(op, line, 'EXC %r' % (e,))
print("STATS", dict(stats))
print("FAILS", dict(fails))
sys.exit(1 if fails else 0)
