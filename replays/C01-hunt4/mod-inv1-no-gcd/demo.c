#include <sys/param.h>
#include <sys/types.h>
#include <inttypes.h>
#include <string.h>
#include <stdio.h>
#include <errno.h>
#include "math/big_num.h"

int main(void) {
	bn_t bn, m; int rc, bad = 0;
	memset(&bn, 0xA5, sizeof(bn)); memset(&m, 0xA5, sizeof(m));
	bn_init(&bn, 256); bn_init(&m, 256);
	bn_assign_digit(&bn, 6); bn_assign_digit(&m, 15);
	rc = bn_mod_inv1(&bn, &m, NULL);
	printf("bn_mod_inv1(6, 15): rc=%d value=%u (6 has no inverse mod 15; inv2/inv_bin/div_mont return EINVAL)\n",
	    rc, bn.digits ? (unsigned)bn.num[0] : 0);
	if (0 == rc) { printf("FAIL: success without an inverse (6*%u mod 15 = %u)\n", (unsigned)bn.num[0], (6 * (unsigned)bn.num[0]) % 15); bad = 1; }
	return bad;
}
