#!/bin/sh
T=${1:-/tmp/hunt/C01}; D=$(cd "$(dirname "$0")" && pwd); rc=0
for w in 64 32 16 8; do for cc in "gcc -O2" "clang -O0"; do
  $cc -w -DLINUX -D_GNU_SOURCE -DBN_DIGIT_BIT_CNT=$w -DBN_CC_MULL_DIV -I"$T/include" -o "$D/demo_bin" "$D/demo.c" || exit 2
  echo "== $cc, $w bit digits"; "$D/demo_bin" || rc=1
done; done
rm -f "$D/demo_bin"; exit $rc
