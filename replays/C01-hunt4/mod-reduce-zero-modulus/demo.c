#include <sys/param.h>
#include <sys/types.h>
#include <inttypes.h>
#include <string.h>
#include <stdio.h>
#include <errno.h>
#include "math/big_num.h"

/* modulus 0 is outside the domain: bn_mod(), bn_mod_small(), bn_mod_exp() refuse it,
 * bn_mod_reduce() answers success and the value depends on the CAPACITY of the m object. */
static int one(size_t mbits) {
	bn_t bn, m; int rc;
	memset(&bn, 0xA5, sizeof(bn)); memset(&m, 0xA5, sizeof(m));
	bn_init(&bn, 256); bn_init(&m, mbits);
	bn_assign_digit(&bn, 200); bn_l_shift(&bn, 70); bn_add_digit(&bn, 77, NULL); /* 200*2^70 + 77 */
	bn_assign_zero(&m);
	rc = bn_mod_reduce(&bn, &m, NULL);
	printf("m = 0 in a %zu bit object: rc=%d digits=%zu num[0]=%llx %s\n", mbits, rc, bn.digits,
	    (unsigned long long)bn.num[0], (0 == rc) ? "FAIL (success for modulus 0)" : "ok");
	return (0 == rc);
}
int main(void) {
	int bad = one(BN_DIGIT_BITS) + one(2 * BN_DIGIT_BITS);
	return (bad ? 1 : 0);
}
