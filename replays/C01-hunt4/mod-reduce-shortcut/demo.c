#include <sys/param.h>
#include <sys/types.h>
#include <inttypes.h>
#include <string.h>
#include <stdio.h>
#include <errno.h>
#include "math/big_num.h"

/* bn_mod_reduce is documented "Computes bn = (bn mod (m - 1)) + 1" (maps any
 * number into [1, m-1]; ecdsa_key_gen / ecdsa_sign use it for d and k). */
static int one(unsigned v, unsigned mod) {
	bn_t bn, m; int rc; unsigned exp = (v % (mod - 1)) + 1;
	memset(&bn, 0xA5, sizeof(bn)); memset(&m, 0xA5, sizeof(m));
	bn_init(&bn, 256); bn_init(&m, 256);
	bn_assign_digit(&bn, (bn_digit_t)v); bn_assign_digit(&m, (bn_digit_t)mod);
	rc = bn_mod_reduce(&bn, &m, NULL);
	unsigned got = (0 == bn.digits) ? 0 : (unsigned)bn.num[0];
	printf("bn_mod_reduce(%u, %u): rc=%d got=%u expected=%u %s\n", v, mod, rc, got, exp,
	    (0 == rc && got != exp) ? "FAIL" : "ok");
	return (0 == rc && got != exp);
}
int main(void) {
	int bad = 0;
	bad += one(0, 7);   /* 0 stays 0: outside [1, m-1] */
	bad += one(5, 7);   /* 5 mod 6 + 1 = 6, returns 5 */
	bad += one(6, 7);   /* 6 mod 6 + 1 = 1, returns 6 */
	bad += one(7, 7);   /* 7 mod 6 + 1 = 2: ok, the calculation path */
	bad += one(13, 7);  /* ok */
	if (bad) { printf("FAIL: %d wrong values reported as success\n", bad); return 1; }
	return 0;
}
