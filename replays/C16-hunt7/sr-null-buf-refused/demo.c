/* threadpool_task.h: "buf - pointer to io_buf for read/write ... If buf is null
 * then tp_task_cb() called every time."  tp_task_handler() still implements that
 * mode (NULL == tptask->buf -> call_cb), but tp_task_start_ex() now refuses a
 * NULL buf for tp_task_sr_handler / tp_task_rw_handler with EINVAL.
 * Case A: documented notify mode: start with buf NULL, expect callbacks.
 * Case B: start with buf NULL, first callback installs a buffer with
 *         tp_task_buf_set() and asks to continue, bytes must arrive in it. */
#include <sys/param.h>
#include <sys/types.h>
#include <sys/socket.h>
#include <inttypes.h>
#include <string.h>
#include <stdio.h>
#include <stdlib.h>
#include <errno.h>
#include <unistd.h>
#include <time.h>
#include "utils/io_buf.h"
#include "threadpool/threadpool.h"
#include "threadpool/threadpool_task.h"

static volatile int cb_calls_a = 0, cb_null_buf_a = 0;
static volatile int cb_calls_b = 0;
static volatile size_t got_b = 0;
static io_buf_t bufb;
static uint8_t datab[64];

static int
cb_a(tp_task_p tptask, int error, io_buf_p buf, uint32_t eof,
    size_t transfered_size, void *udata) {
	(void)error; (void)eof; (void)transfered_size; (void)udata;
	cb_calls_a ++;
	if (NULL == buf)
		cb_null_buf_a ++;
	tp_task_stop(tptask);
	return (TP_TASK_CB_NONE);
}

static int
cb_b(tp_task_p tptask, int error, io_buf_p buf, uint32_t eof,
    size_t transfered_size, void *udata) {
	(void)error; (void)eof; (void)udata;
	cb_calls_b ++;
	if (NULL == buf) { /* First notification: now give it a buffer. */
		io_buf_init(&bufb, 0, datab, sizeof(datab));
		IO_BUF_MARK_TRANSFER_ALL_FREE(&bufb);
		tp_task_buf_set(tptask, &bufb);
		return (TP_TASK_CB_CONTINUE);
	}
	got_b += transfered_size;
	tp_task_stop(tptask);
	return (TP_TASK_CB_NONE);
}

static void
wait_ms(volatile int *v, int ms) {
	struct timespec ts = { 0, 1000000 };
	while (0 == (*v) && 0 < ms --)
		nanosleep(&ts, NULL);
}

int
main(void) {
	tp_p tp = NULL;
	tp_settings_t s;
	tp_task_p ta = NULL, tb = NULL;
	int sa[2], sb[2], error, fail = 0;

	tp_settings_def(&s);
	s.flags = 0;
	s.threads_max = 1;
	if (0 != tp_init() || 0 != tp_create(&s, &tp) ||
	    0 != tp_threads_create(tp, 0)) {
		printf("pool setup failed\n");
		return (2);
	}
	if (0 != socketpair(AF_UNIX, SOCK_STREAM, 0, sa) ||
	    0 != socketpair(AF_UNIX, SOCK_STREAM, 0, sb))
		return (2);

	/* Case A */
	error = tp_task_create_start(tp_thread_get(tp, 0), (uintptr_t)sa[0],
	    tp_task_sr_handler, 0, TP_EV_READ, 0, 0, 0, NULL, cb_a, NULL, &ta);
	printf("A: tp_task_create_start(sr_handler, buf = NULL) = %i\n", error);
	if (0 == error) {
		(void)!write(sa[1], "hello", 5);
		wait_ms(&cb_calls_a, 2000);
	}
	printf("A: callbacks = %i (with buf NULL: %i)\n", cb_calls_a, cb_null_buf_a);
	if (0 != error || 1 != cb_calls_a || 1 != cb_null_buf_a) {
		printf("FAIL A: documented 'buf is null -> cb every time' mode refused\n");
		fail = 1;
	}

	/* Case B */
	error = tp_task_create(tp_thread_get(tp, 0), (uintptr_t)sb[0],
	    tp_task_sr_handler, TP_TASK_F_CB_AFTER_EVERY_READ, NULL, &tb);
	if (0 != error)
		return (2);
	error = tp_task_start(tb, TP_EV_READ, 0, 0, 0, NULL, cb_b);
	printf("B: tp_task_start(buf = NULL) = %i\n", error);
	if (0 == error) {
		(void)!write(sb[1], "world", 5);
		{
			struct timespec ts = { 0, 1000000 };
			int ms = 2000;
			while (0 == got_b && 0 < ms --)
				nanosleep(&ts, NULL);
		}
	}
	printf("B: callbacks = %i, bytes in late buffer = %zu\n", cb_calls_b, got_b);
	if (0 != error || 5 != got_b || 0 != memcmp(datab, "world", 5)) {
		printf("FAIL B: buffer set later with tp_task_buf_set() never used\n");
		fail = 1;
	}
	if (0 == fail)
		printf("OK\n");
	fflush(stdout);
	_exit(fail);
}
