#!/bin/sh
# usage: run.sh <tree>
T="${1:-/tmp/hunt/C16}"
D="$(cd "$(dirname "$0")" && pwd)"
O="$(mktemp -d)"
FL="-DHAVE_ACCEPT4 -DHAVE_EXPLICIT_BZERO -DHAVE_MEMMEM -DHAVE_MEMRCHR -DHAVE_PIPE2 -DHAVE_POSIX_SPAWN_FILE_ACTIONS_ADDCLOSEFROM_NP -DHAVE_PTHREAD_SETNAME_NP -DHAVE_REALLOCARRAY -DHAVE_SOCK_CLOEXEC -DHAVE_SOCK_NONBLOCK -DHAVE_STRNCASECMP -DLINUX -D_GNU_SOURCE -D__USE_GNU=1 -I$T/include"
gcc -g -O0 -w $FL -o "$O/demo" "$D/demo.c" \
    "$T/src/threadpool/threadpool.c" "$T/src/threadpool/threadpool_task.c" \
    "$T/src/threadpool/threadpool_msg_sys.c" "$T/src/net/socket.c" \
    "$T/src/net/socket_address.c" "$T/src/net/socket_options.c" \
    "$T/src/net/utils.c" "$T/src/utils/sys.c" -lpthread -lm 2>"$O/build.log" || { cat "$O/build.log"; echo "BUILD FAILED"; exit 3; }
timeout 20 "$O/demo"
RC=$?
rm -rf "$O"
exit $RC
