#include <sys/param.h>
#include <sys/types.h>
#include <sys/time.h>
#include <inttypes.h>
#include <stdlib.h>
#include <stdio.h>
#include <unistd.h>
#include <string.h>
#include <errno.h>
#define BN_DIGIT_BIT_CNT 	64
#define BN_BIT_LEN		1408
#define BN_CC_MULL_DIV		1
#define BN_NO_POINTERS_CHK	1
#define BN_MOD_REDUCE_ALGO	BN_MOD_REDUCE_ALGO_BASIC
#define EC_USE_PROJECTIVE	1
#define EC_PROJ_REPEAT_DOUBLE	1
#define EC_PROJ_ADD_MIX		1
#define EC_PF_FXP_MULT_ALGO	EC_PF_FXP_MULT_ALGO_COMB_2T
#define EC_PF_FXP_MULT_WIN_BITS	4
#define EC_PF_UNKPT_MULT_ALGO	EC_PF_UNKPT_MULT_ALGO_COMB_1T
#define EC_PF_UNKPT_MULT_WIN_BITS 2
#define EC_PF_TWIN_MULT_ALGO	EC_PF_TWIN_MULT_ALGO_INTER
/* validation enabled: EC_DISABLE_PUB_KEY_CHK not defined */
#include "crypto/dsa/ecdsa.h"

/* Compressed key with x = 0 on secp128r1 (x = 0 is NOT on the curve's
 * subgroup problem list: b is a square there, so (0, sqrt(b)) is a valid
 * point of order n).  Importing it with validation enabled reaches
 * bn_sub(0, 0) which evaluates bn->num[digits - 1] with digits == 0. */
static ec_curve_t curve;
int main(void) {
	ec_curve_str_p cs = ecdsa_curve_str_get_by_name("secp128r1", 9);
	if (!cs || ecdsa_curve_from_str(cs, &curve)) return 2;
	size_t bytes = EC_CURVE_CALC_BYTES(&curve);
	uint8_t *k = calloc(1, 1 + bytes);
	k[0] = 3;
	ec_point_t Q;
	ec_point_init(&Q, curve.m);
	int e = ecdsa_pub_key_import_be(&curve, k, NULL, 1 + bytes, &Q);
	printf("import rc %d\n", e);
	free(k);
	return 0;
}
