#!/bin/sh
T=${1:-/tmp/hunt/C09}
D=$(dirname "$0")
. "$D/../common_flags.sh"
clang -O1 -g -w -fsanitize=address,undefined -fno-sanitize-recover=undefined $CF -I"$T/include" "$D/demo.c" -o /tmp/c09_bnsub_demo || exit 2
/tmp/c09_bnsub_demo 2>&1 | tee /tmp/c09_bnsub_demo.log
if grep -q "runtime error" /tmp/c09_bnsub_demo.log; then echo "FAIL: undefined behaviour (index -1) inside bn_sub reached from ecdsa_pub_key_import_be"; exit 1; fi
echo OK
