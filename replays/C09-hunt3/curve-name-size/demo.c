#include <sys/param.h>
#include <sys/types.h>
#include <sys/time.h>
#include <inttypes.h>
#include <stdlib.h>
#include <stdio.h>
#include <unistd.h>
#include <string.h>
#include <errno.h>
#define BN_DIGIT_BIT_CNT 	64
#define BN_BIT_LEN		1408
#define BN_CC_MULL_DIV		1
#define BN_NO_POINTERS_CHK	1
#define BN_MOD_REDUCE_ALGO	BN_MOD_REDUCE_ALGO_BASIC
#define EC_USE_PROJECTIVE	1
#define EC_PROJ_REPEAT_DOUBLE	1
#define EC_PROJ_ADD_MIX		1
#define EC_PF_FXP_MULT_ALGO	EC_PF_FXP_MULT_ALGO_COMB_2T
#define EC_PF_FXP_MULT_WIN_BITS	4
#define EC_PF_UNKPT_MULT_ALGO	EC_PF_UNKPT_MULT_ALGO_COMB_1T
#define EC_PF_UNKPT_MULT_WIN_BITS 2
#define EC_PF_TWIN_MULT_ALGO	EC_PF_TWIN_MULT_ALGO_INTER
/* validation enabled: EC_DISABLE_PUB_KEY_CHK not defined */
#include "crypto/dsa/ecdsa.h"

/* Every curve of the table must be reachable through
 * ecdsa_curve_str_get_by_name(name, strlen(name)). */
int main(void) {
	int fails = 0;
	for (size_t i = 0; i < nitems(ec_curve_str); i++) {
		const char *nm = ec_curve_str[i].name;
		ec_curve_str_p cs = ecdsa_curve_str_get_by_name(nm, strlen(nm));
		if (cs != &ec_curve_str[i]) {
			printf("FAIL: curve #%zu \"%s\" (strlen %zu, table name_size %zu) not found by its name\n",
			    i, nm, strlen(nm), ec_curve_str[i].name_size);
			fails++;
		}
	}
	/* and the truncated name is accepted instead */
	if (NULL != ecdsa_curve_str_get_by_name("id-gostR3410-2001-Test_ParamSe", 30)) {
		printf("FAIL: truncated name \"id-gostR3410-2001-Test_ParamSe\" is accepted\n");
		fails++;
	}
	if (!fails) printf("OK\n");
	return fails ? 1 : 0;
}
