#!/bin/sh
T=${1:-/tmp/hunt/C09}
D=$(dirname "$0")
. "$D/../common_flags.sh"
cc -O1 -w $CF -I"$T/include" "$D/demo.c" -o /tmp/c09_name_demo || exit 2
/tmp/c09_name_demo
