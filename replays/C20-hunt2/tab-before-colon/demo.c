#include <sys/param.h>
#include <sys/types.h>
#include <inttypes.h>
#include <string.h>
#include <stdio.h>
#include <stdlib.h>
#include <errno.h>
#include "proto/http.h"
static void show(const char *t, const uint8_t *p, size_t n){ printf("%s[%zu]=\"", t, n); for(size_t i=0;i<n;i++){ if(p[i]=='\r')printf("\\r"); else if(p[i]=='\n')printf("\\n"); else if(p[i]=='\t')printf("\\t"); else if(p[i]<32||p[i]>126)printf("\\x%02x",p[i]); else putchar(p[i]);} printf("\"\n"); }
/* http_req_sec_chk() rule 1 looks for SP ':' only.  RFC 7230 3.2.4: "No
 * whitespace is allowed between the header field-name and colon ... A server
 * MUST reject any received request message that contains whitespace between a
 * header field-name and colon" - whitespace is SP / HTAB, and HTAB is let
 * through by rule 2.  The field lookup compares the bytes before ':' with the
 * name, so "Content-Length\t" is not Content-Length: the repeated / conflicting
 * framing field is invisible to rules 3-7. */
static int chk(const char *h, uint32_t m, const char *what){
	int rc = http_req_sec_chk((const uint8_t*)h, strlen(h), m);
	printf("%-52s sec_chk=%d  CL count=%zu TE count=%zu Host count=%zu\n", what, rc,
	    http_hdr_val_get_count((const uint8_t*)h, strlen(h), (const uint8_t*)"content-length", 14),
	    http_hdr_val_get_count((const uint8_t*)h, strlen(h), (const uint8_t*)"transfer-encoding", 17),
	    http_hdr_val_get_count((const uint8_t*)h, strlen(h), (const uint8_t*)"host", 4));
	return (rc);
}
int main(void){
	int fail = 0;
	/* controls: the SP spelling of every edit is rejected. */
	if (1 != chk("POST / HTTP/1.1\r\nHost: a\r\nContent-Length: 5\r\nContent-Length : 0", HTTP_REQ_METHOD_POST, "CL + 'CL SP :' (control)")) fail = 1;
	if (4 != chk("POST / HTTP/1.1\r\nHost: a\r\nContent-Length: 5\r\nContent-Length: 0", HTTP_REQ_METHOD_POST, "CL + CL (control)")) fail = 1;
	/* HTAB spelling: accepted. */
	if (0 == chk("POST / HTTP/1.1\r\nHost: a\r\nContent-Length: 5\r\nContent-Length\t: 0", HTTP_REQ_METHOD_POST, "CL + 'CL HTAB :'")) fail = 1;
	if (0 == chk("POST / HTTP/1.1\r\nHost: a\r\nContent-Length: 5\r\nTransfer-Encoding\t: chunked", HTTP_REQ_METHOD_POST, "CL + 'TE HTAB :'")) fail = 1;
	if (0 == chk("GET / HTTP/1.1\r\nHost: a\r\nHost\t: b", HTTP_REQ_METHOD_GET, "Host + 'Host HTAB :'")) fail = 1;
	if (0 == chk("GET / HTTP/1.1\r\nHost: a\r\nContent-Length\t: 7", HTTP_REQ_METHOD_GET, "GET with 'CL HTAB :'")) fail = 1;
	puts(fail ? "FAIL" : "OK");
	return (fail);
}
