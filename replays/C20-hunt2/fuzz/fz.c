#include <sys/param.h>
#include <sys/types.h>
#include <inttypes.h>
#include <string.h>
#include <stdio.h>
#include <stdlib.h>
#include <errno.h>
#include <ctype.h>
#include "proto/http.h"

static unsigned long long rs = 88172645463325252ULL;
static unsigned rnd(void){ rs ^= rs<<13; rs ^= rs>>7; rs ^= rs<<17; return (unsigned)(rs>>11); }
#define R(n) (rnd()%(n))
static void show(const char *t, const uint8_t *p, size_t n){ printf("%s[%zu]=\"", t, n); for(size_t i=0;i<n;i++){ if(p[i]=='\r')printf("\\r"); else if(p[i]=='\n')printf("\\n"); else if(p[i]=='\t')printf("\\t"); else if (p[i]<32||p[i]>126) printf("\\x%02x",p[i]); else putchar(p[i]);} printf("\"\n"); }

typedef struct { char name[40]; char raw[200]; /* raw value incl folds */ } fld;
static const char *names[] = {"Host","host","HOST","hOsT","Content-Length","content-length","CONTENT-LENGTH","Transfer-Encoding","transfer-encoding","X","Foo","Hos","Hostx","X-Host","Content-Lengt","A"};
static const char *vals[] = {"a","b c","1:2","x","","chunked","5","a:b:c","http://h/","q=\"x\""};
static int nfails=0;
static int ieq(const char*a,size_t an,const char*b,size_t bn){ if(an!=bn)return 0; for(size_t i=0;i<an;i++) if(tolower((unsigned char)a[i])!=tolower((unsigned char)b[i])) return 0; return 1;}

static void trim(const char *s,size_t n,const char**o,size_t*on){ while(n && (unsigned char)s[0]<33){s++;n--;} while(n && (unsigned char)s[n-1]<33)n--; *o=s;*on=n; }

int main(int argc,char**argv){
	long iters = argc>1?atol(argv[1]):200000;
	for(long it=0; it<iters; it++){
		fld f[8]; int nf = R(6);
		char blk[4096]; size_t bl=0;
		const char *rl = "GET /x HTTP/1.1";
		int meth = R(3); if(meth==1) rl="POST /x HTTP/1.1"; if (meth==2) rl="PUT http://h:80/a?b=c HTTP/1.0";
		bl += sprintf(blk+bl,"%s",rl);
		size_t fstart[8], fend[8]; /* span of field incl. preceding CRLF */
		for(int i=0;i<nf;i++){
			strcpy(f[i].name, names[R(16)]);
			char *r=f[i].raw; r[0]=0;
			int lead=R(3); for(int k=0;k<lead;k++) strcat(r, R(2)?" ":"\t");
			strcat(r, vals[R(10)]);
			int folds=R(4)==0? 1+R(2):0;
			for(int k=0;k<folds;k++){ strcat(r,"\r\n"); strcat(r,R(2)?" ":"\t"); if(R(3)) strcat(r, vals[R(10)]); }
			int trail=R(3)==0?R(3):0; for(int k=0;k<trail;k++) strcat(r, R(2)?" ":"\t");
			fstart[i]=bl;
			bl += sprintf(blk+bl,"\r\n%s:%s",f[i].name,f[i].raw);
			fend[i]=bl;
		}
		int endcrlf = R(4)==0; if(endcrlf){ bl+=sprintf(blk+bl,"\r\n"); }
		uint8_t *hb = malloc(bl?bl:1); memcpy(hb,blk,bl);
		/* count / get for each probe name */
		static const char *probe[]={"host","content-length","transfer-encoding","x","foo","a","hos"};
		size_t cnt[7];
		for(int p=0;p<7;p++){
			size_t pn=strlen(probe[p]); size_t c=0; int first=-1;
			for(int i=0;i<nf;i++) if(ieq(f[i].name,strlen(f[i].name),probe[p],pn)){ if(first<0)first=i; c++; }
			cnt[p]=c;
			size_t lc = http_hdr_val_get_count(hb,bl,(const uint8_t*)probe[p],pn);
			if(lc!=c){ nfails++; printf("COUNT mismatch name=%s lib=%zu ref=%zu\n",probe[p],lc,c); show("blk",hb,bl);}
			const uint8_t *v=NULL; size_t vs=0;
			int rc=http_hdr_val_get(hb,bl,(const uint8_t*)probe[p],pn,&v,&vs);
			if((rc==0)!=(first>=0)){ nfails++; printf("GET presence mismatch %s rc=%d\n",probe[p],rc); show("blk",hb,bl);}
			else if(rc==0){ const char*tv; size_t tn; trim(f[first].raw,strlen(f[first].raw),&tv,&tn);
				size_t voff = fstart[first]+2+strlen(f[first].name)+1 + (size_t)(tv-f[first].raw);
				if(tn!=vs || (tn && (size_t)(v-hb)!=voff) ){ nfails++; printf("GET value mismatch %s\n",probe[p]); show("blk",hb,bl); show("lib",v,vs); show("ref",(const uint8_t*)tv,tn);} }
			/* iterate with offset: all values */
			size_t off=0; int idx=-1; 
			for(;;){ rc=http_hdr_val_get_ex(hb,bl,(const uint8_t*)probe[p],pn,off,&v,&vs,&off); if(rc)break;
				do idx++; while(idx<nf && !ieq(f[idx].name,strlen(f[idx].name),probe[p],pn));
				if(idx>=nf){nfails++; printf("ITER extra\n"); show("blk",hb,bl); break;}
				const char*tv; size_t tn; trim(f[idx].raw,strlen(f[idx].raw),&tv,&tn);
				if(tn!=vs || memcmp(tv,v,tn)){ nfails++; printf("ITER value mismatch %s\n",probe[p]); show("blk",hb,bl);} }
			/* remove */
			uint8_t *a=malloc(bl+1),*b=malloc(bl+1); memcpy(a,hb,bl); for(size_t i=0;i<bl;i++) b[i]=(uint8_t)tolower(hb[i]);
			size_t n2=bl; size_t rr=http_hdr_val_remove(a,b,bl,&n2,(const uint8_t*)probe[p],pn);
			char ref[4096]; size_t rn=0; rn+=sprintf(ref,"%s",rl);
			for(int i=0;i<nf;i++) if(!ieq(f[i].name,strlen(f[i].name),probe[p],pn)){ memcpy(ref+rn,blk+fstart[i],fend[i]-fstart[i]); rn+=fend[i]-fstart[i]; }
			if(endcrlf){ memcpy(ref+rn,"\r\n",2); rn+=2; }
			int known = (nf>0 && !endcrlf && strstr(f[nf-1].raw,"\r\n") && ieq(f[nf-1].name,strlen(f[nf-1].name),probe[p],pn));
			if(!known && (rr!=c || n2!=rn || memcmp(a,ref,rn))){ nfails++; printf("REMOVE mismatch %s rr=%zu c=%zu\n",probe[p],rr,c); show("blk",hb,bl); show("lib",a,n2); show("ref",(uint8_t*)ref,rn);}
			free(a);free(b);
		}
		/* sec chk */
		uint32_t mc = meth==0?HTTP_REQ_METHOD_GET:(meth==1?HTTP_REQ_METHOD_POST:HTTP_REQ_METHOD_PUT);
		int sc=http_req_sec_chk(hb,bl,mc);
		int spcolon = 0; for(size_t i=0;i+1<bl;i++) if(hb[i]==' '&&hb[i+1]==':') spcolon=1;
		int exp = 0;
		if(spcolon) exp=1; else if(cnt[0]>1) exp=3; else if(cnt[1]>1) exp=4; else if(cnt[1]&&meth==0) exp=5; else if(cnt[2]>1) exp=6; else if(cnt[1]&&cnt[2]) exp=7;
		if(sc!=exp){ nfails++; printf("SEC mismatch lib=%d ref=%d\n",sc,exp); show("blk",hb,bl);}
		free(hb);
		if(nfails>15) break;
	}
	printf("fails=%d\n",nfails);
	return nfails!=0;
}
