#include <sys/param.h>
#include <sys/types.h>
#include <inttypes.h>
#include <string.h>
#include <stdio.h>
#include <stdlib.h>
#include <errno.h>
#include "proto/http.h"
static void show(const char *t, const uint8_t *p, size_t n){ printf("%s[%zu]=\"", t, n); for(size_t i=0;i<n;i++){ if(p[i]=='\r')printf("\\r"); else if(p[i]=='\n')printf("\\n"); else if(p[i]=='\t')printf("\\t"); else if(p[i]<32||p[i]>126)printf("\\x%02x",p[i]); else putchar(p[i]);} printf("\"\n"); }
int main(void){
	const char *l[]={"HTTP/1.1 200 OK","HTTP/1.1 204 ","HTTP/1.0 404 Not Found\r\nX: y","HTTP/1.1 200 OK\r\n","HTTP/1.1 599 a  b \r\nA: b"};
	for(int i=0;i<5;i++){ http_resp_line_data_t d; size_t n=strlen(l[i]); uint8_t*b=malloc(n); memcpy(b,l[i],n); int rc=http_parse_resp_line(b,n,&d); printf("rc=%d ver=%x code=%u line=%zu ",rc,d.proto_ver,d.status_code,d.line_size); if(!rc)show("reason",d.reason_phrase,d.reason_phrase_size); free(b);}    
	return 0; }
