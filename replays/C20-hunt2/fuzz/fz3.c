#include <sys/param.h>
#include <sys/types.h>
#include <inttypes.h>
#include <string.h>
#include <stdio.h>
#include <stdlib.h>
#include <errno.h>
#include <ctype.h>
#include "proto/http.h"
static unsigned long long rs = 88172645463325252ULL;
static unsigned rnd(void){ rs ^= rs<<13; rs ^= rs>>7; rs ^= rs<<17; return (unsigned)(rs>>11); }
#define R(n) (rnd()%(n))
static int nfails;
static int ieq(const char*a,size_t an,const char*b,size_t bn){ if(an!=bn)return 0; for(size_t i=0;i<an;i++) if(tolower((unsigned char)a[i])!=tolower((unsigned char)b[i])) return 0; return 1;}
int main(int argc,char**argv){
	long iters=argc>1?atol(argv[1]):200000; int weird=argc>2;
	static const char *toks[]={"a=1","b=2","ab=3","a=","b=x=y","flag","A=9","ba=4","c=a","a=a","aa=1","x=a=1", "=5","=","a"};
	static const char *probe[]={"a","b","ab","flag","c","x"};
	for(long it=0;it<iters;it++){
		char q[512]=""; int nt=R(6); const char *tl[8]; int tn=0;
		int la=R(3)==0?R(3):0; for(int k=0;k<la;k++)strcat(q,"&");
		for(int i=0;i<nt;i++){ const char*t=toks[R(weird?15:12)]; tl[tn++]=t; strcat(q,t); if(i+1<nt){ strcat(q,"&"); if(R(5)==0)strcat(q,"&"); } }
		int ta=R(4)==0?R(3):0; for(int k=0;k<ta;k++)strcat(q,"&");
		size_t qn=strlen(q);
		for(int p=0;p<6;p++){
			size_t pn=strlen(probe[p]);
			/* ref get */
			const char *rv=NULL; size_t rvn=0; int cnt=0;
			for(int i=0;i<tn;i++){ const char*e=strchr(tl[i],'='); if(!e)continue; if(ieq(tl[i],(size_t)(e-tl[i]),probe[p],pn)){ if(!rv){rv=e+1;rvn=strlen(e+1);} cnt++; } }
			uint8_t *qb=malloc(qn?qn:1); memcpy(qb,q,qn);
			const uint8_t*v=NULL; size_t vs=0;
			int rc=http_query_val_get(qb,qn,(const uint8_t*)probe[p],pn,&v,&vs);
			if((rc==0)!=(rv!=NULL) || (rc==0&&(vs!=rvn||memcmp(v,rv,vs)))){ nfails++; printf("QGET mismatch q=\"%s\" name=%s rc=%d lib=\"%.*s\" ref=\"%s\"\n",q,probe[p],rc,rc?0:(int)vs,rc?"":(const char*)v,rv?rv:"(none)"); }
			size_t n2=qn; size_t dc=http_query_val_del(qb,qn,(const uint8_t*)probe[p],pn,&n2);
			/* ref remaining token list */
			char ref[512]="",lib[512]=""; 
			for(int i=0;i<tn;i++){ const char*e=strchr(tl[i],'='); if(e&&ieq(tl[i],(size_t)(e-tl[i]),probe[p],pn))continue; if(ref[0])strcat(ref,"&"); strcat(ref,tl[i]); }
			/* tokenise lib result */
			{ size_t i=0; while(i<n2){ while(i<n2&&qb[i]=='&')i++; size_t s=i; while(i<n2&&qb[i]!='&')i++; if(i>s){ if(lib[0])strcat(lib,"&"); strncat(lib,(char*)qb+s,i-s);} } }
			if(dc!=(size_t)cnt||strcmp(ref,lib)){ nfails++; printf("QDEL mismatch q=\"%s\" name=%s dc=%zu cnt=%d lib=\"%.*s\" ref=\"%s\"\n",q,probe[p],dc,cnt,(int)n2,qb,ref); }
			free(qb);
		}
		if(nfails>20)break;
	}
	printf("fails=%d\n",nfails); return nfails!=0;
}
