#include <sys/param.h>
#include <sys/types.h>
#include <inttypes.h>
#include <string.h>
#include <stdio.h>
#include <stdlib.h>
#include <errno.h>
#include <ctype.h>
#include "proto/http.h"
static unsigned long long rs = 88172645463325252ULL;
static unsigned rnd(void){ rs ^= rs<<13; rs ^= rs>>7; rs ^= rs<<17; return (unsigned)(rs>>11); }
#define R(n) (rnd()%(n))
static void show(const char *t, const uint8_t *p, size_t n){ printf("%s[%zu]=\"", t, n); if(!p){printf("(null)\"\n");return;} for(size_t i=0;i<n;i++){ if(p[i]=='\r')printf("\\r"); else if(p[i]=='\n')printf("\\n"); else putchar(p[i]);} printf("\"\n"); }
static int nfails;
static void norm(const char*s,size_t n,const char**o,size_t*on){ while(n>1&&s[0]=='/'&&s[1]=='/'){s++;n--;} while(n>1&&s[n-1]=='/')n--; *o=s;*on=n; }
static int speq(const uint8_t*p,size_t n,const char*s){ size_t sn=strlen(s); if(sn==0) return n==0; return p&&n==sn&&!memcmp(p,s,n); }
int main(int argc,char**argv){
	long iters=argc>1?atol(argv[1]):200000;
	static const char *meths[]={"OPTIONS","GET","HEAD","POST","PUT","DELETE","TRACE","CONNECT","NOTIFY","M-SEARCH","M-POST","SUBSCRIBE","UNSUBSCRIBE","PATCH","FOO"};
	static const uint32_t mcode[]={1,2,3,4,5,6,7,8,9,10,11,12,13,0,0};
	static const char *segs[]={"","a","b.c","%2F",":","a:b","@","x:","index.html","~u","a=b","a&b",";p=1","'","(",")","*","+",",","!","$","http:"};
	static const char *qs[]={"","a=1","a=1&b=2","x=/y/","u=http://e.com/p","?","a=?b","/","//","a=b/"};
	static const char *auths[]={"h","example.com","example.com:80","u:p@h:8080","[::1]","[::1]:443","1.2.3.4:80","h:"};
	static const char *schemes[]={"http","https","HTTP","ws","a+b-c.d"};
	for(long it=0;it<iters;it++){
		char line[1024],target[512]="",path[300]="",scheme[32]="",auth[64]="",query[100]=""; int hasq=0;
		int mi=R(15); int form=R(10); /* 0-5 origin,6-8 absolute,9 asterisk */
		if(mcode[mi]==8) form=20;
		if(form<=8){
			int ns = R(5);
			if(form>=6 && R(3)==0) ns=0; /* empty path allowed for absolute */
			else if(ns==0) strcpy(path,"/");
			for(int i=0;i<ns;i++){ strcat(path,"/"); strcat(path,segs[R(22)]); }
			if(ns && R(4)==0) strcat(path,"/");
			if(form<6 && path[0]==0) strcpy(path,"/");
			hasq=R(2); if(hasq) strcpy(query,qs[R(10)]);
			if(form>=6){ strcpy(scheme,schemes[R(5)]); strcpy(auth,auths[R(8)]); sprintf(target,"%s://%s%s",scheme,auth,path);} else strcpy(target,path);
			if(hasq){ strcat(target,"?"); strcat(target,query);} 
		} else if(form==9){ strcpy(target,"*"); strcpy(path,"*"); }
		else { strcpy(auth,auths[R(8)]); strcpy(target,auth); }
		int maj=R(3),min=R(10);
		int tail=R(3);
		size_t n=sprintf(line,"%s %s HTTP/%d.%d%s",meths[mi],target,maj,min,tail==0?"":(tail==1?"\r\nHost: x":"\r\nA: b c\r\nHost: x y z"));
		uint8_t *hb=malloc(n); memcpy(hb,line,n);
		http_req_line_data_t d; int rc=http_parse_req_line(hb,n,&d);
		int bad=0;
		if(rc!=0) bad=1;
		else {
			if(!speq(d.method,d.method_size,meths[mi])||d.method_code!=mcode[mi]) bad=2;
			if(!speq(d.uri,d.uri_size,target)) bad=3;
			if(!speq(d.scheme,d.scheme_size,scheme)) bad=4;
			if(!speq(d.host,d.host_size,auth)) bad=5;
			if(form<20){ const char*a,*b; size_t an,bn; norm(path,strlen(path),&a,&an); 
				if(d.abs_path==NULL){ if(an) bad=6;} else { norm((const char*)d.abs_path,d.abs_path_size,&b,&bn); if(an!=bn||memcmp(a,b,an)) bad=6; } }
			if(hasq){ if(!d.query||!speq(d.query,d.query_size,query)) bad=7;} else if(d.query||d.query_size) bad=8;
			if(d.proto_ver!=MAKEDWORD(min,maj)) bad=9;
			size_t ls = strlen(line); char*c=strstr(line,"\r\n"); if(c) ls=(size_t)(c-line); if(d.line_size!=ls) bad=10;
		}
		if(it<12) show("sample",hb,n);
		if(bad){ nfails++; printf("REQ mismatch kind=%d rc=%d\n",bad,rc); show("line",hb,n); if(!rc){show("path",d.abs_path,d.abs_path_size); show("host",d.host,d.host_size); show("scheme",d.scheme,d.scheme_size); show("query",d.query,d.query_size);} }
		free(hb);
		if(nfails>20)break;
	}
	printf("fails=%d\n",nfails); return nfails!=0;
}
