#include <sys/param.h>
#include <sys/types.h>
#include <inttypes.h>
#include <string.h>
#include <stdio.h>
#include <stdlib.h>
#include <errno.h>
#include "proto/http.h"

static void show(const char *t, const uint8_t *p, size_t n){ printf("%s[%zu]=\"", t, n); for(size_t i=0;i<n;i++){ if(p[i]=='\r')printf("\\r"); else if(p[i]=='\n')printf("\\n"); else putchar(p[i]);} printf("\"\n"); }

int main(void){
	/* remove folded last */
	const char *h = "get / http/1.1\r\nx: 1\r\nfoo: a\r\n b";
	size_t n = strlen(h), n2=0;
	uint8_t *a = malloc(n), *b = malloc(n);
	memcpy(a,h,n); memcpy(b,h,n);
	size_t r = http_hdr_val_remove(a,b,n,&n2,(const uint8_t*)"foo",3);
	printf("removed %zu\n", r); show("after", a, n2);
	/* size-only */
	const char *h2 = "GET / HTTP/1.1\r\nX:   abc  \r\nY: 1";
	const uint8_t *v; size_t vs=0, vs2=0;
	http_hdr_val_get((const uint8_t*)h2, strlen(h2), (const uint8_t*)"x",1,&v,&vs);
	http_hdr_val_get((const uint8_t*)h2, strlen(h2), (const uint8_t*)"x",1,NULL,&vs2);
	printf("vs=%zu vs2=%zu\n", vs, vs2);
	return 0;
}
