#include <sys/param.h>
#include <sys/types.h>
#include <inttypes.h>
#include <string.h>
#include <stdio.h>
#include <stdlib.h>
#include <errno.h>
#include "proto/http.h"
static void show(const char *t, const uint8_t *p, size_t n){ printf("%s[%zu]=\"", t, n); for(size_t i=0;i<n;i++){ if(p[i]=='\r')printf("\\r"); else if(p[i]=='\n')printf("\\n"); else if(p[i]=='\t')printf("\\t"); else if(p[i]<32||p[i]>126)printf("\\x%02x",p[i]); else putchar(p[i]);} printf("\"\n"); }
/* http_hdr_val_get_ex()/http_hdr_val_get(): both out parameters are optional
 * (each is tested against NULL), but skip_spwsp2() skips the leading blanks
 * only inside 'if (NULL != buf_ret)'.  Asking for the length alone returns the
 * length of the value WITH its leading OWS (and with the folding blanks). */
int main(void){
	const char *h = "GET / HTTP/1.1\r\nHost: example.com\r\nX-Len:\t  abc  \r\nY: 1";
	size_t n = strlen(h), s_both = 0, s_only = 0, s_host = 0;
	const uint8_t *v = NULL;
	int fail = 0;

	if (0 != http_hdr_val_get((const uint8_t*)h, n, (const uint8_t*)"x-len", 5, &v, &s_both)) return (3);
	if (0 != http_hdr_val_get((const uint8_t*)h, n, (const uint8_t*)"x-len", 5, NULL, &s_only)) return (3);
	if (0 != http_hdr_val_get((const uint8_t*)h, n, (const uint8_t*)"host", 4, NULL, &s_host)) return (3);
	show("value", v, s_both);
	printf("size with val_ret      = %zu\n", s_both);
	printf("size with val_ret NULL = %zu (expected %zu)\n", s_only, s_both);
	printf("Host size with val_ret NULL = %zu (expected 11)\n", s_host);
	if (s_only != s_both || 11 != s_host) fail = 1;
	/* same through skip_spwsp2 directly */
	{
		size_t t = 0;
		skip_spwsp2((const uint8_t*)"  ab ", 5, NULL, &t);
		printf("skip_spwsp2(\"  ab \", size only) = %zu (expected 2)\n", t);
		if (2 != t) fail = 1;
	}
	puts(fail ? "FAIL" : "OK");
	return (fail);
}
