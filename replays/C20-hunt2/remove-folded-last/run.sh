#!/bin/sh
# usage: run.sh <tree>
T="${1:-/tmp/hunt/C20}"
D="$(cd "$(dirname "$0")" && pwd)"
FL="-DHAVE_ACCEPT4 -DHAVE_EXPLICIT_BZERO -DHAVE_MEMMEM -DHAVE_MEMRCHR -DHAVE_PIPE2 -DHAVE_POSIX_SPAWN_FILE_ACTIONS_ADDCLOSEFROM_NP -DHAVE_PTHREAD_SETNAME_NP -DHAVE_REALLOCARRAY -DHAVE_SOCK_CLOEXEC -DHAVE_SOCK_NONBLOCK -DHAVE_STRNCASECMP -DLINUX -D_GNU_SOURCE -D__USE_GNU=1"
O="$(mktemp -d)"
clang -g -O1 -w -fsanitize=address,undefined -fno-sanitize-recover=undefined $FL -I"$T/include" "$D/demo.c" "$T/src/proto/http.c" -o "$O/demo" || { echo "BUILD FAIL"; exit 2; }
ASAN_OPTIONS=detect_leaks=0 "$O/demo"; rc=$?
rm -rf "$O"
exit $rc
