#include <sys/param.h>
#include <sys/types.h>
#include <inttypes.h>
#include <string.h>
#include <stdio.h>
#include <stdlib.h>
#include <errno.h>
#include "proto/http.h"
static void show(const char *t, const uint8_t *p, size_t n){ printf("%s[%zu]=\"", t, n); for(size_t i=0;i<n;i++){ if(p[i]=='\r')printf("\\r"); else if(p[i]=='\n')printf("\\n"); else if(p[i]=='\t')printf("\\t"); else if(p[i]<32||p[i]>126)printf("\\x%02x",p[i]); else putchar(p[i]);} printf("\"\n"); }
/* http_hdr_val_remove(): a folded field that is the LAST field of the block
 * (no CRLF after it - this is how http_server.c / upnp_ssdp.c delimit the
 * block: hdr_size ends before the CRLFCRLF) loses only its first physical
 * line; the continuation line stays and becomes part of the PREVIOUS field. */
int main(void){
	const char *orig = "POST / HTTP/1.1\r\nHost: a\r\nX-Forwarded-For: 1.1.1.1\r\nCookie: k=v;\r\n evil=1";
	const char *want = "POST / HTTP/1.1\r\nHost: a\r\nX-Forwarded-For: 1.1.1.1";
	size_t n = strlen(orig), n2 = 0, i, r;
	uint8_t *h = malloc(n), *lc = malloc(n);
	const uint8_t *v; size_t vs;
	int fail = 0;

	memcpy(h, orig, n);
	for (i = 0; i < n; i ++) lc[i] = (uint8_t)((orig[i] >= 'A' && orig[i] <= 'Z') ? (orig[i] | 32) : orig[i]);
	/* The lookup side sees one folded Cookie field: */
	if (0 != http_hdr_val_get(h, n, (const uint8_t*)"cookie", 6, &v, &vs)) return (3);
	show("cookie value before", v, vs);
	r = http_hdr_val_remove(h, lc, n, &n2, (const uint8_t*)"cookie", 6);
	printf("removed=%zu\n", r);
	show("after ", h, n2);
	show("expect", (const uint8_t*)want, strlen(want));
	if (n2 != strlen(want) || 0 != memcmp(h, want, n2)) fail = 1;
	/* The left-over continuation now belongs to the previous field. */
	if (0 == http_hdr_val_get(h, n2, (const uint8_t*)"x-forwarded-for", 15, &v, &vs)) {
		show("x-forwarded-for after", v, vs);
		if (vs != 7) fail = 1;
	}
	/* control: same block with a CRLF behind the field is handled. */
	{
		const char *o2 = "POST / HTTP/1.1\r\nHost: a\r\nCookie: k=v;\r\n evil=1\r\n";
		size_t m = strlen(o2), m2 = 0;
		uint8_t *a = malloc(m), *b = malloc(m);
		memcpy(a, o2, m); for (i = 0; i < m; i ++) b[i] = (uint8_t)((o2[i] >= 'A' && o2[i] <= 'Z') ? (o2[i] | 32) : o2[i]);
		http_hdr_val_remove(a, b, m, &m2, (const uint8_t*)"cookie", 6);
		show("control (CRLF terminated)", a, m2);
	}
	puts(fail ? "FAIL" : "OK");
	return (fail);
}
