#include <sys/param.h>
#include <sys/types.h>
#include <inttypes.h>
#include <string.h>
#include <stdio.h>
#include <stdlib.h>
#include <errno.h>
#include "proto/http.h"
static void show(const char *t, const uint8_t *p, size_t n){ printf("%s[%zu]=\"", t, n); for(size_t i=0;i<n;i++){ if(p[i]=='\r')printf("\\r"); else if(p[i]=='\n')printf("\\n"); else if(p[i]=='\t')printf("\\t"); else if(p[i]<32||p[i]>126)printf("\\x%02x",p[i]); else putchar(p[i]);} printf("\"\n"); }
/* http_req_sec_chk() rule 2 rejects every byte > 126 as a "control code".
 * 0x7f (DEL) is one; 0x80-0xff are RFC 7230 obs-text (field-vchar = VCHAR /
 * obs-text; "A recipient SHOULD treat other octets in field content (obs-text)
 * as opaque data").  A grammar-generated block with none of the listed
 * patterns is answered with 400 by http_server.c. */
int main(void){
	const char *h = "GET / HTTP/1.1\r\nHost: a\r\nX-Name: Fran\xc3\xa7ois";
	const char *c = "GET / HTTP/1.1\r\nHost: a\r\nX-Name: Francois";
	int rc, rc2, fail = 0;
	rc2 = http_req_sec_chk((const uint8_t*)c, strlen(c), HTTP_REQ_METHOD_GET);
	rc = http_req_sec_chk((const uint8_t*)h, strlen(h), HTTP_REQ_METHOD_GET);
	show("block", (const uint8_t*)h, strlen(h));
	printf("sec_chk(ascii control block)=%d, sec_chk(obs-text block)=%d (expected 0)\n", rc2, rc);
	if (0 != rc || 0 != rc2) fail = 1;
	puts(fail ? "FAIL" : "OK");
	return (fail);
}
