/* DISPATCH task loses its TP_F_DISPATCH flag after the first re-arm:
 * a callback that returns a code other than TP_TASK_CB_CONTINUE is called
 * again and again (EOF reported many times). */
#include <sys/param.h>
#include <sys/types.h>
#include <sys/socket.h>
#include <inttypes.h>
#include <string.h>
#include <stdio.h>
#include <stdlib.h>
#include <errno.h>
#include <unistd.h>
#include <pthread.h>
#include <time.h>

#include "threadpool/threadpool.h"
#include "threadpool/threadpool_task.h"

static tp_p tp;
static volatile int cb_calls = 0, eof_calls = 0, after_stop_calls = 0;
static volatile int stopped = 0;

static int
recv_cb(tp_task_p tptask, int error, io_buf_p buf, uint32_t eof,
    size_t transfered_size, void *udata) {
	(void)tptask; (void)udata; (void)buf;

	cb_calls ++;
	fprintf(stderr, "cb #%i: error=%i eof=%u transfered=%zu\n",
	    cb_calls, error, eof, transfered_size);
	if (0 != stopped) {
		after_stop_calls ++;
	}
	if (0 != eof) {
		eof_calls ++;
		stopped = 1;
		if (eof_calls >= 5) { /* Stop the flood. */
			tp_task_stop(tptask);
			tp_shutdown(tp);
		}
		/* DISPATCH: "All other return codes stop callback until
		 * tp_task_enable(1) is called". */
		return (TP_TASK_CB_EOF);
	}
	return (TP_TASK_CB_CONTINUE);
}

static void *
feeder(void *arg) {
	int fd = *(int*)arg;
	struct timespec ts = { 0, 100000000 };

	nanosleep(&ts, NULL);
	if (4 != write(fd, "abcd", 4)) abort();
	nanosleep(&ts, NULL);
	close(fd); /* EOF. */
	ts.tv_nsec = 500000000;
	nanosleep(&ts, NULL);
	tp_shutdown(tp);
	return (NULL);
}

int
main(void) {
	int sp[2];
	tp_settings_t s;
	tp_task_p tptask;
	io_buf_p buf;
	pthread_t thr;

	if (0 != socketpair(AF_UNIX, SOCK_STREAM, 0, sp)) return (2);
	tp_settings_def(&s);
	s.threads_max = 1;
	s.flags = 0;
	if (0 != tp_create(&s, &tp)) return (2);
	buf = io_buf_alloc(IO_BUF_FLAGS_STD, 64);
	IO_BUF_MARK_TRANSFER_ALL_FREE(buf);
	if (0 != tp_task_create_start(tp_thread_get(tp, 0), (uintptr_t)sp[0],
	    tp_task_sr_handler, 0, TP_EV_READ, TP_F_DISPATCH, 0, 0, buf,
	    recv_cb, NULL, &tptask)) return (2);
	pthread_create(&thr, NULL, feeder, &sp[1]);
	tp_thread_attach_first(tp);
	pthread_join(thr, NULL);

	printf("callbacks=%i eof reports=%i callbacks after non-CONTINUE return=%i\n",
	    cb_calls, eof_calls, after_stop_calls);
	if (1 != eof_calls || 0 != after_stop_calls) {
		printf("FAIL: TP_F_DISPATCH task was called again after its callback returned TP_TASK_CB_EOF\n");
		return (1);
	}
	printf("OK\n");
	return (0);
}
