/* tp_task_stop() removes the timeout timer only "if (0 != tptask->timeout)".
 * After tp_task_timeout_set(tptask, 0) (documented: "No affect on task in
 * wait event state") the armed timer survives tp_task_stop() /
 * tp_task_destroy(): the callback is made after stop returned; after
 * destroy the pool dereferences the freed task (heap-use-after-free). */
#include <sys/param.h>
#include <sys/types.h>
#include <sys/socket.h>
#include <inttypes.h>
#include <string.h>
#include <stdio.h>
#include <stdlib.h>
#include <errno.h>
#include <unistd.h>
#include <pthread.h>
#include <time.h>

#include "threadpool/threadpool.h"
#include "threadpool/threadpool_task.h"

static tp_p tp;
static tp_task_p tptask;
static volatile int cb_calls = 0, stop_returned = 0, cb_after_stop = 0;
static int use_destroy = 0;

static int
recv_cb(tp_task_p tpt_task, int error, io_buf_p buf, uint32_t eof,
    size_t transfered_size, void *udata) {
	(void)udata; (void)buf; (void)tpt_task;

	cb_calls ++;
	if (0 != stop_returned) {
		cb_after_stop ++;
	}
	fprintf(stderr, "cb #%i: error=%i (%s) eof=%u transfered=%zu%s\n",
	    cb_calls, error, strerror(error), eof, transfered_size,
	    (0 != stop_returned) ? "   <-- after tp_task_stop() returned" : "");
	return (TP_TASK_CB_NONE);
}

/* Runs on the task's own pool thread. */
static void
stop_msg_cb(tpt_p tpt, void *udata) {
	(void)tpt; (void)udata;

	tp_task_timeout_set(tptask, 0); /* Timeouts are not wanted any more. */
	if (0 != use_destroy) {
		tp_task_destroy(tptask);
	} else {
		tp_task_stop(tptask);
	}
	stop_returned = 1;
	fprintf(stderr, "tp_task_%s() returned on the pool thread\n",
	    (0 != use_destroy) ? "destroy" : "stop");
}

static void *
feeder(void *arg) {
	struct timespec ts = { 0, 100000000 };

	(void)arg;
	nanosleep(&ts, NULL);
	tpt_msg_send(tp_thread_get(tp, 0), NULL, 0, stop_msg_cb, NULL);
	ts.tv_nsec = 600000000;
	nanosleep(&ts, NULL);
	tp_shutdown(tp);
	return (NULL);
}

int
main(int argc, char **argv) {
	int sp[2];
	tp_settings_t s;
	io_buf_p buf;
	pthread_t thr;

	use_destroy = (1 < argc && 0 == strcmp(argv[1], "destroy"));
	if (0 != socketpair(AF_UNIX, SOCK_STREAM, 0, sp)) return (2);
	tp_settings_def(&s);
	s.threads_max = 1;
	s.flags = 0;
	if (0 != tp_create(&s, &tp)) return (2);
	buf = io_buf_alloc(IO_BUF_FLAGS_STD, 64);
	IO_BUF_MARK_TRANSFER_ALL_FREE(buf);
	if (0 != tp_task_create_start(tp_thread_get(tp, 0), (uintptr_t)sp[0],
	    tp_task_sr_handler, 0, TP_EV_READ, 0, 300 /* ms */, 0, buf,
	    recv_cb, NULL, &tptask)) return (2);
	pthread_create(&thr, NULL, feeder, NULL);
	tp_thread_attach_first(tp);
	pthread_join(thr, NULL);

	printf("callbacks=%i, after stop returned=%i\n", cb_calls, cb_after_stop);
	if (0 != cb_after_stop) {
		printf("FAIL: callback made after tp_task_stop() returned on the pool thread\n");
		return (1);
	}
	printf("OK\n");
	return (0);
}
