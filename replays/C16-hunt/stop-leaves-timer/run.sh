#!/bin/sh
# usage: run.sh <tree>
T=${1:-/tmp/hunt/C16}
D=$(cd "$(dirname "$0")" && pwd)
O=$(mktemp -d)
CFLAGS="-g -O1 -fsanitize=address,undefined -fno-omit-frame-pointer -DHAVE_ACCEPT4 -DHAVE_EXPLICIT_BZERO -DHAVE_MEMMEM -DHAVE_MEMRCHR -DHAVE_PIPE2 -DHAVE_POSIX_SPAWN_FILE_ACTIONS_ADDCLOSEFROM_NP -DHAVE_PTHREAD_SETNAME_NP -DHAVE_REALLOCARRAY -DHAVE_SOCK_CLOEXEC -DHAVE_SOCK_NONBLOCK -DHAVE_STRNCASECMP -DLINUX -D_GNU_SOURCE -D__USE_GNU=1 -I$T/include"
cc $CFLAGS -w -o "$O/demo" "$D/demo.c" \
    "$T/src/threadpool/threadpool.c" "$T/src/threadpool/threadpool_task.c" \
    "$T/src/threadpool/threadpool_msg_sys.c" "$T/src/net/socket.c" \
    "$T/src/net/socket_address.c" "$T/src/net/socket_options.c" "$T/src/utils/sys.c" $EXTRA_SRC \
    -lpthread || { echo "BUILD FAILED"; rm -rf "$O"; exit 3; }
ASAN_OPTIONS=detect_leaks=0 timeout 30 "$O/demo"
rc=$?
echo "--- same sequence with tp_task_destroy() (ASan):"
ASAN_OPTIONS=detect_leaks=0 timeout 30 "$O/demo" destroy 2>&1 | grep -v '^    #[4-9]\|^    #[1-9][0-9]' | head -40
rm -rf "$O"
exit $rc
