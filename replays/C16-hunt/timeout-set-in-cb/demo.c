/* tp_task_timeout_set() from a callback ("apply on start/continue after
 * callback") never arms the timer when the task was started with timeout 0:
 * tp_task_handler_post_int() uses tpt_ev_enable_args() on tp_timer whose
 * tpt member was never set (only tpt_ev_add*() sets it) -> EINVAL, ignored. */
#include <sys/param.h>
#include <sys/types.h>
#include <sys/socket.h>
#include <inttypes.h>
#include <string.h>
#include <stdio.h>
#include <stdlib.h>
#include <errno.h>
#include <unistd.h>
#include <pthread.h>
#include <time.h>

#include "threadpool/threadpool.h"
#include "threadpool/threadpool_task.h"

static tp_p tp;
static volatile int cb_calls = 0, timeouts = 0;

static int
recv_cb(tp_task_p tptask, int error, io_buf_p buf, uint32_t eof,
    size_t transfered_size, void *udata) {
	(void)udata; (void)buf;

	cb_calls ++;
	fprintf(stderr, "cb #%i: error=%i eof=%u transfered=%zu\n",
	    cb_calls, error, eof, transfered_size);
	if (ETIMEDOUT == error) {
		timeouts ++;
		tp_task_stop(tptask);
		return (TP_TASK_CB_NONE);
	}
	/* First byte received: from now on the peer must talk at least
	 * every 100 ms. */
	tp_task_timeout_set(tptask, 100);
	return (TP_TASK_CB_CONTINUE);
}

static void *
feeder(void *arg) {
	int fd = *(int*)arg;
	struct timespec ts = { 0, 100000000 };

	nanosleep(&ts, NULL);
	if (1 != write(fd, "a", 1)) abort();
	ts.tv_nsec = 700000000; /* 700 ms of silence. */
	nanosleep(&ts, NULL);
	tp_shutdown(tp);
	return (NULL);
}

int
main(void) {
	int sp[2];
	tp_settings_t s;
	tp_task_p tptask;
	io_buf_p buf;
	pthread_t thr;

	if (0 != socketpair(AF_UNIX, SOCK_STREAM, 0, sp)) return (2);
	tp_settings_def(&s);
	s.threads_max = 1;
	s.flags = 0;
	if (0 != tp_create(&s, &tp)) return (2);
	buf = io_buf_alloc(IO_BUF_FLAGS_STD, 64);
	IO_BUF_MARK_TRANSFER_ALL_FREE(buf);
	if (0 != tp_task_create_start(tp_thread_get(tp, 0), (uintptr_t)sp[0],
	    tp_task_sr_handler, TP_TASK_F_CB_AFTER_EVERY_READ, TP_EV_READ,
	    (uint16_t)(getenv("EVFLAGS") ? atoi(getenv("EVFLAGS")) : 0),
	    (uint64_t)(getenv("START_TIMEOUT") ? atoi(getenv("START_TIMEOUT")) : 0) /* no timeout yet */, 0, buf, recv_cb, NULL, &tptask)) return (2);
	pthread_create(&thr, NULL, feeder, &sp[1]);
	tp_thread_attach_first(tp);
	pthread_join(thr, NULL);

	printf("callbacks=%i timeouts reported=%i (timeout now %"PRIu64" ms, silence 700 ms)\n",
	    cb_calls, timeouts, tp_task_timeout_get(tptask));
	if (1 != timeouts) {
		printf("FAIL: inactivity longer than the configured timeout was not reported\n");
		return (1);
	}
	printf("OK\n");
	return (0);
}
