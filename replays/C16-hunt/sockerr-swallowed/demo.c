/* A socket error delivered by the pool (TP_F_ERROR + fflags) is dropped by
 * tp_task_handler() when the following recv() returns EAGAIN: "error" is
 * overwritten with errno, filtered to 0 and the task silently continues. */
#include <sys/param.h>
#include <sys/types.h>
#include <sys/socket.h>
#include <netinet/in.h>
#include <arpa/inet.h>
#include <inttypes.h>
#include <string.h>
#include <stdio.h>
#include <stdlib.h>
#include <errno.h>
#include <unistd.h>
#include <pthread.h>
#include <time.h>

#include "threadpool/threadpool.h"
#include "threadpool/threadpool_task.h"

static tp_p tp;
static volatile int cb_calls = 0, err_reports = 0;
static int skt;

static int
recv_cb(tp_task_p tptask, int error, io_buf_p buf, uint32_t eof,
    size_t transfered_size, void *udata) {
	(void)udata; (void)buf;

	cb_calls ++;
	fprintf(stderr, "cb #%i: error=%i (%s) eof=%u transfered=%zu\n",
	    cb_calls, error, strerror(error), eof, transfered_size);
	if (0 != error) {
		err_reports ++;
		tp_task_stop(tptask);
		return (TP_TASK_CB_ERROR);
	}
	return (TP_TASK_CB_CONTINUE);
}

static void *
feeder(void *arg) {
	struct timespec ts = { 0, 100000000 };
	int so_err = 0;
	socklen_t l = sizeof(so_err);

	(void)arg;
	nanosleep(&ts, NULL);
	/* Peer port is closed: the kernel answers with ICMP port unreachable
	 * and sets ECONNREFUSED on the socket (EPOLLERR). */
	if (1 != send(skt, "x", 1, 0)) perror("send");
	ts.tv_nsec = 500000000;
	nanosleep(&ts, NULL);
	getsockopt(skt, SOL_SOCKET, SO_ERROR, &so_err, &l);
	fprintf(stderr, "SO_ERROR left on the socket afterwards: %i\n", so_err);
	tp_shutdown(tp);
	return (NULL);
}

int
main(void) {
	int tmp;
	struct sockaddr_in sin;
	socklen_t sl = sizeof(sin);
	tp_settings_t s;
	tp_task_p tptask;
	io_buf_p buf;
	pthread_t thr;

	/* Find a closed UDP port on loopback. */
	tmp = socket(AF_INET, SOCK_DGRAM, 0);
	memset(&sin, 0, sizeof(sin));
	sin.sin_family = AF_INET;
	sin.sin_addr.s_addr = htonl(INADDR_LOOPBACK);
	if (0 != bind(tmp, (struct sockaddr*)&sin, sizeof(sin))) return (2);
	getsockname(tmp, (struct sockaddr*)&sin, &sl);
	close(tmp);
	skt = socket(AF_INET, SOCK_DGRAM | SOCK_NONBLOCK, 0);
	if (0 != connect(skt, (struct sockaddr*)&sin, sizeof(sin))) return (2);

	tp_settings_def(&s);
	s.threads_max = 1;
	s.flags = 0;
	if (0 != tp_create(&s, &tp)) return (2);
	buf = io_buf_alloc(IO_BUF_FLAGS_STD, 64);
	IO_BUF_MARK_TRANSFER_ALL_FREE(buf);
	if (0 != tp_task_create_start(tp_thread_get(tp, 0), (uintptr_t)skt,
	    tp_task_sr_handler, 0, TP_EV_READ, 0, 0, 0, buf,
	    recv_cb, NULL, &tptask)) return (2);
	pthread_create(&thr, NULL, feeder, NULL);
	tp_thread_attach_first(tp);
	pthread_join(thr, NULL);

	printf("callbacks=%i error reports=%i\n", cb_calls, err_reports);
	if (1 != err_reports) {
		printf("FAIL: ECONNREFUSED raised on the socket was %s\n",
		    (0 == err_reports) ? "never reported to the callback" :
		    "reported more than once");
		return (1);
	}
	printf("OK\n");
	return (0);
}
