/* tp_task_connect_ex_*: the current address index lives in
 * tptask->tot_transfered_size, but every attempt is armed with
 * tp_task_start() -> tp_task_start_ex(), which sets tot_transfered_size = 0.
 * The index is therefore lost after each attempt: failures are reported
 * with addr_index 0, addrs[2..] are never tried, success reports index 0. */
#include <sys/param.h>
#include <sys/types.h>
#include <sys/socket.h>
#include <netinet/in.h>
#include <arpa/inet.h>
#include <inttypes.h>
#include <string.h>
#include <stdio.h>
#include <stdlib.h>
#include <errno.h>
#include <unistd.h>
#include <pthread.h>
#include <time.h>

#include "threadpool/threadpool.h"
#include "threadpool/threadpool_task.h"

static tp_p tp;
static struct sockaddr_storage addrs[3];
static volatile int cb_calls = 0, bad = 0, connected_idx = -1;
static int expect_idx = 0;

static uint16_t
port_of(int fd) {
	struct sockaddr_in sin;
	socklen_t sl = sizeof(sin);
	getsockname(fd, (struct sockaddr*)&sin, &sl);
	return (ntohs(sin.sin_port));
}

static int
conn_cb(tp_task_p tptask, int error, tp_task_conn_prms_p conn_prms,
    size_t addr_index, void *udata) {
	(void)udata; (void)conn_prms;

	cb_calls ++;
	fprintf(stderr, "cb #%i: error=%i (%s) addr_index=%zu (expected %i)\n",
	    cb_calls, error, (-1 == error) ? "no more tries" : strerror(error),
	    addr_index, expect_idx);
	if (-1 != error && (size_t)expect_idx != addr_index) {
		bad ++;
	}
	if (0 == error) {
		connected_idx = (int)addr_index;
		tp_shutdown(tp);
		return (TP_TASK_CB_NONE);
	}
	if (-1 == error || cb_calls >= 8) { /* Give up. */
		tp_task_stop(tptask);
		tp_shutdown(tp);
		return (TP_TASK_CB_NONE);
	}
	expect_idx ++;
	return (TP_TASK_CB_CONTINUE);
}

int
main(void) {
	int i, l[3];
	struct sockaddr_in sin;
	tp_settings_t s;
	tp_task_p tptask;
	tp_task_conn_prms_t prms;

	for (i = 0; i < 3; i ++) { /* Three loopback ports. */
		l[i] = socket(AF_INET, SOCK_STREAM, 0);
		memset(&sin, 0, sizeof(sin));
		sin.sin_family = AF_INET;
		sin.sin_addr.s_addr = htonl(INADDR_LOOPBACK);
		if (0 != bind(l[i], (struct sockaddr*)&sin, sizeof(sin))) return (2);
		sin.sin_port = htons(port_of(l[i]));
		memcpy(&addrs[i], &sin, sizeof(sin));
	}
	close(l[0]); /* addrs[0]: refused */
	close(l[1]); /* addrs[1]: refused */
	listen(l[2], 4); /* addrs[2]: accepts */

	tp_settings_def(&s);
	s.threads_max = 1;
	s.flags = 0;
	if (0 != tp_create(&s, &tp)) return (2);
	memset(&prms, 0, sizeof(prms));
	prms.max_tries = 1; /* One round over all addresses. */
	prms.flags = TP_TASK_CONNECT_F_ROUND_ROBIN;
	prms.addrs_count = 3;
	prms.addrs = addrs;
	if (0 != tp_task_connect_ex_create(tp_thread_get(tp, 0),
	    TP_TASK_F_CB_AFTER_EVERY_READ, 1000, &prms, conn_cb, NULL,
	    &tptask)) return (2);
	tp_thread_attach_first(tp);

	printf("callbacks=%i connected addr_index=%i wrong-index reports=%i\n",
	    cb_calls, connected_idx, bad);
	if (2 != connected_idx || 0 != bad || 3 != cb_calls) {
		printf("FAIL: expected reports (ECONNREFUSED,0) (ECONNREFUSED,1) (0,2)\n");
		return (1);
	}
	printf("OK\n");
	return (0);
}
