/* tp_task_rw_handler ("read() / write() from/to buf") really calls
 * pread()/pwrite() with tptask->offset.  Every descriptor the Linux pool can
 * watch (pipe, FIFO, tty, socket, eventfd...) is not seekable, so the task
 * reports ESPIPE and never moves a byte; regular files, where pread() works,
 * are refused by epoll (EPERM). */
#include <sys/param.h>
#include <sys/types.h>
#include <sys/socket.h>
#include <inttypes.h>
#include <string.h>
#include <stdio.h>
#include <stdlib.h>
#include <errno.h>
#include <fcntl.h>
#include <unistd.h>
#include <pthread.h>
#include <time.h>

#include "threadpool/threadpool.h"
#include "threadpool/threadpool_task.h"

static tp_p tp;
static volatile int cb_calls = 0, got_err = 0;
static volatile size_t got = 0;

static int
read_cb(tp_task_p tptask, int error, io_buf_p buf, uint32_t eof,
    size_t transfered_size, void *udata) {
	(void)udata;

	cb_calls ++;
	fprintf(stderr, "cb #%i: error=%i (%s) eof=%u transfered=%zu used=%zu\n",
	    cb_calls, error, strerror(error), eof, transfered_size, buf->used);
	got += transfered_size;
	if (0 != error) {
		got_err = error;
	}
	tp_task_stop(tptask);
	tp_shutdown(tp);
	return (TP_TASK_CB_NONE);
}

int
main(void) {
	int pp[2], error;
	tp_settings_t s;
	tp_task_p tptask;
	io_buf_p buf;

	if (0 != pipe2(pp, O_NONBLOCK)) return (2);
	if (5 != write(pp[1], "hello", 5)) return (2);
	tp_settings_def(&s);
	s.threads_max = 1;
	s.flags = 0;
	if (0 != tp_create(&s, &tp)) return (2);
	buf = io_buf_alloc(IO_BUF_FLAGS_STD, 5);
	IO_BUF_MARK_TRANSFER_ALL_FREE(buf);
	error = tp_task_create_start(tp_thread_get(tp, 0), (uintptr_t)pp[0],
	    tp_task_rw_handler, 0, TP_EV_READ, 0, 0, 0, buf, read_cb, NULL,
	    &tptask);
	if (0 != error) {
		printf("tp_task_create_start(): %i\n", error);
		return (2);
	}
	tp_thread_attach_first(tp);

	printf("5 bytes waiting in the pipe: delivered=%zu error=%i (%s)\n",
	    got, got_err, strerror(got_err));
	if (5 != got || 0 != got_err || 0 != memcmp(buf->data, "hello", 5)) {
		printf("FAIL: read task did not deliver the bytes that arrived on the descriptor\n");
		return (1);
	}
	printf("OK\n");
	return (0);
}
