/* http_srv_recv_done_cb(): after io_buf_realloc() of the receive buffer
 * (POST body larger than the free space of the 4 KiB initial buffer) the
 * request descriptor (req.hdr, req.data, req.line.*) still points into the
 * old, freed block.  The header lookups that follow and the application
 * callback read freed memory. */
#include <sys/param.h>
#include <sys/types.h>
#include <sys/socket.h>
#include <netinet/in.h>
#include <arpa/inet.h>
#include <inttypes.h>
#include <stdlib.h>
#include <stdio.h>
#include <unistd.h>
#include <string.h>
#include <errno.h>
#include <pthread.h>

#include "threadpool/threadpool.h"
#include "threadpool/threadpool_task.h"
#include "net/socket.h"
#include "net/socket_address.h"
#include "proto/http_server.h"

static volatile int g_cb_called = 0;
static volatile int g_bad = 0;
static uint16_t g_port = 0;
#define BODY_SIZE 20000

static int
on_req(http_srv_cli_p cli, void *udata, http_srv_req_p req, http_srv_resp_p resp) {
	io_buf_p rb;
	(void)udata;
	g_cb_called = 1;
	/* Structural consistency: every pointer handed to the application
	 * must lie inside the client's receive buffer. */
	/* rcv_buf is private: compare with the span the request itself declares. */
	printf("cb: hdr=%p hdr_size=%zu data=%p data_size=%zu\n",
	    (const void*)req->hdr, req->hdr_size, (const void*)req->data, req->data_size);
	/* Touch what the API hands out (ASan reports the use after free
	 * earlier, inside the library, on http_hdr_val_get()). */
	if (req->data_size != BODY_SIZE || req->data[0] != 'B' ||
	    req->data[req->data_size - 1] != 'B' ||
	    0 != memcmp(req->hdr, "POST ", 5)) {
		g_bad = 1;
		printf("FAIL: request descriptor does not describe the received request\n");
	}
	rb = http_srv_cli_get_buf(cli);
	(void)rb;
	resp->status_code = 200;
	return (HTTP_SRV_CB_CONTINUE);
}

static void *
client_thread(void *arg) {
	int s;
	struct sockaddr_in sin;
	char hdr[256], *body;
	char rbuf[4096];
	(void)arg;

	s = socket(AF_INET, SOCK_STREAM, 0);
	memset(&sin, 0, sizeof(sin));
	sin.sin_family = AF_INET;
	sin.sin_port = htons(g_port);
	sin.sin_addr.s_addr = htonl(INADDR_LOOPBACK);
	if (0 != connect(s, (struct sockaddr*)&sin, sizeof(sin))) {
		perror("connect");
		return (NULL);
	}
	snprintf(hdr, sizeof(hdr),
	    "POST /upload HTTP/1.1\r\nHost: 127.0.0.1\r\nContent-Length: %d\r\n\r\n",
	    BODY_SIZE);
	send(s, hdr, strlen(hdr), 0);
	usleep(300000); /* Let the server see the header block alone. */
	body = malloc(BODY_SIZE);
	memset(body, 'B', BODY_SIZE);
	send(s, body, BODY_SIZE, 0);
	free(body);
	recv(s, rbuf, sizeof(rbuf), 0);
	close(s);
	return (NULL);
}

int
main(void) {
	tp_p tp = NULL;
	tp_settings_t tps;
	http_srv_p srv = NULL;
	http_srv_settings_t ss;
	http_srv_bind_settings_t bs;
	http_srv_bind_p bnd = NULL;
	http_srv_cli_ccb_t ccb;
	sockaddr_storage_t addr;
	pthread_t thr;
	int error, i;

	tp_settings_def(&tps);
	tps.threads_max = 1;
	tps.flags = 0;
	error = tp_create(&tps, &tp);
	if (0 != error) { printf("tp_create: %i\n", error); return (2); }
	tp_threads_create(tp, 0);

	http_srv_def_settings(0, "demo/1.0", 0, &ss); /* Library defaults: 4 KiB initial, 64 KiB max. */
	memset(&ccb, 0, sizeof(ccb));
	ccb.on_req_rcv = on_req;
	error = http_srv_create(tp, NULL, &ccb, NULL, &ss, NULL, &srv);
	if (0 != error) { printf("http_srv_create: %i\n", error); return (2); }

	for (i = 0; i < 50; i ++) {
		g_port = (uint16_t)(20000 + (getpid() * 7 + i * 131) % 20000);
		http_srv_bind_def_settings(&ss.skt_opts, &bs);
		sa_init(&bs.addr, AF_INET, NULL, g_port);
		((struct sockaddr_in*)&bs.addr)->sin_addr.s_addr = htonl(INADDR_LOOPBACK);
		error = http_srv_bind_add(srv, &bs, NULL, NULL, &bnd);
		if (0 == error)
			break;
	}
	if (0 != error) { printf("bind: %i\n", error); return (2); }
	(void)addr;

	pthread_create(&thr, NULL, client_thread, NULL);
	pthread_join(thr, NULL);
	usleep(200000);
	if (0 == g_cb_called) {
		printf("FAIL: request callback never ran\n");
		return (1);
	}
	if (0 != g_bad)
		return (1);
	printf("OK\n");
	return (0);
}
