/* http_srv_recv_done_cb(): Content-Length frames the body only for POST and
 * unknown methods.  For PUT / DELETE / OPTIONS / NOTIFY / M-POST ... the
 * switch has no arm: data_size stays 0, the declared body is left in the
 * buffer and, on a keep-alive connection, is parsed as the next pipelined
 * request. */
#include <sys/param.h>
#include <sys/types.h>
#include <sys/socket.h>
#include <netinet/in.h>
#include <arpa/inet.h>
#include <inttypes.h>
#include <stdlib.h>
#include <stdio.h>
#include <unistd.h>
#include <string.h>
#include <errno.h>
#include <pthread.h>

#include "threadpool/threadpool.h"
#include "threadpool/threadpool_task.h"
#include "net/socket.h"
#include "net/socket_address.h"
#include "proto/http_server.h"

static volatile int g_cb_calls = 0;
static volatile int g_bad = 0;
static uint16_t g_port = 0;
static const char body[] = "GET /smuggled HTTP/1.1\r\nHost: 127.0.0.1\r\n\r\n";

static int
on_req(http_srv_cli_p cli, void *udata, http_srv_req_p req, http_srv_resp_p resp) {
	(void)cli; (void)udata;
	g_cb_calls ++;
	printf("request #%d: '%.*s' data_size=%zu\n", g_cb_calls,
	    (int)req->line.line_size, (const char*)req->hdr, req->data_size);
	if (1 == g_cb_calls && req->data_size != (sizeof(body) - 1)) {
		g_bad = 1;
		printf("FAIL: PUT with Content-Length %zu delivered with data_size %zu\n",
		    (sizeof(body) - 1), req->data_size);
	}
	if (1 < g_cb_calls) {
		g_bad = 1;
		printf("FAIL: the PUT body was taken for a second request\n");
	}
	resp->status_code = 200;
	return (HTTP_SRV_CB_CONTINUE);
}

static void *
client_thread(void *arg) {
	int s;
	struct sockaddr_in sin;
	char msg[512], rbuf[4096];
	(void)arg;

	s = socket(AF_INET, SOCK_STREAM, 0);
	memset(&sin, 0, sizeof(sin));
	sin.sin_family = AF_INET;
	sin.sin_port = htons(g_port);
	sin.sin_addr.s_addr = htonl(INADDR_LOOPBACK);
	if (0 != connect(s, (struct sockaddr*)&sin, sizeof(sin))) {
		perror("connect");
		return (NULL);
	}
	snprintf(msg, sizeof(msg),
	    "PUT /file HTTP/1.1\r\nHost: 127.0.0.1\r\nContent-Length: %zu\r\n\r\n%s",
	    (sizeof(body) - 1), body);
	send(s, msg, strlen(msg), 0);
	usleep(300000);
	recv(s, rbuf, sizeof(rbuf), MSG_DONTWAIT);
	close(s);
	return (NULL);
}

int
main(void) {
	tp_p tp = NULL;
	tp_settings_t tps;
	http_srv_p srv = NULL;
	http_srv_settings_t ss;
	http_srv_bind_settings_t bs;
	http_srv_bind_p bnd = NULL;
	http_srv_cli_ccb_t ccb;
	pthread_t thr;
	int error, i;

	tp_settings_def(&tps);
	tps.threads_max = 1;
	tps.flags = 0;
	error = tp_create(&tps, &tp);
	if (0 != error) { printf("tp_create: %i\n", error); return (2); }
	tp_threads_create(tp, 0);

	http_srv_def_settings(0, "demo/1.0", 0, &ss);
	/* Keep-alive server: do not force 'Connection: close'. */
	ss.resp_p_flags &= ~HTTP_SRV_RESP_P_F_CONN_CLOSE;
	memset(&ccb, 0, sizeof(ccb));
	ccb.on_req_rcv = on_req;
	error = http_srv_create(tp, NULL, &ccb, NULL, &ss, NULL, &srv);
	if (0 != error) { printf("http_srv_create: %i\n", error); return (2); }

	for (i = 0; i < 50; i ++) {
		g_port = (uint16_t)(20000 + (getpid() * 7 + i * 131) % 20000);
		http_srv_bind_def_settings(&ss.skt_opts, &bs);
		sa_init(&bs.addr, AF_INET, NULL, g_port);
		((struct sockaddr_in*)&bs.addr)->sin_addr.s_addr = htonl(INADDR_LOOPBACK);
		error = http_srv_bind_add(srv, &bs, NULL, NULL, &bnd);
		if (0 == error)
			break;
	}
	if (0 != error) { printf("bind: %i\n", error); return (2); }

	pthread_create(&thr, NULL, client_thread, NULL);
	pthread_join(thr, NULL);
	usleep(200000);
	if (0 == g_cb_calls) {
		printf("FAIL: request callback never ran\n");
		return (1);
	}
	if (0 != g_bad)
		return (1);
	printf("OK\n");
	return (0);
}
