#!/bin/sh
# usage: run.sh <tree>
T=${1:-/tmp/hunt/C13}
D=$(cd "$(dirname "$0")" && pwd)
W=$(mktemp -d)
FL="-DHAVE_ACCEPT4 -DHAVE_EXPLICIT_BZERO -DHAVE_MEMMEM -DHAVE_MEMRCHR -DHAVE_PIPE2 -DHAVE_POSIX_SPAWN_FILE_ACTIONS_ADDCLOSEFROM_NP -DHAVE_PTHREAD_SETNAME_NP -DHAVE_REALLOCARRAY -DHAVE_SOCK_CLOEXEC -DHAVE_SOCK_NONBLOCK -DHAVE_STRNCASECMP -DLINUX -D_GNU_SOURCE -D__USE_GNU=1 -I$T/include"
clang -fsanitize=address -fno-omit-frame-pointer -g -O1 -w $FL -o $W/demo $D/demo.c \
  $T/src/proto/http_server.c $T/src/proto/http.c $T/src/threadpool/threadpool.c \
  $T/src/threadpool/threadpool_msg_sys.c $T/src/threadpool/threadpool_task.c \
  $T/src/net/socket.c $T/src/net/socket_address.c $T/src/net/socket_options.c $T/src/net/utils.c \
  $T/src/utils/xml.c $T/src/utils/info.c $T/src/utils/sys.c $T/src/utils/buf_str.c -lpthread || { echo "BUILD FAIL"; exit 3; }
ASAN_OPTIONS=detect_leaks=0 $W/demo > $W/out.txt 2>&1
rc=$?
head -40 $W/out.txt
rm -rf $W
if [ $rc -ne 0 ]; then echo "FAIL (rc=$rc)"; exit 1; fi
echo PASS
exit 0
