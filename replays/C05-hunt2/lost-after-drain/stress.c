/* Same defect without any hook: plain concurrent senders against tp_shutdown().
 * Counts sends that returned 0 and callbacks that ran. Probabilistic. */
#include <sys/param.h>
#include <sys/types.h>
#include <inttypes.h>
#include <string.h>
#include <stdio.h>
#include <stdlib.h>
#include <errno.h>
#include <unistd.h>
#include <pthread.h>
#include <time.h>
#include "threadpool/threadpool.h"
#include "threadpool/threadpool_msg_sys.h"

#define SENDERS 24
static volatile size_t ran, okc[SENDERS * 16];
static volatile int stop_senders;
static tpt_p g_dst;

static void msg_cb(tpt_p tpt, void *udata) { (void)tpt; (void)udata; ran ++; }
static void *sender(void *arg) {
	size_t n = (size_t)arg, c = 0;
	while (0 == stop_senders) {
		if (0 == tpt_msg_send(g_dst, NULL, 0, msg_cb, NULL))
			c ++;
	}
	okc[n * 16] = c;
	return (NULL);
}
int main(int argc, char **argv) {
	int iters = (argc > 1 ? atoi(argv[1]) : 300), it, lost_iters = 0;
	size_t lost_total = 0;
	for (it = 0; it < iters; it ++) {
		tp_settings_t s; tp_p tp; pthread_t th[SENDERS]; size_t i, ok = 0;
		struct timespec ts = { 0, 1000000 + (it % 7) * 300000 };
		tp_settings_def(&s); s.threads_max = 1; s.flags = 0;
		if (0 != tp_create(&s, &tp) || 0 != tp_threads_create(tp, 0)) return (2);
		while (1 != tp_thread_count_get(tp)) sched_yield();
		g_dst = tp_thread_get(tp, 0);
		ran = 0; stop_senders = 0;
		for (i = 0; i < SENDERS; i ++) pthread_create(&th[i], NULL, sender, (void*)i);
		nanosleep(&ts, NULL);
		tp_shutdown(tp);
		tp_shutdown_wait(tp);
		/* Senders are still alive here: any of them that passed the state test sends now. */
		ts.tv_nsec = 2000000; nanosleep(&ts, NULL);
		stop_senders = 1;
		for (i = 0; i < SENDERS; i ++) { pthread_join(th[i], NULL); ok += okc[i * 16]; }
		if (ok != ran) { lost_iters ++; lost_total += (ok - ran);
			printf("iter %i: %zu sends returned 0, %zu callbacks ran\n", it, ok, (size_t)ran); }
		tp_destroy(tp);
	}
	printf("%i of %i iterations lost messages (%zu total)\n", lost_iters, iters, lost_total);
	return (lost_iters ? 1 : 0);
}
