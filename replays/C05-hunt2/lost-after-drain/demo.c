/* tpt_msg_send(): the "is running" test and the queue write are two steps.
 * If the destination thread handles its stop message, drains its queue and
 * leaves between the two steps, the write still succeeds (the pipe stays
 * open until tp_destroy()), tpt_msg_send() returns 0 and the callback never
 * runs: a message that was reported as sent is lost.
 *
 * The interleaving is forced with a link-time wrapper of write() (the hook the
 * property names): the sender is held just before the real write() while the
 * main thread does tp_shutdown() + tp_shutdown_wait().  Nothing else is
 * altered, the library sources are compiled unmodified. */
#include <sys/param.h>
#include <sys/types.h>
#include <inttypes.h>
#include <string.h>
#include <stdio.h>
#include <stdlib.h>
#include <errno.h>
#include <unistd.h>
#include <pthread.h>
#include <semaphore.h>
#include <time.h>

#include "threadpool/threadpool.h"
#include "threadpool/threadpool_msg_sys.h"

ssize_t __real_write(int fd, const void *buf, size_t n);

static __thread int hold_next_write = 0;
static sem_t sem_sender_at_write, sem_shutdown_done;
static volatile int cb_runs = 0, cb_on_pool_thread = 0;
static tp_p g_pool;
static tpt_p g_dst;
static volatile int g_send_ret = -1;

ssize_t
__wrap_write(int fd, const void *buf, size_t n) {
	if (0 != hold_next_write) { /* Scheduling point: sender preempted before write(). */
		hold_next_write = 0;
		sem_post(&sem_sender_at_write);
		sem_wait(&sem_shutdown_done);
	}
	return (__real_write(fd, buf, n));
}

static void
msg_cb(tpt_p tpt, void *udata) {
	(void)tpt; (void)udata;
	if (NULL != tpt_get_current())
		cb_on_pool_thread = 1;
	__sync_fetch_and_add(&cb_runs, 1);
}

static void *
sender_proc(void *arg) {
	(void)arg;
	hold_next_write = 1;
	g_send_ret = tpt_msg_send(g_dst, NULL, 0, msg_cb, NULL);
	return (NULL);
}

static int
run(int to_pvt) {
	tp_settings_t s;
	pthread_t st;
	struct timespec ts = { 0, 20000000 };
	int i;

	cb_runs = 0;
	cb_on_pool_thread = 0;
	g_send_ret = -1;
	tp_settings_def(&s);
	s.threads_max = 2;
	s.flags = 0;
	if (0 != tp_create(&s, &g_pool) || 0 != tp_threads_create(g_pool, 0)) {
		printf("setup failed\n");
		return (2);
	}
	for (i = 0; i < 200 && 2 != tp_thread_count_get(g_pool); i ++)
		nanosleep(&ts, NULL);
	g_dst = (to_pvt ? tp_thread_get_pvt(g_pool) : tp_thread_get(g_pool, 0));

	pthread_create(&st, NULL, sender_proc, NULL);
	sem_wait(&sem_sender_at_write); /* Sender saw "running", stands before write(). */
	tp_shutdown(g_pool);
	tp_shutdown_wait(g_pool); /* Workers joined, all queues drained. */
	sem_post(&sem_shutdown_done);
	pthread_join(st, NULL);
	for (i = 0; i < 10; i ++)
		nanosleep(&ts, NULL);
	printf("dst=%s: tpt_msg_send() returned %i, callback ran %i time(s)\n",
	    (to_pvt ? "pool virtual thread" : "worker 0"), g_send_ret, cb_runs);
	tp_destroy(g_pool);
	printf("  after tp_destroy(): callback ran %i time(s)%s\n", cb_runs,
	    ((0 != cb_runs && 0 == cb_on_pool_thread) ? " (on the thread that called tp_destroy(), not on a pool thread)" : ""));
	if (0 == g_send_ret && 1 != cb_runs)
		return (1);
	if (0 != g_send_ret && 0 != cb_runs)
		return (1);
	return (0);
}

int
main(void) {
	int bad = 0;

	sem_init(&sem_sender_at_write, 0, 0);
	sem_init(&sem_shutdown_done, 0, 0);
	bad |= run(0);
	bad |= run(1);
	if (0 != bad) {
		printf("FAIL: a send that reported success never ran its callback\n");
		return (1);
	}
	printf("OK\n");
	return (0);
}
