#!/bin/sh
# usage: run.sh <tree>      (STRESS=1 run.sh <tree> also runs the hook-free, probabilistic stress.c)
T=${1:-/tmp/hunt/C05}
D=$(cd "$(dirname "$0")" && pwd)
O=$(mktemp -d)
DEFS="-DHAVE_ACCEPT4 -DHAVE_EXPLICIT_BZERO -DHAVE_MEMMEM -DHAVE_MEMRCHR -DHAVE_PIPE2 \
  -DHAVE_POSIX_SPAWN_FILE_ACTIONS_ADDCLOSEFROM_NP -DHAVE_PTHREAD_SETNAME_NP \
  -DHAVE_REALLOCARRAY -DHAVE_SOCK_CLOEXEC -DHAVE_SOCK_NONBLOCK -DHAVE_STRNCASECMP \
  -DLINUX -D_GNU_SOURCE -D__USE_GNU=1"
cc -g -O0 -fsanitize=address,undefined -fno-sanitize-recover=undefined $DEFS -I"$T/include" \
  "$D/demo.c" "$T/src/threadpool/threadpool.c" "$T/src/threadpool/threadpool_msg_sys.c" \
  -Wl,--wrap=write -lpthread -o "$O/demo" || exit 3
"$O/demo"; rc=$?
if [ -n "$STRESS" ]; then
  cc -g -O1 -w $DEFS -I"$T/include" "$D/stress.c" "$T/src/threadpool/threadpool.c" \
    "$T/src/threadpool/threadpool_msg_sys.c" -lpthread -o "$O/stress" || exit 3
  timeout 300 "$O/stress" 200 | tail -4
fi
rm -rf "$O"
exit $rc
