/* TP_MSG_F_SELF_DIRECT ("directly call cb func for calling thread") is decided
 * by the DECLARED source, not by the thread that really calls:
 *     if (src == dst) { msg_cb(dst, udata); return (0); }
 * A caller that is not dst but declares dst as source (the library's own test
 * declares thread 0 as originator of tpt_msg_cbsend() from the CUnit main
 * thread) gets the callback of dst executed on its own - foreign - thread,
 * concurrently with whatever dst is running, and the send reports success. */
#include <sys/param.h>
#include <sys/types.h>
#include <inttypes.h>
#include <string.h>
#include <stdio.h>
#include <stdlib.h>
#include <errno.h>
#include <unistd.h>
#include <pthread.h>
#include <time.h>

#include "threadpool/threadpool.h"
#include "threadpool/threadpool_msg_sys.h"

#define THREADS 3
static volatile int runs[THREADS + 1], wrong_thread[THREADS + 1];
static volatile int t0_busy = 0, overlap = 0, done_runs = 0;

static void
busy_cb(tpt_p tpt, void *udata) { /* Keeps worker 0 inside a callback. */
	struct timespec ts = { 0, 300000000 };
	(void)tpt; (void)udata;
	t0_busy = 1;
	nanosleep(&ts, NULL);
	t0_busy = 0;
}

static void
msg_cb(tpt_p tpt, void *udata) {
	size_t n = tpt_get_num(tpt);
	(void)udata;
	__sync_fetch_and_add(&runs[n], 1);
	if (tpt_get_current() != tpt) { /* Not on the thread it was addressed to. */
		__sync_fetch_and_add(&wrong_thread[n], 1);
		if (0 != t0_busy && 0 == n)
			overlap = 1;
	}
}
static void
done_cb(tpt_p tpt, size_t send_msg_cnt, size_t error_cnt, void *udata) {
	(void)tpt; (void)send_msg_cnt; (void)error_cnt; (void)udata;
	done_runs ++;
}

int
main(void) {
	tp_settings_t s;
	tp_p tp;
	tpt_p t0;
	struct timespec ts = { 0, 20000000 };
	int i, ret, bad = 0;

	tp_settings_def(&s);
	s.threads_max = THREADS;
	s.flags = 0;
	if (0 != tp_create(&s, &tp) || 0 != tp_threads_create(tp, 0))
		return (2);
	for (i = 0; i < 200 && THREADS != tp_thread_count_get(tp); i ++)
		nanosleep(&ts, NULL);
	t0 = tp_thread_get(tp, 0);

	/* 1. Unicast. Worker 0 is busy inside an other callback. */
	tpt_msg_send(t0, NULL, 0, busy_cb, NULL);
	while (0 == t0_busy)
		nanosleep(&ts, NULL);
	ret = tpt_msg_send(t0, t0, TP_MSG_F_SELF_DIRECT, msg_cb, NULL); /* Caller: main thread (not in pool). */
	printf("tpt_msg_send(dst=t0, src=t0, SELF_DIRECT) from a non pool thread: ret=%i, "
	    "ran %i time(s), %i on a thread other than t0%s\n",
	    ret, runs[0], wrong_thread[0],
	    (overlap ? ", while t0 was inside an other callback" : ""));
	if (0 != wrong_thread[0])
		bad = 1;
	for (i = 0; i < 25; i ++)
		nanosleep(&ts, NULL);

	/* 2. Broadcast with declared originator, as tests/threadpool/main.c does. */
	memset((void*)runs, 0, sizeof(runs));
	memset((void*)wrong_thread, 0, sizeof(wrong_thread));
	ret = tpt_msg_cbsend(tp, t0, TP_MSG_F_SELF_DIRECT, msg_cb, NULL, done_cb);
	for (i = 0; i < 25; i ++)
		nanosleep(&ts, NULL);
	printf("tpt_msg_cbsend(tp, originator=t0, SELF_DIRECT) from a non pool thread: ret=%i, done_cb %i\n",
	    ret, done_runs);
	for (i = 0; i < THREADS; i ++) {
		printf("  thread %i: callback ran %i time(s), %i on a foreign thread\n",
		    i, runs[i], wrong_thread[i]);
		if (0 != wrong_thread[i])
			bad = 1;
	}
	tp_destroy(tp);
	if (0 != bad) {
		printf("FAIL: message addressed to pool thread 0 was executed on the calling (non pool) thread\n");
		return (1);
	}
	printf("OK\n");
	return (0);
}
