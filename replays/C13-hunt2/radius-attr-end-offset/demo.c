/*
 * radius_pkt_attr_get_data_ptr() / radius_pkt_attr_get_data_ptr_raw() (and
 * radius_pkt_attr_msg_authenticator_chk()/..._update()) accept the end
 * position offset == packet length, for which radius_pkt_attr_get_from_offset()
 * returns success "with no attribute to look at" - and then read attr->type and
 * attr->len behind the packet and hand out a data pointer / length that lie
 * outside the packet.
 *
 * The input is a valid Access-Accept (radius_pkt_chk() == 0) that is walked
 * with the natural enumeration idiom "call until it fails, offset += len + 2".
 */
#include <sys/param.h>
#include <sys/types.h>
#include <inttypes.h>
#include <string.h>
#include <stdio.h>
#include <errno.h>
#include <stdlib.h>
#include <arpa/inet.h>
#include "proto/radius.h"

int
main(void) {
	int fail = 0, error;
	/* Code 2 (Access-Accept), id 1, len 26, authenticator, Reply-Message "hi!!". */
	static const uint8_t pkt_bytes[26] = {
		2, 1, 0, 26,
		0,0,0,0, 0,0,0,0, 0,0,0,0, 0,0,0,0,
		18, 6, 'h', 'i', '!', '!'
	};
	uint8_t type = 0, *data = NULL;
	size_t len = 0, offset, n;

	/* Part 1: packet inside a larger receive buffer, the two bytes after the
	 * datagram are what ever the previous datagram left there: 0x01 0x00. */
	uint8_t rbuf[64];
	memset(rbuf, 0xa5, sizeof(rbuf));
	memcpy(rbuf, pkt_bytes, sizeof(pkt_bytes));
	rbuf[26] = 0x01; rbuf[27] = 0x00;
	rad_pkt_hdr_p pkt = (rad_pkt_hdr_p)rbuf;

	error = radius_pkt_chk(pkt, sizeof(pkt_bytes));
	printf("radius_pkt_chk() = %i\n", error);
	if (0 != error)
		return (2);
	offset = RADIUS_PKT_HDR_SIZE;
	for (n = 0; n < 8; n ++) {
		error = radius_pkt_attr_get_data_ptr_raw(pkt, offset, &type, &data, &len);
		printf("get_data_ptr_raw(offset %zu) = %i", offset, error);
		if (0 != error) {
			printf("\n");
			break;
		}
		printf(": type %u, data at pkt+%td, len %zu\n", type,
		    (data - rbuf), len);
		if ((size_t)(data - rbuf) > sizeof(pkt_bytes) ||
		    len > (sizeof(pkt_bytes) - (size_t)(data - rbuf))) {
			printf("FAIL: attribute [pkt+%td, +%zu) is outside the %zu byte packet\n",
			    (data - rbuf), len, sizeof(pkt_bytes));
			fail ++;
			break;
		}
		offset += (len + 2);
	}
	if (1 != n || 0 == error) {
		printf("FAIL: a packet with 1 attribute enumerated %zu (+) attributes\n", n + (0 == error));
		fail ++;
	}

	/* Part 2: same packet in an exactly sized heap block: ASan reports the read. */
	uint8_t *hp = malloc(sizeof(pkt_bytes));
	memcpy(hp, pkt_bytes, sizeof(pkt_bytes));
	fflush(stdout);
	error = radius_pkt_attr_get_data_ptr((rad_pkt_hdr_p)hp, sizeof(pkt_bytes),
	    &type, &data, &len);
	printf("heap: get_data_ptr(offset == pkt len) = %i (expected an error)\n", error);
	if (0 == error)
		fail ++;
	free(hp);

	if (0 != fail) {
		printf("FAIL\n");
		return (1);
	}
	printf("OK\n");
	return (0);
}
