/*
 * http_data_decode_chunked(): after a chunk the cursor is left ON the CRLF that
 * ends the chunk data (cur_pos = end_line + 2 + tm).  The next size line is
 * therefore found as the empty string in front of that CRLF, ustrh2usize("", 0)
 * is 0 and the decoder takes its "last chunk" exit: every RFC 7230 4.1 body
 * (size CRLF data CRLF size CRLF data CRLF 0 CRLF CRLF) is reported as decoded
 * successfully with the first chunk only.
 */
#include <sys/param.h>
#include <sys/types.h>
#include <inttypes.h>
#include <string.h>
#include <stdio.h>
#include <errno.h>
#include <stdlib.h>
#include "proto/http.h"

int
main(void) {
	static const char body[] = "5\r\nhello\r\n6\r\n world\r\n0\r\n\r\n";
	size_t n = (sizeof(body) - 1), rs = 0;
	uint8_t *b = malloc(n), *r = NULL;
	int error;

	memcpy(b, body, n);
	error = http_data_decode_chunked(b, n, &r, &rs);
	printf("error = %i, size = %zu, data = '%.*s'\n", error, rs,
	    (int)((NULL != r) ? rs : 0), (NULL != r) ? (char*)r : "");
	if (0 == error && (11 != rs || 0 != memcmp(r, "hello world", 11))) {
		printf("FAIL: success reported, but the body is 'hello world' (11 bytes)\n");
		fflush(stdout);
		free(b);
		return (1);
	}
	printf("OK\n");
	free(b);
	return (0);
}
