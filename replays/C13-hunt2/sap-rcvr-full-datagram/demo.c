/*
 * SAP receiver (src/proto/sap_rcvr.c, sap_receiver_recv_cb): the datagram is
 * received into  uint8_t buf[RECV_BUF_SIZE]  with sizeof(buf) as capacity and
 * then terminated with  buf[transfered_size] = 0 .  A datagram of RECV_BUF_SIZE
 * (4096) bytes or more - recvfrom() truncates it to 4096 - makes that store hit
 * buf[4096], one byte behind the stack array, before sdp_msg_sec_chk() is run.
 *
 * The real callback is compiled (the file is included to reach the static
 * function); only the two I/O entry points are replaced at link time
 * (--wrap): skt_recvfrom() delivers the hostile datagram, tp_task_ident_get()
 * returns a dummy descriptor.  No network is needed.
 */
#include SAP_RCVR_C


/* utils/data_cache.c does not build on Linux (TAILQ_FOREACH_SAFE); the receive
 * path shown here never gets as far as the cache, so plain stubs are enough. */
int data_cache_create(data_cache_p *dcache __unused, data_cache_alloc_data_func a __unused,
    data_cache_free_data_func f __unused, data_cache_hash_func h __unused,
    data_cache_cmp_data_func c __unused, uint32_t clean_interval __unused) { return (ENOSYS); }
void data_cache_destroy(data_cache_p dcache __unused) { }
void data_cache_clean(data_cache_p dcache __unused) { }
void data_cache_item_unlock(data_cache_item_p dc_item __unused) { }
int data_cache_item_add(data_cache_p dcache __unused, const uint8_t *key __unused,
    size_t key_size __unused, data_cache_item_p *dc_item __unused) { return (ENOSYS); }

static uint8_t dgram[8192];
static size_t dgram_size;

ssize_t __wrap_skt_recvfrom(uintptr_t skt, void *buf, size_t buf_size, int flags,
    sockaddr_storage_p from, uint32_t *if_index);
ssize_t
__wrap_skt_recvfrom(uintptr_t skt __unused, void *buf, size_t buf_size,
    int flags __unused, sockaddr_storage_p from __unused, uint32_t *if_index) {
	size_t n = MIN(buf_size, dgram_size); /* What recvfrom() does with a long datagram. */

	memcpy(buf, dgram, n);
	if (NULL != if_index) {
		(*if_index) = 1;
	}
	return ((ssize_t)n);
}

uintptr_t __wrap_tp_task_ident_get(tp_task_p tptask);
uintptr_t
__wrap_tp_task_ident_get(tp_task_p tptask __unused) {
	return (3);
}

int
main(void) {
	sap_rcvr_t srcvr;

	memset(&srcvr, 0x00, sizeof(srcvr));
	/* SAP v1, IPv4 origin, no auth data, msg id hash 0x0101, origin 10.0.0.1,
	 * payload: text that is not a valid SDP (refused by sdp_msg_sec_chk()). */
	memset(dgram, 'A', sizeof(dgram));
	dgram[0] = 0x20; dgram[1] = 0; dgram[2] = 1; dgram[3] = 1;
	dgram[4] = 10; dgram[5] = 0; dgram[6] = 0; dgram[7] = 1;

	dgram_size = 4095; /* Fits: must be handled (and is). */
	sap_receiver_recv_cb(NULL, 0, 0, 0, &srcvr);
	printf("4095 byte datagram: OK\n");
	fflush(stdout);

	dgram_size = 4096; /* == RECV_BUF_SIZE: buf[4096] = 0. */
	sap_receiver_recv_cb(NULL, 0, 0, 0, &srcvr);
	printf("4096 byte datagram: OK\n");
	return (0);
}
