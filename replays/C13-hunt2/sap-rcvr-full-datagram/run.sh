#!/bin/sh
# usage: run.sh <tree>
T=${1:-/tmp/hunt/C13}
D=$(cd "$(dirname "$0")" && pwd)
O=$(mktemp -d)
CF="-DHAVE_ACCEPT4 -DHAVE_EXPLICIT_BZERO -DHAVE_MEMMEM -DHAVE_MEMRCHR -DHAVE_PIPE2 -DHAVE_POSIX_SPAWN_FILE_ACTIONS_ADDCLOSEFROM_NP -DHAVE_PTHREAD_SETNAME_NP -DHAVE_REALLOCARRAY -DHAVE_SOCK_CLOEXEC -DHAVE_SOCK_NONBLOCK -DHAVE_STRNCASECMP -DLINUX -D_GNU_SOURCE -D__USE_GNU=1"
SRCS=""
for f in "$T"/src/net/*.c "$T"/src/threadpool/*.c "$T"/src/utils/sys.c; do SRCS="$SRCS $f"; done
clang -g -O0 -w -fsanitize=address $CF -I"$T/include" -DSAP_RCVR_C="\"$T/src/proto/sap_rcvr.c\"" \
    "$D/demo.c" $SRCS -Wl,--wrap=skt_recvfrom -Wl,--wrap=tp_task_ident_get -lpthread -lm -o "$O/demo" || exit 3
"$O/demo"
rc=$?
rm -rf "$O"
if [ $rc -ne 0 ]; then echo "FAIL (rc=$rc)"; exit 1; fi
exit 0
