#include <sys/param.h>
#include <sys/types.h>
#include <sys/socket.h>
#include <netinet/in.h>
#include <arpa/inet.h>
#include <inttypes.h>
#include <string.h>
#include <stdio.h>
#include <stdlib.h>
#include <errno.h>
#include <unistd.h>
#include <pthread.h>
#include "threadpool/threadpool.h"
#include "net/socket_address.h"
#include "proto/http_server.h"

static volatile int n_req = 0;
static char seen[8][64];

static int
on_req(http_srv_cli_p cli, void *udata, http_srv_req_p req, http_srv_resp_p resp) {
	int n = n_req;
	if (n < 8) {
		snprintf(seen[n], sizeof(seen[n]), "%.*s data_size=%zu",
		    (int)MIN(req->line.line_size, 40), (const char*)req->hdr, req->data_size);
	}
	n_req = n + 1;
	resp->status_code = 200;
	resp->p_flags &= ~HTTP_SRV_RESP_P_F_CONN_CLOSE;
	return (HTTP_SRV_CB_CONTINUE);
}

static void *thr(void *a) { tp_thread_attach_first((tp_p)a); return NULL; }

int main(void) {
	tp_p tp; tp_settings_t tps; http_srv_p srv; http_srv_settings_t s;
	http_srv_bind_settings_t bs; http_srv_cli_ccb_t ccb; http_srv_bind_p bnd = NULL;
	struct sockaddr_in sin; int fd, rc; pthread_t pt; char rbuf[4096];
	const char *rq =
	    "SUBSCRIBE /evt HTTP/1.1\r\nHost: a\r\nContent-Length: 37\r\n\r\n"
	    "DELETE /smuggled HTTP/1.1\r\nHost: a\r\n\r\n";

	tp_settings_def(&tps); tps.threads_max = 1;
	if (0 != (rc = tp_create(&tps, &tp))) { printf("tp_create %d\n", rc); return 2; }
	http_srv_def_settings(0, NULL, 0, &s);
	s.resp_p_flags &= ~HTTP_SRV_RESP_P_F_CONN_CLOSE;
	memset(&ccb, 0, sizeof(ccb)); ccb.on_req_rcv = on_req;
	if (0 != (rc = http_srv_create(tp, NULL, &ccb, NULL, &s, NULL, &srv))) { printf("srv %d\n", rc); return 2; }
	http_srv_bind_def_settings(&s.skt_opts, &bs);
	memset(&sin, 0, sizeof(sin)); sin.sin_family = AF_INET; sin.sin_port = htons(18713);
	sin.sin_addr.s_addr = htonl(INADDR_LOOPBACK);
	memcpy(&bs.addr, &sin, sizeof(sin));
	if (0 != (rc = http_srv_bind_add(srv, &bs, NULL, NULL, &bnd))) { printf("bind %d\n", rc); return 2; }
	pthread_create(&pt, NULL, thr, tp);
	usleep(200000);
	fd = socket(AF_INET, SOCK_STREAM, 0);
	if (0 != connect(fd, (struct sockaddr*)&sin, sizeof(sin))) { perror("connect"); return 2; }
	write(fd, rq, strlen(rq));
	usleep(500000);
	rc = (int)recv(fd, rbuf, sizeof(rbuf) - 1, MSG_DONTWAIT);
	if (rc > 0) { rbuf[rc] = 0; printf("--- reply bytes: %d\n", rc); }
	for (int i = 0; i < n_req && i < 8; i ++) printf("callback %d: %s\n", i, seen[i]);
	if (n_req != 1 || NULL != strstr(seen[0], "data_size=0")) {
		printf("FAIL: one SUBSCRIBE request with a 37 byte body was delivered as %d request(s); body taken as the next request\n", n_req);
		fflush(stdout); _exit(1);
	}
	printf("OK\n");
	fflush(stdout); _exit(0);
}
