#!/bin/sh
T=${1:-/tmp/hunt/C13}
D=$(dirname "$0")
F="-DHAVE_ACCEPT4 -DHAVE_EXPLICIT_BZERO -DHAVE_MEMMEM -DHAVE_MEMRCHR -DHAVE_PIPE2 -DHAVE_POSIX_SPAWN_FILE_ACTIONS_ADDCLOSEFROM_NP -DHAVE_PTHREAD_SETNAME_NP -DHAVE_REALLOCARRAY -DHAVE_SOCK_CLOEXEC -DHAVE_SOCK_NONBLOCK -DHAVE_STRNCASECMP -DLINUX -D_GNU_SOURCE -D__USE_GNU=1"
gcc -g -w $F -I"$T/include" -o /tmp/c13_subscribe_demo "$D/demo.c" \
  "$T"/src/proto/http_server.c "$T"/src/proto/http.c "$T"/src/threadpool/*.c "$T"/src/net/*.c \
  "$T"/src/utils/sys.c "$T"/src/utils/info.c "$T"/src/utils/xml.c "$T"/src/utils/buf_str.c "$T"/src/utils/ini.c \
  -lpthread || exit 3
timeout 20 /tmp/c13_subscribe_demo
