p='/repo/include/math/big_num.h'; s=open(p).read()
def rep(old,new,cnt=1,first=False):
    global s
    assert s.count(old)==cnt,(s.count(old),old)
    s=s.replace(old,new,1) if first else s.replace(old,new)
rep('''	BN_RET_ON_ERR(bn_assign_2exp(&bit, (bits - bn_clz(bn))));
	while (bn_cmp(&bit, bn) > 0) {
		bn_r_shift(&bit, 2);
	}
''','''	if (0 != bn_is_zero(bn))
		return (0);
	/* The highest power of four <= bn: an even exponent. */
	BN_RET_ON_ERR(bn_assign_2exp(&bit,
	    ((bn_calc_bits(bn) - 1) & ~((size_t)1))));
''',2)
rep('''	if (bn->count > digits) {
		bn->num[digits] = 0;
	}
	bn_update_digits__int(bn, digits);
	return (0);
}

/* Computes: bn |= n. */''','''	/* The result is never longer than the shorter operand. */
	bn->digits = bn_digits_calc_digits(bn->num, digits);
	return (0);
}

/* Computes: bn |= n. */''')
rep('''		(*w_pos ++) = byte;
		byte = 0;
		cnt = 0;
	}
	memset(w_pos, 0x00, (size_t)(w_pos_max - w_pos));

	return (0);
}
/* Export to little-endian hex string (L->H). */''','''		(*w_pos ++) = byte;
		byte = 0;
		cnt = 0;
	}
	if (0 != cnt) /* Half of a byte left: odd number of hex digits. */
		return (EINVAL);
	memset(w_pos, 0x00, (size_t)(w_pos_max - w_pos));

	return (0);
}
/* Export to little-endian hex string (L->H). */''')
rep('''		(*w_pos ++) = byte;
		byte = 0;
		cnt = 0;
	}
	memset(w_pos, 0x00, (size_t)(w_pos_max - w_pos));

	return (0);
}
/* Export to big-endian hex string (H->L). */''','''		(*w_pos ++) = byte;
		byte = 0;
		cnt = 0;
	}
	if (0 != cnt) { /* Odd number of hex digits: the most significant nibble. */
		if (w_pos == w_pos_max)
			return (EOVERFLOW);
		(*w_pos ++) = (byte >> 4);
	}
	memset(w_pos, 0x00, (size_t)(w_pos_max - w_pos));

	return (0);
}
/* Export to big-endian hex string (H->L). */''')
rep('''	bn_t tmp;
	size_t digits;

	/* Speed optimizations. */
	if (0 != bn_is_zero(bn))
		return (0);

	switch (n) {''','''	bn_t tmp;
	size_t digits;
	bn_digit_t crr = 0;

	/* Speed optimizations. */
	if (0 != bn_is_zero(bn))
		return (0);

	switch (n) {''')
rep('''	case 2: // XXX shift check
		BN_RET_ON_ERR(bn_add(bn, bn, NULL));
		break;
	case 3:
		BN_RET_ON_ERR(bn_assign_init(&tmp, bn));
		BN_RET_ON_ERR(bn_add(&tmp, &tmp, NULL));
		BN_RET_ON_ERR(bn_add(bn, &tmp, NULL));
		break;''','''	case 2:
		BN_RET_ON_ERR(bn_assign_init(&tmp, bn));
		BN_RET_ON_ERR(bn_add(&tmp, &tmp, &crr));
		if (0 != crr)
			return (EOVERFLOW);
		BN_RET_ON_ERR(bn_assign(bn, &tmp));
		break;
	case 3:
		BN_RET_ON_ERR(bn_assign_init(&tmp, bn));
		BN_RET_ON_ERR(bn_add(&tmp, &tmp, &crr));
		if (0 != crr)
			return (EOVERFLOW);
		BN_RET_ON_ERR(bn_add(&tmp, bn, &crr));
		if (0 != crr)
			return (EOVERFLOW);
		BN_RET_ON_ERR(bn_assign(bn, &tmp));
		break;''')
rep('''	BN_POINTER_CHK_EINVAL(m);
	BN_RET_ON_ERR(bn_add(bn, n, NULL));
	if (bn_cmp(bn, m) >= 0) { /* bn >= m */''','''	BN_POINTER_CHK_EINVAL(m);
	BN_RET_ON_ERR(bn_add(bn, n, &crr));
	/* A carry out of the capacity: the sum is above m and the
	 * subtraction wraps back to the exact result. */
	if (0 != crr || bn_cmp(bn, m) >= 0) { /* bn >= m */''')
rep('''bn_mod_add(bn_p bn, bn_p n, bn_p m, bn_mod_rd_data_p mod_rd_data __unused) {
''','''bn_mod_add(bn_p bn, bn_p n, bn_p m, bn_mod_rd_data_p mod_rd_data __unused) {
	bn_digit_t crr = 0;
''')
rep('''	register int8_t itm;
	register uint8_t sign_bit;

	if (NULL == bn || 2 > wnd_bits || NULL == naf_arr)''','''	register int8_t itm;
	register uint8_t sign_bit;
	bn_digit_t crr = 0;

	if (NULL == bn || 2 > wnd_bits || NULL == naf_arr)''')
rep('''				bn_add_digit(&tm, (bn_digit_t)-itm, NULL);''','''				bn_add_digit(&tm, (bn_digit_t)-itm, &crr);
				if (0 != crr) /* One more bit than the capacity. */
					return (EOVERFLOW);''')
rep('''	if (NULL == bn || 0 == bn->digits)
		return;
#if 0
	if ((bn->count * BN_DIGIT_BITS) <= bits) {
		bn_assign_zero(bn);
		return;
	}
#endif''','''	if (NULL == bn || 0 == bn->digits)
		return;
	if ((bn->count * BN_DIGIT_BITS) <= bits) {
		bn_assign_zero(bn);
		return;
	}''')
rep('''	if (NULL == bn || 0 == bn->digits)
		return;
#if 0
	if ((bn->digits * BN_DIGIT_BITS) <= bits) {
		bn_assign_zero(bn);
		return;
	}
#endif''','''	if (NULL == bn || 0 == bn->digits)
		return;
	if ((bn->digits * BN_DIGIT_BITS) <= bits) {
		bn_assign_zero(bn);
		return;
	}''')
rep('''	case 1: /* a > b */
		BN_RET_ON_ERR(bn_assign_init(ta, a));
		BN_RET_ON_ERR(bn_assign_init(tb, b));
		break;''','''	case 1: /* a > b */
		/* The copy first: bn may be b. */
		BN_RET_ON_ERR(bn_assign_init(tb, b));
		BN_RET_ON_ERR(bn_assign_init(ta, a));
		break;''',2,first=True)
rep('''	BN_RET_ON_ERR(bn_assign_init(ta, a));
	BN_RET_ON_ERR(bn_assign_init(tb, b));
	/* Let shift = the greatest power of 2 dividing both a and b. */''','''	/* The copy first: bn may be b. */
	BN_RET_ON_ERR(bn_assign_init(tb, b));
	BN_RET_ON_ERR(bn_assign_init(ta, a));
	/* Let shift = the greatest power of 2 dividing both a and b. */''')
rep('''		(*remainder_hi) = (reg_dividend_hi & ((((bn_digit_t)1) << (BN_DIGIT_BITS - num_bits)) - 1));''','''		(*remainder_hi) = 0; /* The remainder is less than the divisor. */''')
rep('''	bn_t u, v, x1, x2;

	if (0 != bn_is_zero(bn) || 0 != bn_is_zero(m) || bn_cmp(bn, m) >= 0)
		return (EINVAL);
	bits = ((4 + MAX(bn->digits, m->digits)) * BN_DIGIT_BITS);''','''	bn_t u, v, x1, x2;

	if (0 != bn_is_zero(bn) || 0 != bn_is_zero(m) || bn_cmp(bn, m) >= 0)
		return (EINVAL);
	if (0 == bn_is_odd(m)) /* The halving steps need an odd modulus. */
		return (EINVAL);
	bits = ((4 + MAX(bn->digits, m->digits)) * BN_DIGIT_BITS);''')
rep('''			BN_RET_ON_ERR(bn_mod_sub(&v, &u, m, mod_rd_data));
			BN_RET_ON_ERR(bn_mod_sub(&x2, &x1, m, mod_rd_data));
		}
	}
''','''			BN_RET_ON_ERR(bn_mod_sub(&v, &u, m, mod_rd_data));
			BN_RET_ON_ERR(bn_mod_sub(&x2, &x1, m, mod_rd_data));
		}
		/* gcd(bn, m) != 1: no inverse. */
		if (0 != bn_is_zero(&u) || 0 != bn_is_zero(&v))
			return (EINVAL);
	}
''')
rep('''	case 1: /* bn^1 = bn */
		return (0);
	case 2: /* bn^2 = bn_square() = bn*bn */
		BN_RET_ON_ERR(bn_mod_mult(bn, bn, m, mod_rd_data));''','''	case 1: /* bn^1 = bn */
		BN_RET_ON_ERR(bn_mod(bn, m, mod_rd_data));
		return (0);
	case 2: /* bn^2 = bn_square() = bn*bn */
		BN_RET_ON_ERR(bn_mod_mult(bn, bn, m, mod_rd_data));''')
rep('''		case 1: /* bn^1 = bn */
			return (0);''','''		case 1: /* bn^1 = bn */
			BN_RET_ON_ERR(bn_mod(bn, m, mod_rd_data));
			return (0);''')
rep('''		/* Select b random quadratic nonresidue. */
		/* Initialize random algorithm. */
		BN_RET_ON_ERR(bn_assign(&b, bn));
		BN_RET_ON_ERR(bn_assign(&tm, m));
		bits = bn_calc_bits(m); /* Trials count: from modulus, not from (possible small) value. */
		do {
			bn_r_shift(&tm, 1);
			BN_RET_ON_ERR(bn_xor(&b, &tm));
		} while (-1 != bn_mod_legendre(&b, m, mod_rd_data) && 0 != --bits);''','''		/* Select b: the least quadratic nonresidue, trying 2, 3, 4, ...
		 * It is below 2 * ln(m)^2 (Bach, under ERH), the trials count
		 * is from modulus, not from (possible small) value. */
		BN_RET_ON_ERR(bn_assign_digit(&b, 1));
		bits = bn_calc_bits(m);
		bits = (2 + (bits * bits));
		do {
			bn_add_digit(&b, 1, NULL);
		} while (-1 != bn_mod_legendre(&b, m, mod_rd_data) && 0 != --bits);''')
open(p,'w').write(s)
