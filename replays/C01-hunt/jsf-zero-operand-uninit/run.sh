#!/bin/sh
# usage: run.sh <tree>   (exit 0 = ok, non-zero = defect reproduced / FAIL printed)
T="${1:-/tmp/hunt/C01}"
D="$(cd "$(dirname "$0")" && pwd)"
B="$(mktemp -d)"
trap 'rm -rf "$B"' EXIT
# ASan also catches the variant where the garbage keeps the loop running past jsf_arr
${CC:-gcc} -O0 -g -w -fsanitize=address -I"$T/include" "$D/demo.c" -o "$B/demo" || exit 2
"$B/demo" || exit 1
# independent confirmation with MemorySanitizer when clang is available
if command -v clang >/dev/null 2>&1; then
  clang -O1 -g -w -fsanitize=memory -I"$T/include" "$D/demo.c" -o "$B/demo_msan" 2>/dev/null && { "$B/demo_msan" >/dev/null 2>"$B/msan.txt" || { grep -m1 "use-of-uninitialized-value" "$B/msan.txt" && echo "FAIL (MSan)" && exit 1; }; }
fi
exit 0

