/* Self-contained demo; build: see run.sh.  Exit 0 = behaves as specified, 1 = defect shown (prints FAIL). */
#include <sys/param.h>
#include <sys/types.h>
#include <inttypes.h>
#include <stdlib.h>
#include <string.h>
#include <stdio.h>
#include <errno.h>
#ifndef BN_BIT_LEN
#define BN_BIT_LEN 2048
#endif
#include "math/big_num.h"

static int fails = 0;
static char *hexof(bn_p b) { /* raw dump of the significant digits, independent of the export code */
	static char bufs[8][2 * BN_LEN + 8]; static int k = 0; char *s = bufs[k++ & 7], *p = s; size_t i, j;
	const uint8_t *r = (const uint8_t*)b->num;
	if (0 == b->digits) { strcpy(s, "0"); return s; }
	for (i = b->digits; i > 0; i--) for (j = BN_DIGIT_SIZE; j > 0; j--) p += sprintf(p, "%02x", r[(i - 1) * BN_DIGIT_SIZE + j - 1]);
	for (p = s; '0' == p[0] && 0 != p[1]; p++) ;
	return p;
}
static int hx(bn_p b, const char *s) { return bn_import_be_hex(b, (const uint8_t*)s, strlen(s)); } /* even-length strings only */
static void check(const char *what, int rc, bn_p got, int exp_rc_ok, const char *exp_hex) {
	/* accepted: rc == 0 with the exact value, or (if exp_rc_ok) a non-zero error code */
	int ok = (0 == rc) ? (0 == strcmp(hexof(got), exp_hex)) : exp_rc_ok;
	printf("%s: rc=%d value=0x%s  expected 0x%s%s  -> %s\n", what, rc, hexof(got), exp_hex, exp_rc_ok ? " (or an error code)" : "", ok ? "ok" : "FAIL");
	if (!ok) fails++;
}


/* Dirty the stack so that the uninitialised local tmA/tmB of bn_calc_jsf() holds 0xA5 bytes (low bits 101 -> odd). */
static void __attribute__((noinline)) dirty_stack(void) { volatile uint8_t junk[3 * sizeof(bn_t) + 4096]; size_t i; for (i = 0; i < sizeof(junk); i++) junk[i] = 0xA5; }
static int8_t jsf[2 * 600];
static int __attribute__((noinline)) run(bn_p a, bn_p b, size_t *cnt, size_t *off) { return bn_calc_jsf(a, b, 600, jsf, cnt, off); }
static long val(int8_t *d, size_t n) { long v = 0; size_t i; for (i = n; i > 0; i--) v = v * 2 + d[i - 1]; return v; }
int main(void) {
	bn_t a, b; int rc; size_t cnt = 0, off = 0, i; long v0, v1;
	bn_init(&a, 256); bn_init(&b, 256);
	bn_assign_zero(&a); bn_assign_digit(&b, 5);       /* a = 0, b = 5: legal operands (0 <= x) */
	printf("calling bn_calc_jsf(a=0, b=5, jsf_arr_size=600) after filling the dead stack with 0xA5 ...\n"); fflush(stdout);
	dirty_stack();
	rc = run(&a, &b, &cnt, &off);
	v0 = val(jsf, cnt); v1 = val(jsf + off, cnt);
	printf("bn_calc_jsf(a=0, b=5): rc=%d items=%zu row0=[", rc, cnt); for (i = 0; i < cnt && i < 10; i++) printf("%d ", jsf[i]);
	printf("] row1=["); for (i = 0; i < cnt && i < 10; i++) printf("%d ", jsf[off + i]);
	printf("] -> values %ld, %ld (expected 0, 5)\n", v0, v1);
	if (0 == rc && (0 != v0 || 5 != v1)) { printf("FAIL: recoding of a zero operand depends on uninitialised stack (tmA.num[0] is read with tmA.digits == 0)\n"); fails++; }

	if (fails) { printf("FAIL: %d check(s)\n", fails); return 1; }
	printf("PASS\n"); return 0;
}
