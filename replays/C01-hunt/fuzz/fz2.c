#include <sys/param.h>
#include <sys/types.h>
#include <inttypes.h>
#include <stdlib.h>
#include <string.h>
#include <stdio.h>
#include <errno.h>
#include <signal.h>
#include <setjmp.h>
#include <unistd.h>
static sigjmp_buf jb; static void onalrm(int x){(void)x; siglongjmp(jb,1);}
#ifndef BN_BIT_LEN
#define BN_BIT_LEN 1024
#endif
#include "math/big_num.h"

static uint64_t s[2] = {0x1234567887654321ULL, 0xdeadbeefcafef00dULL};
static uint64_t rnd(void) { uint64_t s1 = s[0], s0 = s[1]; s[0] = s0; s1 ^= s1 << 23; s[1] = s1 ^ s0 ^ (s1 >> 17) ^ (s0 >> 26); return s[1] + s0; }
static size_t rn(size_t n) { return (size_t)(rnd() % n); }

/* set bn to capacity cap_bits with random value of <= vbits bits, poison rest */
static void mk(bn_p b, size_t cap_bits, size_t vbits) {
	uint8_t *p = (uint8_t*)b->num; size_t i, nbytes = sizeof(b->num);
	for (i = 0; i < nbytes; i++) p[i] = (uint8_t)rnd();
	if (bn_init(b, cap_bits)) abort();
	if (vbits > b->count * BN_DIGIT_BITS) vbits = b->count * BN_DIGIT_BITS;
	/* pattern */
	size_t vb = (vbits + 7) / 8;
	uint8_t val[BN_LEN + 64]; memset(val, 0, sizeof(val));
	switch (rn(8)) {
	case 0: for (i = 0; i < vb; i++) val[i] = 0xff; break;
	case 1: if (vbits) val[(vbits-1)/8] = (uint8_t)(1u << ((vbits-1)%8)); break;
	case 2: for (i = 0; i < vb; i++) val[i] = (rn(3)==0) ? 0xff : (rn(2) ? 0 : (uint8_t)rnd()); break;
	case 3: for (i = 0; i < vb; i++) val[i] = (rn(4)==0) ? (uint8_t)rnd() : (rn(2) ? 0xff: 0); break;
	default: for (i = 0; i < vb; i++) val[i] = (uint8_t)rnd(); break;
	}
	/* mask to vbits */
	if (vbits % 8 && vb) val[vb-1] &= (uint8_t)((1u << (vbits%8)) - 1);
	for (i = vb; i < sizeof(val); i++) val[i] = 0;
	/* compute digits */
	size_t top = vb; while (top > 0 && val[top-1] == 0) top--;
	size_t digits = (top + BN_DIGIT_SIZE - 1) / BN_DIGIT_SIZE;
	/* write only significant digits (little endian host) */
	uint8_t tmp[BN_LEN + 64]; memset(tmp, 0, sizeof(tmp)); memcpy(tmp, val, top);
	memcpy(b->num, tmp, digits * BN_DIGIT_SIZE);
	b->digits = digits;
}
static void out(bn_p b) {
	size_t i, k; const uint8_t *p = (const uint8_t*)b->num;
	if (b->digits > b->count || b->digits > BN_MAX_DIGITS) { printf(" BADDIGITS"); return; }
	printf(" %zu:", b->count * BN_DIGIT_BITS);
	if (0 == b->digits) { printf("0"); }
	for (i = b->digits; i > 0; i--) for (k = BN_DIGIT_SIZE; k > 0; k--) printf("%02x", p[(i-1)*BN_DIGIT_SIZE + k-1]);
	if (b->digits && b->num[b->digits-1] == 0) printf("NONNORM");
}
static void prd(bn_digit_t d){ int k; printf(" "); for(k=(int)BN_DIGIT_SIZE-1;k>=0;k--) printf("%02x",(unsigned)((d>>(k*8))&0xff)); }
static size_t caps[] = {8,16,24,32,64,96,128,192,256,384,512};
static size_t pickcap(void) { size_t c = caps[rn(sizeof(caps)/sizeof(caps[0]))]; if (c < BN_DIGIT_BITS) c = BN_DIGIT_BITS; if (rn(4)==0) c = BN_DIGIT_BITS * (1 + rn(4)); return c; }
static size_t pickbits(size_t cap) { switch (rn(6)) { case 0: return cap; case 1: return rn(cap+1); case 2: return rn(BN_DIGIT_BITS+1); case 3: return (cap/2); default: return rn(cap+1);} }


static const char *primes[] = {"0d", "11", "1d", "fb", "0101", "fff1", "010001", "fffffffb", "ffffffffffffffc5", "0100000000000000000000000000000033", "ffffffff00000001000000000000000000000000ffffffffffffffffffffffff", "fffffffffffffffffffffffffffffffffffffffffffffffffffffffefffffc2f", "7fffffffffffffffffffffffffffffffffffffffffffffffffffffffffffffed", "01ffffffffffffffffffffffffffffffffffffffffffffffffffffffffffffffffffffffffffffffffffffffffffffffffffffffffffffffffffffffffffffffffff", "ffffffffffffffffffffffffffffffff000000000000000000000001", "fffffffffffffffffffffffffffffffeffffffffffffffff", "61", "89", "3b9aca07", "c1", "3001", "ffffffff00000001", "0800000000000011000000000000000000000000000000000000000000000001", "07", "03", "05", "0b", "29", "49", "1fffffffffffffff", "7fffffffffffffffffffffffffffffff", "01ffffffffffffffffffffff", "fffffffffffffffffffffffffffffffffffffffffffffffffffffffffffffffeffffffff0000000000000000ffffffff", "3a00000000000001", "7fffffff", "78000001"};
int main(int argc, char **argv) {
	long iters = argc > 1 ? atol(argv[1]) : 100000; if (argc > 2) s[0] ^= (uint64_t)atol(argv[2]);
	bn_t a, b, m, r; int e; size_t capa, capb, i, n, cnt, off;
	uint8_t buf[4096]; int8_t arr[4096];
	signal(SIGALRM, onalrm);
	for (long it = 0; it < iters; it++) {
		if (sigsetjmp(jb,1)) { printf(" -> 999 HANG\n"); fflush(stdout); }
		alarm(2);
		int op = (int)rn(12);
		capa = pickcap(); capb = rn(2) ? capa : pickcap();
		mk(&a, capa, pickbits(capa)); mk(&b, capb, pickbits(capb));
		switch (op) {
		case 0: case 1: case 2: case 3: { /* export then print */
			size_t bs = 1 + rn(2 * (capa/8) + 3); uint32_t fl = rn(2) ? BN_EXPORT_F_AUTO_SIZE : 0; size_t ret = 9999;
			memset(buf, 0xEE, sizeof(buf));
			const char *nm[] = {"xbb","xlb","xbh","xlh"};
			printf("%s %zu %u", nm[op], bs, fl); out(&a);
			switch (op) { case 0: e = bn_export_be_bin(&a, fl, buf, bs, &ret); break; case 1: e = bn_export_le_bin(&a, fl, buf, bs, &ret); break; case 2: e = bn_export_be_hex(&a, fl, buf, bs, &ret); break; default: e = bn_export_le_hex(&a, fl, buf, bs, &ret); break; }
			printf(" -> %d %zu ", e, ret); for (i = 0; i < bs + 2; i++) printf("%02x", buf[i]); break; }
		case 4: case 5: case 6: case 7: { /* import random buffer into poisoned a holding a value */
			size_t bs = 1 + rn((capa/8) + 3); if (op >= 6) bs = 1 + rn(2*(capa/8) + 3);
			for (i = 0; i < bs; i++) { if (op >= 6) buf[i] = (uint8_t)"0123456789abcdefABCDEF"[rn(22)]; else buf[i] = rn(4) ? (uint8_t)rnd() : 0; }
			if (rn(4) == 0) for (i = 0; i < bs / 2; i++) buf[op == 4 || op == 6 ? i : bs - 1 - i] = (op >= 6) ? '0' : 0;
			const char *nm[] = {"ibb","ilb","ibh","ilh"};
			printf("%s ", nm[op-4]); for (i = 0; i < bs; i++) printf("%02x", buf[i]); out(&a);
			switch (op) { case 4: e = bn_import_be_bin(&a, buf, bs); break; case 5: e = bn_import_le_bin(&a, buf, bs); break; case 6: e = bn_import_be_hex(&a, buf, bs); break; default: e = bn_import_le_hex(&a, buf, bs); break; }
			printf(" -> %d", e); out(&a); break; }
		case 8: { size_t w = 2 + rn(6); printf("naf %zu", w); out(&a); memset(arr, 0x55, sizeof(arr)); cnt = 0; e = bn_calc_naf(&a, w, a.count * BN_DIGIT_BITS + 2, arr, &cnt); printf(" -> %d", e); if (!e) for (i = 0; i < cnt; i++) printf(" %d", arr[i]); break; }
		case 9: { printf("jsf"); out(&a); out(&b); memset(arr, 0x55, sizeof(arr)); cnt = 0; off = 0; e = bn_calc_jsf(&a, &b, sizeof(arr), arr, &cnt, &off); printf(" -> %d %zu", e, cnt); if (!e) { for (i = 0; i < cnt; i++) printf(" %d", arr[i]); for (i = 0; i < cnt; i++) printf(" %d", arr[off + i]); } break; }
		case 10: { size_t bit = rn(capa + 70); printf("bit %zu", bit); out(&a); int was = bn_is_bit_set(&a, bit); int v = (int)rn(2); e = bn_bit_set(&a, bit, v); printf(" -> %d %d %d %d", e, was, v, bn_is_bit_set(&a, bit)); out(&a); break; }
		case 11: { const char *ps = primes[rn(sizeof(primes)/sizeof(primes[0]))]; size_t pl = strlen(ps); size_t capm = ((pl * 4 + BN_DIGIT_BITS - 1) / BN_DIGIT_BITS) * BN_DIGIT_BITS; if (2 * capm + BN_DIGIT_BITS > BN_BIT_LEN) break;
			bn_init(&m, capm); if (bn_import_be_hex(&m, (const uint8_t*)ps, pl)) abort();
			size_t ca = 2 * capm + (rn(2) ? BN_DIGIT_BITS : 0);
			mk(&a, ca, pl * 4); while (bn_cmp(&a,&m) >= 0) { a.num[a.digits-1] >>= 1; a.digits = bn_digits_calc_digits(a.num, a.digits);} 
			if (rn(2)) {  bn_assign_init(&b, &a); bn_mod_mult(&a, &b, &m, NULL); { size_t k; for (k = a.digits; k < BN_MAX_DIGITS; k++) a.num[k] = (bn_digit_t)rnd(); } }
			printf("msqrt"); out(&a); out(&m); e = bn_mod_sqrt(&a, &m, NULL); printf(" -> %d", e); out(&a); break; }
		}
		printf("\n");
	}
	return 0;
}
