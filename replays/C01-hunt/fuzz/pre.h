#include <sys/param.h>
#include <sys/types.h>
#include <inttypes.h>
#include <stdlib.h>
#include <string.h>
#include <stdio.h>
#include <errno.h>
#include "math/big_num.h"
static void pr(const char *name, bn_p b) {
	uint8_t buf[2048]; size_t n = 0;
	int e = bn_export_be_hex(b, BN_EXPORT_F_AUTO_SIZE, buf, sizeof(buf)-1, &n);
	buf[n] = 0;
	printf("%s = 0x%s (digits=%zu count=%zu err=%d)\n", name, (char*)buf, b->digits, b->count, e);
}
static int hx(bn_p b, const char *s) { return bn_import_be_hex(b, (const uint8_t*)s, strlen(s)); }
