import sys, math
EOVER=75; EINVAL=22
def P(t):
    c,v = t.split(':'); 
    if 'NONNORM' in v: return int(c), ('NONNORM', int(v.replace('NONNORM',''),16))
    return int(c), int(v,16)
bad=0; n=0; stats={}
for line in sys.stdin:
    line=line.strip()
    if not line or '->' not in line: continue
    lhs,rhs = line.split(' -> ')
    L=lhs.split(); R=rhs.split(); op=L[0]; n+=1
    if R[0]=='skip': continue
    def fail(msg):
        global bad; bad+=1
        stats[op+':'+msg]=stats.get(op+':'+msg,0)+1
        if stats[op+":"+msg]<=int(__import__("os").environ.get("NFAIL","3")): print("FAIL",msg,line)
    try:
        rc=int(R[0])
        if rc==999:
            fail('hang'); continue
        if any('BADDIGITS' in x or 'NONNORM' in x for x in R): fail('nonnorm'); continue
        if op in('add','sub'):
            (ca,a),(cb,b)=P(L[1]),P(L[2]); cr=int(R[1]); cr_,r=P(R[2]); M=1<<ca
            if rc!=0:
                if rc==EOVER and b>=M: continue   # operand doesn't fit
                fail('rc'); continue
            exp = a+b if op=='add' else a-b
            if r!=exp%M : fail('value')
            elif (exp>=M or exp<0)!=(cr==1): fail('carry')
        elif op=='mul':
            (ca,a),(cb,b)=P(L[1]),P(L[2]); _,r=P(R[1]); M=1<<ca
            if rc!=0:
                if rc==EOVER: 
                    if a*b<M: stats['mul:spurious_eoverflow']=stats.get('mul:spurious_eoverflow',0)+1
                    continue
                fail('rc'); continue
            if r!=a*b: fail('value')
        elif op=='div':
            (ca,a),(cb,b)=P(L[1]),P(L[2]); _,q=P(R[1]); cr_,r=P(R[2])
            if b==0:
                if rc!=EINVAL: fail('div0')
                continue
            if rc!=0:
                if rc==EOVER: stats['div:eoverflow']=stats.get('div:eoverflow',0)+1; continue
                fail('rc'); continue
            if len(L)==3 or True:
                pass
            if (q,r)!=(a//b,a%b): fail('value')
        elif op=='mod':
            (ca,a),(cb,b)=P(L[1]),P(L[2]); _,r=P(R[1])
            if b==0:
                if rc!=EINVAL: fail('div0')
                continue
            if rc!=0:
                if rc==EOVER: stats['mod:eoverflow']=stats.get('mod:eoverflow',0)+1; continue
                fail('rc'); continue
            if r!=a%b: fail('value')
        elif op=='gcd':
            (ca,a),(cb,b)=P(L[1]),P(L[2]); _,r=P(R[1])
            if rc!=0:
                if rc==EOVER: stats['gcd:eoverflow']=stats.get('gcd:eoverflow',0)+1; continue
                fail('rc'); continue
            if r!=math.gcd(a,b): fail('value')
        elif op in('shl','shr'):
            sh=int(L[1]); (ca,a)=P(L[2]); _,r=P(R[1]); M=1<<ca
            exp=(a<<sh) if op=='shl' else a>>sh
            if exp>=M:
                if r!=exp%M: fail('trunc_value')
                else: stats['shl:silent_trunc']=stats.get('shl:silent_trunc',0)+1
            elif r!=exp: fail('value')
        elif op in('and','or','xor'):
            (ca,a),(cb,b)=P(L[1]),P(L[2]); _,r=P(R[1]); M=1<<ca
            exp={'and':a&b,'or':a|b,'xor':a^b}[op]
            if rc!=0:
                if rc==EOVER and exp>=M: continue
                if rc==EOVER: stats[op+':spurious_eoverflow']=stats.get(op+':spurious_eoverflow',0)+1; continue
                fail('rc'); continue
            if r!=exp: fail('value')
        elif op=='cmp':
            (ca,a),(cb,b)=P(L[1]),P(L[2])
            if rc!=(a>b)-(a<b): fail('value')
        elif op=='muld':
            (ca,a)=P(L[1]); d=int(L[2],16); _,r=P(R[1]); M=1<<ca
            if rc!=0:
                if rc==EOVER:
                    if a*d<M: stats['muld:spurious_eoverflow']=stats.get('muld:spurious_eoverflow',0)+1
                    continue
                fail('rc'); continue
            if r!=a*d: fail('value d=%d'%(d if d<4 else 4))
        elif op in('addd','subd'):
            (ca,a)=P(L[1]); d=int(L[2],16); cr=int(R[1]); _,r=P(R[2]); M=1<<ca
            exp=a+d if op=='addd' else a-d
            if r!=exp%M: fail('value')
            elif (exp>=M or exp<0)!=(cr==1): fail('carry')
        elif op=='expd':
            (ca,a)=P(L[1]); d=int(L[2],16); _,r=P(R[1]); M=1<<ca
            if rc!=0:
                if rc==EOVER:
                    if a**d<M: stats['expd:spurious_eoverflow']=stats.get('expd:spurious_eoverflow',0)+1
                    continue
                fail('rc'); continue
            if r!=a**d: fail('value')
        elif op in('madd','msub','mmul','mexp'):
            (ca,a),(cb,b),(cm,m)=P(L[1]),P(L[2]),P(L[3]); _,r=P(R[1])
            if rc!=0:
                if rc==EOVER: stats[op+':eoverflow']=stats.get(op+':eoverflow',0)+1; continue
                fail('rc'); continue
            exp={'madd':(a+b)%m,'msub':(a-b)%m,'mmul':(a*b)%m,'mexp':pow(a,b,m)}[op]
            if r!=exp: fail('value' + ('_capeq' if ca==cm else ''))
        elif op=='mexpd':
            x=int(L[1]); (ca,a),(cm,m)=P(L[2]),P(L[3]); _,r=P(R[1])
            if rc!=0:
                if rc==EOVER: stats[op+':eoverflow']=stats.get(op+':eoverflow',0)+1; continue
                fail('rc'); continue
            if r!=pow(a,x,m): fail('value x=%d'%(x if x<4 else 4))
        elif op=='minv':
            (ca,a),(cm,m)=P(L[1]),P(L[2]); _,r=P(R[1])
            if a==0 or m==0 or a>=m:
                if rc!=EINVAL: fail('domain')
                continue
            if math.gcd(a,m)!=1: 
                stats['minv:noninv rc=%d'%rc]=stats.get('minv:noninv rc=%d'%rc,0)+1; continue
            if rc!=0:
                if rc in (EOVER,EINVAL): stats[op+':err%d'%rc]=stats.get(op+':err%d'%rc,0)+1; continue
                fail('rc'); continue
            if (r*a)%m!=1 or r>=m: fail('value')
        else:
            fail('unknown op')
    except Exception as ex:
        fail('exc '+repr(ex))
print("checked",n,"bad",bad); 
for k in sorted(stats): print("  ",k,stats[k])
