import sys, os
EOVER=75; EINVAL=22
NF=int(os.environ.get("NFAIL","3"))
def P(t):
    c,v = t.split(':'); return int(c), int(v.replace('NONNORM',''),16)
bad=0;n=0;stats={}
def legendre(a,p): 
    r=pow(a,(p-1)//2,p); return -1 if r==p-1 else r
for line in sys.stdin:
    line=line.rstrip('\n')
    if '->' not in line: continue
    lhs,rhs=line.split(' -> '); L=lhs.split(); R=rhs.split(); op=L[0]; n+=1
    def fail(msg):
        global bad; bad+=1; k=op+':'+msg; stats[k]=stats.get(k,0)+1
        if stats[k]<=NF: print("FAIL",msg,line[:400])
    def note(msg):
        k=op+':'+msg; stats[k]=stats.get(k,0)+1
    try:
        rc=int(R[0])
        if rc==999: fail('hang'); continue
        if 'NONNORM' in rhs or 'BADDIGITS' in rhs: fail('nonnorm'); continue
        if op in('xbb','xlb','xbh','xlh'):
            bs=int(L[1]); fl=int(L[2]); ca,a=P(L[3]); ret=int(R[1]); raw=bytes.fromhex(R[2]) if len(R)>2 else b''
            if raw[bs:bs+2]!=b'\xee\xee' and not (op in('xbh','xlh') ): fail('wrote past buffer'); continue
            if op in('xbh','xlh') and raw[bs:bs+2]!=b'\xee\xee': fail('wrote past buffer'); continue
            if rc!=0:
                if rc in(EOVER,): 
                    need = (a.bit_length()+7)//8 * (2 if op in('xbh','xlh') else 1)
                    if need<=bs and need>0: note('spurious_eoverflow')
                    continue
                if rc==EINVAL and (op in('xbh','xlh') and bs<2): continue
                fail('rc'); continue
            data=raw[:ret]
            if ret>bs: fail('ret>bs'); continue
            if op=='xbb': v=int.from_bytes(data,'big')
            elif op=='xlb': v=int.from_bytes(data,'little')
            elif op=='xbh': v=int(data.decode() or '0',16)
            else:
                t=data.decode(); v=int.from_bytes(bytes.fromhex(t),'little') if t else 0
            if v!=a: fail('value fl=%d'%fl)
            elif fl==0 and ret!=bs and op in('xbb','xlb'): fail('size')
        elif op in('ibb','ilb','ibh','ilh'):
            data=bytes.fromhex(L[1]); ca,a0=P(L[2]); _,r=P(R[1])
            if op=='ibb': v=int.from_bytes(data,'big')
            elif op=='ilb': v=int.from_bytes(data,'little')
            elif op=='ibh': v=int(data.decode(),16)
            else:
                t=data.decode()
                if len(t)%2: 
                    note('oddlen'); t=t[:-1]
                v=int.from_bytes(bytes.fromhex(t),'little') if t else 0
            if rc!=0:
                if rc==EOVER:
                    if v < (1<<ca): note('spurious_eoverflow')
                    continue
                fail('rc'); continue
            if r!=v: fail('value' + ('_odd' if op=='ibh' and len(data)%2 else '') + ('_stale' if r>>(8*len(data)) else ''))
        elif op=='naf':
            w=int(L[1]); ca,a=P(L[2]); 
            if rc!=0: 
                if rc==EOVER: note('eoverflow'); continue
                fail('rc'); continue
            d=[int(x) for x in R[1:]]
            v=sum(x<<i for i,x in enumerate(d))
            if v!=a: fail('value w=%d'%w); continue
            for i,x in enumerate(d):
                if x!=0 and (x%2==0 or abs(x)>=(1<<(w-1)) or any(d[i+1:i+w])): fail('notnaf'); break
        elif op=='jsf':
            (ca,a),(cb,b)=P(L[1]),P(L[2])
            if rc!=0:
                if rc==EOVER: note('eoverflow'); continue
                fail('rc'); continue
            cnt=int(R[1]); d=[int(x) for x in R[2:]]; d0=d[:cnt]; d1=d[cnt:]
            if any(abs(x)>1 for x in d): fail('range'); continue
            v0=sum(x<<i for i,x in enumerate(d0)); v1=sum(x<<i for i,x in enumerate(d1))
            if (v0,v1)!=(a,b): fail('value'+('_azero' if a==0 else '')+('_bzero' if b==0 else ''))
        elif op=='bit':
            bit=int(L[1]); ca,a=P(L[2]); was=int(R[1]); v=int(R[2]); now=int(R[3]); _,r=P(R[4])
            if was!=((a>>bit)&1): fail('is_bit_set'+('_zero' if a==0 else '')); 
            if rc!=0:
                if rc==EOVER and bit>=ca: 
                    if r!=a: fail('modified on error')
                    continue
                fail('rc'); continue
            exp = (a|(1<<bit)) if v else (a&~(1<<bit))
            if r!=exp: fail('value')
            elif now!=v: fail('readback')
        elif op=='msqrt':
            (ca,a),(cm,p)=P(L[1]),P(L[2]); _,r=P(R[1])
            lg=legendre(a,p) if a%p else 0
            if rc==0:
                if (r*r)%p!=a%p or r>=p: fail('value')
            elif rc==-1:
                if lg!=-1: fail('false_negative p%%8=%d'%(p%8))
            elif rc==EOVER: note('eoverflow')
            else: fail('rc %d'%rc)
        else: fail('unknown')
    except Exception as ex:
        fail('exc '+repr(ex))
print("checked",n,"bad",bad)
for k in sorted(stats): print("  ",k,stats[k])
