#include <sys/param.h>
#include <sys/types.h>
#include <inttypes.h>
#include <stdlib.h>
#include <string.h>
#include <stdio.h>
#include <errno.h>
#include <signal.h>
#include <setjmp.h>
#include <unistd.h>
static sigjmp_buf jb; static void onalrm(int x){(void)x; siglongjmp(jb,1);}
#ifndef BN_BIT_LEN
#define BN_BIT_LEN 1024
#endif
#include "math/big_num.h"

static uint64_t s[2] = {0x1234567887654321ULL, 0xdeadbeefcafef00dULL};
static uint64_t rnd(void) { uint64_t s1 = s[0], s0 = s[1]; s[0] = s0; s1 ^= s1 << 23; s[1] = s1 ^ s0 ^ (s1 >> 17) ^ (s0 >> 26); return s[1] + s0; }
static size_t rn(size_t n) { return (size_t)(rnd() % n); }

/* set bn to capacity cap_bits with random value of <= vbits bits, poison rest */
static void mk(bn_p b, size_t cap_bits, size_t vbits) {
	uint8_t *p = (uint8_t*)b->num; size_t i, nbytes = sizeof(b->num);
	for (i = 0; i < nbytes; i++) p[i] = (uint8_t)rnd();
	if (bn_init(b, cap_bits)) abort();
	if (vbits > b->count * BN_DIGIT_BITS) vbits = b->count * BN_DIGIT_BITS;
	/* pattern */
	size_t vb = (vbits + 7) / 8;
	uint8_t val[BN_LEN + 64]; memset(val, 0, sizeof(val));
	switch (rn(8)) {
	case 0: for (i = 0; i < vb; i++) val[i] = 0xff; break;
	case 1: if (vbits) val[(vbits-1)/8] = (uint8_t)(1u << ((vbits-1)%8)); break;
	case 2: for (i = 0; i < vb; i++) val[i] = (rn(3)==0) ? 0xff : (rn(2) ? 0 : (uint8_t)rnd()); break;
	case 3: for (i = 0; i < vb; i++) val[i] = (rn(4)==0) ? (uint8_t)rnd() : (rn(2) ? 0xff: 0); break;
	default: for (i = 0; i < vb; i++) val[i] = (uint8_t)rnd(); break;
	}
	/* mask to vbits */
	if (vbits % 8 && vb) val[vb-1] &= (uint8_t)((1u << (vbits%8)) - 1);
	for (i = vb; i < sizeof(val); i++) val[i] = 0;
	/* compute digits */
	size_t top = vb; while (top > 0 && val[top-1] == 0) top--;
	size_t digits = (top + BN_DIGIT_SIZE - 1) / BN_DIGIT_SIZE;
	/* write only significant digits (little endian host) */
	uint8_t tmp[BN_LEN + 64]; memset(tmp, 0, sizeof(tmp)); memcpy(tmp, val, top);
	memcpy(b->num, tmp, digits * BN_DIGIT_SIZE);
	b->digits = digits;
}
static void out(bn_p b) {
	size_t i, k; const uint8_t *p = (const uint8_t*)b->num;
	if (b->digits > b->count || b->digits > BN_MAX_DIGITS) { printf(" BADDIGITS"); return; }
	printf(" %zu:", b->count * BN_DIGIT_BITS);
	if (0 == b->digits) { printf("0"); }
	for (i = b->digits; i > 0; i--) for (k = BN_DIGIT_SIZE; k > 0; k--) printf("%02x", p[(i-1)*BN_DIGIT_SIZE + k-1]);
	if (b->digits && b->num[b->digits-1] == 0) printf("NONNORM");
}
static void prd(bn_digit_t d){ int k; printf(" "); for(k=(int)BN_DIGIT_SIZE-1;k>=0;k--) printf("%02x",(unsigned)((d>>(k*8))&0xff)); }
static size_t caps[] = {8,16,24,32,64,96,128,192,256,384,512};
static size_t pickcap(void) { size_t c = caps[rn(sizeof(caps)/sizeof(caps[0]))]; if (c < BN_DIGIT_BITS) c = BN_DIGIT_BITS; if (rn(4)==0) c = BN_DIGIT_BITS * (1 + rn(4)); return c; }
static size_t pickbits(size_t cap) { switch (rn(6)) { case 0: return cap; case 1: return rn(cap+1); case 2: return rn(BN_DIGIT_BITS+1); case 3: return (cap/2); default: return rn(cap+1);} }

int main(int argc, char **argv) {
	long iters = argc > 1 ? atol(argv[1]) : 100000; if (argc > 2) s[0] ^= (uint64_t)atol(argv[2]);
	bn_t a, b, m, r, a0; bn_digit_t d, cr; int e; size_t capa, capb, sh;
	signal(SIGALRM, onalrm);
	for (long it = 0; it < iters; it++) {
		if (sigsetjmp(jb,1)) { printf(" -> 999 HANG\n"); fflush(stdout); }
		alarm(1);
		int op = (int)rn(24);
		capa = pickcap(); capb = rn(2) ? capa : pickcap();
		mk(&a, capa, pickbits(capa)); mk(&b, capb, pickbits(capb));
		switch (op) {
		case 0: printf("add"); out(&a); out(&b); cr = 77; e = bn_add(&a, &b, &cr); printf(" -> %d %d", e, (int)cr); out(&a); break;
		case 1: printf("sub"); out(&a); out(&b); cr = 77; e = bn_sub(&a, &b, &cr); printf(" -> %d %d", e, (int)cr); out(&a); break;
		case 2: printf("mul"); out(&a); out(&b); e = bn_mult(&a, &b); printf(" -> %d", e); out(&a); break;
		case 3: mk(&r, pickcap(), 0); printf("div"); out(&a); out(&b); e = bn_div(&a, &b, &r); printf(" -> %d", e); out(&a); out(&r); break;
		case 4: printf("mod"); out(&a); out(&b); e = bn_mod(&a, &b, NULL); printf(" -> %d", e); out(&a); break;
		case 5: mk(&r, pickcap(), 0); printf("gcd"); out(&a); out(&b); e = bn_gcd(&r, &a, &b); printf(" -> %d", e); out(&r); break;
		case 6: mk(&r, pickcap(), 0); printf("gcd"); out(&a); out(&b); e = bn_gcd_bin(&r, &a, &b); printf(" -> %d", e); out(&r); break;
		case 7: sh = rn(a.count * BN_DIGIT_BITS); printf("shl %zu", sh); out(&a); bn_l_shift(&a, sh); printf(" -> 0"); out(&a); break;
		case 8: sh = a.digits ? rn(a.digits * BN_DIGIT_BITS) : 0; printf("shr %zu", sh); out(&a); bn_r_shift(&a, sh); printf(" -> 0"); out(&a); break;
		case 9: if (a.digits > b.digits + 1 || 1) { printf("and"); out(&a); out(&b); e = bn_and(&a, &b); printf(" -> %d", e); out(&a);} break;
		case 10: printf("or"); out(&a); out(&b); e = bn_or(&a, &b); printf(" -> %d", e); out(&a); break;
		case 11: printf("xor"); out(&a); out(&b); e = bn_xor(&a, &b); printf(" -> %d", e); out(&a); break;
		case 12: printf("cmp"); out(&a); out(&b); printf(" -> %d", bn_cmp(&a, &b)); break;
		case 13: d = (bn_digit_t)rnd(); if (rn(3)==0) d = (bn_digit_t)rn(6); if (rn(5)==0) d = BN_MAX_DIGIT; printf("muld"); out(&a); prd(d); e = bn_mult_digit(&a, d); printf(" -> %d", e); out(&a); break;
		case 14: d = (bn_digit_t)rnd(); if (rn(3)==0) d = (bn_digit_t)rn(6); if (rn(5)==0) d = BN_MAX_DIGIT; printf("addd"); out(&a); prd(d); cr = 0; bn_add_digit(&a, d, &cr); printf(" -> 0 %d", (int)cr); out(&a); break;
		case 15: d = (bn_digit_t)rnd(); if (rn(3)==0) d = (bn_digit_t)rn(6); if (rn(5)==0) d = BN_MAX_DIGIT; printf("subd"); out(&a); prd(d); cr = 0; bn_sub_digit(&a, d, &cr); printf(" -> 0 %d", (int)cr); out(&a); break;
		case 16: d = (bn_digit_t)rn(9); printf("expd"); out(&a); prd(d); e = bn_exp_digit(&a, d); printf(" -> %d", e); out(&a); break;
		case 17: case 18: case 19: case 20: case 21: case 22: {
			/* modular: m odd mostly, a,b < m, capacity of a double */
			size_t capm = pickcap(); mk(&m, capm, pickbits(capm)); if (m.digits == 0) { bn_assign_digit(&m, 3); } if (op != 17 && op != 18) m.num[0] |= 1;
			size_t ca = (rn(3)==0) ? capm : 2*capm + (rn(2)?BN_DIGIT_BITS:0); if (ca > BN_BIT_LEN) ca = BN_BIT_LEN;
			mk(&a, ca, capm); while (bn_cmp(&a,&m) >= 0) { a.num[a.digits-1] >>= 1; a.digits = bn_digits_calc_digits(a.num, a.digits);} mk(&b, ca, capm); while (bn_cmp(&b,&m) >= 0) { b.num[b.digits-1] >>= 1; b.digits = bn_digits_calc_digits(b.num, b.digits);}
			if (a.digits > a.count || b.digits > b.count) break;
			/* re-poison above digits */
			{ size_t i; for (i = a.digits; i < BN_MAX_DIGITS; i++) a.num[i] = (bn_digit_t)rnd(); for (i = b.digits; i < BN_MAX_DIGITS; i++) b.num[i] = (bn_digit_t)rnd(); }
			switch (op) {
			case 17: printf("madd"); out(&a); out(&b); out(&m); e = bn_mod_add(&a, &b, &m, NULL); printf(" -> %d", e); out(&a); break;
			case 18: printf("msub"); out(&a); out(&b); out(&m); e = bn_mod_sub(&a, &b, &m, NULL); printf(" -> %d", e); out(&a); break;
			case 19: printf("mmul"); out(&a); out(&b); out(&m); e = bn_mod_mult(&a, &b, &m, NULL); printf(" -> %d", e); out(&a); break;
			case 20: if (b.digits > 2) { b.digits = bn_digits_calc_digits(b.num, 1 + rn(2)); } printf("mexp"); out(&a); out(&b); out(&m); e = bn_mod_exp(&a, &b, &m, NULL); printf(" -> %d", e); out(&a); break;
			case 21: printf("minv"); out(&a); out(&m); if (capm > 128) { printf(" -> skip"); break; } e = bn_mod_inv(&a, &m, NULL); printf(" -> %d", e); out(&a); break;
			case 22: sh = rn(40); printf("mexpd %zu", sh); out(&a); out(&m); e = bn_mod_exp_digit(&a, sh, &m, NULL); printf(" -> %d", e); out(&a); break;
			}
			break; }
		case 23: { /* aliasing forms */
			switch (rn(6)) {
			case 0: printf("add"); out(&a); out(&a); cr = 77; e = bn_add(&a, &a, &cr); printf(" -> %d %d", e, (int)cr); out(&a); break;
			case 1: printf("mul"); out(&a); out(&a); e = bn_mult(&a, &a); printf(" -> %d", e); out(&a); break;
			case 2: printf("sub"); out(&a); out(&a); cr = 77; e = bn_sub(&a, &a, &cr); printf(" -> %d %d", e, (int)cr); out(&a); break;
			case 3: printf("div"); out(&a); out(&b); e = bn_div(&a, &b, &b); printf(" -> %d", e); out(&a); out(&b); break;
			case 4: printf("xor"); out(&a); out(&a); e = bn_xor(&a, &a); printf(" -> %d", e); out(&a); break;
			case 5: printf("gcd"); out(&a); out(&b); e = bn_gcd(&a, &a, &b); printf(" -> %d", e); out(&a); break;
			}
			break; }
		}
		printf("\n");
	}
	return 0;
}
