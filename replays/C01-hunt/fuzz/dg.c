#include "pre.h"
typedef unsigned __int128 u128;
static uint64_t s[2] = {0x1234567887654321ULL, 0xdeadbeefcafef00dULL};
static uint64_t rnd(void) { uint64_t s1 = s[0], s0 = s[1]; s[0] = s0; s1 ^= s1 << 23; s[1] = s1 ^ s0 ^ (s1 >> 17) ^ (s0 >> 26); return s[1] + s0; }
static bn_digit_t rd(void) { switch (rnd()%6) { case 0: return 0; case 1: return BN_MAX_DIGIT; case 2: return (bn_digit_t)1 << (rnd()%BN_DIGIT_BITS); case 3: return (bn_digit_t)(rnd() % 5); case 4: return (bn_digit_t)(BN_MAX_DIGIT - (rnd()%4)); default: return (bn_digit_t)rnd(); } }
int main(void) {
#if BN_DIGIT_BIT_CNT <= 64
	long bad_m=0,bad_q=0,bad_r=0,bad_rh=0,bad_s=0,bad_g=0,bad_e=0; 
	for (long i = 0; i < 3000000; i++) {
		bn_digit_t a = rd(), b = rd(), c = rd(), lo, hi, ql, qh, rl, rh, qs;
		bn_digit_mult(a, b, &lo, &hi);
		u128 p = (u128)a * b;
		if (lo != (bn_digit_t)p || hi != (bn_digit_t)(p >> BN_DIGIT_BITS)) { if (bad_m++ < 3) printf("MULT FAIL %llx*%llx\n", (unsigned long long)a, (unsigned long long)b); }
		if (c) {
			u128 n = ((u128)b << BN_DIGIT_BITS) | a, q = n / c, r = n % c;
			int e = bn_digit_div(a, b, c, &ql, &qh, &rl, &rh);
			if (e || ql != (bn_digit_t)q || qh != (bn_digit_t)(q >> BN_DIGIT_BITS)) { if (bad_q++ < 3) printf("DIV Q FAIL %llx:%llx / %llx\n", (unsigned long long)b, (unsigned long long)a, (unsigned long long)c); }
			if (rl != (bn_digit_t)r) { if (bad_r++ < 3) printf("DIV R FAIL %llx:%llx / %llx\n", (unsigned long long)b, (unsigned long long)a, (unsigned long long)c); }
			if (rh != 0) { if (bad_rh++ < 3) printf("DIV RH FAIL %llx:%llx / %llx -> rh=%llx\n", (unsigned long long)b, (unsigned long long)a, (unsigned long long)c, (unsigned long long)rh); }
			if (b < c) { e = bn_digit_div__int_short(a, b, c, &qs); if (e || qs != (bn_digit_t)q) { if (bad_s++ < 3) printf("DIV SHORT FAIL %llx:%llx / %llx\n", (unsigned long long)b, (unsigned long long)a, (unsigned long long)c); } }
		}
		/* gcd */
		bn_digit_t g1 = bn_digit_gcd(a, b), g2 = bn_digit_gcd_bin(a, b), x, y, g3 = bn_digit_egcd(a, b, &x, &y);
		bn_digit_t ta = a, tb = b; while (tb) { bn_digit_t t = ta % tb; ta = tb; tb = t; }
		if (g1 != ta || g2 != ta || g3 != ta) { if (bad_g++ < 3) printf("GCD FAIL %llx %llx: %llx %llx %llx ref %llx\n", (unsigned long long)a, (unsigned long long)b, (unsigned long long)g1, (unsigned long long)g2, (unsigned long long)g3, (unsigned long long)ta); }
		if ((bn_digit_t)(a * x + b * y) != ta) { if (bad_e++ < 3) printf("EGCD FAIL %llx %llx: x=%llx y=%llx\n", (unsigned long long)a, (unsigned long long)b, (unsigned long long)x, (unsigned long long)y); }
	}
	printf("bits=%d cc=%d mult=%ld q=%ld r=%ld rh=%ld short=%ld gcd=%ld egcd=%ld\n", (int)BN_DIGIT_BITS,
#ifdef BN_CC_MULL_DIV
	1,
#else
	0,
#endif
	bad_m,bad_q,bad_r,bad_rh,bad_s,bad_g,bad_e);
#endif
	return 0;
}
