/* Self-contained demo; build: see run.sh.  Exit 0 = behaves as specified, 1 = defect shown (prints FAIL). */
#include <sys/param.h>
#include <sys/types.h>
#include <inttypes.h>
#include <stdlib.h>
#include <string.h>
#include <stdio.h>
#include <errno.h>
#ifndef BN_BIT_LEN
#define BN_BIT_LEN 2048
#endif
#include "math/big_num.h"

static int fails = 0;
static char *hexof(bn_p b) { /* raw dump of the significant digits, independent of the export code */
	static char bufs[8][2 * BN_LEN + 8]; static int k = 0; char *s = bufs[k++ & 7], *p = s; size_t i, j;
	const uint8_t *r = (const uint8_t*)b->num;
	if (0 == b->digits) { strcpy(s, "0"); return s; }
	for (i = b->digits; i > 0; i--) for (j = BN_DIGIT_SIZE; j > 0; j--) p += sprintf(p, "%02x", r[(i - 1) * BN_DIGIT_SIZE + j - 1]);
	for (p = s; '0' == p[0] && 0 != p[1]; p++) ;
	return p;
}
static int hx(bn_p b, const char *s) { return bn_import_be_hex(b, (const uint8_t*)s, strlen(s)); } /* even-length strings only */
static void check(const char *what, int rc, bn_p got, int exp_rc_ok, const char *exp_hex) {
	/* accepted: rc == 0 with the exact value, or (if exp_rc_ok) a non-zero error code */
	int ok = (0 == rc) ? (0 == strcmp(hexof(got), exp_hex)) : exp_rc_ok;
	printf("%s: rc=%d value=0x%s  expected 0x%s%s  -> %s\n", what, rc, hexof(got), exp_hex, exp_rc_ok ? " (or an error code)" : "", ok ? "ok" : "FAIL");
	if (!ok) fails++;
}

static unsigned long long isqrt(unsigned long long v) { unsigned long long r = 0; while ((r + 1) * (r + 1) <= v) r++; return r; }
int main(void) {
	bn_t a; unsigned long long v; int rc, shown = 0; char exp[64];
	/* bn_sqrt == bn_sqrt1 (the default, not the self-declared broken bn_sqrt4) */
	for (v = 0; v < 5000; v++) {
		bn_init(&a, 128); bn_assign_digit(&a, (bn_digit_t)v);
		rc = bn_sqrt(&a);
		snprintf(exp, sizeof(exp), "%llx", isqrt(v));
		if (0 != rc || 0 != strcmp(hexof(&a), exp)) {
			fails++;
			if (shown++ < 12) printf("bn_sqrt(%llu): rc=%d value=0x%s expected 0x%s -> FAIL\n", v, rc, hexof(&a), exp);
		}
	}
	printf("%d of 5000 small inputs wrong\n", fails);
	/* a real curve modulus with an odd bit length: p521 = 2^521 - 1, floor(sqrt) = 0x16a09e667f3bcc908b2fb1366ea957d3e3adec17512775099da2f590b0667322a9 (2^260.5) */
	bn_init(&a, 576); hx(&a, "01ffffffffffffffffffffffffffffffffffffffffffffffffffffffffffffffffffffffffffffffffffffffffffffffffffffffffffffffffffffffffffffffffff");
	rc = bn_sqrt(&a);
	check("bn_sqrt(2^521-1)", rc, &a, 0, "16a09e667f3bcc908b2fb1366ea957d3e3adec17512775099da2f590b0667322a9");

	if (fails) { printf("FAIL: %d check(s)\n", fails); return 1; }
	printf("PASS\n"); return 0;
}
