/* Self-contained demo; build: see run.sh.  Exit 0 = behaves as specified, 1 = defect shown (prints FAIL). */
#include <sys/param.h>
#include <sys/types.h>
#include <inttypes.h>
#include <stdlib.h>
#include <string.h>
#include <stdio.h>
#include <errno.h>
#ifndef BN_BIT_LEN
#define BN_BIT_LEN 2048
#endif
#include "math/big_num.h"

static int fails = 0;
static char *hexof(bn_p b) { /* raw dump of the significant digits, independent of the export code */
	static char bufs[8][2 * BN_LEN + 8]; static int k = 0; char *s = bufs[k++ & 7], *p = s; size_t i, j;
	const uint8_t *r = (const uint8_t*)b->num;
	if (0 == b->digits) { strcpy(s, "0"); return s; }
	for (i = b->digits; i > 0; i--) for (j = BN_DIGIT_SIZE; j > 0; j--) p += sprintf(p, "%02x", r[(i - 1) * BN_DIGIT_SIZE + j - 1]);
	for (p = s; '0' == p[0] && 0 != p[1]; p++) ;
	return p;
}
static int hx(bn_p b, const char *s) { return bn_import_be_hex(b, (const uint8_t*)s, strlen(s)); } /* even-length strings only */
static void check(const char *what, int rc, bn_p got, int exp_rc_ok, const char *exp_hex) {
	/* accepted: rc == 0 with the exact value, or (if exp_rc_ok) a non-zero error code */
	int ok = (0 == rc) ? (0 == strcmp(hexof(got), exp_hex)) : exp_rc_ok;
	printf("%s: rc=%d value=0x%s  expected 0x%s%s  -> %s\n", what, rc, hexof(got), exp_hex, exp_rc_ok ? " (or an error code)" : "", ok ? "ok" : "FAIL");
	if (!ok) fails++;
}


#include <signal.h>
#include <unistd.h>
#include <sys/wait.h>
int main(void) {
	bn_t a, m, t; int rc, st; pid_t p;
	bn_init(&a, 128); bn_init(&m, 128); bn_init(&t, 256);
	bn_assign_digit(&a, 3); bn_assign_digit(&m, 8);              /* 3 * 3 = 9 = 1 (mod 8): inverse exists */
	rc = bn_mod_inv(&a, &m, NULL);
	check("bn_mod_inv(3, 8)", rc, &a, 1, "3");
	bn_assign_digit(&a, 7); bn_assign_digit(&m, 10);             /* 7 * 3 = 21 = 1 (mod 10) */
	rc = bn_mod_inv(&a, &m, NULL);
	check("bn_mod_inv(7, 10)", rc, &a, 1, "3");
	/* no inverse: gcd(3, 9) = 3 -> must be an error, not a hang */
	fflush(stdout); p = fork();
	if (0 == p) { alarm(3); bn_assign_digit(&a, 3); bn_assign_digit(&m, 9); rc = bn_mod_inv(&a, &m, NULL); _exit(0 != rc ? 0 : 4); }
	waitpid(p, &st, 0);
	if (WIFSIGNALED(st) && SIGALRM == WTERMSIG(st)) { printf("bn_mod_inv(3, 9): no return after 3 s (endless loop), expected an error -> FAIL\n"); fails++; }
	else if (WIFEXITED(st) && 4 == WEXITSTATUS(st)) { printf("bn_mod_inv(3, 9): returned success, expected an error -> FAIL\n"); fails++; }
	else printf("bn_mod_inv(3, 9): error reported -> ok\n");

	if (fails) { printf("FAIL: %d check(s)\n", fails); return 1; }
	printf("PASS\n"); return 0;
}
