#!/bin/sh
# usage: run.sh <tree>   (exit 0 = ok, non-zero = defect reproduced / FAIL printed)
T="${1:-/tmp/hunt/C01}"
D="$(cd "$(dirname "$0")" && pwd)"
B="$(mktemp -d)"
trap 'rm -rf "$B"' EXIT
${CC:-gcc} -O1 -g -w -I"$T/include" "$D/demo.c" -o "$B/demo" || exit 2
"$B/demo"

