/* Self-contained demo; build: see run.sh.  Exit 0 = behaves as specified, 1 = defect shown (prints FAIL). */
#include <sys/param.h>
#include <sys/types.h>
#include <inttypes.h>
#include <stdlib.h>
#include <string.h>
#include <stdio.h>
#include <errno.h>
#ifndef BN_BIT_LEN
#define BN_BIT_LEN 2048
#endif
#include "math/big_num.h"

static int fails = 0;
static char *hexof(bn_p b) { /* raw dump of the significant digits, independent of the export code */
	static char bufs[8][2 * BN_LEN + 8]; static int k = 0; char *s = bufs[k++ & 7], *p = s; size_t i, j;
	const uint8_t *r = (const uint8_t*)b->num;
	if (0 == b->digits) { strcpy(s, "0"); return s; }
	for (i = b->digits; i > 0; i--) for (j = BN_DIGIT_SIZE; j > 0; j--) p += sprintf(p, "%02x", r[(i - 1) * BN_DIGIT_SIZE + j - 1]);
	for (p = s; '0' == p[0] && 0 != p[1]; p++) ;
	return p;
}
static int hx(bn_p b, const char *s) { return bn_import_be_hex(b, (const uint8_t*)s, strlen(s)); } /* even-length strings only */
static void check(const char *what, int rc, bn_p got, int exp_rc_ok, const char *exp_hex) {
	/* accepted: rc == 0 with the exact value, or (if exp_rc_ok) a non-zero error code */
	int ok = (0 == rc) ? (0 == strcmp(hexof(got), exp_hex)) : exp_rc_ok;
	printf("%s: rc=%d value=0x%s  expected 0x%s%s  -> %s\n", what, rc, hexof(got), exp_hex, exp_rc_ok ? " (or an error code)" : "", ok ? "ok" : "FAIL");
	if (!ok) fails++;
}

/* value of a NAF as two's complement over (bits+8) bits is awkward; rebuild with bn ops instead: pos - neg */
static int naf_matches(int8_t *naf, size_t cnt, bn_p orig) {
	bn_t pos, neg, t; size_t i;
	bn_init(&pos, 1024); bn_init(&neg, 1024); bn_init(&t, 1024);
	for (i = 0; i < cnt; i++) {
		if (0 == naf[i]) continue;
		bn_assign_digit(&t, (bn_digit_t)(naf[i] < 0 ? -naf[i] : naf[i])); bn_l_shift(&t, i);
		bn_add((naf[i] < 0) ? &neg : &pos, &t, NULL);
	}
	if (bn_cmp(&pos, &neg) < 0) return 0;
	bn_sub(&pos, &neg, NULL);
	return (0 == bn_cmp(&pos, orig));
}
int main(void) {
	bn_t a; int rc; int8_t naf[600]; size_t cnt, i, w;
	for (w = 2; w <= 5; w++) {
		bn_init(&a, 256); hx(&a, "ffffffffffffffffffffffffffffffffffffffffffffffffffffffffffffffff");
		cnt = 0; rc = bn_calc_naf(&a, w, sizeof(naf), naf, &cnt);
		printf("bn_calc_naf(2^256-1 in a 256-bit bn, w=%zu): rc=%d items=%zu [", w, rc, cnt);
		for (i = 0; i < cnt && i < 8; i++) printf("%d ", naf[i]);
		printf("%s]", cnt > 8 ? "..." : "");
		if (0 == rc && !naf_matches(naf, cnt, &a)) { printf(" -> FAIL (digits do not sum to the operand; expected -1 at 0 and +1 at 256, or an error)\n"); fails++; }
		else printf(" -> ok\n");
	}
	/* control: same value with one spare digit of capacity is recoded correctly */
	bn_init(&a, 320); hx(&a, "ffffffffffffffffffffffffffffffffffffffffffffffffffffffffffffffff");
	rc = bn_calc_naf(&a, 2, sizeof(naf), naf, &cnt);
	printf("control (320-bit capacity): rc=%d items=%zu %s\n", rc, cnt, naf_matches(naf, cnt, &a) ? "ok" : "wrong");

	if (fails) { printf("FAIL: %d check(s)\n", fails); return 1; }
	printf("PASS\n"); return 0;
}
