#!/bin/sh
# usage: run.sh <tree>   (exit 0 = ok, non-zero = defect reproduced / FAIL printed)
T="${1:-/tmp/hunt/C01}"
D="$(cd "$(dirname "$0")" && pwd)"
B="$(mktemp -d)"
trap 'rm -rf "$B"' EXIT
# portable routines (no BN_CC_MULL_DIV), checked for 64, 32 and 16 bit digits; the compiler-assisted build is the control
rc=0
for w in 64 32 16; do
  ${CC:-gcc} -O1 -g -w -DBN_DIGIT_BIT_CNT=$w -I"$T/include" "$D/demo.c" -o "$B/demo$w" || exit 2
  echo "--- BN_DIGIT_BIT_CNT=$w, portable"; "$B/demo$w" || rc=1
done
${CC:-gcc} -O1 -g -w -DBN_DIGIT_BIT_CNT=64 -DBN_CC_MULL_DIV -I"$T/include" "$D/demo.c" -o "$B/democc" || exit 2
echo "--- BN_DIGIT_BIT_CNT=64, BN_CC_MULL_DIV (control)"; "$B/democc"
exit $rc

