/* Self-contained demo; build: see run.sh.  Exit 0 = behaves as specified, 1 = defect shown (prints FAIL). */
#include <sys/param.h>
#include <sys/types.h>
#include <inttypes.h>
#include <stdlib.h>
#include <string.h>
#include <stdio.h>
#include <errno.h>
#ifndef BN_BIT_LEN
#define BN_BIT_LEN 2048
#endif
#include "math/big_num.h"

static int fails = 0;
static char *hexof(bn_p b) { /* raw dump of the significant digits, independent of the export code */
	static char bufs[8][2 * BN_LEN + 8]; static int k = 0; char *s = bufs[k++ & 7], *p = s; size_t i, j;
	const uint8_t *r = (const uint8_t*)b->num;
	if (0 == b->digits) { strcpy(s, "0"); return s; }
	for (i = b->digits; i > 0; i--) for (j = BN_DIGIT_SIZE; j > 0; j--) p += sprintf(p, "%02x", r[(i - 1) * BN_DIGIT_SIZE + j - 1]);
	for (p = s; '0' == p[0] && 0 != p[1]; p++) ;
	return p;
}
static int hx(bn_p b, const char *s) { return bn_import_be_hex(b, (const uint8_t*)s, strlen(s)); } /* even-length strings only */
static void check(const char *what, int rc, bn_p got, int exp_rc_ok, const char *exp_hex) {
	/* accepted: rc == 0 with the exact value, or (if exp_rc_ok) a non-zero error code */
	int ok = (0 == rc) ? (0 == strcmp(hexof(got), exp_hex)) : exp_rc_ok;
	printf("%s: rc=%d value=0x%s  expected 0x%s%s  -> %s\n", what, rc, hexof(got), exp_hex, exp_rc_ok ? " (or an error code)" : "", ok ? "ok" : "FAIL");
	if (!ok) fails++;
}


int main(void) {
	bn_t a, m; int rc; unsigned v, r, found, wrong = 0, total = 0;
	const unsigned primes[] = { 17, 41, 73, 97, 137, 193, 257 }; size_t k;   /* p = 1 (mod 8): Tonelli-Shanks branch */
	for (k = 0; k < sizeof(primes) / sizeof(primes[0]); k++) {
		unsigned p = primes[k];
		for (v = 2; v < p; v++) {
			for (found = 0, r = 1; r < p; r++) if ((r * r) % p == v) { found = r; break; }
			if (0 == found) continue;                              /* only quadratic residues */
			bn_init(&m, 64); bn_assign_digit(&m, p);
			bn_init(&a, 192); bn_assign_digit(&a, v);
			rc = bn_mod_sqrt(&a, &m, NULL); total++;
			if (0 == rc && 1 == a.digits && ((unsigned)a.num[0] * (unsigned)a.num[0]) % p == v) continue;
			if (wrong++ < 8) printf("bn_mod_sqrt(%u mod %u): rc=%d value=0x%s, but %u^2 = %u (mod %u) -> FAIL\n", v, p, rc, hexof(&a), found, v, p);
		}
	}
	printf("%u of %u quadratic residues reported as having no root / wrong root\n", wrong, total);
	fails += (int)wrong;

	if (fails) { printf("FAIL: %d check(s)\n", fails); return 1; }
	printf("PASS\n"); return 0;
}
