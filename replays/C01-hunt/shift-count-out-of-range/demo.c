/* Self-contained demo; build: see run.sh.  Exit 0 = behaves as specified, 1 = defect shown (prints FAIL). */
#include <sys/param.h>
#include <sys/types.h>
#include <inttypes.h>
#include <stdlib.h>
#include <string.h>
#include <stdio.h>
#include <errno.h>
#ifndef BN_BIT_LEN
#define BN_BIT_LEN 2048
#endif
#include "math/big_num.h"

static int fails = 0;
static char *hexof(bn_p b) { /* raw dump of the significant digits, independent of the export code */
	static char bufs[8][2 * BN_LEN + 8]; static int k = 0; char *s = bufs[k++ & 7], *p = s; size_t i, j;
	const uint8_t *r = (const uint8_t*)b->num;
	if (0 == b->digits) { strcpy(s, "0"); return s; }
	for (i = b->digits; i > 0; i--) for (j = BN_DIGIT_SIZE; j > 0; j--) p += sprintf(p, "%02x", r[(i - 1) * BN_DIGIT_SIZE + j - 1]);
	for (p = s; '0' == p[0] && 0 != p[1]; p++) ;
	return p;
}
static int hx(bn_p b, const char *s) { return bn_import_be_hex(b, (const uint8_t*)s, strlen(s)); } /* even-length strings only */
static void check(const char *what, int rc, bn_p got, int exp_rc_ok, const char *exp_hex) {
	/* accepted: rc == 0 with the exact value, or (if exp_rc_ok) a non-zero error code */
	int ok = (0 == rc) ? (0 == strcmp(hexof(got), exp_hex)) : exp_rc_ok;
	printf("%s: rc=%d value=0x%s  expected 0x%s%s  -> %s\n", what, rc, hexof(got), exp_hex, exp_rc_ok ? " (or an error code)" : "", ok ? "ok" : "FAIL");
	if (!ok) fails++;
}


#include <signal.h>
#include <unistd.h>
#include <sys/wait.h>
static int child(int which) {
	bn_t a; bn_init(&a, 128); bn_assign_digit(&a, 5);
	switch (which) {
	case 0: bn_r_shift(&a, 65); break;   /* 5 >> 65 = 0 */
	case 1: bn_r_shift(&a, 72); break;   /* 5 >> 72 = 0 */
	case 2: bn_l_shift(&a, 200); break;  /* 5 << 200 does not fit 128 bits */
	}
	return (0 == a.digits) ? 0 : 3;
}
int main(void) {
	const char *nm[] = { "bn_r_shift(5, 65)", "bn_r_shift(5, 72)", "bn_l_shift(5 [128-bit capacity], 200)" }; int i, st; pid_t p;
	for (i = 0; i < 3; i++) {
		fflush(stdout); p = fork();
		if (0 == p) { alarm(5); close(2); _exit(child(i)); }
		waitpid(p, &st, 0);
		if (WIFEXITED(st) && 0 == WEXITSTATUS(st)) printf("%s: result 0 -> ok\n", nm[i]);
		else { printf("%s: %s %d -> FAIL (expected value 0 / truncation or an error, not memory corruption)\n", nm[i], WIFSIGNALED(st) ? "killed by signal" : "AddressSanitizer abort, exit status", WIFSIGNALED(st) ? WTERMSIG(st) : WEXITSTATUS(st)); fails++; }
	}

	if (fails) { printf("FAIL: %d check(s)\n", fails); return 1; }
	printf("PASS\n"); return 0;
}
