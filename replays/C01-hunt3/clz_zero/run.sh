#!/bin/sh
T=${1:-/tmp/hunt/C01}; D=$(dirname "$0")
${CC:-gcc} -std=gnu11 -w -O0 -D_GNU_SOURCE -DLINUX -I"$T/include" "$D/demo.c" -o "$D/demo.bin" || exit 2
"$D/demo.bin"
