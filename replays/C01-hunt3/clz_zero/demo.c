#include <sys/param.h>
#include <sys/types.h>
#include <inttypes.h>
#include <string.h>
#include <stdio.h>
#include <stdlib.h>
#include <unistd.h>
#include <signal.h>
#include <errno.h>
#include "math/big_num.h"
/* bn_clz(zero): reads num[digits - 1] = num[-1] (the header of the object)
 * and answers more leading zeros than the object has bits. (Built at -O0:
 * gcc -O2 happens to fold the out-of-bounds read to the right value.) */
int main(void) {
	bn_t bn; int bad = 0; size_t bits;
	for (bits = 64; bits <= 512; bits += 64) {
		memset(&bn, 0xA5, sizeof(bn)); bn_init(&bn, bits); bn_assign_zero(&bn);
		size_t r = bn_clz(&bn);
		if (r != bits) { printf("bn_clz(0) in a %zu bit object = %zu\n", bits, r); bad = 1; }
	}
	if (bad) { printf("FAIL\n"); return 1; }
	printf("ok\n"); return 0;
}
