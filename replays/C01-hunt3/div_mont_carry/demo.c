#include <sys/param.h>
#include <sys/types.h>
#include <inttypes.h>
#include <string.h>
#include <stdio.h>
#include <stdlib.h>
#include <unistd.h>
#include <signal.h>
#include <errno.h>
#include "math/big_num.h"
/* bn_mod_div_mont(bn, d, m): bn = bn / d mod m.  bn object has exactly the
 * capacity of m (64 bit), m has its top bit set: bn + m carries out of the
 * object, the carry is dropped (bn_add(bn, m, NULL)) and the halving loses it. */
int main(void) {
	bn_t bn, d, m, chk;
	bn_init(&bn, 64); bn_init(&d, 192); bn_init(&m, 256); bn_init(&chk, 256);
	bn_import_be_hex(&bn, (const uint8_t*)"8000000000000000", 16);
	bn_import_be_hex(&d, (const uint8_t*)"868ed0c37cc4", 12);
	bn_import_be_hex(&m, (const uint8_t*)"ffffffff00000001", 16); /* prime 2^64-2^32+1 */
	int rc = bn_mod_div_mont(&bn, &d, &m, NULL);
	printf("rc=%d result=%016" PRIx64 " expected=f404f3e8dd01d92f (or an error)\n", rc, (uint64_t)bn.num[0]);
	if (rc != 0) { printf("ok (refused)\n"); return 0; }
	/* check: result * d mod m must be 0x8000000000000000 */
	bn_assign(&chk, &bn); bn_mod_mult(&chk, &d, &m, NULL);
	printf("result*d mod m = %016" PRIx64 " (want 8000000000000000)\n", (uint64_t)(chk.digits ? chk.num[0] : 0));
	if (chk.digits != 1 || chk.num[0] != 0x8000000000000000ULL) { printf("FAIL: success with a wrong quotient\n"); return 1; }
	printf("ok\n"); return 0;
}
