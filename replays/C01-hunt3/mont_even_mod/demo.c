#include <sys/param.h>
#include <sys/types.h>
#include <inttypes.h>
#include <string.h>
#include <stdio.h>
#include <stdlib.h>
#include <unistd.h>
#include <signal.h>
#include <errno.h>
#include "math/big_num.h"
/* bn_mod_inv_mont / bn_mod_div_mont with an even modulus: the halving steps
 * need an odd m (bn_mod_inv_bin refuses even m with EINVAL), these report
 * success with a value that is not the inverse. */
int main(void) {
	unsigned a, m, bad = 0;
	for (m = 4; m <= 64; m += 2) for (a = 1; a < m; a += 2) {
		unsigned x = a, y = m; while (y) { unsigned t = x % y; x = y; y = t; }
		if (x != 1) continue; /* inverse exists */
		bn_t bn, bm; bn_init(&bn, 128); bn_init(&bm, 128);
		bn_assign_digit(&bn, a); bn_assign_digit(&bm, m);
		int rc = bn_mod_inv_mont(&bn, &bm, NULL);
		unsigned r = bn.digits ? (unsigned)bn.num[0] : 0;
		if (rc == 0 && (bn.digits > 1 || (r * a) % m != 1)) {
			if (bad < 5) printf("bn_mod_inv_mont(%u, %u) = %u with rc 0, but %u*%u mod %u = %u\n", a, m, r, a, r, m, (r * a) % m);
			bad++;
		}
	}
	if (bad) { printf("FAIL: %u wrong inverses reported as success\n", bad); return 1; }
	printf("ok\n"); return 0;
}
