#include <sys/param.h>
#include <sys/types.h>
#include <inttypes.h>
#include <string.h>
#include <stdio.h>
#include <stdlib.h>
#include <unistd.h>
#include <signal.h>
#include <errno.h>
#include "math/big_num.h"
/* bn_mod_small(bn, 0): no domain check, bn_cmp(bn, 0) >= 0 for ever and
 * bn_sub(bn, 0) changes nothing: the call never returns. */
static void on_alarm(int s) { (void)s; printf("FAIL: bn_mod_small(5, 0) did not return within 2 s (expected EINVAL)\n"); fflush(stdout); _exit(1); }
int main(void) {
	bn_t bn, m; bn_init(&bn, 64); bn_init(&m, 64);
	bn_assign_digit(&bn, 5); bn_assign_zero(&m);
	signal(SIGALRM, on_alarm); alarm(2);
	int rc = bn_mod_small(&bn, &m, NULL);
	printf("rc=%d\n", rc);
	if (rc == 0) { printf("FAIL: success for modulus 0\n"); return 1; }
	printf("ok\n"); return 0;
}
