/* ini_val_set() with a value that points into the record being replaced
 * (what ini_val_get() / ini_sect_val_enum() hand out): memcpy() on
 * overlapping ranges. */
#include <sys/param.h>
#include <sys/types.h>
#include <inttypes.h>
#include <string.h>
#include <stdio.h>
#include <stdlib.h>
#include <errno.h>
#include "utils/ini.h"
#define U(s) ((const uint8_t*)(s))

int main(void) {
	ini_p ini;
	const uint8_t *v;
	size_t n;
	static const char text[] = "[s]\r\npath=   /usr/local/share/some/long/path/name\r\n";

	ini_create(&ini);
	ini_buf_parse(ini, U(text), sizeof(text) - 1);
	/* Trim the leading blanks of a stored value. */
	if (0 != ini_val_get(ini, U("s"), 1, U("path"), 4, &v, &n))
		return (2);
	while (0 != n && ' ' == v[0]) {
		v ++;
		n --;
	}
	if (0 != ini_val_set(ini, U("s"), 1, U("path"), 4, v, n)) /* ASan: memcpy-param-overlap. */
		return (3);
	ini_val_get(ini, U("s"), 1, U("path"), 4, &v, &n);
	if (36 != n || 0 != memcmp(v, "/usr/local/share/some/long/path/name", 36)) {
		printf("FAIL: value [%.*s]\n", (int)n, v);
		return (1);
	}
	printf("ok (no overlap reported)\n");
	ini_destroy(ini);
	return (0);
}
