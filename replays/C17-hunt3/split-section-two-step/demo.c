/* A section continued later in the text: ini_val_get() finds the key of the
 * first part, the two-step lookup ini_sect_find() + ini_sect_val_find()
 * (and the ...i pair) does not. */
#include <sys/param.h>
#include <sys/types.h>
#include <inttypes.h>
#include <string.h>
#include <stdio.h>
#include <stdlib.h>
#include <errno.h>
#include "utils/ini.h"
#define U(s) ((const uint8_t*)(s))

int main(void) {
	ini_p ini;
	const uint8_t *v;
	size_t n, so, vo, soi, voi;
	int e, bad = 0;
	static const char text[] = "[main]\nhost=h\n[other]\nx=1\n[main]\nport=1\n";

	ini_create(&ini);
	ini_buf_parse(ini, U(text), sizeof(text) - 1);
	e = ini_val_get(ini, U("main"), 4, U("host"), 4, &v, &n);
	printf("ini_val_get(main, host): %d [%.*s]\n", e, (0 == e) ? (int)n : 0, v);
	so = ini_sect_find(ini, U("main"), 4);
	vo = ini_sect_val_find(ini, so, U("host"), 4);
	soi = ini_sect_findi(ini, U("MAIN"), 4);
	voi = ini_sect_val_findi(ini, soi, U("HOST"), 4);
	printf("ini_sect_find(main) = %zd, ini_sect_val_find(host) = %zd\n", (ssize_t)so, (ssize_t)vo);
	printf("ini_sect_findi(MAIN) = %zd, ini_sect_val_findi(HOST) = %zd\n", (ssize_t)soi, (ssize_t)voi);
	if (0 == e && INI_OFFSET_INVALID == vo) {
		printf("FAIL: (main, host) exists for ini_val_get() but not for ini_sect_find() + ini_sect_val_find()\n");
		bad = 1;
	}
	if (0 == e && INI_OFFSET_INVALID == voi) {
		printf("FAIL: the same for ini_sect_findi() + ini_sect_val_findi()\n");
		bad = 1;
	}
	ini_destroy(ini);
	return (bad);
}
