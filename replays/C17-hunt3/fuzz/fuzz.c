#include <sys/param.h>
#include <sys/types.h>
#include <inttypes.h>
#include <string.h>
#include <stdio.h>
#include <stdlib.h>
#include <errno.h>
#include "utils/ini.h"

/* model */
typedef struct { int type; uint8_t *data; size_t dsz; size_t noff, nsz, voff, vsz; } rec_t;
static rec_t *M; static size_t Mn, Mcap;
enum {T_EMPTY, T_INV, T_COM, T_SECT, T_VAL};

static void m_insert(size_t pos, rec_t r) {
	if (Mn + 1 > Mcap) { Mcap = Mcap ? Mcap * 2 : 64; M = realloc(M, Mcap * sizeof(rec_t)); }
	memmove(&M[pos + 1], &M[pos], (Mn - pos) * sizeof(rec_t));
	M[pos] = r; Mn++;
}
static rec_t mk_line(const uint8_t *p, size_t n) {
	rec_t r; memset(&r, 0, sizeof(r));
	r.data = malloc(n + 1); memcpy(r.data, p, n); r.dsz = n;
	if (n == 0) { r.type = T_EMPTY; return r; }
	if (p[0] == ';' || p[0] == '#') { r.type = T_COM; return r; }
	if (p[0] == '[') {
		ssize_t i; for (i = (ssize_t)n - 1; i >= 0 && p[i] != ']'; i--);
		if (i < 0) { r.type = T_INV; return r; }
		r.type = T_SECT; r.noff = 1; r.nsz = (size_t)i - 1; return r;
	}
	const uint8_t *e = memchr(p, '=', n);
	if (!e) { r.type = T_INV; return r; }
	r.type = T_VAL; r.noff = 0; r.nsz = (size_t)(e - p); r.voff = r.nsz + 1; r.vsz = n - r.voff;
	return r;
}
static void m_parse(const uint8_t *b, size_t n) {
	size_t s = 0;
	while (s < n) {
		const uint8_t *lf = memchr(b + s, '\n', n - s);
		size_t e = lf ? (size_t)(lf - b) : n;
		size_t le = e;
		if (lf && le > s && b[le - 1] == '\r') le--;
		m_insert(Mn, mk_line(b + s, le - s));
		s = lf ? e + 1 : n;
	}
}
static int eq(const uint8_t *a, size_t an, const uint8_t *b, size_t bn, int ci) {
	if (an != bn) return 0;
	for (size_t i = 0; i < an; i++) {
		uint8_t x = a[i], y = b[i];
		if (ci) { if (x >= 'A' && x <= 'Z') x |= 32; if (y >= 'A' && y <= 'Z') y |= 32; }
		if (x != y) return 0;
	}
	return 1;
}
static size_t m_find(const uint8_t *s, size_t sn, const uint8_t *k, size_t kn, int ci, size_t *last_sect) {
	size_t found = (size_t)~0; int in = 0; *last_sect = (size_t)~0;
	for (size_t i = 0; i < Mn; i++) {
		if (M[i].type == T_SECT) { in = eq(M[i].data + 1, M[i].nsz, s, sn, ci); if (in) *last_sect = i; continue; }
		if (in && M[i].type == T_VAL && eq(M[i].data, M[i].nsz, k, kn, ci)) found = i;
	}
	return found;
}
static void m_set(const uint8_t *s, size_t sn, const uint8_t *k, size_t kn, const uint8_t *v, size_t vn) {
	size_t ls, f = m_find(s, sn, k, kn, 0, &ls);
	uint8_t *tmp = malloc(sn + kn + vn + 4); size_t n;
	if (ls == (size_t)~0) { tmp[0] = '['; memcpy(tmp + 1, s, sn); tmp[sn + 1] = ']'; ls = Mn; m_insert(Mn, mk_line(tmp, sn + 2)); }
	memcpy(tmp, k, kn); tmp[kn] = '='; memcpy(tmp + kn + 1, v, vn); n = kn + 1 + vn;
	rec_t r = mk_line(tmp, n);
	if (r.type != T_VAL || r.nsz != kn) { fprintf(stderr, "model: bad set line\n"); abort(); }
	if (f != (size_t)~0) { free(M[f].data); M[f] = r; }
	else {
		size_t p = ls + 1; while (p < Mn && M[p].type != T_SECT) p++;
		while (p > 0 && M[p - 1].type == T_EMPTY) p--;
		m_insert(p, r);
	}
	free(tmp);
}
static size_t m_gen(uint8_t **out) {
	size_t n = 0; for (size_t i = 0; i < Mn; i++) n += M[i].dsz + 2;
	uint8_t *b = malloc(n + 1), *p = b;
	for (size_t i = 0; i < Mn; i++) { memcpy(p, M[i].data, M[i].dsz); p += M[i].dsz; *p++ = '\r'; *p++ = '\n'; }
	*out = b; return n;
}
static void m_clear(void) { for (size_t i = 0; i < Mn; i++) free(M[i].data); Mn = 0; }

static unsigned long long rs;
static unsigned rnd(void) { rs = rs * 6364136223846793005ULL + 1442695040888963407ULL; return (unsigned)(rs >> 33); }

static const char *names[] = {"a", "A", "b", "ab", "Ab", " a", "a ", "a]b", "x\0y", "", "longer_name_here", "B", "]", "a[", "k;"};
static const size_t nlen[] = {1,1,1,2,2,2,2,3,3,0,16,1,1,2,2};
#define NN 15
static size_t rname(const uint8_t **p) { unsigned i = rnd() % NN; *p = (const uint8_t*)names[i]; return nlen[i]; }
static size_t rval(uint8_t *buf) {
	static const size_t lens[] = {0,0,1,2,5,14,15,16,17,18,30,31,32,33,34,60,100,200};
	size_t n = lens[rnd() % 18];
	for (size_t i = 0; i < n; i++) { uint8_t c = "abc =;#[]\0 xyz\t1"[rnd() % 16]; buf[i] = c; }
	return n;
}
static size_t rtext(uint8_t *buf) {
	static const char *tok[] = {"[a]", "[A]", "[b]", "[ab]", "[]", "[a]b]", "[a", "a=1", "A=2", "b=", "=v", "=", "ab=x=y", ";c", "#c=1", "junk", "", "", "\r", " a=sp", "a =sp", "[a] tail", "x\ry=1", "longer_name_here=vvvvvvvvvvvvvvvvvvvvvvvv", "a\r", "k;=1", "[ a]"};
	size_t n = 0, cnt = rnd() % 8;
	for (size_t i = 0; i < cnt; i++) {
		const char *t = tok[rnd() % 27]; size_t l = strlen(t);
		memcpy(buf + n, t, l); n += l;
		unsigned e = rnd() % 8;
		if (i + 1 == cnt && e == 0) break;
		if (e < 4) buf[n++] = '\n'; else { buf[n++] = '\r'; buf[n++] = '\n'; }
	}
	return n;
}
#define FAIL(...) do { printf("FAIL seed=%llu step=%d: ", seed0, step); printf(__VA_ARGS__); printf("\n"); return 1; } while (0)

static int check_all(ini_p ini, unsigned long long seed0, int step) {
	uint8_t *mg; size_t mn = m_gen(&mg), cs = 12345, gs = 0;
	if (0 != ini_buf_calc_size(ini, &cs)) FAIL("calc_size err");
	if (cs != mn) FAIL("calc_size %zu model %zu", cs, mn);
	uint8_t *g = malloc(cs + 1); g[cs] = 0xA5;
	int e = ini_buf_gen(ini, g, cs, &gs);
	if (e != 0 || gs != cs) FAIL("gen err %d gs %zu cs %zu", e, gs, cs);
	if (memcmp(g, mg, cs)) FAIL("gen text differs from model");
	if (cs > 0) { /* smaller buffer */
		size_t sm = rnd() % cs; uint8_t *g2 = malloc(sm ? sm : 1);
		e = ini_buf_gen(ini, g2, sm, &gs);
		if (e == 0) FAIL("gen into smaller ok");
		if (gs > sm) FAIL("gs > sm");
		free(g2);
	}
	/* reparse */
	ini_p i2; ini_create(&i2);
	if (cs && 0 != ini_buf_parse(i2, g, cs)) FAIL("reparse err");
	size_t cs2 = 0; ini_buf_calc_size(i2, &cs2);
	uint8_t *g3 = malloc(cs2 + 1);
	if (cs2 != cs) FAIL("reparse size %zu vs %zu", cs2, cs);
	ini_buf_gen(i2, g3, cs2, &gs);
	if (memcmp(g3, g, cs)) FAIL("reparse text differs");
	/* lookups on both */
	for (int t = 0; t < 2; t++) {
		ini_p I = t ? i2 : ini;
		for (unsigned a = 0; a < NN; a++) for (unsigned b = 0; b < NN; b++) {
			if (nlen[a] == 0 || nlen[b] == 0) continue; /* size 0 = cstr, known */
			for (int ci = 0; ci < 2; ci++) {
				size_t ls, f = m_find((const uint8_t*)names[a], nlen[a], (const uint8_t*)names[b], nlen[b], ci, &ls);
				const uint8_t *v = NULL; size_t vs = 0;
				e = ci ? ini_vali_get(I, (const uint8_t*)names[a], nlen[a], (const uint8_t*)names[b], nlen[b], &v, &vs)
				       : ini_val_get(I, (const uint8_t*)names[a], nlen[a], (const uint8_t*)names[b], nlen[b], &v, &vs);
				if (f == (size_t)~0) { if (e == 0) FAIL("get found, model not (%u,%u,ci%d)", a, b, ci); }
				else { if (e != 0) FAIL("get ENOENT, model has (%u,%u,ci%d)", a, b, ci);
					if (vs != M[f].vsz || memcmp(v, M[f].data + M[f].voff, vs)) FAIL("get value differs (%u,%u,ci%d)", a, b, ci); }
			}
		}
		/* enumeration in file order */
		size_t so = 0, mi = 0; const uint8_t *sn; size_t sns;
		while (0 == ini_sect_enum(I, &so, &sn, &sns)) {
			while (mi < Mn && M[mi].type != T_SECT) mi++;
			if (mi >= Mn || so != mi || sns != M[mi].nsz || memcmp(sn, M[mi].data + 1, sns)) FAIL("sect enum mismatch");
			size_t vo = 0, mj = mi + 1; const uint8_t *vn, *vv; size_t vns, vvs;
			while (0 == ini_sect_val_enum(I, so, &vo, &vn, &vns, &vv, &vvs)) {
				while (mj < Mn && M[mj].type != T_VAL && M[mj].type != T_SECT) mj++;
				if (mj >= Mn || M[mj].type != T_VAL || vo != mj || vns != M[mj].nsz || vvs != M[mj].vsz ||
				    memcmp(vn, M[mj].data, vns) || memcmp(vv, M[mj].data + M[mj].voff, vvs)) FAIL("val enum mismatch");
				vo++; mj++;
			}
			while (mj < Mn && M[mj].type != T_VAL && M[mj].type != T_SECT) mj++;
			if (mj < Mn && M[mj].type == T_VAL) FAIL("val enum short");
			so++; mi++;
		}
		while (mi < Mn && M[mi].type != T_SECT) mi++;
		if (mi < Mn) FAIL("sect enum short");
	}
	ini_destroy(i2); free(g); free(g3); free(mg);
	return 0;
}

int main(int argc, char **argv) {
	unsigned long long from = argc > 1 ? strtoull(argv[1], 0, 0) : 1, to = argc > 2 ? strtoull(argv[2], 0, 0) : 200;
	uint8_t vb[256], tb[1024];
	for (unsigned long long seed0 = from; seed0 <= to; seed0++) {
		rs = seed0 * 0x9E3779B97F4A7C15ULL; ini_p ini; ini_create(&ini); m_clear();
		int steps = 5 + rnd() % 120;
		for (int step = 0; step < steps; step++) {
			unsigned op = rnd() % 10;
			if (op < 2) { size_t n = rtext(tb); if (n) { uint8_t *c = malloc(n); memcpy(c, tb, n); if (0 != ini_buf_parse(ini, c, n)) FAIL("parse err"); free(c); m_parse(tb, n); } }
			else {
				const uint8_t *s, *k; size_t sn = rname(&s), kn = rname(&k), vn = rval(vb);
				if (sn == 0 || kn == 0) continue;
				int bad = memchr(k, '=', kn) || k[0] == ';' || k[0] == '#' || k[0] == '[';
				uint8_t *vc = malloc(vn ? vn : 1); memcpy(vc, vb, vn);
				int e = ini_val_set(ini, s, sn, k, kn, vn ? vc : (rnd() & 1 ? vc : NULL), vn);
				free(vc);
				if (bad) { if (e == 0) FAIL("bad set accepted"); }
				else { if (e) FAIL("set err %d", e); m_set(s, sn, k, kn, vb, vn); }
			}
			if (check_all(ini, seed0, step)) return 1;
		}
		ini_destroy(ini);
	}
	printf("OK seeds %llu..%llu\n", from, to);
	return 0;
}
