#include <sys/param.h>
#include <sys/types.h>
#include <inttypes.h>
#include <string.h>
#include <stdio.h>
#include <errno.h>
#include <stdlib.h>
#include "net/socket_address.h"
#include "net/utils.h"

/* On Linux a UNIX address may fill all 108 bytes of sun_path without a terminating NUL
 * (sa_addr_is_eq() allows for that by using strncmp(.., sizeof(sun_path))).
 * sa_addr_to_str()/sa_addr_port_to_str() hand sun_path to strlcpy(), which runs strlen()
 * on it: it reads past sun_path, appends whatever follows to the text and can leave the object. */
int main(void) {
	struct sockaddr_storage *ss = malloc(sizeof(*ss));
	char out[512];
	size_t n = 0;
	int e;

	memset(ss, 'X', sizeof(*ss)); /* sa_init() clears only sizeof(sockaddr_un) = 110 of the 128 bytes. */
	sa_init(ss, AF_UNIX, NULL, 0);
	memset(((struct sockaddr_un*)ss)->sun_path, 'a', sizeof(((struct sockaddr_un*)ss)->sun_path));
	((struct sockaddr_un*)ss)->sun_path[0] = '/';
	e = sa_addr_to_str(ss, out, sizeof(out), &n); /* ASan: heap-buffer-overflow (read) in strlen */
	printf("e = %d, n = %zu (sun_path holds 108 bytes)\n", e, n);
	free(ss); /* (added when replaying on the repaired tree: LeakSanitizer otherwise fails the run for the demo's own buffer) */
	if (108 != n) {
		printf("FAIL: text has %zu characters\n", n);
		return (1);
	}
	return (0);
}
