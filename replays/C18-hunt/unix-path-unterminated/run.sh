#!/bin/sh
# usage: run.sh <tree>   -- exits non-zero (prints FAIL) when the defect is present
T=${1:-/tmp/hunt/C18}
D=$(cd "$(dirname "$0")" && pwd)
O=$(mktemp -d)
F="-DHAVE_ACCEPT4 -DHAVE_EXPLICIT_BZERO -DHAVE_MEMMEM -DHAVE_MEMRCHR -DHAVE_PIPE2 -DHAVE_POSIX_SPAWN_FILE_ACTIONS_ADDCLOSEFROM_NP -DHAVE_PTHREAD_SETNAME_NP -DHAVE_REALLOCARRAY -DHAVE_SOCK_CLOEXEC -DHAVE_SOCK_NONBLOCK -DHAVE_STRNCASECMP -DLINUX -D_GNU_SOURCE -D__USE_GNU=1"
gcc -g -w -fsanitize=address,undefined -fno-sanitize-recover=undefined $F -I"$T/include" "$D/demo.c" "$T/src/net/socket_address.c" "$T/src/net/utils.c" -o "$O/demo" || { echo "BUILD ERROR"; exit 2; }
"$O/demo"; rc=$?
rm -rf "$O"
exit $rc
