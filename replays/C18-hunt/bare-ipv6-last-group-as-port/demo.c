#include <sys/param.h>
#include <sys/types.h>
#include <inttypes.h>
#include <string.h>
#include <stdio.h>
#include <errno.h>
#include <stdlib.h>
#include "net/socket_address.h"
#include "net/utils.h"

/* Text produced by sa_addr_to_str() for an IPv6 address (no brackets, no port) and given to
 * sa_addr_port_from_str(): "::1" and "2001:db8::" come back, but whenever the last group is not
 * preceded by "::" the group is taken for a port: the address changes or the text is refused. */
int main(void) {
	static const char *a[] = { "::1", "2001:db8::", "2001:db8::1:2", "2001:db8:0:1:1:2:3:4", "fe80::1:80", NULL };
	int fail = 0;
	for (int i = 0; a[i]; i ++) {
		struct sockaddr_storage s1, s2; char txt[128], back[128]; size_t n;
		sa_addr_from_str(&s1, a[i], strlen(a[i]));
		sa_addr_to_str(&s1, txt, sizeof(txt), &n);
		int e = sa_addr_port_from_str(&s2, txt, n);
		if (e) { printf("FAIL: \"%s\" refused (%d)\n", txt, e); fail ++; continue; }
		sa_addr_port_to_str(&s2, back, sizeof(back), NULL);
		if (!sa_addr_port_is_eq(&s1, &s2)) { printf("FAIL: \"%s\" parsed as %s\n", txt, back); fail ++; }
		else printf("ok:   \"%s\" -> %s\n", txt, back);
	}
	return (fail ? 1 : 0);
}
