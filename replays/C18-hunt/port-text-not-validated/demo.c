#include <sys/param.h>
#include <sys/types.h>
#include <inttypes.h>
#include <string.h>
#include <stdio.h>
#include <errno.h>
#include <stdlib.h>
#include "net/socket_address.h"
#include "net/utils.h"

/* sa_addr_port_from_str() must reject a port that is not a decimal number in 0..65535.
 * It feeds the text after ':' to str2u16(), which skips every non-digit and wraps modulo 65536. */
int main(void) {
	static const char *bad[] = {
		"1.2.3.4:65536", "1.2.3.4:99999", "1.2.3.4:http", "1.2.3.4:-1",
		"1.2.3.4:0x50", "1.2.3.4:8 0", "1.2.3.4:", "[::1]:65616", "[::1]:4294967376", NULL
	};
	int fail = 0;
	for (int i = 0; bad[i]; i ++) {
		struct sockaddr_storage ss;
		int e = sa_addr_port_from_str(&ss, bad[i], strlen(bad[i]));
		if (0 == e) {
			printf("FAIL: \"%s\" accepted, port = %u\n", bad[i], sa_port_get(&ss));
			fail ++;
		} else {
			printf("ok:   \"%s\" rejected (%d)\n", bad[i], e);
		}
	}
	return (fail ? 1 : 0);
}
