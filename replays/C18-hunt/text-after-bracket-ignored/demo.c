#include <sys/param.h>
#include <sys/types.h>
#include <inttypes.h>
#include <string.h>
#include <stdio.h>
#include <errno.h>
#include <stdlib.h>
#include "net/socket_address.h"
#include "net/utils.h"

/* sa_addr_port_from_str() takes the address from the text before the last ']' (or before the
 * port colon) and the port from the text after the last ':'; whatever stands between ']' and
 * ':' or after ']' is ignored, a ':' inside a UNIX path cuts the path, and any number of
 * unbalanced brackets is accepted.  The parser has to reject these or keep the whole text. */
static int t(const char *s, size_t len, const char *why) {
	struct sockaddr_storage ss; char out[256]; size_t n;
	int e = sa_addr_port_from_str(&ss, s, len);
	if (e) { printf("ok:   \"%s\" rejected (%d)\n", s, e); return 0; }
	sa_addr_port_to_str(&ss, out, sizeof(out), &n);
	printf("FAIL: \"%s\" accepted as \"%s\" (%s)\n", s, out, why);
	return 1;
}
int main(void) {
	int fail = 0;
	fail += t("[::1]garbage", 12, "text after ']' ignored");
	fail += t("[1.2.3.4]garbage", 16, "text after ']' ignored");
	fail += t("[::1]x:80", 9, "text between ']' and ':' ignored");
	fail += t("[::1]::", 7, "text after ']' ignored");
	fail += t("[[[::1:80", 9, "unbalanced brackets; '::1:80' is itself an IPv6 address");
	fail += t("1.2.3.4]]]:80", 13, "unbalanced brackets");
	fail += t("1.2.3.4\0junk", 12, "embedded NUL, rest ignored");
	/* UNIX address round trip */
	{
		struct sockaddr_storage a, b; char out[256]; size_t n;
		sa_init(&a, AF_UNIX, "/run/app:1/sock:ctl", 0);
		sa_addr_port_to_str(&a, out, sizeof(out), &n);
		if (0 == sa_addr_port_from_str(&b, out, n) && !sa_addr_is_eq(&a, &b)) {
			printf("FAIL: UNIX path \"%s\" parsed back as \"%s\"\n", out, ((struct sockaddr_un*)&b)->sun_path);
			fail ++;
		}
	}
	return (fail ? 1 : 0);
}
