#include <sys/param.h>
#include <sys/types.h>
#include <inttypes.h>
#include <string.h>
#include <stdio.h>
#include <errno.h>
#include <stdlib.h>
#include "net/socket_address.h"
#include "net/utils.h"

/* inet6_mask2len() looks only at the first 32 bit word that is not 0xffffffff and never
 * checks that the rest of the mask is zero, so non-contiguous masks get a prefix length
 * and len2mask(mask2len(m)) != m.  inet_mask2len() returns 0 for such masks. */
int main(void) {
	static const char *masks[] = {
		"ffff:ffff:8000:0:ffff:ffff:ffff:ffff", "ffff::ff00:0:0:0", "ffff:ffff::1", "::1", "0:0:0:0:ffff:ffff:ffff:ffff", NULL
	};
	int fail = 0;
	for (int i = 0; masks[i]; i ++) {
		struct in6_addr m, back;
		char txt[64];
		inet_pton(AF_INET6, masks[i], &m);
		int len = inet6_mask2len(&m);
		inet6_len2mask((size_t)len, &back);
		inet_ntop(AF_INET6, &back, txt, sizeof(txt));
		if (0 != len || 0 != memcmp(&m, &back, 16)) {
			if (0 != len) {
				printf("FAIL: inet6_mask2len(%s) = %d, but inet6_len2mask(%d) = %s\n", masks[i], len, len, txt);
				fail ++;
			} else
				printf("ok:   inet6_mask2len(%s) = 0 (invalid)\n", masks[i]);
		}
	}
	{ struct in_addr m4; m4.s_addr = htonl(0xff00ff00); printf("for comparison inet_mask2len(255.0.255.0) = %d\n", inet_mask2len(&m4)); }
	return (fail ? 1 : 0);
}
