#include <sys/param.h>
#include <sys/types.h>
#include <inttypes.h>
#include <string.h>
#include <stdio.h>
#include <errno.h>
#include <stdlib.h>
#include "net/socket_address.h"
#include "net/utils.h"

/* A UNIX path of 108..111 characters does not fit sun_path (108 bytes incl. NUL) but
 * sa_addr_from_str()/sa_addr_port_from_str() return 0 and store a truncated, different path. */
int main(void) {
	int fail = 0;
	for (size_t len = 106; len <= 112; len ++) {
		char path[128], out[256];
		struct sockaddr_storage ss;
		size_t n = 0;
		memset(path, 'a', len); path[0] = '/'; path[len - 1] = 'Z'; path[len] = 0;
		int e = sa_addr_from_str(&ss, path, len);
		if (e) { printf("ok:   len %zu rejected (%d)\n", len, e); continue; }
		sa_addr_to_str(&ss, out, sizeof(out), &n);
		if (strcmp(out, path)) {
			printf("FAIL: len %zu accepted, stored path has %zu chars (last char '%c', expected 'Z')\n",
			    len, n, out[n - 1]);
			fail ++;
		} else {
			printf("ok:   len %zu round trips\n", len);
		}
	}
	return (fail ? 1 : 0);
}
