#include <sys/param.h>
#include <sys/types.h>
#include <inttypes.h>
#include <string.h>
#include <stdio.h>
#include <errno.h>
#include <stdlib.h>
#include "net/socket_address.h"
#include "net/utils.h"

/* str_net_to_ss() must reject a prefix length that is not a decimal number in 0..32 (IPv4) / 0..128 (IPv6). */
int main(void) {
	static const char *bad[] = {
		"10.0.0.0/33", "10.0.0.0/65544", "10.0.0.0/", "10.0.0.0/x", "10.0.0.0/-8",
		"10.0.0.0/2 4", "2001:db8::/129", "2001:db8::/", "[2001:db8::]/65600", NULL
	};
	int fail = 0;
	for (int i = 0; bad[i]; i ++) {
		struct sockaddr_storage ss;
		uint16_t pl = 0xdead;
		int e = str_net_to_ss(bad[i], strlen(bad[i]), &ss, &pl);
		if (0 == e) {
			printf("FAIL: \"%s\" accepted, prefix length = %u\n", bad[i], pl);
			fail ++;
		} else {
			printf("ok:   \"%s\" rejected (%d)\n", bad[i], e);
		}
	}
	/* Consequence: "10.0.0.0/x" is network 0.0.0.0/0 after truncation: every address is a member. */
	{
		struct sockaddr_storage ss; uint16_t pl; struct in_addr mask, a;
		if (0 == str_net_to_ss("10.0.0.0/x", 10, &ss, &pl)) {
			net_addr_truncate_preflen(&ss, pl);
			inet_len2mask(pl, &mask);
			inet_pton(AF_INET, "203.0.113.7", &a);
			if (is_addr_in_net(AF_INET, (uint32_t*)&((struct sockaddr_in*)&ss)->sin_addr,
			    (uint32_t*)&mask, (uint32_t*)&a))
				printf("FAIL: 203.0.113.7 is a member of the net parsed from \"10.0.0.0/x\"\n");
		}
	}
	return (fail ? 1 : 0);
}
