#include <sys/param.h>
#include <sys/types.h>
#include <inttypes.h>
#include <string.h>
#include <stdio.h>
#include <errno.h>
#include <stdlib.h>
#include "net/socket_address.h"
#include "net/utils.h"

/* sa_addr_to_str(): a buffer that holds the text and its terminator must be enough
 * ("all output buffer sizes"). The function passes buf_size - 1 to inet_ntop(), so
 * the standard INET_ADDRSTRLEN buffer is refused for 255.255.255.255 and, in general,
 * strlen(text)+1 bytes are never enough for AF_INET/AF_INET6 (they are for AF_UNIX). */
int main(void) {
	int fail = 0;
	struct sockaddr_storage ss;
	char buf[INET_ADDRSTRLEN]; /* 16 */
	size_t n = 777;
	int e;

	sa_addr_from_str(&ss, "255.255.255.255", 15);
	e = sa_addr_to_str(&ss, buf, sizeof(buf), &n);
	if (0 != e) {
		printf("FAIL: sa_addr_to_str(255.255.255.255, buf[INET_ADDRSTRLEN=16]) = %d (%s), size_ret = %zu\n",
		    e, strerror(e), n);
		fail ++;
	}
	/* exact fit for other addresses and for the bracketed form */
	static const char *a[] = { "1.2.3.4", "::1", "2001:db8::1", "/tmp/s", NULL };
	for (int i = 0; a[i]; i ++) {
		size_t need = strlen(a[i]) + 1;
		char *b = malloc(need);
		sa_addr_from_str(&ss, a[i], strlen(a[i]));
		e = sa_addr_to_str(&ss, b, need, &n);
		printf("%s: sa_addr_to_str(\"%s\", %zu bytes) = %d\n", e ? "FAIL" : "ok  ", a[i], need, e);
		if (e && ss.ss_family != AF_UNIX) fail ++;
		free(b);
	}
	{ /* "[::1]" needs 6 bytes */
		char b6[6];
		sa_addr_from_str(&ss, "::1", 3);
		e = sa_addr_port_to_str(&ss, b6, sizeof(b6), &n);
		printf("%s: sa_addr_port_to_str(\"[::1]\", 6 bytes) = %d\n", e ? "FAIL" : "ok  ", e);
		if (e) fail ++;
	}
	return (fail ? 1 : 0);
}
