/* The clock of a timer (CLOCK_MONOTONIC for relative, CLOCK_REALTIME for
 * TP_FF_T_ABSTIME) is chosen once, when the timerfd is created.  A later
 * add/enable with the other kind of value passes TFD_TIMER_ABSTIME to a
 * CLOCK_MONOTONIC timer: "now + 200 ms" in epoch time is decades ahead on the
 * monotonic clock and the timer never fires, although the call returns 0. */
#include <sys/param.h>
#include <sys/types.h>
#include <sys/timerfd.h>
#include <inttypes.h>
#include <stdlib.h>
#include <stdio.h>
#include <unistd.h>
#include <string.h>
#include <errno.h>
#include <time.h>
#include "al/os.h"
#include "threadpool/threadpool.h"
#include "threadpool/threadpool_msg_sys.h"

static void msleep(unsigned ms) { struct timespec ts = { ms / 1000, (ms % 1000) * 1000000L }; nanosleep(&ts, NULL); }
static volatile int cnt;
static void cb(tp_event_p ev, tp_udata_p u) { (void)ev; (void)u; __sync_fetch_and_add(&cnt, 1); }

/* Link time wrappers: log what reaches the kernel. */
static int clk_of_fd[1024];
int __real_timerfd_create(int clockid, int flags);
int __wrap_timerfd_create(int clockid, int flags) {
	int fd = __real_timerfd_create(clockid, flags);
	if (0 <= fd && fd < 1024) clk_of_fd[fd] = clockid;
	printf("    timerfd_create(%s) = %d\n", (CLOCK_REALTIME == clockid) ? "CLOCK_REALTIME" : "CLOCK_MONOTONIC", fd);
	return (fd);
}
static int bad_abs_on_monotonic;
int __real_timerfd_settime(int fd, int flags, const struct itimerspec *n, struct itimerspec *o);
int __wrap_timerfd_settime(int fd, int flags, const struct itimerspec *n, struct itimerspec *o) {
	printf("    timerfd_settime(fd %d on %s, %s, value %lld.%09ld, interval %lld.%09ld)\n", fd,
	    (CLOCK_REALTIME == clk_of_fd[fd]) ? "CLOCK_REALTIME" : "CLOCK_MONOTONIC",
	    (0 != (TFD_TIMER_ABSTIME & flags)) ? "ABSTIME" : "relative",
	    (long long)n->it_value.tv_sec, n->it_value.tv_nsec,
	    (long long)n->it_interval.tv_sec, n->it_interval.tv_nsec);
	if (0 != (TFD_TIMER_ABSTIME & flags) && CLOCK_REALTIME != clk_of_fd[fd]) bad_abs_on_monotonic ++;
	return (__real_timerfd_settime(fd, flags, n, o));
}

static uint64_t now_ms(void) { struct timespec ts; clock_gettime(CLOCK_REALTIME, &ts); return ((uint64_t)ts.tv_sec * 1000 + (uint64_t)ts.tv_nsec / 1000000); }

int main(void) {
	tp_p tp; tp_settings_t s; tp_udata_t u; tpt_p tpt; int e, fail = 0;

	setvbuf(stdout, NULL, _IOLBF, 0);
	tp_settings_def(&s); s.threads_max = 1; s.flags = 0;
	if (0 != tp_create(&s, &tp)) return (2);
	tp_threads_create(tp, 0); msleep(100);
	tpt = tp_thread_get(tp, 0);

	/* Control: an absolute timer on a fresh tp_udata works. */
	memset(&u, 0, sizeof(u)); u.cb_func = cb; u.ident = 2000; cnt = 0;
	e = tpt_ev_add_args(tpt, TP_EV_TIMER, TP_F_DISPATCH, (TP_FF_T_MSEC | TP_FF_T_ABSTIME), now_ms() + 200, &u);
	msleep(600);
	printf("control: add(DISPATCH, ABSTIME now+200 ms) = %d, fired %d (expected 1)\n", e, cnt);
	if (1 != cnt) { printf("FAIL control\n"); fail = 1; }
	tpt_ev_del_args1(TP_EV_TIMER, &u);

	/* Relative dispatch timer fires, is then re-armed with an absolute time. */
	memset(&u, 0, sizeof(u)); u.cb_func = cb; u.ident = 2001; cnt = 0;
	e = tpt_ev_add_args(tpt, TP_EV_TIMER, TP_F_DISPATCH, TP_FF_T_MSEC, 50, &u);
	msleep(300);
	printf("A: add(DISPATCH, relative 50 ms) = %d, fired %d (expected 1)\n", e, cnt);
	cnt = 0;
	e = tpt_ev_enable_args(1, TP_EV_TIMER, TP_F_DISPATCH, (TP_FF_T_MSEC | TP_FF_T_ABSTIME), now_ms() + 200, &u);
	msleep(1500);
	printf("A: enable(DISPATCH, ABSTIME now+200 ms) = %d, fired %d within 1.5 s (expected 1)\n", e, cnt);
	if (0 == e && 1 != cnt) { printf("FAIL A: absolute time programmed on the CLOCK_MONOTONIC timerfd, accepted but never fires\n"); fail = 1; }
	if (0 != bad_abs_on_monotonic) { printf("FAIL A: TFD_TIMER_ABSTIME reached a CLOCK_MONOTONIC timer %d time(s)\n", bad_abs_on_monotonic); fail = 1; }
	tpt_ev_del_args1(TP_EV_TIMER, &u);

	tp_shutdown(tp); tp_shutdown_wait(tp); tp_destroy(tp);
	printf(fail ? "RESULT: FAIL\n" : "RESULT: OK\n");
	return (fail);
}
