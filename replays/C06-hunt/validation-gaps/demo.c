/* tpt_ev_validate lets malformed registrations through:
 * A: flag bits 2 and 3 (TP_F_EDGE / TP_F_EXCLUSIVE, both under #if 0, i.e.
 *    undefined in this build) pass the "unknown bits" test because
 *    TP_F_S_MASK is 0x000f; bit 3 does not even fit the 3 bit flags slot of
 *    tpdata.
 * B: a TP_EV_PROC identifier above INT_MAX is not refused: it is cut to
 *    pid_t, so 2^32 + pid watches process pid.
 * C: TP_FF_RW_LOWAT with data above UINT32_MAX is cut to 32 bits
 *    (2^32 + 1 -> SO_RCVLOWAT 1, 2^32 -> 0 -> 1). */
#include <sys/param.h>
#include <sys/types.h>
#include <sys/socket.h>
#include <sys/wait.h>
#include <inttypes.h>
#include <stdlib.h>
#include <stdio.h>
#include <unistd.h>
#include <string.h>
#include <errno.h>
#include <time.h>
#include "al/os.h"
#include "threadpool/threadpool.h"
#include "threadpool/threadpool_msg_sys.h"

static void msleep(unsigned ms) { struct timespec ts = { ms / 1000, (ms % 1000) * 1000000L }; nanosleep(&ts, NULL); }
static volatile int cnt;
static void cb(tp_event_p ev, tp_udata_p u) { (void)ev; (void)u; __sync_fetch_and_add(&cnt, 1); }

int main(void) {
	tp_p tp; tp_settings_t s; tp_udata_t u; tpt_p tpt; int e, fail = 0, sv[2], lw; socklen_t l; pid_t pid;

	tp_settings_def(&s); s.threads_max = 1; s.flags = 0;
	if (0 != tp_create(&s, &tp)) return (2);
	tp_threads_create(tp, 0); msleep(100);
	tpt = tp_thread_get(tp, 0);
	if (0 != socketpair(AF_UNIX, SOCK_STREAM, 0, sv)) return (2);

	/* A */
	for (unsigned f = 4; f <= 12; f += 4) {
		memset(&u, 0, sizeof(u)); u.cb_func = cb; u.ident = (uintptr_t)sv[0];
		e = tpt_ev_add_args(tpt, TP_EV_READ, (uint16_t)f, 0, 0, &u);
		printf("A: add(READ, flags 0x%04x) = %d (expected EINVAL = %d)\n", f, e, EINVAL);
		if (0 == e) { printf("FAIL A: undefined flag bits accepted\n"); fail = 1; tpt_ev_del_args1(TP_EV_READ, &u); }
		memset(&u, 0, sizeof(u)); u.cb_func = cb; u.ident = 5000;
		e = tpt_ev_add_args(tpt, TP_EV_TIMER, (uint16_t)f, TP_FF_T_SEC, 100, &u);
		printf("A: add(TIMER, flags 0x%04x) = %d (expected EINVAL = %d)\n", f, e, EINVAL);
		if (0 == e) { printf("FAIL A: undefined flag bits accepted\n"); fail = 1; tpt_ev_del_args1(TP_EV_TIMER, &u); }
	}

	/* B */
	pid = fork();
	if (0 == pid) { msleep(200); _exit(3); }
	memset(&u, 0, sizeof(u)); u.cb_func = cb; u.ident = (((uintptr_t)1) << 32) + (uintptr_t)pid; cnt = 0;
	e = tpt_ev_add_args(tpt, TP_EV_PROC, 0, 0, 0, &u);
	msleep(500);
	printf("B: add(PROC, ident 2^32 + %d) = %d (expected an error), callbacks = %d\n", (int)pid, e, cnt);
	if (0 == e) { printf("FAIL B: out of range process identifier accepted and cut to pid_t\n"); fail = 1; }
	waitpid(pid, NULL, 0);

	/* C */
	memset(&u, 0, sizeof(u)); u.cb_func = cb; u.ident = (uintptr_t)sv[0];
	e = tpt_ev_add_args(tpt, TP_EV_READ, 0, TP_FF_RW_LOWAT, ((((uint64_t)1) << 32) + 1), &u);
	lw = 0; l = sizeof(lw); getsockopt(sv[0], SOL_SOCKET, SO_RCVLOWAT, &lw, &l);
	printf("C: add(READ, LOWAT, data 2^32 + 1) = %d, SO_RCVLOWAT = %d (expected an error or the largest mark)\n", e, lw);
	if (0 == e && 1 == lw) { printf("FAIL C: low water mark cut to 32 bits\n"); fail = 1; }
	tpt_ev_del_args1(TP_EV_READ, &u);

	tp_shutdown(tp); tp_shutdown_wait(tp); tp_destroy(tp);
	printf(fail ? "RESULT: FAIL\n" : "RESULT: OK\n");
	return (fail);
}
