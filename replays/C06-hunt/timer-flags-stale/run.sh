#!/bin/sh
# usage: run.sh <tree>
D=$(cd "$(dirname "$0")" && pwd); T=${1:?tree}
. "$D/../build.inc"
TMPD=$(mktemp -d)
build "$T" "$D/demo.c" "$TMPD/demo" || exit 2
"$TMPD/demo"; rc=$?
rm -rf "$TMPD"
exit $rc
