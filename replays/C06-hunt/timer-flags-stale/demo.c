/* The mode flags (ONESHOT/DISPATCH/persistent) of a timer are remembered in
 * tp_udata->tpdata only when the timerfd is created.  Every later
 * add/enable re-programs it_interval from the NEW flags but tpt_loop keeps
 * acting on the OLD ones. */
#include <sys/param.h>
#include <sys/types.h>
#include <sys/resource.h>
#include <inttypes.h>
#include <stdlib.h>
#include <stdio.h>
#include <unistd.h>
#include <string.h>
#include <errno.h>
#include <time.h>
#include "al/os.h"
#include "threadpool/threadpool.h"
#include "threadpool/threadpool_msg_sys.h"

static void msleep(unsigned ms) { struct timespec ts = { ms / 1000, (ms % 1000) * 1000000L }; nanosleep(&ts, NULL); }
static volatile int cnt;
static void cb(tp_event_p ev, tp_udata_p u) { (void)ev; (void)u; __sync_fetch_and_add(&cnt, 1); }
static double cpu_now(void) { struct timespec ts; clock_gettime(CLOCK_PROCESS_CPUTIME_ID, &ts); return ts.tv_sec + ts.tv_nsec / 1e9; }

int main(void) {
	tp_p tp; tp_settings_t s; tp_udata_t u; tpt_p tpt; int e, fail = 0; double c0, c1;

	tp_settings_def(&s); s.threads_max = 1; s.flags = 0;
	if (0 != tp_create(&s, &tp)) return (2);
	tp_threads_create(tp, 0); msleep(100);
	tpt = tp_thread_get(tp, 0);

	/* A: one-shot timer far in the future, converted to a 50 ms periodic one. */
	memset(&u, 0, sizeof(u)); u.cb_func = cb; u.ident = 1001; cnt = 0;
	e = tpt_ev_add_args(tpt, TP_EV_TIMER, TP_F_ONESHOT, TP_FF_T_SEC, 3600, &u);
	printf("A: add(ONESHOT, 3600 s) = %d\n", e);
	e = tpt_ev_enable_args(1, TP_EV_TIMER, 0, TP_FF_T_MSEC, 50, &u);
	printf("A: enable(flags 0 = periodic, 50 ms) = %d\n", e);
	msleep(1030);
	e = tpt_ev_del_args1(TP_EV_TIMER, &u);
	printf("A: callbacks in 1 s = %d (expected about 20), del = %d (expected 0)\n", cnt, e);
	if (cnt < 15 || 0 != e) { printf("FAIL A: persistent timer fired once and was deleted as a one-shot\n"); fail = 1; }

	/* B: dispatch timer fired, then re-enabled as periodic. */
	memset(&u, 0, sizeof(u)); u.cb_func = cb; u.ident = 1002; cnt = 0;
	e = tpt_ev_add_args(tpt, TP_EV_TIMER, TP_F_DISPATCH, TP_FF_T_MSEC, 20, &u);
	msleep(200);
	printf("B: add(DISPATCH, 20 ms) = %d, fired %d (expected 1)\n", e, cnt);
	cnt = 0;
	e = tpt_ev_enable_args(1, TP_EV_TIMER, 0, TP_FF_T_MSEC, 50, &u);
	printf("B: enable(flags 0 = periodic, 50 ms) = %d\n", e);
	c0 = cpu_now();
	msleep(1030);
	c1 = cpu_now();
	printf("B: callbacks in 1 s = %d (expected about 20), CPU used = %.2f s\n", cnt, c1 - c0);
	if (cnt < 15) { printf("FAIL B: persistent timer went silent after one expiration\n"); fail = 1; }
	if (c1 - c0 > 0.5) { printf("FAIL B: pool thread spins in epoll_wait on the unread timerfd\n"); fail = 1; }
	tpt_ev_del_args1(TP_EV_TIMER, &u);
	msleep(100); /* Deleted from outside the pool thread: let it settle. */

	/* C: periodic timer re-armed as one-shot: must be gone after it fired. */
	memset(&u, 0, sizeof(u)); u.cb_func = cb; u.ident = 1003; cnt = 0;
	e = tpt_ev_add_args(tpt, TP_EV_TIMER, 0, TP_FF_T_SEC, 3600, &u);
	e = tpt_ev_enable_args(1, TP_EV_TIMER, TP_F_ONESHOT, TP_FF_T_MSEC, 50, &u);
	msleep(300);
	e = tpt_ev_del_args1(TP_EV_TIMER, &u);
	printf("C: one-shot fired %d (expected 1), del afterwards = %d (expected ENOENT = %d), tpdata was %s\n",
	    cnt, e, ENOENT, (0 == e) ? "still set (timerfd leaked until del)" : "cleared");
	if (1 != cnt || 0 == e) { printf("FAIL C: fired one-shot is not gone\n"); fail = 1; }

	tp_shutdown(tp); tp_shutdown_wait(tp); tp_destroy(tp);
	printf(fail ? "RESULT: FAIL\n" : "RESULT: OK\n");
	return (fail);
}
