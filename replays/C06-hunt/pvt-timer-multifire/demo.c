/* A timer registered on the pool virtual thread (tp_thread_get_pvt(), as
 * upnp_ssdp.c and dns_resolv.c do) is added to the shared epoll level
 * triggered.  One expiration wakes every worker; each of them fetches the
 * same event from the shared epoll, tpt_loop ignores the result of
 * read(timerfd) and calls the callback although the read failed with EAGAIN
 * because another worker already consumed the expiration. */
#include <sys/param.h>
#include <sys/types.h>
#include <inttypes.h>
#include <stdlib.h>
#include <stdio.h>
#include <unistd.h>
#include <string.h>
#include <errno.h>
#include <time.h>
#include "al/os.h"
#include "threadpool/threadpool.h"
#include "threadpool/threadpool_msg_sys.h"

static void msleep(unsigned ms) { struct timespec ts = { ms / 1000, (ms % 1000) * 1000000L }; nanosleep(&ts, NULL); }
static volatile int cnt;
static void cb(tp_event_p ev, tp_udata_p u) { (void)ev; (void)u; __sync_fetch_and_add(&cnt, 1); }

int main(void) {
	tp_p tp; tp_settings_t s; tp_udata_t u; tpt_p pvt; int e, i, fail = 0, tot;

	tp_settings_def(&s); s.threads_max = 8; s.flags = 0;
	if (0 != tp_create(&s, &tp)) return (2);
	tp_threads_create(tp, 0); msleep(200);
	pvt = tp_thread_get_pvt(tp);

	/* A: periodic 50 ms timer for about one second. */
	memset(&u, 0, sizeof(u)); u.cb_func = cb; u.ident = 3001; cnt = 0;
	e = tpt_ev_add_args(pvt, TP_EV_TIMER, 0, TP_FF_T_MSEC, 50, &u);
	msleep(1020);
	tpt_ev_del_args1(TP_EV_TIMER, &u);
	msleep(50);
	printf("A: add(pvt, periodic 50 ms) = %d, callbacks in 1.02 s = %d (expected 20)\n", e, cnt);
	if (cnt > 21) { printf("FAIL A: one expiration is delivered to several workers\n"); fail = 1; }

	/* B: 50 dispatch timers, 5 ms each: each must fire exactly once. */
	tot = 0;
	for (i = 0; i < 50; i ++) {
		memset(&u, 0, sizeof(u)); u.cb_func = cb; u.ident = 3100 + (uintptr_t)i; cnt = 0;
		e = tpt_ev_add_args(pvt, TP_EV_TIMER, TP_F_DISPATCH, TP_FF_T_MSEC, 5, &u);
		msleep(40);
		tpt_ev_del_args1(TP_EV_TIMER, &u);
		msleep(5);
		tot += cnt;
	}
	printf("B: 50 x add(pvt, DISPATCH 5 ms): callbacks = %d (expected 50)\n", tot);
	if (50 != tot) { printf("FAIL B: a dispatch timer fired more than once\n"); fail = 1; }

	tp_shutdown(tp); tp_shutdown_wait(tp); tp_destroy(tp);
	printf(fail ? "RESULT: FAIL\n" : "RESULT: OK\n");
	return (fail);
}
