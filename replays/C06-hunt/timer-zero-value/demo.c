/* A timer armed with the value 0 (any unit, any mode) is accepted with
 * status 0 and marked enabled, but timerfd_settime() with it_value = 0
 * DISARMS the timer: the callback never runs.  kqueue (the reference
 * behaviour of this API) fires a 0 one-shot at once and treats a 0 period
 * as 1 unit; refusing with EINVAL would also satisfy the property. */
#include <sys/param.h>
#include <sys/types.h>
#include <inttypes.h>
#include <stdlib.h>
#include <stdio.h>
#include <unistd.h>
#include <string.h>
#include <errno.h>
#include <time.h>
#include "al/os.h"
#include "threadpool/threadpool.h"
#include "threadpool/threadpool_msg_sys.h"

static void msleep(unsigned ms) { struct timespec ts = { ms / 1000, (ms % 1000) * 1000000L }; nanosleep(&ts, NULL); }
static volatile int cnt;
static void cb(tp_event_p ev, tp_udata_p u) { (void)ev; (void)u; __sync_fetch_and_add(&cnt, 1); }

int main(void) {
	tp_p tp; tp_settings_t s; tp_udata_t u; tpt_p tpt; int e, fail = 0;
	static const uint16_t fl[3] = { 0, TP_F_ONESHOT, TP_F_DISPATCH };
	static const char *fln[3] = { "persistent", "ONESHOT", "DISPATCH" };

	tp_settings_def(&s); s.threads_max = 1; s.flags = 0;
	if (0 != tp_create(&s, &tp)) return (2);
	tp_threads_create(tp, 0); msleep(100);
	tpt = tp_thread_get(tp, 0);

	for (int i = 0; i < 3; i ++) {
		for (uint32_t unit = TP_FF_T_SEC; unit <= TP_FF_T_NSEC; unit ++) {
			memset(&u, 0, sizeof(u)); u.cb_func = cb; u.ident = 4000; cnt = 0;
			e = tpt_ev_add_args(tpt, TP_EV_TIMER, fl[i], unit, 0, &u);
			msleep(150);
			printf("add(TIMER, %s, 0 %s) = %d, callbacks in 150 ms = %d, tpdata = %016"PRIx64"\n",
			    fln[i], tp_ff_time_units[unit], e, cnt, u.tpdata);
			if (0 == e && 0 == cnt) {
				printf("FAIL: accepted and enabled, but the timer is disarmed and never fires\n");
				fail = 1;
			}
			tpt_ev_del_args1(TP_EV_TIMER, &u);
		}
	}

	tp_shutdown(tp); tp_shutdown_wait(tp); tp_destroy(tp);
	printf(fail ? "RESULT: FAIL\n" : "RESULT: OK\n");
	return (fail);
}
