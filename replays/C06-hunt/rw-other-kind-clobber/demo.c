/* Read/write branch of tpt_ev_post (Linux): the event kind given to
 * disable/delete is not compared with the kind that is registered.
 * Disabling or deleting TP_EV_WRITE on an identifier that only has
 * TP_EV_READ registered returns 0 and silences / removes the READ
 * registration (kqueue answers ENOENT and leaves READ alone).
 * Disabling an identifier that was never registered returns 0 and INSTALLS
 * it in epoll (the timer and process branches return ENOENT). */
#include <sys/param.h>
#include <sys/types.h>
#include <sys/socket.h>
#include <inttypes.h>
#include <stdlib.h>
#include <stdio.h>
#include <unistd.h>
#include <string.h>
#include <errno.h>
#include <time.h>
#include "al/os.h"
#include "threadpool/threadpool.h"
#include "threadpool/threadpool_msg_sys.h"

static void msleep(unsigned ms) { struct timespec ts = { ms / 1000, (ms % 1000) * 1000000L }; nanosleep(&ts, NULL); }
static volatile int cnt;
static void cb(tp_event_p ev, tp_udata_p u) { char b[16]; (void)ev; recv((int)u->ident, b, sizeof(b), MSG_DONTWAIT); __sync_fetch_and_add(&cnt, 1); }

int main(void) {
	tp_p tp; tp_settings_t s; tp_udata_t u; tpt_p tpt; int e, e2, fail = 0, sv[2];

	tp_settings_def(&s); s.threads_max = 1; s.flags = 0;
	if (0 != tp_create(&s, &tp)) return (2);
	tp_threads_create(tp, 0); msleep(100);
	tpt = tp_thread_get(tp, 0);
	if (0 != socketpair(AF_UNIX, SOCK_STREAM, 0, sv)) return (2);

	/* A: disable the kind that is not registered. */
	memset(&u, 0, sizeof(u)); u.cb_func = cb; u.ident = (uintptr_t)sv[0]; cnt = 0;
	e = tpt_ev_add_args(tpt, TP_EV_READ, 0, 0, 0, &u);
	e2 = tpt_ev_enable_args1(0, TP_EV_WRITE, &u);
	write(sv[1], "x", 1); msleep(200);
	printf("A: add(READ) = %d, disable(WRITE) = %d (expected ENOENT), data sent: READ callbacks = %d (expected 1)\n", e, e2, cnt);
	if (1 != cnt) { printf("FAIL A: the registered and enabled READ event does not fire\n"); fail = 1; }

	/* B: delete the kind that is not registered. */
	e = tpt_ev_enable_args1(1, TP_EV_READ, &u); msleep(100); cnt = 0;
	e = tpt_ev_del_args1(TP_EV_WRITE, &u);
	write(sv[1], "y", 1); msleep(200);
	e2 = tpt_ev_del_args1(TP_EV_READ, &u);
	printf("B: del(WRITE) = %d (expected ENOENT), READ callbacks afterwards = %d (expected 1), del(READ) = %d (expected 0)\n", e, cnt, e2);
	if (0 == e || 1 != cnt || 0 != e2) { printf("FAIL B: deleting WRITE removed the READ registration\n"); fail = 1; }
	{ char b[16]; recv(sv[0], b, sizeof(b), MSG_DONTWAIT); }

	/* C: disable something that was never registered. */
	memset(&u, 0, sizeof(u)); u.cb_func = cb; u.ident = (uintptr_t)sv[0]; u.tpt = tpt;
	e = tpt_ev_enable_args1(0, TP_EV_READ, &u);
	e2 = tpt_ev_del_args1(TP_EV_READ, &u);
	printf("C: disable(READ) on a never registered identifier = %d (expected ENOENT), del afterwards = %d (0 = it was installed in epoll)\n", e, e2);
	if (0 == e) { printf("FAIL C: disable installed a registration\n"); fail = 1; }

	tp_shutdown(tp); tp_shutdown_wait(tp); tp_destroy(tp);
	printf(fail ? "RESULT: FAIL\n" : "RESULT: OK\n");
	return (fail);
}
