/* tpt_loop deletes a fired TP_F_ONESHOT read/write event with
 * epoll_ctl(tpt->io_fd, EPOLL_CTL_DEL, ...), tpt being the worker that runs
 * the loop.  For an event registered on the pool virtual thread
 * (tp_thread_get_pvt()) the registration lives in pvt->io_fd
 * (tp_udata->tpt->io_fd): the delete fails with ENOENT (ignored) and the
 * "gone" one-shot stays installed in the shared epoll. */
#include <sys/param.h>
#include <sys/types.h>
#include <sys/socket.h>
#include <sys/epoll.h>
#include <inttypes.h>
#include <stdlib.h>
#include <stdio.h>
#include <unistd.h>
#include <string.h>
#include <errno.h>
#include <time.h>
#include "al/os.h"
#include "threadpool/threadpool.h"
#include "threadpool/threadpool_msg_sys.h"

static void msleep(unsigned ms) { struct timespec ts = { ms / 1000, (ms % 1000) * 1000000L }; nanosleep(&ts, NULL); }
static volatile int cnt;
static void cb(tp_event_p ev, tp_udata_p u) { (void)ev; (void)u; __sync_fetch_and_add(&cnt, 1); }

static int del_failed;
int __real_epoll_ctl(int epfd, int op, int fd, struct epoll_event *event);
int __wrap_epoll_ctl(int epfd, int op, int fd, struct epoll_event *event) {
	int rc = __real_epoll_ctl(epfd, op, fd, event);
	if (EPOLL_CTL_DEL == op) {
		printf("    epoll_ctl(epfd %d, EPOLL_CTL_DEL, fd %d) = %d%s\n", epfd, fd, rc, (0 != rc) ? " (ENOENT)" : "");
		if (0 != rc) del_failed ++;
	}
	return (rc);
}

static int run(tp_p tp, tpt_p tpt, const char *name, int *sv) {
	tp_udata_t u; int e, e2; char b[8];

	memset(&u, 0, sizeof(u)); u.cb_func = cb; u.ident = (uintptr_t)sv[0]; cnt = 0; del_failed = 0;
	e = tpt_ev_add_args(tpt, TP_EV_READ, TP_F_ONESHOT, 0, 0, &u);
	write(sv[1], "x", 1); msleep(200);
	printf("%s: add(READ, ONESHOT) = %d, fired %d\n", name, e, cnt);
	e2 = tpt_ev_del_args1(TP_EV_READ, &u);
	printf("%s: del after the one-shot fired = %d (expected ENOENT = %d: it is gone)\n", name, e2, ENOENT);
	recv(sv[0], b, sizeof(b), MSG_DONTWAIT);
	(void)tp;
	return (0 == e2); /* 0: the registration was still there. */
}

int main(void) {
	tp_p tp; tp_settings_t s; int fail = 0, sv[2];

	setvbuf(stdout, NULL, _IOLBF, 0);
	tp_settings_def(&s); s.threads_max = 2; s.flags = 0;
	if (0 != tp_create(&s, &tp)) return (2);
	tp_threads_create(tp, 0); msleep(100);
	if (0 != socketpair(AF_UNIX, SOCK_STREAM, 0, sv)) return (2);

	if (0 != run(tp, tp_thread_get(tp, 0), "thread 0", sv)) { printf("FAIL control\n"); fail = 1; }
	if (0 != run(tp, tp_thread_get_pvt(tp), "pvt", sv)) {
		printf("FAIL pvt: the fired one-shot was deleted from the wrong epoll descriptor and is still installed\n");
		fail = 1;
	}

	tp_shutdown(tp); tp_shutdown_wait(tp); tp_destroy(tp);
	printf(fail ? "RESULT: FAIL\n" : "RESULT: OK\n");
	return (fail);
}
