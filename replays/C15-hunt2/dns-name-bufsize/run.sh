#!/bin/sh
. "$(dirname "$0")/../common.sh"
clang -g -O1 -w -fsanitize=address,undefined $FL "$HERE/demo.c" -o "$OUT/demo" || exit 2
"$OUT/demo"; rc=$?
rm -rf "$OUT"
[ $rc -eq 0 ] && echo PASS || echo FAIL
exit $rc
