/* dns_msg_sequence_of_labels2name() (and so dns_msg_question_get_data /
 * dns_msg_rr_get_data) refuses a name buffer of exactly name_len + 1 bytes and
 * the 'required len' it returns with EOVERFLOW is not enough either. */
#include <sys/param.h>
#include <sys/types.h>
#include <inttypes.h>
#include <string.h>
#include <stdio.h>
#include <stdlib.h>
#include <errno.h>
#include "proto/dns.h"

int
main(void) {
	uint8_t buf[1024], name[253], *out;
	dns_hdr_p h = (dns_hdr_p)buf;
	size_t sz = 0, nl, need, i, qs;
	uint16_t t, c;
	int e, fail = 0;

	/* 253 byte host name: 3 labels of 63 + one of 61. */
	for (i = 0; i < sizeof(name); i ++)
		name[i] = ((63 == (i % 64)) ? '.' : (uint8_t)('a' + (i % 26)));
	dns_hdr_create(1, 0, h, sizeof(buf), &sz);
	e = dns_msg_question_add(h, sz, sizeof(buf), 0, name, sizeof(name), 1, 1, &sz);
	printf("question_add(253 byte name) = %d, validate = %d\n", e, dns_msg_validate(h, sz));
	if (0 != e)
		return (2);

	/* Buffer for the name and its terminating zero. */
	out = malloc(254);
	nl = 254;
	e = dns_msg_question_get_data(h, sz, sizeof(dns_hdr_t), out, &nl, &t, &c, &qs);
	printf("get_data into 254 bytes (253 + NUL) = %d (%s), size reported = %zu\n", e, strerror(e), nl);
	if (0 != e) {
		printf("FAIL: a 253 byte name does not parse back into a 254 byte buffer\n");
		fail ++;
	}
	free(out);

	/* Follow the size the function reports. */
	need = 1;
	for (i = 0; i < 8; i ++) {
		out = malloc(need);
		nl = need;
		e = dns_msg_question_get_data(h, sz, sizeof(dns_hdr_t), out, &nl, &t, &c, &qs);
		printf("  buffer %zu -> %d, reported %zu\n", need, e, nl);
		free(out);
		if (EOVERFLOW != e)
			break;
		if (nl == need) {
			printf("FAIL: EOVERFLOW reports %zu as the required size for a %zu byte buffer\n", nl, need);
			fail ++;
			break;
		}
		need = nl;
	}
	return (fail ? 1 : 0);
}
