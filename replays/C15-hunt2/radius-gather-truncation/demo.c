/* radius_pkt_attr_get_data_to_buf() returns 0 after silently dropping the
 * attributes that did not fit into the caller's buffer. */
#include <sys/param.h>
#include <sys/types.h>
#include <inttypes.h>
#include <string.h>
#include <stdio.h>
#include <stdlib.h>
#include <errno.h>
#include "proto/radius.h"

int
main(void) {
	_Alignas(8) uint8_t pb[4096];
	rad_pkt_hdr_p p = (rad_pkt_hdr_p)pb;
	size_t ps = 0, ol = 0;
	uint8_t ra[16] = { 0 }, d[253], out[600];
	int e, k;

	radius_pkt_init(p, sizeof(pb), &ps, RADIUS_PKT_TYPE_ACCESS_REQUEST, 1, ra);
	for (k = 0; k < 3; k ++) { /* One 759 byte EAP packet in three EAP-Message attributes. */
		memset(d, ('A' + k), sizeof(d));
		if (0 != radius_pkt_attr_add(p, sizeof(pb), &ps, RADIUS_ATTR_TYPE_EAP_MSG, 253, d, NULL))
			return (2);
	}
	e = radius_pkt_attr_get_data_to_buf(p, 0, 0, RADIUS_ATTR_TYPE_EAP_MSG, out, sizeof(out), &ol);
	printf("get_data_to_buf(all EAP-Message, 600 byte buffer) = %d, size = %zu (packet holds 759)\n", e, ol);
	if (0 == e && 759 != ol) {
		printf("FAIL: success reported, third attribute silently dropped\n");
		return (1);
	}
	return (0);
}
