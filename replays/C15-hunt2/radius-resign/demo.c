/* radius_pkt_sign() is not repeatable: a second call on the same packet
 * (what src/proto/radius_client.c radius_client_send_new() does at its
 * sign_and_send label every time the query moves to the next server, after it
 * has overwritten the packet id) un-hides the User-Password and/or fails. */
#include <sys/param.h>
#include <sys/types.h>
#include <inttypes.h>
#include <string.h>
#include <stdio.h>
#include <stdlib.h>
#include <errno.h>
#include "proto/radius.h"

static int
contains(const uint8_t *hay, size_t hl, const char *needle) {
	return (NULL != memmem(hay, hl, needle, strlen(needle)));
}

int
main(void) {
	_Alignas(8) uint8_t pb[4096], cp[4096];
	rad_pkt_hdr_p p = (rad_pkt_hdr_p)pb;
	size_t ps = 0, off = 0, dl = 0;
	uint8_t ra[16], ty, *dp;
	uint8_t *sec = (uint8_t*)"sharedsecret";
	int e, fail = 0, i;

	for (i = 0; i < 16; i ++)
		ra[i] = (uint8_t)(i * 7 + 1);
	radius_pkt_init(p, sizeof(pb), &ps, RADIUS_PKT_TYPE_ACCESS_REQUEST, 1, ra);
	radius_pkt_attr_add(p, sizeof(pb), &ps, RADIUS_ATTR_TYPE_USER_NAME, 3, (uint8_t*)"bob", NULL);
	radius_pkt_attr_add(p, sizeof(pb), &ps, RADIUS_ATTR_TYPE_USER_PASSWORD, 8, (uint8_t*)"hunter22", NULL);

	/* First server. */
	e = radius_pkt_sign(p, sizeof(pb), &ps, sec, 12, 1);
	printf("1st sign(add_msg_authr=1) = %d, cleartext password in packet: %d\n",
	    e, contains(pb, ps, "hunter22"));
	if (0 != e || contains(pb, ps, "hunter22"))
		return (2); /* unexpected */

	/* Second server (same secret), exactly as radius_client_send_new(): new id, sign again with add_msg_authr=1. */
	p->id = 2;
	e = radius_pkt_sign(p, sizeof(pb), &ps, sec, 12, 1);
	printf("2nd sign(add_msg_authr=1) = %d (%s), cleartext password in packet: %d\n",
	    e, strerror(e), contains(pb, ps, "hunter22"));
	if (0 != e) {
		printf("FAIL: re-sign for the next server is refused\n");
		fail ++;
	}
	if (contains(pb, ps, "hunter22")) {
		printf("FAIL: User-Password is now in clear text in the packet\n");
		fail ++;
	}

	/* Fresh packet; caller that knows MA is already there passes add_msg_authr=0 for the re-sign. */
	radius_pkt_init(p, sizeof(pb), &ps, RADIUS_PKT_TYPE_ACCESS_REQUEST, 1, ra);
	radius_pkt_attr_add(p, sizeof(pb), &ps, RADIUS_ATTR_TYPE_USER_NAME, 3, (uint8_t*)"bob", NULL);
	radius_pkt_attr_add(p, sizeof(pb), &ps, RADIUS_ATTR_TYPE_USER_PASSWORD, 8, (uint8_t*)"hunter22", NULL);
	radius_pkt_sign(p, sizeof(pb), &ps, sec, 12, 1);
	p->id = 2;
	e = radius_pkt_sign(p, sizeof(pb), &ps, sec, 12, 0);
	printf("re-sign(add_msg_authr=0) = %d, cleartext password in packet: %d\n",
	    e, contains(pb, ps, "hunter22"));
	if (0 == e && contains(pb, ps, "hunter22")) {
		printf("FAIL: sign returned 0 and the packet to be sent carries the clear text password\n");
		fail ++;
	}
	/* What the server gets. */
	memcpy(cp, pb, ps);
	e = radius_pkt_chk((rad_pkt_hdr_p)cp, ps);
	if (0 == e)
		e = radius_pkt_verify((rad_pkt_hdr_p)cp, sec, 12, NULL);
	if (0 == e && 0 == radius_pkt_attr_find((rad_pkt_hdr_p)cp, 0, RADIUS_ATTR_TYPE_USER_PASSWORD, &off) &&
	    0 == radius_pkt_attr_get_data_ptr((rad_pkt_hdr_p)cp, off, &ty, &dp, &dl)) {
		printf("server side: verify = 0, password (%zu bytes) %s the original\n", dl,
		    ((8 == dl && 0 == memcmp(dp, "hunter22", 8)) ? "==" : "!="));
		if (8 != dl || 0 != memcmp(dp, "hunter22", 8)) {
			printf("FAIL: signed packet verifies but the password does not un-hide to the original\n");
			fail ++;
		}
	}
	return (fail ? 1 : 0);
}
