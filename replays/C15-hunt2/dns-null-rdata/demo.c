/* dns_msg_optrr_add() accepts (data = NULL, data_size = 0) - it is how
 * src/proto/dns_resolv.c dns_resolver_send() calls it - and then does
 * memcpy(&opt_rr->rdata, NULL, 0); dns_msg_rr_add() does the same for an
 * empty RDATA.  Undefined behaviour (nonnull argument). */
#include <sys/param.h>
#include <sys/types.h>
#include <inttypes.h>
#include <string.h>
#include <stdio.h>
#include <stdlib.h>
#include <errno.h>
#include "proto/dns.h"

int
main(void) {
	uint8_t buf[512];
	dns_hdr_p h = (dns_hdr_p)buf;
	size_t sz = 0;
	int e;

	dns_hdr_create(0x1234, 0, h, sizeof(buf), &sz);
	dns_msg_question_add(h, sz, sizeof(buf), 0, (const uint8_t*)"www.example.com", 15,
	    DNS_RR_TYPE_A, DNS_RR_CLASS_IN, &sz);
	/* Same arguments as dns_resolver_send(). */
	e = dns_msg_optrr_add(h, sz, sizeof(buf), 4096, 0, 0, 0, 0, NULL, &sz);
	dns_hdr_ar_inc(h, 1);
	printf("optrr_add = %d\n", e);
	/* Empty RDATA (RFC 2136 'delete an RRset', RFC 1035 NULL RR). */
	e = dns_msg_rr_add(h, sz, sizeof(buf), 0, (const uint8_t*)"example.com", 11,
	    DNS_RR_TYPE_A, DNS_RR_QCLASS_ANY, 0, 0, NULL, &sz);
	dns_hdr_ar_inc(h, 1);
	printf("rr_add = %d, validate = %d\n", e, dns_msg_validate(h, sz));
	return (0);
}
