#!/bin/sh
# UB / memory-safety demo: sanitizer report == defect
. "$(dirname "$0")/../common.sh"
clang -g -O1 -w -fsanitize=address,undefined -fno-sanitize-recover=undefined $FL "$HERE/demo.c" -o "$OUT/demo" || exit 2
"$OUT/demo"; rc=$?
rm -rf "$OUT"
[ $rc -eq 0 ] && echo PASS || echo "FAIL (sanitizer report above)"
exit $rc
