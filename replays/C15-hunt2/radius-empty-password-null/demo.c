/* The empty password given as (NULL, 0) is accepted (the argument check is
 * NULL == password && 0 != password_len) and then passed to memcpy(). */
#include <sys/param.h>
#include <sys/types.h>
#include <inttypes.h>
#include <string.h>
#include <stdio.h>
#include <stdlib.h>
#include <errno.h>
#include "proto/radius.h"

int
main(void) {
	_Alignas(8) uint8_t pb[256];
	rad_pkt_hdr_p p = (rad_pkt_hdr_p)pb;
	size_t ps = 0, ol = 0;
	uint8_t ra[16] = { 1, 2, 3 }, out[16];
	int e;

	radius_pkt_init(p, sizeof(pb), &ps, RADIUS_PKT_TYPE_ACCESS_REQUEST, 1, ra);
	e = radius_pkt_attr_add(p, sizeof(pb), &ps, RADIUS_ATTR_TYPE_USER_PASSWORD, 0, NULL, NULL);
	printf("attr_add(User-Password, 0, NULL) = %d\n", e);
	e = radius_pkt_attr_password_encode(ra, NULL, 0, (uint8_t*)"k", 1, out, sizeof(out), &ol);
	printf("password_encode(NULL, 0) = %d, size = %zu\n", e, ol);
	return (0);
}
