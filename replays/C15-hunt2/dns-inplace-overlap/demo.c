/* DomainNameToSequenceOfLabels(): "copy domain name to new place (or move it
 * 1 byte from start)" - the in-place conversion the comment describes is done
 * with memcpy() on overlapping ranges. */
#include <sys/param.h>
#include <sys/types.h>
#include <inttypes.h>
#include <string.h>
#include <stdio.h>
#include <stdlib.h>
#include <errno.h>
#include "proto/dns.h"

int
main(int argc, char **argv) {
	uint8_t *b = malloc(64);
	size_t ns = 0, len = (size_t)(14 + argc); /* 15, not a compile time constant */
	int e;

	memcpy(b, "www.example.com", 15);
	e = DomainNameToSequenceOfLabels(b, len, b, 64, &ns);
	printf("in place: %d, size %zu\n", e, ns);
	free(b);
	return (0);
}
