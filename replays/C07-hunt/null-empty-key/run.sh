#!/bin/sh
# usage: run.sh <tree>      exits non-zero (prints FAIL) when the defect shows
T=${1:-/tmp/hunt/C07}
D=$(cd "$(dirname "$0")" && pwd)
O=$(mktemp -d)
F="-DLINUX -D_GNU_SOURCE -w -I$T/include"
rc=0
for cc in clang gcc; do
	$cc -O1 -g -fsanitize=undefined -fno-sanitize-recover=undefined $F "$D/demo.c" -o "$O/demo_$cc" || { echo "build failed"; exit 2; }
	for a in 0 1 2 3; do
		out=$("$O/demo_$cc" $a 2>&1); r=$?
		echo "$out" | grep -v '^SUMMARY\|note:' | sed "s|$T/||"
		if [ $r -ne 0 ]; then
			echo "FAIL [$cc, entry $a]: undefined behaviour in hmac_*_init for the empty key (NULL, 0)"
			rc=1
		fi
	done
done
rm -rf "$O"
exit $rc
