/*
 * Empty HMAC key given as (key = NULL, key_len = 0).
 *
 * hmac_md5_init / hmac_sha1_init / hmac_sha2_init / hmac_gost3411_2012_init
 * all take the "key fits into one block" branch and execute
 *
 *	memcpy(k_ipad, key, key_len);		// memcpy(dst, NULL, 0)
 *
 * which is undefined behaviour (C11 7.24.1p2, 7.1.4; glibc declares memcpy
 * __nonnull((1, 2))).  The plain hash entry points are careful about this
 * (*_update() returns at once for data_size == 0, so (NULL, 0) is a legal
 * empty message), and the library's own caller treats (NULL, 0) as a legal
 * empty secret: radius_pkt_sign() / radius_pkt_verify() /
 * radius_pkt_attr_msg_authenticator_calc() reject only
 * (NULL == key && 0 != key_len) and forward (NULL, 0) to hmac_md5_init().
 *
 * argv[1] selects the entry point; built with -fsanitize=undefined
 * -fno-sanitize-recover=undefined the process aborts inside hmac_*_init.
 * The MAC itself (when the build survives) is the RFC 2104 value.
 */
#include <sys/param.h>
#include <sys/types.h>
#include <inttypes.h>
#include <string.h>
#include <stdio.h>
#include <stdlib.h>
#include <errno.h>
#undef __SSE2__ /* portable transforms; the defect does not depend on it */
#include "crypto/hash/md5.h"
#include "crypto/hash/sha1.h"
#include "crypto/hash/sha2.h"
#include "crypto/hash/gost3411-2012.h"

int
main(int argc, char **argv) {
	uint8_t mac[64], mac2[64];
	const uint8_t * volatile key = NULL; /* empty key */
	volatile size_t key_len = 0;
	size_t ds = 0, hs = 0;
	int algo = (argc > 1) ? atoi(argv[1]) : 0;
	static const char *an[] = { "hmac_md5", "hmac_sha1", "hmac_sha2(256)", "hmac_gost3411_2012(256)" };

	switch (algo) {
	case 0: hs = 16; hmac_md5(key, key_len, (const uint8_t*)"abc", 3, mac);
		hmac_md5((const uint8_t*)"", 0, (const uint8_t*)"abc", 3, mac2); break;
	case 1: hs = 20; hmac_sha1(key, key_len, (const uint8_t*)"abc", 3, mac);
		hmac_sha1((const uint8_t*)"", 0, (const uint8_t*)"abc", 3, mac2); break;
	case 2: hs = 32; hmac_sha2(256, key, key_len, (const uint8_t*)"abc", 3, mac, &ds);
		hmac_sha2(256, (const uint8_t*)"", 0, (const uint8_t*)"abc", 3, mac2, &ds); break;
	default: hs = 32; hmac_gost3411_2012(256, key, key_len, (const uint8_t*)"abc", 3, mac, &ds);
		hmac_gost3411_2012(256, (const uint8_t*)"", 0, (const uint8_t*)"abc", 3, mac2, &ds); break;
	}
	if (0 != memcmp(mac, mac2, hs)) {
		printf("FAIL %s: (NULL,0) and (\"\",0) give different MACs\n", an[algo & 3]);
		return (1);
	}
	printf("%s(key=NULL, key_len=0): completed, MAC equals the (\"\", 0) one\n", an[algo & 3]);
	return (0);
}
