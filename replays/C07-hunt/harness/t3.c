#include <sys/param.h>
#include <sys/types.h>
#include <inttypes.h>
#include <string.h>
#include <stdio.h>
#include "crypto/hash/sha2.h"
#include "crypto/hash/gost3411-2012.h"
int main(void){ uint8_t a[64],b[64],k[200],m[300]; size_t da,db; int bad=0; size_t bb[][2]={{224,28},{256,32},{384,48},{512,64}};
 for(size_t i=0;i<200;i++)k[i]=i*3+1; for(size_t i=0;i<300;i++)m[i]=i*5+7;
 for(int i=0;i<4;i++) for(size_t kl=0;kl<200;kl+=7){ hmac_sha2(bb[i][0],k,kl,m,300,a,&da); hmac_sha2(bb[i][1],k,kl,m,300,b,&db); if(da!=db||memcmp(a,b,da)) {bad++;printf("sha2 %zu mismatch\n",bb[i][0]);} }
 for(size_t kl=0;kl<200;kl+=7){ hmac_gost3411_2012(256,k,kl,m,300,a,&da); hmac_gost3411_2012(32,k,kl,m,300,b,&db); if(da!=db||memcmp(a,b,da)) {bad++;printf("gost256 mismatch\n");}
  hmac_gost3411_2012(512,k,kl,m,300,a,&da); hmac_gost3411_2012(64,k,kl,m,300,b,&db); if(da!=db||memcmp(a,b,da)) {bad++;printf("gost512 mismatch\n");} }
 printf("bad=%d\n",bad); return bad; }
