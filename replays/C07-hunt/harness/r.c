#include <sys/param.h>
#include <sys/types.h>
#include <inttypes.h>
#include <string.h>
#include <stdio.h>
#include <errno.h>
#include <stdlib.h>
#include "proto/radius.h"
#include <openssl/hmac.h>
#include <openssl/evp.h>
int main(int argc,char**argv){
 uint8_t buf[4096] __attribute__((aligned(8))); rad_pkt_hdr_p pkt=(rad_pkt_hdr_p)buf; size_t sz=0, off=0; uint8_t auth[16]; int e, bad=0;
 uint8_t key[100]; for(int i=0;i<100;i++) key[i]=i*11+3;
 size_t kls[]={0,1,16,63,64,65,100};
 for (int usenull=0; usenull<2; usenull++) for (size_t q=0;q<7;q++){ size_t kl=kls[q]; if(usenull&&kl) continue;
  for(int i=0;i<16;i++)auth[i]=i+1;
  e=radius_pkt_init(pkt,sizeof buf,&sz,RADIUS_PKT_TYPE_ACCESS_REQUEST,7,auth); if(e){printf("init %d\n",e);return 2;}
  e=radius_pkt_attr_add(pkt,sizeof buf,&sz,RADIUS_ATTR_TYPE_USER_NAME,5,(uint8_t*)"alice",NULL); if(e){printf("add %d\n",e);return 2;}
  e=radius_pkt_sign(pkt,sizeof buf,&sz,usenull?NULL:key,kl,1); if(e){printf("sign %d\n",e);return 2;}
  e=radius_pkt_attr_find(pkt,0,RADIUS_ATTR_TYPE_MSG_AUTHENTIC,&off); if(e){printf("find %d\n",e);return 2;}
  uint8_t copy[4096]; memcpy(copy,buf,sz); uint8_t *ma = copy+off+2; uint8_t got[16]; memcpy(got,ma,16); memset(ma,0,16);
  uint8_t ref[64]; unsigned int rl=0; static const uint8_t d=0; HMAC(EVP_md5(), kl?key:&d,(int)kl,copy,sz,ref,&rl);
  if(memcmp(ref,got,16)){printf("FAIL radius msg-auth kl=%zu\n",kl);bad++;}
  e=radius_pkt_verify(pkt,usenull?NULL:key,kl,NULL); if(e){printf("FAIL verify kl=%zu e=%d\n",kl,e);bad++;}
 }
 printf("bad=%d\n",bad); return bad; }
