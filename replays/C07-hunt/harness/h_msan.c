#include <sys/param.h>
#include <sys/types.h>
#include <inttypes.h>
#include <string.h>
#include <stdio.h>
#include <stdlib.h>
#include <errno.h>
#ifdef NOSIMD
#undef __SSE2__
#endif
#include "crypto/hash/md5.h"
#include "crypto/hash/sha1.h"
#include "crypto/hash/sha2.h"
#include "crypto/hash/gost3411-2012.h"

static int fails = 0; static uint64_t acc = 1469598103934665603ull;
static uint64_t rs = 88172645463325252ull;
static uint32_t rnd(void){ rs ^= rs<<13; rs ^= rs>>7; rs ^= rs<<17; return (uint32_t)(rs>>16); }

/* algo ids: 0 md5,1 sha1,2 sha224,3 sha256,4 sha384,5 sha512,6 gost256,7 gost512 */
static const char *an[] = {"md5","sha1","sha224","sha256","sha384","sha512","gost256","gost512"};
static size_t blk[] = {64,64,64,64,128,128,64,64};
static size_t hsz[] = {16,20,28,32,48,64,32,64};
static size_t bits[] = {0,0,224,256,384,512,256,512};

static void H(int a, const uint8_t *p1, size_t l1, const uint8_t *p2, size_t l2, uint8_t *out) {
	switch (a) {
	case 0: { md5_ctx_t c; md5_init(&c); md5_update(&c,p1,l1); md5_update(&c,p2,l2); md5_final(&c,out);} break;
	case 1: { sha1_ctx_t c; sha1_init(&c); sha1_update(&c,p1,l1); sha1_update(&c,p2,l2); sha1_final(&c,out);} break;
	case 2: case 3: case 4: case 5: { sha2_ctx_t c; sha2_init(bits[a],&c); sha2_update(&c,p1,l1); sha2_update(&c,p2,l2); sha2_final(&c,out);} break;
	default: { gost3411_2012_ctx_t c; gost3411_2012_init(bits[a],&c); gost3411_2012_update(&c,p1,l1); gost3411_2012_update(&c,p2,l2); gost3411_2012_final(&c,out);} break;
	}
}
/* RFC 2104 reference, byte-wise, on top of the library's plain hash. */
static void ref_own(int a, const uint8_t *key, size_t kl, const uint8_t *m, size_t ml, uint8_t *out) {
	uint8_t k[128], ip[128], op[128], ih[64];
	size_t B = blk[a], i;
	memset(k,0,sizeof k);
	if (kl > B) H(a, key, kl, NULL, 0, k); else memcpy(k,key,kl);
	for (i=0;i<B;i++){ ip[i]=k[i]^0x36; op[i]=k[i]^0x5c; }
	H(a, ip, B, m, ml, ih);
	H(a, op, B, ih, hsz[a], out);
}
static int ref_ossl(int a, const uint8_t *key, size_t kl, const uint8_t *m, size_t ml, uint8_t *out){ ref_own(a,key,kl,m,ml,out); return (int)hsz[a]; }
static int allzero(const void *p, size_t n){ const uint8_t *b=p; for(size_t i=0;i<n;i++) if(b[i]) return 0; return 1; }

/* mode: 0 one-shot fn, 1 single update, 2 byte-by-byte, 3 random chunks w/ empty updates */
static void lib_hmac(int a, const uint8_t *key, size_t kl, const uint8_t *m, size_t ml, int mode, uint8_t *out, int *wiped, int *wiped_all) {
	size_t ds = 0, off, n;
	*wiped = 1; *wiped_all = 1;
#define CHUNKS(UPD) do { \
	if (mode==1) { UPD(m, ml); } \
	else if (mode==2) { for (off=0; off<ml; off++) { UPD(m+off, 1); } } \
	else { for (off=0; off<ml; ) { n = rnd()% (blk[a]*2+2); if (n>ml-off) n=ml-off; if (rnd()%4==0) n=0; UPD(m+off, n); off+=n; } UPD(m+ml, 0); } \
} while(0)
	switch (a) {
	case 0: if (mode==0) { hmac_md5(key,kl,m,ml,out); } else { hmac_md5_ctx_t h; memset(&h,0xa5,sizeof h);
#define U(p,n) hmac_md5_update(&h,(p),(n))
		hmac_md5_init(key,kl,&h); CHUNKS(U); hmac_md5_final(&h,out);
#undef U
		*wiped = allzero(h.k_opad,sizeof h.k_opad); *wiped_all = allzero(&h.ctx,sizeof h.ctx);
		/* reuse */
		{ uint8_t o2[64]; hmac_md5_init(key,kl,&h); hmac_md5_update(&h,m,ml); hmac_md5_final(&h,o2); if (memcmp(o2,out,hsz[a])) { printf("FAIL reuse %s kl=%zu ml=%zu\n",an[a],kl,ml); fails++; } }
		} break;
	case 1: if (mode==0) { hmac_sha1(key,kl,m,ml,out); } else { hmac_sha1_ctx_t h; memset(&h,0xa5,sizeof h);
#define U(p,n) hmac_sha1_update(&h,(p),(n))
		hmac_sha1_init(key,kl,&h); CHUNKS(U); hmac_sha1_final(&h,out);
#undef U
		*wiped = allzero(h.k_opad,sizeof h.k_opad);
		*wiped_all = allzero(&h.ctx.count,sizeof h.ctx.count) && allzero(h.ctx.hash,sizeof h.ctx.hash) && allzero(h.ctx.buffer,sizeof h.ctx.buffer) && allzero(h.ctx.W,sizeof h.ctx.W);
		{ uint8_t o2[64]; hmac_sha1_init(key,kl,&h); hmac_sha1_update(&h,m,ml); hmac_sha1_final(&h,o2); if (memcmp(o2,out,hsz[a])) { printf("FAIL reuse %s kl=%zu ml=%zu\n",an[a],kl,ml); fails++; } }
		} break;
	case 2: case 3: case 4: case 5: if (mode==0) { hmac_sha2(bits[a],key,kl,m,ml,out,&ds); if (ds!=hsz[a]) {printf("FAIL ds %s\n",an[a]);fails++;} } else { hmac_sha2_ctx_t h; memset(&h,0xa5,sizeof h);
#define U(p,n) hmac_sha2_update(&h,(p),(n))
		hmac_sha2_init(bits[a],key,kl,&h); CHUNKS(U); hmac_sha2_final(&h,out,&ds);
#undef U
		if (ds!=hsz[a]) {printf("FAIL ds %s\n",an[a]);fails++;}
		*wiped = allzero(h.k_opad,sizeof h.k_opad);
		*wiped_all = allzero(h.ctx.hash,sizeof h.ctx.hash) && allzero(h.ctx.buffer,sizeof h.ctx.buffer) && allzero(h.ctx.W,sizeof h.ctx.W);
		{ uint8_t o2[64]; hmac_sha2_init(bits[a],key,kl,&h); hmac_sha2_update(&h,m,ml); hmac_sha2_final(&h,o2,NULL); if (memcmp(o2,out,hsz[a])) { printf("FAIL reuse %s kl=%zu ml=%zu\n",an[a],kl,ml); fails++; } }
		} break;
	default: if (mode==0) { hmac_gost3411_2012(bits[a],key,kl,m,ml,out,&ds); if (ds!=hsz[a]) {printf("FAIL ds %s\n",an[a]);fails++;} } else { hmac_gost3411_2012_ctx_t h; memset(&h,0xa5,sizeof h);
#define U(p,n) hmac_gost3411_2012_update(&h,(p),(n))
		hmac_gost3411_2012_init(bits[a],key,kl,&h); CHUNKS(U); hmac_gost3411_2012_final(&h,out,&ds);
#undef U
		if (ds!=hsz[a]) {printf("FAIL ds %s\n",an[a]);fails++;}
		*wiped = allzero(h.k_opad,sizeof h.k_opad);
		*wiped_all = allzero(h.ctx.hash,sizeof h.ctx.hash) && allzero(h.ctx.buffer,sizeof h.ctx.buffer) && allzero(h.ctx.sigma,sizeof h.ctx.sigma) && allzero(h.ctx.kbuf,sizeof h.ctx.kbuf)&& allzero(h.ctx.tbuf,sizeof h.ctx.tbuf)&& allzero(h.ctx.sbuf,sizeof h.ctx.sbuf);
		{ uint8_t o2[64]; hmac_gost3411_2012_init(bits[a],key,kl,&h); hmac_gost3411_2012_update(&h,m,ml); hmac_gost3411_2012_final(&h,o2,NULL); if (memcmp(o2,out,hsz[a])) { printf("FAIL reuse %s kl=%zu ml=%zu\n",an[a],kl,ml); fails++; } }
		} break;
	}
}

int main(int argc, char **argv) {
	static uint8_t kbuf[64+128*3+16], mbuf[64+128*5+16];
	uint8_t r1[64], r2[64], o[64+1];
	int a, mode, w, wa; size_t kl, ml, ka, ma, i;
	long ncases = 0;
	(void)argc; (void)argv;
	for (a = 0; a < 8; a++) {
		for (kl = 0; kl <= 3*blk[a]+1; kl++) {
			/* message lengths: a spread */
			size_t mls[] = {0,1,blk[a]-hsz[a], 55,56,63,64,65,111,112,119,120,127,128,129, 2*blk[a]+3, 4*blk[a]+ (rnd()%blk[a])};
			for (i = 0; i < sizeof mls/sizeof mls[0]; i++) {
				ml = mls[i];
				ka = rnd()%64; ma = rnd()%64;
				uint8_t *key = kbuf+ka, *m = mbuf+ma; size_t j;
				for (j=0;j<kl;j++) key[j]=(uint8_t)rnd();
				for (j=0;j<ml;j++) m[j]=(uint8_t)rnd();
				if (rnd()%8==0) memset(key,0,kl);
				ref_own(a,key,kl,m,ml,r1);
				if (a<6) { int ol = ref_ossl(a,key,kl,m,ml,r2); if (ol!=(int)hsz[a] || memcmp(r1,r2,hsz[a])) { printf("FAIL own-vs-openssl %s kl=%zu ml=%zu\n",an[a],kl,ml); fails++; memcpy(r1,r2,hsz[a]);} }
				for (mode=0; mode<4; mode++) {
					memset(o,0xee,sizeof o);
					lib_hmac(a,key,kl,m,ml,mode,o,&w,&wa);
					ncases++; { size_t q; for(q=0;q<hsz[a];q++){ acc ^= o[q]; acc *= 1099511628211ull; } }
					if (memcmp(o,r1,hsz[a])) { printf("FAIL mac %s kl=%zu ml=%zu mode=%d ka=%zu ma=%zu\n",an[a],kl,ml,mode,ka,ma); fails++; }
					if (o[hsz[a]]!=0xee) { printf("FAIL overrun %s\n",an[a]); fails++; }
					if (!w) { printf("FAIL k_opad not wiped %s kl=%zu\n",an[a],kl); fails++; }
					if (!wa) { printf("FAIL ctx not wiped %s kl=%zu ml=%zu mode=%d\n",an[a],kl,ml,mode); fails++; }
					if (fails>40) { printf("too many\n"); return 1; }
				}
			}
		}
	}
	printf("cases=%ld fails=%d acc=%016llx\n", ncases, fails, (unsigned long long)acc);
	return fails?1:0;
}
