#define _GNU_SOURCE
#include <sys/param.h>
#include <sys/types.h>
#include <inttypes.h>
#include <string.h>
#include <stdio.h>
#include <stdlib.h>
#include <errno.h>
#include <pthread.h>
#ifdef NOSIMD
#undef __SSE2__
#endif
#include "crypto/hash/md5.h"
#include "crypto/hash/sha1.h"
#include "crypto/hash/sha2.h"
#include "crypto/hash/gost3411-2012.h"

static uint8_t key[32], msg[200], mac[64];
static int algo;
static void *thr(void *a) {
	size_t ds;
	(void)a;
	switch (algo) {
	case 0: hmac_md5(key, sizeof key, msg, sizeof msg, mac); break;
	case 1: hmac_sha1(key, sizeof key, msg, sizeof msg, mac); break;
	case 2: hmac_sha2(256, key, sizeof key, msg, sizeof msg, mac, &ds); break;
	case 3: hmac_sha2(512, key, sizeof key, msg, sizeof msg, mac, &ds); break;
	case 4: hmac_gost3411_2012(256, key, sizeof key, msg, sizeof msg, mac, &ds); break;
	case 5: hmac_gost3411_2012(512, key, sizeof key, msg, sizeof msg, mac, &ds); break;
	}
	return NULL;
}
int main(void) {
	static const char *an[] = {"md5","sha1","sha256","sha512","gost256","gost512"};
	size_t stsz = 1<<20, i, j; int bad = 0;
	uint8_t *st; 
	if (posix_memalign((void**)&st, 4096, stsz)) return 2;
	for (i = 0; i < sizeof key; i++) key[i] = (uint8_t)(0xC0 + i*7 + 1);
	for (i = 0; i < sizeof msg; i++) msg[i] = (uint8_t)i;
	for (algo = 0; algo < 6; algo++) {
		pthread_t t; pthread_attr_t at;
		uint8_t kop[32], kip[32], kraw[32];
		for (i = 0; i < 32; i++) { kop[i] = key[i]^0x5c; kip[i] = key[i]^0x36; kraw[i]=key[i]; }
		memset(st, 0, stsz);
		pthread_attr_init(&at); pthread_attr_setstack(&at, st, stsz);
		pthread_create(&t, &at, thr, NULL); pthread_join(t, NULL);
		int fo=0, fi=0, fr=0;
		for (j = 0; j + 16 <= stsz; j++) {
			if (!memcmp(st+j, kop, 16)) fo++;
			if (!memcmp(st+j, kip, 16)) fi++;
			if (!memcmp(st+j, kraw, 16)) fr++;
		}
		printf("%s: K^opad copies=%d K^ipad copies=%d raw key copies=%d\n", an[algo], fo, fi, fr);
		if (fo||fi||fr) bad = 1;
	}
	if (bad) printf("FAIL: keyed pad bytes left on the stack after hmac returned\n");
	return bad;
}
