#!/bin/sh
T="${1:-/tmp/hunt/C16}"
D="$(cd "$(dirname "$0")" && pwd)"
FL="-DHAVE_ACCEPT4 -DHAVE_EXPLICIT_BZERO -DHAVE_MEMMEM -DHAVE_MEMRCHR -DHAVE_PIPE2 -DHAVE_POSIX_SPAWN_FILE_ACTIONS_ADDCLOSEFROM_NP -DHAVE_PTHREAD_SETNAME_NP -DHAVE_REALLOCARRAY -DHAVE_SOCK_CLOEXEC -DHAVE_SOCK_NONBLOCK -DHAVE_STRNCASECMP -DLINUX -D_GNU_SOURCE -D__USE_GNU=1 -I$T/include"
O="$(mktemp -d)"
gcc -w -g -O1 -fsanitize=address,undefined $FL "$D/demo.c" $T/src/threadpool/threadpool.c $T/src/threadpool/threadpool_msg_sys.c $T/src/threadpool/threadpool_task.c $T/src/net/socket.c $T/src/net/socket_address.c $T/src/net/socket_options.c $T/src/net/utils.c $T/src/utils/sys.c -lpthread -o "$O/demo" || exit 2
ASAN_OPTIONS=detect_leaks=0 timeout 30 "$O/demo"
rc=$?
rm -rf "$O"
exit $rc
