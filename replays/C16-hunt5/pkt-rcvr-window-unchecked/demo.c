/* 8cfed8d: "the transfer window is validated on every start path".  The packet
 * receiver (tp_task_pkt_rcvr_create -> tp_task_create_start -> tp_task_start_ex)
 * is a start path with an io_buf window too, but the check looks only at
 * tp_task_sr_handler / tp_task_rw_handler: a window that sticks out of the
 * buffer is accepted and recvfrom() writes behind the buffer. */
#include <sys/param.h>
#include <sys/types.h>
#include <sys/socket.h>
#include <inttypes.h>
#include <string.h>
#include <stdio.h>
#include <stdlib.h>
#include <errno.h>
#include <unistd.h>
#include <fcntl.h>
#include <signal.h>
#include "threadpool/threadpool.h"
#include "threadpool/threadpool_task.h"

static tp_p tp;
static int fds[2];

static int cb(tp_task_p t, int error, struct sockaddr_storage *addr, io_buf_p buf, size_t tr, void *udata) {
	printf("callback: error=%d transfered=%zu offset=%zu size=%zu\n", error, tr, buf->offset, buf->size);
	tp_task_stop(t);
	tp_shutdown(tp);
	return TP_TASK_CB_NONE;
}
int main(void) {
	tp_settings_t s; tp_task_p t = NULL, t2 = NULL; io_buf_p b;
	int error; char msg[64];
	setvbuf(stdout, NULL, _IONBF, 0);
	tp_init();
	tp_settings_def(&s); s.threads_max = 1; s.flags = 0;
	if (tp_create(&s, &tp) || tp_threads_create(tp, 1)) return 2;
	socketpair(AF_UNIX, SOCK_DGRAM, 0, fds);
	fcntl(fds[0], F_SETFL, O_NONBLOCK);
	b = io_buf_alloc(IO_BUF_F_DATA_ALLOC, 32);
	b->used = 16; b->offset = 16; b->transfer_size = 64; /* 16 + 64 > 32 */
	/* the same window is refused for the stream handler: */
	error = tp_task_create_start(tp_thread_get(tp, 0), fds[0], tp_task_sr_handler, 0,
	    TP_EV_READ, 0, 0, 0, b, (tp_task_cb)cb, NULL, &t2);
	printf("sr task start with the bad window: %d (EINVAL=%d)\n", error, EINVAL);
	error = tp_task_pkt_rcvr_create(tp_thread_get(tp, 0), fds[0], 0, 0, b, cb, NULL, &t);
	printf("pkt_rcvr task start with the bad window: %d\n", error);
	if (error == EINVAL) { printf("ok: refused\n"); return 0; }
	memset(msg, 'z', sizeof(msg));
	send(fds[1], msg, sizeof(msg), 0);
	alarm(10);
	tp_thread_attach_first(tp); /* ASan: heap-buffer-overflow in recvfrom */
	printf("FAIL: window [16, 80) of a 32 byte buffer accepted\n");
	return 1;
}
