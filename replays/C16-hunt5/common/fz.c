#include <sys/param.h>
#include <sys/types.h>
#include <sys/socket.h>
#include <inttypes.h>
#include <string.h>
#include <stdio.h>
#include <stdlib.h>
#include <errno.h>
#include <unistd.h>
#include <fcntl.h>
#include <signal.h>
#include <pthread.h>
#include "threadpool/threadpool.h"
#include "threadpool/threadpool_task.h"

static tp_p tp;
static int fds[2];
static uint8_t payload[4096], got[8192];
static size_t plen, gotlen, nfrag, frag[64];
static int do_close, fail, eofs, errs, tmo_seen, done, ncb;
static unsigned seed;
static size_t bufsize, woff, wsize;
static uint8_t shadow[512];
static int use_pipe, evfl, aer, first_io, gap_us;
static uint64_t timeout;

#define FAIL(...) do { printf("FAIL: " __VA_ARGS__); printf("\n"); fail = 1; } while (0)

static void *feeder(void *a) {
	size_t i, off = 0;
	for (i = 0; i < nfrag; i++) {
		usleep(gap_us);
		if (write(fds[1], payload + off, frag[i]) != (ssize_t)frag[i]) perror("write");
		off += frag[i];
	}
	usleep(gap_us);
	if (do_close) close(fds[1]);
	return NULL;
}
static void finish(tp_task_p t) {
	done = 1;
	tp_task_stop(t);
	tp_shutdown(tp);
}
static int cb(tp_task_p t, int error, io_buf_p buf, uint32_t eof, size_t tr, void *udata) {
	size_t start;
	ncb++;
	if (done) { FAIL("callback after stop"); return 0; }
	if (buf->offset > buf->size || buf->transfer_size > buf->size - buf->offset) FAIL("window outside buf off=%zu tr=%zu", buf->offset, buf->transfer_size);
	/* bytes delivered this time are at [offset - tr, offset) */
	if (tr > buf->offset) { FAIL("tr %zu > offset %zu", tr, buf->offset); finish(t); return 0; }
	start = buf->offset - tr;
	if (start < woff - 0 && 0) {}
	memcpy(got + gotlen, buf->data + start, tr);
	gotlen += tr;
	if (gotlen > plen) { FAIL("more than sent"); finish(t); return 0; }
	if (memcmp(got, payload, gotlen)) { FAIL("content mismatch at total %zu", gotlen); finish(t); return 0; }
	/* outside the window untouched */
	{
		size_t i; 
		for (i = 0; i < bufsize; i++) {
			if (i >= woff && i < woff + wsize) continue;
			if (buf->data[i] != shadow[i]) { FAIL("byte %zu outside window changed", i); break; }
		}
		if (buf->data[bufsize] != 0) FAIL("guard");
	}
	if (error == ETIMEDOUT) {
		tmo_seen++;
		if (tmo_seen > 50) { FAIL("timeouts loop"); finish(t); return 0; }
		if (timeout == 0) FAIL("timeout without timer");
		if (gotlen == plen && !do_close) { finish(t); return 0; }
		if (buf->transfer_size == 0) { buf->offset = woff; buf->transfer_size = wsize; }
		return TP_TASK_CB_CONTINUE;
	}
	if (error) { errs++; FAIL("unexpected error %d", error); finish(t); return 0; }
	if (eof) {
		if (!do_close) FAIL("eof without close");
		/* known: eof may come before data drained: continue if data missing and buf says more */
		if (gotlen < plen && tr > 0) {
			if (buf->transfer_size == 0) { buf->offset = woff; buf->transfer_size = wsize; }
			return TP_TASK_CB_CONTINUE;
		}
		eofs++;
		if (gotlen != plen) FAIL("eof with %zu of %zu", gotlen, plen);
		finish(t); return 0;
	}
	if (gotlen == plen && !do_close) { finish(t); return 0; }
	if (tr == 0 && buf->transfer_size != 0) { FAIL("empty callback no reason (trsz=%zu)", buf->transfer_size); finish(t); return 0;}
	if (buf->transfer_size == 0) { /* re-open window */
		buf->offset = woff; buf->transfer_size = wsize;
	} else if (!aer && tr && !eof) {
		FAIL("callback before window full without AER: tr=%zu left=%zu", tr, buf->transfer_size);
	}
	return TP_TASK_CB_CONTINUE;
}
int main(int argc, char **argv) {
	tp_settings_t s; tp_task_p t = NULL; io_buf_p b;
	int error; size_t i, rem; pthread_t th;
	static const uint16_t fl[3] = {0, TP_F_ONESHOT, TP_F_DISPATCH};
	setvbuf(stdout, NULL, _IONBF, 0);
	signal(SIGPIPE, SIG_IGN);
	seed = (unsigned)atoi(argv[1]); srand(seed);
	use_pipe = rand() & 1; evfl = fl[rand() % 3]; aer = rand() & 1; first_io = rand() & 1;
	do_close = rand() & 1; gap_us = (rand() % 3) * 1500;
	bufsize = 8 + rand() % 200; woff = rand() % bufsize; wsize = 1 + rand() % (bufsize - woff);
	if (rand() % 4 == 0) { woff = 0; wsize = bufsize; }
	plen = rand() % 600; if (rand() % 5 == 0) plen = wsize * (1 + rand() % 3);
	for (i = 0; i < plen; i++) payload[i] = (uint8_t)(rand() | 1);
	rem = plen; nfrag = 0;
	while (rem && nfrag < 63) { size_t f = 1 + rand() % (rem < 100 ? rem : 100); frag[nfrag++] = f; rem -= f; }
	if (rem) frag[nfrag++] = rem;
	timeout = (rand() % 3 == 0) ? 0 : (uint64_t)(1 + rand() % 4);
	if (plen == 0 && !do_close) do_close = 1;
	if (!do_close && timeout == 0 && !aer) { do_close = 1; }
	printf("seed %u pipe=%d evfl=%d aer=%d first_io_sched=%d close=%d gap=%d buf=%zu woff=%zu wsize=%zu plen=%zu nfrag=%zu timeout=%" PRIu64 "\n",
	    seed, use_pipe, evfl, aer, first_io, do_close, gap_us, bufsize, woff, wsize, plen, nfrag, timeout);
	tp_init();
	tp_settings_def(&s); s.threads_max = 1; s.flags = 0;
	if (tp_create(&s, &tp) || tp_threads_create(tp, 1)) { printf("tp setup failed\n"); return 2; }
	if (use_pipe) { pipe(fds); fcntl(fds[0], F_SETFL, O_NONBLOCK); }
	else { socketpair(AF_UNIX, SOCK_STREAM, 0, fds); fcntl(fds[0], F_SETFL, O_NONBLOCK); }
	b = io_buf_alloc(IO_BUF_FLAGS_STD, bufsize);
	for (i = 0; i < bufsize; i++) { b->data[i] = 0xA5; shadow[i] = 0xA5; }
	b->offset = woff; b->transfer_size = wsize; b->used = woff;
	error = tp_task_create(tp_thread_get(tp, 0), fds[0], use_pipe ? tp_task_rw_handler : tp_task_sr_handler, aer ? TP_TASK_F_CB_AFTER_EVERY_READ : 0, NULL, &t);
	if (error) { printf("create %d\n", error); return 2; }
	pthread_create(&th, NULL, feeder, NULL);
	error = tp_task_start_ex(first_io, t, TP_EV_READ, evfl, timeout, 0, b, cb);
	if (error) { FAIL("start %d", error); return 1; }
	if (!done) {
		alarm(20);
		tp_thread_attach_first(tp);
	}
	pthread_join(th, NULL);
	if (!done) FAIL("not done");
	if (gotlen != plen) FAIL("got %zu of %zu", gotlen, plen);
	if (do_close && eofs != 1) FAIL("eofs=%d", eofs);
	printf("%s ncb=%d tmo=%d\n", fail ? "FAILED" : "ok", ncb, tmo_seen);
	return fail;
}
