#!/bin/sh
# usage: build.sh <tree> <src.c> <out>
T="$1"
FL="-DHAVE_ACCEPT4 -DHAVE_EXPLICIT_BZERO -DHAVE_MEMMEM -DHAVE_MEMRCHR -DHAVE_PIPE2 -DHAVE_POSIX_SPAWN_FILE_ACTIONS_ADDCLOSEFROM_NP -DHAVE_PTHREAD_SETNAME_NP -DHAVE_REALLOCARRAY -DHAVE_SOCK_CLOEXEC -DHAVE_SOCK_NONBLOCK -DHAVE_STRNCASECMP -DLINUX -D_GNU_SOURCE -D__USE_GNU=1 -I$T/include"
exec gcc -w -g -O1 -fsanitize=address,undefined $FL "$2" $T/src/threadpool/threadpool.c $T/src/threadpool/threadpool_msg_sys.c $T/src/threadpool/threadpool_task.c $T/src/net/socket.c $T/src/net/socket_address.c $T/src/net/socket_options.c $T/src/net/utils.c $T/src/utils/sys.c -lpthread -o "$3"
