#include <sys/param.h>
#include <sys/types.h>
#include <sys/socket.h>
#include <inttypes.h>
#include <string.h>
#include <stdio.h>
#include <errno.h>
#include <unistd.h>
#include <signal.h>
#include <pthread.h>
#include "threadpool/threadpool.h"
#include "threadpool/threadpool_task.h"

static tp_p tp;
static int sp[2];
static int ncb;

static int cb(tp_task_p t, int error, io_buf_p buf, uint32_t eof, size_t tr, void *udata) {
	printf("cb: error=%d eof=%u tr=%zu used=%zu off=%zu trsz=%zu\n", error, eof, tr, buf->used, buf->offset, buf->transfer_size);
	ncb++;
	tp_task_stop(t);
	tp_shutdown(tp);
	return TP_TASK_CB_NONE;
}
int main(void) {
	tp_settings_t s; tp_task_p t; io_buf_p b;
	int error;
	tp_init();
	tp_settings_def(&s); s.threads_max = 1; s.flags = 0;
	error = tp_create(&s, &tp); printf("tp_create %d\n", error);
	error = tp_threads_create(tp, 1); printf("threads_create %d\n", error);
	socketpair(AF_UNIX, SOCK_STREAM, 0, sp);
	b = io_buf_alloc(IO_BUF_FLAGS_STD, 64);
	IO_BUF_MARK_TRANSFER_ALL_FREE(b);
	b->transfer_size = 5;
	error = tp_task_create_start(tp_thread_get(tp, 0), sp[0], tp_task_sr_handler, 0, TP_EV_READ, 0, 1000, 0, b, cb, NULL, &t);
	printf("start %d\n", error);
	write(sp[1], "hello", 5);
	tp_thread_attach_first(tp);
	tp_shutdown_wait(tp);
	tp_destroy(tp);
	printf("done ncb=%d\n", ncb);
	return 0;
}
