#include <sys/param.h>
#include <sys/types.h>
#include <sys/socket.h>
#include <inttypes.h>
#include <string.h>
#include <stdio.h>
#include <stdlib.h>
#include <errno.h>
#include <unistd.h>
#include <fcntl.h>
#include <signal.h>
#include <pthread.h>
#include "threadpool/threadpool.h"
#include "threadpool/threadpool_task.h"
static tp_p tp; static int fds[2]; static int fail, ncb, done;
static size_t bufsize, woff, wsize, rgot, sum_tr; static uint8_t *rbuf;
static int use_pipe, evfl, first_io, gap_us; static uint64_t timeout; static int tmo;
#define FAIL(...) do { printf("FAIL: " __VA_ARGS__); printf("\n"); fail = 1; } while (0)
static void *drain(void *a) {
	ssize_t r;
	for (;;) { usleep(gap_us); r = read(fds[0], rbuf + rgot, 3000 + rand() % 20000); if (r <= 0) break; rgot += r; }
	return NULL;
}
static int cb(tp_task_p t, int error, io_buf_p buf, uint32_t eof, size_t tr, void *udata) {
	ncb++; sum_tr += tr;
	if (done) FAIL("cb after stop");
	if (error == ETIMEDOUT) { if (!timeout) FAIL("tmo without timer"); if (++tmo < 2000) return TP_TASK_CB_CONTINUE; }
	if (error) FAIL("error %d", error);
	if (!error && buf->transfer_size != 0) FAIL("callback before window sent: left %zu", buf->transfer_size);
	if (buf->offset != woff + sum_tr) FAIL("offset %zu != %zu", buf->offset, woff + sum_tr);
	done = 1; tp_task_stop(t); close(fds[1]); tp_shutdown(tp);
	return 0;
}
int main(int argc, char **argv) {
	tp_settings_t s; tp_task_p t = NULL; io_buf_p b; int error, v = 4096; size_t i; pthread_t th;
	static const uint16_t fl[3] = {0, TP_F_ONESHOT, TP_F_DISPATCH};
	setvbuf(stdout, NULL, _IONBF, 0); signal(SIGPIPE, SIG_IGN);
	srand(atoi(argv[1]));
	use_pipe = rand() & 1; evfl = fl[rand() % 3]; first_io = rand() & 1; gap_us = (rand() % 3) * 1000;
	bufsize = 1 + rand() % 400000; woff = rand() % bufsize; wsize = 1 + rand() % (bufsize - woff);
	timeout = (rand() % 2) ? 0 : 1 + rand() % 3;
	printf("pipe=%d evfl=%d first=%d gap=%d buf=%zu woff=%zu wsize=%zu timeout=%" PRIu64 "\n", use_pipe, evfl, first_io, gap_us, bufsize, woff, wsize, timeout);
	rbuf = malloc(bufsize + 100000);
	tp_init(); tp_settings_def(&s); s.threads_max = 1; s.flags = 0;
	if (tp_create(&s, &tp) || tp_threads_create(tp, 1)) return 2;
	if (use_pipe) pipe(fds); else { socketpair(AF_UNIX, SOCK_STREAM, 0, fds); setsockopt(fds[1], SOL_SOCKET, SO_SNDBUF, &v, sizeof(v)); }
	fcntl(fds[1], F_SETFL, O_NONBLOCK);
	b = io_buf_alloc(IO_BUF_FLAGS_STD, bufsize);
	for (i = 0; i < bufsize; i++) b->data[i] = (uint8_t)rand();
	b->used = bufsize; b->offset = woff; b->transfer_size = wsize;
	tp_task_create(tp_thread_get(tp, 0), fds[1], use_pipe ? tp_task_rw_handler : tp_task_sr_handler, 0, NULL, &t);
	pthread_create(&th, NULL, drain, NULL);
	error = tp_task_start_ex(first_io, t, TP_EV_WRITE, evfl, timeout, 0, b, cb);
	if (error) { FAIL("start %d", error); return 1; }
	alarm(25);
	if (!done) tp_thread_attach_first(tp);
	pthread_join(th, NULL);
	if (rgot != wsize) FAIL("peer got %zu, window %zu", rgot, wsize);
	else if (memcmp(rbuf, b->data + woff, wsize)) FAIL("content");
	if (sum_tr != wsize) FAIL("sum of transfered %zu != %zu", sum_tr, wsize);
	printf("%s ncb=%d tmo=%d\n", fail ? "FAILED" : "ok", ncb, tmo);
	return fail;
}
