/* A write task (tp_task_rw_handler, TP_EV_WRITE) on a pipe whose reader goes
 * away: the callback must be told the real error (EPIPE).  The pool takes
 * ev.fflags = errno (stale) when getsockopt(SO_ERROR) fails on a non-socket and
 * tp_task_handler prefers that "event error" over the errno of write(). */
#include <sys/param.h>
#include <sys/types.h>
#include <sys/socket.h>
#include <inttypes.h>
#include <string.h>
#include <stdio.h>
#include <stdlib.h>
#include <errno.h>
#include <unistd.h>
#include <fcntl.h>
#include <signal.h>
#include <pthread.h>
#include "threadpool/threadpool.h"
#include "threadpool/threadpool_task.h"

static tp_p tp;
static int fds[2];
static int cb_error = -12345, ncb;

static void *closer(void *a) {
	usleep(100000);
	close(fds[0]); /* reader goes away */
	return NULL;
}
static int cb(tp_task_p t, int error, io_buf_p buf, uint32_t eof, size_t tr, void *udata) {
	ncb++;
	cb_error = error;
	printf("callback: error=%d (%s) eof=%u transfered=%zu\n", error, strerror(error), eof, tr);
	tp_task_stop(t);
	tp_shutdown(tp);
	return TP_TASK_CB_NONE;
}
int main(void) {
	tp_settings_t s; tp_task_p t = NULL; io_buf_p b;
	int error; pthread_t th; char junk[4096];
	setvbuf(stdout, NULL, _IONBF, 0);
	signal(SIGPIPE, SIG_IGN);
	tp_init();
	tp_settings_def(&s); s.threads_max = 1; s.flags = 0;
	if (tp_create(&s, &tp) || tp_threads_create(tp, 1)) return 2;
	pipe(fds);
	fcntl(fds[1], F_SETFL, O_NONBLOCK);
	memset(junk, 'x', sizeof(junk));
	while (write(fds[1], junk, sizeof(junk)) > 0) ; /* pipe is full: task has to wait */
	b = io_buf_alloc(IO_BUF_FLAGS_STD, 100);
	memset(b->data, 'y', 100); b->used = 100;
	IO_BUF_MARK_TRANSFER_ALL_USED(b);
	error = tp_task_create_start(tp_thread_get(tp, 0), fds[1], tp_task_rw_handler, 0,
	    TP_EV_WRITE, 0, 0, 0, b, cb, NULL, &t);
	if (error) { printf("start: %d\n", error); return 2; }
	pthread_create(&th, NULL, closer, NULL);
	alarm(10);
	tp_thread_attach_first(tp);
	pthread_join(th, NULL);
	if (cb_error != EPIPE) {
		printf("FAIL: callback told error %d (%s), the descriptor error is EPIPE (%d)\n",
		    cb_error, strerror(cb_error), EPIPE);
		return 1;
	}
	printf("ok\n");
	return 0;
}
