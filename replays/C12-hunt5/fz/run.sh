#!/bin/sh
# Combined libFuzzer/ASan/UBSan harness over the C12 anchors. Usage: run.sh <tree> [seconds]
# Exits non-zero if a crash artifact is produced. On the audited tree: no crash in 8 workers x 300 s.
T=${1:?tree}; S=${2:-60}; D=$(dirname "$0"); cd "$D" || exit 2
FL="-DHAVE_ACCEPT4 -DHAVE_EXPLICIT_BZERO -DHAVE_MEMMEM -DHAVE_MEMRCHR -DHAVE_PIPE2 -DHAVE_PTHREAD_SETNAME_NP -DHAVE_REALLOCARRAY -DHAVE_SOCK_CLOEXEC -DHAVE_SOCK_NONBLOCK -DHAVE_STRNCASECMP -DLINUX -D_GNU_SOURCE -D__USE_GNU=1 -I$T/include"
clang -g -O1 -fsanitize=fuzzer,address,undefined -fno-sanitize-recover=undefined $FL fz.c $T/src/utils/buf_str.c $T/src/utils/xml.c $T/src/utils/ini.c $T/src/utils/bt_encode.c -o fz || exit 2
mkdir -p corpus
./fz -max_len=128 -dict=dict -max_total_time=$S corpus >fz.log 2>&1
ls crash-* timeout-* >/dev/null 2>&1 && { echo FAIL; exit 1; }
echo PASS
