#include <sys/param.h>
#include <sys/types.h>
#include <inttypes.h>
#include <string.h>
#include <stdio.h>
#include <errno.h>
#include <stdlib.h>
#include "utils/mem_utils.h"
#include "utils/asn1.h"
#include "utils/utf8.h"
#include "utils/base64.h"
#include "utils/buf_str.h"
#include "utils/xml.h"
#include "utils/ini.h"
#include "utils/bt_encode.h"

static uint8_t *dupx(const uint8_t *d, size_t n) { uint8_t *p = malloc(n ? n : 1); if (n) memcpy(p, d, n); if(!n){free(p); p=malloc(0);} return p; }

static void t_asn(const uint8_t *d, size_t n) {
	uint8_t *b = dupx(d, n); size_t off = 0, hs, tag, ds; uint8_t c, ps, *dt; int it = 0;
	while (0 == asn_parse(b, n, &off, &hs, &c, &ps, &tag, &dt, &ds)) {
		if (dt < b || dt + ds > b + n || off > n) abort();
		if (++it > 100000) abort();
		if (hs + ds == 0) abort();
	}
	/* nested */
	off = 0;
	if (0 == asn_parse(b, n, &off, &hs, &c, &ps, &tag, &dt, &ds) && ds) {
		size_t o2 = 0; asn_parse(dt, ds, &o2, NULL, NULL, NULL, NULL, NULL, NULL);
	}
	free(b);
}
static void t_xml(const uint8_t *d, size_t n) {
	if (n < 1) return;
	int ntags = 1 + (d[0] & 3); int ns = d[0] & 4; int usenext = d[0] & 8; d++; n--;
	static const char *names[] = {"a", "bc", "d", "a"};
	const uint8_t *tags[4]; size_t cnts[4];
	for (int i = 0; i < 4; i++) { tags[i] = (const uint8_t*)names[i]; cnts[i] = strlen(names[i]); }
	uint8_t *b = dupx(d, n); const uint8_t *next = NULL, *attr, *val, *nsp[4]; size_t as, vs, nss[4]; int it = 0;
	for (;;) {
		int e; attr = val = NULL; as = vs = 0;
		if (ns) e = xml_get_val_ns_arr(b, n, usenext ? &next : NULL, ntags, tags, cnts, nsp, nss, &attr, &as, &val, &vs);
		else e = xml_get_val_arr(b, n, usenext ? &next : NULL, ntags, tags, cnts, &attr, &as, &val, &vs);
		if (e) break;
		if (val) { if (val < b || val + vs > b + n) abort(); volatile uint8_t s = 0; for (size_t i = 0; i < vs; i++) s ^= val[i]; }
		if (attr) { if (attr < b || attr + as > b + n) abort(); volatile uint8_t s = 0; for (size_t i = 0; i < as; i++) s ^= attr[i]; }
		if (!usenext) break;
		if (++it > 100000) abort();
	}
	free(b);
	/* encode/decode */
	b = dupx(d, n); size_t cap = (n ? d[0] : 0) % 64; uint8_t *o = malloc(cap); size_t os = 0;
	xml_encode(b, n, o, cap, &os); xml_decode(b, n, o, cap, &os); free(o); free(b);
}
static void t_bt(const uint8_t *d, size_t n) {
	uint8_t *b = dupx(d, n); bt_en_node_p nd = NULL; size_t off = 0;
	if (0 == bt_en_decode(b, n, &nd, &off)) { if (off > n) abort(); bt_en_free(nd); }
	free(b);
}
static void t_args(const uint8_t *d, size_t n) {
	if (n < 1) return; size_t ma = d[0] % 8; d++; n--;
	char *b = (char*)dupx(d, n); char **args = malloc(sizeof(char*) * ma); size_t *sz = malloc(sizeof(size_t) * ma);
	size_t r = buf2args(b, n, ma, args, sz);
	if (r > ma) abort();
	for (size_t i = 0; i < r; i++) { if (args[i] < b || args[i] + sz[i] > b + n) abort(); }
	free(args); free(sz); free(b);
}
static void t_line(const uint8_t *d, size_t n) {
	uint8_t *b = dupx(d, n); const uint8_t *l = NULL; size_t ls = 0; int it = 0;
	while (0 == buf_get_next_line(b, n, l, ls, &l, &ls)) { if (l < b || l + ls > b + n) abort(); if (++it > 100000) abort(); }
	free(b);
}
static void t_ini(const uint8_t *d, size_t n) {
	if (n < 4) return;
	size_t a = d[0] % 8, bq = d[1] % 8, c = d[2]; 
	if (3 + a + bq + c > n) return;
	uint8_t *sn = a ? dupx(d + 3, a) : (uint8_t*)calloc(1,1), *vn = bq ? dupx(d + 3 + a, bq) : (uint8_t*)calloc(1,1), *v = dupx(d + 3 + a + bq, c);
	const uint8_t *txt = d + 3 + a + bq + c; size_t tn = n - (3 + a + bq + c);
	uint8_t *b = dupx(txt, tn);
	ini_p ini; if (ini_create(&ini)) abort();
	ini_buf_parse(ini, b, tn); free(b);
	for (int k = 0; k < 3; k++) {
		int e = ini_val_set(ini, sn, a, vn, bq, v, (k == 1) ? c / 2 : c);
		const uint8_t *gv; size_t gs;
		if (0 == e) { if (ini_val_get(ini, sn, a, vn, bq, &gv, &gs)) abort(); 
			/* set own value again, longer name-less */
			ini_val_set(ini, sn, a, vn, bq, gv, gs);
		}
	}
	size_t need = 0, got = 0; ini_buf_calc_size(ini, &need);
	for (size_t cap = (need > 2 ? need - 2 : 0); cap <= need + 1; cap++) { uint8_t *o = malloc(cap ? cap : 1); if(!cap){free(o);o=malloc(0);} int e = ini_buf_gen(ini, o, cap, &got); if (cap >= need && e) abort(); if (got > cap) abort(); free(o); }
	ini_destroy(ini); free(sn); free(vn); free(v);
}
static void t_repl(const uint8_t *d, size_t n) {
	if (n < 8) return;
	size_t cnt = 1 + d[0] % 3, cap = d[1] % 48; 
	size_t sl[3], dl[3]; const void *sp[3], *dp[3]; size_t p = 8;
	for (size_t i = 0; i < 3; i++) { sl[i] = d[2 + i] % 4; dl[i] = d[5 + i] % 6; }
	uint8_t *bufs[6];
	for (size_t i = 0; i < 3; i++) { if (p + sl[i] + dl[i] > n) { sl[i] = dl[i] = 0; } bufs[i] = dupx(d + p, sl[i]); p += sl[i]; bufs[3 + i] = dupx(d + p, dl[i]); p += dl[i]; sp[i] = bufs[i]; dp[i] = bufs[3 + i]; }
	if (p > n) p = n;
	uint8_t *s = dupx(d + p, n - p), *o = malloc(cap); size_t os = 0, rp = 0;
	int e = mem_replace_arr(s, n - p, cnt, NULL, sp, sl, dp, dl, o, cap, &os, &rp);
	if (0 == e && os > cap) abort();
	free(s); free(o); for (int i = 0; i < 6; i++) free(bufs[i]);
}
static void t_stream(const uint8_t *d, size_t n) {
	if (n < 2) return; size_t wl = 1 + d[0] % 6, chunk = 1 + d[1] % 5; d += 2; n -= 2; if (wl > n) return;
	uint8_t *w = dupx(d, wl); d += wl; n -= wl; size_t st = 0, oe;
	for (size_t p = 0; p < n; p += chunk) { size_t c = MIN(chunk, n - p); uint8_t *b = dupx(d + p, c); int e = mem_find_stream(b, c, w, wl, &st, &oe); if (0 == e && oe > c) abort(); if (st >= wl) abort(); free(b); }
	free(w);
}
static void t_codec(const uint8_t *d, size_t n) {
	if (n < 1) return; size_t cap = d[0] % 40; d++; n--;
	uint8_t *b = dupx(d, n), *o; size_t r = 0; int e;
	o = malloc(cap); e = base64_decode(b, n, o, cap, &r); free(o);
	if (e == ENOBUFS) { o = malloc(r); size_t r2; if (ENOBUFS==base64_decode(b, n, o, r, &r2)) abort(); free(o); }
	o = malloc(cap); e = base64_decode_fmt(b, n, o, cap, &r); free(o);
	if (e == ENOBUFS) { o = malloc(r); size_t r2; if (ENOBUFS==base64_decode_fmt(b, n, o, r, &r2)) abort(); free(o); }
	o = malloc(cap); e = base64_encode(b, n, o, cap, &r); free(o);
	if (e == ENOBUFS) { o = malloc(r); size_t r2; if (base64_encode(b, n, o, r, &r2)) abort(); free(o); }
	o = malloc(cap); r = 0; e = cvt_hex2bin(b, n, d[-1] & 64, o, cap, &r); free(o);
	if (e == EOVERFLOW && r) { o = malloc(r); size_t r2; if (cvt_hex2bin(b, n, 0, o, r, &r2)) abort(); free(o); }
	o = malloc(cap); r = 0; e = cvt_bin2hex(b, n, d[-1] & 64, o, cap, &r); free(o);
	if (e == EOVERFLOW && r) { o = malloc(r); size_t r2; if (cvt_bin2hex(b, n, 0, o, r, &r2)) abort(); free(o); }
	o = malloc(cap); r = utf8_decode(b, n, o, cap); if (r > cap) abort(); free(o);
	free(b);
}
int LLVMFuzzerTestOneInput(const uint8_t *d, size_t n) {
	if (n < 1) return 0;
	switch (d[0] % 9) {
	case 0: t_asn(d + 1, n - 1); break;
	case 1: t_xml(d + 1, n - 1); break;
	case 2: t_bt(d + 1, n - 1); break;
	case 3: t_args(d + 1, n - 1); break;
	case 4: t_line(d + 1, n - 1); break;
	case 5: t_ini(d + 1, n - 1); break;
	case 6: t_repl(d + 1, n - 1); break;
	case 7: t_stream(d + 1, n - 1); break;
	case 8: t_codec(d + 1, n - 1); break;
	}
	return 0;
}
