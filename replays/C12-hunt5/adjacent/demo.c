#include <sys/param.h>
#include <sys/types.h>
#include <inttypes.h>
#include <string.h>
#include <stdio.h>
#include <errno.h>
#include <stdlib.h>
#include "utils/asn1.h"
#include "utils/buf_str.h"
#include "utils/bt_encode.h"
int main(void) {
	uint8_t a[] = { 0x04, 0x81, 0x00, 0x05, 0x00 }; size_t off = 0, ds = 99; 
	int e = asn_parse(a, sizeof(a), &off, NULL, NULL, NULL, NULL, NULL, &ds);
	printf("asn_parse(04 81 00 | 05 00) = %d (EOVERFLOW=%d) off=%zu\n", e, EOVERFLOW, off);
	uint8_t l[] = "l4:spame"; bt_en_node_p n = NULL; size_t o = 0;
	e = bt_en_decode(l, 8, &n, &o);
	printf("bt list: e=%d off=%zu raw_size=%zu (content is 6 bytes)\n", e, o, n ? n->raw_size : 0);
	uint8_t s[] = "4:spam"; n = NULL; e = bt_en_decode(s, 6, &n, &o);
	printf("bt '4:spam' exact buffer: e=%d (EBADMSG=%d)\n", e, EBADMSG);
	printf("calc_sptab_count_r(\"  \",2)=%zu\n", calc_sptab_count_r("  ", 2));
	return 0;
}
