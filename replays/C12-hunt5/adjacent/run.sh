#!/bin/sh
# Prints functional (NOT memory-safety) oddities seen during the audit; always exits 0.
T=${1:?tree}; D=$(dirname "$0"); cd "$D" || exit 2
FL="-DHAVE_ACCEPT4 -DHAVE_EXPLICIT_BZERO -DHAVE_MEMMEM -DHAVE_MEMRCHR -DHAVE_PIPE2 -DHAVE_PTHREAD_SETNAME_NP -DHAVE_REALLOCARRAY -DHAVE_SOCK_CLOEXEC -DHAVE_SOCK_NONBLOCK -DHAVE_STRNCASECMP -DLINUX -D_GNU_SOURCE -D__USE_GNU=1 -I$T/include"
clang -g -fsanitize=address,undefined $FL demo.c $T/src/utils/bt_encode.c $T/src/utils/buf_str.c -o demo || exit 2
ASAN_OPTIONS=detect_leaks=0 ./demo
exit 0
