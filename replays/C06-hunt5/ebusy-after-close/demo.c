/* A descriptor that was registered and then close()d is gone from epoll (the
 * kernel removes it; epoll_ctl_ex() has the MOD -> ENOENT -> ADD fallback for
 * exactly this stale tpdata).  Since c394784 the record can not be registered
 * on another pool thread any more: tpt_ev_add*() answers EBUSY ("live on other
 * thread") although nothing is live, and tpt_ev_del() on the old thread is the
 * only way out (it answers with the EBADF/ENOENT of epoll_ctl). */
#include <sys/param.h>
#include <sys/types.h>
#include <sys/socket.h>
#include <inttypes.h>
#include <string.h>
#include <stdio.h>
#include <errno.h>
#include <unistd.h>
#include <stdlib.h>
#include "threadpool/threadpool.h"
static volatile int cnt;
static void cb(tp_event_p ev, tp_udata_p u) { char b[8]; cnt ++; if (read((int)u->ident, b, sizeof(b))) {} }
int main(void) {
	tp_p tp; tp_settings_t s; tp_udata_t u; int sv[2], e1, e2, fail = 0;
	tp_init(); tp_settings_def(&s); s.threads_max = 2; s.flags = 0;
	if (0 != tp_create(&s, &tp) || 0 != tp_threads_create(tp, 0)) return (2);
	/* connection 1 on worker 0 */
	socketpair(AF_UNIX, SOCK_STREAM, 0, sv);
	memset(&u, 0, sizeof(u)); u.cb_func = cb; u.ident = (uintptr_t)sv[0];
	e1 = tpt_ev_add_args2(tp_thread_get(tp, 0), TP_EV_READ, 0, &u);
	write(sv[1], "x", 1); usleep(50000);
	printf("conn 1: add on worker 0 = %d, callbacks = %d\n", e1, cnt);
	close(sv[0]); close(sv[1]); /* connection ends: kernel drops the epoll registration */
	/* connection 2: the connection object is recycled, round-robin gives worker 1 */
	socketpair(AF_UNIX, SOCK_STREAM, 0, sv);
	u.ident = (uintptr_t)sv[0];
	cnt = 0;
	e2 = tpt_ev_add_args2(tp_thread_get(tp, 1), TP_EV_READ, 0, &u);
	write(sv[1], "y", 1); usleep(50000);
	printf("conn 2: add on worker 1 = %d (%s), callbacks = %d\n", e2, strerror(e2), cnt);
	if (0 != e2 || 1 != cnt) { printf("FAIL: a registration with nothing live behind it is refused\n"); fail = 1; }
	else printf("PASS\n");
	fflush(stdout); _exit(fail);
}
