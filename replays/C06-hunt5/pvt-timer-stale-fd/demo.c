/* One-shot timers on the pool virtual thread (tp_thread_get_pvt), two records
 * A and B: cb(A) arms B, cb(B) arms A.  Each arm must give exactly one callback.
 *
 * tpt_loop(): every worker that fetched the level-triggered timerfd event takes
 * a snapshot of tpdata (tfd = X, ONESHOT) and then read()s X.  The winner closes
 * X, zeroes the record and runs cb(A), which arms B: timerfd_create() returns
 * the same number X.  A loser that is a few microseconds late now read()s B's
 * expiration through its stale snapshot of A: it closes B's timerfd, and calls
 * A's callback a second time (A fired already and is gone).  B keeps a tpdata
 * that names a closed descriptor and never fires.
 * Traced with --wrap=read/close/timerfd_create/timerfd_settime:
 *   t4555 cb_ok(rec 0); t4555 timerfd_create = 54; t4555 settime(54)   <- arms rec 1
 *   t4565 read(54) = 8; t4565 close(54); t4565 callback for rec 0 (not armed) */
#include <sys/param.h>
#include <sys/types.h>
#include <inttypes.h>
#include <string.h>
#include <stdio.h>
#include <errno.h>
#include <unistd.h>
#include <stdlib.h>
#include <time.h>
#include <stdatomic.h>
#include "threadpool/threadpool.h"

static tp_udata_t u[2];
static atomic_int armed[2];
static atomic_long fired, bad_unarmed, bad_add;
static tpt_p pvt;
static atomic_int stop;

static void
cb(tp_event_p ev, tp_udata_p p) {
	int i = (int)(p - u), o = 1 - i, e;

	if (1 != atomic_exchange(&armed[i], 0)) {
		atomic_fetch_add(&bad_unarmed, 1);
		return;
	}
	atomic_fetch_add(&fired, 1);
	if (atomic_load(&stop)) return;
	atomic_store(&armed[o], 1);
	e = tpt_ev_add_args(pvt, TP_EV_TIMER, TP_F_ONESHOT, TP_FF_T_NSEC, 1, &u[o]);
	if (0 != e) {
		atomic_fetch_add(&bad_add, 1);
		/* try again once: record was cleaned by the failure path. */
		e = tpt_ev_add_args(pvt, TP_EV_TIMER, TP_F_ONESHOT, TP_FF_T_NSEC, 1, &u[o]);
	}
}

int
main(int argc, char **argv) {
	tp_p tp;
	tp_settings_t s;
	int secs = (argc > 1 ? atoi(argv[1]) : 10), i;
	long last = -1;

	if (0 != tp_init()) return (2);
	tp_settings_def(&s);
	s.threads_max = (argc > 2 ? atoi(argv[2]) : 16);
	s.flags = 0;
	if (0 != tp_create(&s, &tp)) return (2);
	if (0 != tp_threads_create(tp, 0)) return (2);
	pvt = tp_thread_get_pvt(tp);
	memset(u, 0, sizeof(u));
	u[0].cb_func = cb; u[0].ident = 1000001;
	u[1].cb_func = cb; u[1].ident = 1000002;
	atomic_store(&armed[0], 1);
	if (0 != tpt_ev_add_args(pvt, TP_EV_TIMER, TP_F_ONESHOT, TP_FF_T_NSEC, 1, &u[0])) return (2);
	for (i = 0; i < secs * 10; i ++) {
		usleep(100000);
		if (atomic_load(&bad_unarmed) || atomic_load(&bad_add)) break;
		if (atomic_load(&fired) == last) { printf("chain stalled at %ld\n", last); break; }
		last = atomic_load(&fired);
	}
	atomic_store(&stop, 1);
	usleep(100000);
	printf("fired=%ld callbacks_for_unarmed_record=%ld add_errors=%ld\n",
	    atomic_load(&fired), atomic_load(&bad_unarmed), atomic_load(&bad_add));
	if (atomic_load(&bad_unarmed) || atomic_load(&bad_add) || i < secs * 10) {
		printf("FAIL\n");
		fflush(stdout);
		_exit(1);
	}
	printf("PASS (no race hit)\n");
	fflush(stdout);
	_exit(0);
}
