#!/bin/sh
# usage: run.sh <tree>
T=${1:-/tmp/hunt/C06}
D=$(cd "$(dirname "$0")" && pwd)
O=$(mktemp -d)
gcc -O1 -g -DHAVE_ACCEPT4 -DHAVE_EXPLICIT_BZERO -DHAVE_MEMMEM -DHAVE_MEMRCHR -DHAVE_PIPE2 \
 -DHAVE_POSIX_SPAWN_FILE_ACTIONS_ADDCLOSEFROM_NP -DHAVE_PTHREAD_SETNAME_NP -DHAVE_REALLOCARRAY \
 -DHAVE_SOCK_CLOEXEC -DHAVE_SOCK_NONBLOCK -DHAVE_STRNCASECMP -DLINUX -D_GNU_SOURCE -D__USE_GNU=1 \
 -I"$T/include" -w "$D/demo.c" "$T/src/threadpool/threadpool.c" "$T/src/threadpool/threadpool_msg_sys.c" \
 -lpthread -o "$O/demo" || { echo "BUILD FAIL"; exit 2; }
timeout 60 "$O/demo"; rc=$?
rm -rf "$O"
exit $rc
