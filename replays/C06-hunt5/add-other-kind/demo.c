/* A live READ record gets a TP_EV_TIMER add on the same tp_udata (what kqueue
 * users do: (ident, filter) pairs share one udata). tpt_ev_add*() returns 0,
 * but the read registration is neither kept working nor refused: it stays in
 * epoll, the loop treats its events as timer events (read(timerfd) -> EAGAIN ->
 * continue), so the READ callback never comes, the worker spins at 100% CPU
 * and tpt_ev_del(READ) answers ENOENT. */
#include <sys/param.h>
#include <sys/types.h>
#include <sys/resource.h>
#include <inttypes.h>
#include <string.h>
#include <stdio.h>
#include <errno.h>
#include <unistd.h>
#include <stdlib.h>
#include <time.h>
#include "threadpool/threadpool.h"

static volatile int rd_cnt = 0, tm_cnt = 0;

static void
cb(tp_event_p ev, tp_udata_p u) {
	char b[64];
	if (TP_EV_READ == ev->event) {
		rd_cnt ++;
		if (read((int)u->ident, b, sizeof(b))) {}
	} else if (TP_EV_TIMER == ev->event) {
		tm_cnt ++;
	}
}

static double
cpu_now(void) {
	struct rusage ru;
	getrusage(RUSAGE_SELF, &ru);
	return (ru.ru_utime.tv_sec + ru.ru_stime.tv_sec +
	    (ru.ru_utime.tv_usec + ru.ru_stime.tv_usec) / 1e6);
}

int
main(void) {
	tp_p tp;
	tp_settings_t s;
	tpt_p tpt;
	tp_udata_t u;
	int p[2], e1, e2, e3, fail = 0;
	double c0, c1;

	if (0 != tp_init()) return (2);
	tp_settings_def(&s);
	s.threads_max = 1;
	s.flags = 0;
	if (0 != tp_create(&s, &tp)) return (2);
	if (0 != tp_threads_create(tp, 0)) return (2);
	tpt = tp_thread_get(tp, 0);
	if (0 != pipe(p)) return (2);

	memset(&u, 0, sizeof(u));
	u.cb_func = cb;
	u.ident = (uintptr_t)p[0];
	e1 = tpt_ev_add_args2(tpt, TP_EV_READ, 0, &u); /* persistent read */
	/* sanity: read works */
	if (write(p[1], "x", 1)) {}
	usleep(100000);
	printf("add READ = %d, read callbacks after 1st write: %d\n", e1, rd_cnt);
	if (0 != e1 || 1 != rd_cnt) { printf("setup broken\n"); return (2); }

	/* Second kind on the same live record: far away one-shot timer. */
	e2 = tpt_ev_add_args(tpt, TP_EV_TIMER, TP_F_ONESHOT, TP_FF_T_SEC, 3600, &u);
	printf("add TIMER on the live READ record = %d (tpdata=0x%016" PRIx64 ")\n", e2, u.tpdata);
	if (0 != e2) {
		printf("OK: second kind refused, read registration must still work\n");
	}
	rd_cnt = 0;
	c0 = cpu_now();
	if (write(p[1], "y", 1)) {}
	usleep(500000);
	c1 = cpu_now();
	printf("after 2nd write: read callbacks=%d timer callbacks=%d cpu used in 0.5 s = %.3f s\n",
	    rd_cnt, tm_cnt, c1 - c0);
	e3 = tpt_ev_del_args1(TP_EV_READ, &u);
	printf("del READ = %d (%s)\n", e3, strerror(e3));

	if (0 == e2 && 0 == rd_cnt) {
		printf("FAIL: both adds returned 0 but the registered+enabled READ event never fires\n");
		fail = 1;
	}
	if ((c1 - c0) > 0.3) {
		printf("FAIL: worker busy-loops on the undelivered event\n");
		fail = 1;
	}
	if (0 == e2 && 0 != e3) {
		printf("FAIL: the accepted READ registration cannot be deleted (still in epoll)\n");
		fail = 1;
	}
	if (0 == fail) printf("PASS\n");
	fflush(stdout);
	_exit(fail);
}
