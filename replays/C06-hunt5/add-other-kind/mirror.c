/* Mirror cases of demo.c (same defect, other kind pairs). */
#include <sys/param.h>
#include <sys/types.h>
#include <sys/wait.h>
#include <inttypes.h>
#include <string.h>
#include <stdio.h>
#include <errno.h>
#include <unistd.h>
#include <stdlib.h>
#include <fcntl.h>
#include "threadpool/threadpool.h"
static volatile int rd_cnt, tm_cnt, pr_cnt;
static void cb(tp_event_p ev, tp_udata_p u) {
	if (TP_EV_READ == ev->event) rd_cnt ++;
	if (TP_EV_TIMER == ev->event) tm_cnt ++;
	if (TP_EV_PROC == ev->event) pr_cnt ++;
}
int main(void) {
	tp_p tp; tp_settings_t s; tpt_p tpt; tp_udata_t u; int p[2], e1, e2, e3, fail = 0, tfd; pid_t pid;
	tp_init(); tp_settings_def(&s); s.threads_max = 1; s.flags = 0;
	if (0 != tp_create(&s, &tp) || 0 != tp_threads_create(tp, 0)) return (2);
	tpt = tp_thread_get(tp, 0);
	if (pipe(p)) return (2);
	/* 1: live periodic timer, then add READ (empty pipe) on the same record. */
	memset(&u, 0, sizeof(u)); u.cb_func = cb; u.ident = (uintptr_t)p[0];
	e1 = tpt_ev_add_args(tpt, TP_EV_TIMER, 0, TP_FF_T_MSEC, 50, &u);
	tfd = (int)(u.tpdata & 0xffffffff) - 1;
	e2 = tpt_ev_add_args2(tpt, TP_EV_READ, 0, &u);
	usleep(300000);
	e3 = tpt_ev_del_args1(TP_EV_TIMER, &u);
	printf("1: add TIMER=%d add READ=%d; in 0.3 s: timer cb=%d read cb (pipe is empty)=%d; del TIMER=%d; timerfd %d still open=%d\n",
	    e1, e2, tm_cnt, rd_cnt, e3, tfd, (-1 != fcntl(tfd, F_GETFD)));
	if (0 == e2 && (rd_cnt > 0 || 0 != e3)) { printf("FAIL 1\n"); fail = 1; }
	tpt_ev_del_args1(TP_EV_READ, &u); close(tfd);
	/* 2: live PROC watch, then add TIMER on the same record. */
	pid = fork(); if (0 == pid) { sleep(1); _exit(7); }
	memset(&u, 0, sizeof(u)); u.cb_func = cb; u.ident = (uintptr_t)pid;
	e1 = tpt_ev_add_args(tpt, TP_EV_PROC, 0, TP_FF_P_EXIT, 0, &u);
	e2 = tpt_ev_add_args(tpt, TP_EV_TIMER, TP_F_ONESHOT, TP_FF_T_SEC, 3600, &u);
	sleep(2);
	printf("2: add PROC=%d add TIMER=%d tpdata=%016" PRIx64 "; child exited: proc cb=%d\n", e1, e2, u.tpdata, pr_cnt);
	if (0 == e1 && 0 == pr_cnt) { printf("FAIL 2: the refused add destroyed the live process watch\n"); fail = 1; }
	fflush(stdout); _exit(fail);
}
