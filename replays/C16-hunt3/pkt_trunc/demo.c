/* pkt receiver: a datagram longer than the window is cut, the callback is told
 * a normal reception (error 0) of window-size bytes; the tail is lost, no report. */
#include <sys/param.h>
#include <sys/types.h>
#include <sys/socket.h>
#include <inttypes.h>
#include <string.h>
#include <stdio.h>
#include <stdlib.h>
#include <errno.h>
#include <unistd.h>
#include <time.h>
#include "threadpool/threadpool.h"
#include "threadpool/threadpool_task.h"

static volatile int cb_calls, cb_errs; static volatile size_t cb_bytes;
static int
rcv_cb(tp_task_p tptask, int error, struct sockaddr_storage *addr,
    io_buf_p buf, size_t tr, void *udata) {
	cb_calls ++; if (error) cb_errs ++; cb_bytes += tr;
	printf("  cb: error=%d transfered=%zu\n", error, tr);
	/* Consume, give the whole buffer again. */
	IO_BUF_MARK_AS_EMPTY(buf); IO_BUF_MARK_TRANSFER_ALL_FREE(buf);
	return (TP_TASK_CB_CONTINUE);
}
static void msleep(int ms) { struct timespec ts = { ms / 1000, (ms % 1000) * 1000000L }; nanosleep(&ts, NULL); }
int
main(void) {
	tp_p tp; tp_settings_t s; tp_task_p task; int sv[2], fail = 0; io_buf_p buf; char pkt[100];
	tp_settings_def(&s); s.threads_max = 1; s.flags = 0;
	if (tp_create(&s, &tp) || tp_threads_create(tp, 0)) return (2);
	if (socketpair(AF_UNIX, SOCK_DGRAM | SOCK_NONBLOCK, 0, sv)) return (2);
	buf = io_buf_alloc(IO_BUF_FLAGS_STD, 64);
	IO_BUF_MARK_TRANSFER_ALL_FREE(buf);
	if (tp_task_pkt_rcvr_create(tp_thread_get(tp, 0), (uintptr_t)sv[0], 0, 0, buf, rcv_cb, NULL, &task)) return (2);
	memset(pkt, 'x', sizeof(pkt));
	send(sv[1], pkt, 100, 0); /* 100 bytes arrive, window is 64. */
	msleep(200);
	printf("arrived 100 bytes in 1 datagram; callbacks=%d bytes=%zu errors=%d\n", cb_calls, cb_bytes, cb_errs);
	if (100 != cb_bytes && 0 == cb_errs) { printf("FAIL: %zu bytes lost and the callback was told error 0\n", 100 - cb_bytes); fail = 1; }
	tp_task_destroy(task); tp_shutdown(tp); tp_shutdown_wait(tp); tp_destroy(tp);
	return (fail);
}
