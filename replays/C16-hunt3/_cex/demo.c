#include <sys/param.h>
#include <sys/types.h>
#include <sys/socket.h>
#include <netinet/in.h>
#include <arpa/inet.h>
#include <inttypes.h>
#include <string.h>
#include <stdio.h>
#include <stdlib.h>
#include <errno.h>
#include <unistd.h>
#include <fcntl.h>
#include <pthread.h>
#include <time.h>
#include "threadpool/threadpool.h"
#include "threadpool/threadpool_task.h"

static void msleep(int ms) { struct timespec ts = { ms / 1000, (ms % 1000) * 1000000L }; nanosleep(&ts, NULL); }
static uint64_t now_ms(void) { struct timespec ts; clock_gettime(CLOCK_MONOTONIC, &ts); return ts.tv_sec * 1000ull + ts.tv_nsec / 1000000; }

static int mk_listen(struct sockaddr_storage *ss, int do_listen, int backlog) {
	int s = socket(AF_INET, SOCK_STREAM, 0); struct sockaddr_in *sin = (void*)ss; socklen_t l = sizeof(*sin);
	memset(ss, 0, sizeof(*ss)); sin->sin_family = AF_INET; sin->sin_addr.s_addr = htonl(INADDR_LOOPBACK);
	bind(s, (void*)sin, sizeof(*sin)); getsockname(s, (void*)sin, &l);
	if (do_listen) listen(s, backlog); 
	return s;
}
static uint64_t t0;
static volatile int ncb, done;
static int log_idx[64], log_err[64];
static int stop_after = -1;
static int ccb(tp_task_p t, int error, tp_task_conn_prms_p p, size_t idx, void *u) {
	printf("   [%4"PRIu64" ms] cb error=%d idx=%zu ident=%d\n", now_ms() - t0, error, idx, (int)tp_task_ident_get(t));
	if (ncb < 64) { log_idx[ncb] = (int)idx; log_err[ncb] = error; }
	ncb ++;
	if (0 == error || -1 == error) done = 1;
	if (stop_after == ncb) { done = 1; return 0; }
	return TP_TASK_CB_CONTINUE;
}

int main(void) {
	tp_p tp; tp_settings_t s; int fail = 0;
	tp_settings_def(&s); s.threads_max = 1; s.flags = 0;
	if (tp_create(&s, &tp) || tp_threads_create(tp, 0)) return 2;
	struct sockaddr_storage a[2]; tp_task_conn_prms_t p; tp_task_p task; int e;
	int l0 = mk_listen(&a[0], 0, 0); /* bound, not listening: refused */
	int l1 = mk_listen(&a[1], 1, 8);

	for (int sc = 0; sc < 6; sc ++) {
		memset(&p, 0, sizeof(p)); ncb = 0; done = 0; stop_after = -1;
		p.addrs = a; p.addrs_count = 2; uint64_t timeout = 100; uint32_t fl = TP_TASK_F_CB_AFTER_EVERY_READ;
		switch (sc) {
		case 0: p.max_tries = 2; p.retry_delay = 20; break; /* non RR */
		case 1: p.max_tries = 2; p.retry_delay = 20; p.flags = TP_TASK_CONNECT_F_ROUND_ROBIN; p.addrs_count = 1; break; /* only closed */
		case 2: p.max_tries = 0; p.retry_delay = 20; p.time_limit = 300; p.addrs_count = 1; break;
		case 3: p.max_tries = 3; p.retry_delay = 30; p.flags = TP_TASK_CONNECT_F_INITIAL_DELAY; p.addrs_count = 1; fl = 0; break;
		case 4: p.max_tries = 3; p.retry_delay = 0; p.addrs_count = 1; break;
		case 5: p.max_tries = 0; p.retry_delay = 10; p.addrs_count = 1; stop_after = 3; break;
		}
		printf("scenario %d\n", sc);
		t0 = now_ms();
		e = tp_task_connect_ex_create(tp_thread_get(tp, 0), fl, timeout, &p, ccb, NULL, &task);
		printf("   create=%d\n", e);
		if (e) continue;
		for (int k = 0; k < 400 && !done; k ++) msleep(5);
		msleep(100);
		printf("   total cbs=%d\n", ncb);
		tp_task_destroy(task);
	}
	tp_shutdown(tp); tp_shutdown_wait(tp); tp_destroy(tp);
	return fail;
}
